"""Signatures of the ops shared by the Rust harness and the Lean driver.
kind tokens: x scalar | Vn Pn Mn Q compound (scalars) | #k index drawn from 0..k+1
             | T* zero or more T"""

SIZES = {"x": 1, "V1": 1, "V2": 2, "V3": 3, "V4": 4, "P1": 1, "P2": 2, "P3": 3,
         "M2": 4, "M3": 9, "M4": 16, "Q": 4}

VEC_GENERIC = {
    "add": "V V", "sub": "V V", "neg": "V", "mul": "V x", "div": "V x", "rem": "V x",
    "add_ew": "V V", "sub_ew": "V V", "mul_ew": "V V", "div_ew": "V V", "rem_ew": "V V",
    "add_ews": "V x", "sub_ews": "V x", "mul_ews": "V x", "div_ews": "V x", "rem_ews": "V x",
    "zero": "", "from_value": "x", "sum": "V", "product": "V", "dot": "V V", "magnitude2": "V",
    "distance2": "V V", "lerp": "V V x", "project_on": "V V", "magnitude": "V", "distance": "V V",
    "normalize": "V", "normalize_to": "V x", "angle": "V V", "is_zero": "V",
    "is_perpendicular": "V V", "index": "V #n", "sum_list": "V*", "sum_list_ref": "V*",
}
VEC_SPECIAL = {
    "v2.perp_dot": "V2 V2", "v3.cross": "V3 V3", "v2.extend": "V2 x", "v3.extend": "V3 x",
    "v3.truncate": "V3", "v4.truncate": "V4", "v4.truncate_n": "V4 #4",
    "v1.unit_x": "", "v2.unit_x": "", "v2.unit_y": "", "v3.unit_x": "", "v3.unit_y": "",
    "v3.unit_z": "", "v4.unit_x": "", "v4.unit_y": "", "v4.unit_z": "", "v4.unit_w": "",
    "dot.v3": "V3 V3",
}
POINT_GENERIC = {
    "add_v": "P V", "sub_v": "P V", "sub_p": "P P", "mul": "P x", "div": "P x", "rem": "P x",
    "add_ew": "P P", "sub_ew": "P P", "mul_ew": "P P", "div_ew": "P P", "rem_ew": "P P",
    "add_ews": "P x", "sub_ews": "P x", "mul_ews": "P x", "div_ews": "P x", "rem_ews": "P x",
    "origin": "", "from_vec": "V", "to_vec": "P", "from_value": "x", "sum": "P", "product": "P",
    "dot": "P V", "distance2": "P P", "distance": "P P", "midpoint": "P P", "centroid": "P*",
    "index": "P #n",
}
POINT_SPECIAL = {"p3.to_homogeneous": "P3", "p3.from_homogeneous": "V4"}
MAT_GENERIC = {
    "id": "M", "row": "M #n", "col": "M #n", "transpose": "M", "transpose_self": "M",
    "diagonal": "M", "trace": "M", "from_value": "x", "from_diagonal": "V", "identity": "",
    "one": "", "zero": "", "add": "M M", "sub": "M M", "neg": "M", "mul_s": "M x", "div_s": "M x",
    "rem_s": "M x", "mul_v": "M V", "mul": "M M", "det": "M", "invert": "M",
    "swap_rows": "M #n #n", "swap_columns": "M #n #n", "swap_elements": "M #n #n #n #n",
    "replace_col": "M #n V", "sum_list": "M*", "product_list": "M*", "product_list_ref": "M*",
}
MAT_SPECIAL = {
    "m2.new": "x x x x", "m3.new": "x " * 9, "m4.new": "x " * 16,
    "m3.from_translation": "V2", "m4.from_translation": "V3", "m3.from_scale": "x",
    "m4.from_scale": "x", "m3.from_nonuniform_scale": "x x", "m4.from_nonuniform_scale": "x x x",
    "m2.to_m3": "M2", "m2.to_m4": "M2", "m3.to_m4": "M3",
    "m3.transform_vector2": "M3 V2", "m3.transform_point2": "M3 P2",
    "m3.transform_vector": "M3 V3", "m3.transform_point": "M3 P3",
    "m4.transform_vector": "M4 V3", "m4.transform_point": "M4 P3",
    "m3.concat2": "M3 M3", "m3.concat": "M3 M3", "m4.concat": "M4 M4",
    "m3.concat_self2": "M3 M3", "m4.concat_self": "M4 M4",
    "m3.inverse_transform2": "M3", "m3.inverse_transform": "M3", "m4.inverse_transform": "M4",
    "m3.inverse_transform_vector2": "M3 V2", "m3.inverse_transform_vector": "M3 V3",
    "m4.inverse_transform_vector": "M4 V3",
}


def build():
    sig = {}
    for n in (1, 2, 3, 4):
        for op, s in VEC_GENERIC.items():
            sig[f"v{n}.{op}"] = s.replace("V", f"V{n}").replace("#n", f"#{n}").split()
    for k, s in VEC_SPECIAL.items():
        sig[k] = s.split()
    for n in (1, 2, 3):
        for op, s in POINT_GENERIC.items():
            sig[f"p{n}.{op}"] = s.replace("P", f"P{n}").replace("V", f"V{n}").replace("#n", f"#{n}").split()
    for k, s in POINT_SPECIAL.items():
        sig[k] = s.split()
    for n in (2, 3, 4):
        for op, s in MAT_GENERIC.items():
            sig[f"m{n}.{op}"] = s.replace("M", f"M{n}").replace("V", f"V{n}").replace("#n", f"#{n}").split()
    for k, s in MAT_SPECIAL.items():
        sig[k] = s.split()
    return sig


SIG = build()
