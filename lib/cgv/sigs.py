"""Signatures of the ops shared by the Rust harness and the Lean driver.
kind tokens: x scalar | Vn Pn Mn Q compound (scalars) | #k index drawn from 0..k+1
             | T* zero or more T"""

SIZES = {"x": 1, "V1": 1, "V2": 2, "V3": 3, "V4": 4, "P1": 1, "P2": 2, "P3": 3,
         "M2": 4, "M3": 9, "M4": 16, "Q": 4}

VEC_GENERIC = {
    "add": "V V", "sub": "V V", "neg": "V", "mul": "V x", "div": "V x", "rem": "V x",
    "add_ew": "V V", "sub_ew": "V V", "mul_ew": "V V", "div_ew": "V V", "rem_ew": "V V",
    "add_ews": "V x", "sub_ews": "V x", "mul_ews": "V x", "div_ews": "V x", "rem_ews": "V x",
    "zero": "", "from_value": "x", "sum": "V", "product": "V", "dot": "V V", "magnitude2": "V",
    "distance2": "V V", "lerp": "V V x", "project_on": "V V", "magnitude": "V", "distance": "V V",
    "normalize": "V", "normalize_to": "V x", "angle": "V V", "is_zero": "V",
    "is_perpendicular": "V V", "index": "V #n", "sum_list": "V*", "sum_list_ref": "V*",
}
VEC_SPECIAL = {
    "v2.perp_dot": "V2 V2", "v3.cross": "V3 V3", "v2.extend": "V2 x", "v3.extend": "V3 x",
    "v3.truncate": "V3", "v4.truncate": "V4", "v4.truncate_n": "V4 #4",
    "v1.unit_x": "", "v2.unit_x": "", "v2.unit_y": "", "v3.unit_x": "", "v3.unit_y": "",
    "v3.unit_z": "", "v4.unit_x": "", "v4.unit_y": "", "v4.unit_z": "", "v4.unit_w": "",
    "dot.v3": "V3 V3",
}
POINT_GENERIC = {
    "add_v": "P V", "sub_v": "P V", "sub_p": "P P", "mul": "P x", "div": "P x", "rem": "P x",
    "add_ew": "P P", "sub_ew": "P P", "mul_ew": "P P", "div_ew": "P P", "rem_ew": "P P",
    "add_ews": "P x", "sub_ews": "P x", "mul_ews": "P x", "div_ews": "P x", "rem_ews": "P x",
    "origin": "", "from_vec": "V", "to_vec": "P", "from_value": "x", "sum": "P", "product": "P",
    "dot": "P V", "distance2": "P P", "distance": "P P", "midpoint": "P P", "centroid": "P*",
    "index": "P #n",
}
POINT_SPECIAL = {"p3.to_homogeneous": "P3", "p3.from_homogeneous": "V4"}
MAT_GENERIC = {
    "id": "M", "row": "M #n", "col": "M #n", "transpose": "M", "transpose_self": "M",
    "diagonal": "M", "trace": "M", "from_value": "x", "from_diagonal": "V", "identity": "",
    "one": "", "zero": "", "add": "M M", "sub": "M M", "neg": "M", "mul_s": "M x", "div_s": "M x",
    "rem_s": "M x", "mul_v": "M V", "mul": "M M", "det": "M", "invert": "M",
    "swap_rows": "M #n #n", "swap_columns": "M #n #n", "swap_elements": "M #n #n #n #n",
    "replace_col": "M #n V", "sum_list": "M*", "product_list": "M*", "product_list_ref": "M*",
}
MAT_SPECIAL = {
    "m2.new": "x x x x", "m3.new": "x " * 9, "m4.new": "x " * 16,
    "m3.from_translation": "V2", "m4.from_translation": "V3", "m3.from_scale": "x",
    "m4.from_scale": "x", "m3.from_nonuniform_scale": "x x", "m4.from_nonuniform_scale": "x x x",
    "m2.to_m3": "M2", "m2.to_m4": "M2", "m3.to_m4": "M3",
    "m3.transform_vector2": "M3 V2", "m3.transform_point2": "M3 P2",
    "m3.transform_vector": "M3 V3", "m3.transform_point": "M3 P3",
    "m4.transform_vector": "M4 V3", "m4.transform_point": "M4 P3",
    "m3.concat2": "M3 M3", "m3.concat": "M3 M3", "m4.concat": "M4 M4",
    "m3.concat_self2": "M3 M3", "m4.concat_self": "M4 M4", "m3.concat_self": "M3 M3",
    "m3.inverse_transform2": "M3", "m3.inverse_transform": "M3", "m4.inverse_transform": "M4",
    "m3.inverse_transform_vector2": "M3 V2", "m3.inverse_transform_vector": "M3 V3",
    "m4.inverse_transform_vector": "M4 V3",
}


QUAT = {
    "q.new": "x x x x", "q.from_sv": "x V3", "q.conjugate": "Q", "q.neg": "Q", "q.add": "Q Q", "q.sub": "Q Q",
    "q.mul_s": "Q x", "q.div_s": "Q x", "q.rem_s": "Q x", "q.mul": "Q Q", "q.mul_v": "Q V3", "q.dot": "Q Q",
    "q.magnitude2": "Q", "q.magnitude": "Q", "q.normalize": "Q", "q.normalize_to": "Q x", "q.distance2": "Q Q",
    "q.distance": "Q Q", "q.angle": "Q Q", "q.project_on": "Q Q", "q.lerp": "Q Q x", "q.nlerp": "Q Q x",
    "q.slerp": "Q Q x", "q.one": "", "q.zero": "", "q.invert": "Q", "q.rotate_vector": "Q V3",
    "q.rotate_point": "Q P3", "q.sum_list": "Q*", "q.sum_list_ref": "Q*", "q.product_list": "Q*",
    "q.product_list_ref": "Q*", "q.to_m3": "Q", "q.to_m4": "Q", "q.to_basis3": "Q", "m3.to_quat": "M3",
    "b3.to_quat": "Q", "b3.to_m3": "Q", "b3.one": "", "b3.mul": "Q Q", "b3.rotate_vector": "Q V3",
    "b3.rotate_point": "Q P3", "b3.invert": "Q", "b3.product_list": "Q*", "b3.product_list_ref": "Q*",
    "b2.one": "", "b2.from_angle": "x", "b2.from_angle_deg": "x", "b2.mul": "x x", "b2.rotate_vector": "x V2",
    "b2.rotate_point": "x P2", "b2.invert": "x", "b2.product_list": "x*", "m2.from_angle": "x",
    "m2.from_angle_deg": "x", "m3.from_angle_x": "x", "m3.from_angle_y": "x", "m3.from_angle_z": "x",
    "m3.from_axis_angle": "V3 x", "m3.from_axis_angle_deg": "V3 x", "m4.from_angle_x": "x",
    "m4.from_angle_x_deg": "x", "m4.from_angle_y": "x", "m4.from_angle_z": "x", "m4.from_axis_angle": "V3 x",
    "b3.from_angle_x": "x", "b3.from_angle_y": "x", "b3.from_angle_z": "x", "b3.from_axis_angle": "V3 x",
    "q.from_angle_x": "x", "q.from_angle_y": "x", "q.from_angle_z": "x", "q.from_axis_angle": "V3 x",
    "q.from_axis_angle_deg": "V3 x", "m3.from_euler": "x x x", "m3.from_euler_deg": "x x x",
    "m4.from_euler": "x x x", "b3.from_euler": "x x x", "q.from_euler": "x x x", "q.from_euler_deg": "x x x",
    "q.to_euler": "Q", "m2.look_at": "V2 V2", "m2.look_at_stable": "V2 #b", "b2.look_at": "V2 V2",
    "b2.look_at_stable": "V2 #b", "m3.look_to_lh": "V3 V3", "m3.look_to_rh": "V3 V3", "m3.look_at_dep": "V3 V3",
    "m4.look_to_rh": "P3 V3 V3", "m4.look_to_lh": "P3 V3 V3", "m4.look_at_rh": "P3 P3 V3",
    "m4.look_at_lh": "P3 P3 V3", "m4.look_at_dep": "P3 P3 V3", "m4.look_at_dir_dep": "P3 V3 V3",
    "m3.tlook_at2": "P2 P2 V2", "m3.tlook_at2_lh": "P2 P2 V2", "m3.tlook_at2_rh": "P2 P2 V2",
    "m3.tlook_at": "P3 P3 V3", "m3.tlook_at_lh": "P3 P3 V3", "m3.tlook_at_rh": "P3 P3 V3",
    "m4.tlook_at": "P3 P3 V3", "m4.tlook_at_lh": "P3 P3 V3", "m4.tlook_at_rh": "P3 P3 V3",
    "q.look_at": "V3 V3", "b3.look_at": "V3 V3", "q.between_vectors": "V3 V3", "b3.between_vectors": "V3 V3",
    "b2.between_vectors": "V2 V2", "q.from_arc": "V3 V3", "q.from_arc_fb": "V3 V3 V3",
}


DEC = {"one": "", "id": "D", "transform_vector": "D V", "transform_point": "D P", "concat": "D D", "mul": "D D",
       "concat_self": "D D", "inverse_transform": "D", "inverse_transform_vector": "D V", "look_at": "P P V",
       "look_at_lh": "P P V", "look_at_rh": "P P V", "to_matrix": "D"}
ANGLE = {"to_rad": "x", "to_deg": "x", "full_turn": "", "turn_div_2": "", "turn_div_3": "", "turn_div_4": "",
         "turn_div_6": "", "normalize": "x", "normalize_signed": "x", "opposite": "x", "bisect": "x x", "sin": "x",
         "cos": "x", "tan": "x", "sin_cos": "x", "csc": "x", "sec": "x", "cot": "x", "asin": "x", "acos": "x",
         "atan": "x", "atan2": "x x", "add": "x x", "sub": "x x", "neg": "x", "mul_s": "x x", "div_s": "x x",
         "div_a": "x x", "rem": "x x", "zero": "", "is_zero": "x", "sum_list": "x*", "sum_list_ref": "x*"}
PROJ = {"proj.ortho": "x x x x x x", "proj.ortho_s": "x x x x x x", "proj.frustum": "x x x x x x",
        "proj.frustum_s": "x x x x x x", "proj.perspective": "x x x x", "proj.perspective_s": "x x x x",
        "proj.perspective_deg": "x x x x", "proj.planar": "x x x x x", "proj.planar_s": "x x x x x",
        "proj.to_perspective": "x x x x"}

# operations added for C18 / C16 (harness/src/ops/extra.rs, lean/Cgm/Driver/OpsExtra.lean); `T` is the type itself.
# They are NOT picked up by `ops_with_prefix` (props.py): they belong to C18 / C16 only.
APPROX_TYPES = {"v1": "V1", "v2": "V2", "v3": "V3", "v4": "V4", "p1": "P1", "p2": "P2", "p3": "P3",
                "m2": "M2", "m3": "M3", "m4": "M4", "q": "Q", "rad": "x", "deg": "x"}
APPROX = {"abs_diff_eq": "T T x", "relative_eq": "T T x x", "ulps_eq": "T T x #8",
          "abs_diff_eq_d": "T T", "relative_eq_d": "T T", "ulps_eq_d": "T T"}
ARRAY_TYPES = {"v1": "V1", "v2": "V2", "v3": "V3", "v4": "V4", "p1": "P1", "p2": "P2", "p3": "P3"}
ARRAY = {"set": "T x #n", "swap_elements": "T #n #n"}
EXTRA_SPECIAL = {"q.index": "Q #4", "q.set": "Q x #4", "m2.set": "M2 x #2 #2", "m3.set": "M3 x #3 #3", "m4.set": "M4 x #4 #4"}


def extra_ops():
    sig = {}
    for ty, k in APPROX_TYPES.items():
        for op, s in APPROX.items():
            sig[f"{ty}.{op}"] = s.replace("T", k).split()
    for ty, k in ARRAY_TYPES.items():
        for op, s in ARRAY.items():
            sig[f"{ty}.{op}"] = s.replace("T", k).replace("#n", "#" + k[1]).split()
    for k, s in EXTRA_SPECIAL.items():
        sig[k] = s.split()
    return sig


EXTRA = extra_ops()
C18_OPS = [k for k in EXTRA if k.split(".")[1] in APPROX]
C16_OPS = [k for k in EXTRA if k not in C18_OPS]


# operand FORMS of the operators, added for C17 (harness/src/ops/extra2.rs, lean/Cgm/Driver/OpsExtra2.lean; generated
# from THIS table by tools/gen_c17_forms.py).  `<t>.<op>.<form>`: `rv` = `&a op b`, `vr` = `a op &b`, `rr` = `&a op &b`,
# `asg` = `a op= b` (returns the updated `a`), `r` = `-&a`.  Only the forms the crate implements (inventory/ops_impls.txt):
# no reference form of a scalar operand, no `*=` for m*m / q*q / m*v / q*v, no `p -= p`, no `a /= a`, no `-&v` for vectors.
# (types, by-value op, signature with T = the type, V = its vector type, forms)
_BIN, _BINA, _SCA, _NEG = ("rv", "vr", "rr"), ("rv", "vr", "rr", "asg"), ("rv", "asg"), ("r",)
FORM_FAMILIES = [
    (("v1", "v2", "v3", "v4"), "add", "T T", _BINA), (("v1", "v2", "v3", "v4"), "sub", "T T", _BINA),
    (("v1", "v2", "v3", "v4"), "mul", "T x", _SCA), (("v1", "v2", "v3", "v4"), "div", "T x", _SCA),
    (("v1", "v2", "v3", "v4"), "rem", "T x", _SCA),
    (("m2", "m3", "m4"), "add", "T T", _BINA), (("m2", "m3", "m4"), "sub", "T T", _BINA),
    (("m2", "m3", "m4"), "mul_s", "T x", _SCA), (("m2", "m3", "m4"), "div_s", "T x", _SCA),
    (("m2", "m3", "m4"), "rem_s", "T x", _SCA), (("m2", "m3", "m4"), "mul", "T T", _BIN),
    (("m2", "m3", "m4"), "mul_v", "T V", _BIN), (("m2", "m3", "m4"), "neg", "T", _NEG),
    (("q",), "add", "T T", _BINA), (("q",), "sub", "T T", _BINA), (("q",), "mul_s", "T x", _SCA),
    (("q",), "div_s", "T x", _SCA), (("q",), "rem_s", "T x", _SCA), (("q",), "mul", "T T", _BIN),
    (("q",), "mul_v", "T V", _BIN), (("q",), "neg", "T", _NEG),
    (("p1", "p2", "p3"), "add_v", "T V", _BINA), (("p1", "p2", "p3"), "sub_v", "T V", _BINA),
    (("p1", "p2", "p3"), "sub_p", "T T", _BIN), (("p1", "p2", "p3"), "mul", "T x", _SCA),
    (("p1", "p2", "p3"), "div", "T x", _SCA), (("p1", "p2", "p3"), "rem", "T x", _SCA),
    (("rad", "deg"), "add", "T T", _BINA), (("rad", "deg"), "sub", "T T", _BINA), (("rad", "deg"), "rem", "T T", _BINA),
    (("rad", "deg"), "mul_s", "T x", _SCA), (("rad", "deg"), "div_s", "T x", _SCA), (("rad", "deg"), "div_a", "T T", _BIN),
    (("rad", "deg"), "neg", "T", _NEG),
]
FORM_KIND = dict(APPROX_TYPES)     # type -> kind token
FORM_VEC = {"m2": "V2", "m3": "V3", "m4": "V4", "q": "V3", "p1": "V1", "p2": "V2", "p3": "V3"}


def form_ops():
    """[(name, type, by-value op, form, signature)]"""
    out = []
    for tys, op, sg, forms in FORM_FAMILIES:
        for ty in tys:
            sig = [FORM_KIND[ty] if k == "T" else FORM_VEC[ty] if k == "V" else k for k in sg.split()]
            for f in forms:
                out.append((f"{ty}.{op}.{f}", ty, op, f, sig))
    return out


FORMS = form_ops()
# `Sum<&'a MatrixN>` (`iter().sum()`) and `Product<&'a Basis2>` (`iter().product()`): the by-reference iterator impls that had no op
FOLD_REF_OPS = {"m2.sum_list_ref": ["M2*"], "m3.sum_list_ref": ["M3*"], "m4.sum_list_ref": ["M4*"], "b2.product_list_ref": ["x*"]}
EXTRA2 = {name: sig for name, _, _, _, sig in FORMS}
EXTRA2.update(FOLD_REF_OPS)
C17_FORM_OPS = list(EXTRA2)


# C18, further types (harness/src/ops/extra3.rs, lean/Cgm/Driver/OpsExtra3.lean): the approx relations of `Euler<Rad>` (three
# angles), `Decomposed<Vector3, Quaternion>` (scale, rotation `s x y z`, displacement), `Basis2` (given as an angle, built with
# `from_angle`) and `Basis3` (given as a quaternion, built with `from_quaternion`); op names as in APPROX
APPROX_TYPES3 = {"euler": "x x x", "dq": "x Q V3", "b2": "x", "b3": "Q"}
EXTRA3 = {f"{ty}.{op}": sg.replace("T", k).split() for ty, k in APPROX_TYPES3.items() for op, sg in APPROX.items()}
C18_OPS3 = list(EXTRA3)


def build():
    sig = {}
    for n in (1, 2, 3, 4):
        for op, s in VEC_GENERIC.items():
            sig[f"v{n}.{op}"] = s.replace("V", f"V{n}").replace("#n", f"#{n}").split()
    for k, s in VEC_SPECIAL.items():
        sig[k] = s.split()
    for n in (1, 2, 3):
        for op, s in POINT_GENERIC.items():
            sig[f"p{n}.{op}"] = s.replace("P", f"P{n}").replace("V", f"V{n}").replace("#n", f"#{n}").split()
    for k, s in POINT_SPECIAL.items():
        sig[k] = s.split()
    for n in (2, 3, 4):
        for op, s in MAT_GENERIC.items():
            sig[f"m{n}.{op}"] = s.replace("M", f"M{n}").replace("V", f"V{n}").replace("#n", f"#{n}").split()
    for k, s in MAT_SPECIAL.items():
        sig[k] = s.split()
    for k, v in QUAT.items():
        sig[k] = v.split()
    for ty, (d, p, vv) in {"dq": ("x Q V3", "P3", "V3"), "db3": ("x Q V3", "P3", "V3"), "db2": ("x x V2", "P2", "V2")}.items():
        for op, sg in DEC.items():
            sig[f"{ty}.{op}"] = sg.replace("D", d).replace("P", p).replace("V ", vv + " ").split() if not sg.endswith("V") \
                else (sg[:-1].replace("D", d).replace("P", p) + vv).split()
    for ty in ("rad", "deg"):
        for op, sg in ANGLE.items():
            sig[f"{ty}.{op}"] = sg.split()
    for k, v in PROJ.items():
        sig[k] = v.split()
    sig.update(EXTRA)
    sig.update(EXTRA2)
    sig.update(EXTRA3)
    return sig


SIG = build()
