"""Layer T: regenerate lean/Cgm/Gen/<ID>.lean from /repo's current source (by running the real code at the
recording scalar on symbolic inputs) and re-check the static obligations lean/Cgm/Trace/<ID>.lean against it."""
import os, re
from . import core
from .core import MachineryError, LEAN
from .tracetab import TRACE


def _theorem_spans(path):
    spans = []
    lines = open(path).read().split("\n")
    for i, l in enumerate(lines, 1):
        m = re.match(r"theorem\s+(\S+)", l)
        if m:
            spans.append((i, m.group(1)))
    return spans


def _regen(pid):
    """run the real code of property `pid`'s kernels at the recording scalar and (re)write lean/Cgm/Gen/<pid>.lean"""
    ks = TRACE.get(pid) or []
    inp = "".join(f"{k} {op}\n" for k, op in ks)
    p = core.subprocess.run([core.BIN_IMPL, "trace", pid], input=inp, stdout=core.subprocess.PIPE,
                            stderr=core.subprocess.PIPE, text=True, timeout=600)
    if p.returncode != 0:
        raise MachineryError(f"cgverif trace failed: {p.stderr[-2000:]}")
    gen = p.stdout
    os.makedirs(f"{LEAN}/Cgm/Gen", exist_ok=True)
    gpath = f"{LEAN}/Cgm/Gen/{pid}.lean"
    if not os.path.exists(gpath) or open(gpath).read() != gen:
        open(gpath, "w").write(gen)
    return gen


def _foreign_pids(pid):
    """other properties whose generated kernels the T / E2E modules of `pid` use (transitively through Cgm.Trace.* and
    Cgm.E2E.* imports): their Gen files are regenerated in the same run, so that every theorem checked for `pid` is
    about the code as it is now"""
    import glob as _glob
    seen, todo, out = set(), [], set()
    for d in ("Trace", "E2E"):
        todo += [f for f in _glob.glob(f"{LEAN}/Cgm/{d}/{pid}*.lean")]
    while todo:
        f = todo.pop()
        if f in seen or not os.path.exists(f):
            continue
        seen.add(f)
        for m in re.finditer(r"^import Cgm\.(Gen|Trace|E2E)\.(C\d\d)(\w*)", open(f).read(), re.M):
            if m.group(2) != pid:
                out.add(m.group(2))
            if m.group(1) != "Gen":
                todo.append(f"{LEAN}/Cgm/{m.group(1)}/{m.group(2)}{m.group(3)}.lean")
    return sorted(out)


def run_trace(P, pid, tier, rng):
    ks = TRACE.get(pid) or []
    res = {"obligations": len(ks), "discharged": 0, "kernels": [k for k, _ in ks], "failed": [], "nodes": 0}
    if not ks:
        return res
    gen = _regen(pid)
    res["nodes"] = gen.count("\n  let n")
    foreign = _foreign_pids(pid)
    for fp in foreign:
        _regen(fp)
    res["foreign_gen"] = foreign
    failed = {}
    for m in re.finditer(r"-- TRACE-ERROR (\S+) (.*)", gen):
        failed[m.group(1)] = f"T:{m.group(1)}: the real code could not be traced on the shadow input ({m.group(2)})"
    # hand-written obligations (Trace/<pid>.lean) and the ones generated from the driver tables (Trace/<pid>Auto.lean)
    import glob as _glob
    mods = sorted(os.path.basename(f)[:-5] for f in _glob.glob(f"{LEAN}/Cgm/Trace/{pid}*.lean")
                  if re.fullmatch(r"%s([A-Z][A-Za-z]*)?" % pid, os.path.basename(f)[:-5]))
    if not mods:
        raise MachineryError(f"missing Cgm/Trace/{pid}.lean")
    spans_of = {m: _theorem_spans(f"{LEAN}/Cgm/Trace/{m}.lean") for m in mods}
    names = {n for m in mods for _, n in spans_of[m]}
    for k, _ in ks:
        if k not in names:
            raise MachineryError(f"kernel {k} has no obligation in Cgm/Trace/{pid}[Auto].lean")
    rc, out = core.lake_build([f"Cgm.Trace.{m}" for m in mods])
    # end-to-end corollaries (property clauses stated about the regenerated kernels): built when the obligations they
    # compose still hold; a failure there is reported like a failed obligation
    emods = sorted(os.path.basename(f)[:-5] for f in _glob.glob(f"{LEAN}/Cgm/E2E/{pid}*.lean")
                   if re.fullmatch(r"%s[a-z]?" % pid, os.path.basename(f)[:-5]))
    e2e = bool(emods)
    res["e2e_theorems"] = 0
    if rc == 0 and e2e:
        espans_of = {m: _theorem_spans(f"{LEAN}/Cgm/E2E/{m}.lean") for m in emods}
        espans = [x for m in emods for x in espans_of[m]]
        res["e2e_theorems"] = len(espans)
        rc_e, out_e = core.lake_build([f"Cgm.E2E.{m}" for m in emods])
        if rc_e != 0:
            hit = False
            for m in re.finditer(r"error: (?:\./)?Cgm/E2E/(%s[a-z]?)\.lean:(\d+):" % pid, out_e):
                ln = int(m.group(2))
                owner = None
                for (start, name) in espans_of.get(m.group(1), []):
                    if start <= ln:
                        owner = name
                if owner:
                    hit = True
                    failed.setdefault("E2E." + owner, f"T:E2E.{owner}: the end-to-end theorem `Cg.E2E.{pid}.{owner}` no longer checks "
                                                      f"against the definitions regenerated from the source (Cgm/E2E/{pid}.lean:{ln})")
            # an end-to-end theorem of this property that composes kernels of another property whose obligations no
            # longer check against the regenerated definitions
            for m in re.finditer(r"error: (?:\./)?Cgm/(Gen|Trace|E2E)/(C\d\d)(\w*)\.lean:(\d+):", out_e):
                if m.group(2) != pid:
                    hit = True
                    failed.setdefault("E2E.via." + m.group(2) + m.group(3),
                                      f"T:E2E: end-to-end theorems of {pid} use kernels of {m.group(2)} "
                                      f"(Cgm/{m.group(1)}/{m.group(2)}{m.group(3)}.lean:{m.group(4)}) whose obligations no longer check "
                                      f"against the definitions regenerated from the source")
            if not hit:
                raise MachineryError(f"lake build Cgm.E2E.{pid} failed for another reason:\n{out_e[-3000:]}")
        else:
            apath = f"Cgm/Audit/E{pid}.lean"
            if not os.path.exists(f"{LEAN}/{apath}"):
                raise MachineryError(f"missing {apath}")
            asrc = open(f"{LEAN}/{apath}").read()
            for m in emods:
                if f"import Cgm.E2E.{m}" not in asrc:
                    raise MachineryError(f"{apath} does not import Cgm.E2E.{m}")
            rc2, out2 = core.run(["lake", "env", "lean", apath], cwd=LEAN, timeout=900)
            if rc2 != 0:
                raise MachineryError(f"audit of end-to-end theorems failed:\n{out2[-2000:]}")
            n_aud = 0
            for line in out2.split("\n"):
                if line.startswith("THEOREM "):
                    n_aud += 1
                    axs = {a.strip() for a in line.split(" AXIOMS ")[1].strip().strip("[]").split(",") if a.strip()}
                    if not axs <= core.STD_AXIOMS:
                        raise MachineryError(f"end-to-end theorem {line.split(' ')[1]} uses non-standard axioms {axs}")
            if n_aud < len(espans):
                raise MachineryError(f"audit of Cgm.E2E.{pid} saw {n_aud} theorems, the file has {len(espans)}")
    if rc != 0:
        hit = False
        for m in re.finditer(r"error: (?:\./)?Cgm/Trace/(%s(?:[A-Z][A-Za-z]*)?)\.lean:(\d+):" % pid, out):
            mod, ln = m.group(1), int(m.group(2))
            owner = None
            for (start, name) in spans_of.get(mod, []):
                if start <= ln:
                    owner = name
            if owner:
                hit = True
                failed.setdefault(owner, f"T:{owner}: the obligation `Cg.Trace.{mod}.{owner}` no longer checks against the "
                                         f"definition regenerated from the source (Cgm/Trace/{mod}.lean:{ln})")
        if re.search(r"error: (?:\./)?Cgm/Gen/%s\.lean" % pid, out):
            hit = True
            for k, _ in ks:
                failed.setdefault(k, f"T:{k}: the regenerated Cgm/Gen/{pid}.lean does not elaborate")
        if not hit:
            raise MachineryError(f"lake build Cgm.Trace.{pid} failed for another reason:\n{out[-3000:]}")
    else:
        # axioms of the obligations
        seen = {}
        for mod in mods:
            apath = f"Cgm/Audit/T{mod}.lean"
            if not os.path.exists(f"{LEAN}/{apath}"):
                raise MachineryError(f"missing {apath}")
            rc2, out2 = core.run(["lake", "env", "lean", apath], cwd=LEAN, timeout=900)
            if rc2 != 0:
                raise MachineryError(f"audit of trace obligations failed:\n{out2[-2000:]}")
            for line in out2.split("\n"):
                if line.startswith("THEOREM "):
                    name = line.split(" ")[1].split(".")[-1]
                    axs = {a.strip() for a in line.split(" AXIOMS ")[1].strip().strip("[]").split(",") if a.strip()}
                    seen[name] = axs
        for k, _ in ks:
            if k not in seen:
                raise MachineryError(f"obligation {k} not found by the audit")
            if not seen[k] <= core.STD_AXIOMS:
                raise MachineryError(f"obligation {k} uses non-standard axioms {seen[k]}")
    res["failed"] = [failed[k] for k, _ in ks if k in failed] + [v for k, v in failed.items() if k not in {a for a, _ in ks}]
    res["discharged"] = len(ks) - len([k for k, _ in ks if k in failed])
    return res
