"""Layer T kernel table, the operations added for C18 / C16 (harness/src/ops/extra.rs, lean/Cgm/Driver/OpsExtra.lean;
obligations in lean/Cgm/Trace/<pid>Ops*.lean, one theorem per kernel with the same name; generated once by
tools/gen_ops_obl.py from THIS table).  Same format as tracetab.MANUAL: (kernel name, op line); scalar arguments are
the shadow input selecting the path, `#i` are indices (literals of the traced kernel).

C18, the three approx relations with explicit tolerances: the `&&` chain over the components short-circuits, so there
is one kernel per stopping position: `_true` (all components within tolerance) and `_false_k` (components 0..k-1
within tolerance, component k -- in the flattening order of the type -- not).  Shadow input: `b = a` except
`b[k] = a[k] + 1`, with `epsilon = 1/2`, `max_relative = 1/1000`, `max_ulps = 4`.  Default-tolerance macro forms
(`_d`): `_true` and `_false_0`.
C16: every in-range index (tuple) and one out-of-range (`_oob`: the code panics)."""

from .tracetab import _seq

# type -> number of scalar components (flattening order of the harness / the Lean `toList`)
APPROX_TYPES = {"v1": 1, "v2": 2, "v3": 3, "v4": 4, "p1": 1, "p2": 2, "p3": 3, "m2": 4, "m3": 9, "m4": 16, "q": 4,
                "rad": 1, "deg": 1}
REL_TAIL = {"abs_diff_eq": "1/2", "relative_eq": "1/2 1/1000", "ulps_eq": "1/2 #4"}


def _pair(n, k=None):
    a = [int(x) for x in _seq(n).split()]
    b = list(a)
    if k is not None:
        b[k] += 1
    return " ".join(str(x) for x in a + b)


def approx_kernels():
    ks = []
    for ty, n in APPROX_TYPES.items():
        for rel, tail in REL_TAIL.items():
            ks.append((f"t_{ty}_{rel}_true", f"{ty}.{rel} {_pair(n)} {tail}"))
            for k in range(n):
                ks.append((f"t_{ty}_{rel}_false_{k}", f"{ty}.{rel} {_pair(n, k)} {tail}"))
        for rel in REL_TAIL:
            ks.append((f"t_{ty}_{rel}_d_true", f"{ty}.{rel}_d {_pair(n)}"))
            ks.append((f"t_{ty}_{rel}_d_false_0", f"{ty}.{rel}_d {_pair(n, 0)}"))
    return ks


ARRAY_TYPES = {"v1": 1, "v2": 2, "v3": 3, "v4": 4, "p1": 1, "p2": 2, "p3": 3}


def index_kernels():
    ks = []
    q = _seq(4)
    ks += [(f"t_q_index_{i}", f"q.index {q} #{i}") for i in range(4)] + [("t_q_index_4_oob", f"q.index {q} #4")]
    ks += [(f"t_q_set_{i}", f"q.set {q} 11 #{i}") for i in range(4)] + [("t_q_set_4_oob", f"q.set {q} 11 #4")]
    for ty, n in ARRAY_TYPES.items():
        a = _seq(n)
        ks += [(f"t_{ty}_set_{i}", f"{ty}.set {a} 11 #{i}") for i in range(n)]
        ks.append((f"t_{ty}_set_{n}_oob", f"{ty}.set {a} 11 #{n}"))
        ks += [(f"t_{ty}_swap_elements_{i}_{j}", f"{ty}.swap_elements {a} #{i} #{j}") for i in range(n) for j in range(n)]
        ks.append((f"t_{ty}_swap_elements_{n}_0_oob", f"{ty}.swap_elements {a} #{n} #0"))
        ks.append((f"t_{ty}_swap_elements_0_{n}_oob", f"{ty}.swap_elements {a} #0 #{n}"))
    for n in (2, 3, 4):
        m = _seq(n * n)
        ks += [(f"t_m{n}_set_{c}_{r}", f"m{n}.set {m} 137 #{c} #{r}") for c in range(n) for r in range(n)]
        ks.append((f"t_m{n}_set_{n}_0_oob", f"m{n}.set {m} 137 #{n} #0"))
        ks.append((f"t_m{n}_set_0_{n}_oob", f"m{n}.set {m} 137 #0 #{n}"))
    return ks


OPS = {"C18": approx_kernels(), "C16": index_kernels()}
