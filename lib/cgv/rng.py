"""Deterministic PRNG (splitmix64) and rational generators.  Every random
choice of a check derives from one stream seeded by VERIF_SEED."""
from fractions import Fraction as F

MASK = (1 << 64) - 1


class Rng:
    def __init__(self, seed):
        self.s = (seed * 0x9E3779B97F4A7C15 + 0x1234567) & MASK

    def u64(self):
        self.s = (self.s + 0x9E3779B97F4A7C15) & MASK
        z = self.s
        z = ((z ^ (z >> 30)) * 0xBF58476D1CE4E5B9) & MASK
        z = ((z ^ (z >> 27)) * 0x94D049BB133111EB) & MASK
        return z ^ (z >> 31)

    def below(self, n):
        return self.u64() % n

    def rng(self, lo, hi):
        """integer in [lo, hi]"""
        return lo + self.below(hi - lo + 1)

    def choice(self, xs):
        return xs[self.below(len(xs))]

    def chance(self, p_num, p_den):
        return self.below(p_den) < p_num

    def fork(self, tag):
        h = 0
        for ch in tag.encode():
            h = (h * 131 + ch) & MASK
        return Rng((self.s ^ h) & MASK)

    # ---------------------------------------------------------- rationals
    def rat(self, mode=None):
        """a rational from a mixed distribution (mostly non-zero, varied heights)"""
        m = self.below(100) if mode is None else mode
        if m < 4:
            return F(0)
        if m < 8:
            return F(self.choice([1, -1]))
        if m < 45:
            return F(self.rng(-9, 9))
        if m < 60:
            return F(self.rng(-65536, 65536))
        if m < 90:
            return F(self.rng(-65536, 65536), self.rng(1, 256))
        return F(self.rng(-(1 << 40), 1 << 40), self.rng(1, 1 << 20))

    def rat_nz(self):
        while True:
            r = self.rat()
            if r != 0:
                return r

    def small(self):
        return F(self.rng(-9, 9))

    def small_nz(self):
        while True:
            r = self.small()
            if r != 0:
                return r

    def distinct(self, n):
        """n pairwise distinct non-zero rationals"""
        out = []
        while len(out) < n:
            r = self.rat()
            if r != 0 and r not in out:
                out.append(r)
        return out

    def unit_quat(self):
        """exactly unit rational quaternion (s,x,y,z): q0^2/|q0|^2"""
        while True:
            a, b, c, d = [self.rng(-7, 7) for _ in range(4)]
            n = a * a + b * b + c * c + d * d
            if n != 0:
                break
        # q0^2 = (a^2-b^2-c^2-d^2, 2ab, 2ac, 2ad)
        return [F(a * a - b * b - c * c - d * d, n), F(2 * a * b, n), F(2 * a * c, n), F(2 * a * d, n)]

    def unit_vec3(self):
        """exactly unit rational 3-vector (stereographic parametrisation)"""
        while True:
            a, b, c = self.rng(-9, 9), self.rng(-9, 9), self.rng(1, 9)
            n = a * a + b * b + c * c
            return [F(2 * a * c, n), F(2 * b * c, n), F(a * a + b * b - c * c, n)]

    def unit_vec2(self):
        while True:
            a, b = self.rng(-12, 12), self.rng(1, 12)
            n = a * a + b * b
            return [F(a * a - b * b, n), F(2 * a * b, n)]


def tok(r):
    if isinstance(r, int):
        r = F(r)
    return f"{r.numerator}/{r.denominator}"


def untok(s):
    n, d = s.split('/')
    return F(int(n), int(d))
