"""Inventory of trait impls regenerated from /repo's current source (rustdoc JSON, nightly toolchain,
offline).  The committed expectation lists the impls the native harnesses exercise; an impl that
appears in the source but not in the expectation is not covered by any call site (and vice versa a
vanished impl means a call site no longer tests what it claims): the correspondence is then broken."""
import collections
import json
import os

from . import core

TARGET = f"{core.WORK}/rustdoc-target"
OPS = {"Add", "Sub", "Mul", "Div", "Rem", "Neg", "AddAssign", "SubAssign", "MulAssign", "DivAssign", "RemAssign",
       "Sum", "Product"}
LAYOUT = {"Index", "IndexMut", "From", "Into", "AsRef", "AsMut"}


def tyname(t):
    if t is None:
        return "?"
    if "resolved_path" in t:
        p = t["resolved_path"]
        name = p.get("path") or p.get("name")
        s = name.split("::")[-1]
        args = p.get("args")
        if args and "angle_bracketed" in args:
            a = [tyname(x["type"]) for x in args["angle_bracketed"]["args"] if "type" in x]
            if a:
                s += "<" + ",".join(a) + ">"
        return s
    if "primitive" in t:
        return t["primitive"]
    if "generic" in t:
        return t["generic"]
    if "borrowed_ref" in t:
        r = t["borrowed_ref"]
        return ("&mut " if r.get("is_mutable") else "&") + tyname(r["type"])
    if "tuple" in t:
        return "(" + ",".join(tyname(x) for x in t["tuple"]) + ")"
    if "slice" in t:
        return "[" + tyname(t["slice"]) + "]"
    if "array" in t:
        return "[" + tyname(t["array"]["type"]) + ";" + str(t["array"]["len"]) + "]"
    if "raw_pointer" in t:
        return "*" + tyname(t["raw_pointer"]["type"])
    return "?" + ",".join(t.keys())


def build():
    """run rustdoc on /repo's working tree; returns (rows, log) or (None, log) if it cannot be built"""
    os.makedirs(core.WORK, exist_ok=True)
    with core.Lock("rustdoc"):
        rc, out = core.run(["cargo", "+nightly", "rustdoc", "--offline", "--lib", "--features", "swizzle,mint,serde",
                            "--", "-Z", "unstable-options", "--output-format", "json"], cwd=core.REPO, timeout=900,
                           env={"CARGO_TARGET_DIR": TARGET})
    if rc != 0:
        return None, out
    d = json.load(open(f"{TARGET}/doc/cgmath.json"))
    rows = collections.Counter()
    for it in d["index"].values():
        inner = it.get("inner", {})
        if "impl" not in inner:
            continue
        im = inner["impl"]
        tr = im.get("trait")
        if not tr:
            continue
        tn = (tr.get("path") or tr.get("name", "")).split("::")[-1]
        if tn not in OPS and tn not in LAYOUT:
            continue
        if im.get("blanket_impl") is not None or im.get("is_synthetic"):
            continue
        args = tr.get("args")
        rhs = ""
        if args and "angle_bracketed" in args:
            rhs = ",".join(tyname(x["type"]) for x in args["angle_bracketed"]["args"] if "type" in x)
        rows[f"{tn}|{tyname(im['for'])}|{rhs}"] += 1
    return rows, out


def load(path):
    rows = collections.Counter()
    for line in open(path):
        line = line.strip()
        if not line or line.startswith("#"):
            continue
        n, key = line.split(" ", 1)
        rows[key] = int(n)
    return rows


def save(path, rows, traits):
    with open(path, "w") as f:
        f.write("# <count> <Trait>|<Self>|<trait args>   (regenerate with: python3 -m cgv.inventory --write)\n")
        for k in sorted(rows):
            if k.split("|")[0] in traits:
                f.write(f"{rows[k]} {k}\n")


def compare(which):
    """which: 'ops' or 'layout'.  returns dict(total=..., added=[...], removed=[...], error=None|str)"""
    traits = OPS if which == "ops" else LAYOUT
    path = f"{core.VERIF}/inventory/{which}_impls.txt"
    rows, log = build()
    if rows is None:
        return {"error": log[-3000:], "total": 0, "added": [], "removed": []}
    cur = {k: v for k, v in rows.items() if k.split("|")[0] in traits}
    exp = load(path)
    added = sorted(k for k in cur if cur[k] != exp.get(k, 0) and cur[k] > exp.get(k, 0))
    removed = sorted(k for k in exp if exp[k] > cur.get(k, 0))
    return {"error": None, "total": sum(cur.values()), "added": added, "removed": removed}


if __name__ == "__main__":
    import sys
    rows, log = build()
    if rows is None:
        print(log)
        sys.exit(1)
    if "--write" in sys.argv:
        save(f"{core.VERIF}/inventory/ops_impls.txt", rows, OPS)
        save(f"{core.VERIF}/inventory/layout_impls.txt", rows, LAYOUT)
    c = collections.Counter()
    for k, v in rows.items():
        c[k.split("|")[0]] += v
    print(dict(c))
