"""Layer T kernel table, C18: the approx relations of `Euler`, `Decomposed<Vector3, Quaternion>`, `Basis2`, `Basis3`
(ops of sigs.EXTRA3, harness/src/ops/extra3.rs; obligations in lean/Cgm/Trace/C18OpsX.lean, generated once by
tools/gen_c18_more.py from THIS table).  Same format and the same path scheme as tracetab_ops.py:

* `euler` (3 components `x y z`), `dq` (8 components: `scale`, rotation `s x y z`, displacement `x y z`): one kernel per
  stopping position of the `&&` chain -- `_true` and `_false_k` (components `0..k-1` within tolerance, component `k` not);
  shadow input `b = a` except `b[k] = a[k] + 1`, tolerances `1/2`, `1/1000`, `#4`; default forms `_d`: `_true`, `_false_0`;
* `b2` (given as an angle), `b3` (given as a quaternion): the components compared are those of the rotation MATRIX built from
  the argument, which the argument does not control one by one: `_true` (identical arguments) and `_false_0` (the first matrix
  element already differs: another angle / another `y`), with tolerances far below the difference (`1/1000000`)."""

from .tracetab import _seq

REL_TAIL = {"abs_diff_eq": "1/2", "relative_eq": "1/2 1/1000", "ulps_eq": "1/2 #4"}
REL_TAIL_TINY = {"abs_diff_eq": "1/1000000", "relative_eq": "1/1000000 1/1000000", "ulps_eq": "1/1000000 #4"}
CHAIN_TYPES = {"euler": 3, "dq": 8}
BASIS_PAIRS = {"b2": ("2", "2", "3"), "b3": ("2 3 5 7", "2 3 5 7", "2 3 6 7")}     # a, b on the true path, b on the false_0 path


def _pair(n, k=None):
    a = [int(x) for x in _seq(n).split()]
    b = list(a)
    if k is not None:
        b[k] += 1
    return " ".join(str(x) for x in a + b)


def kernels():
    ks = []
    for ty, n in CHAIN_TYPES.items():
        for rel, tail in REL_TAIL.items():
            ks.append((f"t_{ty}_{rel}_true", f"{ty}.{rel} {_pair(n)} {tail}"))
            for k in range(n):
                ks.append((f"t_{ty}_{rel}_false_{k}", f"{ty}.{rel} {_pair(n, k)} {tail}"))
        for rel in REL_TAIL:
            ks.append((f"t_{ty}_{rel}_d_true", f"{ty}.{rel}_d {_pair(n)}"))
            ks.append((f"t_{ty}_{rel}_d_false_0", f"{ty}.{rel}_d {_pair(n, 0)}"))
    for ty, (a, bt, bf) in BASIS_PAIRS.items():
        for rel, tail in REL_TAIL_TINY.items():
            ks.append((f"t_{ty}_{rel}_true", f"{ty}.{rel} {a} {bt} {tail}"))
            ks.append((f"t_{ty}_{rel}_false_0", f"{ty}.{rel} {a} {bf} {tail}"))
        for rel in REL_TAIL_TINY:
            ks.append((f"t_{ty}_{rel}_d_true", f"{ty}.{rel}_d {a} {bt}"))
            ks.append((f"t_{ty}_{rel}_d_false_0", f"{ty}.{rel}_d {a} {bf}"))
    return ks


OPS3 = {"C18": kernels()}
