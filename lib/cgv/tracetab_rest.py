"""Layer T kernel table, the remaining operations that had a model function and a driver op but no traced kernel
(obligations in lean/Cgm/Trace/<pid>Rest.lean, one theorem per kernel with the same name).  Same format as
tracetab.MANUAL: (kernel name, op line); scalar arguments are the shadow input selecting the path, `#i` are indices."""

from .tracetab import _seq, M3A

_P = [2, 3, 5, 7]


def _index(ty, n):
    """every in-range index and the first out-of-range one"""
    args = " ".join(str(x) for x in _P[:n])
    ks = [(f"t_{ty}_index_{i}", f"{ty}.index {args} #{i}") for i in range(n)]
    ks.append((f"t_{ty}_index_{n}_oob", f"{ty}.index {args} #{n}"))
    return ks


def _is_zero(n):
    """all components zero; first non-zero component at position k (the comparison short-circuits there)"""
    ks = [(f"t_v{n}_is_zero_true", f"v{n}.is_zero " + " ".join(["0"] * n))]
    for k in range(n):
        ks.append((f"t_v{n}_is_zero_false_{k}", f"v{n}.is_zero " + " ".join(["0"] * k + ["1"] + ["0"] * (n - k - 1))))
    return ks


_PERP = {
    1: ("0 3", "2 3"),
    2: ("1 2 -2 1", "1 2 3 5"),
    3: ("1 0 0 0 1 0", "1 0 0 1 1 0"),
    4: ("1 2 3 4 -2 1 -4 3", "1 2 3 4 5 6 7 8"),
}

REST = {
    "C16": sum((_index(f"v{n}", n) for n in (1, 2, 3, 4)), []) + sum((_index(f"p{n}", n) for n in (1, 2, 3)), [])
    + [(f"t_v4_truncate_n_{i}", f"v4.truncate_n 2 3 5 7 #{i}") for i in range(4)]
    + [("t_v4_truncate_n_4_oob", "v4.truncate_n 2 3 5 7 #4")],
    "C18": sum((_is_zero(n) for n in (1, 2, 3, 4)), [])
    + sum(([(f"t_v{n}_is_perpendicular_true", f"v{n}.is_perpendicular " + _PERP[n][0]),
            (f"t_v{n}_is_perpendicular_false", f"v{n}.is_perpendicular " + _PERP[n][1])] for n in (1, 2, 3, 4)), [])
    + [("t_deg_is_zero_true", "deg.is_zero 0"), ("t_deg_is_zero_false", "deg.is_zero 30"),
       ("t_rad_is_zero_true", "rad.is_zero 0"), ("t_rad_is_zero_false", "rad.is_zero 1")],
    "C04": [("t_q_rem_s", "q.rem_s " + _seq(5))],
    "C06": [
        ("t_m3_from_axis_angle_deg", "m3.from_axis_angle_deg 2 3 5 30"),
        ("t_q_from_axis_angle_deg", "q.from_axis_angle_deg 2 3 5 30"),
        ("t_b3_from_axis_angle", "b3.from_axis_angle 2 3 5 1/2"),
        ("t_b2_invert_some", "b2.invert 1/2"),
        ("t_b3_invert_some", "b3.invert 1 2 3 4"),
        # the matrix of the quaternion (0; 1/2, 1/2, 0) is singular: `Matrix3::invert().unwrap()` panics
        ("t_b3_invert_panic", "b3.invert 0 1/2 1/2 0"),
    ],
    "C07": [
        ("t_m3_from_euler_deg", "m3.from_euler_deg 30 45 60"),
        ("t_q_from_euler_deg", "q.from_euler_deg 30 45 60"),
    ],
    "C17": [
        ("t_m2_product_list_ref", "m2.product_list_ref " + _seq(12)),
        ("t_m3_product_list_ref", "m3.product_list_ref " + _seq(27)),
        ("t_m4_product_list_ref", "m4.product_list_ref 2 3 5 7 11 13 17 19 23 29 31 37 41 43 47 53 59 61 67 71 73 79 83 89 97 101 103 107 109 113 127 131 137 139 149 151 157 163 167 173 179 181 191 193 197 199 211 223"),
        ("t_b2_product_list", "b2.product_list 1/2 1/3 1/5"),
        ("t_b3_product_list", "b3.product_list " + _seq(12)),
        ("t_b3_product_list_ref", "b3.product_list_ref " + _seq(12)),
    ],
    "C09": [
        # Matrix2::look_at's comparison `up.x * dir.y >= up.y * dir.x`, both outcomes (dir = center - eye; `_rh`: eye - center)
        ("t_m3_tlook_at2_noflip", "m3.tlook_at2 1 2 4 6 0 1"),
        ("t_m3_tlook_at2_flip", "m3.tlook_at2 1 2 4 6 1 0"),
        ("t_m3_tlook_at", "m3.tlook_at " + _seq(9)),
        ("t_m4_tlook_at", "m4.tlook_at " + _seq(9)),
        ("t_db2_look_at_noflip", "db2.look_at 1 2 4 6 0 1"),
        ("t_db2_look_at_flip", "db2.look_at 1 2 4 6 1 0"),
        ("t_db2_look_at_rh_flip", "db2.look_at_rh 1 2 4 6 0 1"),
        ("t_db2_look_at_rh_noflip", "db2.look_at_rh 1 2 4 6 1 0"),
    ],
    "C08": [
        ("t_dq_id", "dq.id 2 1 2 3 4 5 6 7"),
        ("t_db3_id", "db3.id 2 1 2 3 4 5 6 7"),
        ("t_db2_id", "db2.id 2 1/2 5 6"),
        ("t_m3_inverse_transform_vector2_some", "m3.inverse_transform_vector2 " + M3A + " 1 2"),
        ("t_m3_inverse_transform_vector2_none", "m3.inverse_transform_vector2 1 2 3 2 4 6 1 1 1 1 2"),
    ],
    "C01": [
        ("t_m2_new", "m2.new " + _seq(4)), ("t_m3_new", "m3.new " + _seq(9)), ("t_m4_new", "m4.new " + _seq(16)),
    ],
}
