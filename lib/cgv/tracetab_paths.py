"""Layer T kernel table, further branching paths (generated/maintained by hand; obligations in
lean/Cgm/Trace/<pid>Paths.lean, one theorem per kernel with the same name).  Same format as tracetab.MANUAL:
(kernel name, op line whose scalar arguments are the shadow input selecting the path)."""

PATHS = {
    "C15": [
        # Quaternion::between_vectors, opposite vectors: first candidate axis a x unit_x accepted / rejected (-> a x unit_y)
        ("t_q_between_vectors_opp_x", "q.between_vectors 0 1 0 0 -1 0"),
        ("t_q_between_vectors_opp_y", "q.between_vectors 1 0 0 -1 0 0"),
        # Quaternion::from_arc(src, dst, None), opposite: unit_x x src non-zero (decided at its z component) / zero -> unit_y x src
        ("t_q_from_arc_opp_x", "q.from_arc 0 1 0 0 -1 0"),
        ("t_q_from_arc_opp_y", "q.from_arc 1 0 0 -1 0 0"),
        # from_arc with a fallback axis: opposite (fallback used), general, same
        ("t_q_from_arc_fb_opp", "q.from_arc_fb 1 0 0 -1 0 0 0 1 0"),
        ("t_q_from_arc_fb_general", "q.from_arc_fb 1 0 0 0 1 0 0 0 1"),
        ("t_q_from_arc_fb_same", "q.from_arc_fb 1 0 0 1 0 0 0 0 1"),
        ("t_b3_between_vectors_general", "b3.between_vectors 1 0 0 0 1 0"),
    ],
    # projection constructors: every assert! of From<PlanarFov>/From<PerspectiveFov> failing in turn, the other accepted
    # paths (planes swapped, planes behind the focal point, negative aspect), degrees, struct-form entry points.
    # NB the shadow tan is an oracle value: with fovy=1, height=2 the shadow focal point lies in (-4, -3).
    "C10": [
        ("t_planar_bad_fovy_lo", "proj.planar -4 3/2 2 1 10"),
        ("t_planar_bad_fovy_hi", "proj.planar 4 3/2 2 1 10"),
        ("t_planar_bad_height", "proj.planar 1 3/2 -2 1 10"),
        ("t_planar_bad_aspect", "proj.planar 1 0 2 1 10"),
        ("t_planar_bad_nf", "proj.planar 1 3/2 2 5 5"),
        ("t_planar_bad_focal", "proj.planar 1 3/2 2 -5 10"),
        ("t_planar_bad_focal_rev", "proj.planar 1 3/2 2 10 -5"),
        ("t_planar_ok_rev", "proj.planar 1 3/2 2 10 1"),
        ("t_planar_ok_behind", "proj.planar 1 3/2 2 -10 -5"),
        ("t_planar_ok_neg_aspect", "proj.planar 1 -3/2 2 1 10"),
        ("t_perspective_bad_fovy_hi", "proj.perspective 4 3/2 1 10"),
        ("t_perspective_bad_aspect", "proj.perspective 1 0 1 10"),
        ("t_perspective_ok_neg_aspect", "proj.perspective 1 -3/2 1 10"),
        ("t_perspective_bad_far", "proj.perspective 1 3/2 1 -10"),
        ("t_perspective_bad_nf", "proj.perspective 1 3/2 5 5"),
        ("t_perspective_bad_fovy_zero", "proj.perspective 0 3/2 1 10"),
        ("t_perspective_deg_ok", "proj.perspective_deg 60 3/2 1 10"),
        ("t_perspective_deg_bad_fovy", "proj.perspective_deg -60 3/2 1 10"),
        ("t_ortho_s", "proj.ortho_s -1 3 -2 5 1 10"),
        ("t_frustum_s_ok", "proj.frustum_s -1 3 -2 5 1 10"),
        ("t_perspective_s_ok", "proj.perspective_s 1 3/2 1 10"),
        ("t_planar_s_ok", "proj.planar_s 1 3/2 2 1 10"),
        ("t_planar_ok_behind_rev", "proj.planar 1 3/2 2 -5 -10"),
    ],
    # Decomposed with Basis3 (built from a quaternion) / Basis2 (built from an angle) rotations; look_at
    "C08": [
        ("t_db3_concat", "db3.concat 2 1 2 3 4 5 6 7 3 8 9 10 11 12 13 14"),
        ("t_db3_transform_point", "db3.transform_point 2 1 2 3 4 5 6 7 8 9 10"),
        ("t_db3_transform_vector", "db3.transform_vector 2 1 2 3 4 5 6 7 8 9 10"),
        ("t_db3_to_matrix", "db3.to_matrix 2 1 2 3 4 5 6 7"),
        ("t_db3_inverse_transform_some", "db3.inverse_transform 2 1 2 3 4 5 6 7"),
        ("t_db3_inverse_transform_none", "db3.inverse_transform 0 1 2 3 4 5 6 7"),
        ("t_db3_inverse_transform_panic", "db3.inverse_transform 2 0 1/2 1/2 0 5 6 7"),
        ("t_db3_inverse_transform_vector", "db3.inverse_transform_vector 2 1 2 3 4 5 6 7 8 9 10"),
        ("t_db3_concat_self", "db3.concat_self 2 1 2 3 4 5 6 7 3 8 9 10 11 12 13 14"),
        ("t_db3_mul", "db3.mul 2 1 2 3 4 5 6 7 3 8 9 10 11 12 13 14"),
        ("t_db3_look_at_lh", "db3.look_at_lh 2 3 5 7 11 13 17 19 23"),
        ("t_db3_look_at_rh", "db3.look_at_rh 2 3 5 7 11 13 17 19 23"),
        ("t_db3_look_at", "db3.look_at 2 3 5 7 11 13 17 19 23"),
        ("t_db2_transform_point", "db2.transform_point 2 1/2 5 6 7 8"),
        ("t_db2_transform_vector", "db2.transform_vector 2 1/2 5 6 7 8"),
        ("t_db2_inverse_transform_some", "db2.inverse_transform 2 1/2 5 6"),
        ("t_db2_inverse_transform_none", "db2.inverse_transform 0 1/2 5 6"),
        ("t_db2_inverse_transform_vector", "db2.inverse_transform_vector 2 1/2 5 6 7 8"),
        ("t_db2_concat_self", "db2.concat_self 2 1/2 5 6 3 1/3 7 8"),
        ("t_db2_mul", "db2.mul 2 1/2 5 6 3 1/3 7 8"),
        ("t_db2_look_at_lh", "db2.look_at_lh 1 2 4 6 0 1"),
        ("t_dq_look_at", "dq.look_at 2 3 5 7 11 13 17 19 23"),
    ],
    # clamped angle: Vector1 (|cos| = 1 exactly on every shadow input, so only the unclamped path is reachable),
    # cosine < -1, quaternion clamps (the shadow sqrt of a non-square is an oracle value, which is what drives the clamps)
    "C11": [
        ("t_v1_angle", "v1.angle 2 3"),
        ("t_v4_angle_clamped_lo", "v4.angle 2 3 5 7 -11 -13 -17 -19"),
        ("t_q_angle_clamped_hi", "q.angle 2 3 5 7 11 13 17 19"),
        ("t_q_angle_clamped_lo", "q.angle 2 3 5 7 -11 -13 -17 -19"),
    ],
    # bisect in radians; bisect through negative remainders; Equal outcomes of the three-way comparisons
    "C13": [
        ("t_rad_bisect_near", "rad.bisect 1 2"),
        ("t_rad_bisect_wrap", "rad.bisect 1 6"),
        ("t_deg_bisect_neg_near", "deg.bisect 350 50"),
        ("t_deg_bisect_neg_wrap", "deg.bisect 80 50"),
        ("t_deg_bisect_neg_wrap_neg", "deg.bisect 10 -30"),
        ("t_deg_bisect_near_neg", "deg.bisect -50 -20"),
        ("t_deg_bisect_same", "deg.bisect 50 50"),
        ("t_rad_normalize_zero", "rad.normalize 0"),
        ("t_deg_normalize_signed_zero", "deg.normalize_signed 0"),
        ("t_deg_normalize_signed_half", "deg.normalize_signed 180"),
        ("t_deg_opposite_zero", "deg.opposite 180"),
    ],
    # Quaternion::from(Basis3): the paths of From<Matrix3> for Quaternion (Basis3 built from the quaternion given)
    "C05": [
        ("t_b3_to_quat_trace", "b3.to_quat 1 0 0 0"),
        ("t_b3_to_quat_xx", "b3.to_quat 0 1 0 0"),
        ("t_b3_to_quat_yy", "b3.to_quat 0 0 1 0"),
        ("t_b3_to_quat_zz", "b3.to_quat 0 0 0 1"),
        ("t_b3_to_quat_zz2", "b3.to_quat 0 1 0 1"),
    ],
    # look_at_stable, Basis2::look_at (both flips), deprecated look_at/look_at_dir, Quaternion::look_at
    "C09": [
        ("t_m2_look_at_stable_noflip", "m2.look_at_stable 3 4 #0"),
        ("t_m2_look_at_stable_flip", "m2.look_at_stable 3 4 #1"),
        ("t_b2_look_at_flip", "b2.look_at 3 4 1 0"),
        ("t_b2_look_at_noflip", "b2.look_at 3 4 0 1"),
        ("t_b2_look_at_stable_flip", "b2.look_at_stable 3 4 #1"),
        ("t_m3_look_at_dep", "m3.look_at_dep 2 3 5 7 11 13"),
        ("t_m4_look_at_dep", "m4.look_at_dep 2 3 5 7 11 13 17 19 23"),
        ("t_m4_look_at_dir_dep", "m4.look_at_dir_dep 2 3 5 7 11 13 17 19 23"),
        ("t_q_look_at", "q.look_at 2 3 5 7 11 13"),
    ],
}


# ---- in-place and index-taking matrix operations (obligations in lean/Cgm/Trace/<pid>Idx.lean) ----
# `&mut` operations and `Index`-based accessors take their indices as `#i` arguments: one kernel per index tuple.
# The scalar arguments are symbolic, so each kernel covers every matrix for that tuple.  Out-of-range tuples must
# trace to a panic kernel (`_oob`); for swap_elements these include tuples whose flat offset would alias storage.
_IDX_SEQ = [2, 3, 5, 7, 11, 13, 17, 19, 23, 29, 31, 37, 41, 43, 47, 53, 59, 61, 67, 71]


def _idx_m(n, extra=0):
    return " ".join(str(b) for b in _IDX_SEQ[:n * n + extra])


def _idx_se_tuples(n):
    """swap_elements index tuples ((ac, ar), (bc, br)): every in-range tuple (16 / 81 / 256: same element, same column,
    same row, diagonal, general)"""
    return [(a, b, c, d) for a in range(n) for b in range(n) for c in range(n) for d in range(n)]


def _idx_se_oob(n):
    """out-of-range swap_elements tuples: (0, n) would alias element (1, 0) in the flat storage, (n, 0) is past a
    column index, equal out-of-range pairs, and a far index"""
    return [(0, n, n - 1, n - 1), (n - 1, n - 1, 0, n), (n, 0, 0, 0), (0, 0, n, 0), (0, n, 0, n), (n, n, n, n),
            (1, 1, 1, n + 3)]


def _idx_c02():
    ks = []
    for n in (2, 3, 4):
        m, M = f"m{n}", _idx_m(n)
        for a in range(n):
            for b in range(n):
                ks.append((f"t_{m}_swap_rows_{a}_{b}", f"{m}.swap_rows {M} #{a} #{b}"))
        for (a, b) in [(0, n), (n, 0), (n, n)]:
            ks.append((f"t_{m}_swap_rows_{a}_{b}_oob", f"{m}.swap_rows {M} #{a} #{b}"))
        for a in range(n):
            for b in range(n):
                ks.append((f"t_{m}_swap_columns_{a}_{b}", f"{m}.swap_columns {M} #{a} #{b}"))
        for (a, b) in [(0, n), (n, 0), (n, n)]:
            ks.append((f"t_{m}_swap_columns_{a}_{b}_oob", f"{m}.swap_columns {M} #{a} #{b}"))
        for (a, b, c, d) in _idx_se_tuples(n):
            ks.append((f"t_{m}_swap_elements_{a}{b}_{c}{d}", f"{m}.swap_elements {M} #{a} #{b} #{c} #{d}"))
        for (a, b, c, d) in _idx_se_oob(n):
            ks.append((f"t_{m}_swap_elements_{a}{b}_{c}{d}_oob", f"{m}.swap_elements {M} #{a} #{b} #{c} #{d}"))
        MV = _idx_m(n, n).split()
        for c in list(range(n)) + [n]:
            ks.append((f"t_{m}_replace_col_{c}" + ("_oob" if c == n else ""),
                       f"{m}.replace_col {' '.join(MV[:n * n])} #{c} {' '.join(MV[n * n:])}"))
        ks.append((f"t_{m}_transpose_self", f"{m}.transpose_self {M}"))
    return ks


def _idx_c01():
    ks = []
    for n in (2, 3, 4):
        m, M = f"m{n}", _idx_m(n)
        for op in ("row", "col"):
            for r in list(range(n)) + [n, n + 5]:
                ks.append((f"t_{m}_{op}_{r}" + ("_oob" if r >= n else ""), f"{m}.{op} {M} #{r}"))
    return ks


# `Transform::one()` of the five transform types (Matrix3/Matrix4: `One::one()`, which is what their `Transform::one` returns)
_IDX_C08 = [("t_dq_one", "dq.one"), ("t_db3_one", "db3.one"), ("t_db2_one", "db2.one"),
            ("t_m3_one", "m3.one"), ("t_m4_one", "m4.one")]

IDX = {"C02": _idx_c02(), "C01": _idx_c01(), "C08": _IDX_C08}
for _pid, _ks in IDX.items():
    PATHS[_pid] = list(PATHS.get(_pid, [])) + _ks
