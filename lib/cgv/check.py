"""bin/check <ID> [--tier quick|thorough] [--replay file]"""
import argparse
import hashlib
import json
import os
import sys
import time
from fractions import Fraction as F

from . import core
from .core import Case, MachineryError, log
from .props import REG
from .rng import Rng

KNOWN = f"{core.VERIF}/known_findings.json"


def load_known(pid):
    try:
        data = json.load(open(KNOWN))
    except FileNotFoundError:
        return []
    return [e for e in data.get("findings", []) if e.get("property") == pid]


def corpus_cases(pid):
    out = []
    d = f"{core.VERIF}/corpus/{pid}"
    if not os.path.isdir(d):
        return out
    for fn in sorted(os.listdir(d)):
        if not fn.endswith(".ops"):
            continue
        for line in open(os.path.join(d, fn)):
            t = line.strip()
            if not t or t.startswith("//"):
                continue
            toks = t.split()
            args = [core.F(x) if "/" not in x else F(int(x.split("/")[0]), int(x.split("/")[1]))
                    for x in toks[1:] if not x.startswith("#")]
            idx = [int(x[1:]) for x in toks[1:] if x.startswith("#")]
            out.append(Case(toks[0], args, idx, family=f"corpus/{fn}"))
    return out


def write_replay(pid, kind, payload):
    os.makedirs(f"{core.VERIF}/replays", exist_ok=True)
    h = hashlib.sha256(json.dumps(payload, sort_keys=True, default=str).encode()).hexdigest()[:10]
    path = f"{core.VERIF}/replays/{pid}-{kind}-{h}.json"
    payload = dict(payload)
    payload.update({"property": pid, "kind": kind, "tree": core.repo_state()})
    with open(path, "w") as f:
        json.dump(payload, f, indent=1, default=str)
    return path


def do_replay(pid, path):
    if not os.path.isabs(path):
        path = os.path.join(core.VERIF, path)
    data = json.load(open(path))
    lines = data.get("lines") or ([data["line"]] if "line" in data else [])
    seed = data.get("seed", 1)
    rc, out, full, _ = core.build_harness()
    if rc != 0:
        print(out[-3000:])
        return 2
    status = 0
    for ln in lines:
        text = f"seed {seed}\n{ln}\n"
        a = core.run_ops(core.BIN_IMPL, ["run"], text)[0]
        print(f"op    : {ln}")
        print(f"impl  : {a}")
        if not ln.startswith("o."):
            b = core.run_ops(core.BIN_MODEL, [], text)[0]
            print(f"model : {b}")
            if a != b:
                status = 1
        else:
            toks = a.split(" ")
            if not (a == "skip" or (toks[0] == "ok" and all(t in ("0/1", "T") for t in toks[1:]))):
                status = 1
    if data.get("note"):
        print("note  :", data["note"])
    print("replay:", "still failing" if status else "passes now")
    return status


COVER_PIDS = {"C02", "C05", "C07", "C08", "C09", "C10", "C11", "C13", "C14", "C15"}


def main(argv=None):
    ap = argparse.ArgumentParser()
    ap.add_argument("pid")
    ap.add_argument("--tier", default=os.environ.get("VERIF_TIER", "quick"))
    ap.add_argument("--replay")
    ap.add_argument("--no-build", action="store_true")
    a = ap.parse_args(argv)
    pid, tier = a.pid, a.tier
    if tier not in ("quick", "thorough"):
        tier = "quick"
    seed = int(os.environ.get("VERIF_SEED", "1"))
    if pid not in REG:
        print(f"unknown property {pid}")
        return 2
    if a.replay:
        return do_replay(pid, a.replay)
    P = REG[pid]
    t0 = time.time()
    try:
        return run_check(P, pid, tier, seed, t0, a)
    except MachineryError as e:
        log(f"MACHINERY ERROR: {e}")
        return 2


def run_check(P, pid, tier, seed, t0, a):
    violations = []   # (replay_path, no_failing_input)
    notes = []
    # ---------------------------------------------------------------- P: proofs
    hits = core.forbidden_scan()
    if hits:
        raise MachineryError("forbidden tokens in Lean sources:\n" + "\n".join(hits[:20]))
    # the property's theorem files: Props/<pid>.lean and its continuation files Props/<pid>b.lean, <pid>c.lean ...
    import glob as _glob
    extra = sorted(os.path.basename(f)[:-5] for f in _glob.glob(f"{core.LEAN}/Cgm/Props/{pid}[a-z].lean"))
    targets = [f"Cgm.Props.{pid}"] + [f"Cgm.Props.{m}" for m in extra] + ["cgdriver"]
    audit_src = open(f"{core.LEAN}/Cgm/Audit/{pid}.lean").read()
    for m in extra:
        if f"import Cgm.Props.{m}" not in audit_src:
            raise MachineryError(f"Cgm/Audit/{pid}.lean does not import Cgm.Props.{m}: its theorems would not be audited")
    t1 = time.time()
    rc, out = core.lake_build(targets)
    if rc != 0:
        raise MachineryError(f"lake build {targets} failed:\n{out[-4000:]}")
    thms, bad = core.audit_axioms(pid)
    if bad:
        raise MachineryError(f"non-standard axioms: {bad}")
    # which inputs the traced paths of the branching functions cover (Cgm/Trace/Cover.lean: exclusive, and exhaustive or
    # with the exact covered set) -- model-only statements, audited with the properties that have branching kernels
    if pid in COVER_PIDS:
        rc, out = core.lake_build(["Cgm.Trace.Cover", "Cgm.Trace.Cover2", "Cgm.Trace.Cover3", "Cgm.Trace.Cover4"])
        if rc != 0:
            raise MachineryError(f"lake build Cgm.Trace.Cover failed:\n{out[-3000:]}")
        rc, out = core.run(["lake", "env", "lean", "Cgm/Audit/Cover.lean"], cwd=core.LEAN, timeout=900)
        if rc != 0:
            raise MachineryError(f"audit of Cgm.Trace.Cover failed:\n{out[-2000:]}")
        ncov = 0
        for line in out.split("\n"):
            if line.startswith("THEOREM "):
                ncov += 1
                axs = {a.strip() for a in line.split(" AXIOMS ")[1].strip().strip("[]").split(",") if a.strip()}
                if not axs <= core.STD_AXIOMS:
                    raise MachineryError(f"{line.split(' ')[1]} uses non-standard axioms {axs}")
        notes.append(f"path-coverage theorems (Cgm/Trace/Cover.lean, Cover2.lean, Cover3.lean, Cover4.lean) checked: {ncov}")
    t_lean = time.time() - t1
    log(f"[{pid}] P: {len(thms)} theorems, axioms ok ({t_lean:.1f}s)")
    if tier == "thorough":
        # independent re-check of the compiled property module by the toolchain's leanchecker
        for m in [pid] + extra:
            rc, out = core.run(["lake", "env", "leanchecker", f"Cgm.Props.{m}"], cwd=core.LEAN, timeout=3000)
            if rc != 0:
                raise MachineryError(f"leanchecker rejected Cgm.Props.{m}:\n{out[-3000:]}")
        notes.append(f"leanchecker re-checked Cgm.Props.{pid}")
        log(f"[{pid}] P: leanchecker accepted Cgm.Props.{pid}")

    # ---------------------------------------------------------------- build harness from /repo
    rc, out, full, t_cargo = core.build_harness()
    if rc != 0:
        path = write_replay(pid, "build", {"note": "harness does not build against /repo's working tree; "
                                           "correspondence cannot be run", "compiler_output": out[-6000:],
                                           "unchecked": [f"D:{o}" for o in P.ops][:50]})
        print(f"VIOLATION property={pid} replay={path} no-failing-input-found")
        write_evidence(P, pid, tier, seed, t0, thms, None, None, None, 1, notes + ["harness build failed"])
        return 1
    log(f"[{pid}] harness built ({t_cargo:.1f}s, full_features={full})")

    rng = Rng(seed).fork(pid)
    # ---------------------------------------------------------------- T: traces
    tres = None
    from .tracetab import TRACE
    if TRACE.get(pid):
        from . import trace
        tres = trace.run_trace(P, pid, tier, rng.fork("trace"))
        for f in tres["failed"]:
            notes.append(f"trace obligation failed: {f}")
        log(f"[{pid}] T: {tres['obligations']} kernels traced from the source ({tres['nodes']} nodes), "
            f"{tres['discharged']} obligations re-checked, {tres.get('e2e_theorems', 0)} end-to-end theorems, {len(tres['failed'])} failed")

    # ---------------------------------------------------------------- D
    cases = corpus_cases(pid)
    cases += P.families(rng.fork("families"), tier)
    r2 = rng.fork("random")
    for op in P.ops:
        nrand = P.n_random(tier) if core.SIG.get(op) else 1
        for _ in range(nrand):
            cases.append(core.gen_random(r2, op))
    # special values: exact 0 / 1 / -1, structured matrices (affine, unimodular, diagonal), parallel and
    # antiparallel vector pairs, boundary scalars -- the inputs on which fast paths and guards differ
    r3 = rng.fork("special")
    for op in P.ops:
        if core.SIG.get(op):
            for _ in range(6 if tier == "quick" else 80):
                cases.append(core.gen_special(r3, op))
    seeds = (1, 0x5eed5eed) if tier == "quick" else (1, 0x5eed5eed, seed * 7919 + 13)
    dres = core.differential(cases, seeds=seeds)
    dres.branches = core.branch_histogram(cases)
    log(f"[{pid}] D: {dres.total} evaluations, {len(dres.lines)} distinct, "
        f"{len(dres.disagreements)} disagreements, outcomes={dres.outcomes}")

    # ---------------------------------------------------------------- O
    ocases = P.oracle_cases(rng.fork("oracle"), tier)
    # clones with special values, only for the clauses that are stated for *all* inputs (P.sparsify)
    sp_ops = set(getattr(P, "sparsify", []))
    ocases = ocases + core.sparsified([c for c in ocases if c.op in sp_ops], rng.fork("sparsify"), 2 if tier == "quick" else 6)
    ores = core.run_oracles(ocases, seeds=seeds[:1]) if ocases else \
        {"fails": [], "total": 0, "skipped": 0, "per_op": {}, "samples": []}
    log(f"[{pid}] O: {ores['total']} clause evaluations, {ores['skipped']} skipped, "
        f"{len(ores['fails'])} failures")

    known = load_known(pid)

    # ---------------------------------------------------------------- native f32/f64 checks
    nres = None
    if hasattr(P, "native_args") or hasattr(P, "native_runs"):
        nres = run_native(P, pid, tier, seed, known)
        log(f"[{pid}] N: {nres['evaluations']} native evaluations, {nres['mq']} model queries "
            f"({len(nres['mq_disagree'])} disagreements), {len(nres['fails'])} failing checks, "
            f"{len(nres['known'])} known findings")
        for kf in nres["known"]:
            print(f"KNOWN-FINDING: property={pid} {kf}")

    # ---------------------------------------------------------------- thorough: the same native run under Miri
    if nres is not None and tier == "thorough" and getattr(P, "miri", False):
        mres = run_miri(P, seed)
        log(f"[{pid}] N(miri): {mres['evaluations']} evaluations under the interpreter (Tree Borrows), "
            f"undefined behaviour reported: {mres['ub'] is not None}")
        nres["evaluations"] += mres["evaluations"]
        nres["info"].append(f"miri(tree-borrows) evaluations={mres['evaluations']} ub={'yes' if mres['ub'] else 'no'}")
        for f in mres["fails"]:
            nres["fails"].append(f)
        if mres["ub"]:
            nres["fails"].append(("miri.undefined_behaviour", mres["ub"]))

    def is_known(case):
        for e in known:
            if e.get("status") != "known":
                continue
            if e.get("op") == case.op and e.get("line") == case.line():
                return e
        return None

    # ---------------------------------------------------------------- verdict
    reported = set()
    for (c, out_, sd) in ores["fails"]:
        e = is_known(c)
        if e:
            print(f"KNOWN-FINDING: property={pid} {e.get('what', c.line())}")
            continue
        if c.op in reported:
            continue
        reported.add(c.op)
        path = write_replay(pid, "oracle", {"line": c.line(), "seed": sd, "impl_output": out_,
                                             "clause": c.op, "note": "property clause evaluated on the "
                                             "implementation is not satisfied on this input"})
        violations.append((path, False))

    inv = None
    if getattr(P, "inventory", None):
        from . import inventory
        inv = inventory.compare(P.inventory)
        if inv["error"]:
            notes.append("impl inventory could not be regenerated (rustdoc failed): " + inv["error"][-300:])
            log(f"[{pid}] I: rustdoc inventory failed")
        else:
            log(f"[{pid}] I: {inv['total']} {P.inventory} impls in the source, {len(inv['added'])} not covered, "
                f"{len(inv['removed'])} vanished")
        if inv["error"] or inv["added"] or inv["removed"]:
            if not (nres and nres["fails"]):
                path = write_replay(pid, "correspondence", {
                    "broken": [{"correspondence": "I:impl-inventory", "uncovered_impls": inv["added"][:50],
                                "vanished_impls": inv["removed"][:50], "rustdoc_error": inv["error"]}],
                    "note": "the set of trait impls in the source differs from the set the native harness exercises: "
                            "an impl exists that no call site covers (or a covered impl vanished); the property is no longer "
                            "shown for every spelling. No failing input was found by the call sites that do exist."})
                violations.append((path, True))
    if nres and nres["mq_disagree"]:
        q, ans, m = nres["mq_disagree"][0]
        if not nres["fails"]:
            path = write_replay(pid, "correspondence", {
                "broken": [{"correspondence": "D:" + " ".join(x[0].split(" ")[:2]), "input": x[0], "impl": x[1], "model": x[2]}
                           for x in nres["mq_disagree"][:20]],
                "note": "the model's combination of the per-component results differs from the implementation; "
                        "the direct per-component oracle found no failing input"})
            violations.append((path, True))
    if nres:
        for (name, desc) in nres["fails"]:
            path = write_replay(pid, "native", {"check": name, "first_failing_input": desc,
                                                "note": "native f32/f64 check failed on the implementation"})
            violations.append((path, False))

    broken_corr = []
    if dres.disagreements:
        seen = set()
        for (c, x, y, sd) in dres.disagreements:
            if c.op in seen:
                continue
            seen.add(c.op)
            mc, mx, my = core.minimise(c, sd)
            broken_corr.append((mc, mx, my, sd))
    if tres:
        for f in tres["failed"]:
            broken_corr.append((None, f, None, None))

    if broken_corr and not violations:
        # search for a concrete failing input: larger oracle batch
        big = P.oracle_cases(rng.fork("search"), "thorough")
        big = big + core.sparsified([c for c in big if c.op in sp_ops], rng.fork("search-sparsify"), 3)
        sres = core.run_oracles(big, seeds=seeds[:1]) if big else {"fails": []}
        found = None
        for (c, out_, sd) in sres["fails"]:
            if not is_known(c):
                found = (c, out_, sd)
                break
        if found:
            c, out_, sd = found
            path = write_replay(pid, "oracle", {"line": c.line(), "seed": sd, "impl_output": out_,
                                                 "clause": c.op, "found_by": "search after broken correspondence",
                                                 "broken": [describe_corr(b) for b in broken_corr][:10]})
            violations.append((path, False))
        else:
            lines = [b[0].line() for b in broken_corr if b[0] is not None]
            path = write_replay(pid, "correspondence", {
                "lines": lines, "seed": broken_corr[0][3] or 1,
                "broken": [describe_corr(b) for b in broken_corr][:20],
                "note": "model/trace and implementation no longer correspond; the property is no longer "
                        "shown to hold. No input violating a property clause was found by the oracle search."})
            violations.append((path, True))

    for (path, nofail) in violations:
        print(f"VIOLATION property={pid} replay={path}" + (" no-failing-input-found" if nofail else ""))

    write_evidence(P, pid, tier, seed, t0, thms, dres, ores, tres, len(violations), notes, nres, inv)
    return 1 if violations else 0


def run_miri(P, seed):
    """cargo +nightly miri run (Tree Borrows) of the property's native check; the harness skips, under cfg!(miri),
    what is documented in DESIGN 0.5"""
    env = dict(os.environ, MIRIFLAGS="-Zmiri-disable-isolation -Zmiri-tree-borrows", CARGO_NET_OFFLINE="true")
    with core.Lock("cargo"):
        p = core.subprocess.run(["cargo", "+nightly", "miri", "run", "--offline", "--"] + P.native_args("quick", seed),
                                cwd=f"{core.VERIF}/harness", stdout=core.subprocess.PIPE, stderr=core.subprocess.PIPE,
                                text=True, timeout=3000, env=env)
    res = {"evaluations": 0, "fails": [], "ub": None}
    for line in p.stdout.split("\n"):
        t = line.split(" ")
        if t[0] == "native" and len(t) >= 4 and t[2].startswith("n="):
            res["evaluations"] += int(t[2][2:])
            if int(t[3][6:]):
                res["fails"].append(("miri:" + t[1], line))
    if "Undefined Behavior" in p.stderr:
        i = p.stderr.index("Undefined Behavior")
        res["ub"] = p.stderr[max(0, i - 200):i + 1500]
    elif p.returncode != 0:
        raise MachineryError(f"miri run failed: {p.stderr[-2000:]}")
    return res


def run_native(P, pid, tier, seed, known):
    runs = P.native_runs(tier, seed) if hasattr(P, "native_runs") else [P.native_args(tier, seed)]
    stdout = ""
    crashed = []
    for args in runs:
        p = core.subprocess.run([core.BIN_IMPL] + args, stdout=core.subprocess.PIPE,
                                stderr=core.subprocess.PIPE, text=True, timeout=3000)
        stdout += p.stdout
        if p.returncode != 0:
            if "panicked at" in p.stderr and (core.REPO + "/") in p.stderr:
                # the implementation itself panicked where no panic is specified: that is a finding, not a tool failure
                crashed.append((" ".join(args), p.stderr[-1500:]))
            else:
                raise MachineryError(f"native check failed to run: {p.stderr[-2000:]}")

    class _P:
        pass
    p = _P()
    p.stdout = stdout
    res = {"evaluations": 0, "fails": [], "known": [], "checks": {}, "exhaustive": None, "mq": 0, "mq_disagree": [],
           "mq_samples": [], "info": []}
    mqs = []
    knames = {e.get("probe"): e for e in known if e.get("status") == "known" and e.get("probe")}
    for line in p.stdout.split("\n"):
        t = line.split(" ")
        if t[0] == "native" and len(t) >= 3 and t[2].startswith("n="):
            n = int(t[2][2:])
            f = int(t[3][6:])
            res["evaluations"] += n
            res["checks"][t[1]] = {"n": n, "fails": f}
            if f:
                res["fails"].append((t[1], line.split(" first=", 1)[1] if " first=" in line else ""))
        elif t[0] == "native" and "exhaustive" in t[1]:
            res["exhaustive"] = line
        elif t[0] == "mq" and " => " in line:
            q, ans = line[3:].split(" => ", 1)
            mqs.append((q, ans))
        elif t[0] == "info":
            res["info"].append(line[5:])
        elif t[0] == "probe":
            ok = line.rstrip().endswith("ok=true")
            if not ok:
                if t[1] in knames:
                    res["known"].append(knames[t[1]].get("what", line))
                else:
                    res["fails"].append((t[1], line))
    for (a, err) in crashed:
        res["fails"].append(("native.unexpected_panic", f"`cgverif {a}` panicked inside cgmath: {err}"))
    if mqs:
        out = core.run_ops(core.BIN_MODEL, [], "".join(q + "\n" for q, _ in mqs))
        if len(out) != len(mqs):
            raise MachineryError("model query line count mismatch")
        res["mq"] = len(mqs)
        res["mq_distinct_nontrivial"] = len({q for q, _ in mqs if len(set(q.split(" ")[2:])) >= 2})
        for (q, ans), m in zip(mqs, out):
            if m in ("unknown-op", "bad-args", "bad-line"):
                raise MachineryError(f"protocol error on model query `{q}`: {m}")
            if m != ans:
                res["mq_disagree"].append((q, ans, m))
        seen = set()
        for (q, ans) in mqs:
            k = " ".join(q.split(" ")[:2])
            if k not in seen and len(res["mq_samples"]) < 6 and len(q.split(" ")) > 3:
                seen.add(k)
                res["mq_samples"].append({"op": k, "line": q, "impl": ans, "model": ans})
    return res


def describe_corr(b):
    c, x, y, sd = b
    if c is None:
        return {"theorem": x}
    return {"correspondence": f"D:{c.op}", "input": c.line(), "impl": x[:400], "model": (y or "")[:400], "oracle_seed": sd}


def write_evidence(P, pid, tier, seed, t0, thms, dres, ores, tres, nviol, notes, nres=None, inv=None):
    os.makedirs(f"{core.VERIF}/evidence", exist_ok=True)
    n_thm = len(thms) if thms else 0
    n_trace = (tres["obligations"] if tres else 0)
    n_trace_ok = (tres["discharged"] if tres else 0)
    cov = {
        "obligations": n_thm + n_trace,
        "discharged": n_thm + n_trace_ok,
        "checker_cmd": f"cd /verif/lean && lake build Cgm.Props.{pid} && lake env lean Cgm/Audit/{pid}.lean"
                       + (f" && lake build Cgm.Trace.{pid}" if tres else ""),
        "trusted_base": [
            "Lean 4.33.0 kernel; Mathlib v4.33.0 as compiled in /opt/veriftools",
            "axioms used by the property theorems: subset of {propext, Classical.choice, Quot.sound} (audited this run)",
            "no sorry/admit/axiom/native_decide/bv_decide in /verif/lean (source scan this run)",
            "tie model<->code: exact differential run (this run) of the real cgmath generic code at an exact-rational scalar vs the Lean model at Rat"
            + ("; trace translation of the listed kernels re-proved against the regenerated Gen file" if tres else ""),
            "modelled, not verified: scalar arithmetic, num_traits::Float functions (oracle-interpreted in D, real functions in theorems), approx crate comparisons, Rust generics parametricity",
        ],
        "theorems": sorted(thms.keys()) if thms else [],
        "explanation": P.title,
    }
    if dres is not None:
        cov.update({
            "evaluations": dres.total + (ores["total"] if ores else 0),
            "distinct_nontrivial": len(dres.nontrivial),
            "rule": "one evaluation = one op line run through the real cgmath code (exact rational scalar) and "
                    "through the Lean model, outputs compared byte for byte; inputs: corpus, boundary families, "
                    "seeded random rationals (mixed heights); distinct = distinct op lines; non-trivial = at least "
                    "two distinct non-zero argument values (one for unary scalar ops). Oracle clause evaluations "
                    "are counted in evaluations only.",
            "samples": dres.samples + (ores["samples"] if ores else []),
            "distinct_lines": len(dres.lines),
            "per_op_cases": dict(sorted(dres.per_op.items())),
            "outcomes": dres.outcomes,
            "families": dres.families,
            "disagreements": len(dres.disagreements),
            "branches": getattr(dres, "branches", {}),
            "oracle_clause_evaluations": ores["total"] if ores else 0,
            "oracle_skipped": ores["skipped"] if ores else 0,
            "oracle_failures": len(ores["fails"]) if ores else 0,
            "oracle_per_op": ores["per_op"] if ores else {},
        })
    else:
        cov.update({"evaluations": 0, "distinct_nontrivial": 0, "samples": []})
    if nres:
        cov["native"] = {"evaluations": nres["evaluations"], "checks": nres["checks"], "model_queries": nres["mq"],
                         "model_query_disagreements": len(nres["mq_disagree"]), "info": nres["info"],
                         "exhaustive": nres["exhaustive"], "known_findings_reported": nres["known"]}
        cov["evaluations"] = cov.get("evaluations", 0) + nres["evaluations"] + nres["mq"]
        if nres["mq_samples"]:
            cov["samples"] = (cov.get("samples") or []) + nres["mq_samples"]
            cov["distinct_nontrivial"] = cov.get("distinct_nontrivial", 0) + nres.get("mq_distinct_nontrivial", 0)
            cov["rule"] = (cov.get("rule", "") + " Model queries (native bookkeeping properties): one query = the per-component "
                           "results of one native case combined by the Lean model and compared with the implementation's "
                           "compound result; non-trivial = at least two distinct component tokens.").strip()
    if inv:
        cov["impl_inventory"] = {"regenerated_from_source": inv["error"] is None, "impls": inv["total"],
                                 "uncovered": inv["added"][:20], "vanished": inv["removed"][:20],
                                 "exhaustive": inv["error"] is None and not inv["added"] and not inv["removed"]}
    if tres:
        cov["trace"] = {k: tres[k] for k in ("obligations", "discharged", "kernels", "failed")}
        cov["trace"]["end_to_end_theorems"] = tres.get("e2e_theorems", 0)
    ev = {
        "property_id": pid, "tier": tier, "seed": seed, "level": "proof", "coverage": cov,
        "assumptions": [
            "theorems are over exact fields / the reals; floating-point rounding is outside the model unless stated",
            "Rust generic code computes the same function of its scalar operations at every scalar type (parametricity)",
        ] + notes,
        "wall_s": round(time.time() - t0, 2), "violations": nviol,
        "tree": core.repo_state(),
    }
    with open(f"{core.VERIF}/evidence/{pid}.json", "w") as f:
        json.dump(ev, f, indent=1)


if __name__ == "__main__":
    sys.exit(main())
