"""Further traced paths (obligations in lean/Cgm/Trace/<pid>More.lean).

C13: every remaining path class of Angle::normalize_signed / opposite / bisect, in both units, so that the traced
paths are exhaustive.  Path names: t_<unit>_<fn>_<path>; for `bisect` the path is named
<first>[_<third>] with <first> in {near, wrap, half, neg_near, neg_wrap, neg_half, same} (outcome of the first two
three-way comparisons `d ? 0`, `T/2 ? lifted d`) and the suffix `_neg` / `_zero` for the third (`m ? 0`; no suffix: Greater).

The full turn of Rad is the rational Lits.radFull = T; H = T/2 is "exactly half a turn".
"""
from fractions import Fraction as _F

T = _F(884279719003555, 140737488355328)
H = T / 2


def _q(x):
    x = _F(x)
    return str(x.numerator) if x.denominator == 1 else f"{x.numerator}/{x.denominator}"


MORE = {
    "C13": [
        # normalize_signed
        ("t_deg_normalize_signed_neg_half", "deg.normalize_signed -180"),
        ("t_rad_normalize_signed_neg_hi", "rad.normalize_signed -1"),
        ("t_rad_normalize_signed_neg_lo", "rad.normalize_signed -4"),
        ("t_rad_normalize_signed_zero", "rad.normalize_signed 0"),
        ("t_rad_normalize_signed_half", f"rad.normalize_signed {_q(H)}"),
        ("t_rad_normalize_signed_neg_half", f"rad.normalize_signed {_q(-H)}"),
        # opposite
        ("t_rad_opposite_neg", "rad.opposite -5"),
        ("t_rad_opposite_zero", f"rad.opposite {_q(-H)}"),
        # Deg::bisect: the fourteen paths that were not traced
        ("t_deg_bisect_near_zero", "deg.bisect -20 20"),
        ("t_deg_bisect_wrap_neg", "deg.bisect -10 340"),
        ("t_deg_bisect_wrap_zero", "deg.bisect 10 350"),
        ("t_deg_bisect_half", "deg.bisect 0 180"),
        ("t_deg_bisect_half_neg", "deg.bisect -200 -20"),
        ("t_deg_bisect_half_zero", "deg.bisect -90 90"),
        ("t_deg_bisect_neg_near_neg", "deg.bisect -200 -400"),
        ("t_deg_bisect_neg_near_zero", "deg.bisect -30 -330"),
        ("t_deg_bisect_neg_wrap_zero", "deg.bisect 10 -10"),
        ("t_deg_bisect_neg_half", "deg.bisect 10 -170"),
        ("t_deg_bisect_neg_half_neg", "deg.bisect -100 -280"),
        ("t_deg_bisect_neg_half_zero", "deg.bisect -90 -270"),
        ("t_deg_bisect_same_neg", "deg.bisect -50 -50"),
        ("t_deg_bisect_same_zero", "deg.bisect 0 0"),
        # Rad::bisect: the nineteen paths that were not traced
        ("t_rad_bisect_near_neg", "rad.bisect -3 -2"),
        ("t_rad_bisect_near_zero", "rad.bisect -1 1"),
        ("t_rad_bisect_wrap_neg", "rad.bisect -6 -1"),
        ("t_rad_bisect_wrap_zero", f"rad.bisect 1/4 {_q(T - _F(1, 4))}"),
        ("t_rad_bisect_half", f"rad.bisect 0 {_q(H)}"),
        ("t_rad_bisect_half_neg", f"rad.bisect -4 {_q(-4 + H)}"),
        ("t_rad_bisect_half_zero", f"rad.bisect {_q(-H / 2)} {_q(H / 2)}"),
        ("t_rad_bisect_neg_near", "rad.bisect 6 1"),
        ("t_rad_bisect_neg_near_neg", "rad.bisect -1 -6"),
        ("t_rad_bisect_neg_near_zero", f"rad.bisect -1/4 {_q(_F(1, 4) - T)}"),
        ("t_rad_bisect_neg_wrap", "rad.bisect 2 1"),
        ("t_rad_bisect_neg_wrap_neg", "rad.bisect -1 -2"),
        ("t_rad_bisect_neg_wrap_zero", "rad.bisect 1 -1"),
        ("t_rad_bisect_neg_half", f"rad.bisect 0 {_q(-H)}"),
        ("t_rad_bisect_neg_half_neg", f"rad.bisect -4 {_q(-4 - H)}"),
        ("t_rad_bisect_neg_half_zero", f"rad.bisect {_q(-H / 2)} {_q(-3 * H / 2)}"),
        ("t_rad_bisect_same", "rad.bisect 1 1"),
        ("t_rad_bisect_same_neg", "rad.bisect -1 -1"),
        ("t_rad_bisect_same_zero", "rad.bisect 0 0"),
        # the one `turn_div_k` that had no kernel
        ("t_rad_turn_div_4", "rad.turn_div_4"),
    ],
}
