"""regenerate /verif/MANIFEST.json from the property registry"""
import json
from .props import REG

ALL = [f"C{i:02d}" for i in range(1, 21)]


def main():
    checks = []
    for pid in ALL:
        if pid not in REG:
            continue
        P = REG[pid]
        checks.append({
            "property_id": pid,
            "quick_cmd": f"bin/check {pid} --tier quick",
            "thorough_cmd": f"bin/check {pid} --tier thorough",
            "evidence_file": f"/verif/evidence/{pid}.json",
            "replay_cmd_template": f"bin/check {pid} --replay {{path}}",
            "engine": "lean4-model-proof",
            "level_claimed": {
                "category": "proof",
                "text": P.level_text,
                "design_ref": P.design_ref,
            },
            "level_note": P.level_note,
            "technique": P.technique,
        })
    na = [{"property_id": pid, "reason": "not yet built in this round: model, theorems and correspondence for it are still to come (no technical obstacle; see DESIGN.md §6)"}
          for pid in ALL if pid not in REG]
    m = {
        "version": 1,
        "setup_cmd": "bin/setup",
        "hooks": {
            "guard": "cgmath_verif",
            "enable": "none needed: cgmath's BaseNum/BaseFloat are blanket-implemented, the harness instantiates the unmodified generic code at its own scalar types (DESIGN §3)",
            "baseline_off_cmd": "cd /repo && cargo test --workspace --no-fail-fast --offline",
            "source_commits": [],
            "add_only": True,
        },
        "engines": [{
            "name": "lean4-model-proof",
            "path": "/verif/lean",
            "serves_properties": [c["property_id"] for c in checks],
            "kind_free_text": "Lean 4 model of cgmath (Cgm/Model), property theorems (Cgm/Props), axiom audit (Cgm/Audit); tied to /repo by an exact differential correspondence (harness/ = real cgmath at an exact rational scalar vs lean exe cgdriver) and by trace translation (Cgm/Gen regenerated from the code, Cgm/Trace obligations)",
        }],
        "checks": checks,
        "notes": "exit 0 = held; exit 1 + VIOLATION line = violation; exit 2 = machinery error. VERIF_SEED seeds every random choice.",
        "not_applicable": na,
    }
    with open("/verif/MANIFEST.json", "w") as f:
        json.dump(m, f, indent=1)
    print(f"{len(checks)} checks, {len(na)} not yet claimed")


if __name__ == "__main__":
    main()
