"""Layer T kernel table: which real functions are traced, and on which shadow input (the shadow input only
selects the path through the code's comparisons; the emitted expressions are symbolic in all arguments).
The obligations about the emitted definitions are the static theorems in lean/Cgm/Trace/<ID>.lean,
one per kernel, with the same name."""

def _seq(n, start=2):
    # distinct small integers without accidental structure
    base = [2, 3, 5, 7, 11, 13, 17, 19, 23, 29, 31, 37, 41, 43, 47, 53, 59, 61, 67, 71, 73, 79, 83, 89, 97, 101, 103, 107, 109, 113, 127, 131]
    return " ".join(str(b) for b in base[start - 2:start - 2 + n])

M4A = "1 2 3 4 5 6 7 8 9 10 11 13 17 19 23 29"          # det = 24... (nonzero)
M3A = "2 3 5 7 11 13 17 19 29"
M2A = "2 3 5 7"

MANUAL = {
    "C01": [
        ("t_m2_mul", "m2.mul " + _seq(8)), ("t_m3_mul", "m3.mul " + _seq(18)), ("t_m4_mul", "m4.mul " + _seq(32)),
        ("t_m2_mul_v", "m2.mul_v " + _seq(6)), ("t_m3_mul_v", "m3.mul_v " + _seq(12)), ("t_m4_mul_v", "m4.mul_v " + _seq(20)),
        ("t_m4_transpose", "m4.transpose " + _seq(16)), ("t_m3_transpose", "m3.transpose " + _seq(9)),
        ("t_m4_from_translation", "m4.from_translation 2 3 5"), ("t_m3_from_translation", "m3.from_translation 2 3"),
        ("t_m4_from_nonuniform_scale", "m4.from_nonuniform_scale 2 3 5"), ("t_m3_from_nonuniform_scale", "m3.from_nonuniform_scale 2 3"),
        ("t_m4_from_scale", "m4.from_scale 7"), ("t_m3_from_scale", "m3.from_scale 7"),
        ("t_m2_to_m3", "m2.to_m3 " + _seq(4)), ("t_m2_to_m4", "m2.to_m4 " + _seq(4)), ("t_m3_to_m4", "m3.to_m4 " + _seq(9)),
        ("t_m4_transform_vector", "m4.transform_vector " + _seq(19)), ("t_m4_transform_point", "m4.transform_point " + _seq(19)),
        ("t_m3_transform_vector2", "m3.transform_vector2 " + _seq(11)), ("t_m3_transform_point2", "m3.transform_point2 " + _seq(11)),
        ("t_m3_transform_vector", "m3.transform_vector " + _seq(12)), ("t_m3_transform_point", "m3.transform_point " + _seq(12)),
        ("t_m4_mul_s", "m4.mul_s " + _seq(17)), ("t_m4_div_s", "m4.div_s " + _seq(17)), ("t_m4_add", "m4.add " + _seq(32)),
        ("t_m3_concat2", "m3.concat2 " + _seq(18)), ("t_m4_concat", "m4.concat " + _seq(32)),
    ],
    "C02": [
        ("t_m2_det", "m2.det " + M2A), ("t_m3_det", "m3.det " + M3A), ("t_m4_det", "m4.det " + M4A),
        ("t_m2_invert_some", "m2.invert " + M2A), ("t_m3_invert_some", "m3.invert " + M3A), ("t_m4_invert_some", "m4.invert " + M4A),
        ("t_m2_invert_none", "m2.invert 2 3 4 6"), ("t_m3_invert_none", "m3.invert 1 2 3 2 4 6 1 1 1"),
        ("t_m4_invert_none", "m4.invert 1 2 3 4 2 4 6 8 1 1 1 1 0 1 0 1"),
        ("t_m4_inverse_transform_vector_none", "m4.inverse_transform_vector 1 2 3 4 2 4 6 8 1 1 1 1 0 1 0 1 1 2 3"),
        ("t_m3_inverse_transform2_some", "m3.inverse_transform2 " + M3A), ("t_m3_inverse_transform_some", "m3.inverse_transform " + M3A),
        ("t_m4_inverse_transform_some", "m4.inverse_transform " + M4A),
        ("t_m3_inverse_transform_vector_some", "m3.inverse_transform_vector " + M3A + " 1 2 3"),
        ("t_m2_transpose", "m2.transpose " + M2A), ("t_m3_transpose", "m3.transpose " + M3A), ("t_m4_transpose", "m4.transpose " + M4A),
    ],
    "C03": [
        ("t_v3_cross", "v3.cross " + _seq(6)), ("t_v2_perp_dot", "v2.perp_dot " + _seq(4)),
        ("t_v1_dot", "v1.dot " + _seq(2)), ("t_v2_dot", "v2.dot " + _seq(4)), ("t_v3_dot", "v3.dot " + _seq(6)), ("t_v4_dot", "v4.dot " + _seq(8)),
        ("t_v3_add", "v3.add " + _seq(6)), ("t_v3_sub", "v3.sub " + _seq(6)), ("t_v3_neg", "v3.neg " + _seq(3)),
        ("t_v3_mul", "v3.mul " + _seq(4)), ("t_v3_div", "v3.div " + _seq(4)), ("t_v4_div", "v4.div " + _seq(5)),
        ("t_v2_div", "v2.div " + _seq(3)), ("t_v4_mul", "v4.mul " + _seq(5)),
        ("t_v4_sum", "v4.sum " + _seq(4)), ("t_v4_product", "v4.product " + _seq(4)), ("t_v3_mul_ew", "v3.mul_ew " + _seq(6)),
    ],
    "C04": [
        ("t_q_mul", "q.mul " + _seq(8)), ("t_q_conjugate", "q.conjugate " + _seq(4)), ("t_q_invert", "q.invert " + _seq(4)),
        ("t_q_rotate_vector", "q.rotate_vector " + _seq(7)), ("t_q_mul_v", "q.mul_v " + _seq(7)),
        ("t_q_magnitude2", "q.magnitude2 " + _seq(4)), ("t_q_dot", "q.dot " + _seq(8)),
        ("t_q_add", "q.add " + _seq(8)), ("t_q_mul_s", "q.mul_s " + _seq(5)), ("t_q_div_s", "q.div_s " + _seq(5)),
        ("t_q_rotate_point", "q.rotate_point " + _seq(7)),
    ],
    "C05": [
        ("t_q_to_m3", "q.to_m3 " + _seq(4)), ("t_q_to_m4", "q.to_m4 " + _seq(4)),
        # From<Matrix3> for Quaternion: one shadow matrix per branch
        ("t_m3_to_quat_trace", "m3.to_quat 1 0 0 0 1 0 0 0 1"),
        ("t_m3_to_quat_xx", "m3.to_quat 1 0 0 0 -1 0 0 0 -1"),
        ("t_m3_to_quat_yy", "m3.to_quat -1 0 0 0 1 0 0 0 -1"),
        ("t_m3_to_quat_zz", "m3.to_quat -1 0 0 0 -1 0 0 0 1"),
        ("t_m3_to_quat_zz2", "m3.to_quat 0 0 0 0 -2 0 0 0 1"),
        ("t_b3_mul", "b3.mul " + _seq(8)),
    ],
    "C06": [
        ("t_m2_from_angle", "m2.from_angle 1/2"), ("t_m3_from_angle_x", "m3.from_angle_x 1/2"),
        ("t_m3_from_angle_y", "m3.from_angle_y 1/2"), ("t_m3_from_angle_z", "m3.from_angle_z 1/2"),
        ("t_m4_from_angle_x", "m4.from_angle_x 1/2"), ("t_m4_from_angle_y", "m4.from_angle_y 1/2"),
        ("t_m4_from_angle_z", "m4.from_angle_z 1/2"),
        ("t_m3_from_axis_angle", "m3.from_axis_angle 2 3 5 1/2"), ("t_m4_from_axis_angle", "m4.from_axis_angle 2 3 5 1/2"),
        ("t_q_from_axis_angle", "q.from_axis_angle 2 3 5 1/2"),
        ("t_q_from_angle_x", "q.from_angle_x 1/2"), ("t_q_from_angle_y", "q.from_angle_y 1/2"), ("t_q_from_angle_z", "q.from_angle_z 1/2"),
        ("t_b2_from_angle", "b2.from_angle 1/2"),
    ],
    "C07": [
        ("t_m3_from_euler", "m3.from_euler 1/2 1/3 1/5"), ("t_m4_from_euler", "m4.from_euler 1/2 1/3 1/5"),
        ("t_q_from_euler", "q.from_euler 1/2 1/3 1/5"),
        # From<Quaternion> for Euler: main path, and the two gimbal paths (|test| > 0.499 unit)
        ("t_q_to_euler_main", "q.to_euler 1 1/2 1/3 1/5"),
        ("t_q_to_euler_pos", "q.to_euler 1 0 1 0"), ("t_q_to_euler_neg", "q.to_euler 1 0 -1 0"),
    ],
    "C09": [
        ("t_m4_look_to_rh", "m4.look_to_rh " + _seq(9)), ("t_m4_look_to_lh", "m4.look_to_lh " + _seq(9)),
        ("t_m4_look_at_rh", "m4.look_at_rh " + _seq(9)), ("t_m4_look_at_lh", "m4.look_at_lh " + _seq(9)),
        ("t_m3_look_to_lh", "m3.look_to_lh " + _seq(6)), ("t_m3_look_to_rh", "m3.look_to_rh " + _seq(6)),
        # Matrix2::look_at: the flip comparison `up.x * dir.y >= up.y * dir.x`, both outcomes
        ("t_m2_look_at_flip", "m2.look_at 3 4 1 0"), ("t_m2_look_at_noflip", "m2.look_at 3 4 0 1"),
        ("t_m3_tlook_at2_lh", "m3.tlook_at2_lh 1 2 4 6 0 1"), ("t_m3_tlook_at2_rh", "m3.tlook_at2_rh 1 2 4 6 0 1"),
        ("t_m3_tlook_at_lh", "m3.tlook_at_lh " + _seq(9)), ("t_m3_tlook_at_rh", "m3.tlook_at_rh " + _seq(9)),
        ("t_m4_tlook_at_lh", "m4.tlook_at_lh " + _seq(9)), ("t_m4_tlook_at_rh", "m4.tlook_at_rh " + _seq(9)),
        ("t_b3_look_at", "b3.look_at " + _seq(6)),
    ],
    "C11": [
        ("t_v2_magnitude", "v2.magnitude 3 4"), ("t_v3_magnitude", "v3.magnitude 2 3 6"), ("t_v4_magnitude", "v4.magnitude 1 2 2 4"),
        ("t_v3_normalize", "v3.normalize 2 3 6"), ("t_v3_normalize_to", "v3.normalize_to 2 3 6 5"),
        ("t_v3_distance", "v3.distance 1 2 3 3 5 9"), ("t_v3_project_on", "v3.project_on " + _seq(6)),
        ("t_v3_angle", "v3.angle " + _seq(6)), ("t_v2_angle", "v2.angle " + _seq(4)), ("t_v4_angle", "v4.angle 1 2 2 4 4 2 2 1"), ("t_v4_angle_clamped", "v4.angle " + _seq(8)),
        ("t_q_angle", "q.angle 1 2 2 4 4 2 2 1"),
        ("t_q_magnitude", "q.magnitude 1 2 2 4"), ("t_q_normalize", "q.normalize 1 2 2 4"), ("t_q_distance2", "q.distance2 " + _seq(8)),
        ("t_p3_distance2", "p3.distance2 " + _seq(6)),
    ],
    "C12": [
        ("t_p3_from_homogeneous", "p3.from_homogeneous 2 3 5 7"), ("t_p3_to_homogeneous", "p3.to_homogeneous 2 3 5"),
        ("t_p3_midpoint", "p3.midpoint " + _seq(6)), ("t_p2_midpoint", "p2.midpoint " + _seq(4)),
        ("t_p3_centroid_3", "p3.centroid " + _seq(9)), ("t_p2_centroid_1", "p2.centroid 2 3"), ("t_p2_centroid_2", "p2.centroid 2 3 5 7"),
        ("t_p3_add_v", "p3.add_v " + _seq(6)), ("t_p3_sub_p", "p3.sub_p " + _seq(6)), ("t_p3_sub_v", "p3.sub_v " + _seq(6)),
    ],
    "C14": [
        ("t_v3_lerp", "v3.lerp " + _seq(7)), ("t_q_lerp", "q.lerp 1 2 3 4 -5 -6 -7 -8 1/3"), ("t_v4_lerp", "v4.lerp " + _seq(9)),
        ("t_q_nlerp_pos", "q.nlerp 1 2 3 4 5 6 7 8 1/3"), ("t_q_nlerp_neg", "q.nlerp 1 2 3 4 -5 -6 -7 -8 1/3"),
        # slerp: far apart (dot <= 0.9995) with non-negative and negative dot; near (hands over to nlerp)
        ("t_q_slerp_far_pos", "q.slerp 1 0 0 0 3/5 4/5 0 0 1/3"), ("t_q_slerp_far_neg", "q.slerp 1 0 0 0 -3/5 4/5 0 0 1/3"),
        ("t_q_slerp_near", "q.slerp 1 0 0 0 1 0 0 0 1/3"), ("t_q_slerp_near_neg", "q.slerp 1 0 0 0 -1 0 0 0 1/3"),
    ],
    "C08": [
        ("t_dq_concat", "dq.concat 2 1 2 3 4 5 6 7 3 8 9 10 11 12 13 14"), ("t_dq_transform_point", "dq.transform_point 2 1 2 3 4 5 6 7 8 9 10"),
        ("t_dq_transform_vector", "dq.transform_vector 2 1 2 3 4 5 6 7 8 9 10"),
        ("t_dq_to_matrix", "dq.to_matrix 2 1 2 3 4 5 6 7"),
        ("t_dq_inverse_transform_some", "dq.inverse_transform 2 1 2 3 4 5 6 7"),
        ("t_dq_inverse_transform_none", "dq.inverse_transform 0 1 2 3 4 5 6 7"),
        ("t_db2_concat", "db2.concat 2 1/2 5 6 3 1/3 7 8"), ("t_db2_to_matrix", "db2.to_matrix 2 1/2 5 6"),
        ("t_m3_concat2", "m3.concat2 " + _seq(18)), ("t_m3_concat", "m3.concat " + _seq(18)), ("t_m4_concat", "m4.concat " + _seq(32)),
        ("t_m3_concat_self2", "m3.concat_self2 " + _seq(18)), ("t_m4_concat_self", "m4.concat_self " + _seq(32)), ("t_m3_concat_self", "m3.concat_self " + _seq(18)),
        ("t_dq_concat_self", "dq.concat_self 2 1 2 3 4 5 6 7 3 8 9 10 11 12 13 14"), ("t_dq_mul", "dq.mul 2 1 2 3 4 5 6 7 3 8 9 10 11 12 13 14"),
        ("t_dq_inverse_transform_vector", "dq.inverse_transform_vector 2 1 2 3 4 5 6 7 8 9 10"),
        ("t_m3_inverse_transform2_some", "m3.inverse_transform2 " + M3A), ("t_m3_inverse_transform_some", "m3.inverse_transform " + M3A),
        ("t_m4_inverse_transform_some", "m4.inverse_transform " + M4A),
        ("t_m3_transform_point2", "m3.transform_point2 " + _seq(11)), ("t_m3_transform_vector2", "m3.transform_vector2 " + _seq(11)),
        ("t_m4_transform_point", "m4.transform_point " + _seq(19)), ("t_m4_transform_vector", "m4.transform_vector " + _seq(19)),
        ("t_dq_look_at_lh", "dq.look_at_lh " + _seq(9)), ("t_dq_look_at_rh", "dq.look_at_rh " + _seq(9)),
    ],
    "C10": [
        ("t_ortho", "proj.ortho -1 3 -2 5 1 10"),
        ("t_frustum_ok", "proj.frustum -1 3 -2 5 1 10"), ("t_frustum_bad_lr", "proj.frustum 3 -1 -2 5 1 10"),
        ("t_frustum_bad_bt", "proj.frustum -1 3 5 -2 1 10"), ("t_frustum_bad_nf", "proj.frustum -1 3 -2 5 10 1"),
        ("t_perspective_ok", "proj.perspective 1 3/2 1 10"), ("t_perspective_bad_fovy", "proj.perspective -1 3/2 1 10"),
        ("t_perspective_bad_near", "proj.perspective 1 3/2 -1 10"),
        ("t_planar_ok", "proj.planar 1 3/2 2 1 10"),
        ("t_to_perspective", "proj.to_perspective 1 3/2 1 10"),
    ],
    "C13": [
        ("t_rad_to_deg", "rad.to_deg 2"), ("t_deg_to_rad", "deg.to_rad 90"),
        ("t_rad_normalize_pos", "rad.normalize 7"), ("t_rad_normalize_neg", "rad.normalize -1"),
        ("t_deg_normalize_pos", "deg.normalize 400"), ("t_deg_normalize_neg", "deg.normalize -30"),
        ("t_deg_normalize_signed_hi", "deg.normalize_signed 270"), ("t_deg_normalize_signed_lo", "deg.normalize_signed 30"),
        ("t_deg_opposite", "deg.opposite 30"),
        # normalize_signed with a negative remainder (a < 0): the remainder is lifted by a full turn first
        ("t_deg_normalize_signed_neg_hi", "deg.normalize_signed -30"), ("t_deg_normalize_signed_neg_lo", "deg.normalize_signed -270"),
        ("t_rad_normalize_signed_hi", "rad.normalize_signed 5"), ("t_rad_normalize_signed_lo", "rad.normalize_signed 1"),
        ("t_rad_opposite", "rad.opposite 1"), ("t_deg_opposite_neg", "deg.opposite -300"),
        ("t_deg_normalize_zero", "deg.normalize 720"), ("t_deg_bisect_wrap", "deg.bisect 50 350"), ("t_deg_bisect_near", "deg.bisect 50 80"),
        ("t_deg_acos", "deg.acos 1/2"), ("t_deg_asin", "deg.asin 1/2"), ("t_deg_atan", "deg.atan 1/2"), ("t_deg_atan2", "deg.atan2 1 2"),
        ("t_rad_acos", "rad.acos 1/2"), ("t_deg_sin", "deg.sin 30"), ("t_deg_cos", "deg.cos 30"), ("t_deg_tan", "deg.tan 30"),
        ("t_rad_sin", "rad.sin 1"), ("t_deg_turn_div_3", "deg.turn_div_3"), ("t_rad_turn_div_6", "rad.turn_div_6"),
    ],
    "C15": [
        ("t_b2_between_vectors", "b2.between_vectors 1 2 -3 1"),
        ("t_q_between_vectors_general", "q.between_vectors 1 0 0 0 1 0"),
        ("t_q_from_arc_general", "q.from_arc 1 0 0 0 1 0"),
        ("t_q_between_vectors_same", "q.between_vectors 1 0 0 1 0 0"), ("t_q_from_arc_same", "q.from_arc 1 0 0 1 0 0"),
    ],
}

# kernels whose obligation was generated from the Lean driver tables (tools/gen_tobl.py; lean/Cgm/Trace/<pid>Auto.lean)
try:
    from .tracetab_auto import AUTO
except ImportError:
    AUTO = {}
# further branching paths (obligations in lean/Cgm/Trace/<pid>Paths.lean)
try:
    from .tracetab_paths import PATHS
except ImportError:
    PATHS = {}
# remaining path classes of the branching functions (obligations in lean/Cgm/Trace/<pid>More.lean) and the operations
# that had a model function and a driver op but no kernel (lean/Cgm/Trace/<pid>Rest.lean)
# the operations added for C18 / C16 (tracetab_ops.py; lean/Cgm/Trace/<pid>Ops*.lean) and the operand forms / fold lengths
# added for C17 (tracetab_ops2.py; lean/Cgm/Trace/C17Ops*.lean); C18 for Euler / Decomposed / Basis2 / Basis3 (tracetab_ops3.py)
MORE, REST, OPS = {}, {}, {}
for _mod, _name, _dst in (("tracetab_more", "MORE", MORE), ("tracetab_more2", "MORE", MORE), ("tracetab_rest", "REST", REST),
                          ("tracetab_ops", "OPS", OPS), ("tracetab_ops2", "OPS2", OPS),
                          ("tracetab_ops3", "OPS3", OPS)):
    try:
        _m = __import__("cgv." + _mod, fromlist=[_name])
        for _k, _v in getattr(_m, _name).items():
            _dst.setdefault(_k, []).extend(_v)
    except ImportError:
        pass
TRACE = {pid: list(MANUAL.get(pid, [])) + list(AUTO.get(pid, [])) + list(PATHS.get(pid, [])) + list(MORE.get(pid, [])) + list(REST.get(pid, []))
         + list(OPS.get(pid, []))
         for pid in sorted(set(MANUAL) | set(AUTO) | set(PATHS) | set(MORE) | set(REST) | set(OPS))}
_names = [k for l in TRACE.values() for k, _ in l]
assert len(_names) == len(set(_names)) or all(len({k for k, _ in l}) == len(l) for l in TRACE.values()), "duplicate kernel name"

