"""Per-property configuration: which ops tie the model to the code (D), which
boundary families and which oracle clauses (O) are run."""
from fractions import Fraction as F

from .core import Case, gen_random
from .sigs import SIG

REG = {}


def prop(pid):
    def deco(cls):
        REG[pid] = cls()
        cls.pid = pid
        return cls
    return deco


class Base:
    title = ""
    ops = []          # ops compared between implementation and model
    oracle_ops = []   # oracle ops (harness only)
    design_ref = ""
    level_text = ("Machine-checked Lean 4 theorems state the property for all inputs of a formal model of the code; "
                  "the model is tied to /repo's current source on every run by an exact differential correspondence "
                  "(real cgmath code at an exact rational scalar vs the model, byte-for-byte) and direct oracle "
                  "evaluation of the property clauses on the implementation.")
    level_note = ("Trusted: Lean kernel + Mathlib, axioms {propext, Classical.choice, Quot.sound}; the model<->code tie is a "
                  "checked correspondence on sampled+boundary inputs (Schwartz-Zippel: different rational functions "
                  "disagree almost surely), not a proof about the Rust source; scalar arithmetic, num_traits::Float and "
                  "approx are parameters of the model; floating-point rounding is outside the model.")
    technique = "Lean 4 theorems about a model + exact differential correspondence (Rust exact-rational scalar vs Lean Rat driver)"

    def families(self, rng, tier):
        return []

    def oracle_cases(self, rng, tier):
        return []

    def n_random(self, tier):
        return 30 if tier == "quick" else 1500


def ops_with_prefix(*prefixes, exclude=()):
    out = []
    for k in SIG:
        if any(k.startswith(p) for p in prefixes) and k not in exclude:
            out.append(k)
    return out


def pyth_vectors(rng, n):
    """vectors of dimension n with rational length (exact sqrt)"""
    base = {1: [[F(3)], [F(-5, 7)]],
            2: [[F(3), F(4)], [F(-5), F(12)], [F(8, 3), F(5)]],
            3: [[F(1), F(2), F(2)], [F(2), F(-3), F(6)], [F(4), F(4), F(-7)], [F(1), F(4), F(8)]],
            4: [[F(1), F(1), F(1), F(1)], [F(2), F(4), F(5), F(6)], [F(1), F(-2), F(2), F(4)], [F(1), F(3), F(5), F(17)]]}[n]
    v = rng.choice(base)
    k = rng.rat_nz()
    perm = list(v)
    # random permutation + signs
    for i in range(len(perm) - 1, 0, -1):
        j = rng.below(i + 1)
        perm[i], perm[j] = perm[j], perm[i]
    return [x * k * rng.choice([1, -1]) for x in perm]


@prop("C03")
class C03(Base):
    title = "vectors: inner-product space, cross, perp-dot"
    design_ref = "§6 C03"
    ops = ops_with_prefix("v1.", "v2.", "v3.", "v4.", "dot.v3")

    def families(self, rng, tier):
        out = []
        reps = 3 if tier == "quick" else 40
        for n in (1, 2, 3, 4):
            for _ in range(reps):
                # masks named in why_tests_cant: one zero and one duplicated component
                u = rng.distinct(n)
                v = rng.distinct(n)
                if n >= 2:
                    u[rng.below(n)] = F(0)
                    i = rng.below(n)
                    v[i] = v[(i + 1) % n]
                for op in ("dot", "mul_ew", "div_ew", "add", "sub", "distance2", "project_on"):
                    out.append(Case(f"v{n}.{op}", u + v, family="mask"))
                # exact-sqrt family
                pv = pyth_vectors(rng, n)
                pw = pyth_vectors(rng, n)
                out.append(Case(f"v{n}.magnitude", pv, family="exact-sqrt"))
                out.append(Case(f"v{n}.normalize", pv, family="exact-sqrt"))
                out.append(Case(f"v{n}.normalize_to", pv + [rng.rat_nz()], family="exact-sqrt"))
                out.append(Case(f"v{n}.angle", pv + pw, family="exact-sqrt"))
                # zero vector edge
                out.append(Case(f"v{n}.is_zero", [F(0)] * n, family="edge"))
                out.append(Case(f"v{n}.normalize", [F(0)] * n, family="edge"))
                out.append(Case(f"v{n}.div", u + [F(0)], family="edge"))
                # every index incl. out of range
                for i in range(n + 2):
                    out.append(Case(f"v{n}.index", rng.distinct(n), [i], family="index"))
        for i in range(6):
            out.append(Case("v4.truncate_n", rng.distinct(4), [i], family="index"))
        # perpendicular pairs for is_perpendicular
        for _ in range(reps):
            a, b = rng.small_nz(), rng.small_nz()
            out.append(Case("v2.is_perpendicular", [a, b, -b, a], family="perp"))
            out.append(Case("v3.is_perpendicular", [a, b, F(0), -b, a, rng.small()], family="perp"))
        return out

    oracle_ops = ["o.v3.lagrange", "o.v3.cross_cross", "o.v3.cross_orth", "o.v.dot_bilinear"]

    def oracle_cases(self, rng, tier):
        out = []
        n = 40 if tier == "quick" else 2000
        for _ in range(n):
            u, v, w = [rng.rat() for _ in range(3)], [rng.rat() for _ in range(3)], [rng.rat() for _ in range(3)]
            out.append(Case("o.v3.lagrange", u + v, family="oracle"))
            out.append(Case("o.v3.cross_cross", u + v + w, family="oracle"))
            out.append(Case("o.v3.cross_orth", u + v, family="oracle"))
            a4 = [rng.rat() for _ in range(4)]
            b4 = [rng.rat() for _ in range(4)]
            c4 = [rng.rat() for _ in range(4)]
            out.append(Case("o.v.dot_bilinear", a4 + b4 + c4 + [rng.rat(), rng.rat()], family="oracle"))
        return out
