"""Per-property configuration: which ops tie the model to the code (D), which
boundary families and which oracle clauses (O) are run."""
from fractions import Fraction as F

from .core import Case, gen_random, special_matrix
from .sigs import SIG, EXTRA as EXTRA_OPS, C18_OPS, C16_OPS, EXTRA2 as EXTRA2_OPS, C17_FORM_OPS, EXTRA3 as EXTRA3_OPS, C18_OPS3

REG = {}


def narrow_run(name, tier, seed):
    """narrow-region native checks (harness/src/narrow.rs), f32 and f64"""
    return ["native", name, "3000" if tier == "quick" else "20000", str(seed)]


def prop(pid):
    def deco(cls):
        REG[pid] = cls()
        cls.pid = pid
        return cls
    return deco


class Base:
    title = ""
    ops = []          # ops compared between implementation and model
    oracle_ops = []   # oracle ops (harness only)
    design_ref = ""
    level_text = ("Machine-checked Lean 4 theorems state the property for all inputs of a formal model of the code; "
                  "the model is tied to /repo's current source on every run by an exact differential correspondence "
                  "(real cgmath code at an exact rational scalar vs the model, byte-for-byte) and direct oracle "
                  "evaluation of the property clauses on the implementation.")
    level_note = ("Trusted: Lean kernel + Mathlib, axioms {propext, Classical.choice, Quot.sound}; the recording scalar and the emitter "
                  "of the trace translation (they print what the real code executed); for the ops and paths not traced the model<->code tie "
                  "is a checked correspondence on sampled+boundary inputs (Schwartz-Zippel: different rational functions "
                  "disagree almost surely), not a proof about the Rust source; scalar arithmetic, num_traits::Float and "
                  "approx are parameters of the model; floating-point rounding is outside the model (native f32/f64 checks with explicit "
                  "margins cover the regions exact arithmetic cannot reach; they are oracle evaluations, not proof).")
    technique = ("Lean 4 theorems about a model (Cgm/Props) + trace translation: the model's kernels are regenerated from the source on "
                 "every run (real cgmath code executed on symbolic inputs, Cgm/Gen) and re-proved equal to the hand-written model on every "
                 "path traced (Cgm/Trace), with end-to-end theorems stating property clauses about the regenerated kernels (Cgm/E2E) "
                 "+ exact differential correspondence (Rust exact-rational scalar vs Lean Rat driver) for every op")

    def families(self, rng, tier):
        return []

    def oracle_cases(self, rng, tier):
        return []

    def n_random(self, tier):
        return 30 if tier == "quick" else 1500


def ops_with_prefix(*prefixes, exclude=()):
    out = []
    for k in SIG:
        if k in EXTRA_OPS or k in EXTRA2_OPS or k in EXTRA3_OPS:      # the C18 / C16 operations of sigs.EXTRA (and the operand forms of
            continue                                # sigs.EXTRA2: C17) belong to those properties only
        if any(k.startswith(p) for p in prefixes) and k not in exclude:
            out.append(k)
    return out


def pyth_vectors(rng, n):
    """vectors of dimension n with rational length (exact sqrt)"""
    base = {1: [[F(3)], [F(-5, 7)]],
            2: [[F(3), F(4)], [F(-5), F(12)], [F(8, 3), F(5)]],
            3: [[F(1), F(2), F(2)], [F(2), F(-3), F(6)], [F(4), F(4), F(-7)], [F(1), F(4), F(8)]],
            4: [[F(1), F(1), F(1), F(1)], [F(2), F(4), F(5), F(6)], [F(1), F(-2), F(2), F(4)], [F(1), F(3), F(5), F(17)]]}[n]
    v = rng.choice(base)
    k = rng.rat_nz()
    perm = list(v)
    # random permutation + signs
    for i in range(len(perm) - 1, 0, -1):
        j = rng.below(i + 1)
        perm[i], perm[j] = perm[j], perm[i]
    return [x * k * rng.choice([1, -1]) for x in perm]


@prop("C03")
class C03(Base):
    title = "vectors: inner-product space, cross, perp-dot"
    design_ref = "§6 C03"
    sparsify = ["o.v3.lagrange", "o.v3.cross_cross", "o.v3.cross_orth", "o.v.dot_bilinear"]
    ops = ops_with_prefix("v1.", "v2.", "v3.", "v4.", "dot.v3")

    def native_runs(self, tier, seed):
        # the ten integer scalar types ("where no overflow occurs"): component-wise i128 oracle;
        # every operand form (by reference, compound assignment) of the vector operators against the by-value form
        return [["native", "c03", "3000" if tier == "quick" else "300000", str(seed)],
                ["native", "c17", "0", str(seed), "Vector"]]

    def families(self, rng, tier):
        out = []
        reps = 3 if tier == "quick" else 40
        for n in (1, 2, 3, 4):
            for _ in range(reps):
                # masks named in why_tests_cant: one zero and one duplicated component
                u = rng.distinct(n)
                v = rng.distinct(n)
                if n >= 2:
                    u[rng.below(n)] = F(0)
                    i = rng.below(n)
                    v[i] = v[(i + 1) % n]
                for op in ("dot", "mul_ew", "div_ew", "add", "sub", "distance2", "project_on"):
                    out.append(Case(f"v{n}.{op}", u + v, family="mask"))
                # exact-sqrt family
                pv = pyth_vectors(rng, n)
                pw = pyth_vectors(rng, n)
                out.append(Case(f"v{n}.magnitude", pv, family="exact-sqrt"))
                out.append(Case(f"v{n}.normalize", pv, family="exact-sqrt"))
                out.append(Case(f"v{n}.normalize_to", pv + [rng.rat_nz()], family="exact-sqrt"))
                out.append(Case(f"v{n}.angle", pv + pw, family="exact-sqrt"))
                # zero vector edge
                out.append(Case(f"v{n}.is_zero", [F(0)] * n, family="edge"))
                out.append(Case(f"v{n}.normalize", [F(0)] * n, family="edge"))
                out.append(Case(f"v{n}.div", u + [F(0)], family="edge"))
                # every index incl. out of range
                for i in range(n + 2):
                    out.append(Case(f"v{n}.index", rng.distinct(n), [i], family="index"))
        for i in range(6):
            out.append(Case("v4.truncate_n", rng.distinct(4), [i], family="index"))
        # perpendicular pairs for is_perpendicular
        for _ in range(reps):
            a, b = rng.small_nz(), rng.small_nz()
            out.append(Case("v2.is_perpendicular", [a, b, -b, a], family="perp"))
            out.append(Case("v3.is_perpendicular", [a, b, F(0), -b, a, rng.small()], family="perp"))
        return out

    oracle_ops = ["o.v3.lagrange", "o.v3.cross_cross", "o.v3.cross_orth", "o.v.dot_bilinear"]

    def oracle_cases(self, rng, tier):
        out = []
        n = 40 if tier == "quick" else 2000
        for _ in range(n):
            u, v, w = [rng.rat() for _ in range(3)], [rng.rat() for _ in range(3)], [rng.rat() for _ in range(3)]
            out.append(Case("o.v3.lagrange", u + v, family="oracle"))
            out.append(Case("o.v3.cross_cross", u + v + w, family="oracle"))
            out.append(Case("o.v3.cross_orth", u + v, family="oracle"))
            a4 = [rng.rat() for _ in range(4)]
            b4 = [rng.rat() for _ in range(4)]
            c4 = [rng.rat() for _ in range(4)]
            out.append(Case("o.v.dot_bilinear", a4 + b4 + c4 + [rng.rat(), rng.rat()], family="oracle"))
        return out


PRIMES = [2, 3, 5, 7, 11, 13, 17, 19, 23, 29, 31, 37, 41, 43, 47, 53, 59, 61, 67, 71, 73, 79, 83, 89, 97,
          101, 103, 107, 109, 113, 127, 131]


def rand_mat(rng, n, style=None):
    style = style or rng.choice(["small", "small", "mixed", "primes"])
    if style == "small":
        return [rng.small() for _ in range(n * n)]
    if style == "primes":
        ps = list(PRIMES)
        out = []
        for _ in range(n * n):
            out.append(F(ps.pop(rng.below(len(ps)))) * rng.choice([1, -1]))
        return out
    return [rng.rat() for _ in range(n * n)]


def singular_mat(rng, n):
    """exactly singular: last column is a combination of the others (column-major flat list)"""
    cols = [[rng.small() for _ in range(n)] for _ in range(n - 1)]
    co = [rng.small() for _ in range(n - 1)]
    last = [sum(co[j] * cols[j][i] for j in range(n - 1)) for i in range(n)]
    cols.append(last)
    # shuffle columns
    for i in range(n - 1, 0, -1):
        j = rng.below(i + 1)
        cols[i], cols[j] = cols[j], cols[i]
    return [x for c in cols for x in c]


def tiny_det_mat(rng, n):
    """unimodular-ish small integer matrix with one column scaled by 2^-200: det tiny, non-zero"""
    while True:
        m = [rng.rng(-3, 3) for _ in range(n * n)]
        # quick determinant via fractions
        if det_flat([F(x) for x in m], n) != 0:
            break
    c = rng.below(n)
    out = [F(x) for x in m]
    for r in range(n):
        out[c * n + r] *= F(1, 2 ** 200)
    return out


def det_flat(m, n):
    a = [[m[c * n + r] for c in range(n)] for r in range(n)]
    det = F(1)
    for i in range(n):
        p = None
        for r in range(i, n):
            if a[r][i] != 0:
                p = r
                break
        if p is None:
            return F(0)
        if p != i:
            a[i], a[p] = a[p], a[i]
            det = -det
        det *= a[i][i]
        for r in range(i + 1, n):
            f = a[r][i] / a[i][i]
            for c in range(i, n):
                a[r][c] -= f * a[i][c]
    return det


def perm_sign_mat(rng, n):
    perm = list(range(n))
    for i in range(n - 1, 0, -1):
        j = rng.below(i + 1)
        perm[i], perm[j] = perm[j], perm[i]
    out = [F(0)] * (n * n)
    for c in range(n):
        out[c * n + perm[c]] = F(rng.choice([1, -1]))
    return out


_c01 = ["new", "id", "row", "col", "transpose", "diagonal", "trace", "from_value", "from_diagonal",
        "identity", "one", "zero", "add", "sub", "neg", "mul_s", "div_s", "rem_s", "mul_v", "mul",
    "sum_list", "product_list", "product_list_ref"]
_C01_OPS = [f"m{n}.{o}" for n in (2, 3, 4) for o in _c01] + [
    "m3.from_translation", "m4.from_translation", "m3.from_scale", "m4.from_scale",
    "m3.from_nonuniform_scale", "m4.from_nonuniform_scale", "m2.to_m3", "m2.to_m4", "m3.to_m4",
    "m3.transform_vector2", "m3.transform_point2", "m3.transform_vector", "m3.transform_point",
    "m4.transform_vector", "m4.transform_point", "m3.concat2", "m3.concat", "m4.concat",
    "m3.concat_self2", "m4.concat_self", "m3.concat_self", "p3.to_homogeneous", "p3.from_homogeneous"]


@prop("C01")
class C01(Base):
    title = "matrix products follow the column-major, column-vector convention; constructors; ring action"
    design_ref = "§6 C01"
    sparsify = ["o.m2.product", "o.m3.product", "o.m4.product", "o.m2.ring", "o.m3.ring", "o.m4.ring", "o.m4.constructors", "o.m3.constructors", "o.m.embed"]
    ops = _C01_OPS
    oracle_ops = ["o.m2.product", "o.m3.product", "o.m4.product", "o.m2.ring", "o.m3.ring", "o.m4.ring",
                  "o.m4.constructors", "o.m3.constructors", "o.m.embed", "o.m.action"]

    def native_runs(self, tier, seed):
        # every operand form (by reference, compound assignment) of the matrix operators against the by-value form
        return [["native", "c17", "0", str(seed), "Matrix"]]

    def families(self, rng, tier):
        out = []
        reps = 4 if tier == "quick" else 60
        for n in (2, 3, 4):
            for _ in range(reps):
                a = rand_mat(rng, n, "primes")
                b = rand_mat(rng, n, "primes")
                v = rng.distinct(n)
                # both operand orders; entries all distinct
                out.append(Case(f"m{n}.mul", a + b, family="primes"))
                out.append(Case(f"m{n}.mul", b + a, family="primes"))
                out.append(Case(f"m{n}.mul_v", a + v, family="primes"))
                out.append(Case(f"m{n}.transpose", a, family="primes"))
                out.append(Case(f"m{n}.new", a, family="primes"))
                for i in range(n + 2):
                    out.append(Case(f"m{n}.row", a, [i], family="index"))
                    out.append(Case(f"m{n}.col", a, [i], family="index"))
        for _ in range(reps):
            out.append(Case("m4.transform_point", rand_mat(rng, 4, "primes") + rng.distinct(3), family="primes"))
            # w = 0 after transformation: division by zero convention on both sides
            out.append(Case("p3.from_homogeneous", rng.distinct(3) + [F(0)], family="edge"))
        return out

    def oracle_cases(self, rng, tier):
        out = []
        k = 12 if tier == "quick" else 600
        for n in (2, 3, 4):
            for _ in range(k):
                out.append(Case(f"o.m{n}.product", rand_mat(rng, n) + rand_mat(rng, n) + [rng.rat() for _ in range(2 * n + 1)], family="oracle"))
                out.append(Case(f"o.m{n}.ring", rand_mat(rng, n) + rand_mat(rng, n) + rand_mat(rng, n) + [rng.rat() for _ in range(n + 1)], family="oracle"))
        for _ in range(k):
            out.append(Case("o.m4.constructors", [rng.rat() for _ in range(13)], family="oracle"))
            out.append(Case("o.m3.constructors", [rng.rat() for _ in range(9)], family="oracle"))
            out.append(Case("o.m.embed", rand_mat(rng, 2) + rand_mat(rng, 2) + rand_mat(rng, 3) + rand_mat(rng, 3), family="oracle"))
            out.append(Case("o.m.action", rand_mat(rng, 4) + rand_mat(rng, 3) + [rng.rat() for _ in range(10)], family="oracle"))
            out.append(Case("o.m.action", special_matrix(rng, 4) + special_matrix(rng, 3) + [rng.rat() for _ in range(10)], family="oracle-special"))
        # structured right-hand / left-hand operands (exact 0 / 1 entries, affine and almost-affine bottom rows, diagonal ...)
        for n in (2, 3, 4):
            for _ in range(k):
                for (x, y) in ((rand_mat(rng, n), special_matrix(rng, n)), (special_matrix(rng, n), rand_mat(rng, n)), (special_matrix(rng, n), special_matrix(rng, n))):
                    out.append(Case(f"o.m{n}.product", x + y + [rng.rat() for _ in range(2 * n + 1)], family="oracle-special"))
        return out


_c02 = ["det", "invert", "transpose", "transpose_self", "swap_rows", "swap_columns", "swap_elements",
            "replace_col", "mul"]
_C02_OPS = [f"m{n}.{o}" for n in (2, 3, 4) for o in _c02] + [
        "m3.inverse_transform2", "m3.inverse_transform", "m4.inverse_transform",
        "m3.inverse_transform_vector2", "m3.inverse_transform_vector", "m4.inverse_transform_vector",
        "v4.truncate_n"]


@prop("C02")
class C02(Base):
    title = "inverse, determinant, transpose and swaps obey linear algebra"
    design_ref = "§6 C02"
    sparsify = ["o.m2.inverse", "o.m3.inverse", "o.m4.inverse", "o.m2.det_laws", "o.m3.det_laws", "o.m4.det_laws", "o.m2.swaps", "o.m3.swaps", "o.m4.swaps"]
    ops = _C02_OPS
    oracle_ops = ["o.m{}.{}".format(n, o) for n in (2, 3, 4) for o in ("inverse", "det_laws", "swaps")] + [
        "o.m4.inverse_transform", "o.m3.inverse_transform"]

    def native_runs(self, tier, seed):
        # f32/f64: well-conditioned matrices scaled by tiny / huge factors (determinant far below the
        # approximate-equality allowance, entries below it), bottom row (0,0,0,w)
        return [narrow_run("nrc02", tier, seed)]

    def families(self, rng, tier):
        out = []
        reps = 6 if tier == "quick" else 150
        for n in (2, 3, 4):
            for _ in range(reps):
                s = singular_mat(rng, n)
                out.append(Case(f"m{n}.invert", s, family="singular"))
                out.append(Case(f"m{n}.det", s, family="singular"))
                # singular as a product with a singular factor
                t = tiny_det_mat(rng, n)
                out.append(Case(f"m{n}.invert", t, family="tiny-det"))
                out.append(Case(f"m{n}.det", t, family="tiny-det"))
                p = perm_sign_mat(rng, n)
                out.append(Case(f"m{n}.invert", p, family="perm"))
                out.append(Case(f"m{n}.det", p, family="perm"))
                out.append(Case(f"m{n}.invert", rand_mat(rng, n, "primes"), family="primes"))
                out.append(Case(f"m{n}.det", rand_mat(rng, n, "primes"), family="primes"))
            out.append(Case(f"m{n}.invert", [F(0)] * (n * n), family="singular"))
            # all index pairs (exhaustive, incl. out of range)
            m = rand_mat(rng, n, "primes")
            for a in range(n + 2):
                for b in range(n + 2):
                    out.append(Case(f"m{n}.swap_rows", m, [a, b], family="index-exhaustive"))
                    out.append(Case(f"m{n}.swap_columns", m, [a, b], family="index-exhaustive"))
                out.append(Case(f"m{n}.replace_col", m + rng.distinct(n), [a], family="index-exhaustive"))
            for a in range(n + 1):
                for b in range(n + 1):
                    for c in range(n + 1):
                        for d in range(n + 1):
                            if tier == "quick" and n == 4 and rng.below(4) != 0:
                                continue
                            out.append(Case(f"m{n}.swap_elements", m, [a, b, c, d], family="index-exhaustive"))
        for s in (singular_mat(rng, 3), singular_mat(rng, 4)):
            pass
        out.append(Case("m4.inverse_transform", singular_mat(rng, 4), family="singular"))
        out.append(Case("m3.inverse_transform", singular_mat(rng, 3), family="singular"))
        out.append(Case("m4.inverse_transform_vector", singular_mat(rng, 4) + rng.distinct(3), family="singular"))
        return out

    def oracle_cases(self, rng, tier):
        out = []
        k = 12 if tier == "quick" else 600
        for n in (2, 3, 4):
            for _ in range(k):
                out.append(Case(f"o.m{n}.inverse", rand_mat(rng, n), family="oracle"))
                out.append(Case(f"o.m{n}.inverse", singular_mat(rng, n), family="oracle-singular"))
                out.append(Case(f"o.m{n}.inverse", tiny_det_mat(rng, n), family="oracle-tiny"))
                out.append(Case(f"o.m{n}.det_laws", rand_mat(rng, n) + rand_mat(rng, n), family="oracle"))
                out.append(Case(f"o.m{n}.swaps", rand_mat(rng, n, "primes") + rng.distinct(n),
                                [rng.below(n) for _ in range(4)], family="oracle"))
                # structured matrices: diagonal, (scaled) affine, unimodular (det = +-1, not orthogonal), nearly diagonal
                for _ in range(3):
                    out.append(Case(f"o.m{n}.inverse", special_matrix(rng, n), family="oracle-special"))
                out.append(Case(f"o.m{n}.det_laws", special_matrix(rng, n) + special_matrix(rng, n), family="oracle-special"))
        for _ in range(k):
            out.append(Case("o.m4.inverse_transform", rand_mat(rng, 4) + [rng.rat() for _ in range(6)], family="oracle"))
            out.append(Case("o.m3.inverse_transform", rand_mat(rng, 3) + [rng.rat() for _ in range(3)], family="oracle"))
            for _ in range(4):
                out.append(Case("o.m4.inverse_transform", special_matrix(rng, 4) + [rng.rat() for _ in range(6)], family="oracle-special"))
                out.append(Case("o.m3.inverse_transform", special_matrix(rng, 3) + [rng.rat() for _ in range(3)], family="oracle-special"))
        return out


@prop("C12")
class C12(Base):
    title = "points form an affine space; homogeneous coordinates"
    design_ref = "§6 C12"
    sparsify = ["o.p1.affine", "o.p2.affine", "o.p3.affine", "o.p1.centroid", "o.p2.centroid", "o.p3.centroid"]
    ops = ops_with_prefix("p1.", "p2.", "p3.")

    def native_runs(self, tier, seed):
        return [["native", "c12", "3000" if tier == "quick" else "300000", str(seed)],
                ["native", "c17", "0", str(seed), "Point"], narrow_run("nrc12", tier, seed)]
    oracle_ops = ["o.p1.affine", "o.p2.affine", "o.p3.affine", "o.p1.centroid", "o.p2.centroid",
                  "o.p3.centroid", "o.p3.homogeneous"]

    def families(self, rng, tier):
        out = []
        maxlen = 8 if tier == "quick" else 50
        for n in (1, 2, 3):
            # every short length, and lengths around the block sizes a blocked / chunked summation would use
            for ln in list(range(0, maxlen + 1)) + [15, 16, 17, 18, 31, 32, 33, 47, 63, 64, 65, 100, 255, 256, 257, 300]:
                pts = []
                for _ in range(ln):
                    pts += [rng.rat() for _ in range(n)]
                out.append(Case(f"p{n}.centroid", pts, family="centroid-len"))
            for i in range(n + 2):
                out.append(Case(f"p{n}.index", rng.distinct(n), [i], family="index"))
        for k in (F(-1), F(1, 3), F(-7, 2), F(1, 2 ** 60), F(0)):
            p = rng.distinct(3)
            out.append(Case("p3.from_homogeneous", [x * k for x in p] + [k], family="homogeneous"))
        return out

    def oracle_cases(self, rng, tier):
        out = []
        k = 30 if tier == "quick" else 1500
        for n in (1, 2, 3):
            for _ in range(k):
                out.append(Case(f"o.p{n}.affine", [rng.rat() for _ in range(4 * n)], family="oracle"))
                ln = rng.rng(1, 9) if rng.chance(3, 4) else rng.choice([15, 16, 17, 18, 31, 33, 47, 65])
                out.append(Case(f"o.p{n}.centroid", [rng.rat() for _ in range(ln * n)], family="oracle"))
            for ln in (255, 256, 257, 300, 513):
                out.append(Case(f"o.p{n}.centroid", [F(rng.rng(-50, 50)) for _ in range(ln * n)], family="oracle-long"))
        for _ in range(k):
            out.append(Case("o.p3.homogeneous", [rng.rat() for _ in range(3)] + [rng.rat_nz()], family="oracle"))
        return out


def _special_unimodular(rng, n):
    """small-entry matrix of determinant +-1 (long products stay small)"""
    m = [[F(1) if r == c else F(0) for r in range(n)] for c in range(n)]
    for _ in range(n):
        i, j = rng.below(n), rng.below(n)
        if i != j:
            k = F(rng.choice([-1, 1]))
            m[j] = [m[j][r] + k * m[i][r] for r in range(n)]
    return [x for col in m for x in col]


def unit_quat_pivot(rng, k):
    """exactly unit rational quaternion [s,x,y,z] whose largest component sits at position k and whose
    smallest sits at the scalar slot (k != 0) -- drives the four matrix->quaternion branches"""
    q = sorted(rng.unit_quat(), key=lambda t: abs(t))
    small, mid1, mid2, big = q
    if k == 0:
        out = [big, small, mid1, mid2]
    else:
        out = [small, None, None, None]
        rest = [mid1, mid2]
        for i in (1, 2, 3):
            out[i] = big if i == k else rest.pop()
    return [c * rng.choice([1, -1]) for c in out]


def tie_unit_quats():
    """exactly unit rational quaternions [s,x,y,z] with |s| < 1/2 (negative trace) in which two vector components
    have EQUAL magnitude (a bit-exact tie between two diagonal elements of the matrix) and the third is smaller,
    zero included: the inputs on which the order of the comparisons in the matrix->quaternion conversion matters"""
    out = []
    for d in range(2, 40):
        for p in range(0, d // 2 + 1):
            if 2 * p >= d:
                continue
            for a in range(1, d):
                r = d * d - p * p - 2 * a * a
                if r < 0:
                    break
                y = int(round(r ** 0.5))
                if y * y == r and y < a:
                    w, A, Y = F(p, d), F(a, d), F(y, d)
                    for (sw, sa, sb) in ((1, 1, 1), (-1, 1, -1), (1, -1, 1)):
                        out += [[sw * w, sa * A, Y, sb * A], [sw * w, sa * A, sb * A, Y], [sw * w, Y, sa * A, sb * A]]
        if len(out) >= 90:
            break
    return out


def quat_to_m3(q):
    w, x, y, z = q
    return [1 - 2 * y * y - 2 * z * z, 2 * x * y + 2 * z * w, 2 * x * z - 2 * y * w,
            2 * x * y - 2 * z * w, 1 - 2 * x * x - 2 * z * z, 2 * y * z + 2 * x * w,
            2 * x * z + 2 * y * w, 2 * y * z - 2 * x * w, 1 - 2 * x * x - 2 * y * y]


_Q_ALG = ["q.new", "q.from_sv", "q.conjugate", "q.neg", "q.add", "q.sub", "q.mul_s", "q.div_s", "q.rem_s",
          "q.mul", "q.mul_v", "q.dot", "q.magnitude2", "q.one", "q.zero", "q.invert", "q.rotate_vector",
          "q.rotate_point", "q.sum_list", "q.sum_list_ref", "q.product_list", "q.product_list_ref", "q.distance2"]


@prop("C04")
class C04(Base):
    title = "quaternions obey Hamilton's algebra; unit quaternions act as rotations"
    design_ref = "§6 C04"
    sparsify = ["o.q.algebra"]
    ops = _Q_ALG
    oracle_ops = ["o.q.algebra", "o.q.invert", "o.q.rotate", "o.q.compose"]

    def native_runs(self, tier, seed):
        return [["native", "c17", "0", str(seed), "Quaternion"], narrow_run("nrc04", tier, seed)]

    def families(self, rng, tier):
        out = []
        reps = 10 if tier == "quick" else 300
        for _ in range(reps):
            p, q = rng.unit_quat(), rng.unit_quat()
            v = rng.distinct(3)
            out.append(Case("q.mul", p + q, family="unit"))
            out.append(Case("q.mul", q + p, family="unit"))
            out.append(Case("q.mul_v", p + v, family="unit"))
            out.append(Case("q.rotate_vector", p + v, family="unit"))
            out.append(Case("q.invert", p, family="unit"))
            out.append(Case("q.invert", rng.distinct(4), family="distinct"))
            out.append(Case("q.mul", rng.distinct(4) + rng.distinct(4), family="distinct"))
        out.append(Case("q.invert", [F(0)] * 4, family="zero-quaternion"))
        return out

    def oracle_cases(self, rng, tier):
        out = []
        k = 40 if tier == "quick" else 2000
        for _ in range(k):
            out.append(Case("o.q.algebra", [rng.rat() for _ in range(13)], family="oracle"))
            out.append(Case("o.q.invert", [rng.rat() for _ in range(4)], family="oracle"))
            out.append(Case("o.q.rotate", [rng.rat() for _ in range(7)], family="oracle"))
            out.append(Case("o.q.rotate", rng.unit_quat() + [rng.rat() for _ in range(3)], family="oracle-unit"))
            out.append(Case("o.q.compose", rng.unit_quat() + rng.unit_quat() + [rng.rat() for _ in range(3)], family="oracle-unit"))
        return out


@prop("C05")
class C05(Base):
    title = "Quaternion, Basis3, Matrix3 and Matrix4 describe one and the same rotation"
    design_ref = "§6 C05"
    ops = ["q.to_m3", "q.to_m4", "q.to_basis3", "m3.to_quat", "b3.to_quat", "b3.to_m3", "b3.one", "b3.mul",
           "b3.rotate_vector", "b3.rotate_point", "b3.invert", "b3.product_list", "b3.product_list_ref",
           "q.mul_v", "q.mul"]
    oracle_ops = ["o.q.same_rotation", "o.q.roundtrip"]

    def native_runs(self, tier, seed):
        # f32/f64: rotations by angles so small that cos rounds to one, and next to a half turn
        return [narrow_run("nrc05", tier, seed)]

    def families(self, rng, tier):
        out = []
        reps = 8 if tier == "quick" else 250
        for _ in range(reps):
            for k in range(4):
                q = unit_quat_pivot(rng, k)
                out.append(Case("m3.to_quat", quat_to_m3(q), family=f"branch-{k}"))
                out.append(Case("b3.to_quat", q, family=f"branch-{k}"))
                out.append(Case("q.to_m3", q, family="unit"))
                out.append(Case("q.to_m4", q, family="unit"))
            p, q = rng.unit_quat(), rng.unit_quat()
            out.append(Case("b3.mul", p + q, family="unit"))
            out.append(Case("b3.invert", p, family="unit"))
            out.append(Case("b3.rotate_vector", p + rng.distinct(3), family="unit"))
            # generic (non-rotation) matrices through every branch of the conversion
            out.append(Case("m3.to_quat", rand_mat(rng, 3), family="generic-matrix"))
        # singular Basis3 (zero quaternion gives the identity matrix; scaled quaternion can be singular)
        out.append(Case("b3.invert", [F(0), F(1, 1), F(0), F(0)], family="edge"))
        h = F(1, 2)
        out.append(Case("m3.to_quat", quat_to_m3([h, h, h, h]), family="trace-zero-boundary"))
        for q in tie_unit_quats():
            out.append(Case("m3.to_quat", quat_to_m3(q), family="diagonal-tie"))
        return out

    def oracle_cases(self, rng, tier):
        out = []
        k = 30 if tier == "quick" else 1500
        for _ in range(k):
            out.append(Case("o.q.same_rotation", rng.unit_quat() + rng.unit_quat() + [rng.rat() for _ in range(3)], family="oracle-unit"))
            for b in range(4):
                out.append(Case("o.q.roundtrip", unit_quat_pivot(rng, b), family=f"oracle-branch-{b}"))
        for q in tie_unit_quats():
            out.append(Case("o.q.roundtrip", q, family="oracle-diagonal-tie"))
        return out


def dec3(rng, scale=None):
    """Decomposed<Vector3, R> with an exactly unit rotation quaternion: scale, quat(4), disp(3)"""
    s = scale if scale is not None else rng.choice([F(1), F(-2), F(3, 7), rng.rat_nz(), F(-5, 3)])
    return [s] + rng.unit_quat() + rng.distinct(3)


def dec2(rng, scale=None):
    s = scale if scale is not None else rng.choice([F(1), F(-2), F(3, 7), rng.rat_nz(), F(-5, 3)])
    return [s, rng.small()] + rng.distinct(2)


@prop("C08")
class C08(Base):
    title = "transforms compose, invert and convert to matrices consistently"
    design_ref = "§6 C08"
    sparsify = ["o.m4.transform", "o.m3.transform", "o.m3.transform2"]
    _dec = ["one", "id", "transform_vector", "transform_point", "concat", "mul", "concat_self",
            "inverse_transform", "inverse_transform_vector", "to_matrix"]
    ops = ["{}.{}".format(t, o) for t in ("dq", "db3", "db2") for o in
           ("one", "id", "transform_vector", "transform_point", "concat", "mul", "concat_self",
            "inverse_transform", "inverse_transform_vector", "to_matrix")] + [
        "m3.transform_vector2", "m3.transform_point2", "m3.transform_vector", "m3.transform_point",
        "m4.transform_vector", "m4.transform_point", "m3.concat2", "m3.concat", "m4.concat",
        "m3.concat_self2", "m4.concat_self", "m3.concat_self", "m3.inverse_transform2", "m3.inverse_transform",
        "m4.inverse_transform", "m3.inverse_transform_vector2", "m3.inverse_transform_vector",
        "m4.inverse_transform_vector"]
    oracle_ops = ["o.dq.laws", "o.dq.inverse", "o.db3.laws", "o.db3.inverse", "o.db2.laws", "o.db2.inverse",
                  "o.dq.matrix", "o.db2.matrix", "o.m4.transform", "o.m3.transform", "o.m3.transform2",
                  "o.m4.inverse_transform", "o.m3.inverse_transform"]

    def native_runs(self, tier, seed):
        # f32/f64: scale factors just above 1e-6 (far below sqrt(eps) in f32) and very large ones
        return [narrow_run("nrc08", tier, seed)]

    def families(self, rng, tier):
        out = []
        reps = 6 if tier == "quick" else 200
        scales = [F(0), F(1, 2 ** 60), F(-1, 2 ** 60), F(-3), F(1), F(1, 1000001), F(1, 999999)]
        for _ in range(reps):
            for t, mk, nv in (("dq", dec3, 3), ("db3", dec3, 3), ("db2", dec2, 2)):
                for sc in scales:
                    d = mk(rng, sc)
                    out.append(Case(f"{t}.inverse_transform", d, family="scale-boundary"))
                    out.append(Case(f"{t}.inverse_transform_vector", d + rng.distinct(nv), family="scale-boundary"))
                a, b = mk(rng), mk(rng)
                out.append(Case(f"{t}.concat", a + b, family="valid-rotation"))
                out.append(Case(f"{t}.concat", b + a, family="valid-rotation"))
                out.append(Case(f"{t}.transform_point", a + rng.distinct(nv), family="valid-rotation"))
                out.append(Case(f"{t}.to_matrix", a, family="valid-rotation"))
                out.append(Case(f"{t}.inverse_transform", a, family="valid-rotation"))
        # singular Basis3 rotation (zero quaternion => matrix = identity is fine; use non-unit q with singular matrix)
        # q = (s,x,y,z) with s^2 = x^2+y^2+z^2 = 1/2 gives a rank-deficient matrix? keep a zero-determinant case:
        out.append(Case("db3.inverse_transform", [F(1), F(0), F(1), F(1), F(0), F(1), F(2), F(3)], family="singular-rot"))
        return out

    def oracle_cases(self, rng, tier):
        out = []
        k = 20 if tier == "quick" else 1000
        scales = [F(0), F(1, 2 ** 60), F(-3), F(1), F(1, 999999), F(7, 2)]
        for _ in range(k):
            for t, mk, nv in (("dq", dec3, 3), ("db3", dec3, 3), ("db2", dec2, 2)):
                out.append(Case(f"o.{t}.laws", mk(rng) + mk(rng) + rng.distinct(nv) + rng.distinct(nv), family="oracle"))
                out.append(Case(f"o.{t}.inverse", mk(rng, rng.choice(scales)) + rng.distinct(nv) + rng.distinct(nv), family="oracle"))
            out.append(Case("o.dq.matrix", dec3(rng) + dec3(rng) + rng.distinct(3) + rng.distinct(3), family="oracle"))
            out.append(Case("o.db2.matrix", dec2(rng) + dec2(rng) + rng.distinct(2) + rng.distinct(2), family="oracle"))
            out.append(Case("o.m4.transform", [rng.small() for _ in range(24)] + rng.distinct(3) + rng.distinct(3), family="oracle"))
            out.append(Case("o.m4.transform", singular_mat(rng, 3) + [rng.small() for _ in range(15)] + rng.distinct(3) + rng.distinct(3), family="oracle-singular"))
            out.append(Case("o.m3.transform", rand_mat(rng, 3, "small") + rand_mat(rng, 3, "small") + rng.distinct(3) + rng.distinct(3), family="oracle"))
            out.append(Case("o.m3.transform2", [rng.small() for _ in range(12)] + rng.distinct(2) + rng.distinct(2), family="oracle"))
            # tiny but non-zero determinant: the inverse exists and undoes the transform
            tm = [rng.small() for _ in range(12)]
            col = rng.below(3)
            for r_ in range(3):
                tm[col * 3 + r_] *= F(1, 2 ** 70)
            out.append(Case("o.m4.transform", tm + [rng.small() for _ in range(12)] + rng.distinct(3) + rng.distinct(3), family="oracle-tiny-det"))
            t3 = tiny_det_mat(rng, 3)
            out.append(Case("o.m3.transform", t3 + rand_mat(rng, 3, "small") + rng.distinct(3) + rng.distinct(3), family="oracle-tiny-det"))
            # determinant exactly 1 without being a rotation (shears): the inverse is not the transpose
            sh = [F(1), F(0), F(0), F(rng.rng(1, 4)), F(1), F(0), F(rng.rng(-3, 3)), F(rng.rng(1, 3)), F(1)]
            out.append(Case("o.m3.transform", sh + rand_mat(rng, 3, "small") + rng.distinct(3) + rng.distinct(3), family="oracle-unimodular"))
            dg = [F(2), F(0), F(0), F(0), F(1, 2), F(0), F(0), F(0), F(1)]
            out.append(Case("o.m3.transform", dg + rand_mat(rng, 3, "small") + rng.distinct(3) + rng.distinct(3), family="oracle-unimodular"))
            out.append(Case("o.m3.transform2", singular_mat(rng, 2) + [rng.small() for _ in range(8)] + rng.distinct(2) + rng.distinct(2), family="oracle-singular"))
            # any matrix (projective, scaled-affine bottom row (0,0,0,w), nearly diagonal, unimodular): inverse_transform is invert
            out.append(Case("o.m4.inverse_transform", rand_mat(rng, 4) + [rng.rat() for _ in range(6)], family="oracle"))
            out.append(Case("o.m3.inverse_transform", rand_mat(rng, 3) + [rng.rat() for _ in range(3)], family="oracle"))
            for _ in range(3):
                out.append(Case("o.m4.inverse_transform", special_matrix(rng, 4) + [rng.rat() for _ in range(6)], family="oracle-special"))
                out.append(Case("o.m3.inverse_transform", special_matrix(rng, 3) + [rng.rat() for _ in range(3)], family="oracle-special"))
        return out


def valid_persp(rng):
    """(fovy, aspect, near, far) satisfying every precondition; fovy in (0, ~3)"""
    fovy = F(rng.rng(1, 300), 100)
    aspect = rng.choice([F(4, 3), F(16, 9), F(1), F(rng.rng(1, 50), 10)])
    near = F(rng.rng(1, 100), 10)
    far = near + F(rng.rng(1, 1000), 10)
    return [fovy, aspect, near, far]


def valid_planar(rng):
    """(fovy, aspect, height, near, far) valid for planar under the oracle interpretation of tan:
    validity of the focal-point assertion depends on tan(fovy/2), so cases are filtered by outcome"""
    fovy = F(rng.rng(-300, 300), 100)
    aspect = rng.choice([F(4, 3), F(16, 9), F(1)])
    height = F(rng.rng(1, 100), 10)
    near = F(rng.rng(1, 100), 10)
    far = near + F(rng.rng(1, 1000), 10)
    return [fovy, aspect, height, near, far]


@prop("C10")
class C10(Base):
    title = "projections map the view volume onto the clip cube and reject bad parameters"
    design_ref = "§6 C10"
    ops = ["proj.ortho", "proj.ortho_s", "proj.frustum", "proj.frustum_s", "proj.perspective",
           "proj.perspective_s", "proj.perspective_deg", "proj.planar", "proj.planar_s", "proj.to_perspective"]
    oracle_ops = ["o.proj.ortho", "o.proj.frustum", "o.proj.perspective", "o.proj.planar", "o.proj.planar_focal"]

    def native_runs(self, tier, seed):
        # f32/f64: `planar` where IEEE infinities decide (fovy = 0: focal point at infinity; height = 0; 0/0)
        return [narrow_run("nrc10", tier, seed)]

    def n_random(self, tier):
        return 40 if tier == "quick" else 1500

    def _reject(self, rng):
        """tuples violating exactly one precondition: (op, args)"""
        out = []
        f, a, n, fr = valid_persp(rng)
        PI = F(884279719003555, 140737488355328) / 2
        tiny = F(1, 2 ** 60)
        TURN = F(884279719003555, 140737488355328)
        for op in ("proj.perspective", "proj.perspective_s"):
            out += [(op, [f + TURN, a, n, fr]), (op, [f - TURN, a, n, fr]), (op, [f + 3 * TURN, a, n, fr]),
                    (op, [F(7), a, n, fr]), (op, [F(-11, 2), a, n, fr])]
            out += [(op, [F(0), a, n, fr]), (op, [-f, a, n, fr]), (op, [PI, a, n, fr]), (op, [PI + 1, a, n, fr]),
                    (op, [f, F(0), n, fr]), (op, [f, tiny, n, fr]), (op, [f, a, F(0), fr]), (op, [f, a, -n, fr]),
                    (op, [f, a, n, F(0)]), (op, [f, a, n, -fr]), (op, [f, a, n, n]), (op, [f, a, n, n + tiny])]
        l, r, b, t = F(-2), F(3), F(-1), F(5, 2)
        for op in ("proj.frustum", "proj.frustum_s"):
            out += [(op, [r, l, b, t, n, fr]), (op, [l, r, t, b, n, fr]), (op, [l, r, b, t, fr, n])]
        pf, pa, ph, pn, pfar = valid_planar(rng)
        for op in ("proj.planar", "proj.planar_s"):
            out += [(op, [PI, pa, ph, pn, pfar]), (op, [-PI, pa, ph, pn, pfar]), (op, [PI + 2, pa, ph, pn, pfar]),
                    (op, [pf, pa, -ph, pn, pfar]), (op, [pf, F(0), ph, pn, pfar]), (op, [pf, pa, ph, pn, pn]),
                    # the orthographic special case fovy = 0 (focal point at infinity) still has the other preconditions
                    (op, [F(0), F(0), ph, pn, pfar]), (op, [F(0), pa, ph, pn, pn]), (op, [F(0), pa, -ph, pn, pfar])]
        return out

    def families(self, rng, tier):
        out = []
        reps = 8 if tier == "quick" else 300
        for _ in range(reps):
            vp = valid_persp(rng)
            for op in ("proj.perspective", "proj.perspective_s", "proj.to_perspective"):
                out.append(Case(op, vp, family="valid"))
            out.append(Case("proj.perspective_deg", [F(rng.rng(1, 179))] + vp[1:], family="valid"))
            for op in ("proj.perspective", "proj.perspective_s"):
                out.append(Case(op, [vp[0], vp[1], vp[3], vp[2]], family="valid-reversed-depth"))
            box = [F(-2), F(3), F(-1), F(5, 2), vp[2], vp[3]]
            for op in ("proj.ortho", "proj.ortho_s", "proj.frustum", "proj.frustum_s"):
                out.append(Case(op, box, family="valid"))
                out.append(Case(op, [rng.rat() for _ in range(4)] + [vp[2], vp[3]], family="semi-valid"))
            for op in ("proj.planar", "proj.planar_s"):
                out.append(Case(op, valid_planar(rng), family="valid?"))
            for op, args in self._reject(rng):
                out.append(Case(op, args, family="reject-one-precondition"))
        # accepted boundary: left = right (division by zero on both sides), near = far for frustum
        out.append(Case("proj.ortho", [F(1), F(1), F(0), F(2), F(1), F(3)], family="degenerate-accepted"))
        out.append(Case("proj.frustum", [F(1), F(1), F(0), F(2), F(1), F(3)], family="degenerate-accepted"))
        out.append(Case("proj.frustum", [F(0), F(1), F(0), F(2), F(3), F(3)], family="degenerate-accepted"))
        return out

    def oracle_cases(self, rng, tier):
        out = []
        k = 25 if tier == "quick" else 1200
        for _ in range(k):
            vp = valid_persp(rng)
            out.append(Case("o.proj.ortho", [rng.rat() for _ in range(6)], family="oracle"))
            out.append(Case("o.proj.frustum", sorted([rng.rat(), rng.rat()]) + sorted([rng.rat(), rng.rat()]) + [vp[2], vp[3]], family="oracle"))
            out.append(Case("o.proj.perspective", vp, family="oracle"))
            # reversed depth range: legal for perspective (only near, far > 0 and near != far are required)
            out.append(Case("o.proj.perspective", [vp[0], vp[1], vp[3], vp[2]], family="oracle-reversed-depth"))
            out.append(Case("o.proj.planar", valid_planar(rng), family="oracle"))
            # focal-point precondition with the planes given in either order and on either side of the origin
            pf, pa, ph, _, _ = valid_planar(rng)
            for _ in range(4):
                n_, f_ = F(rng.rng(-200, 200), 10), F(rng.rng(-200, 200), 10)
                out.append(Case("o.proj.planar_focal", [pf, pa, ph, n_, f_], family="oracle-focal"))
                out.append(Case("o.proj.planar_focal", [pf, pa, ph, f_, n_], family="oracle-focal"))
            for op, args in self._reject(rng):
                out.append(Case(op, args, family="oracle-reject", expect="panic"))
        return out


@prop("C13")
class C13(Base):
    title = "Rad and Deg convert, normalise and evaluate trigonometry consistently"
    design_ref = "§6 C13"
    ops = ops_with_prefix("rad.", "deg.")
    oracle_ops = ["o.rad.modular", "o.deg.modular", "o.angle.convert"]
    technique = ("Lean 4 theorems (modular arithmetic over any ordered field, rounding-model bounds over the reals) about a "
                 "model + trace translation (kernels regenerated from the source on every run and re-proved equal to the model, with "
                 "end-to-end theorems about them) + exact differential correspondence + native f32/f64 range/round-trip checks")

    def n_random(self, tier):
        return 40 if tier == "quick" else 2000

    def families(self, rng, tier):
        out = []
        reps = 6 if tier == "quick" else 200
        RF = F(884279719003555, 140737488355328)
        for unit, T in (("rad", RF), ("deg", F(360))):
            specials = [F(0), T, -T, T / 2, -T / 2, T / 4, 3 * T, -7 * T, T + F(1, 2 ** 40), T - F(1, 2 ** 40),
                        -F(1, 2 ** 60), F(1, 2 ** 60), T / 2 + F(1, 2 ** 40), T / 2 - F(1, 2 ** 40), F(10), F(50), F(350)]
            for x in specials:
                for op in ("normalize", "normalize_signed", "opposite", "to_rad", "to_deg", "sin", "cos", "tan", "sin_cos",
                           "csc", "sec", "cot", "is_zero"):
                    out.append(Case(f"{unit}.{op}", [x], family="boundary"))
                for y in (F(10), F(50), F(350), T / 2, x + T / 2, -x):
                    out.append(Case(f"{unit}.bisect", [x, y], family="boundary"))
                    out.append(Case(f"{unit}.rem", [x, y], family="boundary"))
            for _ in range(reps):
                k = rng.rng(-50, 50)
                x = rng.rat() + k * T
                out.append(Case(f"{unit}.normalize", [x], family="many-turns"))
                out.append(Case(f"{unit}.normalize_signed", [x], family="many-turns"))
                out.append(Case(f"{unit}.bisect", [x, rng.rat() + rng.rng(-5, 5) * T], family="many-turns"))
        # the inputs that exposed the (repaired) bisect defect
        out.append(Case("deg.bisect", [F(10), F(50)], family="regression"))
        out.append(Case("deg.bisect", [F(350), F(10)], family="regression"))
        return out

    def oracle_cases(self, rng, tier):
        out = []
        k = 60 if tier == "quick" else 3000
        RF = F(884279719003555, 140737488355328)
        for _ in range(k):
            for unit, T in (("rad", RF), ("deg", F(360))):
                x = rng.rat() + rng.rng(-20, 20) * T * rng.below(2)
                y = rng.rat() + rng.rng(-20, 20) * T * rng.below(2)
                out.append(Case(f"o.{unit}.modular", [x, y], family="oracle"))
            out.append(Case("o.angle.convert", [rng.rat()], family="oracle"))
        out.append(Case("o.deg.modular", [F(10), F(50)], family="oracle-regression"))
        out.append(Case("o.deg.modular", [F(350), F(10)], family="oracle-regression"))
        return out

    def native_runs(self, tier, seed):
        return [["native", "c13", "200000" if tier == "quick" else "5000000", str(seed)] + (["full"] if tier == "thorough" else []),
                ["native", "c17", "0", str(seed), "Rad", "Deg"], narrow_run("nrc13", tier, seed)]


def float_args(name):
    def f(self, tier, seed):
        return ["native", name, "20000" if tier == "quick" else "2000000", str(seed)]
    return f


def float_runs(name, *narrow):
    def f(self, tier, seed):
        return [["native", name, "20000" if tier == "quick" else "2000000", str(seed)]] + [narrow_run(x, tier, seed) for x in narrow]
    return f


FLOAT_NOTE = (" Clauses that need the real sin/cos/acos/atan2 are additionally evaluated on the f64 instantiation of the "
              "implementation with explicit margins on well-conditioned inputs (oracle evaluation, not proof).")


@prop("C11")
class C11(Base):
    title = "magnitude, distance, normalisation, angle and projection are consistent"
    design_ref = "§6 C11"
    _m = ["magnitude2", "magnitude", "distance2", "distance", "normalize", "normalize_to", "angle", "project_on",
          "dot", "is_perpendicular"]
    ops = ["v{}.{}".format(n, o) for n in (1, 2, 3, 4) for o in
           ("magnitude2", "magnitude", "distance2", "distance", "normalize", "normalize_to", "angle", "project_on",
            "dot", "is_perpendicular")] + \
          ["p{}.{}".format(n, o) for n in (1, 2, 3) for o in ("distance2", "distance")] + \
          ["q.magnitude2", "q.magnitude", "q.distance2", "q.distance", "q.normalize", "q.normalize_to", "q.angle",
           "q.project_on", "q.dot", "v2.perp_dot", "v3.cross"]
    oracle_ops = ["o.v1.metric", "o.v2.metric", "o.v3.metric", "o.v4.metric", "o.q.metric"]
    native_runs = float_runs("c11", "nrc11")

    def families(self, rng, tier):
        out = []
        reps = 6 if tier == "quick" else 200
        for _ in range(reps):
            for n in (1, 2, 3, 4):
                u, v = pyth_vectors(rng, n), pyth_vectors(rng, n)
                for op in ("magnitude", "normalize"):
                    out.append(Case(f"v{n}.{op}", u, family="exact-sqrt"))
                out.append(Case(f"v{n}.normalize_to", u + [rng.rat_nz()], family="exact-sqrt"))
                out.append(Case(f"v{n}.angle", u + v, family="exact-sqrt"))
                out.append(Case(f"v{n}.distance", u + [F(0)] * n, family="exact-sqrt"))
                out.append(Case(f"v{n}.project_on", rng.distinct(n) + v, family="oblique"))
            q = pyth_vectors(rng, 4)
            out.append(Case("q.magnitude", q, family="exact-sqrt"))
            out.append(Case("q.normalize", q, family="exact-sqrt"))
            out.append(Case("q.angle", q + pyth_vectors(rng, 4), family="exact-sqrt"))
            # clockwise and counter-clockwise 2-D pairs
            a = rng.distinct(2)
            out.append(Case("v2.angle", a + [-a[1], a[0]], family="ccw"))
            out.append(Case("v2.angle", a + [a[1], -a[0]], family="cw"))
        return out

    def oracle_cases(self, rng, tier):
        out = []
        k = 30 if tier == "quick" else 1500
        for _ in range(k):
            for n in (1, 2, 3, 4):
                out.append(Case(f"o.v{n}.metric", pyth_vectors(rng, n) + (pyth_vectors(rng, n) if rng.below(2) else rng.distinct(n)) + [rng.rat_nz()], family="oracle"))
            out.append(Case("o.q.metric", pyth_vectors(rng, 4) + rng.distinct(4) + [rng.rat_nz()], family="oracle"))
        return out


C11.level_note = Base.level_note + FLOAT_NOTE


@prop("C06")
class C06(Base):
    title = "angle and axis-angle constructors give proper right-handed rotations"
    design_ref = "§6 C06"
    ops = ["m2.from_angle", "m2.from_angle_deg", "m3.from_angle_x", "m3.from_angle_y", "m3.from_angle_z",
           "m3.from_axis_angle", "m3.from_axis_angle_deg", "m4.from_angle_x", "m4.from_angle_x_deg", "m4.from_angle_y",
           "m4.from_angle_z", "m4.from_axis_angle", "b3.from_angle_x", "b3.from_angle_y", "b3.from_angle_z",
           "b3.from_axis_angle", "q.from_angle_x", "q.from_angle_y", "q.from_angle_z", "q.from_axis_angle",
           "q.from_axis_angle_deg", "b2.one", "b2.from_angle", "b2.from_angle_deg", "b2.mul", "b2.rotate_vector",
           "b2.rotate_point", "b2.invert", "b2.product_list", "b3.one", "b3.mul", "b3.rotate_vector",
           "b3.rotate_point", "b3.invert", "q.invert", "q.rotate_point", "q.rotate_vector",
           "deg.to_rad", "rad.sin_cos"]
    oracle_ops = ["o.rot.axis_angle"]
    native_runs = float_runs("c06", "nrc05")

    def families(self, rng, tier):
        out = []
        reps = 8 if tier == "quick" else 300
        for _ in range(reps):
            a = rng.unit_vec3()
            t = rng.rat()
            for op in ("m3.from_axis_angle", "m4.from_axis_angle", "b3.from_axis_angle", "q.from_axis_angle",
                       "m3.from_axis_angle_deg", "q.from_axis_angle_deg"):
                out.append(Case(op, a + [t], family="unit-axis"))
            # non-unit / zero axis: still the same composition of operations
            out.append(Case("m3.from_axis_angle", rng.distinct(3) + [t], family="non-unit-axis"))
            out.append(Case("q.from_axis_angle", [F(0)] * 3 + [t], family="zero-axis"))
        return out

    def oracle_cases(self, rng, tier):
        out = []
        k = 30 if tier == "quick" else 1500
        for _ in range(k):
            out.append(Case("o.rot.axis_angle", rng.unit_vec3() + [rng.rat()] + rng.distinct(3), family="oracle"))
        return out


C06.level_note = Base.level_note + FLOAT_NOTE


SIG = F(4494592428115755, 9007199254740992)   # cast(0.499)
THR = F(4501347827556811, 4503599627370496)   # cast(0.9995)


def quat_near_gimbal(rng, side, sign):
    """exactly unit rational quaternion (w,0,y,0)-like, rotated by a z-twist-free scheme, whose
    test = xz + yw is just above (side=+1) / just below (side=-1) sign*0.499"""
    # (w, y) = ((1-s^2)/(1+s^2), 2s/(1+s^2)); test = y*w = 2s(1-s^2)/(1+s^2)^2, increasing on [0, ~0.41]
    lo, hi = F(0), F(41, 100)
    f = lambda s: 2 * s * (1 - s * s) / (1 + s * s) ** 2
    for _ in range(60):
        mid = (lo + hi) / 2
        if f(mid) < SIG:
            lo = mid
        else:
            hi = mid
    s = hi if side > 0 else lo
    # coarsen the denominator a little while staying on the chosen side
    w, y = (1 - s * s) / (1 + s * s), 2 * s / (1 + s * s)
    q = [w, F(0), y * sign, F(0)]
    return q


def euler_to_quat_inputs(rng):
    return [rng.rat(), rng.rat(), rng.rat()]


@prop("C07")
class C07(Base):
    title = "Euler angles mean intrinsic X-Y-Z everywhere and round-trip via quaternions"
    design_ref = "§6 C07"
    ops = ["m3.from_euler", "m3.from_euler_deg", "m4.from_euler", "b3.from_euler", "q.from_euler", "q.from_euler_deg",
           "q.to_euler", "m3.from_angle_x", "m3.from_angle_y", "m3.from_angle_z", "m4.from_angle_x", "m4.from_angle_y",
           "m4.from_angle_z", "q.from_angle_x", "q.from_angle_y", "q.from_angle_z", "rad.turn_div_4", "m3.mul", "q.mul"]
    oracle_ops = ["o.euler.product"]
    native_args = float_args("c07")
    level_note = Base.level_note + FLOAT_NOTE + (" The 0.13 gimbal-cone envelope is proved over the reals (gimbal_bound: every "
                                                 "element within 0.13, in fact within 0.094) and also measured by the f64 oracle.")

    def families(self, rng, tier):
        out = []
        reps = 8 if tier == "quick" else 300
        for _ in range(reps):
            out.append(Case("q.to_euler", rng.unit_quat(), family="unit"))
            out.append(Case("q.to_euler", rng.distinct(4), family="non-unit"))
            for side in (1, -1):
                for sign in (1, -1):
                    out.append(Case("q.to_euler", quat_near_gimbal(rng, side, sign), family="straddle-0.499"))
            # well inside the cones
            h = F(1, 2)
            out.append(Case("q.to_euler", [h, h, h, h], family="gimbal+"))
            out.append(Case("q.to_euler", [h, h, -h, h], family="gimbal-"))
            k = rng.rat_nz()
            out.append(Case("q.to_euler", [h * k, h * k, h * k, h * k], family="gimbal+scaled"))
        return out

    def oracle_cases(self, rng, tier):
        out = []
        k = 40 if tier == "quick" else 2000
        for _ in range(k):
            out.append(Case("o.euler.product", euler_to_quat_inputs(rng), family="oracle"))
        return out


def quat_rot_cols(q):
    """columns of the rotation matrix of unit quaternion q=[w,x,y,z] (each a list of 3)"""
    m = quat_to_m3(q)
    return [m[0:3], m[3:6], m[6:9]]


def exact_frame(rng):
    """(eye, dir, up) with rational |dir| and rational |normalize(dir) x up| (all normalisations exact)"""
    c = quat_rot_cols(rng.unit_quat())
    k = rng.rat_nz()
    d = [k * x for x in c[2]]
    a, b = rng.rat_nz(), rng.rat()
    up = [a * c[1][i] + b * c[2][i] for i in range(3)]
    eye = rng.distinct(3)
    return eye, d, up


@prop("C09")
class C09(Base):
    title = "look_at / look_to build rigid view transforms with the documented handedness"
    design_ref = "§6 C09"
    ops = ["m2.look_at", "m2.look_at_stable", "b2.look_at", "b2.look_at_stable", "m3.look_to_lh", "m3.look_to_rh",
           "m3.look_at_dep", "m4.look_to_rh", "m4.look_to_lh", "m4.look_at_rh", "m4.look_at_lh", "m4.look_at_dep",
           "m4.look_at_dir_dep", "m3.tlook_at2", "m3.tlook_at2_lh", "m3.tlook_at2_rh", "m3.tlook_at", "m3.tlook_at_lh",
           "m3.tlook_at_rh", "m4.tlook_at", "m4.tlook_at_lh", "m4.tlook_at_rh", "q.look_at", "b3.look_at",
           "dq.look_at", "dq.look_at_lh", "dq.look_at_rh", "db3.look_at", "db3.look_at_lh", "db3.look_at_rh",
           "db2.look_at", "db2.look_at_lh", "db2.look_at_rh"]
    oracle_ops = ["o.look.rigid", "o.look.2d"]
    native_args = float_args("c09")
    level_note = Base.level_note + FLOAT_NOTE

    def families(self, rng, tier):
        out = []
        reps = 6 if tier == "quick" else 200
        for _ in range(reps):
            eye, d, up = exact_frame(rng)
            center = [eye[i] + d[i] for i in range(3)]
            for op in ("m3.look_to_lh", "m3.look_to_rh", "m3.look_at_dep", "q.look_at", "b3.look_at"):
                out.append(Case(op, d + up, family="exact-frame"))
            for op in ("m4.look_to_rh", "m4.look_to_lh", "m4.look_at_dir_dep"):
                out.append(Case(op, eye + d + up, family="exact-frame"))
            for op in ("m4.look_at_rh", "m4.look_at_lh", "m4.look_at_dep", "m3.tlook_at", "m3.tlook_at_lh", "m3.tlook_at_rh",
                       "m4.tlook_at", "m4.tlook_at_lh", "m4.tlook_at_rh", "dq.look_at", "dq.look_at_lh", "dq.look_at_rh",
                       "db3.look_at", "db3.look_at_lh", "db3.look_at_rh"):
                out.append(Case(op, eye + center + up, family="exact-frame"))
            # 2-D: 3-4-5 style directions, up on either side (drives the flip)
            d2 = pyth_vectors(rng, 2)
            for up2 in ([-d2[1], d2[0]], [d2[1], -d2[0]], rng.distinct(2)):
                out.append(Case("m2.look_at", d2 + up2, family="2d-flip"))
                out.append(Case("b2.look_at", d2 + up2, family="2d-flip"))
                e2 = rng.distinct(2)
                for op in ("m3.tlook_at2", "m3.tlook_at2_lh", "m3.tlook_at2_rh", "db2.look_at", "db2.look_at_lh", "db2.look_at_rh"):
                    out.append(Case(op, e2 + [e2[0] + d2[0], e2[1] + d2[1]] + up2, family="2d-flip"))
            # up exactly on the line of dir (flip boundary: >= in the code)
            out.append(Case("m2.look_at", d2 + [2 * d2[0], 2 * d2[1]], family="2d-flip-boundary"))
            out.append(Case("m2.look_at_stable", d2, [0], family="2d"))
            out.append(Case("m2.look_at_stable", d2, [1], family="2d"))
        return out

    def oracle_cases(self, rng, tier):
        out = []
        k = 25 if tier == "quick" else 1200
        for _ in range(k):
            eye, d, up = exact_frame(rng)
            out.append(Case("o.look.rigid", eye + d + up, family="oracle"))
            # the result does not depend on the lengths of dir and up: very short and very long ones too
            # (powers of 4 keep every normalisation a perfect square)
            k1, k2 = F(1, 4 ** 40), F(4 ** 30)
            out.append(Case("o.look.rigid", eye + d + [k1 * x for x in up], family="oracle-short-up"))
            out.append(Case("o.look.rigid", eye + [k1 * x for x in d] + [k2 * x for x in up], family="oracle-short-dir-long-up"))
            d2 = pyth_vectors(rng, 2)
            out.append(Case("o.look.2d", d2 + rng.distinct(2), family="oracle"))
        return out


def qmul(p, q):
    a, b, c, d = p
    e, f, g, h = q
    return [a * e - b * f - c * g - d * h, a * f + b * e + c * h - d * g, a * g - b * h + c * e + d * f,
            a * h + b * g - c * f + d * e]


def quat_pair_with_dot(rng, target, side):
    """unit rational quaternions a, b with a.b just above (side=+1) or below (side=-1) target in (0,1):
    b = a * (cos, sin*axis) with cos chosen rationally via the tangent half-angle parametrisation"""
    a = rng.unit_quat()
    # cos = (1-s^2)/(1+s^2) decreasing in s on [0,1]
    lo, hi = F(0), F(1)
    f = lambda s: (1 - s * s) / (1 + s * s)
    for _ in range(50):
        mid = (lo + hi) / 2
        if f(mid) > target:
            lo = mid
        else:
            hi = mid
    s = lo if side > 0 else hi
    c, sn = (1 - s * s) / (1 + s * s), 2 * s / (1 + s * s)
    ax = rng.unit_vec3()
    r = [c, sn * ax[0], sn * ax[1], sn * ax[2]]
    return a, qmul(a, r)


@prop("C14")
class C14(Base):
    title = "lerp, nlerp and slerp interpolate with exact endpoints along the shortest path"
    design_ref = "§6 C14"
    sparsify = ["o.lerp"]
    ops = ["v1.lerp", "v2.lerp", "v3.lerp", "v4.lerp", "q.lerp", "q.nlerp", "q.slerp", "q.dot", "q.normalize", "q.neg"]
    oracle_ops = ["o.lerp", "o.nlerp.exact"]
    native_runs = float_runs("c14", "nrc14")
    level_note = Base.level_note + FLOAT_NOTE + (" The 1e-5 rad envelope of the near (nlerp) branch of slerp is proved over the reals "
                                                 "(slerp_near_bound) and also measured by the f64 oracle.")

    def families(self, rng, tier):
        out = []
        reps = 6 if tier == "quick" else 200
        ts = [F(0), F(1), F(1, 2), F(3, 7), F(-1, 3), F(5, 4)]
        for _ in range(reps):
            for target, nm in ((THR, "straddle-0.9995"), (F(1, 10 ** 9), "straddle-0")):
                for side in (1, -1):
                    a, b = quat_pair_with_dot(rng, target, side)
                    for sgn in (1, -1):
                        bb = [sgn * x for x in b]
                        t = rng.choice(ts)
                        out.append(Case("q.slerp", a + bb + [t], family=nm))
                        out.append(Case("q.nlerp", a + bb + [t], family=nm))
            a = rng.unit_quat()
            out.append(Case("q.slerp", a + a + [rng.choice(ts)], family="identical"))
            out.append(Case("q.slerp", a + [-x for x in a] + [rng.choice(ts)], family="opposite"))
            out.append(Case("q.nlerp", a + [-x for x in a] + [F(1, 2)], family="opposite"))
            out.append(Case("q.slerp", rng.distinct(4) + rng.distinct(4) + [rng.rat()], family="non-unit"))
        return out

    def oracle_cases(self, rng, tier):
        out = []
        k = 30 if tier == "quick" else 1500
        for _ in range(k):
            out.append(Case("o.lerp", [rng.rat() for _ in range(17)], family="oracle"))
            # orthogonal unit pair: b = a * (pure unit imaginary); t = p/(p+q) with p^2+q^2 a square
            a = rng.unit_quat()
            ax = rng.unit_vec3()
            b = qmul(a, [F(0)] + ax)
            p, q = rng.choice([(3, 4), (4, 3), (5, 12), (8, 15), (1, 0), (0, 1)])
            out.append(Case("o.nlerp.exact", a + b + [F(q, p + q)], family="oracle-orthogonal"))
            out.append(Case("o.nlerp.exact", a + a + [rng.rat()], family="oracle-identical"))
        return out


@prop("C15")
class C15(Base):
    title = "between_vectors and from_arc return the shortest rotation taking a onto b"
    design_ref = "§6 C15"
    ops = ["q.between_vectors", "b3.between_vectors", "b2.between_vectors", "q.from_arc", "q.from_arc_fb",
           "q.from_axis_angle", "rad.turn_div_2", "v3.cross", "v2.perp_dot", "m2.from_angle"]
    oracle_ops = ["o.arc.special"]
    native_runs = float_runs("c15", "nrc15")
    level_note = Base.level_note + FLOAT_NOTE + (" Which nearly parallel/antiparallel inputs are treated as exactly so is the "
                                                 "approx relation's choice (a parameter of the model); nothing is claimed inside that allowance.")

    def families(self, rng, tier):
        out = []
        reps = 6 if tier == "quick" else 200
        xhat = [F(1), F(0), F(0)]
        for _ in range(reps):
            a, b = rng.unit_vec3(), rng.unit_vec3()
            na = [-x for x in a]
            for op in ("q.between_vectors", "b3.between_vectors", "q.from_arc"):
                out.append(Case(op, a + b, family="generic-unit"))
                out.append(Case(op, a + a, family="parallel"))
                out.append(Case(op, a + na, family="antiparallel"))
                out.append(Case(op, xhat + [F(-1), F(0), F(0)], family="antiparallel-x"))   # forces the second cross
            fb = rng.unit_vec3()
            out.append(Case("q.from_arc_fb", a + na + fb, family="antiparallel-fallback"))
            out.append(Case("q.from_arc_fb", a + b + fb, family="generic-fallback-unused"))
            # lengths 1e-3 .. 1e3
            la, lb = F(1, 1000) * rng.rng(1, 999), F(rng.rng(1, 1000))
            out.append(Case("q.from_arc", [la * x for x in a] + [lb * x for x in b], family="lengths"))
            out.append(Case("q.from_arc", [la * x for x in a] + [-lb * x for x in a], family="lengths-antiparallel"))
            # nearly parallel within / outside the ulps allowance
            eps = F(1, 2 ** 60)
            out.append(Case("q.between_vectors", a + [a[0] + eps, a[1], a[2]], family="nearly-parallel"))
            out.append(Case("q.between_vectors", a + [-a[0] + eps, -a[1], -a[2]], family="nearly-antiparallel"))
            # 2-D clockwise and counter-clockwise pairs
            a2, b2 = rng.unit_vec2(), rng.unit_vec2()
            out.append(Case("b2.between_vectors", a2 + b2, family="2d"))
            out.append(Case("b2.between_vectors", b2 + a2, family="2d"))
            out.append(Case("b2.between_vectors", a2 + [-a2[0], -a2[1]], family="2d-opposite"))
        out.append(Case("b2.between_vectors", [F(1), F(0), F(3, 5), F(-4, 5)], family="regression"))
        return out

    def oracle_cases(self, rng, tier):
        out = []
        k = 30 if tier == "quick" else 1500
        for _ in range(k):
            out.append(Case("o.arc.special", rng.unit_vec3(), family="oracle"))
        for v in ([F(3, 5), F(4, 5), F(0)], [F(1), F(0), F(0)], [F(0), F(3, 5), F(-4, 5)], [F(0), F(0), F(1)],
                  # along every coordinate axis in both directions, and in every coordinate plane
                  [F(-1), F(0), F(0)], [F(0), F(1), F(0)], [F(0), F(-1), F(0)], [F(0), F(0), F(-1)],
                  [F(-3, 5), F(0), F(4, 5)], [F(-4, 5), F(-3, 5), F(0)], [F(0), F(-3, 5), F(4, 5)], [F(3, 5), F(0), F(-4, 5)]):
            out.append(Case("o.arc.special", v, family="oracle-exact-opposite"))
        return out


BOOK_TECH = ("Lean 4 theorems about a generic model of the traversal (any scalar-level behaviour as a parameter) + exhaustive "
             "configuration-level correspondence on the native types (every compound type x position x scalar type), the "
             "per-component results fed through the Lean model")


@prop("C19")
class C19(Base):
    title = "numeric cast of compound values is all-or-nothing and component-faithful"
    design_ref = "§6 C19"
    ops = []
    technique = BOOK_TECH
    level_note = ("Trusted: Lean kernel + Mathlib; num_traits::NumCast on scalars is the parameter `f` of the model (its results "
                  "are read off the implementation and fed to the model); the tie is exhaustive over 12x12 scalar pairs x 11 "
                  "compound types x component positions with boundary values, not a proof about the Rust source.")

    def native_args(self, tier, seed):
        return ["native", "c19", "1000000", str(seed)]


@prop("C16")
class C16(Base):
    title = "layout, indexing, conversions and swizzles preserve every component in order"
    design_ref = "§6 C16"
    ops = C16_OPS     # Index / IndexMut / swap_elements at the exact scalar against the model (sigs.EXTRA; kernels: tracetab_ops.py)
    inventory = "layout"
    miri = True   # thorough tier: the same native run under Miri (Tree Borrows)
    technique = ("Lean 4 theorems about a model of build.rs's swizzle generator (every word of length 1..upto exactly once, each "
                 "body reads exactly the named fields) and of the positional views + exhaustive native correspondence: one "
                 "generated call site per accessor (550), every conversion / view / index / range / pointer / mint form at every "
                 "position for i32, f64, f32 and a non-numeric Copy type, the generated macro text of this build parsed and fed "
                 "through the Lean generator model, and the Index/From/Into/AsRef/AsMut impl inventory regenerated from the source + trace "
                 "translation of Index (quaternion included), IndexMut stores, swap_elements, matrix element stores and truncate_n at "
                 "every in-range index (kernels regenerated from the source on every run, re-proved equal to the model, with end-to-end "
                 "theorems: a store is read back at that index and only there) + exact differential correspondence for these ops")
    level_note = ("Trusted: Lean kernel + Mathlib; rustc's repr(C) layout and the transmutes are exercised natively (miri in the "
                  "thorough tier), not proved; the generator model is tied to the macro text build.rs produced for this build; "
                  "the impl inventory catches conversions the harness does not know about.")

    def native_args(self, tier, seed):
        return ["native", "c16", "0", str(seed)]

    def families(self, rng, tier):
        """every in-range index (tuple) and the out-of-range ones next to the range, on distinct components"""
        from .sigs import ARRAY_TYPES
        out = []
        q = rng.distinct(4)
        for i in range(6):
            out.append(Case("q.index", q, [i], family="index-exhaustive"))
            out.append(Case("q.set", q + [rng.rat_nz()], [i], family="index-exhaustive"))
        for ty in ARRAY_TYPES:
            n = int(ty[1])
            u = rng.distinct(n)
            for i in range(n + 2):
                out.append(Case(f"{ty}.set", u + [rng.rat_nz()], [i], family="index-exhaustive"))
                for j in range(n + 2):
                    out.append(Case(f"{ty}.swap_elements", u, [i, j], family="index-exhaustive"))
        for n in (2, 3, 4):
            m = rng.distinct(n * n)
            for c in range(n + 2):
                for r in range(n + 2):
                    out.append(Case(f"m{n}.set", m + [rng.rat_nz()], [c, r], family="index-exhaustive"))
        return out


@prop("C18")
class C18(Base):
    title = "approximate-equality and predicate methods test every component"
    design_ref = "§6 C18"
    # the approx relations of the compound types, explicit and default tolerances (sigs.EXTRA; kernels: tracetab_ops.py), and of
    # Euler / Decomposed / Basis2 / Basis3 (sigs.EXTRA3; kernels: tracetab_ops3.py)
    ops = C18_OPS + C18_OPS3
    technique = (BOOK_TECH + " + trace translation of the three relations of every compound type (explicit and default tolerances): one "
                 "kernel per short-circuit position regenerated from the source on every run, re-proved equal to the model relation, "
                 "with end-to-end theorems (exactly one path is consistent; its boolean is true iff the scalar relation with the same "
                 "tolerance arguments holds on every component pair) + exact differential correspondence for these ops")
    level_note = ("Trusted: Lean kernel + Mathlib; the approx crate's scalar relations are the parameter `r` of the model (their "
                  "verdicts are read off the implementation per component and fed to the model); the tie is exhaustive over "
                  "every compound type x component position x {inside, outside} each tolerance x f32/f64, not a proof about "
                  "the Rust source.")

    def native_args(self, tier, seed):
        return ["native", "c18", "0", str(seed)]

    def families(self, rng, tier):
        """random inputs practically never agree within a tolerance: here `b` is `a` with every component moved by a
        multiple of the tolerance around the boundary (exactly on it, just inside, just outside), all components inside /
        exactly one component `k` outside / the components from `k` on outside; relative and ulps clauses with a scale at
        which they -- not the absolute clause -- decide; default forms around `2^-52` and around the matrices' `1e-6`"""
        from .sigs import APPROX_TYPES, APPROX_TYPES3, SIZES
        out = []
        reps = 2 if tier == "quick" else 12
        e52 = F(1, 2 ** 52)
        mat_eps = F(4722366482869645, 4722366482869645213696)
        inside = [F(0), F(1), F(-1), F(1, 2), F(-999, 1000)]
        outside = [F(1001, 1000), F(-1001, 1000), F(2), F(-3)]

        def moved(a, scale, k, mode):
            """b: component i moved by (a multiple of) `scale(a_i)`; mode: 'in' all inside, 'one' only k outside, 'from' k.. outside"""
            b = []
            for i, x in enumerate(a):
                out_ = (mode == "one" and i == k) or (mode == "from" and i >= k)
                f = rng.choice(outside) if out_ else rng.choice(inside)
                b.append(x + f * scale(x))
            return b

        # (for Basis2 / Basis3 the arguments moved are the angle / the quaternion the basis is built from)
        for ty, kind in list(APPROX_TYPES.items()) + list(APPROX_TYPES3.items()):
            n = sum(SIZES[k] for k in kind.split())
            modes = [("in", 0)] + [("one", k) for k in range(n)] + [("from", k) for k in range(n)]
            for _ in range(reps):
                for mode, k in modes:
                    a = rng.distinct(n)
                    eps = abs(rng.rat_nz())
                    fam = f"tolerance-boundary/{mode}"
                    out.append(Case(f"{ty}.abs_diff_eq", a + moved(a, lambda x: eps, k, mode) + [eps], family=fam))
                    # absolute clause decides
                    out.append(Case(f"{ty}.relative_eq", a + moved(a, lambda x: eps, k, mode) + [eps, F(0)], family=fam))
                    out.append(Case(f"{ty}.ulps_eq", a + moved(a, lambda x: eps, k, mode) + [eps], [0], family=fam))
                    # relative clause decides (epsilon 0; |a - b| = f * |a| * max_rel, max(|a|,|b|) >= |a|; outside: b shrinks)
                    mr = F(1, rng.rng(2, 50))
                    b = []
                    for i, x in enumerate(a):
                        out_ = (mode == "one" and i == k) or (mode == "from" and i >= k)
                        f = rng.choice([F(3, 2), F(2), F(5)]) if out_ else rng.choice([F(0), F(1), F(1, 2), F(-1, 3)])
                        b.append(x - f * x * mr if out_ else x + f * x * mr)
                    out.append(Case(f"{ty}.relative_eq", a + b + [F(0), mr], family=fam + "/relative"))
                    out.append(Case(f"{ty}.relative_eq", a + b + [F(-1), mr], family=fam + "/negative-epsilon"))
                    # ulps clause decides: |a - b| = j * |a| * 2^-52 against max_ulps = u
                    u = rng.rng(1, 8)
                    b = []
                    for i, x in enumerate(a):
                        out_ = (mode == "one" and i == k) or (mode == "from" and i >= k)
                        j = (u + rng.rng(1, 3)) if out_ else rng.rng(0, u)
                        b.append(x - j * x * e52 if out_ else x + j * x * e52)
                    out.append(Case(f"{ty}.ulps_eq", a + b + [F(0)], [u], family=fam + "/ulps"))
                    # default forms: around the scalar's 2^-52 and around the matrices' 1e-6
                    for d in (e52, mat_eps):
                        bb = moved(a, lambda x: d, k, mode)
                        for op in ("abs_diff_eq_d", "relative_eq_d", "ulps_eq_d"):
                            out.append(Case(f"{ty}.{op}", a + bb, family=fam + "/default"))
            # identical operands, zero / negative epsilon
            a = rng.distinct(n)
            out.append(Case(f"{ty}.abs_diff_eq", a + a + [F(0)], family="edge"))
            out.append(Case(f"{ty}.abs_diff_eq", a + a + [F(-1)], family="edge"))
            out.append(Case(f"{ty}.relative_eq", a + a + [F(0), F(0)], family="edge"))
            out.append(Case(f"{ty}.ulps_eq", a + a + [F(0)], [0], family="edge"))
        return out


@prop("C20")
class C20(Base):
    title = "serialized values round-trip exactly and keep their field structure"
    design_ref = "§6 C20"
    ops = []
    technique = ("Lean 4 theorems about a model of the hand-written Decomposed visitor (fold over the key sequence) + exhaustive "
                 "native correspondence on serde_json Value trees (every serialisable type, f32/f64/i32/u64, every permutation / "
                 "omission / unknown / duplicate key sequence fed through the Lean model)")
    level_note = ("Trusted: Lean kernel + Mathlib; serde's framework and derive macro, and serde_json's Value representation, are "
                  "external parameters; bit-exactness is checked through serde_json::Value (serde_json's *text* float parser is "
                  "not exact without its float_roundtrip feature and is outside cgmath); the derived impls are tied by the native "
                  "check only, the hand-written Decomposed impl also by the model.")

    def native_args(self, tier, seed):
        return ["native", "c20", "100" if tier == "quick" else "20000", str(seed)]


@prop("C17")
class C17(Base):
    title = "every spelling of an operator computes the same value"
    design_ref = "§6 C17"
    ops = ["v3.sum_list", "v3.sum_list_ref", "m3.sum_list", "m3.product_list", "m3.product_list_ref", "q.sum_list",
           "q.sum_list_ref", "q.product_list", "q.product_list_ref", "b3.product_list", "b3.product_list_ref",
           "b2.product_list", "rad.sum_list", "rad.sum_list_ref", "deg.sum_list", "v4.sum_list", "m4.product_list",
           # the list ops whose kernels are traced at the lengths 0, 1, 2, 4, 5 (tracetab_ops2.py)
           "v2.sum_list", "v2.sum_list_ref", "v4.sum_list_ref", "m2.sum_list", "m2.product_list", "m2.product_list_ref",
           "m4.sum_list", "p2.centroid"] + C17_FORM_OPS   # + every operand form of every operator and the by-reference folds
    #                                                        `m<n>.sum_list_ref`, `b2.product_list_ref` (sigs.EXTRA2; kernels: tracetab_ops2.py)
    inventory = "ops"
    technique = ("Lean 4 theorems about a model in which an operator is one function (forms erased; folds) + exhaustive native "
                 "correspondence: every operator impl listed by a rustdoc-JSON inventory regenerated from the source is executed in "
                 "every operand form and compared bit for bit; random straight-line programs in random forms; every reference-operand "
                 "and compound-assignment impl of the compound types is also an op of its own: run at the exact scalar against the model "
                 "(the assignment forms against the field-by-field assignment definitions), traced, and proved to return what the "
                 "by-value kernel returns; Sum / Product by value and by reference traced at the lengths 0..5")
    level_note = ("Trusted: Lean kernel + Mathlib. In the model the forms are erased by construction, so the theorems are thin; the "
                  "weight is on the tie, which executes all operand forms of all 1089 operator/Sum/Product impls (inventory "
                  "regenerated from /repo on every run; an impl without a call site is reported) on shared operands, bit for bit.")

    def native_runs(self, tier, seed):
        # native: every operator impl in every operand form on the twelve primitive types, bit for bit;
        # symbolic: the same forms at the recording scalar on symbolic operands, compared as expression DAGs (all values at once)
        return [["native", "c17", "2000" if tier == "quick" else "500000", str(seed)], ["native", "c17sym", "0", str(seed)]]

    def families(self, rng, tier):
        out = []
        for ln in list(range(0, 7)) + [15, 16, 17, 18, 33]:
            vs = []
            for _ in range(ln):
                vs += rng.distinct(3)
            out.append(Case("v3.sum_list", vs, family="fold-length"))
            out.append(Case("v3.sum_list_ref", vs, family="fold-length"))
            qs = []
            for _ in range(ln):
                qs += rng.distinct(4)
            out.append(Case("q.product_list", qs, family="fold-length"))
            out.append(Case("q.product_list_ref", qs, family="fold-length"))
            ms = []
            for _ in range(ln):
                ms += rand_mat(rng, 3, "small") if ln < 10 else _special_unimodular(rng, 3)
            out.append(Case("m3.product_list", ms, family="fold-length"))
            out.append(Case("m3.product_list_ref", ms, family="fold-length"))
        # the traced lengths of the other list ops, by value and by reference on the same operands
        for ln in (0, 1, 2, 3, 4, 5):
            for ty, n, ops in (("v2", 2, ("sum_list", "sum_list_ref")), ("v4", 4, ("sum_list", "sum_list_ref")),
                               ("m2", 4, ("sum_list", "sum_list_ref", "product_list", "product_list_ref")),
                               ("m3", 9, ("sum_list", "sum_list_ref")), ("m4", 16, ("sum_list", "sum_list_ref")),
                               ("b2", 1, ("product_list", "product_list_ref")),
                               ("q", 4, ("sum_list", "sum_list_ref")), ("rad", 1, ("sum_list", "sum_list_ref"))):
                vs = []
                for _ in range(ln):
                    vs += rng.distinct(n)
                out += [Case(f"{ty}.{op}", vs, family="fold-length") for op in ops]
            if ln:
                ps = []
                for _ in range(ln):
                    ps += rng.distinct(2)
                out.append(Case("p2.centroid", ps, family="fold-length"))
        # operand forms: every form of one operator on the SAME operands (distinct components; a zero / unit / negative
        # scalar for the scalar right-hand sides; equal operands for `a op a`)
        from .sigs import FORM_FAMILIES, FORM_KIND, FORM_VEC, SIZES
        for tys, op, sg, forms in FORM_FAMILIES:
            for ty in tys:
                ks = sg.split()
                n = SIZES[FORM_KIND[ty]]
                sets = []
                if ks == ["T"]:
                    sets = [rng.distinct(n), [F(0)] * n]
                elif ks[1] == "x":
                    u = rng.distinct(n)
                    sets = [u + [s] for s in (F(0), F(1), F(-1), F(1, 3), rng.rat_nz())]
                elif ks[1] == "T":
                    u = rng.distinct(n)
                    sets = [u + rng.distinct(n), u + u, u + [F(0)] * n, [F(0)] * n + u, u + [-x for x in u]]
                else:
                    m = SIZES[FORM_VEC[ty]]
                    u = rng.distinct(n)
                    sets = [u + rng.distinct(m), u + [F(0)] * m, [F(0)] * n + rng.distinct(m)]
                for args in sets:
                    out += [Case(f"{ty}.{op}.{f}", args, family="operand-forms") for f in forms]
        return out
