"""Build / run / compare machinery shared by all property checks."""
import fcntl
import hashlib
import json
import os
import shutil
import subprocess
import sys
import time
from fractions import Fraction as F

from .rng import Rng, tok
from .sigs import SIG, SIZES

# CGV_VERIF / CGV_REPO: used only by tools/seedpar.py to run scratch copies of the framework against scratch
# worktrees in parallel; the registered checks always run /verif against /repo
VERIF = os.environ.get("CGV_VERIF", "/verif")
REPO = os.environ.get("CGV_REPO", "/repo")
LEAN = f"{VERIF}/lean"
HARNESS = f"{VERIF}/harness"
WORK = f"{VERIF}/work"
BIN_IMPL = f"{HARNESS}/target/release/cgverif"
BIN_MODEL = f"{LEAN}/.lake/build/bin/cgdriver"

STD_AXIOMS = {"propext", "Classical.choice", "Quot.sound"}
FORBIDDEN = ["sorry", "admit", "native_decide", "bv_decide", "implemented_by", "unsafe ",
             "maxHeartbeats 0"]


class MachineryError(Exception):
    pass


def log(*a):
    print(*a, file=sys.stderr, flush=True)


class Lock:
    def __init__(self, name="build"):
        os.makedirs(WORK, exist_ok=True)
        self.path = f"{WORK}/.{name}.lock"

    def __enter__(self):
        self.f = open(self.path, "w")
        fcntl.flock(self.f, fcntl.LOCK_EX)
        return self

    def __exit__(self, *a):
        fcntl.flock(self.f, fcntl.LOCK_UN)
        self.f.close()


def run(cmd, cwd=None, timeout=1800, env=None, inp=None):
    e = dict(os.environ)
    e.update({"CARGO_NET_OFFLINE": "true"})
    if env:
        e.update(env)
    p = subprocess.run(cmd, cwd=cwd, env=e, input=inp, stdout=subprocess.PIPE,
                       stderr=subprocess.STDOUT, text=True, timeout=timeout)
    return p.returncode, p.stdout


# ------------------------------------------------------------------ Lean side

def lean_sources():
    out = []
    for root, _, files in os.walk(f"{LEAN}/Cgm"):
        if "/Gen" in root:
            continue
        for f in files:
            if f.endswith(".lean"):
                out.append(os.path.join(root, f))
    return sorted(out)


def strip_comments(src):
    """remove /- -/ block comments (nested) and -- line comments"""
    out = []
    i, depth = 0, 0
    n = len(src)
    while i < n:
        if src.startswith("/-", i):
            depth += 1
            i += 2
        elif depth and src.startswith("-/", i):
            depth -= 1
            i += 2
        elif depth:
            i += 1
        elif src.startswith("--", i):
            while i < n and src[i] != "\n":
                i += 1
        else:
            out.append(src[i])
            i += 1
    return "".join(out)


def forbidden_scan():
    """forbidden tokens outside comments in any hand-written Lean file"""
    hits = []
    for p in lean_sources():
        code = strip_comments(open(p).read())
        for ln, line in enumerate(code.split("\n"), 1):
            for t in FORBIDDEN:
                if t in line:
                    hits.append(f"{p}: {t!r}: {line.strip()[:80]}")
            s = line.strip()
            if s.startswith("axiom ") or " axiom " in (" " + s):
                if not s.startswith("#print"):
                    hits.append(f"{p}: axiom declaration: {s[:80]}")
    return hits


def lake_build(targets, timeout=3000):
    with Lock("lake"):
        rc, out = run(["lake", "build"] + targets, cwd=LEAN, timeout=timeout)
    return rc, out


def audit_axioms(prop):
    """elaborate Cgm/Audit/<prop>.lean (which #print-s the axioms of every
    property theorem) and parse the output.  Returns (theorems, bad) where
    theorems = {name: [axioms]}."""
    path = f"Cgm/Audit/{prop}.lean"
    if not os.path.exists(f"{LEAN}/{path}"):
        raise MachineryError(f"missing {path}")
    rc, out = run(["lake", "env", "lean", path], cwd=LEAN, timeout=900)
    if rc != 0:
        raise MachineryError(f"audit of {prop} failed:\n{out[-3000:]}")
    thms = {}
    for line in out.split("\n"):
        if line.startswith("THEOREM "):
            name = line.split(" ")[1]
            axs = line.split(" AXIOMS ")[1].strip().strip("[]")
            thms[name] = [a.strip() for a in axs.split(",") if a.strip()]
    if not thms:
        raise MachineryError(f"audit of {prop} listed no theorems:\n{out[-2000:]}")
    bad = {k: v for k, v in thms.items() if not set(v) <= STD_AXIOMS}
    return thms, bad


# ------------------------------------------------------------------ Rust side

def repo_state():
    rc, head = run(["git", "-C", REPO, "rev-parse", "--short", "HEAD"])
    rc2, diff = run(["git", "-C", REPO, "diff", "HEAD", "--", "src", "build.rs", "Cargo.toml"])
    h = hashlib.sha256(diff.encode()).hexdigest()[:12] if diff.strip() else "clean"
    return f"{head.strip()}+{h}"


def build_harness():
    """(re)build the harness against /repo's current working tree."""
    with Lock("cargo"):
        if REPO != "/repo":
            if VERIF == "/verif":
                raise MachineryError("CGV_REPO needs a scratch copy of the framework (CGV_VERIF)")
            t = open(f"{HARNESS}/Cargo.toml").read().replace('path = "/repo"', f'path = "{REPO}"')
            open(f"{HARNESS}/Cargo.toml", "w").write(t)
        try:
            shutil.copyfile(f"{REPO}/Cargo.lock", f"{HARNESS}/Cargo.lock")
        except OSError:
            pass
        t0 = time.time()
        rc, out = run(["cargo", "build", "--release", "--offline"], cwd=HARNESS, timeout=1800)
        full = True
        if rc != 0:
            rc2, out2 = run(["cargo", "build", "--release", "--offline", "--no-default-features"],
                            cwd=HARNESS, timeout=1800)
            if rc2 == 0:
                rc, full = 0, False
                out = out + "\n[retry without optional features succeeded]\n" + out2
        return rc, out, full, time.time() - t0


def run_ops(binary, args, text, timeout=3000):
    p = subprocess.run([binary] + args, input=text, stdout=subprocess.PIPE, stderr=subprocess.PIPE,
                       text=True, timeout=timeout)
    if p.returncode != 0:
        raise MachineryError(f"{binary} exited {p.returncode}: {p.stderr[-2000:]}")
    if p.stdout == "":
        return []
    return p.stdout.split("\n")[:-1] if p.stdout.endswith("\n") else p.stdout.split("\n")


# ------------------------------------------------------------------ cases

class Case:
    __slots__ = ("op", "idx", "args", "family", "expect")

    def __init__(self, op, args, idx=(), family="random", expect=None):
        self.expect = expect
        self.op = op
        self.args = [F(a) for a in args]
        self.idx = list(idx)
        self.family = family

    def line(self):
        parts = [self.op] + [tok(a) for a in self.args] + [f"#{i}" for i in self.idx]
        return " ".join(parts)

    def nontrivial(self):
        """at least two distinct non-zero argument values, or (for ops with at most one
        scalar argument) one non-zero value"""
        nz = {a for a in self.args if a != 0}
        need = 2 if len(self.args) >= 2 else 1
        if not self.args:
            return False
        return len(nz) >= need


def gen_kind(rng, kind, style):
    """tokens for one argument of a given kind"""
    if kind == "x":
        return [rng.small() if style == "small" else rng.rat()], []
    if kind == "#b":
        return [], [rng.below(2)]
    if kind.startswith("#"):
        k = int(kind[1:])
        # in range with probability ~ 3/4, otherwise just outside
        if rng.chance(3, 4):
            return [], [rng.below(k)]
        return [], [rng.choice([k, k + 1, k + 7])]
    n = SIZES[kind]
    if style == "small":
        return [rng.small() for _ in range(n)], []
    if style == "distinct":
        return rng.distinct(n), []
    return [rng.rat() for _ in range(n)], []


def gen_random(rng, op, style=None):
    sig = SIG[op]
    args, idx = [], []
    style = style or rng.choice(["mixed", "mixed", "small", "distinct"])
    for kind in sig:
        if kind.endswith("*"):
            cnt = rng.below(6)
            for _ in range(cnt):
                a, i = gen_kind(rng, kind[:-1], style)
                args += a
                idx += i
        else:
            a, i = gen_kind(rng, kind, style)
            args += a
            idx += i
    return Case(op, args, idx, family=f"random/{style}")


SPECIAL_SCALARS = [F(0), F(0), F(1), F(1), F(-1), F(2), F(1, 2), F(-1, 2), F(3, 2), F(-2)]


def _special_matrix(rng, n):
    kind = rng.choice(["sparse", "unimodular", "affine", "diagonal", "perm", "scaled-affine", "near-diagonal", "near-identity"])
    I = [[F(1) if r == c else F(0) for r in range(n)] for c in range(n)]      # columns
    if kind == "sparse":
        m = [[rng.choice([F(0), F(0), F(1), F(-1), rng.small()]) for _ in range(n)] for _ in range(n)]
    elif kind == "unimodular":
        m = I
        for _ in range(2 * n):
            i, j = rng.below(n), rng.below(n)
            if i != j:
                k = F(rng.choice([-3, -2, -1, 1, 2, 3]))
                m[j] = [m[j][r] + k * m[i][r] for r in range(n)]                 # column_j += k column_i: det stays 1
    elif kind == "affine":
        m = [[rng.small() for _ in range(n)] for _ in range(n)]
        for c in range(n):
            m[c][n - 1] = F(1) if c == n - 1 else F(0)
        if rng.chance(1, 3):
            m[rng.below(n - 1)][n - 1] = rng.small()                             # almost affine
    elif kind == "scaled-affine":
        # bottom row (0, .., 0, w) with w != 1 (and sometimes 0): affine up to the homogeneous weight
        m = [[rng.small() for _ in range(n)] for _ in range(n)]
        for c in range(n):
            m[c][n - 1] = F(0)
        m[n - 1][n - 1] = rng.choice([F(2), F(1, 2), F(4), F(-1), F(3), F(0)])
    elif kind in ("near-diagonal", "near-identity"):
        # off-diagonal entries far below the approximate-equality allowance (2^-52) but not zero: `is_diagonal()` /
        # `is_identity()` hold although the matrix is not diagonal / the identity
        t = F(1, 2 ** 60)
        m = [[((F(1) if kind == "near-identity" else rng.choice([F(2), F(1, 2), F(1), F(-1), F(3), F(1, 2 ** 58)])) if r == c
               else rng.choice([F(0), t, -t, 3 * t])) for r in range(n)] for c in range(n)]
        if all(m[c][r] == 0 for c in range(n) for r in range(n) if r != c):
            m[0][n - 1] = t
    elif kind == "diagonal":
        m = [[(rng.choice([F(2), F(1, 2), F(1), F(-1), F(3)]) if r == c else F(0)) for r in range(n)] for c in range(n)]
    else:
        m = I
        for _ in range(n):
            i, j = rng.below(n), rng.below(n)
            m[i], m[j] = m[j], m[i]
        if rng.chance(1, 2):
            c = rng.below(n)
            m[c] = [-x for x in m[c]]
    return [x for col in m for x in col]


def special_matrix(rng, n):
    return _special_matrix(rng, n)


def gen_special(rng, op):
    """arguments made of special values; consecutive vectors of the same kind are sometimes exact multiples"""
    sig = SIG[op]
    args, idx = [], []
    prev = {}
    for kind in sig:
        reps = 1
        k = kind
        if kind.endswith("*"):
            reps, k = rng.below(4), kind[:-1]
        for _ in range(reps):
            if k == "x":
                args.append(rng.choice(SPECIAL_SCALARS))
            elif k.startswith("#"):
                a, i = gen_kind(rng, k, "small")
                idx += i
            elif k in ("M2", "M3", "M4"):
                args += _special_matrix(rng, int(k[1]))
            elif k == "Q":
                q = rng.choice([[F(1), F(0), F(0), F(0)], [F(0), F(1), F(0), F(0)], [F(0), F(0), F(3, 5), F(4, 5)],
                                [F(1), F(1), F(2), F(3)], [F(-1), F(1), F(1), F(1)], [F(1, 2), F(1, 2), F(1, 2), F(1, 2)],
                                [F(0), F(3, 5), F(4, 5), F(0)], [F(-1, 2), F(1, 2), F(1, 2), F(1, 2)],
                                [F(0), F(0), F(0), F(1)], [F(1), F(0), F(0), F(1)], [F(4, 5), F(0), F(3, 5), F(0)]])
                args += q
            else:
                n = SIZES[k]
                if k in prev and rng.chance(1, 2):
                    m = rng.choice([F(1), F(-1), F(2), F(-1, 2), F(-3)])
                    v = [m * x for x in prev[k]]
                else:
                    v = [rng.choice([F(0), F(0), F(1), F(-1), F(2), F(3, 5), F(4, 5), rng.small()]) for _ in range(n)]
                prev[k] = v
                args += v
    return Case(op, args, idx, family="special-values")


def sparsified(cases, rng, copies):
    """clones of oracle cases in which about half of the rational arguments are replaced by special values:
    unit quaternions like (0,1,0,0), axis-aligned (anti)parallel vectors, affine / diagonal matrices, t = 0, 1, 2 ..."""
    out = []
    for c in cases:
        if c.expect or not c.args:
            continue
        for _ in range(copies):
            args = [(rng.choice(SPECIAL_SCALARS) if rng.chance(1, 2) else a) for a in c.args]
            out.append(Case(c.op, args, list(c.idx), family=(c.family or "") + "+sparsified"))
    return out


# ------------------------------------------------------------------ D: differential run

class DResult:
    def __init__(self):
        self.total = 0
        self.lines = set()
        self.nontrivial = set()
        self.per_op = {}
        self.outcomes = {}
        self.families = {}
        self.disagreements = []   # (case, impl, model)
        self.samples = []
        self.max_height = 0


def differential(cases, seeds=(1,), keep_samples=6):
    """run implementation and model on the same op lines, compare byte for byte"""
    res = DResult()
    if not cases:
        return res
    for seed in seeds:
        text = f"seed {seed}\n" + "".join(c.line() + "\n" for c in cases)
        impl = run_ops(BIN_IMPL, ["run"], text)
        model = run_ops(BIN_MODEL, [], text)
        if len(impl) != len(cases) or len(model) != len(cases):
            raise MachineryError(
                f"line count mismatch: cases={len(cases)} impl={len(impl)} model={len(model)}")
        for c, a, b in zip(cases, impl, model):
            res.total += 1
            ln = c.line()
            res.lines.add(ln)
            if c.nontrivial():
                res.nontrivial.add(ln)
            res.per_op[c.op] = res.per_op.get(c.op, 0) + 1
            res.families[c.family] = res.families.get(c.family, 0) + 1
            kind = a.split(" ")[0]
            res.outcomes[kind] = res.outcomes.get(kind, 0) + 1
            if a in ("unknown-op", "bad-args", "bad-line") or b in ("unknown-op", "bad-args", "bad-line"):
                raise MachineryError(f"protocol error on `{ln}`: impl={a!r} model={b!r}")
            if a != b:
                res.disagreements.append((c, a, b, seed))
            elif len(res.samples) < keep_samples and c.nontrivial() and seed == seeds[0]:
                if not any(s["op"] == c.op for s in res.samples):
                    res.samples.append({"op": c.op, "line": ln, "impl": a[:300], "model": b[:300]})
    return res


BRANCH_OPS = {
    "m3.to_quat": ("br.m3.to_quat", 9, ["trace>=0", "xx", "yy", "zz"]),
    "b3.to_quat": ("br.q.to_quat", 4, ["trace>=0", "xx", "yy", "zz"]),
    "q.to_euler": ("br.q.to_euler", 4, ["gimbal+", "gimbal-", "main"]),
    "q.between_vectors": ("br.q.between_vectors", 6, ["same", "opposite", "general"]),
    "b3.between_vectors": ("br.q.between_vectors", 6, ["same", "opposite", "general"]),
    "q.from_arc": ("br.q.from_arc", 6, ["same", "opposite", "general"]),
    "q.from_arc_fb": ("br.q.from_arc", 6, ["same", "opposite", "general"]),
    "q.slerp": ("br.q.slerp", 9, ["near(nlerp)", "far(acos/sin)"]),
}


def branch_histogram(cases, seed=1):
    """model-only side channel: which branch of a branching function each case takes"""
    sel = [c for c in cases if c.op in BRANCH_OPS]
    if not sel:
        return {}
    lines = []
    for c in sel:
        bop, n, _ = BRANCH_OPS[c.op]
        lines.append(" ".join([bop] + [tok(a) for a in c.args[:n]]))
    out = run_ops(BIN_MODEL, [], f"seed {seed}\n" + "\n".join(lines) + "\n")
    hist = {}
    for c, o in zip(sel, out):
        names = BRANCH_OPS[c.op][2]
        toks = o.split(" ")
        if toks[0] != "ok":
            raise MachineryError(f"branch query failed: {o}")
        k = int(toks[1].split("/")[0])
        key = f"{c.op}:{names[k]}"
        hist[key] = hist.get(key, 0) + 1
    return hist


def minimise(case, seed):
    """greedy simplification of a disagreeing case while impl and model still differ"""
    def differs(c):
        text = f"seed {seed}\n{c.line()}\n"
        a = run_ops(BIN_IMPL, ["run"], text)[0]
        b = run_ops(BIN_MODEL, [], text)[0]
        return a != b, a, b

    cur = Case(case.op, list(case.args), list(case.idx), case.family)
    ok, a, b = differs(cur)
    if not ok:
        return cur, a, b
    changed = True
    while changed:
        changed = False
        for i in range(len(cur.args)):
            for cand in (F(0), F(1), F(2), F(-1), F(3)):
                if cur.args[i] == cand:
                    break
                t = Case(cur.op, list(cur.args), list(cur.idx), cur.family)
                t.args[i] = cand
                d, a2, b2 = differs(t)
                if d:
                    cur, a, b = t, a2, b2
                    changed = True
                    break
    return cur, a, b


# ------------------------------------------------------------------ O: oracles

def run_oracles(cases, seeds=(1,)):
    """oracle ops exist only in the harness: every output token must be 0/1 or T.
    `skip` = hypothesis of the clause not met by this input."""
    fails, total, skipped, per = [], 0, 0, {}
    samples = []
    for seed in seeds:
        text = f"seed {seed}\n" + "".join(c.line() + "\n" for c in cases)
        impl = run_ops(BIN_IMPL, ["run"], text)
        if len(impl) != len(cases):
            raise MachineryError("oracle line count mismatch")
        for c, a in zip(cases, impl):
            if a in ("unknown-op", "bad-args", "bad-line"):
                raise MachineryError(f"protocol error on oracle `{c.line()}`: {a}")
            if c.expect is not None:
                total += 1
                per[c.op] = per.get(c.op, 0) + 1
                if a.split(" ")[0] != c.expect:
                    fails.append((c, a, seed))
                continue
            if a == "skip":
                skipped += 1
                continue
            total += 1
            per[c.op] = per.get(c.op, 0) + 1
            toks = a.split(" ")
            good = toks[0] == "ok" and all(t in ("0/1", "T") for t in toks[1:])
            if not good:
                fails.append((c, a, seed))
            elif len(samples) < 4 and not any(s["op"] == c.op for s in samples):
                samples.append({"op": c.op, "line": c.line(), "impl": a[:200]})
    return {"fails": fails, "total": total, "skipped": skipped, "per_op": per, "samples": samples}
