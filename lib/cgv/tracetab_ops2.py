"""Layer T kernel table, the kernels added for C17 (obligations in lean/Cgm/Trace/C17Ops*.lean, one theorem per kernel with
the same name; generated once by tools/gen_c17_forms.py from THIS table and sigs.FORM_FAMILIES).  Same format as
tracetab.MANUAL: (kernel name, op line).

* operand FORMS of the operators (ops `<t>.<op>.<form>` of sigs.EXTRA2; harness/src/ops/extra2.rs): one straight-line
  kernel per op, `t_<t>_<op>_<form>`;
* `Sum` / `Product` (by value and by reference) and `centroid` at the list lengths 0, 1, 2, 4, 5 (length 3 is in
  tracetab_auto.py / tracetab_rest.py): the list ops (`<t>.sum_list` ... read as many operands as the line holds), kernels
  `t_<t>_<op>_n<length>`; `m<n>.sum_list_ref` (`Sum<&'a MatrixN>`) and `b2.product_list_ref` (`Product<&'a Basis2>`) are
  new ops (sigs.FOLD_REF_OPS), traced at length 3 too."""

from .sigs import FORMS, SIZES


def _nums(n, start=2):
    # distinct small integers (no comparisons are made on these paths: the values only have to be legal operands)
    return " ".join(str(start + i) for i in range(n))


def form_kernels():
    ks = []
    for name, ty, op, form, sig in FORMS:
        n = sum(SIZES[k] for k in sig)
        ks.append((f"t_{ty}_{op}_{form}", f"{name} {_nums(n)}".strip()))
    return ks


# type -> (scalars per operand, list ops, lengths)
FOLD_LENGTHS = (0, 1, 2, 4, 5)
FOLD_TYPES = {
    "v2": (2, ("sum_list", "sum_list_ref"), FOLD_LENGTHS), "v4": (4, ("sum_list", "sum_list_ref"), FOLD_LENGTHS),
    "m2": (4, ("sum_list", "sum_list_ref", "product_list", "product_list_ref"), FOLD_LENGTHS),
    "m3": (9, ("sum_list", "sum_list_ref", "product_list", "product_list_ref"), FOLD_LENGTHS),
    "m4": (16, ("sum_list", "sum_list_ref"), (0, 1, 2)),
    "q": (4, ("sum_list", "sum_list_ref", "product_list", "product_list_ref"), FOLD_LENGTHS),
    "rad": (1, ("sum_list", "sum_list_ref"), FOLD_LENGTHS),
    "b2": (1, ("product_list", "product_list_ref"), (0, 1, 2)),
}
CENTROID_LENGTHS = (1, 2, 4, 5)
# the by-reference folds that had no op, at length 3 (the by-value kernel of that length is elsewhere):
# (type, op, scalars per operand, property and name of the by-value kernel)
REF_AT_3 = [("m2", "sum_list_ref", 4, "C01", "t_m2_sum_list"), ("m3", "sum_list_ref", 9, "C01", "t_m3_sum_list"),
            ("m4", "sum_list_ref", 16, "C01", "t_m4_sum_list"), ("b2", "product_list_ref", 1, "C17", "t_b2_product_list")]


def fold_kernels():
    ks = []
    for ty, (sz, ops, lens) in FOLD_TYPES.items():
        for op in ops:
            for ln in lens:
                ks.append((f"t_{ty}_{op}_n{ln}", f"{ty}.{op} {_nums(sz * ln)}".strip()))
    for ty, op, sz, _, _ in REF_AT_3:
        ks.append((f"t_{ty}_{op}_n3", f"{ty}.{op} {_nums(sz * 3)}"))
    for ln in CENTROID_LENGTHS:
        ks.append((f"t_p2_centroid_n{ln}", f"p2.centroid {_nums(2 * ln)}"))
    return ks


OPS2 = {"C17": form_kernels() + fold_kernels()}
