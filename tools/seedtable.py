#!/usr/bin/env python3
"""print the markdown table of DESIGN 0.4 from seeded/*/meta.json"""
import json, glob, os
rows = []
harm = []
for d in sorted(glob.glob("/verif/seeded/*")):
    m = json.load(open(d + "/meta.json"))
    k = os.path.basename(d)
    if m.get("kind") == "harmless":
        harm.append((k, m))
        continue
    pid = m.get("property") or k[:3]
    r = (m.get("results") or {}).get(f"{pid}:quick") or {}
    nb = r.get("noticed_by") or {}
    layers = []
    if nb.get("T_failed_obligations"): layers.append("T")
    if nb.get("D_disagreements"): layers.append("D")
    if nb.get("O_failures"): layers.append("O")
    if nb.get("N_failing_checks"): layers.append("N")
    if nb.get("mq_disagreements"): layers.append("mq")
    if nb.get("I_uncovered"): layers.append("I")
    noin = any("no-failing" in x for x in r.get("violation", []))
    final = "not reported" if r.get("exit") != 1 else ("reported, no input" if noin else "reported with input")
    s = " ".join(m.get("summary", "").split())
    if len(s) > 210:
        s = s[:207] + "..."
    rows.append(f"| `{k}` | {m.get('round', '')} | {s.replace('|', '/')} | {'+'.join(layers) or '-'} | {m.get('first_pass', '')} | {final} |")
print("| change | round | what it does | layers that notice it (final) | first pass | final |")
print("|---|---|---|---|---|---|")
print("\n".join(rows))
if harm:
    print()
    print("Harmless refactorings (round 4; every result bit-identical by construction): all twenty quick checks run against each.")
    print()
    print("| change | what it does | checks that raise an alarm |")
    print("|---|---|---|")
    for k, m in harm:
        s_ = " ".join(m.get("summary", "").split())
        if len(s_) > 260:
            s_ = s_[:257] + "..."
        al = m.get("alarms")
        print(f"| `{k}` | {s_.replace('|', '/')} | {'(not run yet)' if al is None else (', '.join(al) if al else 'none')} |")
