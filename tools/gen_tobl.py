#!/usr/bin/env python3
"""Generate layer-T obligations for the ops whose driver entry is a plain `read arguments; return model expression`.

The Lean driver tables (lean/Cgm/Driver/Ops*.lean) say, per op, which model function the op *is* (that is what D compares
the implementation with).  For every such entry that is a single line of the form

    | "name" => some fun _ => do let a <- R1; let b <- R2; return okS <expr>

this script writes the T obligation  `Gen.t_name (envL (a.toList ++ b.toList)) = .okS <expr>`  over an arbitrary field K
into lean/Cgm/Trace/<pid>Auto.lean and the kernel line into lib/cgv/tracetab_auto.py.  The obligations are static text,
committed and reviewed like the hand-written ones; on every run the kernels are re-traced from /repo's source and the
obligations re-checked against them.  Obligations that do not check on the unchanged tree (branching ops: the trace carries
comparisons) are dropped here and left to the hand-written files / to D.

usage: tools/gen_tobl.py            (re-generates both files; then `lake build` the Auto modules)
"""
import os, re, sys
sys.path.insert(0, "/verif/lib")
from cgv.props import REG
from cgv import tracetab

LEAN = "/verif/lean/Cgm"
PRIMES = [2, 3, 5, 7, 11, 13, 17, 19, 23, 29, 31, 37, 41, 43, 47, 53, 59, 61, 67, 71, 73, 79, 83, 89, 97, 101, 103, 107, 109,
          113, 127, 131, 137, 139, 149, 151, 157, 163, 167, 173, 179, 181, 191, 193, 197, 199, 211, 223, 227, 229]
SIZE = {"K": 1, "V1": 1, "V2": 2, "V3": 3, "V4": 4, "P1": 1, "P2": 2, "P3": 3, "M2": 4, "M3": 9, "M4": 16, "Quat": 4}
READERS = {"rx": "K", "rv1": "V1", "rv2": "V2", "rv3": "V3", "rv4": "V4", "rp1": "P1", "rp2": "P2", "rp3": "P3",
           "rm2": "M2", "rm3": "M3", "rm4": "M4", "rq": "Quat"}

# readers that build a value from several scalars: (binders (suffix, type)), value expression (@ = the bound name)
COMPOSITE = {
    "rb3": ([("q", "Quat")], "(Basis3.fromQuaternion @q)"),
    "rb2": ([("t", "K")], "((⟨M2.fromAngle @t⟩ : Basis2 K))"),
}

ENTRY = re.compile(r'^\s*\| "([a-z0-9_.]+)" => some fun _ => (?:do )?(.*)$')


def entries(path):
    """yield (macro_name or None, op_name, body) for the single-line entries of a driver file"""
    cur = None
    for line in open(path).read().split("\n"):
        m = re.match(r'\s*macro "(\w+)!"', line)
        if m:
            cur = m.group(1)
        if re.match(r"\s*def angleOps ", line):
            cur = "angleOps"
        elif re.match(r"\s*def ops\w+ ", line):
            cur = None if "!" not in line else cur
        m = ENTRY.match(line)
        if m:
            yield cur, m.group(1), m.group(2).strip()


def conv(body, env):
    """body -> (binders [(name, type)], list-expression) or None"""
    stmts = [s.strip() for s in body.split(";")]
    binders, lists, lets = [], {}, []
    ret = None
    for st in stmts:
        m = re.match(r"let (\w+) ← (.+)$", st)
        if m:
            name, rd = m.group(1), m.group(2).strip()
            rd = rd.strip("()")
            if rd.startswith("rmany "):
                r = rd.split()[1]
                ty = env.get(r) or READERS.get(r)
                if not ty:
                    return None
                k = 3
                items = [f"{name}{i}" for i in range(1, k + 1)]
                for it in items:
                    binders.append((it, ty))
                lists[name] = "[" + ", ".join(items) + "]"
                continue
            if rd in COMPOSITE:
                bs, val = COMPOSITE[rd]
                for (suffix, ty) in bs:
                    binders.append((name + suffix, ty))
                lets.append((name, val.replace("@", name)))
                continue
            if rd == "rrest":
                items = [f"{name}{i}" for i in range(1, 4)]
                for it in items:
                    binders.append((it, "K"))
                lists[name] = "[" + ", ".join(items) + "]"
                continue
            ty = env.get(rd) or READERS.get(rd)
            if not ty:
                return None
            binders.append((name, ty))
            continue
        m = re.match(r"return (.+)$", st)
        if m:
            ret = m.group(1).strip()
            continue
        return None
    if ret is None:
        return None
    if ret.startswith("okS "):
        e = ret[4:].strip()
    elif ret.startswith("okQ "):
        e = ret[4:].strip()
        e = f"({e}).toList" if not (e.startswith("(") and e.endswith(")")) else f"{e}.toList"
    else:
        return None
    for k, v in env.items():
        if k.startswith("$"):
            e = e.replace(k, v)
    e = re.sub(r'\$\(f "(\w+)"\)', lambda m_: env["T"] + "." + m_.group(1), e)
    e = re.sub(r'\$\(fv "(\w+)"\)', lambda m_: env.get("TV", "") + "." + m_.group(1), e)
    e = re.sub(r"\bRat\b", "K", e)
    e = re.sub(r"\bd2r\b", "degToRad", e)
    for name, lst in lists.items():
        e = re.sub(r"\b%s\b" % name, lst, e)
    if "$" in e or "←" in e:
        return None
    for name, val in reversed(lets):
        e = f"(let {name} := {val}; {e})"
    return binders, e


TOLISTS = ["V1.toList", "V2.toList", "V3.toList", "V4.toList", "P1.toList", "P2.toList", "P3.toList", "M2.toList", "M3.toList",
           "M4.toList", "Quat.toList"]
_DEFS = None
_BODY = {}


def model_defs():
    """names of the model's definitions, and the text of each body (for the dependency closure)"""
    global _DEFS
    if _DEFS is None:
        _DEFS = set()
        for f in sorted(os.listdir(f"{LEAN}/Model")):
            txt = open(f"{LEAN}/Model/{f}").read()
            ms = list(re.finditer(r"^(?:@\[simp\] )?(?:def|theorem|instance|abbrev|structure|inductive|class)\b[^\n]*", txt, re.M))
            for i, m in enumerate(ms):
                d = re.match(r"(?:@\[simp\] )?def ([A-Za-z0-9]+(?:\.[A-Za-z0-9]+)?)\b(?![?'])", m.group(0))
                if d:
                    _DEFS.add(d.group(1))
                    _BODY[d.group(1)] = txt[m.start():(ms[i + 1].start() if i + 1 < len(ms) else len(txt))]
    return _DEFS


ALLT = ["V1", "V2", "V3", "V4", "P1", "P2", "P3", "M2", "M3", "M4", "Quat", "Basis2", "Basis3", "Decomposed", "Angle", "Rad", "Deg"]


def mentioned(text, tys):
    D = model_defs()
    names = set()
    for m in re.finditer(r"\b([A-Za-z0-9]+\.[A-Za-z0-9]+)\b", text):
        if m.group(1) in D:
            names.add(m.group(1))
    for m in re.finditer(r"\.([A-Za-z0-9]+)\b", text):
        for t in tys:
            if f"{t}.{m.group(1)}" in D:
                names.add(f"{t}.{m.group(1)}")
    for m in re.finditer(r"\b([a-z][A-Za-z0-9]+)\b", text):
        if m.group(1) in D:
            names.add(m.group(1))
    return names


def narrow_set(expr, types):
    """the definitions the expression names itself, plus the metric helpers of the same types"""
    D = model_defs()
    tys = set(types) - {"K"}
    for t in list(tys):
        if t[0] in "PM":
            tys.add("V" + t[1])
    tys |= {m.group(1) for m in re.finditer(r"\b([VPM][1-4]|Quat)\.", expr)}
    names = set()
    for m in re.finditer(r"\b([A-Za-z0-9]+\.[A-Za-z0-9]+)\b", expr):
        if m.group(1) in D:
            names.add(m.group(1))
    for m in re.finditer(r"\.([A-Za-z0-9]+)\b", expr):
        for t in tys:
            if f"{t}.{m.group(1)}" in D:
                names.add(f"{t}.{m.group(1)}")
    extra = ["magnitude", "magnitude2", "distance2", "dot", "normalizeTo", "toVec", "fromVec", "sum", "product"]
    for n in list(names):
        t = n.split(".")[0]
        for e in extra:
            if f"{t}.{e}" in D:
                names.add(f"{t}.{e}")
            if t[0] == "P" and f"V{t[1]}.{e}" in D:
                names.add(f"V{t[1]}.{e}")
    if "degToRad" in expr:
        names.add("degToRad")
    names -= set(TOLISTS)
    return sorted(names)


def unfold_set(expr, types):
    """model definitions to unfold: those the expression names (explicitly, or as a method of one of the types around) and,
    transitively, those their bodies name"""
    tys = set(types) - {"K"}
    for t in list(tys):
        if t[0] in "PM":
            tys.add("V" + t[1])
    tys |= {m.group(1) for m in re.finditer(r"\b(%s)\." % "|".join(ALLT), expr)}
    names = mentioned(expr, tys)
    todo = list(names)
    while todo:
        n = todo.pop()
        body = _BODY.get(n, "")
        t = n.split(".")[0]
        near = set(tys) | ({t} if t in ALLT else set())
        if t and t[0] in "PM" and t[1:].isdigit():
            near.add("V" + t[1])
        if t in ("Quat", "Basis3"):
            near |= {"V3", "M3", "Quat"}
        if t == "Basis2":
            near |= {"V2", "M2"}
        for x in mentioned(body.split(":=", 1)[-1], near):
            if x not in names:
                names.add(x)
                todo.append(x)
    names -= set(TOLISTS)
    return sorted(names)


def main():
    manual_ops = {}
    for pid, ks in tracetab.MANUAL.items():
        for k, line in ks:
            manual_ops.setdefault(line.split()[0], []).append(k)
    owner = {}
    for pid in sorted(REG):
        if pid > "C15":
            continue
        for op in REG[pid].ops:
            owner.setdefault(op, pid)
    out = {}   # pid -> [(kernel, opline, theorem text)]
    insts = {"vecOps": [("v%d" % n, {"$rd": None, "rd": "V%d" % n, "T": "V%d" % n, "$V": "V%d" % n}) for n in (1, 2, 3, 4)],
             "pointOps": [("p%d" % n, {"rd": "P%d" % n, "rdv": "V%d" % n, "T": "P%d" % n, "TV": "V%d" % n, "$P": "P%d" % n, "$V": "V%d" % n}) for n in (1, 2, 3)],
             "matOps": [("m%d" % n, {"rd": "M%d" % n, "rdv": "V%d" % n, "T": "M%d" % n, "TV": "V%d" % n, "$M": "M%d" % n}) for n in (2, 3, 4)]}
    seen = set()
    ang = {"rad": {"T": "(Lits.radFull : K)", "toR": "(id : K → K)", "ofR": "(id : K → K)", "toD": "radToDeg"},
           "deg": {"T": "(degFull : K)", "toR": "degToRad", "ofR": "radToDeg", "toD": "(id : K → K)"}}
    for f in ("OpsVec", "OpsMat", "OpsQuat", "OpsXform"):
        for macro, name, body in entries(f"{LEAN}/Driver/{f}.lean"):
            variants = []
            if macro == "angleOps" and "." not in name:
                for unit, sub in ang.items():
                    b = body
                    for k, v in sub.items():
                        b = re.sub(r"\b%s\b" % k, v, b)
                    variants.append((f"{unit}.{name}", {"__body": b}))
            elif macro and "." not in name:
                for prefix, env in insts.get(macro, []):
                    e = {("$" + k if k in ("rd", "rdv") else k): v for k, v in env.items() if v}
                    variants.append((f"{prefix}.{name}", e))
            elif "." in name:
                variants.append((name, {}))
            for op, env in variants:
                if op in seen or op in manual_ops or op not in owner:
                    continue
                r = conv(env.pop("__body", body), env)
                if not r:
                    continue
                binders, expr = r
                seen.add(op)
                kname = "t_" + op.replace(".", "_")
                nargs = sum(SIZE[t] for _, t in binders)
                if nargs > len(PRIMES):
                    continue
                line = op + "".join(" " + str(p) for p in PRIMES[:nargs])
                bs = " ".join(f"({n} : {t if t == 'K' else t + ' K'})" for n, t in binders)
                args = " ++ ".join((f"[{n}]" if t == "K" else f"{n}.toList") for n, t in binders) or "([] : List K)"
                tys = [t for _, t in binders] + [t for t in ("Basis2", "Basis3", "Decomposed") if t in expr]
                unf2 = unfold_set(expr, tys)
                unf1 = narrow_set(expr, tys)
                alt = lambda u: ("(simp [" + ", ".join(u + ["List.foldl", "envL", "Tr.okS"] + TOLISTS) + "] <;> (repeat' apply And.intro) <;> first | ring1 | (ring_nf; done))")
                tac = "first | tr_any | " + alt(unf1) + (" | " + alt(unf2) if unf2 != unf1 else "")
                thm = f"theorem {kname} {bs} :\n    {kname} (envL ({args})) = .okS {expr} := by\n  {tac}"
                out.setdefault(owner[op], []).append((kname, line, thm))
    drop = set()
    if os.path.exists("/verif/tools/tobl_drop.txt"):
        drop = {l.strip() for l in open("/verif/tools/tobl_drop.txt") if l.strip() and not l.startswith("#")}
    with open("/verif/lib/cgv/tracetab_auto.py", "w") as f:
        f.write('"""GENERATED by tools/gen_tobl.py from the Lean driver tables -- kernels whose obligation is in\n'
                'lean/Cgm/Trace/<pid>Auto.lean.  Do not edit."""\nAUTO = {\n')
        for pid in sorted(out):
            f.write(f'    "{pid}": [\n')
            for k, line, _ in out[pid]:
                if k not in drop:
                    f.write(f'        ("{k}", "{line}"),\n')
            f.write("    ],\n")
        f.write("}\n")
    total = 0
    for pid in sorted(out):
        if not [1 for k, _, _ in out[pid] if k not in drop]:
            continue
        with open(f"{LEAN}/Trace/{pid}Auto.lean", "w") as f:
            f.write(f"import Cgm.Gen.{pid}\n/-! # T obligations for {pid}, generated once by tools/gen_tobl.py from the driver tables\n"
                    "(static text: the statement is `traced kernel = the model function the driver runs for this op`) -/\n"
                    "set_option linter.unusedSectionVars false\nset_option linter.unusedVariables false\nset_option linter.unusedSimpArgs false\n"
                    f"namespace Cg.Trace.{pid}Auto\nopen Cg Cg.Gen.{pid}\n"
                    "variable {K : Type} [Field K] [Transc K] [FRem K] [Lits K]\n\n")
            for k, line, thm in out[pid]:
                if k not in drop:
                    f.write(thm + "\n")
                    total += 1
            f.write(f"end Cg.Trace.{pid}Auto\n")
    print("obligations written:", total, {p: len([1 for k, _, _ in v if k not in drop]) for p, v in out.items()})


main()
