#!/usr/bin/env python3
"""Run checks against a seeded change: apply /verif/seeded/<name>/patch.diff to /repo, run the quick
check(s), undo.  Usage: seedrun.py <seeded-dir> [check ids...] [--tier quick|thorough]
Prints one line per check: <id> exit=<rc> <VIOLATION line or ->  and updates meta.json["caught_by"]."""
import json, os, subprocess, sys

def main():
    args = [a for a in sys.argv[1:] if not a.startswith("--")]
    tier = "quick"
    if "--tier" in sys.argv:
        tier = sys.argv[sys.argv.index("--tier") + 1]
        args = [a for a in args if a != tier]
    d = os.path.abspath(args[0])
    meta_p = os.path.join(d, "meta.json")
    meta = json.load(open(meta_p)) if os.path.exists(meta_p) else {}
    ids = args[1:] or [meta.get("property")]
    st = subprocess.run(["git", "-C", "/repo", "status", "--porcelain"], capture_output=True, text=True).stdout.strip()
    if st:
        sys.exit("refusing: /repo working tree is not clean:\n" + st)
    patch = os.path.join(d, "patch.diff")
    subprocess.run(["git", "-C", "/repo", "apply", "--check", patch], check=True)
    subprocess.run(["git", "-C", "/repo", "apply", patch], check=True)
    results = {}
    try:
        for i in ids:
            p = subprocess.run(["/verif/bin/check", i, "--tier", tier], capture_output=True, text=True)
            v = [l for l in p.stdout.split("\n") if l.startswith("VIOLATION")]
            results[i] = {"exit": p.returncode, "violation": v[:3]}
            try:
                cov = json.load(open(f"/verif/evidence/{i}.json"))["coverage"]
                nat = cov.get("native") or {}
                results[i]["noticed_by"] = {
                    "T_failed_obligations": [f.split(":")[1] for f in (cov.get("trace") or {}).get("failed", [])],
                    "D_disagreements": cov.get("disagreements", 0),
                    "O_failures": cov.get("oracle_failures", 0),
                    "N_failing_checks": [k for k, c in (nat.get("checks") or {}).items() if c.get("fails")],
                    "mq_disagreements": nat.get("model_query_disagreements", 0),
                    "I_uncovered": len((cov.get("impl_inventory") or {}).get("uncovered", [])),
                }
                print("   noticed by:", json.dumps(results[i]["noticed_by"]), flush=True)
            except Exception as e:
                print("   (no evidence read:", e, ")")
            print(i, f"exit={p.returncode}", v[0] if v else "-", flush=True)
            if p.returncode not in (0, 1):
                print(p.stdout[-1500:], p.stderr[-1500:])
            for l in v[:1]:
                rp = l.split("replay=")[1].split()[0]
                if os.path.exists(rp):
                    rj = json.load(open(rp))
                    print("   replay:", json.dumps(rj)[:600])
    finally:
        subprocess.run(["git", "-C", "/repo", "checkout", "--", "."], check=True)
    meta.setdefault("results", {}).update({f"{i}:{tier}": r for i, r in results.items()})
    meta["caught_by"] = sorted({k.split(":")[0] for k, r in meta["results"].items() if r["exit"] == 1})
    json.dump(meta, open(meta_p, "w"), indent=1)

main()
