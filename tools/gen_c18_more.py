#!/usr/bin/env python3
"""Writes the T obligations of the kernels of lib/cgv/tracetab_ops3.py (run once; the output is committed):
  lean/Cgm/Trace/C18OpsX.lean   approx relations of Euler, Decomposed<Vector3, Quaternion>, Basis2, Basis3
  lean/Cgm/Audit/TC18OpsX.lean
  lean/Cgm/E2E/C18c.lean        end to end for Euler and Decomposed (all paths), lean/Cgm/Audit/EC18.lean
usage: tools/gen_c18_more.py [root]"""
import os, sys

ROOT = sys.argv[1] if len(sys.argv) > 1 else os.path.dirname(os.path.dirname(os.path.abspath(__file__)))
sys.path.insert(0, ROOT + "/lib")
sys.path.insert(0, ROOT + "/tools")
sys.argv = sys.argv[:1] + [ROOT]
from gen_ops_obl import REL, scalar_rel                                          # noqa: E402

CAP = {"absDiffEq": "AbsDiffEq", "relEq": "RelEq", "ulpsEq": "UlpsEq"}
M3C = [f"{c}.{r}" for c in "xyz" for r in "xyz"]

# type -> binder, theorem application arguments, env base, compared pairs, model relation (suffix -> term head), unfold set
TY = {
    "euler": dict(
        binder="(x1 y1 z1 x2 y2 z2 : K)", args="x1 y1 z1 x2 y2 z2", env="[x1, y1, z1, x2, y2, z2]",
        pairs=[("x1", "x2"), ("y1", "y2"), ("z1", "z2")],
        model=lambda suf: f"euler{CAP[suf]} (x1, y1, z1) (x2, y2, z2)",
        unf=lambda suf: [f"euler{CAP[suf]}", f"angle{CAP[suf]}"], eps="eps52"),
    "dq": dict(
        binder="(a b : Decomposed (Quat K) (V3 K) K)", args="a b",
        env="[a.scale] ++ a.rot.toList ++ a.disp.toList ++ ([b.scale] ++ b.rot.toList ++ b.disp.toList)",
        pairs=[(f"a.{c}", f"b.{c}") for c in ("scale", "rot.s", "rot.v.x", "rot.v.y", "rot.v.z", "disp.x", "disp.y", "disp.z")],
        model=lambda suf: f"Decomposed.{suf} Quat.{suf} V3.{suf} a b",
        unf=lambda suf: [f"Decomposed.{suf}", f"Quat.{suf}", f"V3.{suf}", "Quat.toList", "V3.toList"], eps="eps52"),
    "b2": dict(
        binder="(a b : K)", args="a b", env="[a, b]",
        pairs=[("(Transc.cos a)", "(Transc.cos b)"), ("(Transc.sin a)", "(Transc.sin b)"), ("(-Transc.sin a)", "(-Transc.sin b)"),
               ("(Transc.cos a)", "(Transc.cos b)")],
        model=lambda suf: f"Basis2.{suf} ⟨M2.fromAngle a⟩ ⟨M2.fromAngle b⟩",
        unf=lambda suf: [f"Basis2.{suf}", f"M2.{suf}", f"V2.{suf}", "M2.fromAngle", "M2.new"], eps="eps52"),
    "b3": dict(
        binder="(a b : Quat K)", args="a b", env="a.toList ++ b.toList",
        pairs=[(f"(Basis3.fromQuaternion a).mat.{c}", f"(Basis3.fromQuaternion b).mat.{c}") for c in M3C],
        model=lambda suf: f"Basis3.{suf} (Basis3.fromQuaternion a) (Basis3.fromQuaternion b)",
        unf=lambda suf: [f"Basis3.{suf}", f"M3.{suf}", f"V3.{suf}", "Basis3.fromQuaternion", "Quat.toM3", "M3.new", "Quat.toList",
                         "V3.toList"], eps="eps52"),
}
CHAIN = ("euler", "dq")


def tol(rel, default):
    """(binder, tolerance argument text, env tail)"""
    if not default:
        return {"abs_diff_eq": ("(e : K)", "e", "[e]"), "relative_eq": ("(e m : K)", "e m", "[e, m]"),
                "ulps_eq": ("(e : K)", "e 4", "[e]")}[rel]
    return {"abs_diff_eq": ("", "eps52", None), "relative_eq": ("", "eps52 eps52", None), "ulps_eq": ("", "eps52 4", None)}[rel]


def targs(rel, default):
    return "" if default else {"abs_diff_eq": " e", "relative_eq": " e m", "ulps_eq": " e"}[rel]


def env_of(ty, tail):
    return TY[ty]["env"] + (f" ++ {tail}" if tail else "")


def kname(ty, rel, k, default):
    return f"t_{ty}_{rel}{'_d' if default else ''}_" + ("true" if k is None else f"false_{k}")


def theorem(ty, rel, k, default):
    bt, t, tail = tol(rel, default)
    ps = TY[ty]["pairs"]
    n = len(ps) if k is None else k + 1
    name = kname(ty, rel, k, default)
    hyps, guards = [], []
    for i in range(n):
        r = "true" if (k is None or i < k) else "false"
        hyps.append(f"(h{i} : {scalar_rel(rel, ps[i][0], ps[i][1], t)} = {r})")
        guards.append(f".{REL[rel][1]} {ps[i][0]} {ps[i][1]} {t} {r}")
    res = "true" if k is None else "false"
    suf = REL[rel][0]
    m = f"{TY[ty]['model'](suf)} {t}"
    s = f"theorem {name} {TY[ty]['binder']} {bt + ' ' if bt else ''}" + " ".join(hyps) + " :\n"
    s += f"    {name} (envL ({env_of(ty, tail)})) =\n      okB ({m}) [{', '.join(guards)}] ∧\n      {m} = {res} := by\n"
    if default:
        s += "  try simp only [eps52, one_div] at *\n"
    if ty == "b3":
        s += "  simp [Basis3.fromQuaternion, Quat.toM3, M3.new] at *\n"
    s += f"  constructor <;> simp [{', '.join(TY[ty]['unf'](suf))}, okB, eps52, envL, *]\n"
    return s


HEAD = '''import Cgm.Gen.C18
import Cgm.Trace.C18Rest
import Cgm.Model.Book4
/-!
# T obligations for C18: the three approx relations of `Euler`, `Decomposed<Vector3, Quaternion>`, `Basis2`, `Basis3`

GENERATED once by `tools/gen_c18_more.py` from the kernel table `lib/cgv/tracetab_ops3.py`; kept as an ordinary source file.

Same scheme as `C18Ops.lean`: each kernel is one path of the `&&` chain of the real `abs_diff_eq` / `relative_eq` / `ulps_eq`
(`_d`: the macro forms with the type's default tolerances, for all four types the scalar's `2^-52`, `2^-52`, `4`); under the
path condition the kernel returns the model's boolean (`Book4.lean`: `eulerAbsDiffEq`, `Decomposed.absDiffEq Quat.absDiffEq
V3.absDiffEq`, `Basis2.absDiffEq`, `Basis3.absDiffEq`, …) after exactly the comparisons listed, every one with the tolerance
ARGUMENTS the call was given.  `Euler` (components `x y z`) and `Decomposed` (scale, then the rotation's `s x y z`, then the
displacement's `x y z`): every stopping position.  `Basis2` / `Basis3` forward to the rotation MATRIX: the compared
expressions are the elements of `M2.fromAngle a` (`cos a, sin a, -sin a, cos a`) / of `Quat.toM3 a` in column-major order;
only the `true` path and the path that stops at the first element are traced (the argument does not control the elements
one by one).
-/
set_option linter.unusedSectionVars false
set_option linter.unusedSimpArgs false
set_option linter.unusedVariables false
namespace Cg.Trace.C18OpsX
open Cg Cg.Gen.C18 Cg.Trace.C18Rest
variable {K : Type} [Field K] [LinearOrder K] [Approx K] [Transc K] [FRem K] [Lits K]

'''


def gen_trace():
    s = HEAD
    for ty in TY:
        s += f"/-! ## `{ty}` -/\n"
        n = len(TY[ty]["pairs"])
        for rel in REL:
            ks = [None] + (list(range(n)) if ty in CHAIN else [0])
            for k in ks:
                s += theorem(ty, rel, k, False) + "\n"
        for rel in REL:
            for k in (None, 0):
                s += theorem(ty, rel, k, True) + "\n"
    return s + "end Cg.Trace.C18OpsX\n"


# ------------------------------------------------------------------------------------------------ E2E (euler, dq)
PW = ("List.pairwise_cons, List.mem_cons, List.not_mem_nil, or_false, forall_eq_or_imp, forall_eq, exists_eq_or_imp,\n"
      "    exists_eq_left, List.Pairwise.nil, and_true, IsEmpty.forall_iff, implies_true, false_imp_iff, exists_false")

HEAD_E = '''import Cgm.E2E.C18b
import Cgm.Trace.C18OpsX
import Cgm.Lemmas.GuardSem
/-!
# C18, end to end (third part): the approximate-equality relations of `Euler` and `Decomposed<Vector3, Quaternion>`, as computed

GENERATED once by `tools/gen_c18_more.py` from the kernel table `lib/cgv/tracetab_ops3.py`; kept as an ordinary source file.

Same statements as `C18b.lean`, for the two further types all of whose paths are traced: per type and relation
`<t>_<rel>_*_consistent` (which inputs take which path), `<t>_<rel>_exactly_one`, and `code_<t>_<rel>`: the path taken returns
normally one boolean, the model's relation, which is `true` iff the SCALAR relation with the same tolerance arguments holds
on every component pair (`Euler`: `x y z`; `Decomposed`: `scale`, the rotation's `s x y z`, the displacement's `x y z`).
`Basis2` / `Basis3` (two paths traced) have T obligations only (`Cgm/Trace/C18OpsX.lean`).
-/
set_option linter.unusedSectionVars false
set_option linter.unusedVariables false
set_option linter.unusedSimpArgs false
set_option linter.unnecessarySeqFocus false
namespace Cg.E2E.C18
open Cg Cg.Gen.C18 Cg.Trace.C18Rest

section opsx
variable {K : Type} [Field K] [LinearOrder K] [Approx K] [Transc K] [FRem K] [Lits K]

'''


def conj(xs):
    return " ∧ ".join(xs)


def block(ty, rel):
    bt, t, tail = tol(rel, False)
    ps = TY[ty]["pairs"]
    n = len(ps)
    suf = REL[rel][0]
    rs = [scalar_rel(rel, x, y, t) for x, y in ps]
    e = f"(envL ({env_of(ty, tail)}))"
    args = f"{TY[ty]['binder']} {bt}"
    av = TY[ty]["args"] + targs(rel, False)
    base = f"{ty}_{rel}"
    kn = lambda k: kname(ty, rel, k, False)
    tl = ", ".join(["Tr.Consistent", "envL", "Quat.toList", "V3.toList"])
    s = f"/-! ### `{ty}.{rel}` -/\n"
    conds = {}
    for k in [None] + list(range(n)):
        c = [f"{r} = true" for r in rs] if k is None else [f"{r} = true" for r in rs[:k]] + [f"{rs[k]} = false"]
        conds[k] = c
        nm = f"{base}_" + ("true" if k is None else f"false_{k}") + "_consistent"
        doc = ("this path is the one taken iff every component pair is within tolerance" if k is None else
               f"this path is the one taken iff component pair `{k}` is the first that is not within tolerance")
        s += f"/-- {doc} -/\ntheorem {nm} {args} :\n    ({kn(k)} {e}).Consistent ↔ {conj(c)} := by\n  simp [{tl}]\n"
    pname = f"{ty}{CAP[suf]}Paths"
    s += f"/-- the traced paths of `{ty}.{rel}` on the input -/\ndef {pname} {args} : List (Tr K) :=\n    [" + \
         ", ".join(f"{kn(k)} {e}" for k in [None] + list(range(n))) + "]\n"
    s += f"/-- for every input exactly one of the paths is the one taken -/\ntheorem {base}_exactly_one {args} : Tr.ExactlyOne ({pname} {av}) := by\n"
    s += f"  unfold Tr.ExactlyOne {pname}\n  simp only [{PW},\n    " + \
         ", ".join(f"{base}_" + ("true" if k is None else f"false_{k}") + "_consistent" for k in [None] + list(range(n))) + "]\n"
    for i, r in enumerate(rs):
        s += f"  generalize {r} = r{i}\n"
    for i in range(n):
        s += f"  cases r{i}\n  · simp\n"
    s += "  simp\n"
    m = f"{TY[ty]['model'](suf)} {t}"
    s += (f"/-- **`{ty}.{rel}` as computed**: exactly one traced path is taken; the path taken returns normally one boolean, the model's\n"
          f"relation; and that is `true` iff the scalar relation WITH THE SAME TOLERANCE ARGUMENTS holds on every component pair -/\n")
    s += f"theorem code_{base} {args} :\n    Tr.ExactlyOne ({pname} {av}) ∧\n"
    s += f"    (∀ t ∈ {pname} {av}, t.Consistent → t.res = .ok ∧ t.out = [] ∧ t.bools = [{m}]) ∧\n"
    s += f"    ({m} = true ↔ {conj(conds[None])}) := by\n"
    s += f"  refine ⟨{base}_exactly_one {av}, ?_, by simp [{', '.join(TY[ty]['unf'](suf))}, and_assoc]⟩\n"
    s += f"  intro t ht\n  simp only [{pname}, List.mem_cons, List.not_mem_nil, or_false] at ht\n"
    s += "  rcases ht with " + " | ".join(["rfl"] * (n + 1)) + "\n"
    for k in [None] + list(range(n)):
        cnt = n if k is None else k + 1
        hs = ", ".join(f"h{i}" for i in range(cnt))
        cn = f"{base}_" + ("true" if k is None else f"false_{k}") + "_consistent"
        pat = f"⟨{hs}⟩" if cnt > 1 else "h0"
        s += f"  · intro hc\n    have {pat} := ({cn} {av}).1 hc\n"
        s += f"    rw [(Trace.C18OpsX.{kn(k)} {av} {' '.join('h%d' % i for i in range(cnt))}).1]; exact ⟨rfl, rfl, rfl⟩\n"
    return s + "\n"


def gen_e2e():
    s = HEAD_E
    for ty in CHAIN:
        for rel in REL:
            s += block(ty, rel)
    return s + "end opsx\nend Cg.E2E.C18\n"


def write(rel, text):
    p = f"{ROOT}/{rel}"
    os.makedirs(os.path.dirname(p), exist_ok=True)
    open(p, "w").write(text)
    print("wrote", rel, text.count("\ntheorem "), "theorems")


if __name__ == "__main__":
    write("lean/Cgm/Trace/C18OpsX.lean", gen_trace())
    write("lean/Cgm/Audit/TC18OpsX.lean", "import Cgm.Lemmas.AuditCmd\nimport Cgm.Trace.C18OpsX\n#audit_namespace Cg.Trace.C18OpsX\n")
    write("lean/Cgm/E2E/C18c.lean", gen_e2e())
    write("lean/Cgm/Audit/EC18.lean",
          "import Cgm.Lemmas.AuditCmd\nimport Cgm.E2E.C18\nimport Cgm.E2E.C18b\nimport Cgm.E2E.C18c\n#audit_namespace Cg.E2E.C18\n")
