#!/usr/bin/env python3
"""copy new Lean files delivered by a proof worker (/tmp/<dir>/lean/Cgm/...) into /verif/lean/Cgm, hook the Props
continuation files and E2E files into the axiom audits and everything into the root module.
usage: integrate.py <dir under /tmp, e.g. lw3_F> relpath..."""
import os, re, shutil, sys
k = sys.argv[1]
base = f"/tmp/{k}" if k.startswith("lw") else f"/tmp/lw_{k}"


def add_import(path, imp):
    a = open(path).read()
    if imp + "\n" in a or a.endswith(imp):
        return
    lines = a.split("\n")
    i = max(j for j, l in enumerate(lines) if l.startswith("import "))
    lines.insert(i + 1, imp)
    open(path, "w").write("\n".join(lines))


for rel in sys.argv[2:]:
    src = f"{base}/lean/Cgm/{rel}"
    dst = f"/verif/lean/Cgm/{rel}"
    if os.path.exists(dst):
        sys.exit(f"refusing to overwrite {dst}")
    os.makedirs(os.path.dirname(dst), exist_ok=True)
    shutil.copy(src, dst)
    mod = "Cgm." + rel[:-5].replace("/", ".")
    m = re.match(r"Props/(C\d\d)([a-z])\.lean", rel)
    if m:
        add_import(f"/verif/lean/Cgm/Audit/{m.group(1)}.lean", f"import {mod}")
    m = re.match(r"E2E/(C\d\d)([a-z])\.lean", rel)
    if m:
        add_import(f"/verif/lean/Cgm/Audit/E{m.group(1)}.lean", f"import {mod}")
    if not rel.startswith("Audit/") and not rel.startswith("Gen/") and not re.match(r"(Trace|E2E)/", rel):
        add_import("/verif/lean/Cgm.lean", f"import {mod}")
    print("integrated", rel)
