#!/usr/bin/env python3
"""copy new Lean files delivered by a proof worker (/tmp/lw_<K>/lean/Cgm/...) into /verif/lean/Cgm and hook the Props
continuation files into the axiom audit.  usage: integrate.py K relpath..."""
import os, re, shutil, sys
k = sys.argv[1]
for rel in sys.argv[2:]:
    src = f"/tmp/lw_{k}/lean/Cgm/{rel}"
    dst = f"/verif/lean/Cgm/{rel}"
    if os.path.exists(dst):
        sys.exit(f"refusing to overwrite {dst}")
    os.makedirs(os.path.dirname(dst), exist_ok=True)
    shutil.copy(src, dst)
    m = re.match(r"Props/(C\d\d)([a-z])\.lean", rel)
    if m:
        ap = f"/verif/lean/Cgm/Audit/{m.group(1)}.lean"
        a = open(ap).read()
        imp = f"import Cgm.Props.{m.group(1)}{m.group(2)}\n"
        if imp not in a:
            lines = a.split("\n")
            i = max(j for j, l in enumerate(lines) if l.startswith("import "))
            lines.insert(i + 1, imp.strip())
            open(ap, "w").write("\n".join(lines))
    print("integrated", rel)
