#!/usr/bin/env python3
"""Writes the T obligations of the kernels of lib/cgv/tracetab_ops.py (run once; the output is committed):
  lean/Cgm/Trace/C18Ops.lean   approx relations of vectors, points, quaternion, angles, explicit tolerances
  lean/Cgm/Trace/C18OpsM.lean  ... of the matrices
  lean/Cgm/Trace/C18OpsD.lean  the default-tolerance macro forms
  lean/Cgm/Trace/C16Ops.lean   Index / IndexMut / swap_elements
and the end-to-end files lean/Cgm/E2E/C18b.lean, lean/Cgm/E2E/C16b.lean.
usage: tools/gen_ops_obl.py [root]   (root defaults to the directory above tools/)"""
import os, sys

ROOT = sys.argv[1] if len(sys.argv) > 1 else os.path.dirname(os.path.dirname(os.path.abspath(__file__)))
sys.path.insert(0, ROOT + "/lib")

XYZW = "xyzw"
# type -> (Lean structure, model namespace, component paths in flattening order)
def comps(ty):
    k, n = ty[0], ty[1:]
    if k in "vp":
        return [XYZW[i] for i in range(int(n))]
    if k == "m":
        return [f"{XYZW[c]}.{XYZW[r]}" for c in range(int(n)) for r in range(int(n))]
    if ty == "q":
        return ["s", "v.x", "v.y", "v.z"]
    return None   # angle: the scalar itself

LEAN_T = {"v": "V", "p": "P", "m": "M"}
def lty(ty):
    return "Quat" if ty == "q" else LEAN_T[ty[0]] + ty[1:]

REL = {  # rel -> (model suffix, G constructor, Approx field)
    "abs_diff_eq": ("absDiffEq", "absDiff", "absDiffEq"),
    "relative_eq": ("relEq", "rel", "relEq"),
    "ulps_eq": ("ulpsEq", "ulps", "ulpsEq"),
}
CAM = {"abs_diff_eq": "AbsDiffEq", "relative_eq": "RelEq", "ulps_eq": "UlpsEq"}
TYPES = ["v1", "v2", "v3", "v4", "p1", "p2", "p3", "m2", "m3", "m4", "q", "rad", "deg"]

def is_angle(ty):
    return ty in ("rad", "deg")

def tol(rel, ty, default):
    """(binder text, tolerance argument text, env tail list text)"""
    if not default:
        if rel == "abs_diff_eq":
            return "(e : K)", "e", "[e]"
        if rel == "relative_eq":
            return "(e m : K)", "e m", "[e, m]"
        return "(e : K)", "e 4", "[e]"
    e = "Lits.matEps" if ty[0] == "m" else "eps52"
    if rel == "abs_diff_eq":
        return "", e, None
    if rel == "relative_eq":
        return "", f"{e} eps52", None
    return "", f"{e} 4", None

def pairs(ty):
    """the compared component pairs, as Lean terms"""
    if is_angle(ty):
        return [("a", "b")]
    return [(f"a.{c}", f"b.{c}") for c in comps(ty)]

def model(ty, rel, t):
    suf = REL[rel][0]
    if is_angle(ty):
        return f"angle{suf[0].upper() + suf[1:]} a b {t}"
    return f"{lty(ty)}.{suf} a b {t}"

def unfolds(ty, rel):
    suf = REL[rel][0]
    if is_angle(ty):
        return [f"angle{suf[0].upper() + suf[1:]}"]
    L = lty(ty)
    out = [f"{L}.{suf}", f"{L}.toList"]
    if ty[0] == "m":
        out += [f"V{ty[1]}.{suf}", f"V{ty[1]}.toList"]
    if ty == "q":
        out += [f"V3.{suf}", "V3.toList"]
    return out

def env(ty, tail):
    if is_angle(ty):
        base = "[a, b]"
    else:
        base = "a.toList ++ b.toList"
    if tail is None:
        return base
    if is_angle(ty):
        return base[:-1] + ", " + tail[1:]
    return f"{base} ++ {tail}"

def binder(ty):
    return "(a b : K)" if is_angle(ty) else f"(a b : {lty(ty)} K)"

def scalar_rel(rel, x, y, t):
    return f"Approx.{REL[rel][2]} {x} {y} {t}"

def approx_theorem(ty, rel, k, default):
    """k = None: the `true` path; else the `false_k` path"""
    bt, t, tail = tol(rel, ty, default)
    ps = pairs(ty)
    n = len(ps) if k is None else k + 1
    name = f"t_{ty}_{rel}{'_d' if default else ''}_" + ("true" if k is None else f"false_{k}")
    hyps, guards = [], []
    for i in range(n):
        r = "true" if (k is None or i < k) else "false"
        hyps.append(f"(h{i} : {scalar_rel(rel, ps[i][0], ps[i][1], t)} = {r})")
        guards.append(f".{REL[rel][1]} {ps[i][0]} {ps[i][1]} {t} {r}")
    res = "true" if k is None else "false"
    m = model(ty, rel, t)
    s = f"theorem {name} {binder(ty)} {bt + ' ' if bt else ''}" + " ".join(hyps) + " :\n"
    s += f"    {name} (envL ({env(ty, tail)})) =\n      okB ({m}) [{', '.join(guards)}] ∧\n      {m} = {res} := by\n"
    if default:
        s += "  try simp only [eps52, one_div] at *\n"
    s += f"  constructor <;> simp [{', '.join(unfolds(ty, rel))}, okB, eps52, envL, *]\n"
    return s

HEAD18 = '''import Cgm.Gen.C18
import Cgm.Trace.C18Rest
import Cgm.Model.Book4
/-!
# T obligations for C18: %s

GENERATED once by `tools/gen_ops_obl.py` from the kernel table `lib/cgv/tracetab_ops.py`; kept as an ordinary source file.

Each kernel was traced from the real `abs_diff_eq` / `relative_eq` / `ulps_eq` of the type at the recording scalar, whose own
relations record ONE comparison each (`G.absDiff a b eps r`, `G.rel a b eps max_rel r`, `G.ulps a b eps max_ulps r`).  The
`&&` chain over the components short-circuits: `_true` is the path on which every component pair is within tolerance,
`_false_k` the path on which the pairs `0 .. k-1` (flattening order) are and pair `k` is not.  Each obligation says: under
that path condition the kernel returns the model's boolean (`Book4.lean`) after exactly the comparisons listed -- the
component pairs in order, every one with the tolerance ARGUMENTS the call was given -- with the outcomes recorded, and
writes out the boolean.  `max_ulps` is a literal of the traced kernel (`4`).
-/
set_option linter.unusedSectionVars false
set_option linter.unusedSimpArgs false
set_option linter.unusedVariables false
namespace Cg.Trace.%s
open Cg Cg.Gen.C18 Cg.Trace.C18Rest
variable {K : Type} [Field K] [LinearOrder K] [Approx K] [Transc K] [FRem K] [Lits K]

'''

def write(path, text):
    os.makedirs(os.path.dirname(path), exist_ok=True)
    open(path, "w").write(text)
    print("wrote", path, text.count("\ntheorem "), "theorems")

def gen_c18_trace():
    def body(types, default):
        s = ""
        for ty in types:
            s += f"/-! ## `{ty}` -/\n"
            for rel in REL:
                n = len(pairs(ty))
                ks = [None] + (list(range(n)) if not default else [0])
                for k in ks:
                    s += approx_theorem(ty, rel, k, default) + "\n"
        return s
    small = [t for t in TYPES if t[0] != "m"]
    mats = [t for t in TYPES if t[0] == "m"]
    write(f"{ROOT}/lean/Cgm/Trace/C18Ops.lean",
          HEAD18 % ("the three approx relations of vectors, points, the quaternion and the angles, explicit tolerances", "C18Ops")
          + body(small, False) + "end Cg.Trace.C18Ops\n")
    write(f"{ROOT}/lean/Cgm/Trace/C18OpsM.lean",
          HEAD18 % ("the three approx relations of the matrices, explicit tolerances (column by column, `VectorN`'s chain inside)", "C18OpsM")
          + body(mats, False) + "end Cg.Trace.C18OpsM\n")
    dnote = ("the default-tolerance macro forms `abs_diff_eq!(a, b)`, `relative_eq!(a, b)`, `ulps_eq!(a, b)`\n\n"
             "The tolerances are the TYPE's defaults as the code obtained them: the recording scalar's `default_epsilon` /\n"
             "`default_max_relative` (`eps52 = 2^-52`) and `default_max_ulps` (`4`) for vectors, points, the quaternion and the\n"
             "angles; for the matrices the epsilon is the literal `cast(1.0e-6f64)` (`Lits.matEps`), NOT the scalar's, while\n"
             "`max_relative` / `max_ulps` are the scalar's")
    write(f"{ROOT}/lean/Cgm/Trace/C18OpsD.lean",
          HEAD18 % (dnote, "C18OpsD") + body(TYPES, True) + "end Cg.Trace.C18OpsD\n")
    for m in ("C18Ops", "C18OpsM", "C18OpsD"):
        write(f"{ROOT}/lean/Cgm/Audit/T{m}.lean", f"import Cgm.Lemmas.AuditCmd\nimport Cgm.Trace.{m}\n#audit_namespace Cg.Trace.{m}\n")

# ------------------------------------------------------------------------------------------------ C16
HEAD16 = '''import Cgm.Gen.C16
import Cgm.Lemmas.TraceIdx
import Cgm.Model.Book3
/-!
# T obligations for C16: `Index<usize>` / `IndexMut<usize>` of the quaternion, `IndexMut<usize>` stores into vectors, points
and matrices (`m[c][r] = a`), `Array::swap_elements` of vectors and points -- every in-range index (tuple), and out of range

GENERATED once by `tools/gen_ops_obl.py` from the kernel table `lib/cgv/tracetab_ops.py`; kept as an ordinary source file.

Each kernel was traced from the real code at the literal indices in its name, on symbolic components; the obligation says it
is the model's function at those indices for every value (`Tr.ofPanic` reads the model's `none` as the code's panic) and
writes out the flattened result: the stored value at exactly the addressed position (quaternion: slots `0..2` are `v.x, v.y,
v.z`, slot `3` is `s`, while the flattening is `s x y z`), every other component unchanged; for `swap_elements` the two
addressed components exchanged.  Out of range (`_oob`) the kernel is the bare panic and the model is `none`.
-/
set_option linter.unusedSectionVars false
set_option linter.unusedSimpArgs false
set_option linter.unusedVariables false
namespace Cg.Trace.C16Ops
open Cg Cg.Gen.C16
variable {K : Type} [Field K] [Transc K] [FRem K] [Lits K]

/-- unfold the kernel, the model's accessor / store at the literal indices, and the flat lists -/
local macro "tr_ix" : tactic =>
  `(tactic| (simp [envL, Tr.okS, Tr.panicG, Tr.ofPanic, V1.get?, V2.get?, V3.get?, V4.get?, P1.get?, P2.get?, P3.get?,
      V1.set?, V2.set?, V3.set?, V4.set?, P1.set?, P2.set?, P3.set?, Quat.get?, Quat.set?, Quat.toArray, Quat.toList,
      V1.swapElements?, V2.swapElements?, V3.swapElements?, V4.swapElements?, P1.swapElements?, P2.swapElements?,
      P3.swapElements?, M2.set?, M3.set?, M4.set?, M2.col?, M3.col?, M4.col?, M2.cols, M3.cols, M4.cols,
      M2.setCol?, M3.setCol?, M4.setCol?, V1.toList, V2.toList, V3.toList, V4.toList,
      P1.toList, P2.toList, P3.toList, M2.toList, M3.toList, M4.toList]))

'''

def flat(ty, var):
    if ty == "q":
        return [f"{var}.s", f"{var}.v.x", f"{var}.v.y", f"{var}.v.z"]
    return [f"{var}.{c}" for c in comps(ty)]

def in_range(name, var, ty, envtxt, modeltxt, result):
    return (f"theorem {name} ({var} : {lty(ty)} K){' (a : K)' if ' a' in modeltxt + ' ' else ''} :\n"
            f"    {name} (envL ({envtxt})) = .ofPanic ({modeltxt}) ∧\n      {modeltxt} = some {result} := by\n"
            f"  constructor <;> tr_ix\n\n")

def oob(name, var, ty, envtxt, modeltxt):
    return (f"theorem {name} ({var} : {lty(ty)} K){' (a : K)' if ' a' in modeltxt + ' ' else ''} :\n"
            f"    {name} (envL ({envtxt})) = .ofPanic ({modeltxt}) ∧\n"
            f"      {name} (envL ({envtxt})) = .panicG [] ∧ {modeltxt} = none := by\n"
            f"  refine ⟨?_, ?_, ?_⟩ <;> tr_ix\n\n")

def lst(xs):
    return "[" + ", ".join(xs) + "]"

def gen_c16_trace():
    s = HEAD16
    s += "/-! ## `Quaternion`: `Index<usize>` and `IndexMut<usize>` (order `x, y, z, s`) -/\n"
    arr = ["q.v.x", "q.v.y", "q.v.z", "q.s"]
    for i in range(4):
        m = f"(q.get? {i}).map fun a => [a]"
        s += (f"theorem t_q_index_{i} (q : Quat K) :\n    t_q_index_{i} (envL q.toList) = .ofPanic ({m}) ∧ q.get? {i} = some {arr[i]} := by\n"
              f"  constructor <;> tr_ix\n\n")
    m = "(q.get? 4).map fun a => [a]"
    s += (f"theorem t_q_index_4_oob (q : Quat K) :\n    t_q_index_4_oob (envL q.toList) = .ofPanic ({m}) ∧\n"
          f"      t_q_index_4_oob (envL q.toList) = .panicG [] ∧ q.get? 4 = none := by\n  refine ⟨?_, ?_, ?_⟩ <;> tr_ix\n\n")
    pos = {0: 1, 1: 2, 2: 3, 3: 0}   # array slot -> position in the flattening s x y z
    for i in range(4):
        f = flat("q", "q"); f[pos[i]] = "a"
        s += in_range(f"t_q_set_{i}", "q", "q", "q.toList ++ [a]", f"(q.set? {i} a).map Quat.toList", lst(f))
    s += oob("t_q_set_4_oob", "q", "q", "q.toList ++ [a]", "(q.set? 4 a).map Quat.toList")
    for ty in ("v1", "v2", "v3", "v4", "p1", "p2", "p3"):
        n = int(ty[1]); L = lty(ty)
        s += f"/-! ## `{ty}`: `IndexMut<usize>` store, `swap_elements` -/\n"
        for i in range(n):
            f = flat(ty, "u"); f[i] = "a"
            s += in_range(f"t_{ty}_set_{i}", "u", ty, "u.toList ++ [a]", f"(u.set? {i} a).map {L}.toList", lst(f))
        s += oob(f"t_{ty}_set_{n}_oob", "u", ty, "u.toList ++ [a]", f"(u.set? {n} a).map {L}.toList")
        for i in range(n):
            for j in range(n):
                f = flat(ty, "u"); f[i], f[j] = f[j], f[i]
                s += in_range(f"t_{ty}_swap_elements_{i}_{j}", "u", ty, "u.toList", f"(u.swapElements? {i} {j}).map {L}.toList", lst(f))
        s += oob(f"t_{ty}_swap_elements_{n}_0_oob", "u", ty, "u.toList", f"(u.swapElements? {n} 0).map {L}.toList")
        s += oob(f"t_{ty}_swap_elements_0_{n}_oob", "u", ty, "u.toList", f"(u.swapElements? 0 {n}).map {L}.toList")
    for n in (2, 3, 4):
        ty = f"m{n}"; L = lty(ty)
        s += f"/-! ## `{ty}`: `m[c][r] = a` -/\n"
        for c in range(n):
            for r in range(n):
                f = flat(ty, "m"); f[c * n + r] = "a"
                s += in_range(f"t_{ty}_set_{c}_{r}", "m", ty, "m.toList ++ [a]", f"(m.set? {c} {r} a).map {L}.toList", lst(f))
        s += oob(f"t_{ty}_set_{n}_0_oob", "m", ty, "m.toList ++ [a]", f"(m.set? {n} 0 a).map {L}.toList")
        s += oob(f"t_{ty}_set_0_{n}_oob", "m", ty, "m.toList ++ [a]", f"(m.set? 0 {n} a).map {L}.toList")
    s += "end Cg.Trace.C16Ops\n"
    write(f"{ROOT}/lean/Cgm/Trace/C16Ops.lean", s)
    write(f"{ROOT}/lean/Cgm/Audit/TC16Ops.lean", "import Cgm.Lemmas.AuditCmd\nimport Cgm.Trace.C16Ops\n#audit_namespace Cg.Trace.C16Ops\n")

if __name__ == "__main__":
    gen_c18_trace()
    gen_c16_trace()
    try:
        import gen_ops_e2e
        gen_ops_e2e.main(ROOT)
    except ImportError:
        pass
