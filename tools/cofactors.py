"""Find polynomial cofactors q_i with  target = sum q_i * g_i  by undetermined coefficients
(used at proof-writing time to produce `linear_combination` certificates; the Lean kernel,
not this script, checks them)."""
import itertools
from sympy import symbols, expand, Poly, linsolve, Symbol, S


def monomials(vars_, deg):
    out = []
    for d in range(deg + 1):
        for c in itertools.combinations_with_replacement(vars_, d):
            m = S.One
            for v in c:
                m *= v
            out.append(m)
    return out


def find(target, gens, vars_, maxdeg=4):
    target = expand(target)
    if target == 0:
        return [S.Zero] * len(gens)
    for deg in range(0, maxdeg + 1):
        mons = monomials(vars_, deg)
        unknowns = []
        qs = []
        for gi in range(len(gens)):
            cs = [Symbol(f"c_{gi}_{k}") for k in range(len(mons))]
            unknowns += cs
            qs.append(sum(c * m for c, m in zip(cs, mons)))
        expr = expand(sum(q * g for q, g in zip(qs, gens)) - target)
        eqs = Poly(expr, *vars_).coeffs()
        sol = linsolve(eqs, unknowns)
        if sol:
            s = next(iter(sol))
            sub = {u: (v.subs({uu: 0 for uu in unknowns})) for u, v in zip(unknowns, s)}
            res = [expand(q.subs(sub)) for q in qs]
            assert expand(sum(q * g for q, g in zip(res, gens)) - target) == 0
            return res
    return None


def lean(e):
    return str(e).replace("**", "^")
