#!/usr/bin/env python3
"""Writes (run once; the output is committed as ordinary source) everything that is derived from the C17 tables
`sigs.FORM_FAMILIES` (operand forms of the operators) and `tracetab_ops2` (forms + fold lengths):
  harness/src/ops/extra2.rs            the ops `<t>.<op>.<form>` on the real cgmath code
  lean/Cgm/Driver/OpsExtra2.lean       the same ops on the model (by-value model function; `.asg`: Cgm/Model/Assign.lean)
  lean/Cgm/Trace/C17Ops.lean           T obligations, forms of the vector operators
  lean/Cgm/Trace/C17OpsM.lean          ... matrices         lean/Cgm/Trace/C17OpsQ.lean   ... quaternion
  lean/Cgm/Trace/C17OpsP.lean          ... points           lean/Cgm/Trace/C17OpsA.lean   ... angles
  lean/Cgm/Trace/C17OpsF.lean          T obligations, Sum / Product / centroid at the lengths 0, 1, 2, 4, 5
  lean/Cgm/E2E/C17b.lean               end to end: all traced forms = the by-value kernel; ref fold = value fold
  lean/Cgm/Audit/TC17Ops*.lean, EC17.lean
usage: tools/gen_c17_forms.py [root]   (root defaults to the directory above tools/)"""
import glob, os, re, sys

ROOT = sys.argv[1] if len(sys.argv) > 1 else os.path.dirname(os.path.dirname(os.path.abspath(__file__)))
sys.path.insert(0, ROOT + "/lib")
from cgv.sigs import FORM_FAMILIES, FORM_VEC                                     # noqa: E402
from cgv.tracetab import TRACE                                                   # noqa: E402
from cgv.tracetab_ops2 import FOLD_TYPES, CENTROID_LENGTHS, REF_AT_3                 # noqa: E402

SYM = {"add": "+", "sub": "-", "mul": "*", "div": "/", "rem": "%", "add_v": "+", "sub_v": "-", "sub_p": "-",
       "mul_s": "*", "div_s": "/", "rem_s": "%", "mul_v": "*", "div_a": "/", "neg": "-"}


def is_angle(ty):
    return ty in ("rad", "deg")


def lty(ty):
    return "Quat" if ty == "q" else ty[0].upper() + ty[1:]


def vty(ty):
    return FORM_VEC[ty]


# ------------------------------------------------------------------------------------------------ Rust
def rust_rd(ty, k):
    if k == "T":
        return f"a.{ty}()"
    if k == "V":
        return f"a.{vty(ty).lower()}()"
    return "a.x()"


def rust_arm(ty, op, sg, form):
    ks = sg.split()
    s = SYM[op]
    if form == "r":
        return f'"{ty}.{op}.r" => |a| {{ let u = {rust_rd(ty, ks[0])}; ok(-&u) }},'
    rd = f"({rust_rd(ty, ks[0])}, {rust_rd(ty, ks[1])})"
    if form == "asg":
        return f'"{ty}.{op}.asg" => |a| {{ let (mut u, v) = {rd}; u {s}= v; ok(u) }},'
    e = {"rv": f"&u {s} v", "vr": f"u {s} &v", "rr": f"&u {s} &v"}[form]
    return f'"{ty}.{op}.{form}" => |a| {{ let (u, v) = {rd}; ok({e}) }},'


def gen_rust():
    arms, names = [], []
    for tys, op, sg, forms in FORM_FAMILIES:
        for ty in tys:
            for f in forms:
                arms.append("        " + rust_arm(ty, op, sg, f))
                names.append(f'"{ty}.{op}.{f}"')
    nl = ""
    for i in range(0, len(names), 8):
        nl += "    " + ", ".join(names[i:i + 8]) + ",\n"
    return ('''//! Operand FORMS of the operators, added for C17 (signatures: lib/cgv/sigs.py `FORM_FAMILIES`; kernels:
//! lib/cgv/tracetab_ops2.py).  GENERATED once by tools/gen_c17_forms.py; kept as an ordinary source file.
//!
//! `<t>.<op>.<form>` runs the `impl` of the operator `<op>` of type `<t>` that the call-site spelling `<form>` selects:
//! `rv` = `&a op b`, `vr` = `a op &b`, `rr` = `&a op &b`, `asg` = `a op= b` (the updated `a` is the result), `r` = `-&a`.
//! Each of these is a separate `impl` in the crate (`impl_operator!` expands one per operand form, the compound
//! assignments are `impl_assignment_operator!` / hand-written bodies); the by-value forms are the ops `<t>.<op>`.
#![allow(clippy::op_ref)]
use super::*;

pub fn lookup(name: &str) -> Option<OpFn> {
    Some(match name {
''' + "\n".join(arms) + '''
        // `Sum<&'a MatrixN>` / `Product<&'a Basis2>`: the by-reference iterator impls (by value: `m<n>.sum_list`, `b2.product_list`)
        "m2.sum_list_ref" => |a| { let mut l = vec![]; while a.remaining() > 0 { l.push(a.m2()); } ok(l.iter().sum::<Matrix2<X>>()) },
        "m3.sum_list_ref" => |a| { let mut l = vec![]; while a.remaining() > 0 { l.push(a.m3()); } ok(l.iter().sum::<Matrix3<X>>()) },
        "m4.sum_list_ref" => |a| { let mut l = vec![]; while a.remaining() > 0 { l.push(a.m4()); } ok(l.iter().sum::<Matrix4<X>>()) },
        "b2.product_list_ref" => |a| {
            let mut l: Vec<Basis2<X>> = vec![];
            while a.remaining() > 0 { let t = a.rad(); l.push(Rotation2::from_angle(t)); }
            let m: Matrix2<X> = l.iter().product::<Basis2<X>>().into();
            ok(m)
        },
        _ => return None,
    })
}
const NAMES: &[&str] = &[
''' + nl + '''    "m2.sum_list_ref", "m3.sum_list_ref", "m4.sum_list_ref", "b2.product_list_ref",
];
pub fn names() -> Vec<String> {
    NAMES.iter().map(|s| s.to_string()).collect()
}
''')


# ------------------------------------------------------------------------------------------------ Lean model terms
def lean_rd(ty, k):
    if k == "T":
        return "rx" if is_angle(ty) else ("rq" if ty == "q" else "r" + ty)
    if k == "V":
        return "r" + vty(ty).lower()
    return "rx"


def model_expr(ty, op, form, a="u", b="v"):
    """the model value (a Lean term), for the angle types a scalar"""
    ang = is_angle(ty)
    if form == "asg":
        if ang:
            f = {"add": "addAssign", "sub": "subAssign", "rem": "remAssign", "mul_s": "mulAssignS", "div_s": "divAssignS"}[op]
            return f"Angle.{f} {a} {b}"
        f = {"add": "addAssign", "sub": "subAssign", "add_v": "addAssignV", "sub_v": "subAssignV", "mul": "mulAssignS",
             "div": "divAssignS", "rem": "remAssignS", "mul_s": "mulAssignS", "div_s": "divAssignS", "rem_s": "remAssignS"}[op]
        return f"{a}.{f} {b}"
    if op == "neg":
        return f"-{a}"
    if op in ("rem", "rem_s"):
        return f"FRem.frem {a} {b}" if ang else f"{a}.rem {b}"
    if op == "mul_v":
        return f"{a}.mulVec {b}"
    return f"{a} {SYM[op]} {b}"


def model_list(ty, op, form, a="u", b="v"):
    """the flattened model result (a Lean term of type `List K`)"""
    e = model_expr(ty, op, form, a, b)
    if is_angle(ty):
        return f"[{e}]"
    if op in ("sub_p", "mul_v"):
        return f"({vty(ty)}.toList ({e}))"
    return f"({e}).toList"


def gen_driver():
    out = ['''import Cgm.Driver.OpsExtra
import Cgm.Model.Assign
/-!
# Driver op tables: the operand forms of the operators, added for C17 (`harness/src/ops/extra2.rs`)

GENERATED once by `tools/gen_c17_forms.py` from `lib/cgv/sigs.py` (`FORM_FAMILIES`); kept as an ordinary source file.

`<t>.<op>.<form>`: for the reference forms (`rv` = `&a op b`, `vr` = `a op &b`, `rr` = `&a op &b`, `r` = `-&a`) the model value
is the SAME function the by-value op `<t>.<op>` runs (in the model an operator is one function); for `asg` (`a op= b`) it is
the field-by-field definition of `Cgm/Model/Assign.lean` (`V3.addAssign`, ... : different model code, proved equal to the
by-value operator in `Cgm/Props/C17c.lean`).
-/
namespace Cg.Rt
open Cg
''']
    tys_seen = []
    by_ty = {}
    for tys, op, sg, forms in FORM_FAMILIES:
        for ty in tys:
            by_ty.setdefault(ty, []).append((op, sg, forms))
    for ty, fams in by_ty.items():
        if ty == "deg":
            continue
        fn = "opsFormsAngle" if is_angle(ty) else f"opsForms{lty(ty)}"
        out.append(f"def {fn} (k : String) : Option Op :=\n  match k with")
        for op, sg, forms in fams:
            ks = sg.split()
            for f in forms:
                if len(ks) == 1:
                    rd = f"let u ← {lean_rd(ty, ks[0])}"
                else:
                    rd = f"let u ← {lean_rd(ty, ks[0])}; let v ← {lean_rd(ty, ks[1])}"
                out.append(f'  | "{op}.{f}" => some fun _ => do {rd}; return okS {model_list(ty, op, f)}')
        out.append("  | _ => none\n")
    out.append('''/-- `Sum<&'a MatrixN>`, `Product<&'a Basis2>`: in the model the by-reference fold is the by-value one -/
def opsExtra2Special [Transc Rat] (name : String) : Option Op :=
  match name with
  | "m2.sum_list_ref" => some fun _ => do let l ← rmany rm2; return okS (M2.sumList l).toList
  | "m3.sum_list_ref" => some fun _ => do let l ← rmany rm3; return okS (M3.sumList l).toList
  | "m4.sum_list_ref" => some fun _ => do let l ← rmany rm4; return okS (M4.sumList l).toList
  | "b2.product_list_ref" => some fun _ => do let l ← rmany rb2; return okS (Basis2.productList l).mat.toList
  | _ => none

def opsExtra2 [Transc Rat] (name : String) : Option Op :=
  (opsExtra2Special name).orElse fun _ =>
  match name.splitOn "." with
  | [ty, op, form] =>
    let k := op ++ "." ++ form
    match ty with
    | "v1" => opsFormsV1 k | "v2" => opsFormsV2 k | "v3" => opsFormsV3 k | "v4" => opsFormsV4 k
    | "p1" => opsFormsP1 k | "p2" => opsFormsP2 k | "p3" => opsFormsP3 k
    | "m2" => opsFormsM2 k | "m3" => opsFormsM3 k | "m4" => opsFormsM4 k
    | "q" => opsFormsQuat k
    | "rad" => opsFormsAngle k | "deg" => opsFormsAngle k
    | _ => none
  | _ => none

end Cg.Rt
''')
    return "\n".join(out)


# ------------------------------------------------------------------------------------------------ T obligations
def binders(ty, sg):
    """(binder text, application arguments, env list text)"""
    ks = sg.split()
    ang = is_angle(ty)
    L = "K" if ang else f"{lty(ty)} K"
    one = (lambda n: f"[{n}]") if ang else (lambda n: f"{n}.toList")
    if ks == ["T"]:
        return f"(u : {L})", "u", ("[u]" if ang else "u.toList")
    if ks == ["T", "T"]:
        return f"(u v : {L})", "u v", ("[u, v]" if ang else "u.toList ++ v.toList")
    if ks == ["T", "V"]:
        return f"(u : {L}) (v : {vty(ty)} K)", "u v", "u.toList ++ v.toList"
    return f"(u : {L}) (v : K)", "u v", ("[u, v]" if ang else "u.toList ++ [v]")


TRACE_MODS = {"v": "C17Ops", "m": "C17OpsM", "q": "C17OpsQ", "p": "C17OpsP", "r": "C17OpsA", "d": "C17OpsA"}
TRACE_TITLE = {"C17Ops": "vectors", "C17OpsM": "matrices", "C17OpsQ": "the quaternion", "C17OpsP": "points",
               "C17OpsA": "the angle types"}

ASSIGN_DEFS = {
    "C17Ops": [f"V{n}.{f}" for n in (1, 2, 3, 4) for f in ("addAssign", "subAssign", "mulAssignS", "divAssignS", "remAssignS", "rem")],
    "C17OpsM": [f"M{n}.{f}" for n in (2, 3, 4) for f in ("addAssign", "subAssign", "mulAssignS", "divAssignS", "remAssignS", "rem")]
               + [f"V{n}.{f}" for n in (2, 3, 4) for f in ("addAssign", "subAssign", "mulAssignS", "divAssignS", "remAssignS", "rem")],
    "C17OpsQ": [f"Quat.{f}" for f in ("addAssign", "subAssign", "mulAssignS", "divAssignS", "remAssignS", "rem")]
               + [f"V3.{f}" for f in ("addAssign", "subAssign", "mulAssignS", "divAssignS", "remAssignS", "rem")],
    "C17OpsP": [f"P{n}.{f}" for n in (1, 2, 3) for f in ("addAssignV", "subAssignV", "mulAssignS", "divAssignS", "remAssignS", "rem")],
    "C17OpsA": [f"Angle.{f}" for f in ("addAssign", "subAssign", "remAssign", "mulAssignS", "divAssignS")],
}
TOLISTS = "V1.toList, V2.toList, V3.toList, V4.toList, P1.toList, P2.toList, P3.toList, M2.toList, M3.toList, M4.toList, Quat.toList"


def trace_head(mod):
    return f'''import Cgm.Gen.C17
import Cgm.Model.Assign
/-!
# T obligations for C17: the operand forms of the operators of {TRACE_TITLE[mod]}

GENERATED once by `tools/gen_c17_forms.py` from `lib/cgv/sigs.py` (`FORM_FAMILIES`) / `lib/cgv/tracetab_ops2.py`; kept as an
ordinary source file.

Each kernel `t_<t>_<op>_<form>` was traced from the `impl` the call-site spelling selects (`rv` = `&a op b`, `vr` = `a op &b`,
`rr` = `&a op &b`, `r` = `-&a`, `asg` = `a op= b`) on symbolic operands.  For the reference forms the obligation says the
kernel is the model's by-value operator (the model has one function per operator); for `asg` it says the kernel is the
field-by-field definition of `Cgm/Model/Assign.lean`, which `Cgm/Props/C17c.lean` proves equal to the by-value operator
(composed in `Cgm/E2E/C17b.lean`).
-/
set_option linter.unusedSectionVars false
set_option linter.unusedSimpArgs false
set_option linter.unusedVariables false
namespace Cg.Trace.{mod}
open Cg Cg.Gen.C17
variable {{K : Type}} [Field K] [Transc K] [FRem K] [Lits K]

/-- unfold the kernel and the model operator (for `asg`: the chain of single-field updates), then field identities -/
local macro "tr_form" : tactic =>
  `(tactic| first
    | (tr_auto; done)
    | (simp [{", ".join(ASSIGN_DEFS[mod])}, envL, Tr.okS,
        {TOLISTS}] <;>
       (repeat' apply And.intro) <;> first | ring1 | (ring_nf; done)))
'''


def gen_trace():
    files = {m: [trace_head(m)] for m in TRACE_TITLE}
    for tys, op, sg, forms in FORM_FAMILIES:
        for ty in tys:
            mod = TRACE_MODS[ty[0]]
            bt, _, env = binders(ty, sg)
            for f in forms:
                k = f"t_{ty}_{op}_{f}"
                envt = env if (" " not in env or env.startswith("[")) else f"({env})"
                files[mod].append(f"theorem {k} {bt} :\n    {k} (envL {envt}) = .okS {model_list(ty, op, f)} := by\n  tr_form")
    return {m: "\n".join(v) + f"\nend Cg.Trace.{m}\n" for m, v in files.items()}


# ------------------------------------------------------------------------------------------------ folds
def fold_binders(ty, ln):
    ang = is_angle(ty) or ty == "b2"
    names = [f"l{i + 1}" for i in range(ln)]
    L = "K" if ang else f"{lty(ty)} K"
    bt = f"({' '.join(names)} : {L})" if ln else ""
    if ang:
        env = "[" + ", ".join(names) + "]" if ln else "([] : List K)"
    else:
        env = " ++ ".join(f"{n}.toList" for n in names) if ln else "([] : List K)"
    if ty == "b2":
        lst = "[" + ", ".join(f"⟨M2.fromAngle {n}⟩" for n in names) + "]" if ln else "([] : List (Basis2 K))"
    else:
        lst = "[" + ", ".join(names) + "]"
        if not ln:
            lst = f"([] : List ({L}))" if not ang else "([] : List K)"
    return bt, " ".join(names), env, lst


def fold_model(ty, op, lst):
    if ty == "b2":
        return f"({lst}.foldl Basis2.mul Basis2.one).mat.toList"
    ang = is_angle(ty)
    if op.startswith("sum_list"):
        if ang:
            return f"[{lst}.foldl (· + ·) 0]"
        return f"({lst}.foldl (· + ·) {lty(ty)}.zero).toList"
    return f"({lst}.foldl (· * ·) {lty(ty)}.one).toList"


def envp(env):
    return env if env.startswith("[") or env.startswith("(") or " " not in env else f"({env})"


FOLD_HEAD = '''import Cgm.Gen.C17
import Cgm.Model.Rot
/-!
# T obligations for C17: `Sum` / `Product` over iterators of values and of references, and `centroid`, at the list
lengths 0, 1, 2, 4, 5

GENERATED once by `tools/gen_c17_forms.py` from `lib/cgv/tracetab_ops2.py`; kept as an ordinary source file.  (Length 3 is
`Cgm/Trace/C01Auto.lean`, `C03Auto.lean`, `C04Auto.lean`, `C13Auto.lean`, `C17Rest.lean`, `C12.lean`.)

Each kernel `t_<t>_<op>_n<k>` is the real `into_iter().sum()` / `iter().sum()` / `into_iter().product()` / `iter().product()`
(the `_ref` ops are the `Sum<&'a T>` / `Product<&'a T>` impls) run on a list of `k` symbolic operands; the obligation says it
is the LEFT fold of `+` from `zero()` / of `*` from `one()` over the operands, in this order (`List.foldl`, written out by
`simp`); at length 0 that is `zero()` / `one()` itself.  `t_p2_centroid_n<k>`: `Point2::centroid` of `k` points.
-/
set_option linter.unusedSectionVars false
set_option linter.unusedSimpArgs false
set_option linter.unusedVariables false
namespace Cg.Trace.C17OpsF
open Cg Cg.Gen.C17
variable {K : Type} [Field K] [Transc K] [FRem K] [Lits K]

/-- unfold kernel, fold, `zero` / `one` and the operators down to the components; the rest are ring identities -/
local macro "tr_fold" : tactic =>
  `(tactic| (simp [V2.zero, V4.zero, V3.zero, M2.zero, M3.zero, M4.zero, M2.one, M3.one, Quat.zero, Quat.one, Quat.fromSv,
      V2.fromValue, V3.fromValue, V4.fromValue, M2.fromValue, M3.fromValue, M2.new, M3.new, M4.new, P2.centroid, P2.fromVec,
      P2.toVec, Basis2.mul, Basis2.one, M2.fromAngle,
      List.foldl, envL, Tr.okS, V1.toList, V2.toList, V3.toList, V4.toList, P1.toList, P2.toList, P3.toList, M2.toList,
      M3.toList, M4.toList, Quat.toList] <;>
    (repeat' apply And.intro) <;> first | ring1 | (ring_nf; done)))
'''


def gen_folds():
    out = [FOLD_HEAD]
    todo = [(ty, op, ln) for ty, (sz, ops, lens) in FOLD_TYPES.items() for op in ops for ln in lens]
    todo += [(ty, op, 3) for ty, op, _, _, _ in REF_AT_3]
    for ty, op, ln in todo:
        k = f"t_{ty}_{op}_n{ln}"
        bt, _, env, lst = fold_binders(ty, ln)
        out.append(f"theorem {k} {bt + ' ' if bt else ''}:\n    {k} (envL {envp(env)}) = .okS {fold_model(ty, op, lst)} := by\n  tr_fold")
    for ln in CENTROID_LENGTHS:
        k = f"t_p2_centroid_n{ln}"
        bt, _, env, lst = fold_binders("p2", ln)
        out.append(f"theorem {k} {bt} :\n    {k} (envL {envp(env)}) = .okS (P2.centroid {lst}).toList := by\n  tr_fold")
    return "\n".join(out) + "\nend Cg.Trace.C17OpsF\n"


# ------------------------------------------------------------------------------------------------ E2E
def find_byvalue(ty, op):
    """(pid, trace module, kernel) of the by-value kernel of `<ty>.<op>`"""
    name = f"{ty}.{op}"
    for pid in ("C01", "C03", "C04", "C12", "C13"):
        for k, line in TRACE[pid]:
            if line.split()[0] == name:
                for f in sorted(glob.glob(f"{ROOT}/lean/Cgm/Trace/{pid}*.lean")):
                    if re.search(r"^theorem %s\b" % k, open(f).read(), re.M):
                        return pid, os.path.basename(f)[:-5], k
    raise SystemExit(f"no by-value kernel for {name}")


ASG_EQ = {"add": "addAssign_eq", "sub": "subAssign_eq", "add_v": "addAssignV_eq", "sub_v": "subAssignV_eq", "mul": "mulAssignS_eq",
          "div": "divAssignS_eq", "rem": "remAssignS_eq", "mul_s": "mulAssignS_eq", "div_s": "divAssignS_eq", "rem_s": "remAssignS_eq"}
ANGLE_EQ = {"add": "1", "sub": "2.1", "rem": "2.2.1", "mul_s": "2.2.2.1", "div_s": "2.2.2.2"}
SPELL = {"rv": "&a op b", "vr": "a op &b", "rr": "&a op &b", "asg": "a op= b", "r": "-&a"}


def gen_e2e():
    imports = set()
    body = []
    n_thm = 0
    for tys, op, sg, forms in FORM_FAMILIES:
        for ty in tys:
            pid, bmod, bk = find_byvalue(ty, op)
            imports.add(f"Cgm.Trace.{bmod}")
            tmod = TRACE_MODS[ty[0]]
            bt, args, env = binders(ty, sg)
            envt = env if (" " not in env or env.startswith("[")) else f"({env})"
            E = f"(envL {envt})"
            bv = f"Gen.{pid}.{bk} {E}"
            mv = model_list(ty, op, "rv")
            conj, proofs = [], []
            for f in forms:
                k = f"t_{ty}_{op}_{f}"
                conj.append(f"Gen.C17.{k} {E} = {bv}")
                if f != "asg":
                    proofs.append(f"(Trace.{tmod}.{k} {args}).trans hv.symm")
                elif is_angle(ty):
                    proofs.append(f"(Trace.{tmod}.{k} {args}).trans ((congrArg (fun w => Tr.okS [w]) "
                                  f"((Cg.C17.angle_assign_eq (α := K)).{ANGLE_EQ[op]} u v)).trans hv.symm)")
                else:
                    proofs.append(f"(Trace.{tmod}.{k} {args}).trans ((congrArg (fun w => Tr.okS ({lty(ty)}.toList w)) "
                                  f"(Cg.C17.{lty(ty)}.{ASG_EQ[op]} u v)).trans hv.symm)")
            conj.append(f"{bv} = .okS {mv}")
            proofs.append("hv")
            spell = ", ".join(f"`{SPELL[f].replace('op', SYM[op])}`" for f in forms)
            body.append(f"/-- `{ty}.{op}`: the traced forms {spell} return what the by-value kernel (`Gen.{pid}.{bk}`) returns"
                        + (", the compound assignment through the assignment code of `Assign.lean` and its `_eq` theorem" if "asg" in forms else "")
                        + " -/")
            body.append(f"theorem forms_{ty}_{op} {bt} :\n    " + " ∧\n    ".join(conj) + " := by\n"
                        f"  have hv : {bv} = .okS {mv} := Trace.{bmod}.{bk} {args}\n"
                        "  exact ⟨" + ",\n    ".join(proofs) + "⟩")
            n_thm += 1
    # folds: by-reference kernel = by-value kernel at every traced length, both the left fold
    for ty, (sz, ops, lens) in FOLD_TYPES.items():
        for op in ops:
            if op.endswith("_ref"):
                continue
            ref = op + "_ref" if (op + "_ref") in ops else None
            for ln in lens:
                bt, args, env, lst = fold_binders(ty, ln)
                E = f"(envL {envp(env)})"
                kv = f"t_{ty}_{op}_n{ln}"
                m = fold_model(ty, op, lst)
                ap = (" " + args) if args else " (K := K)"
                if ref:
                    kr = f"t_{ty}_{ref}_n{ln}"
                    body.append(f"/-- `{ty}`: `iter().{op[:-5]}()` and `into_iter().{op[:-5]}()` of {ln} operands as computed agree, and are the left fold -/")
                    body.append(f"theorem fold_{ty}_{op}_n{ln} {bt + ' ' if bt else ''}:\n"
                                f"    Gen.C17.{kr} {E} = Gen.C17.{kv} {E} ∧\n    Gen.C17.{kv} {E} = .okS {m} :=\n"
                                f"  ⟨(Trace.C17OpsF.{kr}{ap}).trans (Trace.C17OpsF.{kv}{ap}).symm, Trace.C17OpsF.{kv}{ap}⟩")
                else:
                    body.append(f"/-- `{ty}`: `into_iter().{op[:-5]}()` of {ln} operands as computed is the left fold -/")
                    body.append(f"theorem fold_{ty}_{op}_n{ln} {bt + ' ' if bt else ''}:\n"
                                f"    Gen.C17.{kv} {E} = .okS {m} :=\n  Trace.C17OpsF.{kv}{ap}")
                n_thm += 1
    # the by-reference folds that had no op, at length 3: equal to the by-value kernel of another Gen file
    for ty, op, sz, pid, bk in REF_AT_3:
        bt, args, env, lst = fold_binders(ty, 3)
        E = f"(envL {envp(env)})"
        kr = f"t_{ty}_{op}_n3"
        m = fold_model(ty, op, lst)
        bmod = next(os.path.basename(f)[:-5] for f in sorted(glob.glob(f"{ROOT}/lean/Cgm/Trace/{pid}*.lean"))
                    if re.search(r"^theorem %s\b" % bk, open(f).read(), re.M))
        imports.add(f"Cgm.Trace.{bmod}")
        what = "sum" if op.startswith("sum") else "product"
        body.append(f"/-- `{ty}`: `iter().{what}()` of three operands as computed is what `into_iter().{what}()` (`Gen.{pid}.{bk}`) returns, the left fold -/")
        body.append(f"theorem fold_{ty}_{op}_n3 {bt} :\n    Gen.C17.{kr} {E} = Gen.{pid}.{bk} {E} ∧\n"
                    f"    Gen.C17.{kr} {E} = .okS {m} := by\n"
                    f"  have hv := Trace.{bmod}.{bk} {args}\n  have hr := Trace.C17OpsF.{kr} {args}\n"
                    f"  exact ⟨hr.trans hv.symm, hr⟩")
        n_thm += 1
    head = "import Cgm.E2E.C17\n" + "".join(f"import {i}\n" for i in sorted(imports)) + \
        "".join(f"import Cgm.Trace.{m}\n" for m in list(TRACE_TITLE) + ["C17OpsF"]) + '''import Cgm.Props.C17c
/-!
# C17, end to end (second part): every traced spelling of an operator returns what the by-value spelling returns; `Sum` /
`Product` by reference and by value agree at every traced length

GENERATED once by `tools/gen_c17_forms.py`; kept as an ordinary source file.

* `forms_<t>_<op>`: the kernels traced from the reference-operand impls (`&a op b`, `a op &b`, `&a op &b`, `-&a`) and from the
  compound-assignment impl (`a op= b`) of one operator (`Gen.C17`, obligations `Cgm/Trace/C17Ops*.lean`) return, on the same
  symbolic operands, the very `Tr` the by-value kernel returns (`Gen.C01` / `C03` / `C04` / `C12` / `C13`), and that is the
  model's operator.  For `a op= b` the chain is: kernel = the field-by-field assignment definition (`Cgm/Model/Assign.lean`,
  T obligation) = the by-value operator (`Cg.C17.<T>.<op>Assign_eq`, `Cgm/Props/C17c.lean`) = the by-value kernel.
* `fold_<t>_<op>_n<k>`: at the lengths 0, 1, 2, 4, 5 the by-reference fold kernel equals the by-value one and both are the
  left fold from `zero()` / `one()` (length 3: `Cgm/E2E/C17.lean`).
-/
set_option linter.unusedSectionVars false
set_option linter.unusedVariables false
namespace Cg.E2E.C17
open Cg
variable {K : Type} [Field K] [Transc K] [FRem K] [Lits K]

'''
    return head + "\n".join(body) + "\nend Cg.E2E.C17\n"


def write(rel, text):
    p = f"{ROOT}/{rel}"
    os.makedirs(os.path.dirname(p), exist_ok=True)
    open(p, "w").write(text)
    print("wrote", rel, text.count("\ntheorem "), "theorems")


if __name__ == "__main__":
    what = sys.argv[2:] or ["rust", "driver", "trace", "folds", "e2e", "audit"]
    if "rust" in what:
        write("harness/src/ops/extra2.rs", gen_rust())
    if "driver" in what:
        write("lean/Cgm/Driver/OpsExtra2.lean", gen_driver())
    if "trace" in what:
        for m, t in gen_trace().items():
            write(f"lean/Cgm/Trace/{m}.lean", t)
    if "folds" in what:
        write("lean/Cgm/Trace/C17OpsF.lean", gen_folds())
    if "e2e" in what:
        write("lean/Cgm/E2E/C17b.lean", gen_e2e())
    if "audit" in what:
        for m in list(TRACE_TITLE) + ["C17OpsF"]:
            write(f"lean/Cgm/Audit/T{m}.lean", f"import Cgm.Lemmas.AuditCmd\nimport Cgm.Trace.{m}\n#audit_namespace Cg.Trace.{m}\n")
        write("lean/Cgm/Audit/EC17.lean", "import Cgm.Lemmas.AuditCmd\nimport Cgm.E2E.C17\nimport Cgm.E2E.C17b\n#audit_namespace Cg.E2E.C17\n")
