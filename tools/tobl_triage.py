#!/usr/bin/env python3
"""run layer T for the given properties and print the kernels whose obligation does not check (used once after
gen_tobl.py to drop the generated obligations of branching ops)"""
import sys
sys.path.insert(0, "/verif/lib")
from cgv import trace, core
from cgv.props import REG
from cgv.rng import Rng
for pid in sys.argv[1:]:
    r = trace.run_trace(REG[pid], pid, "quick", Rng(1))
    print(pid, "obligations", r["obligations"], "discharged", r["discharged"])
    for f in r["failed"]:
        print("  FAILED", f[:200])
