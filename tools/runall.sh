#!/bin/sh
# run every check once on the current tree; usage: tools/runall.sh [quick|thorough]
cd "$(dirname "$0")/.." && mkdir -p work
tier=${1:-quick}
for i in 01 02 03 04 05 06 07 08 09 10 11 12 13 14 15 16 17 18 19 20; do
  s=$(date +%s)
  bin/check C$i --tier $tier > work/runall_C$i.log 2>&1
  rc=$?
  e=$(date +%s)
  echo "C$i exit=$rc $((e-s))s $(grep -c VIOLATION work/runall_C$i.log) violation lines, $(grep -c KNOWN-FINDING work/runall_C$i.log) known"
done

# every generated file now exists: check that each path condition of Cgm/Trace/Cover.lean implies the hypotheses of the
# obligation it is copied from
(cd lean && lake build Cgm.Trace.CoverLink Cgm.Trace.CoverLink2 Cgm.Trace.CoverLink3 Cgm.Trace.CoverLink4 > ../work/runall_coverlink.log 2>&1 && echo "CoverLink ok" || echo "CoverLink FAILED (work/runall_coverlink.log)")
echo ALLDONE
