#!/usr/bin/env python3
"""Run the quick checks against many seeded changes in parallel, without touching /repo.

Each worker owns a scratch copy of the framework (/tmp/cgvw/<k>/verif, built files included) and a scratch
git worktree of /repo (/tmp/cgvw/<k>/repo); CGV_VERIF/CGV_REPO point the framework there.  For every seeded
change: apply patch.diff in the worktree, run bin/check <property>, undo, and record the outcome in
/verif/seeded/<name>/meta.json under results["<ID>:<tier>"].

usage: seedpar.py [-j N] [--tier quick] [--keep] <seeded-dir|glob>...
"""
import glob, json, os, shutil, subprocess, sys, threading, queue

ROOT = "/tmp/cgvw"


def sh(cmd, **kw):
    return subprocess.run(cmd, capture_output=True, text=True, **kw)


def setup_worker(k):
    w = f"{ROOT}/{k}"
    if os.path.exists(w):
        sh(["git", "-C", "/repo", "worktree", "remove", "--force", f"{w}/repo"])
        shutil.rmtree(w, ignore_errors=True)
    os.makedirs(w)
    r = sh(["rsync", "-a", "--exclude", ".git", "--exclude", "work", "--exclude", "replays", "--exclude", "seeded",
            "/verif/", f"{w}/verif/"])
    if r.returncode:
        sys.exit(r.stderr)
    sh(["git", "-C", "/repo", "worktree", "prune"])
    r = sh(["git", "-C", "/repo", "worktree", "add", "--detach", f"{w}/repo", "HEAD"])
    if r.returncode:
        sys.exit(r.stderr)
    return w


def teardown_worker(k):
    w = f"{ROOT}/{k}"
    sh(["git", "-C", "/repo", "worktree", "remove", "--force", f"{w}/repo"])
    shutil.rmtree(w, ignore_errors=True)


ALL = [f"C{i:02d}" for i in range(1, 21)]


def run_all(w, d, tier):
    """harmless refactorings: every check must stay silent"""
    out = {}
    repo = f"{w}/repo"
    patch = os.path.join(d, "patch.diff")
    sh(["git", "-C", repo, "checkout", "--", "."])
    r = sh(["git", "-C", repo, "apply", patch])
    if r.returncode:
        return {"apply": {"exit": -1, "violation": [], "error": r.stderr[-300:]}}
    env = dict(os.environ, CGV_VERIF=f"{w}/verif", CGV_REPO=repo)
    try:
        for pid in ALL:
            p = sh([f"{w}/verif/bin/check", pid, "--tier", tier], env=env)
            v = [l for l in p.stdout.split("\n") if l.startswith("VIOLATION")]
            res = {"exit": p.returncode, "violation": [x.replace(f"{w}/verif", "/verif") for x in v[:3]]}
            if v:
                rp = v[0].split("replay=")[1].split()[0]
                if os.path.exists(rp):
                    res["replay"] = json.dumps(json.load(open(rp)))[:700]
            if p.returncode not in (0, 1):
                res["tail"] = (p.stdout[-500:] + p.stderr[-800:])
            out[pid] = res
    finally:
        sh(["git", "-C", repo, "checkout", "--", "."])
        sh(["git", "-C", repo, "clean", "-fdq"])
    return out


def run_one(w, d, tier):
    meta_p = os.path.join(d, "meta.json")
    meta = json.load(open(meta_p)) if os.path.exists(meta_p) else {}
    pid = meta.get("property") or os.path.basename(d)[:3]
    patch = os.path.join(d, "patch.diff")
    repo = f"{w}/repo"
    sh(["git", "-C", repo, "checkout", "--", "."])
    r = sh(["git", "-C", repo, "apply", patch])
    if r.returncode:
        return pid, {"exit": -1, "violation": [], "error": "patch does not apply: " + r.stderr[-300:]}
    env = dict(os.environ, CGV_VERIF=f"{w}/verif", CGV_REPO=repo)
    try:
        p = sh([f"{w}/verif/bin/check", pid, "--tier", tier], env=env)
        v = [l for l in p.stdout.split("\n") if l.startswith("VIOLATION")]
        res = {"exit": p.returncode, "violation": [x.replace(f"{w}/verif", "/verif") for x in v[:3]]}
        try:
            cov = json.load(open(f"{w}/verif/evidence/{pid}.json"))["coverage"]
            nat = cov.get("native") or {}
            res["noticed_by"] = {
                "T_failed_obligations": [f.split(":")[1] for f in (cov.get("trace") or {}).get("failed", [])],
                "D_disagreements": cov.get("disagreements", 0),
                "O_failures": cov.get("oracle_failures", 0),
                "N_failing_checks": [k for k, c in (nat.get("checks") or {}).items() if c.get("fails")],
                "mq_disagreements": nat.get("model_query_disagreements", 0),
                "I_uncovered": len((cov.get("impl_inventory") or {}).get("uncovered", [])),
            }
        except Exception as e:
            res["noticed_by"] = {"error": str(e)}
        if p.returncode not in (0, 1):
            res["tail"] = (p.stdout[-800:] + p.stderr[-1500:])
        for l in v[:1]:
            rp = l.split("replay=")[1].split()[0]
            if os.path.exists(rp):
                res["replay"] = json.dumps(json.load(open(rp)))[:500]
    finally:
        sh(["git", "-C", repo, "checkout", "--", "."])
        sh(["git", "-C", repo, "clean", "-fdq"])
    return pid, res


def main():
    args = sys.argv[1:]
    j, tier, keep = 6, "quick", False
    dirs = []
    i = 0
    while i < len(args):
        if args[i] == "-j":
            j = int(args[i + 1]); i += 2
        elif args[i] == "--tier":
            tier = args[i + 1]; i += 2
        elif args[i] == "--keep":
            keep = True; i += 1
        else:
            dirs += sorted(glob.glob(args[i])) or [args[i]]; i += 1
    dirs = [os.path.abspath(d) for d in dirs if os.path.exists(os.path.join(d, "patch.diff"))]
    j = min(j, len(dirs)) or 1
    q = queue.Queue()
    for d in dirs:
        q.put(d)
    lock = threading.Lock()

    def worker(k):
        w = setup_worker(k)
        while True:
            try:
                d = q.get_nowait()
            except queue.Empty:
                break
            mk = {}
            try:
                mk = json.load(open(os.path.join(d, "meta.json")))
            except Exception:
                pass
            if mk.get("kind") == "harmless":
                allres = run_all(w, d, tier)
                with lock:
                    mk.setdefault("results", {}).update({f"{k_}:{tier}": {x: y for x, y in r.items() if x not in ("tail", "replay")} for k_, r in allres.items()})
                    mk["alarms"] = sorted(k_ for k_, r in allres.items() if r["exit"] != 0)
                    json.dump(mk, open(os.path.join(d, "meta.json"), "w"), indent=1)
                    print(f"{os.path.basename(d)} HARMLESS alarms={mk['alarms']}", flush=True)
                    for k_, r in allres.items():
                        if r["exit"] != 0:
                            print("   ", k_, r.get("violation"), (r.get("replay") or r.get("tail") or "")[:600], flush=True)
                continue
            pid, res = run_one(w, d, tier)
            with lock:
                meta_p = os.path.join(d, "meta.json")
                meta = json.load(open(meta_p)) if os.path.exists(meta_p) else {}
                meta.setdefault("results", {})[f"{pid}:{tier}"] = {k_: v for k_, v in res.items() if k_ not in ("tail", "replay")}
                meta["caught_by"] = sorted({k_.split(":")[0] for k_, r in meta["results"].items() if r["exit"] == 1})
                json.dump(meta, open(meta_p, "w"), indent=1)
                nb = res.get("noticed_by", {})
                noin = any("no-failing" in x for x in res.get("violation", []))
                print(f"{os.path.basename(d)} exit={res['exit']} {'NO-INPUT' if noin else ''} "
                      f"T={nb.get('T_failed_obligations')} D={nb.get('D_disagreements')} O={nb.get('O_failures')} "
                      f"N={nb.get('N_failing_checks')} mq={nb.get('mq_disagreements')} I={nb.get('I_uncovered')}", flush=True)
                if "replay" in res:
                    print("   replay:", res["replay"][:400], flush=True)
                if "tail" in res or "error" in res:
                    print("   !!", res.get("tail") or res.get("error"), flush=True)
        if not keep:
            teardown_worker(k)

    ts = [threading.Thread(target=worker, args=(k,)) for k in range(j)]
    for t in ts:
        t.start()
    for t in ts:
        t.join()


main()
