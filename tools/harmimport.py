#!/usr/bin/env python3
"""confirm a harmless refactoring delivered by a sub-agent (applies, builds with all features, baseline tests pass) and import
it as /verif/seeded/<id>/ (kind = harmless).  usage: harmimport.py H01 [A B]"""
import json, os, re, shutil, subprocess, sys
def sh(cmd, cwd):
    p = subprocess.run(cmd, cwd=cwd, shell=True, capture_output=True, text=True, timeout=3000, env=dict(os.environ, CARGO_NET_OFFLINE="true"))
    return p.returncode, p.stdout + p.stderr
k = sys.argv[1]
wt, od = f"/tmp/seed4_{k}", f"/tmp/seed4_{k}_out"
for X in (sys.argv[2:] or ["A", "B"]):
    patch = f"{od}/{X}.patch.diff"
    if not os.path.exists(patch):
        print(k, X, "no patch"); continue
    sh("git checkout -- . && git clean -fdq -e target", wt)
    touched = re.findall(r"^\+\+\+ b/(\S+)", open(patch).read(), re.M)
    if any(not (t.startswith("src/") or t == "build.rs") for t in touched):
        print(k, X, "REJECT: touches", touched); continue
    rc, out = sh(f"git apply {patch}", wt)
    if rc:
        print(k, X, "REJECT: does not apply"); continue
    rc_b, out_b = sh("cargo build --offline --features swizzle,mint,serde 2>&1", wt)
    rc_t, out_t = sh("cargo test --offline 2>&1", wt)
    passed = sum(int(m) for m in re.findall(r"test result: \w+\. (\d+) passed", out_t))
    failed = sum(int(m) for m in re.findall(r"(\d+) failed", out_t))
    sh("git checkout -- . && git clean -fdq -e target", wt)
    ok = rc_b == 0 and rc_t == 0 and failed == 0 and passed >= 256
    print(k, X, "CONFIRMED" if ok else "NOT-CONFIRMED", f"build={rc_b} tests rc={rc_t} passed={passed} failed={failed}", flush=True)
    if not ok:
        continue
    dst = f"/verif/seeded/{k}-{X}"
    os.makedirs(dst, exist_ok=True)
    shutil.copy(patch, f"{dst}/patch.diff")
    try:
        meta = json.load(open(f"{od}/{X}.meta.json"))
    except Exception:
        meta = {"summary": "(agent meta unreadable)"}
    meta.update({"kind": "harmless", "id": f"{k}-{X}", "round": 4, "origin": "fresh sub-agent asked for a behaviour-preserving refactoring (bit-identical results), given only the area of the code",
                 "confirmed": {"builds_with_features": True, "baseline_tests_passed": passed, "baseline_tests_failed": failed}})
    json.dump(meta, open(f"{dst}/meta.json", "w"), indent=1)
