#!/usr/bin/env python3
"""Confirm a sub-agent's seeded change in its scratch worktree and import it into /verif/seeded/<id>-<X>/.
usage: seedimport.py C02 [A B]"""
import json, os, re, shutil, subprocess, sys

def sh(cmd, cwd, timeout=1800):
    p = subprocess.run(cmd, cwd=cwd, shell=True, capture_output=True, text=True, timeout=timeout,
                       env=dict(os.environ, CARGO_NET_OFFLINE="true"))
    return p.returncode, p.stdout + p.stderr

def tests(cwd):
    rc, out = sh("cargo test --offline 2>&1", cwd)
    passed = sum(int(m) for m in re.findall(r"test result: \w+\. (\d+) passed", out))
    failed = sum(int(m) for m in re.findall(r"(\d+) failed", out))
    return rc, passed, failed, out

def demo(cwd, src):
    is_test = "#[test]" in open(src).read()
    if is_test:
        shutil.copy(src, os.path.join(cwd, "tests", "zz_demo.rs"))
        rc, out = sh("cargo test --offline --features swizzle,mint,serde --test zz_demo 2>&1", cwd)
        os.remove(os.path.join(cwd, "tests", "zz_demo.rs"))
    else:
        os.makedirs(os.path.join(cwd, "examples"), exist_ok=True)
        shutil.copy(src, os.path.join(cwd, "examples", "zz_demo.rs"))
        rc, out = sh("cargo run --offline --features swizzle,mint,serde --example zz_demo 2>&1", cwd)
        os.remove(os.path.join(cwd, "examples", "zz_demo.rs"))
    return rc, out, is_test

def main():
    pid = sys.argv[1]
    rnd = 2 if "--round2" in sys.argv else 3 if "--round3" in sys.argv else 5 if "--round5" in sys.argv else 6 if "--round6" in sys.argv else 7 if "--round7" in sys.argv else 8 if "--round8" in sys.argv else 1
    rest = [a for a in sys.argv[2:] if not a.startswith("--")]
    which = rest or {1: ["A", "B"], 2: ["C", "D"], 3: ["E", "F"], 5: ["G", "H"], 6: ["I", "J"], 7: ["K", "L"], 8: ["M", "N"]}[rnd]
    pre = "seed_" if rnd == 1 else f"seed{rnd}_"
    wt, od = f"/tmp/{pre}{pid}", f"/tmp/{pre}{pid}_out"
    for X in which:
        patch = f"{od}/{X}.patch.diff"
        if not os.path.exists(patch):
            print(pid, X, "no patch"); continue
        sh("git checkout -- . && git clean -fdq -e target", wt)
        touched = re.findall(r"^\+\+\+ b/(\S+)", open(patch).read(), re.M)
        if any(not (t.startswith("src/") or t == "build.rs") for t in touched):
            print(pid, X, "REJECT: touches", touched); continue
        rc, out = sh(f"git apply {patch}", wt)
        if rc != 0:
            print(pid, X, "REJECT: patch does not apply", out[-300:]); continue
        rc_b, out_b = sh("cargo build --offline --features swizzle,mint,serde 2>&1", wt)
        rc_t, passed, failed, out_t = tests(wt)
        rc_d, out_d, is_test = demo(wt, f"{od}/{X}.demo.rs")
        sh("git checkout -- . && git clean -fdq -e target", wt)
        rc_p, out_p, _ = demo(wt, f"{od}/{X}.demo.rs")
        ok = rc_b == 0 and rc_t == 0 and failed == 0 and passed >= 256 and rc_d != 0 and rc_p == 0
        # a demo written as a program that prints rather than fails: accept if outputs differ
        if rc_b == 0 and rc_t == 0 and failed == 0 and passed >= 256 and rc_d == 0 and rc_p == 0 and not is_test:
            strip = lambda s: "\n".join(l for l in s.split("\n") if not re.match(r"\s*(Compiling|Finished|Running|warning)", l))
            ok = strip(out_d) != strip(out_p)
        print(pid, X, "CONFIRMED" if ok else "NOT-CONFIRMED", f"build={rc_b} tests rc={rc_t} passed={passed} failed={failed} "
              f"demo_on_changed={rc_d} demo_on_pristine={rc_p}", flush=True)
        if not ok:
            print(out_d[-800:]); print(out_p[-400:]); continue
        dst = f"/verif/seeded/{pid}-{X}"
        os.makedirs(dst, exist_ok=True)
        shutil.copy(patch, f"{dst}/patch.diff")
        shutil.copy(f"{od}/{X}.demo.rs", f"{dst}/demo.rs")
        with open(f"{dst}/demo.out.txt", "w") as f:
            f.write("== on the changed tree (exit %d) ==\n%s\n== on the pristine tree (exit %d) ==\n%s\n" % (rc_d, out_d[-6000:], rc_p, out_p[-2000:]))
        try:
            meta = json.load(open(f"{od}/{X}.meta.json"))
        except Exception as e:
            meta = {"property": pid, "change": X, "summary": "(agent meta unreadable)"}
        meta.update({"origin": "fresh sub-agent given only the property text and a scratch worktree",
                     "confirmed": {"builds_with_features": True, "baseline_tests_passed": passed, "baseline_tests_failed": failed,
                                   "demo_fails_on_changed_tree": True, "demo_passes_on_pristine_tree": True}})
        json.dump(meta, open(f"{dst}/meta.json", "w"), indent=1)

main()
