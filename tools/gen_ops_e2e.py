#!/usr/bin/env python3
"""End-to-end files of the C18 / C16 operations of lib/cgv/tracetab_ops.py (called by tools/gen_ops_obl.py):
lean/Cgm/E2E/C18b.lean, lean/Cgm/E2E/C16b.lean."""
import os
from gen_ops_obl import (TYPES, REL, CAM, comps, lty, is_angle, tol, pairs, model, env, binder, scalar_rel, flat, lst, write)

PW = ("List.pairwise_cons, List.mem_cons, List.not_mem_nil, or_false, forall_eq_or_imp, forall_eq, exists_eq_or_imp,\n"
      "    exists_eq_left, List.Pairwise.nil, and_true, IsEmpty.forall_iff, implies_true, false_imp_iff, exists_false")

HEAD18 = '''import Cgm.E2E.C18
import Cgm.Trace.C18Ops
import Cgm.Trace.C18OpsM
import Cgm.Trace.C18OpsD
import Cgm.Props.C18c
import Cgm.Lemmas.GuardSem
/-!
# C18, end to end: the three approximate-equality relations of the compound types, as computed

GENERATED once by `tools/gen_ops_obl.py` (`tools/gen_ops_e2e.py`) from the kernel table `lib/cgv/tracetab_ops.py`; kept as an
ordinary source file.

For every type `t` in `v1..v4, p1..p3, m2..m4, q, rad, deg` and every relation (`abs_diff_eq`, `relative_eq`, `ulps_eq`,
tolerances passed explicitly) the kernels `Cg.Gen.C18.t_<t>_<rel>_true / _false_k` are ALL the paths of the `&&` chain.  Per
type and relation:

* `<t>_<rel>_*_consistent`: the `true` path is the one taken (`Tr.Consistent`, `Cgm/Lemmas/GuardSem.lean`) iff the SCALAR
  relation, with the tolerance arguments the call was given, holds on every pair of corresponding components; the
  `false_k` path iff it holds on the pairs before `k` and fails on pair `k`;
* `<t>_<rel>_exactly_one`: for every input exactly one path is the one taken;
* `code_<t>_<rel>`: the path taken returns normally one boolean, the model's relation (`Book4.lean`), and that boolean is
  `true` iff the scalar relation with the same tolerance arguments holds on every component pair (`Props/C18c.lean`).

`max_ulps` is a literal of the traced kernels (`4`).  Default-tolerance macro forms (`abs_diff_eq!(a, b)`, …): `code_<t>_<rel>_d`
-- when the recording scalar's defaults (`2^-52`, `2^-52`, `4`) are the scalar type's (`DefaultTols`), the `true` / `false_0`
path taken returns the model's `XD` form; for the matrices the comparisons are made with `Lits.matEps` (`1e-6`), for every
other type with the scalar's `default_epsilon`.
-/
set_option linter.unusedSectionVars false
set_option linter.unusedVariables false
set_option linter.unusedSimpArgs false
set_option linter.unnecessarySeqFocus false
namespace Cg.E2E.C18
open Cg Cg.Gen.C18 Cg.Trace.C18Rest

section ops
variable {K : Type} [Field K] [LinearOrder K] [Approx K] [Transc K] [FRem K] [Lits K]

'''

def camel(ty, rel):
    return ty + CAM[rel]

def toLists(ty):
    if is_angle(ty):
        return []
    L = lty(ty)
    out = [f"{L}.toList"]
    if ty[0] == "m":
        out.append(f"V{ty[1]}.toList")
    if ty == "q":
        out.append("V3.toList")
    return out

def iff_thm(ty, rel):
    suf = REL[rel][0]
    if is_angle(ty):
        return f"Cg.C18.angle{suf[0].upper() + suf[1:]}_iff"
    if ty[0] == "m":
        return f"Cg.C18.{lty(ty)}.{suf}_iff_elems"
    return f"Cg.C18.{lty(ty)}.{suf}_iff"

def conj(xs):
    return " ∧ ".join(xs)

def approx_block(ty, rel):
    bt, t, tail = tol(rel, ty, False)
    ps = pairs(ty)
    n = len(ps)
    rs = [scalar_rel(rel, x, y, t) for x, y in ps]
    e = f"(envL ({env(ty, tail)}))"
    args = f"{binder(ty)} {bt}"
    av = "a b " + ("e m" if rel == "relative_eq" else "e")
    base = f"{ty}_{rel}"
    kn = lambda k: f"t_{ty}_{rel}_" + ("true" if k is None else f"false_{k}")
    tl = ", ".join(["Tr.Consistent", "envL"] + toLists(ty))
    tmod = {"v": "C18Ops", "p": "C18Ops", "q": "C18Ops", "r": "C18Ops", "d": "C18Ops", "m": "C18OpsM"}[ty[0]]
    s = f"/-! ### `{ty}.{rel}` -/\n"
    conds = {}
    for k in [None] + list(range(n)):
        if k is None:
            c = [f"{r} = true" for r in rs]
        else:
            c = [f"{r} = true" for r in rs[:k]] + [f"{rs[k]} = false"]
        conds[k] = c
        nm = f"{base}_" + ("true" if k is None else f"false_{k}") + "_consistent"
        doc = ("this path is the one taken iff every component pair is within tolerance" if k is None else
               f"this path is the one taken iff component pair `{k}` is the first that is not within tolerance")
        s += f"/-- {doc} -/\ntheorem {nm} {args} :\n    ({kn(k)} {e}).Consistent ↔ {conj(c)} := by\n  simp [{tl}]\n"
    pname = camel(ty, rel)
    s += f"/-- the traced paths of `{ty}.{rel}` on the input -/\ndef {pname} {args} : List (Tr K) :=\n    [" + \
         ", ".join(f"{kn(k)} {e}" for k in [None] + list(range(n))) + "]\n"
    s += f"/-- for every input exactly one of the paths is the one taken -/\ntheorem {base}_exactly_one {args} : Tr.ExactlyOne ({pname} {av}) := by\n"
    s += f"  unfold Tr.ExactlyOne {pname}\n  simp only [{PW},\n    " + \
         ", ".join(f"{base}_" + ("true" if k is None else f"false_{k}") + "_consistent" for k in [None] + list(range(n))) + "]\n"
    for i, r in enumerate(rs):
        s += f"  generalize {r} = r{i}\n"
    for i in range(n):
        s += f"  cases r{i}\n  · simp\n"
    s += "  simp\n"
    m = model(ty, rel, t)
    s += (f"/-- **`{ty}.{rel}` as computed**: exactly one traced path is taken; the path taken returns normally one boolean, the model's\n"
          f"relation; and that is `true` iff the scalar relation WITH THE SAME TOLERANCE ARGUMENTS holds on every component pair -/\n")
    s += f"theorem code_{base} {args} :\n    Tr.ExactlyOne ({pname} {av}) ∧\n"
    s += f"    (∀ t ∈ {pname} {av}, t.Consistent → t.res = .ok ∧ t.out = [] ∧ t.bools = [{m}]) ∧\n"
    s += f"    ({m} = true ↔ {conj(conds[None])}) := by\n"
    s += f"  refine ⟨{base}_exactly_one {av}, ?_, {iff_thm(ty, rel)} {'a b ' + t}⟩\n"
    s += f"  intro t ht\n  simp only [{pname}, List.mem_cons, List.not_mem_nil, or_false] at ht\n"
    s += "  rcases ht with " + " | ".join(["rfl"] * (n + 1)) + "\n"
    for k in [None] + list(range(n)):
        cnt = n if k is None else k + 1
        hs = ", ".join(f"h{i}" for i in range(cnt))
        cn = f"{base}_" + ("true" if k is None else f"false_{k}") + "_consistent"
        pat = f"⟨{hs}⟩" if cnt > 1 else "h0"
        s += f"  · intro hc\n    have {pat} := ({cn} {av}).1 hc\n"
        s += f"    rw [(Trace.{tmod}.{kn(k)} {av} {' '.join('h%d' % i for i in range(cnt))}).1]; exact ⟨rfl, rfl, rfl⟩\n"
    return s + "\n"

def default_block(ty, rel):
    _, t, _ = tol(rel, ty, True)
    ps = pairs(ty)
    e = f"(envL ({env(ty, None)}))"
    suf = REL[rel][0]
    md = (f"angle{suf[0].upper() + suf[1:]}D a b" if is_angle(ty) else f"{lty(ty)}.{suf}D a b")
    base = f"{ty}_{rel}_d"
    r_all = [scalar_rel(rel, x, y, t) for x, y in ps]
    unf = (f"angle{suf[0].upper() + suf[1:]}D" if is_angle(ty) else f"{lty(ty)}.{suf}D")
    tl = ", ".join(["Tr.Consistent", "envL", "eps52"] + toLists(ty))
    s = f"/-! ### `{ty}.{rel}_d` -/\n"
    s += (f"/-- **`{rel}!(a, b)` on `{ty}` as computed**: the `true` path is the one taken iff every component pair is within the "
          f"{'MATRIX default epsilon `Lits.matEps`' if ty[0] == 'm' else 'scalar defaults'}"
          f"; the path taken (`true`, or `false_0`: the first pair already fails) returns the model's default-tolerance form -/\n")
    s += f"theorem code_{base} (hd : DefaultTols K) {binder(ty)} :\n"
    s += f"    ((t_{ty}_{rel}_d_true {e}).Consistent ↔ {conj([r + ' = true' for r in r_all])}) ∧\n"
    s += f"    ((t_{ty}_{rel}_d_true {e}).Consistent → (t_{ty}_{rel}_d_true {e}).bools = [{md}] ∧ {md} = true) ∧\n"
    s += f"    ((t_{ty}_{rel}_d_false_0 {e}).Consistent → (t_{ty}_{rel}_d_false_0 {e}).bools = [{md}] ∧ {md} = false) := by\n"
    s += f"  have hm : {md} = {model(ty, rel, t)} := by\n    unfold {unf}; simp only [hd.1, hd.2.1, hd.2.2]\n"
    s += f"  have c1 : (t_{ty}_{rel}_d_true {e}).Consistent ↔ {conj([r + ' = true' for r in r_all])} := by\n    simp [{tl}]\n"
    s += f"  have c0 : (t_{ty}_{rel}_d_false_0 {e}).Consistent ↔ {r_all[0]} = false := by\n    simp [{tl}]\n"
    n = len(ps)
    hs = ", ".join(f"h{i}" for i in range(n))
    pat = f"⟨{hs}⟩" if n > 1 else "h0"
    s += f"  refine ⟨c1, fun hc => ?_, fun hc => ?_⟩\n"
    s += f"  · have {pat} := c1.1 hc\n    have h := Trace.C18OpsD.t_{ty}_{rel}_d_true a b {' '.join('h%d' % i for i in range(n))}\n"
    s += f"    rw [hm, h.1]; exact ⟨rfl, h.2⟩\n"
    s += f"  · have h0 := c0.1 hc\n    have h := Trace.C18OpsD.t_{ty}_{rel}_d_false_0 a b h0\n"
    s += f"    rw [hm, h.1]; exact ⟨rfl, h.2⟩\n\n"
    return s

def gen_c18(root):
    s = HEAD18
    s += "/-! ## explicit tolerances -/\n"
    for ty in TYPES:
        for rel in REL:
            s += approx_block(ty, rel)
    s += ("/-! ## default-tolerance macro forms -/\n"
          "/-- the recording scalar's default tolerances are the scalar type's: `default_epsilon = default_max_relative = 2^-52`,\n"
          "`default_max_ulps = 4` -/\n"
          "def DefaultTols (K : Type) [Field K] [Approx K] : Prop :=\n"
          "  (Approx.eps : K) = eps52 ∧ (Approx.maxRel : K) = eps52 ∧ Approx.maxUlps K = 4\n\n")
    for ty in TYPES:
        for rel in REL:
            s += default_block(ty, rel)
    s += "end ops\nend Cg.E2E.C18\n"
    write(f"{root}/lean/Cgm/E2E/C18b.lean", s)
    write(f"{root}/lean/Cgm/Audit/EC18.lean",
          "import Cgm.Lemmas.AuditCmd\nimport Cgm.E2E.C18\nimport Cgm.E2E.C18b\n#audit_namespace Cg.E2E.C18\n")

# ------------------------------------------------------------------------------------------------ C16
HEAD16 = '''import Cgm.E2E.C16
import Cgm.Trace.C16Ops
import Cgm.Trace.C16Rest
import Cgm.Lemmas.GuardSem
/-!
# C16, end to end: `IndexMut` stores are read back by `Index` at that position and only there; the quaternion's index order;
`swap_elements`

GENERATED once by `tools/gen_ops_obl.py` (`tools/gen_ops_e2e.py`) from the kernel table `lib/cgv/tracetab_ops.py`; kept as an
ordinary source file.

* `<t>_set_i_index_j` (vectors, points, the quaternion; every in-range `i`, `j`): the list the `IndexMut` kernel `t_<t>_set_i`
  produced is the flattening of a value `w` (pinned: `toList` is injective) on which the `Index` kernel `t_<t>_index_j` returns the
  stored scalar when `j = i` and the ORIGINAL component `j` otherwise;
* `<t>_set_i_list` (all types, also `m<n>.set c r`): the produced list is the input's flattening with exactly one position
  replaced (`List.set`); for the quaternion array slot `i` is flattening position `(i + 1) % 4` (`s` is slot 3 but is flattened first);
* `q_index_order`: `q[0], q[1], q[2], q[3]` are `v.x, v.y, v.z, s` -- the model's `toArray`;
* `<t>_swap_i_j_*`: the swapped value read back by `Index`: position `i` holds the old component `j` and vice versa, and swapping
  twice gives the input back;
* out of range every one of these kernels is the bare panic (`*_oob_panics`).
-/
set_option linter.unusedSectionVars false
set_option linter.unusedVariables false
set_option linter.unusedSimpArgs false
set_option linter.unnecessarySeqFocus false
namespace Cg.E2E.C16
open Cg Cg.Gen.C16

section ops
variable {K : Type} [Field K] [Transc K] [FRem K] [Lits K]

'''

def ctor(ty, f):
    """anonymous-constructor term of the structure with the flat components f"""
    if ty == "q":
        return f"(⟨⟨{f[1]}, {f[2]}, {f[3]}⟩, {f[0]}⟩ : Quat K)"
    return f"(⟨{', '.join(f)}⟩ : {lty(ty)} K)"

SIMP16 = "envL, Tr.okS, Tr.panicG, V1.toList, V2.toList, V3.toList, V4.toList, P1.toList, P2.toList, P3.toList, Quat.toList, M2.toList, M3.toList, M4.toList"

def gen_c16(root):
    s = HEAD16
    s += "/-! ## the quaternion's index order -/\n"
    s += ("/-- `Index<usize>` of a quaternion as computed: slots `0, 1, 2, 3` are `v.x, v.y, v.z, s` (the flattening is `s x y z`), i.e. the\n"
          "model's array view `Quat.toArray`; slot `4` panics -/\n"
          "theorem q_index_order (q : Quat K) :\n"
          "    t_q_index_0 (envL q.toList) = .okS [q.v.x] ∧ t_q_index_1 (envL q.toList) = .okS [q.v.y] ∧\n"
          "    t_q_index_2 (envL q.toList) = .okS [q.v.z] ∧ t_q_index_3 (envL q.toList) = .okS [q.s] ∧\n"
          "    t_q_index_4_oob (envL q.toList) = .panicG [] ∧\n"
          "    q.toArray = [q.v.x, q.v.y, q.v.z, q.s] := by\n"
          f"  refine ⟨?_, ?_, ?_, ?_, ?_, rfl⟩ <;> simp [{SIMP16}]\n\n")
    for ty in ("q", "v1", "v2", "v3", "v4", "p1", "p2", "p3"):
        n = 4 if ty == "q" else int(ty[1])
        var = "q" if ty == "q" else "u"
        L = lty(ty)
        s += f"/-! ## `{ty}`: store, then read -/\n"
        # array slot -> flat position
        pos = (lambda i: (i + 1) % 4) if ty == "q" else (lambda i: i)
        for i in range(n):
            f = flat(ty, var); f[pos(i)] = "a"
            w = ctor(ty, f)
            s += (f"/-- the store `{ty}[{i}] = a` as computed replaces exactly flattening position `{pos(i)}` -/\n"
                  f"theorem {ty}_set_{i}_list ({var} : {L} K) (a : K) :\n"
                  f"    t_{ty}_set_{i} (envL ({var}.toList ++ [a])) = .okS ({var}.toList.set {pos(i)} a) := by\n  simp [{SIMP16}]\n")
            for j in range(n):
                orig = flat(ty, var)[pos(j)]
                val = "a" if i == j else orig
                s += (f"theorem {ty}_set_{i}_index_{j} ({var} : {L} K) (a : K) :\n"
                      f"    ∃ w : {L} K, t_{ty}_set_{i} (envL ({var}.toList ++ [a])) = .okS w.toList ∧\n"
                      f"      t_{ty}_index_{j} (envL w.toList) = .okS [{val}] := by\n"
                      f"  refine ⟨{w}, ?_, ?_⟩ <;> simp [{SIMP16}]\n")
        s += (f"theorem {ty}_set_oob_panics ({var} : {L} K) (a : K) :\n"
              f"    t_{ty}_set_{n}_oob (envL ({var}.toList ++ [a])) = .panicG [] := by\n  simp [{SIMP16}]\n\n")
        if ty == "q":
            continue
        s += f"/-! ## `{ty}`: `swap_elements`, then read; twice -/\n"
        for i in range(n):
            for j in range(n):
                f = flat(ty, var); f[i], f[j] = f[j], f[i]
                w = ctor(ty, f)
                o = flat(ty, var)
                s += (f"theorem {ty}_swap_{i}_{j}_read ({var} : {L} K) :\n"
                      f"    ∃ w : {L} K, t_{ty}_swap_elements_{i}_{j} (envL {var}.toList) = .okS w.toList ∧\n"
                      f"      t_{ty}_index_{i} (envL w.toList) = .okS [{o[j]}] ∧ t_{ty}_index_{j} (envL w.toList) = .okS [{o[i]}] ∧\n"
                      f"      t_{ty}_swap_elements_{i}_{j} (envL w.toList) = .okS {var}.toList := by\n"
                      f"  refine ⟨{w}, ?_, ?_, ?_, ?_⟩ <;> simp [{SIMP16}]\n")
        s += (f"theorem {ty}_swap_oob_panics ({var} : {L} K) :\n"
              f"    t_{ty}_swap_elements_{n}_0_oob (envL {var}.toList) = .panicG [] ∧\n"
              f"    t_{ty}_swap_elements_0_{n}_oob (envL {var}.toList) = .panicG [] := by\n  constructor <;> simp [{SIMP16}]\n\n")
    for n in (2, 3, 4):
        ty = f"m{n}"; L = lty(ty)
        s += f"/-! ## `{ty}`: `m[c][r] = a` replaces exactly the element of column `c`, row `r` (flattening position `c * {n} + r`) -/\n"
        for c in range(n):
            for r in range(n):
                s += (f"theorem {ty}_set_{c}_{r}_list (m : {L} K) (a : K) :\n"
                      f"    t_{ty}_set_{c}_{r} (envL (m.toList ++ [a])) = .okS (m.toList.set {c * n + r} a) := by\n  simp [{SIMP16}]\n")
        s += (f"theorem {ty}_set_oob_panics (m : {L} K) (a : K) :\n"
              f"    t_{ty}_set_{n}_0_oob (envL (m.toList ++ [a])) = .panicG [] ∧\n"
              f"    t_{ty}_set_0_{n}_oob (envL (m.toList ++ [a])) = .panicG [] := by\n  constructor <;> simp [{SIMP16}]\n\n")
    s += "end ops\nend Cg.E2E.C16\n"
    write(f"{root}/lean/Cgm/E2E/C16b.lean", s)
    write(f"{root}/lean/Cgm/Audit/EC16.lean",
          "import Cgm.Lemmas.AuditCmd\nimport Cgm.E2E.C16\nimport Cgm.E2E.C16b\n#audit_namespace Cg.E2E.C16\n")

def main(root):
    gen_c18(root)
    gen_c16(root)
