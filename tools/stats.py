#!/usr/bin/env python3
"""print the per-property table of DESIGN 0.2 from the evidence files of the last run"""
import json, glob, os, re
print("| property | property theorems | T obligations (hand + generated) | end-to-end theorems | D evaluations | O clause evaluations | N evaluations (+ model queries) |")
print("|---|---|---|---|---|---|---|")
tot = [0] * 6
for i in range(1, 21):
    pid = f"C{i:02d}"
    ev = json.load(open(f"/verif/evidence/{pid}.json"))["coverage"]
    nth = len(ev.get("theorems", []))
    tr = ev.get("trace") or {}
    nat = ev.get("native") or {}
    row = [nth, tr.get("obligations", 0), tr.get("end_to_end_theorems", 0), ev.get("evaluations", 0) - ev.get("oracle_clause_evaluations", 0) - nat.get("evaluations", 0) - nat.get("model_queries", 0),
           ev.get("oracle_clause_evaluations", 0), nat.get("evaluations", 0)]
    for k in range(6):
        tot[k] += row[k]
    print(f"| {pid} | {row[0]} | {row[1]} | {row[2]} | {row[3]} | {row[4]} | {row[5]}" + (f" (+{nat.get('model_queries')})" if nat.get("model_queries") else "") + " |")
print(f"| **total** | {tot[0]} | {tot[1]} | {tot[2]} | {tot[3]} | {tot[4]} | {tot[5]} |")
