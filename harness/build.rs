//! Generates one call site per swizzle accessor: every word of length 1..=upto over the type's
//! component letters (enumerated here independently of cgmath's own build script).  If an
//! accessor is missing from cgmath the harness does not compile; what each one returns is
//! checked at run time by `native c16`.
use std::io::Write;

fn words(letters: &str, upto: usize) -> Vec<String> {
    let mut out = vec![];
    let mut cur: Vec<String> = vec![String::new()];
    for _ in 0..upto {
        let mut next = vec![];
        for w in &cur {
            for c in letters.chars() {
                next.push(format!("{}{}", w, c));
            }
        }
        out.extend(next.iter().cloned());
        cur = next;
    }
    out
}

fn main() {
    let out_dir = std::env::var("OUT_DIR").unwrap();
    let mut f = std::fs::File::create(std::path::Path::new(&out_dir).join("swz_calls.rs")).unwrap();
    let cfgs = [("Vector1", "x", 4), ("Vector2", "xy", 4), ("Vector3", "xyz", 4), ("Vector4", "xyzw", 4),
                ("Point1", "x", 3), ("Point2", "xy", 3), ("Point3", "xyz", 3)];
    for (ty, letters, upto) in cfgs.iter() {
        writeln!(f, "pub fn swz_{}(v: &cgmath::{}<i32>) -> Vec<(&'static str, Vec<i32>)> {{ vec![", ty.to_lowercase(), ty).unwrap();
        for w in words(letters, *upto) {
            writeln!(f, "    (\"{}\", Ls::ls(&v.{}())),", w, w).unwrap();
        }
        writeln!(f, "] }}").unwrap();
    }
    println!("cargo:rerun-if-changed=build.rs");
}
