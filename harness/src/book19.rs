//! C19: `cast` of compound values over every pair of the twelve primitive scalar types.
//!
//! For each (source S, target T), each compound type and each component position the real
//! `cast::<T>()` is compared with the per-component `NumCast::from` results (oracle), and a
//! model query line is printed: the Lean model combines the same per-component results through
//! *its* traversal and must give the same answer.
//!   mq n.cast <kind> <per-component tokens> => <implementation's answer>

use crate::native::Tally;
use cgmath::num_traits::NumCast;
use cgmath::*;
use std::fmt::Write;

pub trait Prim: Copy + NumCast + 'static {
    const NAME: &'static str;
    fn samples() -> Vec<Self>;
    fn tok(self) -> String;
}
#[allow(overflowing_literals)]
fn _lit() {}
macro_rules! prim_int {
    ($($t:ident),*) => {$(
        impl Prim for $t {
            const NAME: &'static str = stringify!($t);
            #[allow(overflowing_literals)]
            fn samples() -> Vec<Self> {
                let mut v: Vec<$t> = vec![0, 1, 2, 3, 7, 100, 127, $t::MAX, $t::MAX - 1, $t::MIN, $t::MAX / 2 + 1];
                if ($t::MIN as i128) < 0 {
                    v.extend([(0 as $t).wrapping_sub(1), (0 as $t).wrapping_sub(2), (0 as $t).wrapping_sub(128), $t::MIN + 1]);
                }
                if ($t::MAX as i128) > 300 {
                    v.extend([128i128 as $t, 255i128 as $t, 256i128 as $t]);
                }
                if ($t::MAX as i128) > 70000 {
                    v.extend([32767i128 as $t, 32768i128 as $t, 65535i128 as $t, 65536i128 as $t]);
                }
                if ($t::MAX as i128) > 5_000_000_000 {
                    v.extend([2147483647i128 as $t, 2147483648i128 as $t, 4294967295i128 as $t, 4294967296i128 as $t]);
                    // 64-bit values that are not representable in f64 and sit just past an f32 rounding midpoint:
                    // a conversion that goes through f64 first rounds them differently from the direct one
                    v.extend([((1i128 << 60) + (1 << 36) + 1) as $t, ((1i128 << 53) + 1) as $t, ((1i128 << 54) + 3) as $t,
                              ((1i128 << 62) + (1 << 38) + 1) as $t, ((1i128 << 61) + (1 << 37) + 1) as $t,
                              ((1i128 << 57) - 1) as $t, ((1i128 << 62) - 1) as $t]);
                    if ($t::MIN as i128) < 0 {
                        v.extend([(-((1i128 << 60) + (1 << 36) + 1)) as $t, (-((1i128 << 53) + 1)) as $t,
                                  (-((1i128 << 62) + (1 << 38) + 1)) as $t]);
                    } else {
                        v.extend([((1i128 << 63) + (1 << 39) + 1) as $t, ((1i128 << 63) + (1 << 10) + 1) as $t]);
                    }
                }
                v
            }
            fn tok(self) -> String { format!("{}", self) }
        }
    )*};
}
prim_int!(u8, u16, u32, u64, usize, i8, i16, i32, i64, isize);
macro_rules! prim_float {
    ($($t:ident),*) => {$(
        impl Prim for $t {
            const NAME: &'static str = stringify!($t);
            fn samples() -> Vec<Self> {
                vec![0.0, -0.0, 1.0, -1.0, 0.5, -0.5, -0.999, -1.0e-30, -$t::MIN_POSITIVE, 2.5, -2.5, 127.0, 127.9, 128.0, -128.0, -128.9, -129.0, 255.0, 255.5, 256.0,
                     32767.0, 32768.0, -32768.0, -32769.0, 65535.0, 65536.0, 2147483647.0, 2147483648.0, -2147483648.0,
                     -2147483904.0, 4294967295.0, 4294967296.0, 9.2e18, 9.3e18, -9.3e18, 1.8e19, 1.9e19,
                     $t::MAX, $t::MIN, $t::MIN_POSITIVE, $t::EPSILON, $t::NAN, $t::INFINITY, $t::NEG_INFINITY, 3.0e38, 1.0e39f64 as $t]
            }
            fn tok(self) -> String { format!("b{:x}", self.to_bits()) }
        }
    )*};
}
prim_float!(f32, f64);

fn tok_opt<T: Prim>(o: Option<T>) -> String {
    match o {
        Some(t) => t.tok(),
        None => "N".into(),
    }
}

pub struct Ctx {
    pub agree: Tally,
    pub none_cases: u64,
    pub some_cases: u64,
    pub mq: String,
    pub mq_budget: usize,
}

/// component lists for a compound of `k` components: all-ok rotations, one failing value at each
/// position, all failing
fn component_cases<S: Prim, T: Prim>(k: usize) -> Vec<Vec<S>> {
    let samples = S::samples();
    let ok: Vec<S> = samples.iter().copied().filter(|s| <T as NumCast>::from(*s).is_some()).collect();
    let bad: Vec<S> = samples.iter().copied().filter(|s| <T as NumCast>::from(*s).is_none()).collect();
    let mut out = vec![];
    if !ok.is_empty() {
        // every castable sample appears at every component position
        for r in 0..ok.len() {
            out.push((0..k).map(|i| ok[(r + i * 3 + i) % ok.len()]).collect());
        }
    }
    if !bad.is_empty() {
        for (bi, b) in bad.iter().enumerate().take(4) {
            for p in 0..k {
                let mut v: Vec<S> = (0..k).map(|i| if ok.is_empty() { *b } else { ok[(i + bi + 1) % ok.len()] }).collect();
                v[p] = *b;
                out.push(v);
            }
        }
        out.push((0..k).map(|i| bad[i % bad.len()]).collect());
    }
    out
}

fn record(ctx: &mut Ctx, kind: &str, s_name: &str, t_name: &str, comps: Vec<String>, got: Option<Vec<String>>) {
    // oracle: None iff some component cast failed; otherwise component-wise the scalar casts, same positions
    let want: Option<Vec<String>> = if comps.iter().all(|c| c != "N") { Some(comps.clone()) } else { None };
    let same = want == got;
    if got.is_none() { ctx.none_cases += 1 } else { ctx.some_cases += 1 }
    ctx.agree.rec(same, || format!("{}<{}>.cast::<{}>() components={:?} got={:?}", kind, s_name, t_name, comps, got));
    if ctx.mq_budget > 0 {
        ctx.mq_budget -= 1;
        let ans = match &got {
            None => "none".to_string(),
            Some(g) => format!("ok {}", g.join(" ")),
        };
        let _ = writeln!(ctx.mq, "mq n.cast {} {} => {}", kind, comps.join(" "), ans);
    }
}

fn toks<T: Prim>(v: Vec<T>) -> Vec<String> {
    v.into_iter().map(|t| t.tok()).collect()
}
// one small monomorphic function per (compound type, S, T): only the cast call itself
fn c_v1<S: Prim, T: Prim>(c: &[S]) -> Option<Vec<String>> { Vector1::new(c[0]).cast::<T>().map(|w| toks(vec![w.x])) }
fn c_v2<S: Prim, T: Prim>(c: &[S]) -> Option<Vec<String>> { Vector2::new(c[0], c[1]).cast::<T>().map(|w| toks(vec![w.x, w.y])) }
fn c_v3<S: Prim, T: Prim>(c: &[S]) -> Option<Vec<String>> { Vector3::new(c[0], c[1], c[2]).cast::<T>().map(|w| toks(vec![w.x, w.y, w.z])) }
fn c_v4<S: Prim, T: Prim>(c: &[S]) -> Option<Vec<String>> { Vector4::new(c[0], c[1], c[2], c[3]).cast::<T>().map(|w| toks(vec![w.x, w.y, w.z, w.w])) }
fn c_p1<S: Prim, T: Prim>(c: &[S]) -> Option<Vec<String>> { Point1::new(c[0]).cast::<T>().map(|w| toks(vec![w.x])) }
fn c_p2<S: Prim, T: Prim>(c: &[S]) -> Option<Vec<String>> { Point2::new(c[0], c[1]).cast::<T>().map(|w| toks(vec![w.x, w.y])) }
fn c_p3<S: Prim, T: Prim>(c: &[S]) -> Option<Vec<String>> { Point3::new(c[0], c[1], c[2]).cast::<T>().map(|w| toks(vec![w.x, w.y, w.z])) }
fn c_m2<S: Prim, T: Prim>(c: &[S]) -> Option<Vec<String>> {
    Matrix2::new(c[0], c[1], c[2], c[3]).cast::<T>().map(|w| toks(vec![w.x.x, w.x.y, w.y.x, w.y.y]))
}
fn c_m3<S: Prim, T: Prim>(c: &[S]) -> Option<Vec<String>> {
    Matrix3::new(c[0], c[1], c[2], c[3], c[4], c[5], c[6], c[7], c[8]).cast::<T>()
        .map(|w| toks(vec![w.x.x, w.x.y, w.x.z, w.y.x, w.y.y, w.y.z, w.z.x, w.z.y, w.z.z]))
}
fn c_m4<S: Prim, T: Prim>(c: &[S]) -> Option<Vec<String>> {
    Matrix4::new(c[0], c[1], c[2], c[3], c[4], c[5], c[6], c[7], c[8], c[9], c[10], c[11], c[12], c[13], c[14], c[15]).cast::<T>()
        .map(|w| toks(vec![w.x.x, w.x.y, w.x.z, w.x.w, w.y.x, w.y.y, w.y.z, w.y.w, w.z.x, w.z.y, w.z.z, w.z.w, w.w.x, w.w.y, w.w.z, w.w.w]))
}

fn run_kind<S: Prim, T: Prim>(ctx: &mut Ctx, kind: &str, k: usize, f: fn(&[S]) -> Option<Vec<String>>) {
    for c in component_cases::<S, T>(k) {
        let comps: Vec<String> = c.iter().map(|s| tok_opt(<T as NumCast>::from(*s))).collect();
        let old = std::panic::take_hook();
        std::panic::set_hook(Box::new(|_| {}));
        let got = std::panic::catch_unwind(std::panic::AssertUnwindSafe(|| f(&c)));
        std::panic::set_hook(old);
        match got {
            Ok(got) => record(ctx, kind, S::NAME, T::NAME, comps, got),
            Err(_) => ctx.agree.rec(false, || format!("{}<{}>.cast::<{}>() panicked; components={:?}", kind, S::NAME, T::NAME, comps)),
        }
    }
}

fn pair<S: Prim, T: Prim + BaseFloatOrNot>(ctx: &mut Ctx) {
    run_kind::<S, T>(ctx, "v1", 1, c_v1::<S, T>);
    run_kind::<S, T>(ctx, "v2", 2, c_v2::<S, T>);
    run_kind::<S, T>(ctx, "v3", 3, c_v3::<S, T>);
    run_kind::<S, T>(ctx, "v4", 4, c_v4::<S, T>);
    run_kind::<S, T>(ctx, "p1", 1, c_p1::<S, T>);
    run_kind::<S, T>(ctx, "p2", 2, c_p2::<S, T>);
    run_kind::<S, T>(ctx, "p3", 3, c_p3::<S, T>);
    run_kind::<S, T>(ctx, "m2", 4, c_m2::<S, T>);
    run_kind::<S, T>(ctx, "m3", 9, c_m3::<S, T>);
    run_kind::<S, T>(ctx, "m4", 16, c_m4::<S, T>);
    T::quat_cases::<S>(ctx);
}

/// quaternions can only be cast to float targets (`T: BaseFloat`)
pub trait BaseFloatOrNot: Prim {
    fn quat_cases<S: Prim>(_ctx: &mut Ctx) {}
}
macro_rules! not_float { ($($t:ident),*) => {$( impl BaseFloatOrNot for $t {} )*}; }
not_float!(u8, u16, u32, u64, usize, i8, i16, i32, i64, isize);
macro_rules! is_float {
    ($($t:ident),*) => {$(
        impl BaseFloatOrNot for $t {
            fn quat_cases<S: Prim>(ctx: &mut Ctx) {
                fn c_q<S: Prim>(c: &[S]) -> Option<Vec<String>> {
                    // components in source order s, x, y, z
                    Quaternion::new(c[0], c[1], c[2], c[3]).cast::<$t>().map(|w| toks(vec![w.s, w.v.x, w.v.y, w.v.z]))
                }
                run_kind::<S, $t>(ctx, "q", 4, c_q::<S>);
            }
        }
    )*};
}
is_float!(f32, f64);

macro_rules! all_pairs {
    ($ctx:expr; $($s:ident),*) => {
        $( all_pairs!(@row $ctx; $s; u8, u16, u32, u64, usize, i8, i16, i32, i64, isize, f32, f64); )*
    };
    (@row $ctx:expr; $s:ident; $($t:ident),*) => { $( pair::<$s, $t>($ctx); )* };
}

pub fn c19(mq_budget: usize) {
    let mut ctx = Ctx { agree: Tally::new("c19.cast_matches_componentwise_numcast"), none_cases: 0, some_cases: 0, mq: String::new(), mq_budget };
    all_pairs!(&mut ctx; u8, u16, u32, u64, usize, i8, i16, i32, i64, isize, f32, f64);
    ctx.agree.print();
    println!("info c19.none_results={} some_results={} scalar_pairs=144", ctx.none_cases, ctx.some_cases);
    print!("{}", ctx.mq);
}
