//! C18: approximate equality and predicates of compound types, on native f32/f64.
//!
//! The scalar relation is evaluated per component with the real `approx` crate; the compound
//! relation of the implementation must equal the conjunction (oracle), and the Lean model,
//! fed the same per-component verdicts, must combine them to the same answer (`mq` lines).

use crate::native::Tally;
use approx::{AbsDiffEq, RelativeEq, UlpsEq};
use cgmath::prelude::*;
use cgmath::*;
use std::fmt::Write;

pub struct Ctx {
    pub rel: Tally,
    pub pred: Tally,
    pub mq: String,
}
fn b(x: bool) -> &'static str {
    if x { "T" } else { "F" }
}

pub trait Fl: BaseFloat + serde::Serialize + serde::de::DeserializeOwned + std::fmt::Debug {
    const NAME: &'static str;
    fn c(x: f64) -> Self;
}
impl Fl for f32 {
    const NAME: &'static str = "f32";
    fn c(x: f64) -> f32 { x as f32 }
}
impl Fl for f64 {
    const NAME: &'static str = "f64";
    fn c(x: f64) -> f64 { x }
}

/// distinct, non-zero base components
fn base<S: Fl>(k: usize) -> Vec<S> {
    (0..k).map(|i| S::c(1.5 + 0.75 * i as f64 + if i % 2 == 1 { -4.0 } else { 0.0 })).collect()
}

/// all three relations on one pair of compound values against the per-component verdicts
fn rel_one<S: Fl, T>(ctx: &mut Ctx, kind: &str, a: &T, bb: &T, ca: &[S], cb: &[S], what: &str)
where
    T: AbsDiffEq<Epsilon = S> + RelativeEq + UlpsEq,
{
    let eps_abs = S::c(1e-3);
    let (eps_rel, max_rel) = (S::c(1e-9), S::c(1e-3));
    let (eps_ulp, ulps) = (S::c(1e-12), 4u32);
    let variants: [(&str, bool, Vec<bool>); 6] = [
        ("abs", a.abs_diff_eq(bb, eps_abs), ca.iter().zip(cb).map(|(x, y)| S::abs_diff_eq(x, y, eps_abs)).collect()),
        ("rel", a.relative_eq(bb, eps_rel, max_rel), ca.iter().zip(cb).map(|(x, y)| S::relative_eq(x, y, eps_rel, max_rel)).collect()),
        ("ulps", a.ulps_eq(bb, eps_ulp, ulps), ca.iter().zip(cb).map(|(x, y)| S::ulps_eq(x, y, eps_ulp, ulps)).collect()),
        // default tolerances (the `*_eq!` macros)
        ("abs-default", a.abs_diff_eq(bb, T::default_epsilon()), ca.iter().zip(cb).map(|(x, y)| S::abs_diff_eq(x, y, T::default_epsilon())).collect()),
        ("rel-default", a.relative_eq(bb, T::default_epsilon(), T::default_max_relative()),
            ca.iter().zip(cb).map(|(x, y)| S::relative_eq(x, y, T::default_epsilon(), T::default_max_relative())).collect()),
        ("ulps-default", a.ulps_eq(bb, T::default_epsilon(), T::default_max_ulps()),
            ca.iter().zip(cb).map(|(x, y)| S::ulps_eq(x, y, T::default_epsilon(), T::default_max_ulps())).collect()),
    ];
    for (vn, got, comps) in variants.iter() {
        let want = comps.iter().all(|x| *x);
        ctx.rel.rec(*got == want, || format!("{}<{}> {} [{}]: compound={} per-component={:?} a={:?} b={:?}", kind, S::NAME, vn, what, got, comps, ca, cb));
        let _ = writeln!(ctx.mq, "mq n.rel {} {} => {}", kind, comps.iter().map(|x| b(*x)).collect::<Vec<_>>().join(" "), b(*got));
    }
}

/// the standard battery for a compound type with `k` scalar components
fn rel_cases<S: Fl, T>(ctx: &mut Ctx, kind: &str, k: usize, mk: &dyn Fn(&[S]) -> T)
where
    T: AbsDiffEq<Epsilon = S> + RelativeEq + UlpsEq,
{
    let a = base::<S>(k);
    let va = mk(&a);
    // identical values with pairwise distinct components (exposes cross-wired indices)
    rel_one(ctx, kind, &va, &mk(&a), &a, &a, "equal");
    // one component just inside / just outside each tolerance, at every position
    for p in 0..k {
        for (delta, nm) in [(4e-4, "inside-abs"), (2.5e-3, "outside-abs"), (0.5e-3 * 1.0, "inside-rel"), (1e-2, "outside-rel"),
                            (1e-13, "inside-ulps-eps"), (1e-6, "outside-ulps")] {
            let mut c = a.clone();
            c[p] = c[p] + S::c(delta) * (S::one() + c[p].abs());
            rel_one(ctx, kind, &va, &mk(&c), &a, &c, &format!("{}@{}", nm, p));
            rel_one(ctx, kind, &mk(&c), &va, &c, &a, &format!("{}@{}-swapped", nm, p));
        }
        // tolerance plumbing: large values where epsilon and max_relative must not be exchanged
        let mut big = a.clone();
        let mut big2 = a.clone();
        big[p] = S::c(1000.0);
        big2[p] = S::c(1000.5);
        rel_one(ctx, kind, &mk(&big), &mk(&big2), &big, &big2, &format!("plumbing@{}", p));
        // non-finite component
        let mut nf = a.clone();
        nf[p] = S::nan();
        rel_one(ctx, kind, &va, &mk(&nf), &a, &nf, &format!("nan@{}", p));
    }
}

fn from_json<T: serde::de::DeserializeOwned>(v: serde_json::Value) -> T {
    serde_json::from_value(v).expect("construct through serde")
}

fn run<S: Fl>(ctx: &mut Ctx) {
    rel_cases::<S, S>(ctx, "s", 1, &|c| c[0]);
    rel_cases::<S, Rad<S>>(ctx, "rad", 1, &|c| Rad(c[0]));
    rel_cases::<S, Deg<S>>(ctx, "deg", 1, &|c| Deg(c[0]));
    rel_cases::<S, Vector1<S>>(ctx, "v1", 1, &|c| Vector1::new(c[0]));
    rel_cases::<S, Vector2<S>>(ctx, "v2", 2, &|c| Vector2::new(c[0], c[1]));
    rel_cases::<S, Vector3<S>>(ctx, "v3", 3, &|c| Vector3::new(c[0], c[1], c[2]));
    rel_cases::<S, Vector4<S>>(ctx, "v4", 4, &|c| Vector4::new(c[0], c[1], c[2], c[3]));
    rel_cases::<S, Point1<S>>(ctx, "p1", 1, &|c| Point1::new(c[0]));
    rel_cases::<S, Point2<S>>(ctx, "p2", 2, &|c| Point2::new(c[0], c[1]));
    rel_cases::<S, Point3<S>>(ctx, "p3", 3, &|c| Point3::new(c[0], c[1], c[2]));
    let m2 = |c: &[S]| Matrix2::new(c[0], c[1], c[2], c[3]);
    let m3 = |c: &[S]| Matrix3::new(c[0], c[1], c[2], c[3], c[4], c[5], c[6], c[7], c[8]);
    let m4 = |c: &[S]| Matrix4::new(c[0], c[1], c[2], c[3], c[4], c[5], c[6], c[7], c[8], c[9], c[10], c[11], c[12], c[13], c[14], c[15]);
    rel_cases::<S, Matrix2<S>>(ctx, "m2", 4, &m2);
    rel_cases::<S, Matrix3<S>>(ctx, "m3", 9, &m3);
    rel_cases::<S, Matrix4<S>>(ctx, "m4", 16, &m4);
    // quaternion components in the order s, x, y, z
    rel_cases::<S, Quaternion<S>>(ctx, "q", 4, &|c| Quaternion::new(c[0], c[1], c[2], c[3]));
    rel_cases::<S, Euler<Rad<S>>>(ctx, "euler", 3, &|c| Euler::new(Rad(c[0]), Rad(c[1]), Rad(c[2])));
    // Basis2 / Basis3 have a private field: arbitrary values are built through their serde impl
    // (serde cannot carry NaN through JSON, so non-finite matrices use the single-field layout directly)
    let b2 = |c: &[S]| -> Basis2<S> {
        if c.iter().all(|x| x.is_finite()) {
            from_json(serde_json::json!({ "mat": serde_json::to_value(m2(c)).unwrap() }))
        } else {
            assert_eq!(std::mem::size_of::<Basis2<S>>(), std::mem::size_of::<Matrix2<S>>());
            unsafe { std::mem::transmute_copy::<Matrix2<S>, Basis2<S>>(&m2(c)) }
        }
    };
    let b3 = |c: &[S]| -> Basis3<S> {
        if c.iter().all(|x| x.is_finite()) {
            from_json(serde_json::json!({ "mat": serde_json::to_value(m3(c)).unwrap() }))
        } else {
            assert_eq!(std::mem::size_of::<Basis3<S>>(), std::mem::size_of::<Matrix3<S>>());
            unsafe { std::mem::transmute_copy::<Matrix3<S>, Basis3<S>>(&m3(c)) }
        }
    };
    rel_cases::<S, Basis2<S>>(ctx, "b2", 4, &b2);
    rel_cases::<S, Basis3<S>>(ctx, "b3", 9, &b3);
    rel_cases::<S, Decomposed<Vector3<S>, Quaternion<S>>>(ctx, "dq", 8,
        &|c| Decomposed { scale: c[0], rot: Quaternion::new(c[1], c[2], c[3], c[4]), disp: Vector3::new(c[5], c[6], c[7]) });
    rel_cases::<S, Decomposed<Vector3<S>, Basis3<S>>>(ctx, "db3", 13,
        &|c| Decomposed { scale: c[0], rot: b3(&c[1..10]), disp: Vector3::new(c[10], c[11], c[12]) });
    rel_cases::<S, Decomposed<Vector2<S>, Basis2<S>>>(ctx, "db2", 7,
        &|c| Decomposed { scale: c[0], rot: b2(&c[1..5]), disp: Vector2::new(c[5], c[6]) });

    // ------------------------------------------------------------------ predicates
    let specials = [S::nan(), S::infinity(), S::neg_infinity()];
    macro_rules! finite {
        ($kind:expr, $k:expr, $mk:expr) => {
            let a = base::<S>($k);
            let mut cases = vec![a.clone()];
            for p in 0..$k { for sp in specials.iter() { let mut c = a.clone(); c[p] = *sp; cases.push(c); } }
            // every component finite but huge: sums / products / norms of the components overflow
            let mx = S::max_value();
            cases.push(vec![mx; $k]);
            cases.push(vec![-mx; $k]);
            cases.push((0..$k).map(|i| if i % 2 == 0 { mx } else { -mx }).collect());
            cases.push((0..$k).map(|i| if i < 2 { mx } else { S::one() }).collect());
            cases.push(vec![mx / S::c(2.0); $k]);
            cases.push(vec![S::min_positive_value(); $k]);
            for c in cases {
                let got = $mk(&c).is_finite();
                let comps: Vec<bool> = c.iter().map(|x| x.is_finite()).collect();
                ctx.pred.rec(got == comps.iter().all(|x| *x), || format!("{}<{}>.is_finite() comps={:?}", $kind, S::NAME, c));
                let _ = writeln!(ctx.mq, "mq n.pred finite {} {} => {}", $kind, comps.iter().map(|x| b(*x)).collect::<Vec<_>>().join(" "), b(got));
            }
        };
    }
    finite!("v2", 2, |c: &[S]| Vector2::new(c[0], c[1]));
    finite!("v3", 3, |c: &[S]| Vector3::new(c[0], c[1], c[2]));
    finite!("v4", 4, |c: &[S]| Vector4::new(c[0], c[1], c[2], c[3]));
    finite!("m2", 4, m2);
    finite!("m3", 9, m3);
    finite!("m4", 16, m4);
    finite!("q", 4, |c: &[S]| Quaternion::new(c[0], c[1], c[2], c[3]));
    finite!("v1", 1, |c: &[S]| Vector1::new(c[0]));
    finite!("p1", 1, |c: &[S]| Point1::new(c[0]));
    finite!("p2", 2, |c: &[S]| Point2::new(c[0], c[1]));
    finite!("p3", 3, |c: &[S]| Point3::new(c[0], c[1], c[2]));
    {
        // points implement Array::is_finite too
        let a = base::<S>(3);
        for p in 0..3 { let mut c = a.clone(); c[p] = S::nan(); ctx.pred.rec(!Point3::new(c[0], c[1], c[2]).is_finite(), || "Point3.is_finite with NaN".into()); }
        ctx.pred.rec(Point3::new(a[0], a[1], a[2]).is_finite(), || "Point3.is_finite".into());
    }
    let zero = S::zero();
    let tiny = S::c(1e-30);
    macro_rules! matpred {
        ($kind:expr, $n:expr, $mk:expr, $M:ident) => {
            // identity with one element perturbed (tiny: still ulps-equal; large: not)
            let n = $n;
            let ident: Vec<S> = (0..n * n).map(|i| if i / n == i % n { S::one() } else { zero }).collect();
            let mut cases: Vec<Vec<S>> = vec![ident.clone(), base::<S>(n * n), vec![zero; n * n]];
            for p in 0..n * n {
                // deviations from the identity: far below every tolerance; between the scalar epsilon and the matrices' own
                // default epsilon 1e-6 (`is_identity`, `is_zero` compare whole matrices: matrix.rs `default_epsilon`);
                // just above it; large
                for d in [tiny, S::c(1e-8), S::c(-3e-7), S::c(1e-5), S::c(0.25)] { let mut c = ident.clone(); c[p] = c[p] + d; cases.push(c); }
                for d in [S::c(1e-8), S::c(1e-5)] { let mut c = vec![zero; n * n]; c[p] = d; cases.push(c); }
                let mut c = vec![zero; n * n]; c[p] = S::c(0.5); cases.push(c);
                // all zero but one element that is tiny (still ulps-equal to zero) or negative tiny
                for d in [tiny, S::c(-1e-20), S::c(1e-300)] { let mut c = vec![zero; n * n]; c[p] = d; cases.push(c); }
                // symmetric matrix with one element of a mirror pair perturbed
                let mut sy: Vec<S> = (0..n * n).map(|i| S::c(1.0 + ((i / n) * (i % n)) as f64 + ((i / n) + (i % n)) as f64 * 0.5)).collect();
                sy[p] = sy[p] + S::c(0.125);
                cases.push(sy);
            }
            let sym: Vec<S> = (0..n * n).map(|i| S::c(1.0 + ((i / n) * (i % n)) as f64 + ((i / n) + (i % n)) as f64 * 0.5)).collect();
            cases.push(sym);
            // large entries, determinant exactly +-1 (the two products of a 2x2 minor agree to many digits, the determinant is far from 0);
            // the same scaled down so that the determinant is tiny although the matrix is perfectly conditioned
            for k in [4096.0, 1.0e6, 3.0] {
                let mut c = ident.clone();
                c[0] = S::c(k); c[1] = S::c(k + 1.0); c[n] = S::c(k - 1.0); c[n + 1] = S::c(k);
                cases.push(c.clone());
                cases.push(c.iter().map(|x| *x * S::c(1.0e-3)).collect());
                let mut d = c.clone(); d.swap(0, n); d.swap(1, n + 1);      // det = -1
                cases.push(d);
            }
            for c in cases {
                let m = $mk(&c);
                let el = |cc: usize, r: usize| c[cc * n + r];
                // is_diagonal: every off-diagonal element ulps_eq 0
                let diag_bits: Vec<bool> = (0..n * n).map(|i| S::ulps_eq(&c[i], &zero, S::default_epsilon(), S::default_max_ulps())).collect();
                let want_diag = (0..n * n).filter(|i| i / n != i % n).all(|i| diag_bits[i]);
                ctx.pred.rec(m.is_diagonal() == want_diag, || format!("{}<{}>.is_diagonal() {:?}", $kind, S::NAME, c));
                let _ = writeln!(ctx.mq, "mq n.pred diag {} {} => {}", $kind, diag_bits.iter().map(|x| b(*x)).collect::<Vec<_>>().join(" "), b(m.is_diagonal()));
                // is_symmetric: element (c,r) ulps_eq element (r,c)
                let sym_bits: Vec<bool> = (0..n * n).map(|i| S::ulps_eq(&el(i / n, i % n), &el(i % n, i / n), S::default_epsilon(), S::default_max_ulps())).collect();
                ctx.pred.rec(m.is_symmetric() == sym_bits.iter().all(|x| *x), || format!("{}<{}>.is_symmetric() {:?}", $kind, S::NAME, c));
                let _ = writeln!(ctx.mq, "mq n.pred sym {} {} => {}", $kind, sym_bits.iter().map(|x| b(*x)).collect::<Vec<_>>().join(" "), b(m.is_symmetric()));
                // is_identity: ulps_eq! of the whole matrix with identity(): the *matrix* default epsilon (1e-6), every element
                let meps = <$M<S> as approx::AbsDiffEq>::default_epsilon();
                let id_bits: Vec<bool> = (0..n * n).map(|i| S::ulps_eq(&c[i], &ident[i], meps, S::default_max_ulps())).collect();
                ctx.pred.rec(m.is_identity() == id_bits.iter().all(|x| *x), || format!("{}<{}>.is_identity() {:?}", $kind, S::NAME, c));
                let _ = writeln!(ctx.mq, "mq n.rel {} {} => {}", $kind, id_bits.iter().map(|x| b(*x)).collect::<Vec<_>>().join(" "), b(m.is_identity()));
                // is_zero: ulps_eq! of the whole matrix with zero(): matrix default epsilon again
                let zero_bits: Vec<bool> = (0..n * n).map(|i| S::ulps_eq(&c[i], &zero, meps, S::default_max_ulps())).collect();
                ctx.pred.rec(m.is_zero() == zero_bits.iter().all(|x| *x), || format!("{}<{}>.is_zero() {:?}", $kind, S::NAME, c));
                let _ = writeln!(ctx.mq, "mq n.rel {} {} => {}", $kind, zero_bits.iter().map(|x| b(*x)).collect::<Vec<_>>().join(" "), b(m.is_zero()));
                // is_invertible: determinant not ulps_eq 0
                let det = m.determinant();
                ctx.pred.rec(m.is_invertible() == !S::ulps_eq(&det, &zero, S::default_epsilon(), S::default_max_ulps()),
                    || format!("{}<{}>.is_invertible() det={:?} {:?}", $kind, S::NAME, det, c));
            }
        };
    }
    matpred!("m2", 2, m2, Matrix2);
    matpred!("m3", 3, m3, Matrix3);
    matpred!("m4", 4, m4, Matrix4);
    // is_zero: vectors by exact equality, quaternions / angles by ulps; is_perpendicular
    for p in 0..4 {
        for d in [zero, tiny, S::c(0.5), S::default_epsilon() * S::c(0.5), S::default_epsilon() * S::c(1.5), S::default_epsilon() * S::c(10.0),
                  S::default_epsilon() * S::c(50.0), S::default_epsilon() * S::c(-3.0), S::c(1.0e-6), S::c(-2.0e-5)] {
            // angles: the default tolerances of Rad / Deg are the scalar's, in every default-tolerance form
            for (x, y) in [(zero, d), (d, zero), (S::c(1.0), S::c(1.0) + d), (S::c(90.0), S::c(90.0) + d * S::c(64.0))] {
                let want_a = S::abs_diff_eq(&x, &y, S::default_epsilon());
                let want_r = S::relative_eq(&x, &y, S::default_epsilon(), S::default_max_relative());
                let want_u = S::ulps_eq(&x, &y, S::default_epsilon(), S::default_max_ulps());
                ctx.pred.rec(approx::abs_diff_eq!(Deg(x), Deg(y)) == want_a && approx::abs_diff_eq!(Rad(x), Rad(y)) == want_a
                    && approx::relative_eq!(Deg(x), Deg(y)) == want_r && approx::relative_eq!(Rad(x), Rad(y)) == want_r
                    && approx::ulps_eq!(Deg(x), Deg(y)) == want_u && approx::ulps_eq!(Rad(x), Rad(y)) == want_u,
                    || format!("default-tolerance relations on Deg/Rad<{}>({:?}, {:?}): abs {} rel {} ulps {} expected from the scalar relation; Deg gives {} {} {}", S::NAME, x, y, want_a, want_r, want_u,
                        approx::abs_diff_eq!(Deg(x), Deg(y)), approx::relative_eq!(Deg(x), Deg(y)), approx::ulps_eq!(Deg(x), Deg(y))));
            }
            let mut c = vec![zero; 4];
            c[p] = d;
            let v = Vector4::new(c[0], c[1], c[2], c[3]);
            ctx.pred.rec(v.is_zero() == c.iter().all(|x| *x == zero), || format!("Vector4<{}>.is_zero() {:?}", S::NAME, c));
            let q = Quaternion::new(c[0], c[1], c[2], c[3]);
            let bits: Vec<bool> = c.iter().map(|x| S::ulps_eq(x, &zero, S::default_epsilon(), S::default_max_ulps())).collect();
            ctx.pred.rec(q.is_zero() == bits.iter().all(|x| *x), || format!("Quaternion<{}>.is_zero() {:?}", S::NAME, c));
            let _ = writeln!(ctx.mq, "mq n.rel q {} => {}", bits.iter().map(|x| b(*x)).collect::<Vec<_>>().join(" "), b(q.is_zero()));
            ctx.pred.rec(Rad(d).is_zero() == S::ulps_eq(&d, &zero, S::default_epsilon(), S::default_max_ulps()), || format!("Rad({:?}).is_zero()", d));
            ctx.pred.rec(Deg(d).is_zero() == S::ulps_eq(&d, &zero, S::default_epsilon(), S::default_max_ulps()), || format!("Deg({:?}).is_zero()", d));
        }
    }
    let pairs = [(Vector3::new(S::c(1.0), S::c(2.0), S::c(0.0)), Vector3::new(S::c(-2.0), S::c(1.0), S::c(5.0))),
                 (Vector3::new(S::c(1.0), S::c(2.0), S::c(0.0)), Vector3::new(S::c(-2.0), S::c(1.0001), S::c(5.0))),
                 (Vector3::new(S::c(1.0), S::c(2.0), S::c(3.0)), Vector3::new(S::c(1.0), S::c(1.0), S::c(-1.0)))];
    for (u, v) in pairs.iter() {
        let d = u.dot(*v);
        ctx.pred.rec(u.is_perpendicular(*v) == S::ulps_eq(&d, &zero, S::default_epsilon(), S::default_max_ulps()),
            || format!("is_perpendicular {:?} {:?}", u, v));
        let (u4, v4) = (u.extend(S::c(2.0)), v.extend(S::c(0.0)));
        ctx.pred.rec(u4.is_perpendicular(v4) == S::ulps_eq(&u4.dot(v4), &zero, S::default_epsilon(), S::default_max_ulps()), || "is_perpendicular v4".into());
    }
}

pub fn c18() {
    let mut ctx = Ctx { rel: Tally::new("c18.compound_relation_is_conjunction"), pred: Tally::new("c18.predicates"), mq: String::new() };
    run::<f32>(&mut ctx);
    run::<f64>(&mut ctx);
    ctx.rel.print();
    ctx.pred.print();
    print!("{}", ctx.mq);
}
