//! C20: serde round trips (bit-exact), field structure, and the hand-written `Decomposed`
//! deserializer (field order, omissions, unknown and duplicate keys).

use crate::native::Tally;
use cgmath::*;
use serde::de::DeserializeOwned;
use serde::Serialize;
use serde_json::Value;
use std::fmt::Write;

fn splitmix(s: &mut u64) -> u64 {
    *s = s.wrapping_add(0x9E3779B97F4A7C15);
    let mut z = *s;
    z = (z ^ (z >> 30)).wrapping_mul(0xBF58476D1CE4E5B9);
    z = (z ^ (z >> 27)).wrapping_mul(0x94D049BB133111EB);
    z ^ (z >> 31)
}

pub trait Sc: Copy + Serialize + DeserializeOwned + PartialEq + std::fmt::Debug + 'static {
    const NAME: &'static str;
    fn bits(self) -> u64;
    fn specials() -> Vec<Self>;
    fn rnd(s: &mut u64) -> Self;
}
impl Sc for f64 {
    const NAME: &'static str = "f64";
    fn bits(self) -> u64 { self.to_bits() }
    fn specials() -> Vec<f64> {
        vec![0.0, -0.0, 1.0, -1.0, 5e-324, -5e-324, f64::MIN_POSITIVE, f64::MAX, f64::MIN, f64::EPSILON, 0.1, 1.0 / 3.0, 1e-310, 123456789.125]
    }
    fn rnd(s: &mut u64) -> f64 {
        loop {
            let f = f64::from_bits(splitmix(s));
            if f.is_finite() { return f; }
        }
    }
}
impl Sc for f32 {
    const NAME: &'static str = "f32";
    fn bits(self) -> u64 { self.to_bits() as u64 }
    fn specials() -> Vec<f32> {
        vec![0.0, -0.0, 1.0, -1.0, 1e-45, -1e-45, f32::MIN_POSITIVE, f32::MAX, f32::MIN, f32::EPSILON, 0.1, 1.0 / 3.0, 1e-40, 16777217.0]
    }
    fn rnd(s: &mut u64) -> f32 {
        loop {
            let f = f32::from_bits(splitmix(s) as u32);
            if f.is_finite() { return f; }
        }
    }
}
impl Sc for i32 {
    const NAME: &'static str = "i32";
    fn bits(self) -> u64 { self as u32 as u64 }
    fn specials() -> Vec<i32> { vec![0, 1, -1, i32::MAX, i32::MIN, 7] }
    fn rnd(s: &mut u64) -> i32 { splitmix(s) as i32 }
}
impl Sc for u64 {
    const NAME: &'static str = "u64";
    fn bits(self) -> u64 { self }
    fn specials() -> Vec<u64> { vec![0, 1, u64::MAX, 1 << 53, (1 << 53) + 1] }
    fn rnd(s: &mut u64) -> u64 { splitmix(s) }
}

/// component lists: the special values rotated through every position, then random ones
fn comps<S: Sc>(k: usize, n_random: usize, seed: &mut u64) -> Vec<Vec<S>> {
    let sp = S::specials();
    let mut out = vec![];
    for r in 0..sp.len() {
        out.push((0..k).map(|i| sp[(r + i) % sp.len()]).collect());
    }
    for _ in 0..n_random {
        out.push((0..k).map(|_| S::rnd(seed)).collect());
    }
    out
}

struct Ctx {
    round: Tally,
    shape: Tally,
    dec: Tally,
    mq: String,
}

/// keys of a JSON object, sorted
fn keys(v: &Value) -> Vec<String> {
    match v {
        Value::Object(m) => { let mut k: Vec<String> = m.keys().cloned().collect(); k.sort(); k }
        _ => vec!["<not an object>".into()],
    }
}

fn round_trip<S: Sc, T: Serialize + DeserializeOwned>(ctx: &mut Ctx, kind: &str, k: usize, n_random: usize, seed: &mut u64,
    mk: &dyn Fn(&[S]) -> T, un: &dyn Fn(&T) -> Vec<S>, shape: &dyn Fn(&Value, &[S]) -> bool) {
    for c in comps::<S>(k, n_random, seed) {
        // a panic anywhere in serialise / deserialise / inspect is a failed round trip, not a crash of the check
        let old = std::panic::take_hook();
        std::panic::set_hook(Box::new(|_| {}));
        let r = std::panic::catch_unwind(std::panic::AssertUnwindSafe(|| {
            let t = mk(&c);
            let v = serde_json::to_value(&t).expect("serialize");
            let back: Result<T, _> = serde_json::from_value(v.clone());
            let ok = match &back {
                Ok(b) => un(b).iter().zip(c.iter()).all(|(x, y)| x.bits() == y.bits()),
                Err(_) => false,
            };
            let desc = format!("{}<{}> {:?} -> {} -> {:?}", kind, S::NAME, c, v, back.as_ref().map(|b| un(b)).ok());
            let sh = shape(&v, &c);
            (ok, desc, sh, format!("{}<{}> structure {}", kind, S::NAME, v))
        }));
        std::panic::set_hook(old);
        match r {
            Ok((ok, desc, sh, sdesc)) => {
                ctx.round.rec(ok, || desc);
                ctx.shape.rec(sh, || sdesc);
            }
            Err(_) => ctx.round.rec(false, || format!("{}<{}> {:?}: serialise / deserialise panicked or was rejected", kind, S::NAME, c)),
        }
    }
}

fn num_is<S: Sc>(v: &Value, s: S) -> bool {
    // the leaf is a bare number that deserialises to exactly `s`
    v.is_number() && serde_json::from_value::<S>(v.clone()).map(|x| x.bits() == s.bits()).unwrap_or(false)
}
fn obj_fields<S: Sc>(v: &Value, names: &[&str], vals: &[S]) -> bool {
    let mut want: Vec<String> = names.iter().map(|s| s.to_string()).collect();
    want.sort();
    keys(v) == want && names.iter().zip(vals.iter()).all(|(n, s)| num_is(&v[*n], *s))
}

fn vec_like<S: Sc + cgmath::BaseNum>(ctx: &mut Ctx, n_random: usize, seed: &mut u64) {
    let xyzw = ["x", "y", "z", "w"];
    round_trip::<S, Vector1<S>>(ctx, "Vector1", 1, n_random, seed, &|c| Vector1::new(c[0]), &|v| vec![v.x], &|j, c| obj_fields(j, &xyzw[..1], c));
    round_trip::<S, Vector2<S>>(ctx, "Vector2", 2, n_random, seed, &|c| Vector2::new(c[0], c[1]), &|v| vec![v.x, v.y], &|j, c| obj_fields(j, &xyzw[..2], c));
    round_trip::<S, Vector3<S>>(ctx, "Vector3", 3, n_random, seed, &|c| Vector3::new(c[0], c[1], c[2]), &|v| vec![v.x, v.y, v.z], &|j, c| obj_fields(j, &xyzw[..3], c));
    round_trip::<S, Vector4<S>>(ctx, "Vector4", 4, n_random, seed, &|c| Vector4::new(c[0], c[1], c[2], c[3]), &|v| vec![v.x, v.y, v.z, v.w], &|j, c| obj_fields(j, &xyzw[..4], c));
    round_trip::<S, Point1<S>>(ctx, "Point1", 1, n_random, seed, &|c| Point1::new(c[0]), &|v| vec![v.x], &|j, c| obj_fields(j, &xyzw[..1], c));
    round_trip::<S, Point2<S>>(ctx, "Point2", 2, n_random, seed, &|c| Point2::new(c[0], c[1]), &|v| vec![v.x, v.y], &|j, c| obj_fields(j, &xyzw[..2], c));
    round_trip::<S, Point3<S>>(ctx, "Point3", 3, n_random, seed, &|c| Point3::new(c[0], c[1], c[2]), &|v| vec![v.x, v.y, v.z], &|j, c| obj_fields(j, &xyzw[..3], c));
}

fn float_types<S: Sc + cgmath::BaseFloat>(ctx: &mut Ctx, n_random: usize, seed: &mut u64) {
    let xyzw = ["x", "y", "z", "w"];
    vec_like::<S>(ctx, n_random, seed);
    round_trip::<S, Matrix2<S>>(ctx, "Matrix2", 4, n_random, seed, &|c| Matrix2::new(c[0], c[1], c[2], c[3]),
        &|m| vec![m.x.x, m.x.y, m.y.x, m.y.y],
        &|j, c| keys(j) == ["x", "y"] && obj_fields(&j["x"], &xyzw[..2], &c[0..2]) && obj_fields(&j["y"], &xyzw[..2], &c[2..4]));
    round_trip::<S, Matrix3<S>>(ctx, "Matrix3", 9, n_random, seed, &|c| Matrix3::new(c[0], c[1], c[2], c[3], c[4], c[5], c[6], c[7], c[8]),
        &|m| vec![m.x.x, m.x.y, m.x.z, m.y.x, m.y.y, m.y.z, m.z.x, m.z.y, m.z.z],
        &|j, c| keys(j) == ["x", "y", "z"] && obj_fields(&j["x"], &xyzw[..3], &c[0..3]) && obj_fields(&j["y"], &xyzw[..3], &c[3..6])
            && obj_fields(&j["z"], &xyzw[..3], &c[6..9]));
    round_trip::<S, Matrix4<S>>(ctx, "Matrix4", 16, n_random, seed,
        &|c| Matrix4::new(c[0], c[1], c[2], c[3], c[4], c[5], c[6], c[7], c[8], c[9], c[10], c[11], c[12], c[13], c[14], c[15]),
        &|m| vec![m.x.x, m.x.y, m.x.z, m.x.w, m.y.x, m.y.y, m.y.z, m.y.w, m.z.x, m.z.y, m.z.z, m.z.w, m.w.x, m.w.y, m.w.z, m.w.w],
        &|j, c| keys(j) == ["w", "x", "y", "z"] && obj_fields(&j["x"], &xyzw, &c[0..4]) && obj_fields(&j["y"], &xyzw, &c[4..8])
            && obj_fields(&j["z"], &xyzw, &c[8..12]) && obj_fields(&j["w"], &xyzw, &c[12..16]));
    // quaternion: fields v (vector part) and s (scalar part); components given as s, x, y, z
    round_trip::<S, Quaternion<S>>(ctx, "Quaternion", 4, n_random, seed, &|c| Quaternion::new(c[0], c[1], c[2], c[3]),
        &|q| vec![q.s, q.v.x, q.v.y, q.v.z],
        &|j, c| keys(j) == ["s", "v"] && num_is(&j["s"], c[0]) && obj_fields(&j["v"], &xyzw[..3], &c[1..4]));
    // angles are bare numbers
    round_trip::<S, Rad<S>>(ctx, "Rad", 1, n_random, seed, &|c| Rad(c[0]), &|a| vec![a.0], &|j, c| num_is(j, c[0]));
    round_trip::<S, Deg<S>>(ctx, "Deg", 1, n_random, seed, &|c| Deg(c[0]), &|a| vec![a.0], &|j, c| num_is(j, c[0]));
    round_trip::<S, Euler<Rad<S>>>(ctx, "Euler<Rad>", 3, n_random, seed, &|c| Euler::new(Rad(c[0]), Rad(c[1]), Rad(c[2])),
        &|e| vec![e.x.0, e.y.0, e.z.0], &|j, c| obj_fields(j, &xyzw[..3], c));
    round_trip::<S, Euler<Deg<S>>>(ctx, "Euler<Deg>", 3, n_random, seed, &|c| Euler::new(Deg(c[0]), Deg(c[1]), Deg(c[2])),
        &|e| vec![e.x.0, e.y.0, e.z.0], &|j, c| obj_fields(j, &xyzw[..3], c));
    // bases wrap their matrix in the field `mat`; values of the private type are built through Deserialize itself
    round_trip::<S, Value>(ctx, "Basis2", 4, n_random, seed,
        &|c| { let b: Basis2<S> = serde_json::from_value(serde_json::json!({"mat": serde_json::to_value(Matrix2::new(c[0], c[1], c[2], c[3])).unwrap()})).unwrap();
               serde_json::to_value(&b).unwrap() },
        &|v| { let b: Basis2<S> = serde_json::from_value(v.clone()).unwrap(); let m: Matrix2<S> = b.into(); vec![m.x.x, m.x.y, m.y.x, m.y.y] },
        &|j, _| keys(j) == ["mat"] && keys(&j["mat"]) == ["x", "y"]);
    round_trip::<S, Value>(ctx, "Basis3", 9, n_random, seed,
        &|c| { let b: Basis3<S> = serde_json::from_value(serde_json::json!({"mat": serde_json::to_value(Matrix3::new(c[0], c[1], c[2], c[3], c[4], c[5], c[6], c[7], c[8])).unwrap()})).unwrap();
               serde_json::to_value(&b).unwrap() },
        &|v| { let b: Basis3<S> = serde_json::from_value(v.clone()).unwrap(); let m: Matrix3<S> = b.into();
               vec![m.x.x, m.x.y, m.x.z, m.y.x, m.y.y, m.y.z, m.z.x, m.z.y, m.z.z] },
        &|j, _| keys(j) == ["mat"] && keys(&j["mat"]) == ["x", "y", "z"]);
    // projection descriptions
    let lr = ["left", "right", "bottom", "top", "near", "far"];
    round_trip::<S, Ortho<S>>(ctx, "Ortho", 6, n_random, seed,
        &|c| Ortho { left: c[0], right: c[1], bottom: c[2], top: c[3], near: c[4], far: c[5] },
        &|o| vec![o.left, o.right, o.bottom, o.top, o.near, o.far], &|j, c| obj_fields(j, &lr, c));
    round_trip::<S, Perspective<S>>(ctx, "Perspective", 6, n_random, seed,
        &|c| Perspective { left: c[0], right: c[1], bottom: c[2], top: c[3], near: c[4], far: c[5] },
        &|o| vec![o.left, o.right, o.bottom, o.top, o.near, o.far], &|j, c| obj_fields(j, &lr, c));
    round_trip::<S, PerspectiveFov<S>>(ctx, "PerspectiveFov", 4, n_random, seed,
        &|c| PerspectiveFov { fovy: Rad(c[0]), aspect: c[1], near: c[2], far: c[3] },
        &|o| vec![o.fovy.0, o.aspect, o.near, o.far], &|j, c| obj_fields(j, &["fovy", "aspect", "near", "far"], c));
    round_trip::<S, PlanarFov<S>>(ctx, "PlanarFov", 5, n_random, seed,
        &|c| PlanarFov { fovy: Rad(c[0]), aspect: c[1], height: c[2], near: c[3], far: c[4] },
        &|o| vec![o.fovy.0, o.aspect, o.height, o.near, o.far], &|j, c| obj_fields(j, &["fovy", "aspect", "height", "near", "far"], c));
    // Decomposed (hand-written impls): scale, rot, disp
    round_trip::<S, Decomposed<Vector3<S>, Quaternion<S>>>(ctx, "Decomposed<V3,Quaternion>", 8, n_random, seed,
        &|c| Decomposed { scale: c[0], rot: Quaternion::new(c[1], c[2], c[3], c[4]), disp: Vector3::new(c[5], c[6], c[7]) },
        &|d| vec![d.scale, d.rot.s, d.rot.v.x, d.rot.v.y, d.rot.v.z, d.disp.x, d.disp.y, d.disp.z],
        &|j, c| keys(j) == ["disp", "rot", "scale"] && num_is(&j["scale"], c[0]) && keys(&j["rot"]) == ["s", "v"]
            && obj_fields(&j["disp"], &xyzw[..3], &c[5..8]));
    round_trip::<S, Value>(ctx, "Decomposed<V2,Basis2>", 7, n_random, seed,
        &|c| { let b: Basis2<S> = serde_json::from_value(serde_json::json!({"mat": serde_json::to_value(Matrix2::new(c[1], c[2], c[3], c[4])).unwrap()})).unwrap();
               serde_json::to_value(&Decomposed { scale: c[0], rot: b, disp: Vector2::new(c[5], c[6]) }).unwrap() },
        &|v| { let d: Decomposed<Vector2<S>, Basis2<S>> = serde_json::from_value(v.clone()).unwrap(); let m: Matrix2<S> = d.rot.into();
               vec![d.scale, m.x.x, m.x.y, m.y.x, m.y.y, d.disp.x, d.disp.y] },
        &|j, _| keys(j) == ["disp", "rot", "scale"] && keys(&j["rot"]) == ["mat"]);
}

/// the Decomposed visitor on explicit key sequences (JSON text keeps the order and duplicates)
fn decomposed_keys(ctx: &mut Ctx) {
    type D = Decomposed<Vector3<f64>, Quaternion<f64>>;
    let field = |name: &str, idx: usize| -> String {
        let i = idx as f64;
        match name {
            "scale" => format!("\"scale\":{}", i),
            "rot" => format!("\"rot\":{{\"v\":{{\"x\":0.0,\"y\":0.0,\"z\":0.0}},\"s\":{}}}", i),
            "disp" => format!("\"disp\":{{\"x\":{},\"y\":0.0,\"z\":0.0}}", i),
            other if other.contains('@') => {
                // `alias@shape`: the key is `alias`, the value has the shape of the named field
                let (alias, shape) = other.split_once('@').unwrap();
                let body = match shape {
                    "rot" => format!("{{\"v\":{{\"x\":0.0,\"y\":0.0,\"z\":0.0}},\"s\":{}}}", i),
                    "disp" => format!("{{\"x\":{},\"y\":0.0,\"z\":0.0}}", i),
                    _ => format!("{}", i),
                };
                format!("\"{}\":{}", alias, body)
            }
            other => format!("\"{}\":{}", other, i),
        }
    };
    let names = ["scale", "rot", "disp"];
    let mut seqs: Vec<Vec<&str>> = vec![];
    // all permutations, all single omissions, unknown key at every position, duplicates
    let perms = [[0, 1, 2], [0, 2, 1], [1, 0, 2], [1, 2, 0], [2, 0, 1], [2, 1, 0]];
    for p in perms.iter() {
        seqs.push(p.iter().map(|&i| names[i]).collect());
        for omit in 0..3 {
            seqs.push(p.iter().enumerate().filter(|(k, _)| *k != omit).map(|(_, &i)| names[i]).collect());
        }
        for pos in 0..4 {
            let mut s: Vec<&str> = p.iter().map(|&i| names[i]).collect();
            s.insert(pos, "extra");
            seqs.push(s);
        }
        for dup in 0..3 {
            for pos in 0..4 {
                let mut s: Vec<&str> = p.iter().map(|&i| names[i]).collect();
                s.insert(pos, names[dup]);
                seqs.push(s);
            }
        }
    }
    seqs.push(vec![]);
    // plausible aliases and near-misses of the three field names are unknown keys like any other; each is tried
    // with a value of every field's shape, in addition to and instead of the field it resembles
    for alias in ["rotation", "translation", "scaling", "position", "orientation", "displacement", "s", "r", "d", "Rot", "Disp",
                  "SCALE", "rot ", " disp", "mat", "v", "x", "_scale", "scale2", "transform", "Rotation", "offset", "pos", "t", "q"] {
        for shape in ["@scale", "@rot", "@disp"] {
            let key: &'static str = Box::leak(format!("{}{}", alias, shape).into_boxed_str());
            seqs.push(vec!["scale", "rot", "disp", key]);
            seqs.push(vec![key, "scale", "rot", "disp"]);
            let repl: Vec<&str> = names.iter().map(|n| if format!("@{}", n) == shape { key } else { *n }).collect();
            seqs.push(repl);
        }
    }
    seqs.push(vec!["Scale", "rot", "disp"]);
    seqs.push(vec!["scale", "rot", "disp", "scale", "rot", "disp"]);
    for s in seqs {
        let text = format!("{{{}}}", s.iter().enumerate().map(|(i, n)| field(n, i)).collect::<Vec<_>>().join(","));
        let r: Result<D, _> = serde_json::from_str(&text);
        let ans = match &r {
            Ok(d) => format!("ok {} {} {}", d.scale as usize, d.rot.s as usize, d.disp.x as usize),
            Err(_) => "err".to_string(),
        };
        // oracle: accepted iff all keys known and each of the three present; the last occurrence wins
        let known = s.iter().all(|n| names.contains(n));
        let want = if known && names.iter().all(|n| s.contains(n)) {
            let last = |n: &str| s.iter().rposition(|x| *x == n).unwrap();
            format!("ok {} {} {}", last("scale"), last("rot"), last("disp"))
        } else {
            "err".to_string()
        };
        ctx.dec.rec(ans == want, || format!("keys {:?}: got {} want {}", s, ans, want));
        let _ = writeln!(ctx.mq, "mq n.dec {} => {}", s.iter().map(|k| k.split('@').next().unwrap().replace(' ', "_")).collect::<Vec<_>>().join(" "), ans);
    }
}

pub fn c20(n_random: usize, seed: u64) {
    let mut ctx = Ctx { round: Tally::new("c20.round_trip_bit_exact"), shape: Tally::new("c20.field_structure"),
                        dec: Tally::new("c20.decomposed_key_sequences"), mq: String::new() };
    let mut s = seed;
    float_types::<f64>(&mut ctx, n_random, &mut s);
    float_types::<f32>(&mut ctx, n_random, &mut s);
    vec_like::<i32>(&mut ctx, n_random, &mut s);
    vec_like::<u64>(&mut ctx, n_random, &mut s);
    decomposed_keys(&mut ctx);
    ctx.round.print();
    ctx.shape.print();
    ctx.dec.print();
    print!("{}", ctx.mq);
}
