//! Narrow-region native checks (layer N): property clauses evaluated on the `f32` *and* `f64`
//! instantiations of the implementation on the inputs an exact-rational run cannot reach --
//! values below the approximate-equality allowance, tiny / huge scales, angles so small that a cosine
//! rounds to one, angles next to a half turn, very large angles, exact quarter turns.  Every check
//! states a clause of the property with an explicit margin that the unchanged code meets with
//! orders of magnitude to spare.  Output format is the one of `native.rs`.

use crate::native::Tally;
use cgmath::prelude::*;
use cgmath::*;

fn splitmix(s: &mut u64) -> u64 {
    *s = s.wrapping_add(0x9E3779B97F4A7C15);
    let mut z = *s;
    z = (z ^ (z >> 30)).wrapping_mul(0xBF58476D1CE4E5B9);
    z = (z ^ (z >> 27)).wrapping_mul(0x94D049BB133111EB);
    z ^ (z >> 31)
}

macro_rules! narrow_impl {
    ($m:ident, $S:ident, $tag:expr, $tiny_pow:expr, $small_angles:expr, $pow_range:expr, $len_scales:expr, $extreme_scales:expr) => {
        pub mod $m {
            use super::*;
            type S = $S;
            const EPS: S = $S::EPSILON;
            fn u(s: &mut u64) -> S {
                ((splitmix(s) >> 11) as f64 / (1u64 << 53) as f64) as S
            }
            fn rnd(s: &mut u64, lo: S, hi: S) -> S {
                lo + (hi - lo) * u(s)
            }
            fn v3(s: &mut u64) -> Vector3<S> {
                loop {
                    let v = Vector3::new(rnd(s, -3.0, 3.0), rnd(s, -3.0, 3.0), rnd(s, -3.0, 3.0));
                    if v.magnitude2() > 0.05 {
                        return v;
                    }
                }
            }
            fn unit3(s: &mut u64) -> Vector3<S> {
                v3(s).normalize()
            }
            fn vmax(v: Vector3<S>) -> S {
                v.x.abs().max(v.y.abs()).max(v.z.abs())
            }
            fn m3dev(a: Matrix3<S>, b: Matrix3<S>) -> S {
                let mut m: S = 0.0;
                for c in 0..3 {
                    for r in 0..3 {
                        let d = (a[c][r] - b[c][r]).abs();
                        if !(d <= m) {
                            m = d;
                        }
                    }
                }
                m
            }
            fn name(s: &str) -> &'static str {
                Box::leak(format!("{}.{}", s, $tag).into_boxed_str())
            }

            // ---------------------------------------------------------------- C02
            /// `invert()` of a well-conditioned matrix scaled by a tiny / huge factor is Some and a two-sided inverse
            /// (the determinant is then far below the approximate-equality allowance but not zero), and
            /// `inverse_transform` of a matrix with bottom row (0,0,0,w) is that same inverse
            pub fn c02(n: u64, seed: u64) {
                let t = Tally::new(name("c02.scaled_inverse"));
                let tw = Tally::new(name("c02.inverse_transform_bottom_row_w"));
                let mut s = seed ^ 0xc02;
                let scales: [S; 6] = [1.0, (2.0 as S).powi(-$tiny_pow), (2.0 as S).powi(-$tiny_pow / 2), (2.0 as S).powi($tiny_pow / 3), 1.0e-3, 3.0];
                for i in 0..n.min(4000) {
                    let k = scales[(i % 6) as usize];
                    // identity + strictly upper/lower shear + mild diagonal: condition number O(10)
                    let mut a4 = Matrix4::<S>::identity();
                    for c in 0..4 {
                        for r in 0..4 {
                            if c != r && splitmix(&mut s) % 3 == 0 {
                                a4[c][r] = rnd(&mut s, -1.0, 1.0);
                            }
                        }
                        a4[c][c] = [1.0, 2.0, -1.0, 0.5][(splitmix(&mut s) % 4) as usize];
                    }
                    if a4.determinant().abs() < 0.2 {
                        continue;
                    }
                    let m4 = a4 * k;
                    let m3 = Matrix3::from_cols(m4.x.truncate(), m4.y.truncate(), m4.z.truncate());
                    let m2 = Matrix2::from_cols(m3.x.truncate(), m3.y.truncate());
                    let tol = 2000.0 * EPS;
                    let ok4 = match m4.invert() {
                        Some(nv) => {
                            let (p, q) = (m4 * nv, nv * m4);
                            let mut ok = true;
                            for c in 0..4 {
                                for r in 0..4 {
                                    let w = if c == r { 1.0 } else { 0.0 };
                                    ok &= (p[c][r] - w).abs() <= tol && (q[c][r] - w).abs() <= tol;
                                }
                            }
                            ok
                        }
                        None => false,
                    };
                    t.rec(ok4, || format!("Matrix4<{}> m = {:?}: invert() = {:?}", $tag, m4, m4.invert()));
                    if a4.x.truncate().cross(a4.y.truncate()).dot(a4.z.truncate()).abs() > 0.2 {
                        let ok3 = match m3.invert() {
                            Some(nv) => m3dev(m3 * nv, Matrix3::identity()) <= tol && m3dev(nv * m3, Matrix3::identity()) <= tol,
                            None => false,
                        };
                        t.rec(ok3, || format!("Matrix3<{}> m = {:?}: invert() = {:?}", $tag, m3, m3.invert()));
                        let i3: Option<Matrix3<S>> = Transform::<Point3<S>>::inverse_transform(&m3);
                        t.rec(i3 == m3.invert(), || format!("Matrix3<{}> m = {:?}: Transform<Point3>::inverse_transform = {:?}, invert = {:?}", $tag, m3, i3, m3.invert()));
                        let i2: Option<Matrix3<S>> = Transform::<Point2<S>>::inverse_transform(&m3);
                        t.rec(i2 == m3.invert(), || format!("Matrix3<{}> m = {:?}: Transform<Point2>::inverse_transform = {:?}, invert = {:?}", $tag, m3, i2, m3.invert()));
                    }
                    if (m2.x.x * m2.y.y - m2.x.y * m2.y.x).abs() > 0.2 * k * k {
                        let ok2 = match m2.invert() {
                            Some(nv) => {
                                let p = m2 * nv;
                                (p.x.x - 1.0).abs() <= tol && (p.y.y - 1.0).abs() <= tol && p.x.y.abs() <= tol && p.y.x.abs() <= tol
                            }
                            None => false,
                        };
                        t.rec(ok2, || format!("Matrix2<{}> m = {:?}: invert() = {:?}", $tag, m2, m2.invert()));
                    }
                    t.rec(m4.inverse_transform() == m4.invert(), || format!("Matrix4<{}> m = {:?}: inverse_transform != invert", $tag, m4));
                    // bottom row (0, 0, 0, w)
                    let mut b = a4;
                    for c in 0..3 {
                        b[c][3] = 0.0;
                    }
                    b[3][3] = [2.0, 0.5, 4.0, -1.0, 1.0, 0.0][(i % 6) as usize];
                    let it = b.inverse_transform();
                    let iv = b.invert();
                    tw.rec(it == iv && (b.determinant() == 0.0) == it.is_none(),
                        || format!("Matrix4<{}> m = {:?}: inverse_transform() = {:?} but invert() = {:?}", $tag, b, it, iv));
                }
                // a 2x2 matrix whose determinant is subnormal (non-zero) while its inverse is perfectly representable
                let ts = Tally::new(name("c02.inverse_subnormal_determinant"));
                for e in [2, 4, 8] {   // (exponents for which the determinant and both products are exactly representable subnormals)
                    let sc = S::MIN_POSITIVE.sqrt() * (2.0 as S).powi(-e);
                    for base in [[1.0 as S, 2.0, 3.0, 4.0], [2.0, -1.0, 0.5, 4.0], [1.0, 0.0, 0.0, 1.0], [0.0, 2.0, -2.0, 0.0]] {
                        let m = Matrix2::new(base[0] * sc, base[1] * sc, base[2] * sc, base[3] * sc);
                        let ok = match m.invert() {
                            Some(nv) => {
                                let p = m * nv;
                                let tol = 64.0 * EPS;
                                (p.x.x - 1.0).abs() <= tol && (p.y.y - 1.0).abs() <= tol && p.x.y.abs() <= tol && p.y.x.abs() <= tol
                            }
                            None => m.determinant() == 0.0,
                        };
                        ts.rec(ok, || format!("Matrix2<{}> m = {:?} (determinant {:e}): invert() = {:?}", $tag, m, m.determinant(), m.invert()));
                    }
                }
                // exactly singular 2x2 matrices with entries whose products are not representable (equal columns, proportional
                // rows): both products of the determinant are the same number, so it is exactly zero and there is no inverse
                let tg = Tally::new(name("c02.singular_2x2_exact"));
                for &(a, b) in [(0.1 as S, 0.3 as S), (0.7, 1.0 / 3.0), (1.1, -2.3), (3.3e-3, 7.7e5), (-0.9, 0.1)].iter() {
                    for m in [Matrix2::new(a, b, a, b), Matrix2::new(a, b, 2.0 * a, 2.0 * b), Matrix2::new(a, a, b, b), Matrix2::new(-a, b, 4.0 * a, -4.0 * b)] {
                        tg.rec(m.determinant() == 0.0 && m.invert().is_none(), || format!("Matrix2<{}> m = {:?}: determinant = {:e}, invert = {:?}", $tag, m, m.determinant(), m.invert()));
                    }
                }
                tg.print();
                t.print();
                tw.print();
                ts.print();
            }

            // ---------------------------------------------------------------- C04
            /// q * invert(q) = invert(q) * q = one for non-zero q of any size; rotate_point = rotate_vector(p - origin)
            pub fn c04(n: u64, seed: u64) {
                let t = Tally::new(name("c04.invert_any_magnitude"));
                let tp = Tally::new(name("c04.rotate_point_is_rotate_vector"));
                let mut s = seed ^ 0xc04;
                let scales: [S; 6] = [1.0, (2.0 as S).powi(-$tiny_pow), (2.0 as S).powi(-$tiny_pow + 7), (2.0 as S).powi($tiny_pow / 3), 1.0e-3, 5.0];
                for i in 0..n.min(4000) {
                    let k = scales[(i % 6) as usize];
                    let q = Quaternion::new(rnd(&mut s, -3.0, 3.0), rnd(&mut s, -3.0, 3.0), rnd(&mut s, -3.0, 3.0), rnd(&mut s, -3.0, 3.0));
                    if q.magnitude2() < 0.1 {
                        continue;
                    }
                    let q = q * k;
                    let iv = Rotation::invert(&q);
                    let (a, b) = (q * iv, iv * q);
                    let tol = 64.0 * EPS;
                    let ok = (a.s - 1.0).abs() <= tol && vmax(a.v) <= tol && (b.s - 1.0).abs() <= tol && vmax(b.v) <= tol;
                    t.rec(ok, || format!("Quaternion<{}> q = {:?}: q*invert(q) = {:?}, invert(q)*q = {:?}", $tag, q, a, b));
                    // any quaternion (not only unit ones)
                    let q2 = Quaternion::new(rnd(&mut s, -3.0, 3.0), rnd(&mut s, -3.0, 3.0), rnd(&mut s, -3.0, 3.0), rnd(&mut s, -3.0, 3.0));
                    let v = v3(&mut s);
                    let p = Point3::from_vec(v);
                    let (rp, rv) = (q2.rotate_point(p).to_vec(), q2.rotate_vector(p - Point3::origin()));
                    let sz = q2.magnitude2() * vmax(v) + 1.0;
                    tp.rec(vmax(rp - rv) <= 64.0 * EPS * sz && vmax(rv - q2 * v) <= 64.0 * EPS * sz,
                        || format!("Quaternion<{}> q = {:?} p = {:?}: rotate_point = {:?}, rotate_vector(p - origin) = {:?}, q * v = {:?}", $tag, q2, p, rp, rv, q2 * v));
                }
                // |q|^2 so small that its reciprocal overflows while conj / |q|^2 is representable; and |q|^2 next to (not at) one
                let half_min_exp = if EPS < 1.0e-10 { -514 } else { -66 };
                for (k, u) in [(2.0 as S).powi(half_min_exp), (2.0 as S).powi(half_min_exp - 2), 1.0 + 4.5e-8, 1.0 - 3.0e-7, 1.0 + 4.0e-7, 1.0 + 1.0e-5].iter().enumerate() {
                    for base in [[1.0 as S, -1.0, 1.0, 2.0], [0.0, 1.0, 0.0, 0.0], [1.0, 3.0e-4, 0.0, 0.0], [0.5, 0.5, -0.5, 0.5]] {
                        // (at the tiny scales only bases whose squared length is an exactly representable subnormal)
                        if k < 2 && base[1] == 3.0e-4 { continue; }
                        let q = Quaternion::new(base[0], base[1], base[2], base[3]) * *u;
                        let iv = Rotation::invert(&q);
                        let (a, b) = (q * iv, iv * q);
                        let tol = 64.0 * EPS;
                        let ok = (a.s - 1.0).abs() <= tol && vmax(a.v) <= tol && (b.s - 1.0).abs() <= tol && vmax(b.v) <= tol;
                        t.rec(ok, || format!("Quaternion<{}> q = {:?} (|q|^2 = {:e}): invert(q) = {:?}, q*invert(q) = {:?}", $tag, q, q.magnitude2(), iv, a));
                    }
                }
                // q * v for non-unit q with a huge scalar part and a tiny (non-zero) vector part: the formula of the property,
                // v + 2 s (qv x v) + 2 qv x (qv x v), evaluated in f64
                let tq = Tally::new(name("c04.mul_v_formula_any_magnitude"));
                for &(sc, tv) in [(1.0e10 as S, 1.0e-8 as S), (1.0e6, 1.0e-7), (1.0e3, 5.0e-8), (1.0e12, 1.0e-9), (2.0, 1.0e-9), (1.0e-3, 1.0e10)].iter() {
                    for ax in 0..3 {
                        let mut qv = [0.0 as S; 3];
                        qv[ax] = tv;
                        qv[(ax + 1) % 3] = -0.5 * tv;
                        let q = Quaternion::new(sc, qv[0], qv[1], qv[2]);
                        let v = Vector3::new(0.3 as S, 1.0, -2.0);
                        let (q6, v6) = (Vector3::new(qv[0] as f64, qv[1] as f64, qv[2] as f64), Vector3::new(v.x as f64, v.y as f64, v.z as f64));
                        let want = v6 + q6.cross(v6) * (2.0 * sc as f64) + q6.cross(q6.cross(v6)) * 2.0;
                        let got = q * v;
                        let g6 = Vector3::new(got.x as f64, got.y as f64, got.z as f64);
                        let tolv = 64.0 * (EPS as f64) * (1.0 + want.magnitude() + (sc as f64) * (tv as f64) * 4.0);
                        let r2 = q.rotate_vector(v);
                        tq.rec((g6 - want).magnitude() <= tolv && (r2 - got).magnitude() as f64 <= tolv,
                            || format!("Quaternion<{}> q = {:?}, v = {:?}: q * v = {:?}, v + 2s(qv x v) + 2 qv x (qv x v) = {:?}", $tag, q, v, got, want));
                    }
                }
                tq.print();
                t.print();
                tp.print();
            }

            // ---------------------------------------------------------------- C05 / C06
            /// rotations by very small angles: every representation moves v by t (a x v) to first order;
            /// rotations next to a half turn: matrix -> quaternion returns +-q
            pub fn c05(n: u64, seed: u64) {
                let t = Tally::new(name("c05.small_angle_representations_agree"));
                let th = Tally::new(name("c05.near_half_turn_round_trip"));
                let t6 = Tally::new(name("c06.small_angle_axis_angle"));
                let mut s = seed ^ 0xc05;
                let angles: &[S] = &$small_angles;
                for i in 0..n.min(3000) {
                    let a = unit3(&mut s);
                    let ang = angles[(i as usize) % angles.len()] * if i % 2 == 0 { 1.0 } else { -1.0 };
                    let v = v3(&mut s);
                    // displacement by Rodrigues' formula, evaluated in f64
                    let rod = |ax: Vector3<S>| -> Vector3<S> {
                        let a6 = Vector3::new(ax.x as f64, ax.y as f64, ax.z as f64).normalize();
                        let v6 = Vector3::new(v.x as f64, v.y as f64, v.z as f64);
                        let t6 = ang as f64;
                        let d = a6.cross(v6) * t6.sin() + (a6 * a6.dot(v6) - v6) * (1.0 - t6.cos());
                        Vector3::new(d.x as S, d.y as S, d.z as S)
                    };
                    let want = rod(a);
                    let slack = want.magnitude() * 1.0e-3 + 16.0 * EPS * v.magnitude();
                    let q: Quaternion<S> = Rotation3::from_axis_angle(a, Rad(ang));
                    let m3 = Matrix3::from(q);
                    let b3 = Basis3::from(q);
                    let m4 = Matrix4::from(q);
                    let d = |w: Vector3<S>| (w - v - want).magnitude();
                    let ok = d(q * v) <= slack && d(q.rotate_vector(v)) <= slack && d(m3 * v) <= slack && d(b3.rotate_vector(v)) <= slack
                        && d(m4.transform_vector(v)) <= slack && d(Matrix3::from(b3) * v) <= slack;
                    t.rec(ok, || format!("unit Quaternion<{}> for axis {:?} angle {:e}: v = {:?}; displacements q*v {:?}, Matrix3::from(q)*v {:?}, Basis3 {:?}, Matrix4 {:?}; want {:?}",
                        $tag, a, ang, v, q * v - v, m3 * v - v, b3.rotate_vector(v) - v, m4.transform_vector(v) - v, want));
                    // C06: the constructors themselves at small angles
                    let c3 = Matrix3::from_axis_angle(a, Rad(ang));
                    let c4 = Matrix4::from_axis_angle(a, Rad(ang));
                    let cb: Basis3<S> = Rotation3::from_axis_angle(a, Rad(ang));
                    let ax = [Vector3::<S>::unit_x(), Vector3::unit_y(), Vector3::unit_z()][(i % 3) as usize];
                    let qx: Quaternion<S> = match i % 3 { 0 => Rotation3::from_angle_x(Rad(ang)), 1 => Rotation3::from_angle_y(Rad(ang)), _ => Rotation3::from_angle_z(Rad(ang)) };
                    let wantx = rod(ax);
                    let ok6 = d(c3 * v) <= slack && d(c4.transform_vector(v)) <= slack && d(cb.rotate_vector(v)) <= slack
                        && (qx * v - v - wantx).magnitude() <= wantx.magnitude() * 1.0e-3 + 16.0 * EPS * v.magnitude();
                    t6.rec(ok6, || format!("from_axis_angle<{}>(axis {:?}, angle {:e}) on v = {:?}: Matrix3 moves by {:?}, Quaternion by {:?}, from_angle_{} by {:?}; want {:?}",
                        $tag, a, ang, v, c3 * v - v, q * v - v, ["x", "y", "z"][(i % 3) as usize], qx * v - v, want));
                    // next to a half turn
                    let del = angles[(i as usize) % angles.len()] * [1.0, 30.0, 1000.0][(i as usize / angles.len()) % 3];
                    let half: S = Rad::<S>::turn_div_2().0;
                    let qh: Quaternion<S> = Rotation3::from_axis_angle(a, Rad(half - del));
                    let bh = Basis3::from(qh);
                    let mh = Matrix3::from(qh);
                    let back_b = Quaternion::from(bh);
                    let back_m = Quaternion::from(mh);
                    let pm = |x: Quaternion<S>| {
                        let same = (x.s - qh.s).abs().max(vmax(x.v - qh.v));
                        let neg = (x.s + qh.s).abs().max(vmax(x.v + qh.v));
                        same.min(neg)
                    };
                    let tol = 64.0 * EPS;
                    th.rec(pm(back_b) <= tol && pm(back_m) <= tol && (back_b.magnitude() - 1.0).abs() <= tol,
                        || format!("unit Quaternion<{}> q = {:?} (half turn - {:e} about {:?}): Quaternion::from(Basis3::from(q)) = {:?}, from(Matrix3) = {:?}",
                            $tag, qh, del, a, back_b, back_m));
                }
                // bit-exact ties between two diagonal elements of the matrix (two vector components of equal
                // magnitude, the third smaller -- zero included -- and |s| < 1/2 so that the trace is negative)
                let tt = Tally::new(name("c05.diagonal_tie_round_trip"));
                let smalls: [S; 6] = [0.0, 1.0e-3, 0.05, 0.2, -0.3, 0.5];
                let ws: [S; 5] = [0.0, 0.1, -0.2, 0.3, 0.45];
                for (k, &y) in smalls.iter().enumerate() {
                    for &w in ws.iter() {
                        for pos in 0..3 {
                            for sg in [1.0 as S, -1.0] {
                                // a chosen so that the quaternion is unit up to rounding; normalise keeps the tie
                                let a = ((1.0 - w * w - y * y) / 2.0 as S).sqrt();
                                if a <= y.abs() { continue; }
                                let (x_, y_, z_) = match pos { 0 => (a, y, sg * a), 1 => (a, sg * a, y), _ => (y, a, sg * a) };
                                let q = Quaternion::new(w, x_, y_, z_);
                                let q = q / q.magnitude();
                                let m = Matrix3::from(q);
                                let back = Quaternion::from(m);
                                let same = (back.s - q.s).abs().max(vmax(back.v - q.v));
                                let neg = (back.s + q.s).abs().max(vmax(back.v + q.v));
                                let _ = k;
                                tt.rec(same.min(neg) <= 64.0 * EPS, || format!("unit Quaternion<{}> q = {:?} (Matrix3 diagonal {:?}, {:?}, {:?}): Quaternion::from(Matrix3::from(q)) = {:?}",
                                    $tag, q, m.x.x, m.y.y, m.z.z, back));
                            }
                        }
                    }
                }
                t.print();
                th.print();
                t6.print();
                tt.print();
            }

            // ---------------------------------------------------------------- C08
            /// Decomposed with |scale| > 1e-6 (however small or large): inverse_transform is Some and undoes it
            pub fn c08(n: u64, seed: u64) {
                let t = Tally::new(name("c08.decomposed_inverse_small_scale"));
                let tm = Tally::new(name("c08.matrix_inverse_small_scale"));
                let mut s = seed ^ 0xc08;
                let scales: [S; 8] = [1.1e-6, 1.0e-5, -1.0e-5, 1.0e-4, 3.0e-4, -1.0e-3, 1.0e3, 0.5];
                for i in 0..n.min(3000) {
                    let sc = scales[(i % 8) as usize];
                    let a = unit3(&mut s);
                    let ang = rnd(&mut s, -3.0, 3.0);
                    let rot: Quaternion<S> = Rotation3::from_axis_angle(a, Rad(ang));
                    let v = v3(&mut s);
                    let dq = Decomposed { scale: sc, rot, disp: Vector3::new(0.0, 0.0, 0.0) };
                    let db = Decomposed { scale: sc, rot: Basis3::from(rot), disp: Vector3::new(0.0, 0.0, 0.0) };
                    let rot2: Basis2<S> = Rotation2::from_angle(Rad(ang));
                    let d2 = Decomposed { scale: sc, rot: rot2, disp: Vector2::new(0.0, 0.0) };
                    let tol = 256.0 * EPS * vmax(v).max(1.0);
                    let okq = match (dq.inverse_transform(), dq.inverse_transform_vector(dq.transform_vector(v))) {
                        (Some(iv), Some(w)) => vmax(iv.transform_vector(dq.transform_vector(v)) - v) <= tol && vmax(w - v) <= tol
                            && vmax(iv.transform_point(dq.transform_point(Point3::from_vec(v))).to_vec() - v) <= tol
                            && (iv.scale * sc - 1.0).abs() <= 8.0 * EPS,
                        _ => false,
                    };
                    t.rec(okq, || format!("Decomposed<Vector3<{}>, Quaternion> scale = {:e}: inverse_transform() = {:?}, inverse_transform_vector = {:?}",
                        $tag, sc, dq.inverse_transform().map(|x| x.scale), dq.inverse_transform_vector(dq.transform_vector(v))));
                    let okb = match db.inverse_transform() {
                        Some(iv) => vmax(iv.transform_vector(db.transform_vector(v)) - v) <= tol,
                        None => false,
                    };
                    t.rec(okb, || format!("Decomposed<Vector3<{}>, Basis3> scale = {:e}: inverse_transform() is {:?}", $tag, sc, db.inverse_transform().map(|x| x.scale)));
                    let v2 = Vector2::new(v.x, v.y);
                    let ok2 = match d2.inverse_transform() {
                        Some(iv) => {
                            let w = iv.transform_vector(d2.transform_vector(v2)) - v2;
                            w.x.abs().max(w.y.abs()) <= tol
                        }
                        None => false,
                    };
                    t.rec(ok2, || format!("Decomposed<Vector2<{}>, Basis2> scale = {:e}: inverse_transform() is {:?}", $tag, sc, d2.inverse_transform().map(|x| x.scale)));
                    // the matrix of the same transform: non-zero determinant => invertible, and it undoes the transform
                    let m4: Matrix4<S> = dq.into();
                    if sc.abs() >= 1.0e-5 || $tag == "f64" {
                        let okm = match (m4.inverse_transform(), m4.inverse_transform_vector(m4.transform_vector(v))) {
                            (Some(iv), Some(w)) => vmax(iv.transform_vector(m4.transform_vector(v)) - v) <= tol && vmax(w - v) <= tol,
                            _ => false,
                        };
                        tm.rec(okm, || format!("Matrix4<{}> of Decomposed scale = {:e} (det = {:e}): inverse_transform() is_some = {}, inverse_transform_vector is_some = {}",
                            $tag, sc, m4.determinant(), m4.inverse_transform().is_some(), m4.inverse_transform_vector(m4.transform_vector(v)).is_some()));
                    }
                }
                t.print();
                tm.print();
            }

            // ---------------------------------------------------------------- C10
            /// `planar` where exact arithmetic and IEEE arithmetic part ways: fovy = 0 (the documented orthographic case: the focal
            /// point is at infinity, so it is never between the planes and nothing panics, wherever the planes are), height = 0
            /// (inv_f infinite: the focal point is a zero), both (0/0: the assertion fails)
            pub fn c10(_n: u64, seed: u64) {
                let t = Tally::new(name("c10.planar_orthographic_case"));
                let tz = Tally::new(name("c10.planar_zero_height"));
                let tr = Tally::new(name("c10.planar_rejections_near_fovy_zero"));
                let mut s = seed ^ 0xc10;
                let quiet = |f: &dyn Fn() -> Matrix4<S>| -> Option<Matrix4<S>> {
                    std::panic::catch_unwind(std::panic::AssertUnwindSafe(|| f())).ok()
                };
                for i in 0..400u64 {
                    let h = rnd(&mut s, 0.5, 4.0);
                    let aspect = rnd(&mut s, 0.5, 2.0);
                    // planes anywhere: both positive, both negative, straddling the origin, in either order
                    let (n, f) = match i % 4 {
                        0 => (rnd(&mut s, 0.1, 2.0), rnd(&mut s, 3.0, 50.0)),
                        1 => (rnd(&mut s, -5.0, -1.0), rnd(&mut s, 3.0, 50.0)),
                        2 => (rnd(&mut s, 3.0, 50.0), rnd(&mut s, -5.0, -1.0)),
                        _ => (rnd(&mut s, -50.0, -3.0), rnd(&mut s, -2.0, -0.5)),
                    };
                    let m = quiet(&|| planar(Rad(0.0 as S), aspect, h, n, f));
                    let ok = match m {
                        Some(m) => {
                            // the window of height h and width aspect*h maps to [-1,1]^2, z = -n to -1, z = -f to +1
                            let c = m.transform_point(Point3::new(aspect * h / 2.0, h / 2.0, -n));
                            let d = m.transform_point(Point3::new(-aspect * h / 2.0, -h / 2.0, -f));
                            let tol = 64.0 * EPS;
                            (c.x - 1.0).abs() <= tol && (c.y - 1.0).abs() <= tol && (c.z + 1.0).abs() <= tol * (1.0 + (n.abs() + f.abs()) / (n - f).abs())
                                && (d.x + 1.0).abs() <= tol && (d.y + 1.0).abs() <= tol && (d.z - 1.0).abs() <= tol * (1.0 + (n.abs() + f.abs()) / (n - f).abs())
                        }
                        None => false,
                    };
                    t.rec(ok, || format!("planar::<{}>(fovy = 0, aspect = {:e}, height = {:e}, near = {:e}, far = {:e}) must not panic (focal point at infinity) and must map the window to [-1,1]^2, z=-n to -1, z=-f to +1; got {:?}",
                        $tag, aspect, h, n, f, m));
                    // height = 0 with a non-zero fovy: focal point 0 -- rejected exactly when 0 lies between the planes (inclusive)
                    let fv = rnd(&mut s, 0.3, 2.5);
                    let acc = quiet(&|| planar(Rad(fv), aspect, 0.0 as S, n, f)).is_some();
                    let between = n.min(f) <= 0.0 && 0.0 <= n.max(f);
                    tz.rec(acc == !between, || format!("planar::<{}>(fovy = {:e}, aspect = {:e}, height = 0, near = {:e}, far = {:e}): accepted = {}, 0 between the planes = {}", $tag, fv, aspect, n, f, acc, between));
                    // height = 0 and fovy = 0: inv_f = 0/0, the focal-point assertion fails
                    let nan = quiet(&|| planar(Rad(0.0 as S), aspect, 0.0 as S, n, f)).is_some();
                    tz.rec(!nan, || format!("planar::<{}>(fovy = 0, height = 0, near = {:e}, far = {:e}) must panic (focal point NaN)", $tag, n, f));
                    // the other preconditions are not waived in the orthographic case (nor next to it)
                    for &fv0 in [0.0 as S, 1.0e-3, -0.5].iter() {
                        let za = quiet(&|| planar(Rad(fv0), 0.0 as S, h, n, f)).is_some();
                        let nf = quiet(&|| planar(Rad(fv0), aspect, h, n, n)).is_some();
                        let ng = quiet(&|| planar(Rad(fv0), aspect, -h, n, f)).is_some();
                        tr.rec(!za && !nf && !ng, || format!("planar::<{}>(fovy = {:e}, ..) must panic for zero aspect (accepted: {}), near = far = {:e} (accepted: {}), negative height {:e} (accepted: {})",
                            $tag, fv0, za, n, nf, -h, ng));
                    }
                }
                // windows that are huge compared with the focal distance's reciprocal (bottom-row entry 2 tan(fovy/2)/h tiny but
                // not zero): still maps z = -n to -1 and z = -f to +1, and the window to [-1,1]^2
                let tb = Tally::new(name("c10.planar_small_focal_reciprocal"));
                for &(fv, h) in [(0.1 as S, 1.0e6 as S), (1.0e-3, 1.0e3), (0.5, 1.0e7), (1.0e-5, 10.0), (1.0, 3.0e7)].iter() {
                    for &(nn, ff) in [(0.1 as S, 2.0 as S), (-0.05, 1.0), (1.0, 0.2)].iter() {
                        let (n, f) = (nn * h, ff * h);
                        let aspect = 1.5 as S;
                        let m = match quiet(&|| planar(Rad(fv), aspect, h, n, f)) { Some(m) => m, None => continue };
                        let c = m.transform_point(Point3::new(aspect * h / 4.0, -h / 4.0, -n));
                        let d = m.transform_point(Point3::new(0.0, h / 8.0, -f));
                        let w = m.transform_point(Point3::new(aspect * h / 2.0, h / 2.0, 0.0));
                        let tol = 256.0 * EPS * (1.0 + (n.abs() + f.abs()) / (n - f).abs());
                        tb.rec((c.z + 1.0).abs() <= tol && (d.z - 1.0).abs() <= tol && (w.x - 1.0).abs() <= tol && (w.y - 1.0).abs() <= tol,
                            || format!("planar::<{}>(fovy = {:e}, aspect = 1.5, height = {:e}, near = {:e}, far = {:e}): z=-n -> {:e} (want -1), z=-f -> {:e} (want +1), window corner -> ({:e}, {:e}); bottom row {:?}",
                                $tag, fv, h, n, f, c.z, d.z, w.x, w.y, m.row(3)));
                    }
                }
                tb.print();
                // exactly a half turn given in degrees is outside (0, pi) / inside |fovy| >= pi
                let td = Tally::new(name("c10.half_turn_in_degrees_rejected"));
                let p180 = std::panic::catch_unwind(|| perspective(Deg(180.0 as S), 1.5, 0.1, 100.0)).is_ok();
                let q180 = std::panic::catch_unwind(|| planar(Deg(180.0 as S), 1.5, 2.0, 0.1, 100.0)).is_ok();
                let r180 = std::panic::catch_unwind(|| planar(Deg(-180.0 as S), 1.5, 2.0, 0.1, 100.0)).is_ok();
                let p179 = std::panic::catch_unwind(|| perspective(Deg(179.0 as S), 1.5, 0.1, 100.0)).is_ok();
                td.rec(!p180 && !q180 && !r180 && p179, || format!("<{}>: perspective(Deg(180)) accepted: {}, planar(Deg(180)) accepted: {}, planar(Deg(-180)) accepted: {}, perspective(Deg(179)) accepted: {}", $tag, p180, q180, r180, p179));
                td.print();
                t.print();
                tz.print();
                tr.print();
            }

            // ---------------------------------------------------------------- C12
            /// from_homogeneous(k * to_homogeneous(p)) = p, exactly, for k a power of two of any size (no rounding occurs)
            pub fn c12(_n: u64, seed: u64) {
                let t = Tally::new(name("c12.homogeneous_any_scale"));
                let mut s = seed ^ 0xc12;
                for e in -$pow_range..=$pow_range {
                    for sign in [1.0 as S, -1.0] {
                        let k = sign * (2.0 as S).powi(e);
                        let p = Point3::new((splitmix(&mut s) % 17) as S - 8.0, (splitmix(&mut s) % 17) as S - 8.0, (splitmix(&mut s) % 9) as S + 1.0);
                        let h = p.to_homogeneous() * k;
                        let back = Point3::from_homogeneous(h);
                        t.rec(back == p, || format!("Point3<{}> p = {:?}, k = {:e}: from_homogeneous(k * to_homogeneous(p)) = {:?}", $tag, p, k, back));
                    }
                }
                t.print();
                // centroid of long lists (any length, in particular around and beyond powers of two): the sum divided by the count
                let tc = Tally::new(name("c12.centroid_long_lists"));
                for &n in [2usize, 3, 15, 16, 17, 255, 256, 257, 300, 511, 513, 768, 1000, 1025].iter() {
                    let pts3: Vec<Point3<S>> = (0..n).map(|i| Point3::new(i as S, -2.0 * (i as S), 3.0)).collect();
                    let pts2: Vec<Point2<S>> = (0..n).map(|i| Point2::new(if i + 1 == n { 257.0 } else { 0.0 }, i as S)).collect();
                    let pts1: Vec<Point1<S>> = (0..n).map(|i| Point1::new(i as S)).collect();
                    let (c3, c2, c1) = (Point3::centroid(&pts3), Point2::centroid(&pts2), Point1::centroid(&pts1));
                    let half = (n as S - 1.0) / 2.0;
                    let tol = 8.0 * EPS * (n as S);
                    let ok = (c3.x - half).abs() <= tol && (c3.y + 2.0 * half).abs() <= 2.0 * tol && (c3.z - 3.0).abs() <= tol
                        && (c2.x - 257.0 / (n as S)).abs() <= tol && (c2.y - half).abs() <= tol && (c1.x - half).abs() <= tol;
                    tc.rec(ok, || format!("centroid of {} points <{}>: Point3 {:?} (want ({:e}, {:e}, 3)), Point2 {:?} (want ({:e}, {:e})), Point1 {:?}", n, $tag, c3, half, -2.0 * half, c2, 257.0 / (n as S), half, c1));
                }
                tc.print();
            }

            // ---------------------------------------------------------------- C13
            /// trigonometry of exact quarter turns (either sign, several turns) and of very large angles
            pub fn c13(n: u64, seed: u64) {
                let t = Tally::new(name("c13.trig_quarter_turns"));
                let tl = Tally::new(name("c13.trig_large_angles"));
                let d2r = std::f64::consts::PI / 180.0;
                let tol = 8.0 * (EPS as f64);
                let cl = |a: S, b: f64, scale: f64| (a as f64 - b).abs() <= tol * (1.0 + scale);
                for k in -24i32..=24 {
                    let dg = 90.0 * k as S;
                    let r64 = dg as f64 * d2r;
                    let (sd, cd) = Deg(dg).sin_cos();
                    t.rec(cl(Deg(dg).sin(), r64.sin(), r64.abs()) && cl(Deg(dg).cos(), r64.cos(), r64.abs()) && cl(sd, r64.sin(), r64.abs()) && cl(cd, r64.cos(), r64.abs()),
                        || format!("Deg<{}>({}): sin = {:e}, cos = {:e}, sin_cos = ({:e}, {:e}); want ({:e}, {:e})", $tag, dg, Deg(dg).sin(), Deg(dg).cos(), sd, cd, r64.sin(), r64.cos()));
                    let rd: S = Rad::<S>::turn_div_4().0 * k as S;
                    let (sr, cr) = Rad(rd).sin_cos();
                    let w = rd as f64;
                    t.rec(cl(Rad(rd).sin(), w.sin(), w.abs()) && cl(Rad(rd).cos(), w.cos(), w.abs()) && cl(sr, w.sin(), w.abs()) && cl(cr, w.cos(), w.abs()),
                        || format!("Rad<{}>({:e}) (= {} quarter turns): sin = {:e}, cos = {:e}, sin_cos = ({:e}, {:e}); want ({:e}, {:e})", $tag, rd, k, Rad(rd).sin(), Rad(rd).cos(), sr, cr, w.sin(), w.cos()));
                    let neg = -Rad::<S>::turn_div_2() * (k as S);
                    t.rec(cl(neg.cos(), (neg.0 as f64).cos(), neg.0.abs() as f64) && cl(neg.sin(), (neg.0 as f64).sin(), neg.0.abs() as f64),
                        || format!("Rad<{}>({:e}): cos = {:e}, want {:e}", $tag, neg.0, neg.cos(), (neg.0 as f64).cos()));
                }
                let mut s = seed ^ 0xc13;
                for i in 0..n.min(20000) {
                    let mag = [30.0, 100.0, 1.0e3, 1.0e4, 1.0e5, 1.0e6, 1.0e7][(i % 7) as usize] as S;
                    let x = rnd(&mut s, -1.0, 1.0) * mag;
                    let w = x as f64;
                    // the radian measure is the argument itself: the wrappers must agree with the real functions of x
                    // up to the rounding of the result (and of tan's conditioning)
                    let okr = cl(Rad(x).sin(), w.sin(), 0.0) && cl(Rad(x).cos(), w.cos(), 0.0) && cl(Rad(x).sin_cos().0, w.sin(), 0.0) && cl(Rad(x).sin_cos().1, w.cos(), 0.0)
                        && (w.cos().abs() < 0.1 || cl(Rad(x).tan(), w.tan(), w.tan().abs() * 4.0))
                        && (w.sin().abs() < 0.1 || (cl(Rad(x).csc(), 1.0 / w.sin(), 100.0) && (w.cos().abs() < 0.1 || cl(Rad(x).cot(), 1.0 / w.tan(), 100.0))))
                        && (w.cos().abs() < 0.1 || cl(Rad(x).sec(), 1.0 / w.cos(), 100.0));
                    tl.rec(okr, || format!("Rad<{}>({:e}): sin = {:e} (real sine of the radian measure {:e}), cos = {:e} (want {:e}), tan = {:e} (want {:e})",
                        $tag, x, Rad(x).sin(), w.sin(), Rad(x).cos(), w.cos(), Rad(x).tan(), w.tan()));
                    // degrees: the conversion to radians rounds once (relative error eps => absolute error eps * |r| in the argument)
                    let r = w * d2r;
                    let okd = cl(Deg(x).sin(), r.sin(), r.abs() * 2.0) && cl(Deg(x).cos(), r.cos(), r.abs() * 2.0);
                    tl.rec(okd, || format!("Deg<{}>({:e}): sin = {:e}, cos = {:e}; want ({:e}, {:e})", $tag, x, Deg(x).sin(), Deg(x).cos(), r.sin(), r.cos()));
                }
                // reciprocal functions keep the relative accuracy of the functions they are the reciprocals of -- in particular
                // for small angles and next to multiples of a half turn, where cot and csc are large
                let tr = Tally::new(name("c13.reciprocal_trig_relative"));
                for i in 0..n.min(6000) {
                    let base: S = [0.0, 0.0, 0.0, 1.0, -1.0, 2.0][(i % 6) as usize] * Rad::<S>::turn_div_2().0;
                    let small = ((10.0 as S).powf(-rnd(&mut s, 0.5, 7.0))) * if i % 2 == 0 { 1.0 } else { -1.0 };
                    let x = base + small;
                    let w = x as f64;
                    let rel = |a: S, b: f64| (a as f64 - b).abs() <= 8.0 * (EPS as f64) * b.abs();
                    let ok = rel(Rad(x).cot(), 1.0 / w.tan()) && rel(Rad(x).csc(), 1.0 / w.sin()) && rel(Rad(x).sec(), 1.0 / w.cos());
                    tr.rec(ok, || format!("Rad<{}>({:e}): cot = {:e} (1/tan = {:e}), csc = {:e} (1/sin = {:e}), sec = {:e} (1/cos = {:e})",
                        $tag, x, Rad(x).cot(), 1.0 / w.tan(), Rad(x).csc(), 1.0 / w.sin(), Rad(x).sec(), 1.0 / w.cos()));
                    if base == 0.0 {
                        let d = small * 57.0;
                        let r = (d as f64) * d2r;
                        let reld = |a: S, b: f64| (a as f64 - b).abs() <= 16.0 * (EPS as f64) * b.abs();
                        tr.rec(reld(Deg(d).cot(), 1.0 / r.tan()) && reld(Deg(d).csc(), 1.0 / r.sin()),
                            || format!("Deg<{}>({:e}): cot = {:e} (want {:e}), csc = {:e} (want {:e})", $tag, d, Deg(d).cot(), 1.0 / r.tan(), Deg(d).csc(), 1.0 / r.sin()));
                    }
                }
                t.print();
                tl.print();
                tr.print();
            }

            // ---------------------------------------------------------------- C14
            /// slerp at constant angular speed, exactly (up to rounding) for |a.b| <= 0.9995 -- in this scalar type
            pub fn c14(n: u64, seed: u64) {
                let t = Tally::new(name("c14.slerp_constant_speed_far"));
                let mut s = seed ^ 0xc14;
                for i in 0..n.min(6000) {
                    let a4 = Vector4::new(rnd(&mut s, -1.0, 1.0), rnd(&mut s, -1.0, 1.0), rnd(&mut s, -1.0, 1.0), rnd(&mut s, -1.0, 1.0));
                    let b4 = Vector4::new(rnd(&mut s, -1.0, 1.0), rnd(&mut s, -1.0, 1.0), rnd(&mut s, -1.0, 1.0), rnd(&mut s, -1.0, 1.0));
                    if a4.magnitude2() < 0.05 || b4.magnitude2() < 0.05 {
                        continue;
                    }
                    let a4 = a4.normalize();
                    let o = (b4 - a4 * a4.dot(b4)).normalize();
                    // whole arc theta: mostly in the band 0.04 .. 0.4 rad (|dot| between 0.92 and 0.9992), sometimes wider
                    let theta: f64 = if i % 4 == 3 { 0.4 + 1.1 * u(&mut s) as f64 } else { 0.04 + 0.36 * u(&mut s) as f64 };
                    if theta.cos().abs() > 0.9994 {
                        continue;
                    }
                    let flip: S = if i % 2 == 0 { 1.0 } else { -1.0 };
                    let bq = (a4 * (theta.cos() as S) + o * (theta.sin() as S)) * flip;
                    let (qa, qb) = (Quaternion::new(a4.x, a4.y, a4.z, a4.w), Quaternion::new(bq.x, bq.y, bq.z, bq.w));
                    let tt = [0.1, 0.25, 0.37, 0.5, 0.8, 0.93][(i % 6) as usize] as S;
                    let r = qa.slerp(qb, tt);
                    // arc from a to r, measured with atan2 of the components along a and o (well conditioned everywhere)
                    let rv = Vector4::new(r.s, r.v.x, r.v.y, r.v.z);
                    let arc = (rv.dot(o) as f64).atan2(rv.dot(a4) as f64).abs();
                    let want = tt as f64 * theta;
                    let tol = 200.0 * EPS as f64;
                    t.rec((arc - want).abs() <= tol && (r.magnitude() as f64 - 1.0).abs() <= tol,
                        || format!("Quaternion<{}>: a = {:?}, b = {:?} (a.b = {:e}), t = {}: arc from a to slerp = {:e} rad, t * whole arc = {:e} rad (error {:e})",
                            $tag, qa, qb, qa.dot(qb), tt, arc, want, (arc - want).abs()));
                }
                t.print();
                // the sign rule exactly at the boundary: a.b negative but smaller in magnitude than machine epsilon
                // (axis-aligned pairs, so that the computed dot product is exactly -d): shorter arc = between a and -b
                let ts = Tally::new(name("c14.sign_rule_tiny_negative_dot"));
                let ds: [S; 6] = [EPS * 0.45, EPS * 0.9, EPS * 0.25, EPS * 1.0e-3, S::MIN_POSITIVE * 4.0, EPS * 3.0];
                for (k, &d) in ds.iter().enumerate() {
                    for slot in 0..3 {
                        for &tt in [0.25 as S, 0.5, 0.75, 1.0].iter() {
                            let c = (1.0 - d * d).sqrt();
                            let a = Quaternion::<S>::new(1.0, 0.0, 0.0, 0.0);
                            let mut v = [0.0 as S; 3];
                            v[slot] = if k % 2 == 0 { c } else { -c };
                            let b = Quaternion::<S>::new(-d, v[0], v[1], v[2]);
                            // reference on the arc from a to -b (a quarter turn up to d): angle t * pi/2
                            let th = (tt as f64) * std::f64::consts::FRAC_PI_2;
                            let want_s = th.cos() as S;
                            let want_v = -(v[slot]) * (th.sin() as S);
                            let rs = a.slerp(b, tt);
                            let rn = a.nlerp(b, tt);
                            let got_v = |q: Quaternion<S>| [q.v.x, q.v.y, q.v.z][slot];
                            let ok_s = (rs.s - want_s).abs() <= 1.0e-3 && (got_v(rs) - want_v).abs() <= 1.0e-3;
                            // nlerp: same plane and same side (not constant speed): direction of the vector part and positive s
                            let ok_n = got_v(rn) * want_v > 0.0 && (rn.magnitude() - 1.0).abs() <= 64.0 * EPS && (tt >= 1.0 || rn.s > 0.0);
                            ts.rec(ok_s && ok_n, || format!("Quaternion<{}>: a = {:?}, b = {:?} (a.b = {:e} < 0), t = {}: slerp = {:?}, nlerp = {:?}; the arc between a and -b has s = {:e}, v[{}] = {:e}",
                                $tag, a, b, a.dot(b), tt, rs, rn, want_s, slot, want_v));
                        }
                    }
                }
                ts.print();
                // lerp(a, b, t) = a + (b - a) t wherever that expression is finite, also next to the top of the range and for
                // amounts outside [0, 1]
                let tl = Tally::new(name("c14.lerp_large_values"));
                let top = S::MAX / 8.0;
                for &t_ in [10.0 as S, -5.0, 0.5, 1.0, 0.0, 2.0].iter() {
                    for &k in [1.0 as S, 0.3, -0.7].iter() {
                        let a = Vector3::new(top * k, -top * k, top * 0.3);
                        let b = a + Vector3::new(top * 1.0e-3, 0.0, -top * 2.0e-3) ;
                        let want = a + (b - a) * t_;
                        let got = a.lerp(b, t_);
                        let same = a.lerp(a, t_);
                        let qa = Quaternion::new(top * k, 1.0, -top * 0.1, 0.0);
                        let qsame = qa.lerp(qa, t_);
                        let ok = vmax(got - want) <= 16.0 * EPS * top && vmax(same - a) <= 16.0 * EPS * top && (qsame.s - qa.s).abs() <= 16.0 * EPS * top && vmax(qsame.v - qa.v) <= 16.0 * EPS * top;
                        tl.rec(ok, || format!("Vector3<{}> a = {:?}, b = {:?}, t = {}: lerp = {:?}, a + (b - a) t = {:?}; lerp(a, a, t) = {:?}", $tag, a, b, t_, got, want, same));
                    }
                }
                tl.print();
            }

            // ---------------------------------------------------------------- C11
            /// |u||v| cos(angle(u,v)) = u.v at every scale (angle must not depend on the lengths), angle in [0, pi], symmetric
            pub fn c11(n: u64, seed: u64) {
                let t = Tally::new(name("c11.angle_cosine_law_all_scales"));
                let mut s = seed ^ 0xc11;
                let scales: [S; 8] = $len_scales;
                for i in 0..n.min(4000) {
                    let (u0, v0) = if i % 5 == 0 {
                        // exactly perpendicular / at 60 degrees
                        (Vector3::new(3.0 as S, 4.0, 0.0), if i % 10 == 0 { Vector3::new(-4.0 as S, 3.0, 0.0) } else { Vector3::new(1.0 as S, 0.0, 1.0) })
                    } else { (v3(&mut s), v3(&mut s)) };
                    let (ku, kv) = (scales[(i % 8) as usize], scales[((i / 8) % 8) as usize]);
                    let (a, b) = (u0 * ku, v0 * kv);
                    let ang = a.angle(b).0;
                    let lhs = a.magnitude() * b.magnitude() * ang.cos();
                    let tol = 64.0 * EPS * a.magnitude() * b.magnitude();
                    let sym = b.angle(a).0;
                    let ok = (lhs - a.dot(b)).abs() <= tol && ang >= 0.0 && ang <= 3.1415927 && (sym - ang).abs() <= 16.0 * EPS;
                    t.rec(ok, || format!("Vector3<{}> u = {:?}, v = {:?}: angle(u,v) = {:e} rad, |u||v|cos(angle) = {:e}, u.v = {:e}; angle(v,u) = {:e}",
                        $tag, a, b, ang, lhs, a.dot(b), sym));
                    // the other dimensions and the quaternion
                    let (a4, b4) = (Vector4::new(a.x, a.y, a.z, ku * 0.5), Vector4::new(b.x, b.y, b.z, -kv * 0.25));
                    let g4 = a4.angle(b4).0;
                    let (a2, b2) = (Vector2::new(a.x, a.y), Vector2::new(b.x, b.y));
                    let g2 = a2.angle(b2).0;
                    let ok4 = (a4.magnitude() * b4.magnitude() * g4.cos() - a4.dot(b4)).abs() <= 64.0 * EPS * a4.magnitude() * b4.magnitude()
                        && (a2.magnitude2() == 0.0 || b2.magnitude2() == 0.0
                            || (a2.magnitude() * b2.magnitude() * g2.cos() - a2.dot(b2)).abs() <= 64.0 * EPS * a2.magnitude() * b2.magnitude());
                    t.rec(ok4, || format!("Vector4/Vector2<{}> (from u = {:?}, v = {:?}): angle4 = {:e}, angle2 = {:e}", $tag, a4, b4, g4, g2));
                    // very long / very short arguments whose squared lengths are still representable (Vector1, Vector4, Quaternion:
                    // the default `angle` divides by the product of the two lengths)
                    if i < 64 {
                        for &kx in $extreme_scales.iter() {
                            let (p4, q4) = (Vector4::new(u0.x, u0.y, u0.z, 0.5) * kx, Vector4::new(v0.x, v0.y, v0.z, -0.25) * kx);
                            let gx = p4.angle(q4).0;
                            let (pq, qq) = (Quaternion::new(p4.w, p4.x, p4.y, p4.z), Quaternion::new(q4.w, q4.x, q4.y, q4.z));
                            let gq = pq.angle(qq).0;
                            let unit = (p4 / p4.magnitude()).dot(q4 / q4.magnitude());
                            let g1 = Vector1::new(u0.x * kx).angle(Vector1::new(-v0.y.abs().max(0.1) * kx)).0;
                            let want1 = if u0.x > 0.0 { 3.1415927 } else { 0.0 };
                            t.rec((gx.cos() - unit).abs() <= 64.0 * EPS && (gq - gx).abs() <= 64.0 * EPS && (g1 - want1).abs() <= 1.0e-6,
                                || format!("Vector4/Quaternion/Vector1<{}> at scale {:e}: u = {:?}, v = {:?}: angle = {:e} (cos {:e}), cosine of the directions = {:e}; quaternion angle {:e}; Vector1 angle {:e} (want {:e})",
                                    $tag, kx, p4, q4, gx, gx.cos(), unit, gq, g1, want1));
                        }
                    }
                }
                let tn = Tally::new(name("c11.normalize_near_unit_length"));
                for &k in [1.00009 as S, 0.99995, 1.0 + 3.0e-6, 1.0 - 2.0e-7, 1.0002, 1.0e-4, 3.0e-9].iter() {
                    for base in [[0.6 as S, 0.0, 0.8, 0.0], [0.5, 0.5, 0.5, 0.5], [0.1, -0.7, 0.1, 0.7], [1.0, 0.0, 0.0, 0.0]] {
                        let q = Quaternion::new(base[0], base[1], base[2], base[3]) * k;
                        let v = Vector4::new(base[0], base[1], base[2], base[3]) * k;
                        let v3_ = Vector3::new(base[0], base[1], base[2]) * k;
                        let (nq, nv) = (q.normalize(), v.normalize());
                        let n3 = if v3_.magnitude2() > 0.0 { v3_.normalize().magnitude() } else { 1.0 };
                        tn.rec((nq.magnitude() - 1.0).abs() <= 8.0 * EPS && (nv.magnitude() - 1.0).abs() <= 8.0 * EPS && (n3 - 1.0).abs() <= 8.0 * EPS
                            && (nq.s * q.magnitude() - q.s).abs() <= 8.0 * EPS * q.magnitude(),
                            || format!("<{}> q = {:?}: |normalize(q)| = {:e}, |normalize(v4)| = {:e}, |normalize(v3)| = {:e}", $tag, q, nq.magnitude(), nv.magnitude(), n3));
                    }
                }
                tn.print();
                t.print();
            }

            // ---------------------------------------------------------------- C15
            /// between_vectors next to a half turn is still a rotation (orthonormal, det +1) taking a onto b through
            /// the angle between them; from_arc on non-unit inputs whose dot product happens to be 1
            pub fn c15(n: u64, seed: u64) {
                let t = Tally::new(name("c15.between_vectors_near_half_turn"));
                let ta = Tally::new(name("c15.from_arc_non_unit"));
                let mut s = seed ^ 0xc15;
                let dels: [f64; 6] = [1.0e-1, 1.0e-2, 1.0e-3, 1.0e-4, 3.0e-6, 1.0e-6];
                for i in 0..n.min(3000) {
                    let a = unit3(&mut s);
                    let o = {
                        let w = unit3(&mut s);
                        let p = w - a * a.dot(w);
                        if p.magnitude() < 0.2 { continue; }
                        p.normalize()
                    };
                    let del = dels[(i % 6) as usize];
                    if ($tag == "f32") && del < 1.0e-3 {
                        continue;
                    }
                    let ang = std::f64::consts::PI - del;
                    let b = (a * (ang.cos() as S) + o * (ang.sin() as S)).normalize();
                    let b3: Basis3<S> = Rotation::between_vectors(a, b);
                    let q: Quaternion<S> = Rotation::between_vectors(a, b);
                    let m = Matrix3::from(b3);
                    let tol = 4000.0 * EPS;
                    let orth = m3dev(m.transpose() * m, Matrix3::identity());
                    // r(a) = b is ill-conditioned next to a half turn (the axis comes from a x b, of length ~ del): allow eps / del there;
                    // being a rotation is not
                    let tolb = tol + 64.0 * EPS / (del as S);
                    let ok = orth <= tol && (m.determinant() - 1.0).abs() <= tol && vmax(b3.rotate_vector(a) - b) <= tolb
                        && vmax(q * a - b) <= tolb && (q.magnitude() - 1.0).abs() <= tol && m3dev(m, Matrix3::from(q)) <= tolb;
                    t.rec(ok, || format!("unit Vector3<{}> a = {:?}, b = {:?} (half turn - {:e}): Basis3::between_vectors: max|M^T M - I| = {:e}, det = {:e}, |M a - b| = {:e}, max|M - Matrix3::from(quaternion)| = {:e}",
                        $tag, a, b, del, orth, m.determinant(), vmax(b3.rotate_vector(a) - b), m3dev(m, Matrix3::from(q))));
                    // from_arc: lengths such that src . dst = 1 although they are not parallel
                    let th = 0.2 + 1.2 * u(&mut s) as f64;
                    let la = rnd(&mut s, 0.5, 2.0);
                    let lb = 1.0 / (la * th.cos() as S);
                    let d = a * (th.cos() as S) + o * (th.sin() as S);
                    let (src, dst) = (a * la, d * lb);
                    let qa = Quaternion::from_arc(src, dst, None);
                    let tol2 = 3.0e-4;
                    ta.rec(vmax(qa * a - d) <= tol2 && (qa.magnitude() - 1.0).abs() <= tol2,
                        || format!("Quaternion<{}>::from_arc(src = {:?}, dst = {:?}) (src . dst = {:e}, angle {:e}) = {:?}: maps src/|src| to {:?}, want {:?}",
                            $tag, src, dst, src.dot(dst), th, qa, qa * a, d));
                }
                // from_arc on short and long inputs at clearly non-parallel directions (angle 0.3 .. pi - 0.3), with the product of
                // the lengths well above the absolute tolerance of its parallel test (so outside the known short-vector finding):
                // the result is a UNIT quaternion taking src/|src| onto dst/|dst|
                let tl = Tally::new(name("c15.from_arc_lengths"));
                let (lens, floor): ([S; 6], S) = if EPS < 1.0e-10 { ([1.0e-3, 1.0e-4, 1.0e-2, 1.0, 1.0e3, 30.0], 1.0e-9) } else { ([1.0e-2, 2.0e-2, 0.1, 1.0, 1.0e2, 30.0], 1.0e-4) };
                for i in 0..n.min(1500) {
                    let a = unit3(&mut s);
                    let o = {
                        let w = unit3(&mut s);
                        let p = w - a * a.dot(w);
                        if p.magnitude() < 0.2 { continue; }
                        p.normalize()
                    };
                    let th = 0.3 + (std::f64::consts::PI - 0.6) * u(&mut s) as f64;
                    let d = a * (th.cos() as S) + o * (th.sin() as S);
                    let (la, lb) = (lens[(i % 6) as usize], lens[((i / 6) % 6) as usize]);
                    if la * lb < floor { continue; }
                    let q = Quaternion::from_arc(a * la, d * lb, None);
                    let tolq = if EPS < 1.0e-10 { 1.0e-9 } else { 2.0e-4 };
                    tl.rec((q.magnitude() - 1.0).abs() <= tolq && vmax(q * a - d) <= tolq,
                        || format!("Quaternion<{}>::from_arc(src = {:?}, dst = {:?}) (lengths {:e}, {:e}, angle {:e} rad) = {:?} (|q| = {:e}): maps src/|src| to {:?}, want {:?}",
                            $tag, a * la, d * lb, la, lb, th, q, q.magnitude(), q * a, d));
                }
                // from_arc next to (not at) a half turn: still a UNIT quaternion taking src/|src| onto dst/|dst|
                let th_ = Tally::new(name("c15.from_arc_near_half_turn"));
                let dls: &[f64] = if EPS < 1.0e-10 { &[1.0e-2, 1.0e-3, 1.0e-4, 1.0e-5, 1.0e-6] } else { &[1.0e-1, 3.0e-2, 1.0e-2, 3.0e-3] };
                for i in 0..n.min(600) {
                    let a = unit3(&mut s);
                    let o = {
                        let w = unit3(&mut s);
                        let p = w - a * a.dot(w);
                        if p.magnitude() < 0.2 { continue; }
                        p.normalize()
                    };
                    let del = dls[(i as usize) % dls.len()];
                    let ang = std::f64::consts::PI - del;
                    let b = (a * (ang.cos() as S) + o * (ang.sin() as S)).normalize();
                    let (la, lb) = ([1.0 as S, 3.0, 0.25][(i % 3) as usize], [1.0 as S, 0.5, 7.0][((i / 3) % 3) as usize]);
                    let q = Quaternion::from_arc(a * la, b * lb, None);
                    let toln = 256.0 * EPS;
                    let tolb = 4000.0 * EPS + 64.0 * EPS / (del as S);
                    th_.rec((q.magnitude() - 1.0).abs() <= toln && vmax(q * a - b) <= tolb,
                        || format!("Quaternion<{}>::from_arc(src = {:?}, dst = {:?}) (half turn - {:e}) = {:?}: |q| - 1 = {:e}, |q a - b| = {:e}", $tag, a * la, b * lb, del, q, q.magnitude() - 1.0, vmax(q * a - b)));
                }
                th_.print();
                tl.print();
                t.print();
                ta.print();
            }
        }
    };
}

narrow_impl!(f64n, f64, "f64", 60, [5.0e-8, 1.0e-7, 3.0e-7, 1.0e-6, 1.0e-5, 1.0e-4], 1000, [1.0, 1.0e-5, 1.0e-3, 1.0e3, 1.0e-9, 1.0e6, 3.0e-7, 0.25], [1.0e80 as f64, 1.0e-90, 1.0e100, 1.0e-120]);
narrow_impl!(f32n, f32, "f32", 27, [3.0e-4, 5.0e-4, 1.0e-3, 2.0e-3, 5.0e-3, 1.0e-2], 120, [1.0, 1.0e-2, 1.0e-3, 1.0e2, 3.0e-4, 1.0e3, 0.03, 0.25], [1.0e10 as f32, 1.0e-12, 1.0e14, 1.0e-15]);

pub fn run(which: &str, n: u64, seed: u64) {
    match which {
        "nrc02" => { f64n::c02(n, seed); f32n::c02(n, seed) }
        "nrc04" => { f64n::c04(n, seed); f32n::c04(n, seed) }
        "nrc05" => { f64n::c05(n, seed); f32n::c05(n, seed) }
        "nrc08" => { f64n::c08(n, seed); f32n::c08(n, seed) }
        "nrc11" => { f64n::c11(n, seed); f32n::c11(n, seed) }
        "nrc10" => { f64n::c10(n, seed); f32n::c10(n, seed) }
        "nrc12" => { f64n::c12(n, seed); f32n::c12(n, seed) }
        "nrc13" => { f64n::c13(n, seed); f32n::c13(n, seed) }
        "nrc14" => { f64n::c14(n, seed); f32n::c14(n, seed) }
        "nrc15" => { f64n::c15(n, seed); f32n::c15(n, seed) }
        _ => {
            eprintln!("unknown narrow check");
            std::process::exit(2);
        }
    }
}
