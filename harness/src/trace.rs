//! Layer T: the real cgmath code, instantiated at the recording scalar, run on symbolic inputs;
//! what it computed (an expression DAG over the inputs) and every comparison it made are printed
//! as Lean definitions.  `Cgm/Trace/Cxx.lean` states, statically, what each must be equal to.
//!
//! input lines:  <kernel-name> <op> <args...>       (the args are the shadow values that pick the path)

use crate::big::Rat;
use crate::ops::{self, Args, Out, Val};
use crate::scalar::{self, Guard, Node, ARENA, NONE, X};
use std::collections::BTreeSet;
use std::fmt::Write;

fn lits() -> Vec<(Rat, &'static str)> {
    let pi = std::f64::consts::PI;
    vec![
        (Rat::from_f64(0.9995).unwrap(), "Lits.thr"),
        (Rat::from_f64(0.499).unwrap(), "Lits.sig"),
        (Rat::from_f64(pi * 2.0).unwrap(), "Lits.radFull"),
        (Rat::from_f64(pi / 180.0).unwrap(), "Lits.deg2rad"),
        (Rat::from_f64(180.0 / pi).unwrap(), "Lits.rad2deg"),
        (Rat::from_f64(1.0e-6).unwrap(), "Lits.matEps"),
    ]
}

fn konst(r: &Rat, lits: &[(Rat, &'static str)]) -> String {
    for (l, name) in lits {
        if l == r {
            return format!("({} : K)", name);
        }
        if l.neg() == *r {
            return format!("(-({} : K))", name);
        }
    }
    let s = r.show(); // [-]num/den
    let (n, d) = s.split_once('/').unwrap();
    let (neg, n) = match n.strip_prefix('-') { Some(m) => (true, m), None => (false, n) };
    let body = if d == "1" { format!("({} : K)", n) } else { format!("(({} : K) / ({} : K))", n, d) };
    if neg { format!("(-{})", body) } else { body }
}

fn deps(n: &Node) -> Vec<u32> {
    match n {
        Node::Var(_) | Node::Const(_) => vec![],
        Node::Add(a, b) | Node::Sub(a, b) | Node::Mul(a, b) | Node::Div(a, b) | Node::Rem(a, b) | Node::Fn2(_, a, b) => vec![*a, *b],
        Node::Neg(a) | Node::Fn1(_, a) => vec![*a],
    }
}

/// returns the Lean text of one kernel, or an error line
pub fn trace_line(line: &str) -> Result<String, String> {
    let (kname, rest) = line.split_once(' ').ok_or("bad trace line")?;
    scalar::reset();
    scalar::reset_trace(true);
    let (name, mut args) = parse_sym(rest).ok_or("bad-line")?;
    let f = ops::lookup(&name).ok_or("unknown-op")?;
    let r = std::panic::catch_unwind(std::panic::AssertUnwindSafe(|| {
        let o = f(&mut args);
        if args.bad || args.px != args.xs.len() || args.pi != args.is.len() { Out::BadArgs } else { o }
    }));
    let (tag, outs): (&str, Vec<Val>) = match r {
        Ok(Out::Ok(vs)) => ("ok", vs),
        Ok(Out::None) => ("none", vec![]),
        Ok(Out::Skip) => return Err("skip".into()),
        Ok(Out::BadArgs) => return Err("bad-args".into()),
        Err(_) => ("panic", vec![]),
    };
    let lits = lits();
    let out = ARENA.with(|a| -> Result<String, String> {
        let a = a.borrow();
        let mut out_nodes = vec![];
        let mut bools = vec![];
        for v in &outs {
            match v {
                Val::S(x) => {
                    let n = a.nodes[x.0 as usize];
                    if n == NONE { return Err("untraced output".into()); }
                    out_nodes.push(n)
                }
                Val::B(b) => bools.push(*b),
            }
        }
        // reachable nodes
        let mut need: BTreeSet<u32> = BTreeSet::new();
        let mut stack: Vec<u32> = out_nodes.clone();
        for g in &a.guards {
            match g {
                Guard::Eq(x, y, _) | Guard::Lt(x, y, _) | Guard::Le(x, y, _) | Guard::Cmp(x, y, _) => stack.extend([*x, *y]),
                Guard::AbsDiff(x, y, e, _) | Guard::Ulps(x, y, e, _, _) => stack.extend([*x, *y, *e]),
                Guard::Rel(x, y, e, m, _) => stack.extend([*x, *y, *e, *m]),
            }
        }
        while let Some(n) = stack.pop() {
            if n == NONE { return Err("untraced operand".into()); }
            if need.insert(n) {
                stack.extend(deps(&a.sym[n as usize]));
            }
        }
        let mut s = String::new();
        let _ = writeln!(s, "/-- traced from `{}` (result: {}) -/", rest, tag);
        let _ = writeln!(s, "@[simp] def {} (v : Nat → K) : Tr K :=", kname);
        let nm = |n: u32| format!("n{}", n);
        for n in &need {
            let e = match &a.sym[*n as usize] {
                Node::Var(i) => format!("v {}", i),
                Node::Const(r) => konst(r, &lits),
                Node::Add(x, y) => format!("{} + {}", nm(*x), nm(*y)),
                Node::Sub(x, y) => format!("{} - {}", nm(*x), nm(*y)),
                Node::Mul(x, y) => format!("{} * {}", nm(*x), nm(*y)),
                Node::Div(x, y) => format!("{} / {}", nm(*x), nm(*y)),
                Node::Rem(x, y) => format!("FRem.frem {} {}", nm(*x), nm(*y)),
                Node::Neg(x) => format!("-{}", nm(*x)),
                Node::Fn1(f, x) => match *f {
                    "sqrt" | "sin" | "cos" | "tan" | "asin" | "acos" | "atan" => format!("Transc.{} {}", f, nm(*x)),
                    other => return Err(format!("unsupported function {}", other)),
                },
                Node::Fn2(f, x, y) => format!("Transc.{} {} {}", f, nm(*x), nm(*y)),
            };
            let _ = writeln!(s, "  let {} : K := {}", nm(*n), e);
        }
        let gs: Vec<String> = a.guards.iter().map(|g| match g {
            Guard::Eq(x, y, r) => format!(".eq {} {} {}", nm(*x), nm(*y), r),
            Guard::Lt(x, y, r) => format!(".lt {} {} {}", nm(*x), nm(*y), r),
            Guard::Le(x, y, r) => format!(".le {} {} {}", nm(*x), nm(*y), r),
            Guard::Cmp(x, y, r) => format!(".cmp {} {} .{}", nm(*x), nm(*y), match r { -1 => "lt", 0 => "eq", _ => "gt" }),
            Guard::AbsDiff(x, y, e, r) => format!(".absDiff {} {} {} {}", nm(*x), nm(*y), nm(*e), r),
            Guard::Rel(x, y, e, m, r) => format!(".rel {} {} {} {} {}", nm(*x), nm(*y), nm(*e), nm(*m), r),
            Guard::Ulps(x, y, e, u, r) => format!(".ulps {} {} {} {} {}", nm(*x), nm(*y), nm(*e), u, r),
        }).collect();
        let _ = writeln!(s, "  {{ res := .{}, out := [{}], bools := [{}],\n    guards := [{}] }}", tag,
            out_nodes.iter().map(|n| nm(*n)).collect::<Vec<_>>().join(", "),
            bools.iter().map(|b| b.to_string()).collect::<Vec<_>>().join(", "),
            gs.join(", "));
        Ok(s)
    });
    scalar::reset_trace(false);
    out
}

fn parse_sym(line: &str) -> Option<(String, Args)> {
    let mut it = line.split_whitespace();
    let name = it.next()?.to_string();
    let mut xs = vec![];
    let mut is = vec![];
    for t in it {
        if let Some(k) = t.strip_prefix('#') {
            is.push(k.parse().ok()?);
        } else {
            let r = Rat::parse(t)?;
            let i = xs.len() as u32;
            xs.push(X::input(r, i));
        }
    }
    Some((name, Args { xs, is, px: 0, pi: 0, bad: false }))
}

pub fn run(ns: &str) {
    use std::io::BufRead;
    println!("import Cgm.Lemmas.TraceBase");
    println!("/-! GENERATED by `cgverif trace` from /repo's current source on every run.  Do not edit. -/");
    println!("set_option linter.unusedVariables false");
    println!("namespace Cg.Gen.{}", ns);
    println!("variable {{K : Type}} [Field K] [Transc K] [FRem K] [Lits K]\n");
    let stdin = std::io::stdin();
    for line in stdin.lock().lines() {
        let line = line.unwrap();
        let t = line.trim();
        if t.is_empty() || t.starts_with("//") { continue; }
        if let Some(s) = t.strip_prefix("seed ") {
            scalar::set_seed(s.trim().parse().unwrap());
            continue;
        }
        match trace_line(t) {
            Ok(s) => println!("{}", s),
            Err(e) => println!("-- TRACE-ERROR {} : {}", t, e),
        }
    }
    println!("end Cg.Gen.{}", ns);
}
