//! Minimal arbitrary-precision integers and rationals (no bignum crate is
//! available offline).  Only what the exact scalar `X` needs.

use std::cmp::Ordering;

/// Magnitude: little-endian u32 limbs, no trailing zero limbs (zero = empty).
#[derive(Clone, PartialEq, Eq, Debug, Hash)]
pub struct Nat(pub Vec<u32>);

fn trim(v: &mut Vec<u32>) {
    while let Some(&0) = v.last() {
        v.pop();
    }
}

impl Nat {
    pub fn zero() -> Nat {
        Nat(vec![])
    }
    pub fn one() -> Nat {
        Nat(vec![1])
    }
    pub fn from_u128(mut x: u128) -> Nat {
        let mut v = vec![];
        while x != 0 {
            v.push(x as u32);
            x >>= 32;
        }
        Nat(v)
    }
    pub fn to_u128(&self) -> Option<u128> {
        if self.0.len() > 4 {
            return None;
        }
        let mut x: u128 = 0;
        for (i, &l) in self.0.iter().enumerate() {
            x |= (l as u128) << (32 * i);
        }
        Some(x)
    }
    pub fn is_zero(&self) -> bool {
        self.0.is_empty()
    }
    pub fn is_one(&self) -> bool {
        self.0.len() == 1 && self.0[0] == 1
    }
    pub fn is_even(&self) -> bool {
        self.0.is_empty() || self.0[0] & 1 == 0
    }
    pub fn bits(&self) -> usize {
        match self.0.last() {
            None => 0,
            Some(&l) => 32 * (self.0.len() - 1) + (32 - l.leading_zeros() as usize),
        }
    }
    pub fn cmp(&self, o: &Nat) -> Ordering {
        if self.0.len() != o.0.len() {
            return self.0.len().cmp(&o.0.len());
        }
        for i in (0..self.0.len()).rev() {
            if self.0[i] != o.0[i] {
                return self.0[i].cmp(&o.0[i]);
            }
        }
        Ordering::Equal
    }
    pub fn add(&self, o: &Nat) -> Nat {
        if let (Some(a), Some(b)) = (self.to_u64(), o.to_u64()) {
            return Nat::from_u128(a as u128 + b as u128);
        }
        let (a, b) = if self.0.len() >= o.0.len() { (self, o) } else { (o, self) };
        let mut r = Vec::with_capacity(a.0.len() + 1);
        let mut c: u64 = 0;
        for i in 0..a.0.len() {
            let t = a.0[i] as u64 + if i < b.0.len() { b.0[i] as u64 } else { 0 } + c;
            r.push(t as u32);
            c = t >> 32;
        }
        if c != 0 {
            r.push(c as u32);
        }
        Nat(r)
    }
    /// self - o, requires self >= o
    pub fn sub(&self, o: &Nat) -> Nat {
        debug_assert!(self.cmp(o) != Ordering::Less);
        let mut r = Vec::with_capacity(self.0.len());
        let mut b: i64 = 0;
        for i in 0..self.0.len() {
            let t = self.0[i] as i64 - if i < o.0.len() { o.0[i] as i64 } else { 0 } - b;
            if t < 0 {
                r.push((t + (1i64 << 32)) as u32);
                b = 1;
            } else {
                r.push(t as u32);
                b = 0;
            }
        }
        trim(&mut r);
        Nat(r)
    }
    pub fn to_u64(&self) -> Option<u64> {
        match self.0.len() {
            0 => Some(0),
            1 => Some(self.0[0] as u64),
            2 => Some(self.0[0] as u64 | (self.0[1] as u64) << 32),
            _ => None,
        }
    }
    pub fn mul(&self, o: &Nat) -> Nat {
        if self.is_zero() || o.is_zero() {
            return Nat::zero();
        }
        if let (Some(a), Some(b)) = (self.to_u64(), o.to_u64()) {
            return Nat::from_u128(a as u128 * b as u128);
        }
        let mut r = vec![0u32; self.0.len() + o.0.len()];
        for i in 0..self.0.len() {
            let mut c: u64 = 0;
            let a = self.0[i] as u64;
            for j in 0..o.0.len() {
                let t = a * o.0[j] as u64 + r[i + j] as u64 + c;
                r[i + j] = t as u32;
                c = t >> 32;
            }
            let mut k = i + o.0.len();
            while c != 0 {
                let t = r[k] as u64 + c;
                r[k] = t as u32;
                c = t >> 32;
                k += 1;
            }
        }
        trim(&mut r);
        Nat(r)
    }
    fn shl_bits(&self, s: u32, extra: bool) -> Vec<u32> {
        let mut r = Vec::with_capacity(self.0.len() + 1);
        if s == 0 {
            r.extend_from_slice(&self.0);
            if extra {
                r.push(0);
            }
            return r;
        }
        let mut c: u32 = 0;
        for &l in &self.0 {
            r.push((l << s) | c);
            c = l >> (32 - s);
        }
        if extra {
            r.push(c);
        } else if c != 0 {
            r.push(c);
        }
        r
    }
    pub fn shl(&self, n: usize) -> Nat {
        if self.is_zero() {
            return Nat::zero();
        }
        let mut r = vec![0u32; n / 32];
        r.extend(self.shl_bits((n % 32) as u32, false));
        trim(&mut r);
        Nat(r)
    }
    pub fn divrem_small(&self, d: u32) -> (Nat, u32) {
        let mut q = vec![0u32; self.0.len()];
        let mut r: u64 = 0;
        for i in (0..self.0.len()).rev() {
            let t = (r << 32) | self.0[i] as u64;
            q[i] = (t / d as u64) as u32;
            r = t % d as u64;
        }
        trim(&mut q);
        (Nat(q), r as u32)
    }
    pub fn mod_small(&self, d: u32) -> u32 {
        let mut r: u64 = 0;
        for i in (0..self.0.len()).rev() {
            r = ((r << 32) | self.0[i] as u64) % d as u64;
        }
        r as u32
    }
    /// Knuth algorithm D.
    pub fn divrem(&self, o: &Nat) -> (Nat, Nat) {
        assert!(!o.is_zero());
        if let (Some(a), Some(b)) = (self.to_u128(), o.to_u128()) {
            return (Nat::from_u128(a / b), Nat::from_u128(a % b));
        }
        if self.cmp(o) == Ordering::Less {
            return (Nat::zero(), self.clone());
        }
        if o.0.len() == 1 {
            let (q, r) = self.divrem_small(o.0[0]);
            return (q, Nat::from_u128(r as u128));
        }
        let s = o.0.last().unwrap().leading_zeros();
        let b = o.shl_bits(s, false);
        let mut a = self.shl_bits(s, true);
        let n = b.len();
        let m = a.len() - n;
        let mut q = vec![0u32; m];
        let bt = b[n - 1] as u64;
        let bs = b[n - 2] as u64;
        for j in (0..m).rev() {
            let num = ((a[j + n] as u64) << 32) | a[j + n - 1] as u64;
            let mut qhat = num / bt;
            let mut rhat = num % bt;
            while qhat >= (1u64 << 32) || qhat * bs > ((rhat << 32) | a[j + n - 2] as u64) {
                qhat -= 1;
                rhat += bt;
                if rhat >= (1u64 << 32) {
                    break;
                }
            }
            let mut borrow: i64 = 0;
            let mut carry: u64 = 0;
            for i in 0..n {
                let p = qhat * b[i] as u64 + carry;
                carry = p >> 32;
                let t = a[i + j] as i64 - borrow - (p & 0xffff_ffff) as i64;
                a[i + j] = t as u32;
                borrow = if t < 0 { 1 } else { 0 };
            }
            let t = a[j + n] as i64 - borrow - carry as i64;
            a[j + n] = t as u32;
            if t < 0 {
                qhat -= 1;
                let mut c: u64 = 0;
                for i in 0..n {
                    let t = a[i + j] as u64 + b[i] as u64 + c;
                    a[i + j] = t as u32;
                    c = t >> 32;
                }
                a[j + n] = (a[j + n] as u64 + c) as u32;
            }
            q[j] = qhat as u32;
        }
        trim(&mut q);
        // remainder = a[0..n] >> s
        let mut r = vec![0u32; n];
        if s == 0 {
            r.copy_from_slice(&a[0..n]);
        } else {
            for i in 0..n {
                let hi = if i + 1 < a.len() { a[i + 1] } else { 0 };
                r[i] = (a[i] >> s) | (hi << (32 - s));
            }
        }
        trim(&mut r);
        (Nat(q), Nat(r))
    }
    pub fn gcd(&self, o: &Nat) -> Nat {
        let mut a = self.clone();
        let mut b = o.clone();
        loop {
            if let (Some(mut x), Some(mut y)) = (a.to_u128(), b.to_u128()) {
                while y != 0 {
                    let t = x % y;
                    x = y;
                    y = t;
                }
                return Nat::from_u128(x);
            }
            if b.is_zero() {
                return a;
            }
            let (_, r) = a.divrem(&b);
            a = b;
            b = r;
        }
    }
    /// floor(sqrt(self))
    pub fn isqrt(&self) -> Nat {
        if self.is_zero() {
            return Nat::zero();
        }
        if let Some(x) = self.to_u128() {
            // Newton on u128
            let mut r = (x as f64).sqrt() as u128;
            loop {
                // fix up
                if r.checked_mul(r).map_or(true, |s| s > x) {
                    r -= 1;
                } else if (r + 1).checked_mul(r + 1).map_or(false, |s| s <= x) {
                    r += 1;
                } else {
                    return Nat::from_u128(r);
                }
            }
        }
        // Newton from above: x0 = 2^ceil(bits/2)
        let mut x = Nat::one().shl((self.bits() + 1) / 2);
        loop {
            let (q, _) = self.divrem(&x);
            let (y, _) = x.add(&q).divrem_small(2);
            if y.cmp(&x) != Ordering::Less {
                return x;
            }
            x = y;
        }
    }
    pub fn to_dec(&self) -> String {
        if self.is_zero() {
            return "0".to_string();
        }
        if let Some(x) = self.to_u128() {
            return x.to_string();
        }
        let mut parts = vec![];
        let mut cur = self.clone();
        while !cur.is_zero() {
            let (q, r) = cur.divrem_small(1_000_000_000);
            parts.push(r);
            cur = q;
        }
        let mut s = parts.pop().unwrap().to_string();
        while let Some(p) = parts.pop() {
            s.push_str(&format!("{:09}", p));
        }
        s
    }
    pub fn from_dec(s: &str) -> Option<Nat> {
        if s.is_empty() {
            return None;
        }
        if s.len() <= 38 {
            return s.parse::<u128>().ok().map(Nat::from_u128);
        }
        let mut r = Nat::zero();
        let ten9 = Nat::from_u128(1_000_000_000);
        let bytes = s.as_bytes();
        let mut i = 0;
        let first = bytes.len() % 9;
        if first != 0 {
            r = Nat::from_u128(s[0..first].parse::<u128>().ok()?);
            i = first;
        }
        while i < bytes.len() {
            let chunk = s[i..i + 9].parse::<u128>().ok()?;
            r = r.mul(&ten9).add(&Nat::from_u128(chunk));
            i += 9;
        }
        Some(r)
    }
}

/// Rational number in lowest terms, den > 0.
#[derive(Clone, PartialEq, Eq, Debug, Hash)]
pub struct Rat {
    pub neg: bool, // sign of numerator; false when num = 0
    pub num: Nat,
    pub den: Nat,
}

impl Rat {
    pub fn zero() -> Rat {
        Rat { neg: false, num: Nat::zero(), den: Nat::one() }
    }
    pub fn one() -> Rat {
        Rat { neg: false, num: Nat::one(), den: Nat::one() }
    }
    pub fn from_i64(x: i64) -> Rat {
        Rat { neg: x < 0, num: Nat::from_u128(x.unsigned_abs() as u128), den: Nat::one() }
    }
    pub fn from_frac(n: i64, d: i64) -> Rat {
        assert!(d != 0);
        Rat::make(
            (n < 0) != (d < 0),
            Nat::from_u128(n.unsigned_abs() as u128),
            Nat::from_u128(d.unsigned_abs() as u128),
        )
    }
    /// exact value of a finite f64
    pub fn from_f64(f: f64) -> Option<Rat> {
        if !f.is_finite() {
            return None;
        }
        if f == 0.0 {
            return Some(Rat::zero());
        }
        let bits = f.to_bits();
        let neg = bits >> 63 == 1;
        let e = ((bits >> 52) & 0x7ff) as i64;
        let m = bits & 0x000f_ffff_ffff_ffff;
        let (mant, exp) = if e == 0 { (m, -1074i64) } else { (m | (1u64 << 52), e - 1075) };
        let mn = Nat::from_u128(mant as u128);
        Some(if exp >= 0 {
            Rat::make(neg, mn.shl(exp as usize), Nat::one())
        } else {
            Rat::make(neg, mn, Nat::one().shl((-exp) as usize))
        })
    }
    pub fn make(neg: bool, num: Nat, den: Nat) -> Rat {
        assert!(!den.is_zero());
        if num.is_zero() {
            return Rat::zero();
        }
        let g = num.gcd(&den);
        if g.is_one() {
            Rat { neg, num, den }
        } else {
            Rat { neg, num: num.divrem(&g).0, den: den.divrem(&g).0 }
        }
    }
    pub fn is_zero(&self) -> bool {
        self.num.is_zero()
    }
    pub fn neg(&self) -> Rat {
        if self.is_zero() {
            self.clone()
        } else {
            Rat { neg: !self.neg, num: self.num.clone(), den: self.den.clone() }
        }
    }
    pub fn abs(&self) -> Rat {
        Rat { neg: false, num: self.num.clone(), den: self.den.clone() }
    }
    pub fn add(&self, o: &Rat) -> Rat {
        // a/b + c/d = (ad + cb)/bd
        let ad = self.num.mul(&o.den);
        let cb = o.num.mul(&self.den);
        let bd = self.den.mul(&o.den);
        if self.neg == o.neg {
            Rat::make(self.neg, ad.add(&cb), bd)
        } else {
            match ad.cmp(&cb) {
                Ordering::Equal => Rat::zero(),
                Ordering::Greater => Rat::make(self.neg, ad.sub(&cb), bd),
                Ordering::Less => Rat::make(o.neg, cb.sub(&ad), bd),
            }
        }
    }
    pub fn sub(&self, o: &Rat) -> Rat {
        self.add(&o.neg())
    }
    pub fn mul(&self, o: &Rat) -> Rat {
        Rat::make(self.neg != o.neg, self.num.mul(&o.num), self.den.mul(&o.den))
    }
    /// division; x/0 = 0 (the convention shared with Lean's `Rat` and Mathlib fields)
    pub fn div(&self, o: &Rat) -> Rat {
        if o.is_zero() {
            return Rat::zero();
        }
        Rat::make(self.neg != o.neg, self.num.mul(&o.den), self.den.mul(&o.num))
    }
    pub fn cmp(&self, o: &Rat) -> Ordering {
        match (self.neg, o.neg) {
            (true, false) => Ordering::Less,
            (false, true) => Ordering::Greater,
            (s, _) => {
                let l = self.num.mul(&o.den);
                let r = o.num.mul(&self.den);
                let c = l.cmp(&r);
                if s {
                    c.reverse()
                } else {
                    c
                }
            }
        }
    }
    /// truncation toward zero, as a rational integer
    pub fn trunc(&self) -> Rat {
        let (q, _) = self.num.divrem(&self.den);
        if q.is_zero() {
            Rat::zero()
        } else {
            Rat { neg: self.neg, num: q, den: Nat::one() }
        }
    }
    pub fn floor(&self) -> Rat {
        let (q, r) = self.num.divrem(&self.den);
        if self.neg && !r.is_zero() {
            Rat::make(true, q.add(&Nat::one()), Nat::one())
        } else if q.is_zero() {
            Rat::zero()
        } else {
            Rat { neg: self.neg, num: q, den: Nat::one() }
        }
    }
    /// C fmod: a - b*trunc(a/b); a % 0 = a - 0*... = a  (Lean side does the same)
    pub fn fmod(&self, o: &Rat) -> Rat {
        let q = self.div(o).trunc();
        self.sub(&o.mul(&q))
    }
    /// exact square root if self is the square of a rational
    pub fn exact_sqrt(&self) -> Option<Rat> {
        if self.neg {
            return None;
        }
        let n = self.num.isqrt();
        if n.mul(&n) != self.num {
            return None;
        }
        let d = self.den.isqrt();
        if d.mul(&d) != self.den {
            return None;
        }
        Some(Rat { neg: false, num: n, den: d })
    }
    pub fn to_f64(&self) -> f64 {
        // adequate for reporting / search only
        let nb = self.num.bits() as i64;
        let db = self.den.bits() as i64;
        let shift = 64 - (nb - db);
        let (n, d) = if shift >= 0 {
            (self.num.shl(shift as usize), self.den.clone())
        } else {
            (self.num.clone(), self.den.shl((-shift) as usize))
        };
        let (q, _) = n.divrem(&d);
        let mut v = 0f64;
        for &l in q.0.iter().rev() {
            v = v * 4294967296.0 + l as f64;
        }
        let r = v * (2f64).powi(-(shift as i32));
        if self.neg {
            -r
        } else {
            r
        }
    }
    pub fn show(&self) -> String {
        format!("{}{}/{}", if self.neg { "-" } else { "" }, self.num.to_dec(), self.den.to_dec())
    }
    pub fn parse(s: &str) -> Option<Rat> {
        let (neg, body) = match s.strip_prefix('-') {
            Some(b) => (true, b),
            None => (false, s),
        };
        let (n, d) = match body.split_once('/') {
            Some((n, d)) => (Nat::from_dec(n)?, Nat::from_dec(d)?),
            None => (Nat::from_dec(body)?, Nat::one()),
        };
        if d.is_zero() {
            return None;
        }
        Some(Rat::make(neg, n, d))
    }
    /// bit height (max of numerator and denominator bit lengths)
    pub fn height(&self) -> usize {
        self.num.bits().max(self.den.bits())
    }
}

#[cfg(test)]
mod tests {
    use super::*;
    fn rng(s: &mut u64) -> u64 {
        *s = s.wrapping_add(0x9E3779B97F4A7C15);
        let mut z = *s;
        z = (z ^ (z >> 30)).wrapping_mul(0xBF58476D1CE4E5B9);
        z = (z ^ (z >> 27)).wrapping_mul(0x94D049BB133111EB);
        z ^ (z >> 31)
    }
    fn rnat(s: &mut u64, limbs: usize) -> Nat {
        let mut v: Vec<u32> = (0..limbs).map(|_| rng(s) as u32).collect();
        // sprinkle extreme limbs
        if rng(s) % 3 == 0 && limbs > 0 {
            let i = (rng(s) as usize) % limbs;
            v[i] = if rng(s) % 2 == 0 { 0xffff_ffff } else { 0 };
        }
        trim(&mut v);
        Nat(v)
    }
    #[test]
    fn divrem_identity() {
        let mut s = 1u64;
        for _ in 0..20000 {
            let la = 1 + (rng(&mut s) % 9) as usize;
            let lb = 1 + (rng(&mut s) % 6) as usize;
            let a = rnat(&mut s, la);
            let b = rnat(&mut s, lb);
            if b.is_zero() {
                continue;
            }
            let (q, r) = a.divrem(&b);
            assert!(r.cmp(&b) == Ordering::Less);
            assert_eq!(q.mul(&b).add(&r), a);
        }
    }
    #[test]
    fn dec_roundtrip_and_sqrt() {
        let mut s = 7u64;
        for _ in 0..2000 {
            let l = 1 + (rng(&mut s) % 12) as usize;
            let a = rnat(&mut s, l);
            assert_eq!(Nat::from_dec(&a.to_dec()).unwrap(), a);
            let r = a.isqrt();
            assert!(r.mul(&r).cmp(&a) != Ordering::Greater);
            let r1 = r.add(&Nat::one());
            assert!(r1.mul(&r1).cmp(&a) == Ordering::Greater);
            let sq = a.mul(&a);
            assert_eq!(sq.isqrt(), a);
        }
    }
    #[test]
    fn rat_field() {
        let mut s = 3u64;
        for _ in 0..3000 {
            let mut r = || {
                let n = (rng(&mut s) % 2001) as i64 - 1000;
                let d = (rng(&mut s) % 1000) as i64 + 1;
                Rat::from_frac(n, d)
            };
            let (a, b, c) = (r(), r(), r());
            assert_eq!(a.add(&b).mul(&c), a.mul(&c).add(&b.mul(&c)));
            if !b.is_zero() {
                assert_eq!(a.div(&b).mul(&b), a);
                let m = a.fmod(&b);
                assert!(m.abs().cmp(&b.abs()) == Ordering::Less);
            }
            assert_eq!(Rat::parse(&a.show()).unwrap(), a);
        }
        assert_eq!(Rat::from_f64(0.5).unwrap(), Rat::from_frac(1, 2));
        assert_eq!(Rat::from_f64(0.499).unwrap().show(), "4494592428115755/9007199254740992");
    }
}
