//! C17: every spelling of an operator computes the same value (bit for bit).
//!
//! For every operator of every compound type: by-value, by-reference (left, right, both) and
//! compound-assignment forms on shared operands; scalar-on-the-left for the twelve primitive
//! types against the per-component primitive operation; `Sum`/`Product` over iterators of values
//! and of references against the explicit left fold; random straight-line programs written with
//! random forms against the all-by-value spelling.

use crate::native::Tally;
use cgmath::num_traits::{One, Zero};
use cgmath::*;
use std::ops::*;

fn splitmix(s: &mut u64) -> u64 {
    *s = s.wrapping_add(0x9E3779B97F4A7C15);
    let mut z = *s;
    z = (z ^ (z >> 30)).wrapping_mul(0xBF58476D1CE4E5B9);
    z = (z ^ (z >> 27)).wrapping_mul(0x94D049BB133111EB);
    z ^ (z >> 31)
}

/// bit pattern of every component
pub trait Bits {
    fn bits(&self) -> Vec<u64>;
}
macro_rules! bits_prim {
    ($($t:ident => $e:expr),*) => {$( impl Bits for $t { fn bits(&self) -> Vec<u64> { let f: fn(&$t) -> u64 = $e; vec![f(self)] } } )*};
}
bits_prim!(f32 => |x| x.to_bits() as u64, f64 => |x| x.to_bits(), u8 => |x| *x as u64, u16 => |x| *x as u64, u32 => |x| *x as u64,
           u64 => |x| *x, usize => |x| *x as u64, i8 => |x| *x as u64, i16 => |x| *x as u64, i32 => |x| *x as u64,
           i64 => |x| *x as u64, isize => |x| *x as u64);
macro_rules! bits_fields {
    ($T:ident { $($f:ident),+ }) => {
        impl<S: Bits> Bits for $T<S> { fn bits(&self) -> Vec<u64> { let mut v = vec![]; $( v.extend(self.$f.bits()); )+ v } }
    };
}
bits_fields!(Vector1 { x });
bits_fields!(Vector2 { x, y });
bits_fields!(Vector3 { x, y, z });
bits_fields!(Vector4 { x, y, z, w });
bits_fields!(Point1 { x });
bits_fields!(Point2 { x, y });
bits_fields!(Point3 { x, y, z });
bits_fields!(Matrix2 { x, y });
bits_fields!(Matrix3 { x, y, z });
bits_fields!(Matrix4 { x, y, z, w });
bits_fields!(Quaternion { s, v });
impl<S: Bits> Bits for Rad<S> { fn bits(&self) -> Vec<u64> { self.0.bits() } }
impl<S: Bits> Bits for Deg<S> { fn bits(&self) -> Vec<u64> { self.0.bits() } }
impl<S: Bits + BaseFloat> Bits for Basis2<S> { fn bits(&self) -> Vec<u64> { let m: Matrix2<S> = (*self).into(); m.bits() } }
impl<S: Bits + BaseFloat> Bits for Basis3<S> { fn bits(&self) -> Vec<u64> { let m: Matrix3<S> = (*self).into(); m.bits() } }

/// a tally restricted to the checks whose description starts with one of the given type names
/// (empty = everything): C01/C03/C04/C12/C13 run the part of this file that concerns their own types
pub struct FTally {
    pub t: Tally,
    pub only: Vec<String>,
}
impl FTally {
    pub fn new(name: &'static str, only: &[String]) -> FTally {
        FTally { t: Tally::new(name), only: only.to_vec() }
    }
    pub fn rec(&self, ok: bool, desc: impl FnOnce() -> String) {
        if self.only.is_empty() {
            self.t.rec(ok, desc);
        } else {
            let d = desc();
            if self.only.iter().any(|p| d.starts_with(p.as_str())) {
                self.t.rec(ok, || d);
            }
        }
    }
    pub fn print(&self) {
        self.t.print()
    }
}
pub struct Ctx {
    pub forms: FTally,
    pub left: FTally,
    pub folds: FTally,
    pub progs: FTally,
    pub sites: std::collections::BTreeSet<String>,
}
fn same<T: Bits>(ctx: &mut Ctx, site: &str, base: &T, others: &[(&str, T)]) {
    ctx.sites.insert(site.to_string());
    let b0 = base.bits();
    for (form, o) in others {
        ctx.forms.rec(o.bits() == b0, || format!("{} form `{}`: {:x?} vs by-value {:x?}", site, form, o.bits(), b0));
    }
}

/// binary operator whose right operand is a compound type: four operand forms (+ assignment)
macro_rules! bin4 {
    ($ctx:expr, $site:expr, $a:expr, $b:expr, $op:tt) => {{
        let (a, b) = ($a, $b);
        let r = a $op b;
        same($ctx, $site, &r, &[("&a op b", &a $op b), ("a op &b", a $op &b), ("&a op &b", &a $op &b)]);
    }};
    ($ctx:expr, $site:expr, $a:expr, $b:expr, $op:tt, $opa:tt) => {{
        bin4!($ctx, $site, $a, $b, $op);
        let (a, b) = ($a, $b);
        let r = a $op b;
        let mut t = a;
        t $opa b;
        same($ctx, $site, &r, &[("a op= b", t)]);
    }};
}
/// binary operator whose right operand is the scalar: two operand forms (+ assignment)
macro_rules! bin2 {
    ($ctx:expr, $site:expr, $a:expr, $s:expr, $op:tt) => {{
        let (a, s) = ($a, $s);
        let r = a $op s;
        same($ctx, $site, &r, &[("&a op s", &a $op s)]);
    }};
    ($ctx:expr, $site:expr, $a:expr, $s:expr, $op:tt, $opa:tt) => {{
        bin2!($ctx, $site, $a, $s, $op);
        let (a, s) = ($a, $s);
        let r = a $op s;
        let mut t = a;
        t $opa s;
        same($ctx, $site, &r, &[("a op= s", t)]);
    }};
}

/// operand values: small integers (exact in every scalar type), then a few awkward floats
fn vals<S: Copy>(from: fn(i32) -> S, k: usize, salt: i32) -> Vec<S> {
    (0..k).map(|i| from(((i as i32 * 7 + salt * 3) % 11) - 4 + if (i as i32 + salt) % 5 == 0 { 9 } else { 0 })).collect()
}
fn nz<S: Copy + PartialEq>(from: fn(i32) -> S, v: i32) -> S {
    from(if v == 0 { 3 } else { v })
}

macro_rules! vector_forms {
    ($ctx:expr, $S:ty, $from:expr, $sn:expr) => {{
        let f: fn(i32) -> $S = $from;
        for salt in 0..4 {
            let a = vals::<$S>(f, 4, salt);
            let b: Vec<$S> = vals::<$S>(f, 4, salt + 5).into_iter().map(|x| if x == f(0) { f(2) } else { x }).collect();
            let s = nz(f, salt + 2);
            macro_rules! one {
                ($V:ident, $P:ident, $mk:expr, $mkp:expr, $name:expr) => {{
                    let (va, vb) = ($mk(&a), $mk(&b));
                    bin4!($ctx, &format!("{}<{}> + {}", $name, $sn, $name), va, vb, +, +=);
                    bin4!($ctx, &format!("{}<{}> - {}", $name, $sn, $name), va, vb, -, -=);
                    bin2!($ctx, &format!("{}<{}> * S", $name, $sn), va, s, *, *=);
                    bin2!($ctx, &format!("{}<{}> / S", $name, $sn), va, s, /, /=);
                    bin2!($ctx, &format!("{}<{}> % S", $name, $sn), va, s, %, %=);
                    // Sum over values / references = left fold from zero
                    let list = vec![va, vb, va, vb, vb];
                    let fold = list.iter().fold($V::<$S>::zero(), |acc, x| acc + *x);
                    let s1: $V<$S> = list.iter().sum();
                    let s2: $V<$S> = list.clone().into_iter().sum();
                    let s3: $V<$S> = Vec::<$V<$S>>::new().into_iter().sum();
                    $ctx.folds.rec(s1.bits() == fold.bits() && s2.bits() == fold.bits() && s3.bits() == $V::<$S>::zero().bits(),
                        || format!("{}<{}> Sum", $name, $sn));
                }};
            }
            one!(Vector1, Point1, |c: &Vec<$S>| Vector1::new(c[0]), |c: &Vec<$S>| Point1::new(c[0]), "Vector1");
            one!(Vector2, Point2, |c: &Vec<$S>| Vector2::new(c[0], c[1]), |c: &Vec<$S>| Point2::new(c[0], c[1]), "Vector2");
            one!(Vector3, Point3, |c: &Vec<$S>| Vector3::new(c[0], c[1], c[2]), |c: &Vec<$S>| Point3::new(c[0], c[1], c[2]), "Vector3");
            one!(Vector4, Point3, |c: &Vec<$S>| Vector4::new(c[0], c[1], c[2], c[3]), |c: &Vec<$S>| Point3::new(c[0], c[1], c[2]), "Vector4");
            macro_rules! pt {
                ($P:ident, $mkp:expr, $mkv:expr, $name:expr) => {{
                    let (pa, pb, vb) = ($mkp(&a), $mkp(&b), $mkv(&b));
                    bin4!($ctx, &format!("{}<{}> + Vector", $name, $sn), pa, vb, +, +=);
                    bin4!($ctx, &format!("{}<{}> - Vector", $name, $sn), pa, vb, -, -=);
                    bin4!($ctx, &format!("{}<{}> - {}", $name, $sn, $name), pa, pb, -);
                    bin2!($ctx, &format!("{}<{}> * S", $name, $sn), pa, s, *, *=);
                    bin2!($ctx, &format!("{}<{}> / S", $name, $sn), pa, s, /, /=);
                    bin2!($ctx, &format!("{}<{}> % S", $name, $sn), pa, s, %, %=);
                }};
            }
            pt!(Point1, |c: &Vec<$S>| Point1::new(c[0]), |c: &Vec<$S>| Vector1::new(c[0]), "Point1");
            pt!(Point2, |c: &Vec<$S>| Point2::new(c[0], c[1]), |c: &Vec<$S>| Vector2::new(c[0], c[1]), "Point2");
            pt!(Point3, |c: &Vec<$S>| Point3::new(c[0], c[1], c[2]), |c: &Vec<$S>| Vector3::new(c[0], c[1], c[2]), "Point3");
        }
    }};
}

/// scalar on the left for one primitive type: `s * v`, `s / v`, `s % v` (and `&v`) component-wise
macro_rules! left_scalar {
    ($ctx:expr, $S:ident, $from:expr) => {{
        let f: fn(i32) -> $S = $from;
        for salt in 0..3 {
            // non-zero components (they are divisors), small enough not to overflow the narrowest type
            let c: Vec<$S> = (0..16).map(|i| f(1 + ((i * 3 + salt * 2) % 7))).collect();
            let s = f(5 + salt);
            macro_rules! chk {
                ($name:expr, $v:expr, $comps:expr) => {{
                    let v = $v;
                    let comps: Vec<$S> = $comps;
                    $ctx.sites.insert(format!("{} * {}<{}>", stringify!($S), $name, stringify!($S)));
                    let want_mul: Vec<u64> = comps.iter().flat_map(|x| (s * *x).bits()).collect();
                    let want_div: Vec<u64> = comps.iter().flat_map(|x| (s / *x).bits()).collect();
                    let want_rem: Vec<u64> = comps.iter().flat_map(|x| (s % *x).bits()).collect();
                    $ctx.left.rec((s * v).bits() == want_mul && (s * &v).bits() == want_mul, || format!("{} * {}<{}>", stringify!($S), $name, stringify!($S)));
                    $ctx.left.rec((s / v).bits() == want_div && (s / &v).bits() == want_div, || format!("{} / {}<{}>", stringify!($S), $name, stringify!($S)));
                    $ctx.left.rec((s % v).bits() == want_rem && (s % &v).bits() == want_rem, || format!("{} % {}<{}>", stringify!($S), $name, stringify!($S)));
                }};
            }
            chk!("Vector1", Vector1::new(c[0]), c[0..1].to_vec());
            chk!("Vector2", Vector2::new(c[0], c[1]), c[0..2].to_vec());
            chk!("Vector3", Vector3::new(c[0], c[1], c[2]), c[0..3].to_vec());
            chk!("Vector4", Vector4::new(c[0], c[1], c[2], c[3]), c[0..4].to_vec());
            chk!("Point1", Point1::new(c[0]), c[0..1].to_vec());
            chk!("Point2", Point2::new(c[0], c[1]), c[0..2].to_vec());
            chk!("Point3", Point3::new(c[0], c[1], c[2]), c[0..3].to_vec());
            chk!("Matrix2", Matrix2::new(c[0], c[1], c[2], c[3]), c[0..4].to_vec());
            chk!("Matrix3", Matrix3::new(c[0], c[1], c[2], c[3], c[4], c[5], c[6], c[7], c[8]), c[0..9].to_vec());
            chk!("Matrix4", Matrix4::new(c[0], c[1], c[2], c[3], c[4], c[5], c[6], c[7], c[8], c[9], c[10], c[11], c[12], c[13], c[14], c[15]), c[0..16].to_vec());
        }
    }};
}

macro_rules! float_forms {
    ($ctx:expr, $S:ident) => {{
        let f: fn(i32) -> $S = |i| i as $S;
        for salt in 0..4 {
            let a = vals::<$S>(f, 16, salt);
            let b: Vec<$S> = vals::<$S>(f, 16, salt + 3).into_iter().map(|x| if x == 0.0 { 2.5 } else { x + 0.25 }).collect();
            let s: $S = (salt as $S) * 0.5 + 1.5;
            macro_rules! mat {
                ($M:ident, $V:ident, $mk:expr, $mkv:expr, $name:expr) => {{
                    let (ma, mb, v) = ($mk(&a), $mk(&b), $mkv(&b));
                    same($ctx, &format!("-{}<{}>", $name, stringify!($S)), &(-ma), &[("-&a", -&ma)]);
                    bin4!($ctx, &format!("{}<{}> + {}", $name, stringify!($S), $name), ma, mb, +, +=);
                    bin4!($ctx, &format!("{}<{}> - {}", $name, stringify!($S), $name), ma, mb, -, -=);
                    bin4!($ctx, &format!("{}<{}> * {}", $name, stringify!($S), $name), ma, mb, *);
                    bin4!($ctx, &format!("{}<{}> * Vector", $name, stringify!($S)), ma, v, *);
                    bin2!($ctx, &format!("{}<{}> * S", $name, stringify!($S)), ma, s, *, *=);
                    bin2!($ctx, &format!("{}<{}> / S", $name, stringify!($S)), ma, s, /, /=);
                    bin2!($ctx, &format!("{}<{}> % S", $name, stringify!($S)), ma, s, %, %=);
                    let list = vec![ma, mb, ma, mb];
                    let fs = list.iter().fold($M::<$S>::zero(), |acc, x| acc + *x);
                    let fp = list.iter().fold($M::<$S>::identity(), |acc, x| acc * *x);
                    let s1: $M<$S> = list.iter().sum();
                    let s2: $M<$S> = list.clone().into_iter().sum();
                    let p1: $M<$S> = list.iter().product();
                    let p2: $M<$S> = list.clone().into_iter().product();
                    let p3: $M<$S> = Vec::<$M<$S>>::new().into_iter().product();
                    $ctx.folds.rec(s1.bits() == fs.bits() && s2.bits() == fs.bits() && p1.bits() == fp.bits() && p2.bits() == fp.bits()
                        && p3.bits() == $M::<$S>::identity().bits(), || format!("{}<{}> Sum/Product", $name, stringify!($S)));
                }};
            }
            mat!(Matrix2, Vector2, |c: &Vec<$S>| Matrix2::new(c[0], c[1], c[2], c[3]), |c: &Vec<$S>| Vector2::new(c[4], c[5]), "Matrix2");
            mat!(Matrix3, Vector3, |c: &Vec<$S>| Matrix3::new(c[0], c[1], c[2], c[3], c[4], c[5], c[6], c[7], c[8]), |c: &Vec<$S>| Vector3::new(c[9], c[10], c[11]), "Matrix3");
            mat!(Matrix4, Vector4, |c: &Vec<$S>| Matrix4::new(c[0], c[1], c[2], c[3], c[4], c[5], c[6], c[7], c[8], c[9], c[10], c[11], c[12], c[13], c[14], c[15]),
                |c: &Vec<$S>| Vector4::new(c[3], c[2], c[1], c[0]), "Matrix4");
            // quaternion
            let (qa, qb) = (Quaternion::new(a[0], a[1], a[2], a[3]), Quaternion::new(b[0], b[1], b[2], b[3]));
            let v3 = Vector3::new(b[4], b[5], b[6]);
            let qn = "Quaternion";
            same($ctx, &format!("-{}<{}>", qn, stringify!($S)), &(-qa), &[("-&a", -&qa)]);
            bin4!($ctx, &format!("{}<{}> + {}", qn, stringify!($S), qn), qa, qb, +, +=);
            bin4!($ctx, &format!("{}<{}> - {}", qn, stringify!($S), qn), qa, qb, -, -=);
            bin4!($ctx, &format!("{}<{}> * {}", qn, stringify!($S), qn), qa, qb, *);
            bin4!($ctx, &format!("{}<{}> * Vector3", qn, stringify!($S)), qa, v3, *);
            bin2!($ctx, &format!("{}<{}> * S", qn, stringify!($S)), qa, s, *, *=);
            bin2!($ctx, &format!("{}<{}> / S", qn, stringify!($S)), qa, s, /, /=);
            bin2!($ctx, &format!("{}<{}> % S", qn, stringify!($S)), qa, s, %, %=);
            $ctx.left.rec((s * qa).bits() == Quaternion::from_sv(s * qa.s, s * qa.v).bits() && (s * &qa).bits() == (s * qa).bits(),
                || format!("{} * Quaternion", stringify!($S)));
            $ctx.left.rec((s / qb).bits() == Quaternion::from_sv(s / qb.s, s / qb.v).bits() && (s / &qb).bits() == (s / qb).bits(),
                || format!("{} / Quaternion", stringify!($S)));
            let ql = vec![qa, qb, qb];   // not a palindrome: a reversed fold must differ
            let (fs, fp) = (ql.iter().fold(Quaternion::<$S>::zero(), |acc, x| acc + *x), ql.iter().fold(Quaternion::<$S>::one(), |acc, x| acc * *x));
            let (s1, s2): (Quaternion<$S>, Quaternion<$S>) = (ql.iter().sum(), ql.clone().into_iter().sum());
            let (p1, p2): (Quaternion<$S>, Quaternion<$S>) = (ql.iter().product(), ql.clone().into_iter().product());
            $ctx.folds.rec(s1.bits() == fs.bits() && s2.bits() == fs.bits() && p1.bits() == fp.bits() && p2.bits() == fp.bits(),
                || format!("Quaternion<{}> Sum/Product", stringify!($S)));
            // angles
            macro_rules! ang {
                ($A:ident) => {{
                    let (x, y) = ($A(a[0] + 0.5), $A(b[1]));
                    let an = stringify!($A);
                    same($ctx, &format!("-{}<{}>", an, stringify!($S)), &(-x), &[("-&a", -&x)]);
                    bin4!($ctx, &format!("{}<{}> + {}", an, stringify!($S), an), x, y, +, +=);
                    bin4!($ctx, &format!("{}<{}> - {}", an, stringify!($S), an), x, y, -, -=);
                    bin4!($ctx, &format!("{}<{}> / {}", an, stringify!($S), an), x, y, /);
                    bin4!($ctx, &format!("{}<{}> % {}", an, stringify!($S), an), x, y, %, %=);
                    bin2!($ctx, &format!("{}<{}> * S", an, stringify!($S)), x, s, *, *=);
                    bin2!($ctx, &format!("{}<{}> / S", an, stringify!($S)), x, s, /, /=);
                    let l = vec![x, y, x];
                    let fs = l.iter().fold($A::<$S>::zero(), |acc, z| acc + *z);
                    let (s1, s2): ($A<$S>, $A<$S>) = (l.iter().sum(), l.clone().into_iter().sum());
                    $ctx.folds.rec(s1.bits() == fs.bits() && s2.bits() == fs.bits(), || format!("{}<{}> Sum", an, stringify!($S)));
                }};
            }
            ang!(Rad);
            ang!(Deg);
            if salt == 0 {
                // `%` and `%=` with every sign combination and |lhs| on both sides of |rhs|
                macro_rules! ang_rem {
                    ($A:ident) => {{
                        for (p, q) in [(-450.0, 360.0), (450.0, 360.0), (-7.0, -3.0), (7.0, -3.0), (1.0, 360.0), (-1.0, 360.0), (360.0, 360.0), (-360.0, 360.0), (0.5, -0.25)] {
                            let (x, y) = ($A(p as $S), $A(q as $S));
                            bin4!($ctx, &format!("{}<{}> % {} ({} % {})", stringify!($A), stringify!($S), stringify!($A), p, q), x, y, %, %=);
                            bin4!($ctx, &format!("{}<{}> - {} ({} - {})", stringify!($A), stringify!($S), stringify!($A), p, q), x, y, -, -=);
                        }
                    }};
                }
                ang_rem!(Rad);
                ang_rem!(Deg);
                // sums whose partial sums round: any re-association or compensation changes the bits
                let h: Vec<$S> = vec![1e16 as $S, 0.1, 1.0, 1.0, 0.2, 1e-8 as $S, 0.3, 7.7, -3.3, 1e-3 as $S, 5e7 as $S, 0.7];
                macro_rules! hard_sum {
                    ($name:expr, $zero:expr, $mk:expr) => {{
                        let l = vec![$mk(0), $mk(1), $mk(2), $mk(3), $mk(4)];
                        let fs = l.iter().fold($zero, |acc, z| acc + *z);
                        let s1 = l.iter().sum();
                        let s2 = l.clone().into_iter().sum();
                        $ctx.folds.rec(fs.bits() == Bits::bits(&s1) && fs.bits() == Bits::bits(&s2) && { let _ = (&s1, &fs); true },
                            || format!("{}<{}> Sum of rounding-sensitive terms: by-ref {:x?}, by-value {:x?}, left fold {:x?}", $name, stringify!($S), Bits::bits(&s1), Bits::bits(&s2), fs.bits()));
                        // make the two sums the same type as the fold
                        let _: &[_] = &[s1, s2, fs];
                    }};
                }
                // folds with factors / terms a shortcut would treat as neutral: exactly one() / zero(), and values that
                // only *approximately* equal them (is_identity / is_zero are ulps-comparisons), next to factors large
                // enough that dropping the almost-neutral one changes the bits of the result
                {
                    let bits_s = <$S>::MANTISSA_DIGITS as i32;          // 24 / 53
                    let tiny: $S = (2.0 as $S).powi(-(bits_s + 2));     // below EPSILON: "is_identity" holds for I + tiny
                    let big: $S = (2.0 as $S).powi(bits_s - 13);
                    macro_rules! special_prod {
                        ($name:expr, $T:ty, $one:expr, $near:expr, $x:expr, $y:expr) => {{
                            let l: Vec<$T> = vec![$x, $near, $one, $y, $near, $x];
                            let fp = l.iter().fold($one, |acc, z| acc * *z);
                            let p1: $T = l.iter().product();
                            let p2: $T = l.clone().into_iter().product();
                            let dropped: $T = vec![$x, $y, $x].into_iter().fold($one, |acc, z| acc * z);
                            $ctx.folds.rec(p1.bits() == fp.bits() && p2.bits() == fp.bits(),
                                || format!("{}<{}> Product over a list with an exactly-neutral and an almost-neutral factor (off by {:e}): by-ref {:x?}, by-value {:x?}, left fold {:x?}",
                                    $name, stringify!($S), tiny, p1.bits(), p2.bits(), fp.bits()));
                            // the data are such that the almost-neutral factor matters (guards the check itself)
                            $ctx.folds.rec(fp.bits() != dropped.bits(), || format!("{}<{}>: special fold data are not sensitive", $name, stringify!($S)));
                        }};
                    }
                    let mut n2 = Matrix2::<$S>::identity(); n2[1][0] = tiny;
                    let mut n3 = Matrix3::<$S>::identity(); n3[1][0] = tiny;
                    let mut n4 = Matrix4::<$S>::identity(); n4[1][0] = tiny;
                    special_prod!("Matrix2", Matrix2<$S>, Matrix2::<$S>::identity(), n2, Matrix2::from_diagonal(Vector2::new(big, 3.0)), Matrix2::from_diagonal(Vector2::new(1.0, 2.0)));
                    special_prod!("Matrix3", Matrix3<$S>, Matrix3::<$S>::identity(), n3, Matrix3::from_diagonal(Vector3::new(big, 3.0, 5.0)),
                        Matrix3::from_diagonal(Vector3::new(1.0, 2.0, 3.0)));
                    special_prod!("Matrix4", Matrix4<$S>, Matrix4::<$S>::identity(), n4, Matrix4::from_diagonal(Vector4::new(big, 3.0, 5.0, 7.0)),
                        Matrix4::from_diagonal(Vector4::new(1.0, 2.0, 3.0, 1.0)));
                    let nq = Quaternion::<$S>::new(1.0, tiny, 0.0, 0.0);
                    special_prod!("Quaternion", Quaternion<$S>, Quaternion::<$S>::one(), nq, Quaternion::new(big, 1.0, 2.0, 3.0), Quaternion::new(2.0, 0.0, 0.0, 0.0));
                    let half = (2.0 as $S).powi((bits_s - 13) / 2);
                    let nb3: Basis3<$S> = Rotation3::from_angle_z(Rad(tiny));
                    let bb3 = Basis3::from_quaternion(&Quaternion::new(0.0, half, 0.0, 0.0));      // diag(1, 1 - 2 half^2, 1 - 2 half^2)
                    special_prod!("Basis3", Basis3<$S>, Basis3::<$S>::one(), nb3, bb3, Basis3::from_quaternion(&Quaternion::new(0.0, 0.0, 2.0, 0.0)));
                    // sums: exactly zero and almost-zero terms only
                    macro_rules! special_sum {
                        ($name:expr, $T:ty, $zero:expr, $near:expr) => {{
                            let l: Vec<$T> = vec![$near, $zero, $near, $near];
                            let fs = l.iter().fold($zero, |acc, z| acc + *z);
                            let s1: $T = l.iter().sum();
                            let s2: $T = l.clone().into_iter().sum();
                            $ctx.folds.rec(s1.bits() == fs.bits() && s2.bits() == fs.bits() && fs.bits() != ($zero).bits(),
                                || format!("{}<{}> Sum of almost-zero terms ({:e} each): by-ref {:x?}, by-value {:x?}, left fold {:x?}", $name, stringify!($S), tiny, s1.bits(), s2.bits(), fs.bits()));
                        }};
                    }
                    special_sum!("Vector3", Vector3<$S>, Vector3::<$S>::zero(), Vector3::new(tiny, 0.0, -tiny));
                    special_sum!("Vector4", Vector4<$S>, Vector4::<$S>::zero(), Vector4::new(tiny, 0.0, -tiny, tiny));
                    special_sum!("Matrix3", Matrix3<$S>, Matrix3::<$S>::zero(), Matrix3::from_value(tiny));
                    special_sum!("Matrix4", Matrix4<$S>, Matrix4::<$S>::zero(), Matrix4::from_value(tiny));
                    special_sum!("Quaternion", Quaternion<$S>, Quaternion::<$S>::zero(), Quaternion::new(tiny, 0.0, tiny, 0.0));
                    special_sum!("Rad", Rad<$S>, Rad::<$S>::zero(), Rad(tiny));
                    special_sum!("Deg", Deg<$S>, Deg::<$S>::zero(), Deg(tiny));
                }
                hard_sum!("Vector1", Vector1::<$S>::zero(), |i: usize| Vector1::new(h[i]));
                hard_sum!("Vector2", Vector2::<$S>::zero(), |i: usize| Vector2::new(h[i], h[i + 5]));
                hard_sum!("Vector3", Vector3::<$S>::zero(), |i: usize| Vector3::new(h[i], h[i + 3], h[i + 6]));
                hard_sum!("Vector4", Vector4::<$S>::zero(), |i: usize| Vector4::new(h[i], h[i + 2], h[i + 4], h[i + 6]));
                hard_sum!("Quaternion", Quaternion::<$S>::zero(), |i: usize| Quaternion::new(h[i], h[i + 2], h[i + 4], h[i + 6]));
                hard_sum!("Matrix2", Matrix2::<$S>::zero(), |i: usize| Matrix2::new(h[i], h[i + 2], h[i + 4], h[i + 6]));
                hard_sum!("Rad", Rad::<$S>::zero(), |i: usize| Rad(h[i]));
                hard_sum!("Deg", Deg::<$S>::zero(), |i: usize| Deg(h[i + 1]));
            }
            // bases
            let (b2a, b2b): (Basis2<$S>, Basis2<$S>) = (Rotation2::from_angle(Rad(a[0] * 0.25)), Rotation2::from_angle(Rad(b[1] * 0.125)));
            bin4!($ctx, &format!("Basis2<{}> * Basis2", stringify!($S)), b2a, b2b, *);
            let (b3a, b3b): (Basis3<$S>, Basis3<$S>) = (Basis3::from_quaternion(&qa), Basis3::from_quaternion(&qb));
            bin4!($ctx, &format!("Basis3<{}> * Basis3", stringify!($S)), b3a, b3b, *);
            // a Basis2 need not be a pure rotation: look_at with `up` clockwise of `dir` / look_at_stable(dir, true) is a reflection
            let b2m: Basis2<$S> = Basis2::look_at_stable(Vector2::new(3.0, 4.0), true);
            let b2n: Basis2<$S> = Rotation::look_at(Vector2::new(1.0, 2.0), Vector2::new(2.0, -1.0));
            for lm in [vec![b2m], vec![b2a, b2m, b2b], vec![b2m, b2n], vec![b2n, b2a, b2m, b2m]] {
                let fm = lm.iter().fold(Basis2::<$S>::one(), |acc, x| acc * *x);
                let (pm1, pm2): (Basis2<$S>, Basis2<$S>) = (lm.iter().product(), lm.clone().into_iter().product());
                $ctx.folds.rec(pm1.bits() == fm.bits() && pm2.bits() == fm.bits(),
                    || format!("Basis2<{}> Product of a list containing reflections (look_at_stable(dir, true)): by ref {:?}, by value {:?}, left fold {:?}", stringify!($S), pm1, pm2, fm));
            }
            let l2 = vec![b2a, b2b, b2b];
            let f2 = l2.iter().fold(Basis2::<$S>::one(), |acc, x| acc * *x);
            let (p1, p2): (Basis2<$S>, Basis2<$S>) = (l2.iter().product(), l2.clone().into_iter().product());
            let l3 = vec![b3a, b3b, b3b];
            let f3 = l3.iter().fold(Basis3::<$S>::one(), |acc, x| acc * *x);
            let (q1, q2): (Basis3<$S>, Basis3<$S>) = (l3.iter().product(), l3.clone().into_iter().product());
            $ctx.folds.rec(p1.bits() == f2.bits() && p2.bits() == f2.bits() && q1.bits() == f3.bits() && q2.bits() == f3.bits(),
                || format!("Basis2/3<{}> Product", stringify!($S)));
            // Decomposed: `*` is concat
            let (da, db) = (Decomposed { scale: s, rot: qa.normalize(), disp: v3 }, Decomposed { scale: s + 1.0, rot: qb.normalize(), disp: v3 * 2.0 });
            let prod = da * db;
            let cc = da.concat(&db);
            $ctx.forms.rec(prod.scale.to_bits() == cc.scale.to_bits() && prod.rot.bits() == cc.rot.bits() && prod.disp.bits() == cc.disp.bits(),
                || format!("Decomposed<{}> * Decomposed", stringify!($S)));
            $ctx.sites.insert(format!("Decomposed<{}> * Decomposed", stringify!($S)));
        }
    }};
}

/// random straight-line programs over Vector3<f64>/Matrix3<f64> registers, forms chosen at random
fn programs(ctx: &mut Ctx, n: u64, seed: u64) {
    let mut s = seed;
    for _ in 0..n {
        let mut v: Vec<Vector3<f64>> = (0..4).map(|i| Vector3::new((splitmix(&mut s) % 9) as f64 - 4.0, i as f64 + 0.5, (splitmix(&mut s) % 5) as f64)).collect();
        let mut m: Vec<Matrix3<f64>> = (0..2).map(|_| Matrix3::from_cols(v[0], v[1] * 0.5, v[2] + v[3])).collect();
        let (mut v2, mut m2) = (v.clone(), m.clone());
        let len = 1 + splitmix(&mut s) % 20;
        for _ in 0..len {
            let (op, d, a, b, form) = (splitmix(&mut s) % 7, (splitmix(&mut s) % 4) as usize, (splitmix(&mut s) % 4) as usize,
                                       (splitmix(&mut s) % 4) as usize, splitmix(&mut s) % 5);
            let k = (splitmix(&mut s) % 5) as f64 * 0.5 + 0.5;
            // reference spelling: all by value
            match op {
                0 => v[d] = v[a] + v[b],
                1 => v[d] = v[a] - v[b],
                2 => v[d] = v[a] * k,
                3 => v[d] = m[a % 2] * v[b],
                4 => m[d % 2] = m[a % 2] * m[b % 2],
                5 => m[d % 2] = m[a % 2] + m[b % 2],
                _ => v[d] = -v[a],
            }
            // same instruction written with a random form
            match op {
                0 => v2[d] = match form { 0 => v2[a] + v2[b], 1 => &v2[a] + v2[b], 2 => v2[a] + &v2[b], 3 => &v2[a] + &v2[b], _ => { let mut t = v2[a]; t += v2[b]; t } },
                1 => v2[d] = match form { 0 => v2[a] - v2[b], 1 => &v2[a] - v2[b], 2 => v2[a] - &v2[b], 3 => &v2[a] - &v2[b], _ => { let mut t = v2[a]; t -= v2[b]; t } },
                2 => v2[d] = match form { 0 | 1 => v2[a] * k, 2 | 3 => &v2[a] * k, _ => { let mut t = v2[a]; t *= k; t } },
                3 => v2[d] = match form { 0 => m2[a % 2] * v2[b], 1 => &m2[a % 2] * v2[b], 2 => m2[a % 2] * &v2[b], _ => &m2[a % 2] * &v2[b] },
                4 => m2[d % 2] = match form { 0 => m2[a % 2] * m2[b % 2], 1 => &m2[a % 2] * m2[b % 2], 2 => m2[a % 2] * &m2[b % 2], _ => &m2[a % 2] * &m2[b % 2] },
                5 => m2[d % 2] = match form { 0 => m2[a % 2] + m2[b % 2], 1 => &m2[a % 2] + m2[b % 2], 2 => m2[a % 2] + &m2[b % 2], 3 => &m2[a % 2] + &m2[b % 2],
                                              _ => { let mut t = m2[a % 2]; t += m2[b % 2]; t } },
                _ => v2[d] = -v2[a],
            }
        }
        let okv = v.iter().zip(v2.iter()).all(|(x, y)| x.bits() == y.bits());
        let okm = m.iter().zip(m2.iter()).all(|(x, y)| x.bits() == y.bits());
        ctx.progs.rec(okv && okm, || format!("program seed-state {:x}", s));
    }
}

pub fn c17(n_programs: u64, seed: u64, only: &[String]) {
    let mut ctx = Ctx { forms: FTally::new("c17.operand_forms_identical", only), left: FTally::new("c17.scalar_on_the_left", only),
                        folds: FTally::new("c17.sum_product_are_left_folds", only), progs: FTally::new("c17.straight_line_programs", only),
                        sites: Default::default() };
    vector_forms!(&mut ctx, f64, |i| i as f64, "f64");
    vector_forms!(&mut ctx, f32, |i| i as f32, "f32");
    vector_forms!(&mut ctx, i32, |i| i, "i32");
    vector_forms!(&mut ctx, i64, |i| i as i64, "i64");
    vector_forms!(&mut ctx, u16, |i| (i + 20) as u16, "u16");
    float_forms!(&mut ctx, f64);
    float_forms!(&mut ctx, f32);
    left_scalar!(&mut ctx, u8, |i| i as u8);
    left_scalar!(&mut ctx, u16, |i| i as u16);
    left_scalar!(&mut ctx, u32, |i| i as u32);
    left_scalar!(&mut ctx, u64, |i| i as u64);
    left_scalar!(&mut ctx, usize, |i| i as usize);
    left_scalar!(&mut ctx, i8, |i| i as i8);
    left_scalar!(&mut ctx, i16, |i| i as i16);
    left_scalar!(&mut ctx, i32, |i| i);
    left_scalar!(&mut ctx, i64, |i| i as i64);
    left_scalar!(&mut ctx, isize, |i| i as isize);
    left_scalar!(&mut ctx, f32, |i| i as f32 + 0.5);
    left_scalar!(&mut ctx, f64, |i| i as f64 + 0.25);
    if only.is_empty() {
        programs(&mut ctx, n_programs, seed);
    }
    ctx.forms.print();
    ctx.left.print();
    ctx.folds.print();
    ctx.progs.print();
    println!("info c17.operator_sites_exercised={}", ctx.sites.len());
    if only.is_empty() {
        for s in ctx.sites.iter() {
            println!("site {}", s);
        }
    }
}

// ------------------------------------------------------------------------------------------------
// symbolic operand forms: the same macros run at the recording scalar `X` on SYMBOLIC operands.  Every form of an operator
// must build the same expression DAG (the arena is hash-consed, so equal expressions are equal node ids; `+` and `*` are
// compared up to the order of their operands, which IEEE arithmetic cannot distinguish either).  That is a statement for
// all operand values at once, and -- the code being generic in the scalar -- for every scalar type.
use crate::big::Rat;
use crate::scalar::{self, Node, ARENA, X};

/// canonical hash of the expression a node stands for (children of + and * sorted)
fn canon(n: u32, memo: &mut std::collections::HashMap<u32, u64>) -> u64 {
    if let Some(h) = memo.get(&n) {
        return *h;
    }
    let node = ARENA.with(|a| a.borrow().sym[n as usize].clone());
    let mix = |t: u64, xs: &[u64]| -> u64 {
        let mut z = t.wrapping_mul(0x9E3779B97F4A7C15) ^ 0xD1B54A32D192ED03;
        for x in xs {
            z = (z ^ x).wrapping_mul(0xBF58476D1CE4E5B9);
            z ^= z >> 29;
        }
        z
    };
    let h = match node {
        Node::Var(i) => mix(1, &[i as u64]),
        Node::Const(r) => {
            let t = r.show();
            let mut z = 2u64;
            for b in t.bytes() {
                z = z.wrapping_mul(1099511628211) ^ b as u64;
            }
            mix(2, &[z])
        }
        Node::Add(a, b) => { let (x, y) = (canon(a, memo), canon(b, memo)); mix(3, &[x.min(y), x.max(y)]) }
        Node::Mul(a, b) => { let (x, y) = (canon(a, memo), canon(b, memo)); mix(4, &[x.min(y), x.max(y)]) }
        Node::Sub(a, b) => mix(5, &[canon(a, memo), canon(b, memo)]),
        Node::Div(a, b) => mix(6, &[canon(a, memo), canon(b, memo)]),
        Node::Rem(a, b) => mix(7, &[canon(a, memo), canon(b, memo)]),
        Node::Neg(a) => mix(8, &[canon(a, memo)]),
        Node::Fn1(f, a) => mix(9 + f.len() as u64 * 131 + f.as_bytes()[0] as u64, &[canon(a, memo)]),
        Node::Fn2(f, a, b) => mix(1009 + f.len() as u64 * 131 + f.as_bytes()[0] as u64, &[canon(a, memo), canon(b, memo)]),
    };
    memo.insert(n, h);
    h
}
impl Bits for X {
    fn bits(&self) -> Vec<u64> {
        let mut memo = std::collections::HashMap::new();
        vec![canon(self.node(), &mut memo)]
    }
}
thread_local! { static NEXT_VAR: std::cell::Cell<u32> = std::cell::Cell::new(0); }
/// a fresh symbolic variable whose shadow value is the small integer `i`
fn sym(i: i32) -> X {
    let k = NEXT_VAR.with(|c| { let k = c.get(); c.set(k + 1); k });
    X::input(Rat::from_i64(i as i64), k)
}

pub fn c17_symbolic() {
    scalar::reset();
    scalar::reset_trace(true);
    let none: Vec<String> = vec![];
    let mut ctx = Ctx { forms: FTally::new("c17.sym.operand_forms_same_expression", &none), left: FTally::new("c17.sym.unused_left", &none),
                        folds: FTally::new("c17.sym.sum_product_same_expression_as_left_fold", &none), progs: FTally::new("c17.sym.unused_progs", &none),
                        sites: Default::default() };
    // vectors and points: + - (vector), * / % (scalar), Sum -- all dimensions
    vector_forms!(&mut ctx, X, sym, "X");
    // matrices, quaternions, angles, bases, Decomposed
    for salt in 0..3 {
        let a: Vec<X> = (0..16).map(|i| sym(1 + ((i * 3 + salt * 2) % 7))).collect();
        let b: Vec<X> = (0..16).map(|i| sym(2 + ((i * 5 + salt) % 9))).collect();
        let s = sym(3 + salt);
        macro_rules! mat {
            ($M:ident, $mk:expr, $mkv:expr, $name:expr) => {{
                let (ma, mb, v) = ($mk(&a), $mk(&b), $mkv(&b));
                same(&mut ctx, &format!("-{}<X>", $name), &(-ma), &[("-&a", -&ma)]);
                bin4!(&mut ctx, &format!("{}<X> + {}", $name, $name), ma, mb, +, +=);
                bin4!(&mut ctx, &format!("{}<X> - {}", $name, $name), ma, mb, -, -=);
                bin4!(&mut ctx, &format!("{}<X> * {}", $name, $name), ma, mb, *);
                bin4!(&mut ctx, &format!("{}<X> * Vector", $name), ma, v, *);
                bin2!(&mut ctx, &format!("{}<X> * S", $name), ma, s, *, *=);
                bin2!(&mut ctx, &format!("{}<X> / S", $name), ma, s, /, /=);
                bin2!(&mut ctx, &format!("{}<X> % S", $name), ma, s, %, %=);
                let list = vec![ma, mb, mb];
                let fs = list.iter().fold($M::<X>::zero(), |acc, x| acc + *x);
                let fp = list.iter().fold($M::<X>::identity(), |acc, x| acc * *x);
                let (s1, s2): ($M<X>, $M<X>) = (list.iter().sum(), list.clone().into_iter().sum());
                let (p1, p2): ($M<X>, $M<X>) = (list.iter().product(), list.clone().into_iter().product());
                ctx.folds.rec(s1.bits() == fs.bits() && s2.bits() == fs.bits() && p1.bits() == fp.bits() && p2.bits() == fp.bits(),
                    || format!("{}<X> Sum/Product over symbolic operands", $name));
            }};
        }
        mat!(Matrix2, |c: &Vec<X>| Matrix2::new(c[0], c[1], c[2], c[3]), |c: &Vec<X>| Vector2::new(c[4], c[5]), "Matrix2");
        mat!(Matrix3, |c: &Vec<X>| Matrix3::new(c[0], c[1], c[2], c[3], c[4], c[5], c[6], c[7], c[8]), |c: &Vec<X>| Vector3::new(c[9], c[10], c[11]), "Matrix3");
        mat!(Matrix4, |c: &Vec<X>| Matrix4::new(c[0], c[1], c[2], c[3], c[4], c[5], c[6], c[7], c[8], c[9], c[10], c[11], c[12], c[13], c[14], c[15]),
            |c: &Vec<X>| Vector4::new(c[3], c[2], c[1], c[0]), "Matrix4");
        let (qa, qb) = (Quaternion::new(a[0], a[1], a[2], a[3]), Quaternion::new(b[0], b[1], b[2], b[3]));
        let v3 = Vector3::new(b[4], b[5], b[6]);
        same(&mut ctx, "-Quaternion<X>", &(-qa), &[("-&a", -&qa)]);
        bin4!(&mut ctx, "Quaternion<X> + Quaternion", qa, qb, +, +=);
        bin4!(&mut ctx, "Quaternion<X> - Quaternion", qa, qb, -, -=);
        bin4!(&mut ctx, "Quaternion<X> * Quaternion", qa, qb, *);
        bin4!(&mut ctx, "Quaternion<X> * Vector3", qa, v3, *);
        bin2!(&mut ctx, "Quaternion<X> * S", qa, s, *, *=);
        bin2!(&mut ctx, "Quaternion<X> / S", qa, s, /, /=);
        bin2!(&mut ctx, "Quaternion<X> % S", qa, s, %, %=);
        let ql = vec![qa, qb, qb];
        let (fs, fp) = (ql.iter().fold(Quaternion::<X>::zero(), |acc, x| acc + *x), ql.iter().fold(Quaternion::<X>::one(), |acc, x| acc * *x));
        let (s1, s2): (Quaternion<X>, Quaternion<X>) = (ql.iter().sum(), ql.clone().into_iter().sum());
        let (p1, p2): (Quaternion<X>, Quaternion<X>) = (ql.iter().product(), ql.clone().into_iter().product());
        ctx.folds.rec(s1.bits() == fs.bits() && s2.bits() == fs.bits() && p1.bits() == fp.bits() && p2.bits() == fp.bits(),
            || "Quaternion<X> Sum/Product over symbolic operands".to_string());
        macro_rules! ang {
            ($A:ident) => {{
                let (x, y) = ($A(a[0]), $A(b[1]));
                let an = stringify!($A);
                same(&mut ctx, &format!("-{}<X>", an), &(-x), &[("-&a", -&x)]);
                bin4!(&mut ctx, &format!("{}<X> + {}", an, an), x, y, +, +=);
                bin4!(&mut ctx, &format!("{}<X> - {}", an, an), x, y, -, -=);
                bin4!(&mut ctx, &format!("{}<X> / {}", an, an), x, y, /);
                bin4!(&mut ctx, &format!("{}<X> % {}", an, an), x, y, %, %=);
                bin2!(&mut ctx, &format!("{}<X> * S", an), x, s, *, *=);
                bin2!(&mut ctx, &format!("{}<X> / S", an), x, s, /, /=);
                let l = vec![x, y, x];
                let fs = l.iter().fold($A::<X>::zero(), |acc, z| acc + *z);
                let (s1, s2): ($A<X>, $A<X>) = (l.iter().sum(), l.clone().into_iter().sum());
                ctx.folds.rec(s1.bits() == fs.bits() && s2.bits() == fs.bits(), || format!("{}<X> Sum over symbolic operands", an));
            }};
        }
        ang!(Rad);
        ang!(Deg);
        let (b2a, b2b): (Basis2<X>, Basis2<X>) = (Rotation2::from_angle(Rad(a[0])), Rotation2::from_angle(Rad(b[1])));
        bin4!(&mut ctx, "Basis2<X> * Basis2", b2a, b2b, *);
        let (b3a, b3b): (Basis3<X>, Basis3<X>) = (Basis3::from_quaternion(&qa), Basis3::from_quaternion(&qb));
        bin4!(&mut ctx, "Basis3<X> * Basis3", b3a, b3b, *);
        let l3 = vec![b3a, b3b, b3b];
        let f3 = l3.iter().fold(Basis3::<X>::one(), |acc, x| acc * *x);
        let (q1, q2): (Basis3<X>, Basis3<X>) = (l3.iter().product(), l3.clone().into_iter().product());
        ctx.folds.rec(q1.bits() == f3.bits() && q2.bits() == f3.bits(), || "Basis3<X> Product over symbolic operands".to_string());
        let (da, db) = (Decomposed { scale: s, rot: qa, disp: v3 }, Decomposed { scale: a[7], rot: qb, disp: Vector3::new(a[8], a[9], a[10]) });
        let prod = da * db;
        let cc = da.concat(&db);
        let mut cs = da;
        cs.concat_self(&db);
        ctx.forms.rec(prod.scale.bits() == cc.scale.bits() && prod.rot.bits() == cc.rot.bits() && prod.disp.bits() == cc.disp.bits()
            && cs.scale.bits() == cc.scale.bits() && cs.rot.bits() == cc.rot.bits() && cs.disp.bits() == cc.disp.bits(),
            || "Decomposed<X>: `*`, concat and concat_self over symbolic operands".to_string());
    }
    ctx.forms.print();
    ctx.folds.print();
    println!("info c17.sym.operator_sites={} (every form compared as an expression DAG over symbolic operands: holds for all operand values and, the code being generic in the scalar, for every scalar type)", ctx.sites.len());
    scalar::reset_trace(false);
}
