//! Checks on the native `f32`/`f64` instantiation (C13 ranges and round trips).
//! Output: one line per check: `native <name> n=<evaluated> fails=<k> [first=<description>]`

use cgmath::{Angle, Deg, Rad};
use std::sync::atomic::{AtomicU64, Ordering};
use std::sync::Mutex;

fn splitmix(s: &mut u64) -> u64 {
    *s = s.wrapping_add(0x9E3779B97F4A7C15);
    let mut z = *s;
    z = (z ^ (z >> 30)).wrapping_mul(0xBF58476D1CE4E5B9);
    z = (z ^ (z >> 27)).wrapping_mul(0x94D049BB133111EB);
    z ^ (z >> 31)
}

pub struct Tally {
    pub name: &'static str,
    pub n: AtomicU64,
    pub fails: AtomicU64,
    pub first: Mutex<Option<String>>,
}
impl Tally {
    pub fn new(name: &'static str) -> Tally {
        Tally { name, n: AtomicU64::new(0), fails: AtomicU64::new(0), first: Mutex::new(None) }
    }
    pub fn rec(&self, ok: bool, desc: impl FnOnce() -> String) {
        self.n.fetch_add(1, Ordering::Relaxed);
        if !ok {
            self.fails.fetch_add(1, Ordering::Relaxed);
            let mut f = self.first.lock().unwrap();
            if f.is_none() {
                *f = Some(desc());
            }
        }
    }
    pub fn print(&self) {
        let f = self.first.lock().unwrap();
        println!(
            "native {} n={} fails={}{}",
            self.name,
            self.n.load(Ordering::Relaxed),
            self.fails.load(Ordering::Relaxed),
            match &*f {
                Some(s) => format!(" first={}", s),
                None => String::new(),
            }
        );
    }
}

macro_rules! c13_checks {
    ($fname:ident, $S:ident, $bits:ident, $lo:expr, $hi:expr) => {
        /// range membership and round trip for one value (both units)
        fn $fname(a: $S, t: &[Tally; 6]) {
            if !a.is_finite() {
                return;
            }
            let eps = $S::EPSILON;
            let nr = Rad(a).normalize().0;
            let full_r = Rad::<$S>::full_turn().0;
            t[0].rec(nr >= 0.0 && nr <= full_r, || format!("Rad({:e}).normalize()={:e} bits={:#x}", a, nr, a.to_bits()));
            let nd = Deg(a).normalize().0;
            t[1].rec(nd >= 0.0 && nd <= 360.0, || format!("Deg({:e}).normalize()={:e} bits={:#x}", a, nd, a.to_bits()));
            let sr = Rad(a).normalize_signed().0;
            t[2].rec(sr >= -full_r / 2.0 && sr <= full_r / 2.0, || format!("Rad({:e}).normalize_signed()={:e} bits={:#x}", a, sr, a.to_bits()));
            let sd = Deg(a).normalize_signed().0;
            t[3].rec(sd >= -180.0 && sd <= 180.0, || format!("Deg({:e}).normalize_signed()={:e} bits={:#x}", a, sd, a.to_bits()));
            // round trip, inside the range where neither direction over/underflows
            let m = a.abs();
            if m == 0.0 || (m >= $lo && m <= $hi) {
                let rt: Rad<$S> = Deg::from(Rad(a)).into();
                let err = (rt.0 - a).abs();
                t[4].rec(err <= 4.0 * eps * m, || format!("Rad({:e})->Deg->Rad={:e} relerr={:e} bits={:#x}", a, rt.0, err / m, a.to_bits()));
                let rt2: Deg<$S> = Rad::from(Deg(a)).into();
                let err2 = (rt2.0 - a).abs();
                t[5].rec(err2 <= 4.0 * eps * m, || format!("Deg({:e})->Rad->Deg={:e} relerr={:e} bits={:#x}", a, rt2.0, err2 / m, a.to_bits()));
            }
        }
    };
}
c13_checks!(c13_f32, f32, u32, 1.0e-30f32, 1.0e30f32);
c13_checks!(c13_f64, f64, u64, 1.0e-290f64, 1.0e290f64);

fn tallies(p: &'static [&'static str; 6]) -> [Tally; 6] {
    [Tally::new(p[0]), Tally::new(p[1]), Tally::new(p[2]), Tally::new(p[3]), Tally::new(p[4]), Tally::new(p[5])]
}
const N32: [&str; 6] = ["f32.rad.normalize_range", "f32.deg.normalize_range", "f32.rad.normalize_signed_range",
    "f32.deg.normalize_signed_range", "f32.rad_deg_rad_roundtrip", "f32.deg_rad_deg_roundtrip"];
const N64: [&str; 6] = ["f64.rad.normalize_range", "f64.deg.normalize_range", "f64.rad.normalize_signed_range",
    "f64.deg.normalize_signed_range", "f64.rad_deg_rad_roundtrip", "f64.deg_rad_deg_roundtrip"];

fn specials64() -> Vec<f64> {
    let mut v = vec![0.0, -0.0, 1.0, -1.0, f64::MIN_POSITIVE, -f64::MIN_POSITIVE, 5e-324, -5e-324, f64::MAX, f64::MIN,
        f64::EPSILON, -f64::EPSILON, 1e-300, -1e-300, 1e300];
    let pi2 = std::f64::consts::PI * 2.0;
    for k in -8i32..=8 {
        for base in [pi2, 360.0, std::f64::consts::PI, 180.0] {
            let x = base * k as f64;
            v.push(x);
            v.push(f64::from_bits(x.to_bits().wrapping_add(1)));
            v.push(f64::from_bits(x.to_bits().wrapping_sub(1)));
        }
    }
    for e in -1074..1024 {
        v.push((2.0f64).powi(e));
        v.push(-(2.0f64).powi(e));
    }
    v
}

/// known-finding probes: the round trip outside the no-overflow/underflow range
pub fn c13_probes() {
    let a = f64::MAX;
    let rt: Rad<f64> = Deg::from(Rad(a)).into();
    println!("probe f64.rad_deg_rad_roundtrip.overflow input=Rad(f64::MAX) output={:e} ok={}", rt.0, rt.0 == a);
    let d = 5e-324f64;
    let rt2: Deg<f64> = Rad::from(Deg(d)).into();
    println!("probe f64.deg_rad_deg_roundtrip.underflow input=Deg(5e-324) output={:e} ok={}", rt2.0, (rt2.0 - d).abs() <= 4.0 * f64::EPSILON * d);
    let a32 = f32::MAX;
    let rt3: Rad<f32> = Deg::from(Rad(a32)).into();
    println!("probe f32.rad_deg_rad_roundtrip.overflow input=Rad(f32::MAX) output={:e} ok={}", rt3.0, rt3.0 == a32);
}

pub fn c13(n: u64, seed: u64, full_f32: bool) {
    let t32 = tallies(&N32);
    let t64 = tallies(&N64);
    for x in specials64() {
        c13_f64(x, &t64);
        c13_f32(x as f32, &t32);
    }
    let mut s = seed;
    for _ in 0..n {
        let b = splitmix(&mut s);
        c13_f64(f64::from_bits(b), &t64);
        c13_f32(f32::from_bits(b as u32), &t32);
        // moderately sized values too (bit patterns are mostly astronomically large or tiny)
        let m = ((b >> 11) as f64 / (1u64 << 53) as f64 - 0.5) * 4000.0;
        c13_f64(m, &t64);
        c13_f32(m as f32, &t32);
    }
    if full_f32 {
        // every f32 bit pattern, in parallel
        let threads = 16u64;
        std::thread::scope(|sc| {
            for k in 0..threads {
                let t32 = &t32;
                sc.spawn(move || {
                    let lo = k * (1u64 << 32) / threads;
                    let hi = (k + 1) * (1u64 << 32) / threads;
                    for b in lo..hi {
                        c13_f32(f32::from_bits(b as u32), t32);
                    }
                });
            }
        });
        println!("native f32.exhaustive all_bit_patterns=4294967296");
    }
    // turn_div_k * k = full_turn up to rounding
    let tk = Tally::new("turn_div_k");
    macro_rules! turn {
        ($A:ident, $S:ident) => {{
            let f = $A::<$S>::full_turn().0;
            let e = $S::EPSILON * f;
            tk.rec(($A::<$S>::turn_div_2().0 * 2.0 - f).abs() <= e, || "turn_div_2".into());
            tk.rec(($A::<$S>::turn_div_3().0 * 3.0 - f).abs() <= e, || "turn_div_3".into());
            tk.rec(($A::<$S>::turn_div_4().0 * 4.0 - f).abs() <= e, || "turn_div_4".into());
            tk.rec(($A::<$S>::turn_div_6().0 * 6.0 - f).abs() <= e, || "turn_div_6".into());
        }};
    }
    turn!(Rad, f32);
    turn!(Rad, f64);
    turn!(Deg, f32);
    turn!(Deg, f64);
    let full: Deg<f64> = Rad::<f64>::full_turn().into();
    tk.rec((full.0 - 360.0).abs() <= 360.0 * f64::EPSILON, || format!("Rad::full_turn in degrees = {:e}", full.0));
    let full32: Deg<f32> = Rad::<f32>::full_turn().into();
    tk.rec((full32.0 - 360.0).abs() <= 360.0 * f32::EPSILON, || format!("Rad::<f32>::full_turn in degrees = {:e}", full32.0));
    for t in t32.iter().chain(t64.iter()) {
        t.print();
    }
    tk.print();
    // trigonometric wrappers: sin/cos/tan read the angle in its own unit, the inverse functions
    // return it in the unit of the type (f64, against std on the radian value)
    let tw = Tally::new("trig_wrappers_units");
    let mut s2 = seed ^ 0x7716;
    let d2r = std::f64::consts::PI / 180.0;
    let close = |a: f64, b: f64| (a - b).abs() <= 1e-12 * (1.0 + a.abs().max(b.abs()));
    for i in 0..(n.min(20000) + 16) {
        let u = (splitmix(&mut s2) >> 11) as f64 / (1u64 << 53) as f64;
        let x = if i < 4 { [-1.0, 1.0, 0.0, 0.5][i as usize] } else { 2.0 * u - 1.0 };   // in [-1, 1]
        let y = ((splitmix(&mut s2) >> 11) as f64 / (1u64 << 53) as f64 - 0.5) * 20.0;
        // degrees: a few turns either way, and (every fourth case) tiny angles and angles next to a half turn
        let ang = match i % 8 { 3 => (u - 0.5) * 1e-4, 7 => 180.0 * ((i % 5) as f64 - 2.0) + (u - 0.5) * 1e-3, _ => (u - 0.5) * 1440.0 };
        tw.rec(close(Deg::<f64>::acos(x).0, x.acos() / d2r) && close(Rad::<f64>::acos(x).0, x.acos())
            && close(Deg::<f64>::asin(x).0, x.asin() / d2r) && close(Rad::<f64>::asin(x).0, x.asin())
            && close(Deg::<f64>::atan(y).0, y.atan() / d2r) && close(Rad::<f64>::atan(y).0, y.atan())
            && close(Deg::<f64>::atan2(y, x).0, y.atan2(x) / d2r) && close(Rad::<f64>::atan2(y, x).0, y.atan2(x)),
            || format!("inverse trig units: x={:e} y={:e}: Deg::acos={:e} (want {:e}) Deg::asin={:e} Deg::atan={:e} Deg::atan2={:e}",
                       x, y, Deg::<f64>::acos(x).0, x.acos() / d2r, Deg::<f64>::asin(x).0, Deg::<f64>::atan(y).0, Deg::<f64>::atan2(y, x).0));
        let r = ang * d2r;
        let (sd, cd) = Deg(ang).sin_cos();
        let (sr, cr) = Rad(r).sin_cos();
        tw.rec(close(Deg(ang).sin(), r.sin()) && close(Deg(ang).cos(), r.cos()) && close(Rad(r).sin(), r.sin()) && close(Rad(r).cos(), r.cos())
            && close(sd, r.sin()) && close(cd, r.cos()) && close(sr, r.sin()) && close(cr, r.cos())
            && (r.cos().abs() < 1e-3 || (close(Deg(ang).tan(), r.tan()) && close(Rad(r).tan(), r.tan()) && close(Deg(ang).sec(), 1.0 / r.cos()) && close(Rad(r).sec(), 1.0 / r.cos())))
            && (r.sin().abs() < 1e-3 || (close(Deg(ang).csc(), 1.0 / r.sin()) && close(Rad(r).csc(), 1.0 / r.sin())
                && (r.cos().abs() < 1e-3 || (close(Deg(ang).cot(), 1.0 / r.tan()) && close(Rad(r).cot(), 1.0 / r.tan()))))),
            || format!("forward trig units: Deg({:e}): sin={:e} cos={:e} (want {:e}, {:e})", ang, Deg(ang).sin(), Deg(ang).cos(), r.sin(), r.cos()));
    }
    tw.print();
    // opposite(a) is normalize(a + half turn), bit for bit -- in particular at exact multiples of a half turn,
    // where the result must be in [0, full turn)
    let to = Tally::new("opposite_is_normalize_plus_half_turn");
    let mut s3 = seed ^ 0x0bb0;
    for i in 0..(n.min(20000) + 32) {
        let u = (splitmix(&mut s3) >> 11) as f64 / (1u64 << 53) as f64;
        let d = if i < 24 { 180.0 * (i as f64 - 12.0) } else { (u - 0.5) * 4000.0 };
        let od = Deg(d).opposite();
        to.rec(od.0.to_bits() == (Deg(d) + Deg::turn_div_2()).normalize().0.to_bits() && od.0 >= 0.0 && od.0 < 360.0,
            || format!("Deg({:e}).opposite() = {:e}, normalize(a + 180) = {:e}", d, od.0, (Deg(d) + Deg::turn_div_2()).normalize().0));
        let rr = if i < 24 { Rad::<f64>::turn_div_2().0 * (i as f64 - 12.0) } else { (u - 0.5) * 70.0 };
        let or = Rad(rr).opposite();
        to.rec(or.0.to_bits() == (Rad(rr) + Rad::turn_div_2()).normalize().0.to_bits() && or.0 >= 0.0 && or.0 < Rad::<f64>::full_turn().0,
            || format!("Rad({:e}).opposite() = {:e}, normalize(a + pi) = {:e}", rr, or.0, (Rad(rr) + Rad::turn_div_2()).normalize().0));
        let (df, rf) = (d as f32, rr as f32);
        to.rec(Deg(df).opposite().0.to_bits() == (Deg(df) + Deg::turn_div_2()).normalize().0.to_bits()
            && Rad(rf).opposite().0.to_bits() == (Rad(rf) + Rad::turn_div_2()).normalize().0.to_bits(),
            || format!("f32 opposite: Deg({:e}) -> {:e}, Rad({:e}) -> {:e}", df, Deg(df).opposite().0, rf, Rad(rf).opposite().0));
    }
    to.print();
    c13_probes();
}
