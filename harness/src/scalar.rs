//! `X`: the exact scalar at which the real cgmath generic code is instantiated.
//!
//! * value: an exact rational (arena handle, so that `X: Copy`);
//! * transcendental calls: deterministic "oracle" interpretation (see DESIGN §3),
//!   identical to `Cgm/Driver.lean`;
//! * optional symbolic shadow: when tracing is on, every operation also records
//!   a node of a hash-consed expression DAG and every comparison a guard.

use crate::big::{Nat, Rat};
use std::cell::RefCell;
use std::cmp::Ordering;
use std::collections::HashMap;
use std::ops::*;

pub const NONE: u32 = u32::MAX;

#[derive(Clone, PartialEq, Eq, Hash, Debug)]
pub enum Node {
    Var(u32),
    Const(Rat),
    Add(u32, u32),
    Sub(u32, u32),
    Mul(u32, u32),
    Div(u32, u32),
    Rem(u32, u32),
    Neg(u32),
    Fn1(&'static str, u32),
    Fn2(&'static str, u32, u32),
}

#[derive(Clone, Debug, PartialEq, Eq)]
pub enum Guard {
    Eq(u32, u32, bool),
    Lt(u32, u32, bool),
    Le(u32, u32, bool),
    AbsDiff(u32, u32, u32, bool),
    Rel(u32, u32, u32, u32, bool),
    Ulps(u32, u32, u32, u32, bool),
    /// three-way comparison (`partial_cmp`, used by the derived `PartialOrd` of `Rad`/`Deg`)
    Cmp(u32, u32, i8),
}

pub struct Arena {
    pub vals: Vec<Rat>,
    pub nodes: Vec<u32>,
    pub tracing: bool,
    pub sym: Vec<Node>,
    pub cons: HashMap<Node, u32>,
    pub guards: Vec<Guard>,
    pub seed: u64,
    pub max_height: usize,
}

thread_local! {
    pub static ARENA: RefCell<Arena> = RefCell::new(Arena {
        vals: Vec::new(), nodes: Vec::new(), tracing: false, sym: Vec::new(),
        cons: HashMap::new(), guards: Vec::new(), seed: 1, max_height: 0,
    });
}

pub fn reset() {
    ARENA.with(|a| {
        let mut a = a.borrow_mut();
        a.vals.clear();
        a.nodes.clear();
        a.max_height = 0;
    });
}
pub fn reset_trace(on: bool) {
    ARENA.with(|a| {
        let mut a = a.borrow_mut();
        a.tracing = on;
        a.sym.clear();
        a.cons.clear();
        a.guards.clear();
    });
}
pub fn set_seed(s: u64) {
    ARENA.with(|a| a.borrow_mut().seed = s);
}
pub fn max_height() -> usize {
    ARENA.with(|a| a.borrow().max_height)
}

impl Arena {
    fn node(&mut self, n: Node) -> u32 {
        if !self.tracing {
            return NONE;
        }
        if let Some(&i) = self.cons.get(&n) {
            return i;
        }
        let i = self.sym.len() as u32;
        self.sym.push(n.clone());
        self.cons.insert(n, i);
        i
    }
    fn push(&mut self, v: Rat, n: u32) -> X {
        let h = v.height();
        if h > self.max_height {
            self.max_height = h;
        }
        self.vals.push(v);
        self.nodes.push(n);
        X((self.vals.len() - 1) as u32)
    }
}

#[derive(Copy, Clone)]
pub struct X(pub u32);

impl std::fmt::Debug for X {
    fn fmt(&self, f: &mut std::fmt::Formatter) -> std::fmt::Result {
        write!(f, "{}", self.val().show())
    }
}

impl X {
    pub fn val(self) -> Rat {
        ARENA.with(|a| a.borrow().vals[self.0 as usize].clone())
    }
    pub fn node(self) -> u32 {
        ARENA.with(|a| a.borrow().nodes[self.0 as usize])
    }
    pub fn konst(r: Rat) -> X {
        ARENA.with(|a| {
            let mut a = a.borrow_mut();
            let n = a.node(Node::Const(r.clone()));
            a.push(r, n)
        })
    }
    /// an input: value `r`; when tracing it is the symbolic variable `i`
    pub fn input(r: Rat, i: u32) -> X {
        ARENA.with(|a| {
            let mut a = a.borrow_mut();
            let n = a.node(Node::Var(i));
            a.push(r, n)
        })
    }
    pub fn int(i: i64) -> X {
        X::konst(Rat::from_i64(i))
    }
    fn bin(self, o: X, f: fn(&Rat, &Rat) -> Rat, mk: fn(u32, u32) -> Node) -> X {
        ARENA.with(|a| {
            let mut a = a.borrow_mut();
            let v = f(&a.vals[self.0 as usize], &a.vals[o.0 as usize]);
            let n = if a.tracing {
                let (x, y) = (a.nodes[self.0 as usize], a.nodes[o.0 as usize]);
                a.node(mk(x, y))
            } else {
                NONE
            };
            a.push(v, n)
        })
    }
    fn un(self, v: Rat, name: &'static str) -> X {
        ARENA.with(|a| {
            let mut a = a.borrow_mut();
            let n = if a.tracing {
                let x = a.nodes[self.0 as usize];
                a.node(Node::Fn1(name, x))
            } else {
                NONE
            };
            a.push(v, n)
        })
    }
    fn guard(g: Guard) {
        ARENA.with(|a| {
            let mut a = a.borrow_mut();
            if a.tracing {
                a.guards.push(g);
            }
        })
    }
    fn seed() -> u64 {
        ARENA.with(|a| a.borrow().seed)
    }
}

// ---------------------------------------------------------------- oracle H

pub const P: u32 = 4294967291; // 2^32 - 5, prime

fn fin(mut z: u64) -> u64 {
    z ^= z >> 30;
    z = z.wrapping_mul(0xBF58476D1CE4E5B9);
    z ^= z >> 27;
    z = z.wrapping_mul(0x94D049BB133111EB);
    z ^= z >> 31;
    z
}

pub fn oracle_hash(tag: u64, x: &Rat, seed: u64) -> u64 {
    let a = x.num.mod_small(P) as u64 + if x.neg { P as u64 } else { 0 };
    let b = x.den.mod_small(P) as u64;
    let z = fin(seed.wrapping_add(tag.wrapping_mul(0x9E3779B97F4A7C15)));
    let z = fin(z ^ a);
    fin(z ^ b)
}

/// nonzero rational k/64 with 1 <= |k| <= 1000
fn generic_val(h: u64) -> Rat {
    let v = (h % 2000) as i64 - 1000;
    let v = if v >= 0 { v + 1 } else { v };
    Rat::from_frac(v, 64)
}

/// the tangent-half-angle parameter used for sin/cos/tan of the argument x
fn trig_t(x: &Rat, seed: u64) -> Rat {
    let h = oracle_hash(TAG_TRIG, x, seed);
    Rat::from_frac(2 * (h % 400) as i64 - 399, 32)
}

pub const TAG_SQRT: u64 = 1;
pub const TAG_TRIG: u64 = 2;
pub const TAG_ASIN: u64 = 3;
pub const TAG_ACOS: u64 = 4;
pub const TAG_ATAN: u64 = 5;
pub const TAG_ATAN2: u64 = 6;

pub fn o_sqrt(x: &Rat, seed: u64) -> Rat {
    match x.exact_sqrt() {
        Some(r) => r,
        None => generic_val(oracle_hash(TAG_SQRT, x, seed)),
    }
}
pub fn o_cos(x: &Rat, seed: u64) -> Rat {
    let t = trig_t(x, seed);
    let t2 = t.mul(&t);
    Rat::one().sub(&t2).div(&Rat::one().add(&t2))
}
pub fn o_sin(x: &Rat, seed: u64) -> Rat {
    let t = trig_t(x, seed);
    let t2 = t.mul(&t);
    t.add(&t).div(&Rat::one().add(&t2))
}
pub fn o_tan(x: &Rat, seed: u64) -> Rat {
    let t = trig_t(x, seed);
    let t2 = t.mul(&t);
    t.add(&t).div(&Rat::one().sub(&t2))
}
pub fn o_fn1(tag: u64, x: &Rat, seed: u64) -> Rat {
    generic_val(oracle_hash(tag, x, seed))
}
pub fn o_atan2(y: &Rat, x: &Rat, seed: u64) -> Rat {
    let h1 = oracle_hash(TAG_ATAN2, y, seed);
    generic_val(oracle_hash(TAG_ATAN2, x, h1))
}

// ---------------------------------------------------------------- std traits

impl PartialEq for X {
    fn eq(&self, o: &X) -> bool {
        let r = self.val() == o.val();
        X::guard(Guard::Eq(self.node(), o.node(), r));
        r
    }
}
impl PartialOrd for X {
    fn partial_cmp(&self, o: &X) -> Option<Ordering> {
        // the derived `PartialOrd` of the angle newtypes compares through here
        let r = self.val().cmp(&o.val());
        X::guard(Guard::Cmp(self.node(), o.node(), r as i8));
        Some(r)
    }
    fn lt(&self, o: &X) -> bool {
        let r = self.val().cmp(&o.val()) == Ordering::Less;
        X::guard(Guard::Lt(self.node(), o.node(), r));
        r
    }
    fn le(&self, o: &X) -> bool {
        let r = self.val().cmp(&o.val()) != Ordering::Greater;
        X::guard(Guard::Le(self.node(), o.node(), r));
        r
    }
    fn gt(&self, o: &X) -> bool {
        let r = o.val().cmp(&self.val()) == Ordering::Less;
        X::guard(Guard::Lt(o.node(), self.node(), r));
        r
    }
    fn ge(&self, o: &X) -> bool {
        let r = o.val().cmp(&self.val()) != Ordering::Greater;
        X::guard(Guard::Le(o.node(), self.node(), r));
        r
    }
}

impl Add for X {
    type Output = X;
    fn add(self, o: X) -> X {
        self.bin(o, Rat::add, Node::Add)
    }
}
impl Sub for X {
    type Output = X;
    fn sub(self, o: X) -> X {
        self.bin(o, Rat::sub, Node::Sub)
    }
}
impl Mul for X {
    type Output = X;
    fn mul(self, o: X) -> X {
        self.bin(o, Rat::mul, Node::Mul)
    }
}
impl Div for X {
    type Output = X;
    fn div(self, o: X) -> X {
        self.bin(o, Rat::div, Node::Div)
    }
}
impl Rem for X {
    type Output = X;
    fn rem(self, o: X) -> X {
        self.bin(o, Rat::fmod, Node::Rem)
    }
}
impl Neg for X {
    type Output = X;
    fn neg(self) -> X {
        ARENA.with(|a| {
            let mut a = a.borrow_mut();
            let v = a.vals[self.0 as usize].neg();
            let n = if a.tracing {
                let x = a.nodes[self.0 as usize];
                a.node(Node::Neg(x))
            } else {
                NONE
            };
            a.push(v, n)
        })
    }
}
macro_rules! assign {
    ($T:ident, $f:ident, $op:tt) => {
        impl $T for X {
            fn $f(&mut self, o: X) {
                *self = *self $op o;
            }
        }
    };
}
assign!(AddAssign, add_assign, +);
assign!(SubAssign, sub_assign, -);
assign!(MulAssign, mul_assign, *);
assign!(DivAssign, div_assign, /);
assign!(RemAssign, rem_assign, %);

// ---------------------------------------------------------------- num_traits

use num_traits::{Float, Num, NumCast, One, ToPrimitive, Zero};

impl Zero for X {
    fn zero() -> X {
        X::int(0)
    }
    fn is_zero(&self) -> bool {
        *self == X::int(0)
    }
}
impl One for X {
    fn one() -> X {
        X::int(1)
    }
}
impl Num for X {
    type FromStrRadixErr = ();
    fn from_str_radix(_: &str, _: u32) -> Result<X, ()> {
        Err(())
    }
}
impl ToPrimitive for X {
    fn to_i64(&self) -> Option<i64> {
        let f = self.val().to_f64();
        if f.abs() < 9.0e18 {
            Some(f as i64)
        } else {
            None
        }
    }
    fn to_u64(&self) -> Option<u64> {
        let f = self.val().to_f64();
        if f >= 0.0 && f < 1.8e19 {
            Some(f as u64)
        } else {
            None
        }
    }
    fn to_f64(&self) -> Option<f64> {
        Some(self.val().to_f64())
    }
}
impl NumCast for X {
    /// exact value of the literal (through f64: exact for every f64 literal and
    /// for integers below 2^53, which is all cgmath ever casts)
    fn from<T: ToPrimitive>(n: T) -> Option<X> {
        let f = n.to_f64()?;
        Rat::from_f64(f).map(X::konst)
    }
}

impl Float for X {
    fn nan() -> X {
        unimplemented!("X::nan")
    }
    fn infinity() -> X {
        unimplemented!("X::infinity")
    }
    fn neg_infinity() -> X {
        unimplemented!("X::neg_infinity")
    }
    fn neg_zero() -> X {
        X::int(0)
    }
    fn min_value() -> X {
        unimplemented!("X::min_value")
    }
    fn min_positive_value() -> X {
        unimplemented!("X::min_positive_value")
    }
    fn max_value() -> X {
        unimplemented!("X::max_value")
    }
    fn is_nan(self) -> bool {
        false
    }
    fn is_infinite(self) -> bool {
        false
    }
    fn is_finite(self) -> bool {
        true
    }
    fn is_normal(self) -> bool {
        !self.val().is_zero()
    }
    fn classify(self) -> std::num::FpCategory {
        if self.val().is_zero() {
            std::num::FpCategory::Zero
        } else {
            std::num::FpCategory::Normal
        }
    }
    fn floor(self) -> X {
        let v = self.val().floor();
        self.un(v, "floor")
    }
    fn ceil(self) -> X {
        let v = self.val().neg().floor().neg();
        self.un(v, "ceil")
    }
    fn round(self) -> X {
        unimplemented!("X::round")
    }
    fn trunc(self) -> X {
        let v = self.val().trunc();
        self.un(v, "trunc")
    }
    fn fract(self) -> X {
        self - Float::trunc(self)
    }
    /// `abs x = if x < 0 then -x else x` (recorded as a guard when tracing)
    fn abs(self) -> X {
        if self < X::int(0) {
            -self
        } else {
            self
        }
    }
    fn signum(self) -> X {
        unimplemented!("X::signum")
    }
    fn is_sign_positive(self) -> bool {
        !self.val().neg
    }
    fn is_sign_negative(self) -> bool {
        self.val().neg
    }
    fn mul_add(self, a: X, b: X) -> X {
        self * a + b
    }
    /// `recip x = 1 / x`
    fn recip(self) -> X {
        X::int(1) / self
    }
    fn powi(self, _: i32) -> X {
        unimplemented!("X::powi")
    }
    fn powf(self, _: X) -> X {
        unimplemented!("X::powf")
    }
    fn sqrt(self) -> X {
        let v = o_sqrt(&self.val(), X::seed());
        self.un(v, "sqrt")
    }
    fn exp(self) -> X {
        unimplemented!("X::exp")
    }
    fn exp2(self) -> X {
        unimplemented!("X::exp2")
    }
    fn ln(self) -> X {
        unimplemented!("X::ln")
    }
    fn log(self, _: X) -> X {
        unimplemented!("X::log")
    }
    fn log2(self) -> X {
        unimplemented!("X::log2")
    }
    fn log10(self) -> X {
        unimplemented!("X::log10")
    }
    /// `max a b = if a < b then b else a`; `min a b = if b < a then b else a`
    fn max(self, o: X) -> X {
        if self < o {
            o
        } else {
            self
        }
    }
    fn min(self, o: X) -> X {
        if o < self {
            o
        } else {
            self
        }
    }
    fn abs_sub(self, _: X) -> X {
        unimplemented!("X::abs_sub")
    }
    fn cbrt(self) -> X {
        unimplemented!("X::cbrt")
    }
    fn hypot(self, _: X) -> X {
        unimplemented!("X::hypot")
    }
    fn sin(self) -> X {
        let v = o_sin(&self.val(), X::seed());
        self.un(v, "sin")
    }
    fn cos(self) -> X {
        let v = o_cos(&self.val(), X::seed());
        self.un(v, "cos")
    }
    fn tan(self) -> X {
        let v = o_tan(&self.val(), X::seed());
        self.un(v, "tan")
    }
    fn asin(self) -> X {
        let v = o_fn1(TAG_ASIN, &self.val(), X::seed());
        self.un(v, "asin")
    }
    fn acos(self) -> X {
        let v = o_fn1(TAG_ACOS, &self.val(), X::seed());
        self.un(v, "acos")
    }
    fn atan(self) -> X {
        let v = o_fn1(TAG_ATAN, &self.val(), X::seed());
        self.un(v, "atan")
    }
    fn atan2(self, o: X) -> X {
        ARENA.with(|a| {
            let mut a = a.borrow_mut();
            let v = o_atan2(&a.vals[self.0 as usize], &a.vals[o.0 as usize], a.seed);
            let n = if a.tracing {
                let (x, y) = (a.nodes[self.0 as usize], a.nodes[o.0 as usize]);
                a.node(Node::Fn2("atan2", x, y))
            } else {
                NONE
            };
            a.push(v, n)
        })
    }
    fn sin_cos(self) -> (X, X) {
        (Float::sin(self), Float::cos(self))
    }
    fn exp_m1(self) -> X {
        unimplemented!("X::exp_m1")
    }
    fn ln_1p(self) -> X {
        unimplemented!("X::ln_1p")
    }
    fn sinh(self) -> X {
        unimplemented!("X::sinh")
    }
    fn cosh(self) -> X {
        unimplemented!("X::cosh")
    }
    fn tanh(self) -> X {
        unimplemented!("X::tanh")
    }
    fn asinh(self) -> X {
        unimplemented!("X::asinh")
    }
    fn acosh(self) -> X {
        unimplemented!("X::acosh")
    }
    fn atanh(self) -> X {
        unimplemented!("X::atanh")
    }
    fn integer_decode(self) -> (u64, i16, i8) {
        unimplemented!("X::integer_decode")
    }
}

// ---------------------------------------------------------------- approx

pub fn eps52() -> Rat {
    Rat::make(false, Nat::one(), Nat::one().shl(52))
}

fn absdiff(a: &Rat, b: &Rat) -> Rat {
    a.sub(b).abs()
}
fn rmax(a: Rat, b: Rat) -> Rat {
    if a.cmp(&b) == Ordering::Less {
        b
    } else {
        a
    }
}

/// |a-b| <= eps
pub fn r_abs_diff_eq(a: &Rat, b: &Rat, eps: &Rat) -> bool {
    absdiff(a, b).cmp(eps) != Ordering::Greater
}
/// |a-b| <= eps  or  |a-b| <= max(|a|,|b|) * maxrel
pub fn r_relative_eq(a: &Rat, b: &Rat, eps: &Rat, mr: &Rat) -> bool {
    let d = absdiff(a, b);
    if d.cmp(eps) != Ordering::Greater {
        return true;
    }
    let l = rmax(a.abs(), b.abs());
    d.cmp(&l.mul(mr)) != Ordering::Greater
}
/// |a-b| <= eps  or  |a-b| <= max(|a|,|b|) * 2^-52 * ulps
pub fn r_ulps_eq(a: &Rat, b: &Rat, eps: &Rat, ulps: u32) -> bool {
    let d = absdiff(a, b);
    if d.cmp(eps) != Ordering::Greater {
        return true;
    }
    let l = rmax(a.abs(), b.abs());
    d.cmp(&l.mul(&eps52()).mul(&Rat::from_i64(ulps as i64))) != Ordering::Greater
}

impl approx::AbsDiffEq for X {
    type Epsilon = X;
    fn default_epsilon() -> X {
        X::konst(eps52())
    }
    fn abs_diff_eq(&self, o: &X, e: X) -> bool {
        let r = r_abs_diff_eq(&self.val(), &o.val(), &e.val());
        X::guard(Guard::AbsDiff(self.node(), o.node(), e.node(), r));
        r
    }
}
impl approx::RelativeEq for X {
    fn default_max_relative() -> X {
        X::konst(eps52())
    }
    fn relative_eq(&self, o: &X, e: X, mr: X) -> bool {
        let r = r_relative_eq(&self.val(), &o.val(), &e.val(), &mr.val());
        X::guard(Guard::Rel(self.node(), o.node(), e.node(), mr.node(), r));
        r
    }
}
impl approx::UlpsEq for X {
    fn default_max_ulps() -> u32 {
        4
    }
    fn ulps_eq(&self, o: &X, e: X, u: u32) -> bool {
        let r = r_ulps_eq(&self.val(), &o.val(), &e.val(), u);
        X::guard(Guard::Ulps(self.node(), o.node(), e.node(), u, r));
        r
    }
}
