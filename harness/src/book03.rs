//! C03 / C12 over the integer scalar types (where no overflow occurs): every vector and point
//! operation is compared, component by component, with the same operation done on `i128`.
//! The exact-rational correspondence cannot see a change that is an identity over a field but
//! not over the integers (e.g. `v / s` computed as `v * (1 / s)`).

use crate::native::Tally;
use cgmath::*;

fn splitmix(s: &mut u64) -> u64 {
    *s = s.wrapping_add(0x9E3779B97F4A7C15);
    let mut z = *s;
    z = (z ^ (z >> 30)).wrapping_mul(0xBF58476D1CE4E5B9);
    z = (z ^ (z >> 27)).wrapping_mul(0x94D049BB133111EB);
    z ^ (z >> 31)
}

pub struct Ctx {
    pub lin: Tally,
    pub scal: Tally,
    pub ew: Tally,
    pub dot: Tally,
    pub cross: Tally,
    pub point: Tally,
    pub seed: u64,
}

macro_rules! dim {
    ($ctx:ident, $t:ident, $tn:ident, $a:ident, $b:ident, $d:ident, $k:ident, $V:ident, $P:ident, $n:expr, [$($f:ident : $i:expr),+]) => {{
        let (ctx, tn, a, b, d, k) = (&mut *$ctx, $tn, &$a, &$b, &$d, $k);
        let c = |x: i128| x as $t;
        let va = $V { $($f: c(a[$i])),+ };
        let vb = $V { $($f: c(b[$i])),+ };
        let vd = $V { $($f: c(d[$i])),+ };
        let ls = |v: $V<$t>| -> Vec<i128> { vec![$(v.$f as i128),+] };
        let idx: Vec<usize> = (0..$n).collect();
        let want = |f: &dyn Fn(usize) -> i128| -> Vec<i128> { idx.iter().map(|i| f(*i)).collect() };
        ctx.lin.rec(ls(va + vb) == want(&|i| a[i] + b[i]) && ls(va - vb) == want(&|i| a[i] - b[i])
            && ls(va + $V::zero()) == want(&|i| a[i]) && ls($V::<$t>::zero()) == want(&|_| 0),
            || format!("{}<{}> add/sub/zero a={:?} b={:?}", stringify!($V), tn, &a[..$n], &b[..$n]));
        ctx.scal.rec(ls(va * c(k)) == want(&|i| a[i] * k) && ls(va / c(k)) == want(&|i| a[i] / k)
            && ls(va % c(k)) == want(&|i| a[i] % k) && ls(&va / c(k)) == want(&|i| a[i] / k)
            && { let mut m = va; m /= c(k); ls(m) == want(&|i| a[i] / k) }
            && { let mut m = va; m *= c(k); ls(m) == want(&|i| a[i] * k) }
            && { let mut m = va; m %= c(k); ls(m) == want(&|i| a[i] % k) }
            && ls(c(k) * va) == want(&|i| k * a[i]) && ls(c(k * 6) / vd) == want(&|i| (k * 6) / d[i]),
            || format!("{}<{}> scalar mul/div/rem v={:?} s={} (v/s={:?})", stringify!($V), tn, &a[..$n], k, ls(va / c(k))));
        ctx.ew.rec(ls(va.mul_element_wise(vb)) == want(&|i| a[i] * b[i]) && ls(va.div_element_wise(vd)) == want(&|i| a[i] / d[i])
            && ls(va.rem_element_wise(vd)) == want(&|i| a[i] % d[i]) && ls(va.add_element_wise(vb)) == want(&|i| a[i] + b[i])
            && ls(va.sub_element_wise(vb)) == want(&|i| a[i] - b[i]) && ls(va.add_element_wise(c(k))) == want(&|i| a[i] + k)
            && ls(va.mul_element_wise(c(k))) == want(&|i| a[i] * k) && ls(va.div_element_wise(c(k))) == want(&|i| a[i] / k)
            && ls(va.rem_element_wise(c(k))) == want(&|i| a[i] % k)
            // v - s, by value, stated without leaving the unsigned range: (v + s) - s = v
            && ls(va.add_element_wise(c(k)).sub_element_wise(c(k))) == want(&|i| a[i]),
            || format!("{}<{}> element-wise a={:?} b={:?} d={:?} k={}", stringify!($V), tn, &a[..$n], &b[..$n], &d[..$n], k));
        // the in-place element-wise methods (vector and scalar right-hand side) change the receiver to the by-value result
        ctx.ew.rec({ let mut m = va; m.add_assign_element_wise(vb); ls(m) == want(&|i| a[i] + b[i]) }
            && { let mut m = va; m.sub_assign_element_wise(vb); ls(m) == want(&|i| a[i] - b[i]) }
            && { let mut m = va; m.mul_assign_element_wise(vb); ls(m) == want(&|i| a[i] * b[i]) }
            && { let mut m = va; m.div_assign_element_wise(vd); ls(m) == want(&|i| a[i] / d[i]) }
            && { let mut m = va; m.rem_assign_element_wise(vd); ls(m) == want(&|i| a[i] % d[i]) }
            && { let mut m = va; m.add_assign_element_wise(c(k)); ls(m) == want(&|i| a[i] + k) }
            && { let mut m = vb; m.add_assign_element_wise(c(k)); m.sub_assign_element_wise(c(k)); ls(m) == want(&|i| b[i]) }
            && { let mut m = va; m.mul_assign_element_wise(c(k)); ls(m) == want(&|i| a[i] * k) }
            && { let mut m = va; m.div_assign_element_wise(c(k)); ls(m) == want(&|i| a[i] / k) }
            && { let mut m = va; m.rem_assign_element_wise(c(k)); ls(m) == want(&|i| a[i] % k) },
            || format!("{}<{}> in-place element-wise methods a={:?} b={:?} d={:?} k={}: e.g. add_assign_element_wise(k) gives {:?}", stringify!($V), tn, &a[..$n], &b[..$n], &d[..$n], k,
                       { let mut m = va; m.add_assign_element_wise(c(k)); ls(m) }));
        let dot_w: i128 = idx.iter().map(|i| a[*i] * b[*i]).sum();
        ctx.dot.rec($V::dot(va, vb) as i128 == dot_w && $V::dot(vb, va) as i128 == dot_w
            && va.sum() as i128 == idx.iter().map(|i| a[*i]).sum::<i128>()
            && va.product() as i128 == idx.iter().map(|i| a[*i]).product::<i128>(),
            || format!("{}<{}> dot/sum/product a={:?} b={:?}", stringify!($V), tn, &a[..$n], &b[..$n]));
        // points of the same dimension
        let pa = $P { $($f: c(a[$i])),+ };
        let pb = $P { $($f: c(b[$i])),+ };
        let lp = |p: $P<$t>| -> Vec<i128> { vec![$(p.$f as i128),+] };
        ctx.point.rec(lp(pa + vb) == want(&|i| a[i] + b[i]) && lp(pa - vb) == want(&|i| a[i] - b[i])
            && ls(pa - pb) == want(&|i| a[i] - b[i]) && lp(pa * c(k)) == want(&|i| a[i] * k)
            && lp(pa / c(k)) == want(&|i| a[i] / k) && lp(pa % c(k)) == want(&|i| a[i] % k)
            && ls(pa.to_vec()) == want(&|i| a[i]) && lp($P::from_vec(va)) == want(&|i| a[i])
            && pa.dot(vb) as i128 == dot_w && lp($P::<$t>::origin()) == want(&|_| 0)
            && lp(pa.mul_element_wise(pb)) == want(&|i| a[i] * b[i]) && lp(pa.div_element_wise($P::from_vec(vd))) == want(&|i| a[i] / d[i])
            && lp(pb + (pa - pb)) == want(&|i| a[i])
            && lp(pb.midpoint(pa)) == want(&|i| b[i] + (a[i] - b[i]) / 2)
            && lp($P::centroid(&[pa, pb, pa])) == want(&|i| (a[i] + b[i] + a[i]) / 3)
            && lp($P::centroid(&[pa])) == want(&|i| a[i])
            && lp($P::centroid(&[pa, pb])) == want(&|i| (a[i] + b[i]) / 2) && lp($P::centroid(&[pb, pa])) == want(&|i| (a[i] + b[i]) / 2)
            && lp($P::centroid(&[pa, pb, pb, pa])) == want(&|i| (a[i] + b[i] + b[i] + a[i]) / 4)
            && { let mut m = pa; m.mul_assign_element_wise(pb); lp(m) == want(&|i| a[i] * b[i]) }
            && { let mut m = pa; m.add_assign_element_wise(c(k)); lp(m) == want(&|i| a[i] + k) }
            && { let mut m = pa; m.mul_assign_element_wise(c(k)); lp(m) == want(&|i| a[i] * k) }
            && { let mut m = pa; m.div_assign_element_wise(c(k)); lp(m) == want(&|i| a[i] / k) }
            && { let mut m = pa; m.rem_assign_element_wise(c(k)); lp(m) == want(&|i| a[i] % k) }
            && lp(pa.add_element_wise(c(k))) == want(&|i| a[i] + k) && lp(pa.div_element_wise(c(k))) == want(&|i| a[i] / k)
            && lp(pa.add_element_wise(c(k)).sub_element_wise(c(k))) == want(&|i| a[i]) && lp(pa.mul_element_wise(c(k))) == want(&|i| a[i] * k) && lp(pa.rem_element_wise(c(k))) == want(&|i| a[i] % k)
            && { let mut m = pa; m -= vb; lp(m) == want(&|i| a[i] - b[i]) }
            && { let mut m = pa; m += vb; lp(m) == want(&|i| a[i] + b[i]) },
            || format!("{}<{}> point ops a={:?} b={:?} k={} (p/k={:?})", stringify!($P), tn, &a[..$n], &b[..$n], k, lp(pa / c(k))));
    }};
}

macro_rules! int_type {
    ($fname:ident, $t:ident, $signed:expr, $lim:expr) => {
        fn $fname(ctx: &mut Ctx, n: u64) {
            let tn = stringify!($t);
            // components in [lo, lim]; small enough that no operation below overflows $t
            let lim: i128 = $lim;
            let lo: i128 = if $signed { -lim } else { 0 };
            let mut r = |s: &mut u64| -> i128 { lo + (splitmix(s) % ((lim - lo + 1) as u64)) as i128 };
            let mut s = ctx.seed ^ (tn.len() as u64 * 7919 + lim as u64);
            for _ in 0..n {
                let a: Vec<i128> = (0..4).map(|_| r(&mut s)).collect();
                let mut b: Vec<i128> = (0..4).map(|_| r(&mut s)).collect();
                let mut k = r(&mut s);
                if k == 0 { k = 2.min(lim); }
                let mut d: Vec<i128> = (0..4).map(|_| { let x = r(&mut s); if x == 0 { 1 } else { x } }).collect();
                if !$signed {
                    // keep differences non-negative for the unsigned types
                    for i in 0..4 { if b[i] > a[i] { b[i] = a[i]; } }
                }
                let _ = &mut d;
                let c = |x: i128| x as $t;
                dim!(ctx, $t, tn, a, b, d, k, Vector1, Point1, 1, [x: 0]);
                dim!(ctx, $t, tn, a, b, d, k, Vector2, Point2, 2, [x: 0, y: 1]);
                dim!(ctx, $t, tn, a, b, d, k, Vector3, Point3, 3, [x: 0, y: 1, z: 2]);
                {
                    // `/` and `%` by a scalar involve no product, so they cannot overflow: components over the WHOLE range of the type
                    let (mx, mn) = ($t::MAX as i128, $t::MIN as i128);
                    let big: Vec<i128> = vec![mx, if $signed { mn + 1 } else { mx / 2 + 1 }, mx - (a[0].abs() % 5), if $signed { -(mx / 3) - a[1].abs() % 7 } else { mx / 3 }];
                    let kk = if k == -1 { 3 } else { k };
                    let vg = Vector4::new(c(big[0]), c(big[1]), c(big[2]), c(big[3]));
                    let lg = |v: Vector4<$t>| -> Vec<i128> { vec![v.x as i128, v.y as i128, v.z as i128, v.w as i128] };
                    let wg = |f: &dyn Fn(usize) -> i128| -> Vec<i128> { (0..4).map(|i| f(i)).collect() };
                    let v3g = Vector3::new(c(big[1]), c(big[0]), c(big[3]));
                    ctx.scal.rec(lg(vg % c(kk)) == wg(&|i| big[i] % kk) && lg(vg / c(kk)) == wg(&|i| big[i] / kk)
                        && { let mut m = vg; m %= c(kk); lg(m) == wg(&|i| big[i] % kk) }
                        && { let mut m = vg; m /= c(kk); lg(m) == wg(&|i| big[i] / kk) }
                        && lg(vg.rem_element_wise(c(kk))) == wg(&|i| big[i] % kk)
                        && (v3g % c(kk)).x as i128 == big[1] % kk && (v3g % c(kk)).z as i128 == big[3] % kk,
                        || format!("Vector4<{}> v % s and v / s over the whole range: v={:?} s={} (v%s={:?}, want {:?})", tn, big, kk, lg(vg % c(kk)), wg(&|i| big[i] % kk)));
                }
                {
                    // Vector4 has no point type
                    let va = Vector4::new(c(a[0]), c(a[1]), c(a[2]), c(a[3]));
                    let vb = Vector4::new(c(b[0]), c(b[1]), c(b[2]), c(b[3]));
                    let ls = |v: Vector4<$t>| -> Vec<i128> { vec![v.x as i128, v.y as i128, v.z as i128, v.w as i128] };
                    let w = |f: &dyn Fn(usize) -> i128| -> Vec<i128> { (0..4).map(|i| f(i)).collect() };
                    ctx.lin.rec(ls(va + vb) == w(&|i| a[i] + b[i]) && ls(va - vb) == w(&|i| a[i] - b[i]), || format!("Vector4<{}> add/sub", tn));
                    ctx.scal.rec(ls(va * c(k)) == w(&|i| a[i] * k) && ls(va / c(k)) == w(&|i| a[i] / k) && ls(va % c(k)) == w(&|i| a[i] % k)
                        && { let mut m = va; m /= c(k); ls(m) == w(&|i| a[i] / k) },
                        || format!("Vector4<{}> scalar mul/div/rem v={:?} s={} (v/s={:?})", tn, a, k, ls(va / c(k))));
                    let vd = Vector4::new(c(d[0]), c(d[1]), c(d[2]), c(d[3]));
                    ctx.ew.rec(ls(va.mul_element_wise(vb)) == w(&|i| a[i] * b[i]) && ls(va.div_element_wise(vd)) == w(&|i| a[i] / d[i])
                        && ls(va.add_element_wise(c(k))) == w(&|i| a[i] + k) && ls(va.div_element_wise(c(k))) == w(&|i| a[i] / k)
                        && ls(va.add_element_wise(c(k)).sub_element_wise(c(k))) == w(&|i| a[i]) && ls(va.mul_element_wise(c(k))) == w(&|i| a[i] * k)
                        && { let mut m = va; m.add_assign_element_wise(c(k)); ls(m) == w(&|i| a[i] + k) }
                        && { let mut m = va; m.mul_assign_element_wise(c(k)); ls(m) == w(&|i| a[i] * k) }
                        && { let mut m = va; m.div_assign_element_wise(c(k)); ls(m) == w(&|i| a[i] / k) }
                        && { let mut m = va; m.rem_assign_element_wise(c(k)); ls(m) == w(&|i| a[i] % k) }
                        && { let mut m = va; m.mul_assign_element_wise(vb); ls(m) == w(&|i| a[i] * b[i]) }
                        && { let mut m = va; m.div_assign_element_wise(vd); ls(m) == w(&|i| a[i] / d[i]) },
                        || format!("Vector4<{}> element-wise (by value / in place) a={:?} b={:?} d={:?} k={}", tn, a, b, d, k));
                    let dot_w: i128 = (0..4).map(|i| a[i] * b[i]).sum();
                    ctx.dot.rec(va.dot(vb) as i128 == dot_w && va.sum() as i128 == a.iter().sum::<i128>() && va.product() as i128 == a.iter().product::<i128>(),
                        || format!("Vector4<{}> dot/sum/product a={:?} b={:?}", tn, a, b));
                }
                if $signed {
                    // cross, perp_dot, negation and their identities (signed types only)
                    let va = Vector3::new(c(a[0]), c(a[1]), c(a[2]));
                    let vb = Vector3::new(c(b[0]), c(b[1]), c(b[2]));
                    let cr = va.cross(vb);
                    let want = [a[1] * b[2] - a[2] * b[1], a[2] * b[0] - a[0] * b[2], a[0] * b[1] - a[1] * b[0]];
                    let got = [cr.x as i128, cr.y as i128, cr.z as i128];
                    let rc = vb.cross(va);
                    let m2 = |v: &[i128]| v[0] * v[0] + v[1] * v[1] + v[2] * v[2];
                    let dab = a[0] * b[0] + a[1] * b[1] + a[2] * b[2];
                    ctx.cross.rec(got == want && [-(rc.x as i128), -(rc.y as i128), -(rc.z as i128)] == got
                        && got[0] * a[0] + got[1] * a[1] + got[2] * a[2] == 0 && got[0] * b[0] + got[1] * b[1] + got[2] * b[2] == 0
                        && m2(&got) == m2(&a[..3]) * m2(&b[..3]) - dab * dab,
                        || format!("Vector3<{}> cross a={:?} b={:?} got={:?}", tn, &a[..3], &b[..3], got));
                    let p = Vector2::new(c(a[0]), c(a[1])).perp_dot(Vector2::new(c(b[0]), c(b[1]))) as i128;
                    let q = Vector2::new(c(b[0]), c(b[1])).perp_dot(Vector2::new(c(a[0]), c(a[1]))) as i128;
                    ctx.cross.rec(p == a[0] * b[1] - a[1] * b[0] && q == -p, || format!("Vector2<{}> perp_dot a={:?} b={:?} got={}", tn, &a[..2], &b[..2], p));
                    let ng = signed_neg::<$t>(va);
                    ctx.lin.rec(ng == vec![-a[0], -a[1], -a[2]], || format!("Vector3<{}> neg", tn));
                }
            }
        }
    };
}

trait MaybeNeg: Sized + Copy {
    fn neg3(v: Vector3<Self>) -> Vec<i128>;
}
macro_rules! neg_signed { ($($t:ident),*) => {$( impl MaybeNeg for $t { fn neg3(v: Vector3<$t>) -> Vec<i128> { let n = -v; vec![n.x as i128, n.y as i128, n.z as i128] } } )*}; }
macro_rules! neg_unsigned { ($($t:ident),*) => {$( impl MaybeNeg for $t { fn neg3(_: Vector3<$t>) -> Vec<i128> { vec![] } } )*}; }
neg_signed!(i8, i16, i32, i64, isize);
neg_unsigned!(u8, u16, u32, u64, usize);
fn signed_neg<T: MaybeNeg>(v: Vector3<T>) -> Vec<i128> {
    T::neg3(v)
}

// component bound per type: products of four components and the Lagrange identity's terms fit
int_type!(run_i8, i8, true, 3);
int_type!(run_i16, i16, true, 11);
int_type!(run_i32, i32, true, 150);
int_type!(run_i64, i64, true, 30000);
int_type!(run_isize, isize, true, 30000);
int_type!(run_u8, u8, false, 3);
int_type!(run_u16, u16, false, 15);
int_type!(run_u32, u32, false, 200);
int_type!(run_u64, u64, false, 50000);
int_type!(run_usize, usize, false, 50000);

pub fn c03(n: u64, seed: u64) {
    let mut ctx = Ctx { lin: Tally::new("c03.int.add_sub_neg_zero"), scal: Tally::new("c03.int.scalar_mul_div_rem"),
                        ew: Tally::new("c03.int.element_wise"), dot: Tally::new("c03.int.dot_sum_product"),
                        cross: Tally::new("c03.int.cross_perp_dot_identities"), point: Tally::new("c12.int.point_ops"), seed };
    run_i8(&mut ctx, n);
    run_i16(&mut ctx, n);
    run_i32(&mut ctx, n);
    run_i64(&mut ctx, n);
    run_isize(&mut ctx, n);
    run_u8(&mut ctx, n);
    run_u16(&mut ctx, n);
    run_u32(&mut ctx, n);
    run_u64(&mut ctx, n);
    run_usize(&mut ctx, n);
    ctx.lin.print();
    ctx.scal.print();
    ctx.ew.print();
    ctx.dot.print();
    ctx.cross.print();
    ctx.point.print();
    println!("info c03.integer_types=10 dims=1..4 cases_per_type={}", n);
}
