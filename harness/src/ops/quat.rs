//! Quaternion, Basis2/Basis3, rotation constructors, look-at, Euler, interpolation
//! (properties C04-C07, C09, C11, C14, C15)
use super::*;
use cgmath::num_traits::{One, Zero};

type Q = Quaternion<X>;
type B3 = Basis3<X>;
type B2 = Basis2<X>;

/// Basis3 values are given as a quaternion `s x y z` and built with `from_quaternion`
fn b3(a: &mut Args) -> B3 {
    let q = a.q();
    Basis3::from_quaternion(&q)
}
/// Basis2 values are given as an angle (radians) and built with `from_angle`
fn b2(a: &mut Args) -> B2 {
    let t = a.rad();
    Rotation2::from_angle(t)
}
fn m3_of(b: B3) -> Matrix3<X> {
    b.into()
}
fn m2_of(b: B2) -> Matrix2<X> {
    b.into()
}
fn qs(a: &mut Args) -> Vec<Q> {
    let mut l = vec![];
    while a.remaining() > 0 {
        l.push(a.q());
    }
    l
}
fn euler(e: Euler<Rad<X>>) -> Vec<X> {
    vec![e.x.0, e.y.0, e.z.0]
}

pub fn lookup(name: &str) -> Option<OpFn> {
    Some(match name {
        // ------------------------------------------------------------ quaternion algebra
        "q.new" => |a| { let (w, x, y, z) = (a.x(), a.x(), a.x(), a.x()); ok(Quaternion::new(w, x, y, z)) },
        "q.from_sv" => |a| { let (s, v) = (a.x(), a.v3()); ok(Quaternion::from_sv(s, v)) },
        "q.conjugate" => |a| { let q = a.q(); ok(q.conjugate()) },
        "q.neg" => |a| { let q = a.q(); ok(-q) },
        "q.add" => |a| { let (p, q) = (a.q(), a.q()); ok(p + q) },
        "q.sub" => |a| { let (p, q) = (a.q(), a.q()); ok(p - q) },
        "q.mul_s" => |a| { let (p, s) = (a.q(), a.x()); ok(p * s) },
        "q.div_s" => |a| { let (p, s) = (a.q(), a.x()); ok(p / s) },
        "q.rem_s" => |a| { let (p, s) = (a.q(), a.x()); ok(p % s) },
        "q.mul" => |a| { let (p, q) = (a.q(), a.q()); ok(p * q) },
        "q.mul_v" => |a| { let (p, v) = (a.q(), a.v3()); ok(p * v) },
        "q.dot" => |a| { let (p, q) = (a.q(), a.q()); ok(p.dot(q)) },
        "q.magnitude2" => |a| { let p = a.q(); ok(p.magnitude2()) },
        "q.magnitude" => |a| { let p = a.q(); ok(p.magnitude()) },
        "q.normalize" => |a| { let p = a.q(); ok(p.normalize()) },
        "q.normalize_to" => |a| { let (p, m) = (a.q(), a.x()); ok(p.normalize_to(m)) },
        "q.distance2" => |a| { let (p, q) = (a.q(), a.q()); ok(p.distance2(q)) },
        "q.distance" => |a| { let (p, q) = (a.q(), a.q()); ok(p.distance(q)) },
        "q.angle" => |a| { let (p, q) = (a.q(), a.q()); ok(p.angle(q)) },
        "q.project_on" => |a| { let (p, q) = (a.q(), a.q()); ok(p.project_on(q)) },
        "q.lerp" => |a| { let (p, q, t) = (a.q(), a.q(), a.x()); ok(p.lerp(q, t)) },
        "q.nlerp" => |a| { let (p, q, t) = (a.q(), a.q(), a.x()); ok(p.nlerp(q, t)) },
        "q.slerp" => |a| { let (p, q, t) = (a.q(), a.q(), a.x()); ok(p.slerp(q, t)) },
        "q.one" => |_a| ok(Q::one()),
        "q.zero" => |_a| ok(Q::zero()),
        "q.invert" => |a| { let p = a.q(); ok(p.invert()) },
        "q.rotate_vector" => |a| { let (p, v) = (a.q(), a.v3()); ok(p.rotate_vector(v)) },
        "q.rotate_point" => |a| { let (p, v) = (a.q(), a.p3()); ok(p.rotate_point(v)) },
        "q.sum_list" => |a| { let l = qs(a); ok(l.into_iter().sum::<Q>()) },
        "q.sum_list_ref" => |a| { let l = qs(a); ok(l.iter().sum::<Q>()) },
        "q.product_list" => |a| { let l = qs(a); ok(l.into_iter().product::<Q>()) },
        "q.product_list_ref" => |a| { let l = qs(a); ok(l.iter().product::<Q>()) },
        // ------------------------------------------------------------ conversions
        "q.to_m3" => |a| { let p = a.q(); ok(Matrix3::from(p)) },
        "q.to_m4" => |a| { let p = a.q(); ok(Matrix4::from(p)) },
        "q.to_basis3" => |a| { let p = a.q(); ok(m3_of(Basis3::from(p))) },
        "m3.to_quat" => |a| { let m = a.m3(); ok(Quaternion::from(m)) },
        "b3.to_quat" => |a| { let b = b3(a); ok(Quaternion::from(b)) },
        "b3.to_m3" => |a| { let b = b3(a); ok(m3_of(b)) },
        // ------------------------------------------------------------ Basis3
        "b3.one" => |_a| ok(m3_of(B3::one())),
        "b3.mul" => |a| { let (p, q) = (b3(a), b3(a)); ok(m3_of(p * q)) },
        "b3.rotate_vector" => |a| { let (p, v) = (b3(a), a.v3()); ok(p.rotate_vector(v)) },
        "b3.rotate_point" => |a| { let (p, v) = (b3(a), a.p3()); ok(p.rotate_point(v)) },
        "b3.invert" => |a| { let p = b3(a); ok(m3_of(p.invert())) },
        "b3.product_list" => |a| { let l: Vec<B3> = qs(a).iter().map(Basis3::from_quaternion).collect(); ok(m3_of(l.into_iter().product::<B3>())) },
        "b3.product_list_ref" => |a| { let l: Vec<B3> = qs(a).iter().map(Basis3::from_quaternion).collect(); ok(m3_of(l.iter().product::<B3>())) },
        // ------------------------------------------------------------ Basis2
        "b2.one" => |_a| ok(m2_of(B2::one())),
        "b2.from_angle" => |a| { let p = b2(a); ok(m2_of(p)) },
        "b2.from_angle_deg" => |a| { let t = a.deg(); let p: B2 = Rotation2::from_angle(t); ok(m2_of(p)) },
        "b2.mul" => |a| { let (p, q) = (b2(a), b2(a)); ok(m2_of(p * q)) },
        "b2.rotate_vector" => |a| { let (p, v) = (b2(a), a.v2()); ok(p.rotate_vector(v)) },
        "b2.rotate_point" => |a| { let (p, v) = (b2(a), a.p2()); ok(p.rotate_point(v)) },
        "b2.invert" => |a| { let p = b2(a); ok(m2_of(p.invert())) },
        "b2.product_list" => |a| {
            let mut l: Vec<B2> = vec![];
            while a.remaining() > 0 { l.push(b2(a)); }
            ok(m2_of(l.into_iter().product::<B2>()))
        },
        // ------------------------------------------------------------ angle / axis-angle constructors
        "m2.from_angle" => |a| { let t = a.rad(); ok(Matrix2::from_angle(t)) },
        "m2.from_angle_deg" => |a| { let t = a.deg(); ok(Matrix2::from_angle(t)) },
        "m3.from_angle_x" => |a| { let t = a.rad(); ok(Matrix3::from_angle_x(t)) },
        "m3.from_angle_y" => |a| { let t = a.rad(); ok(Matrix3::from_angle_y(t)) },
        "m3.from_angle_z" => |a| { let t = a.rad(); ok(Matrix3::from_angle_z(t)) },
        "m3.from_axis_angle" => |a| { let (v, t) = (a.v3(), a.rad()); ok(Matrix3::from_axis_angle(v, t)) },
        "m3.from_axis_angle_deg" => |a| { let (v, t) = (a.v3(), a.deg()); ok(Matrix3::from_axis_angle(v, t)) },
        "m4.from_angle_x" => |a| { let t = a.rad(); ok(Matrix4::from_angle_x(t)) },
        "m4.from_angle_x_deg" => |a| { let t = a.deg(); ok(Matrix4::from_angle_x(t)) },
        "m4.from_angle_y" => |a| { let t = a.rad(); ok(Matrix4::from_angle_y(t)) },
        "m4.from_angle_z" => |a| { let t = a.rad(); ok(Matrix4::from_angle_z(t)) },
        "m4.from_axis_angle" => |a| { let (v, t) = (a.v3(), a.rad()); ok(Matrix4::from_axis_angle(v, t)) },
        "b3.from_angle_x" => |a| { let t = a.rad(); let b: B3 = Rotation3::from_angle_x(t); ok(m3_of(b)) },
        "b3.from_angle_y" => |a| { let t = a.rad(); let b: B3 = Rotation3::from_angle_y(t); ok(m3_of(b)) },
        "b3.from_angle_z" => |a| { let t = a.rad(); let b: B3 = Rotation3::from_angle_z(t); ok(m3_of(b)) },
        "b3.from_axis_angle" => |a| { let (v, t) = (a.v3(), a.rad()); let b: B3 = Rotation3::from_axis_angle(v, t); ok(m3_of(b)) },
        "q.from_angle_x" => |a| { let t = a.rad(); let q: Q = Rotation3::from_angle_x(t); ok(q) },
        "q.from_angle_y" => |a| { let t = a.rad(); let q: Q = Rotation3::from_angle_y(t); ok(q) },
        "q.from_angle_z" => |a| { let t = a.rad(); let q: Q = Rotation3::from_angle_z(t); ok(q) },
        "q.from_axis_angle" => |a| { let (v, t) = (a.v3(), a.rad()); let q: Q = Rotation3::from_axis_angle(v, t); ok(q) },
        "q.from_axis_angle_deg" => |a| { let (v, t) = (a.v3(), a.deg()); let q: Q = Rotation3::from_axis_angle(v, t); ok(q) },
        // ------------------------------------------------------------ Euler
        "m3.from_euler" => |a| { let (x, y, z) = (a.rad(), a.rad(), a.rad()); ok(Matrix3::from(Euler { x, y, z })) },
        "m3.from_euler_deg" => |a| { let (x, y, z) = (a.deg(), a.deg(), a.deg()); ok(Matrix3::from(Euler { x, y, z })) },
        "m4.from_euler" => |a| { let (x, y, z) = (a.rad(), a.rad(), a.rad()); ok(Matrix4::from(Euler { x, y, z })) },
        "b3.from_euler" => |a| { let (x, y, z) = (a.rad(), a.rad(), a.rad()); ok(m3_of(Basis3::from(Euler { x, y, z }))) },
        "q.from_euler" => |a| { let (x, y, z) = (a.rad(), a.rad(), a.rad()); ok(Quaternion::from(Euler { x, y, z })) },
        "q.from_euler_deg" => |a| { let (x, y, z) = (a.deg(), a.deg(), a.deg()); ok(Quaternion::from(Euler { x, y, z })) },
        "q.to_euler" => |a| { let q = a.q(); ok(euler(Euler::from(q))) },
        // ------------------------------------------------------------ look-at
        "m2.look_at" => |a| { let (d, u) = (a.v2(), a.v2()); ok(Matrix2::look_at(d, u)) },
        "m2.look_at_stable" => |a| { let (d, f) = (a.v2(), a.i()); ok(Matrix2::look_at_stable(d, f != 0)) },
        "b2.look_at" => |a| { let (d, u) = (a.v2(), a.v2()); ok(m2_of(B2::look_at(d, u))) },
        "b2.look_at_stable" => |a| { let (d, f) = (a.v2(), a.i()); ok(m2_of(B2::look_at_stable(d, f != 0))) },
        "m3.look_to_lh" => |a| { let (d, u) = (a.v3(), a.v3()); ok(Matrix3::look_to_lh(d, u)) },
        "m3.look_to_rh" => |a| { let (d, u) = (a.v3(), a.v3()); ok(Matrix3::look_to_rh(d, u)) },
        #[allow(deprecated)]
        "m3.look_at_dep" => |a| { let (d, u) = (a.v3(), a.v3()); ok(Matrix3::look_at(d, u)) },
        "m4.look_to_rh" => |a| { let (e, d, u) = (a.p3(), a.v3(), a.v3()); ok(Matrix4::look_to_rh(e, d, u)) },
        "m4.look_to_lh" => |a| { let (e, d, u) = (a.p3(), a.v3(), a.v3()); ok(Matrix4::look_to_lh(e, d, u)) },
        "m4.look_at_rh" => |a| { let (e, c, u) = (a.p3(), a.p3(), a.v3()); ok(Matrix4::look_at_rh(e, c, u)) },
        "m4.look_at_lh" => |a| { let (e, c, u) = (a.p3(), a.p3(), a.v3()); ok(Matrix4::look_at_lh(e, c, u)) },
        #[allow(deprecated)]
        "m4.look_at_dep" => |a| { let (e, c, u) = (a.p3(), a.p3(), a.v3()); ok(Matrix4::look_at(e, c, u)) },
        #[allow(deprecated)]
        "m4.look_at_dir_dep" => |a| { let (e, d, u) = (a.p3(), a.v3(), a.v3()); ok(Matrix4::look_at_dir(e, d, u)) },
        #[allow(deprecated)]
        "m3.tlook_at2" => |a| { let (e, c, u) = (a.p2(), a.p2(), a.v2()); ok(<Matrix3<X> as Transform<Point2<X>>>::look_at(e, c, u)) },
        "m3.tlook_at2_lh" => |a| { let (e, c, u) = (a.p2(), a.p2(), a.v2()); ok(<Matrix3<X> as Transform<Point2<X>>>::look_at_lh(e, c, u)) },
        "m3.tlook_at2_rh" => |a| { let (e, c, u) = (a.p2(), a.p2(), a.v2()); ok(<Matrix3<X> as Transform<Point2<X>>>::look_at_rh(e, c, u)) },
        #[allow(deprecated)]
        "m3.tlook_at" => |a| { let (e, c, u) = (a.p3(), a.p3(), a.v3()); ok(<Matrix3<X> as Transform<Point3<X>>>::look_at(e, c, u)) },
        "m3.tlook_at_lh" => |a| { let (e, c, u) = (a.p3(), a.p3(), a.v3()); ok(<Matrix3<X> as Transform<Point3<X>>>::look_at_lh(e, c, u)) },
        "m3.tlook_at_rh" => |a| { let (e, c, u) = (a.p3(), a.p3(), a.v3()); ok(<Matrix3<X> as Transform<Point3<X>>>::look_at_rh(e, c, u)) },
        #[allow(deprecated)]
        "m4.tlook_at" => |a| { let (e, c, u) = (a.p3(), a.p3(), a.v3()); ok(<Matrix4<X> as Transform<Point3<X>>>::look_at(e, c, u)) },
        "m4.tlook_at_lh" => |a| { let (e, c, u) = (a.p3(), a.p3(), a.v3()); ok(<Matrix4<X> as Transform<Point3<X>>>::look_at_lh(e, c, u)) },
        "m4.tlook_at_rh" => |a| { let (e, c, u) = (a.p3(), a.p3(), a.v3()); ok(<Matrix4<X> as Transform<Point3<X>>>::look_at_rh(e, c, u)) },
        "q.look_at" => |a| { let (d, u) = (a.v3(), a.v3()); ok(Q::look_at(d, u)) },
        "b3.look_at" => |a| { let (d, u) = (a.v3(), a.v3()); ok(m3_of(B3::look_at(d, u))) },
        // ------------------------------------------------------------ between_vectors / from_arc
        "q.between_vectors" => |a| { let (u, v) = (a.v3(), a.v3()); ok(Q::between_vectors(u, v)) },
        "b3.between_vectors" => |a| { let (u, v) = (a.v3(), a.v3()); ok(m3_of(B3::between_vectors(u, v))) },
        "b2.between_vectors" => |a| { let (u, v) = (a.v2(), a.v2()); ok(m2_of(B2::between_vectors(u, v))) },
        "q.from_arc" => |a| { let (u, v) = (a.v3(), a.v3()); ok(Q::from_arc(u, v, None)) },
        "q.from_arc_fb" => |a| { let (u, v, f) = (a.v3(), a.v3(), a.v3()); ok(Q::from_arc(u, v, Some(f))) },
        _ => return None,
    })
}

pub const NAMES: &[&str] = &[
    "q.new", "q.from_sv", "q.conjugate", "q.neg", "q.add", "q.sub", "q.mul_s", "q.div_s", "q.rem_s", "q.mul",
    "q.mul_v", "q.dot", "q.magnitude2", "q.magnitude", "q.normalize", "q.normalize_to", "q.distance2",
    "q.distance", "q.angle", "q.project_on", "q.lerp", "q.nlerp", "q.slerp", "q.one", "q.zero", "q.invert",
    "q.rotate_vector", "q.rotate_point", "q.sum_list", "q.sum_list_ref", "q.product_list", "q.product_list_ref",
    "q.to_m3", "q.to_m4", "q.to_basis3", "m3.to_quat", "b3.to_quat", "b3.to_m3", "b3.one", "b3.mul",
    "b3.rotate_vector", "b3.rotate_point", "b3.invert", "b3.product_list", "b3.product_list_ref", "b2.one",
    "b2.from_angle", "b2.from_angle_deg", "b2.mul", "b2.rotate_vector", "b2.rotate_point", "b2.invert",
    "b2.product_list", "m2.from_angle", "m2.from_angle_deg", "m3.from_angle_x", "m3.from_angle_y",
    "m3.from_angle_z", "m3.from_axis_angle", "m3.from_axis_angle_deg", "m4.from_angle_x", "m4.from_angle_x_deg",
    "m4.from_angle_y", "m4.from_angle_z", "m4.from_axis_angle", "b3.from_angle_x", "b3.from_angle_y",
    "b3.from_angle_z", "b3.from_axis_angle", "q.from_angle_x", "q.from_angle_y", "q.from_angle_z",
    "q.from_axis_angle", "q.from_axis_angle_deg", "m3.from_euler", "m3.from_euler_deg", "m4.from_euler",
    "b3.from_euler", "q.from_euler", "q.from_euler_deg", "q.to_euler", "m2.look_at", "m2.look_at_stable",
    "b2.look_at", "b2.look_at_stable", "m3.look_to_lh", "m3.look_to_rh", "m3.look_at_dep", "m4.look_to_rh",
    "m4.look_to_lh", "m4.look_at_rh", "m4.look_at_lh", "m4.look_at_dep", "m4.look_at_dir_dep", "m3.tlook_at2",
    "m3.tlook_at2_lh", "m3.tlook_at2_rh", "m3.tlook_at", "m3.tlook_at_lh", "m3.tlook_at_rh", "m4.tlook_at",
    "m4.tlook_at_lh", "m4.tlook_at_rh", "q.look_at", "b3.look_at", "q.between_vectors", "b3.between_vectors",
    "b2.between_vectors", "q.from_arc", "q.from_arc_fb",
];
