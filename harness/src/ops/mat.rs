//! Matrix2..Matrix4 operations (properties C01, C02)
use super::vec::Rd;
use super::*;
use cgmath::num_traits::Zero;

impl Rd for Matrix2<X> {
    fn rd(a: &mut Args) -> Self {
        a.m2()
    }
}
impl Rd for Matrix3<X> {
    fn rd(a: &mut Args) -> Self {
        a.m3()
    }
}
impl Rd for Matrix4<X> {
    fn rd(a: &mut Args) -> Self {
        a.m4()
    }
}

fn generic<M>(op: &str) -> Option<OpFn>
where
    M: Rd
        + Fl
        + Copy
        + SquareMatrix<Scalar = X>
        + Zero
        + std::ops::Neg<Output = M>
        + std::iter::Sum<M>
        + for<'a> std::iter::Sum<&'a M>
        + for<'a> std::iter::Product<&'a M>
        + 'static,
    M::ColumnRow: Rd + Fl + Copy,
{
    Some(match op {
        "id" => |a| { let m = M::rd(a); ok(m) },
        "row" => |a| { let (m, r) = (M::rd(a), a.i()); ok(m.row(r)) },
        "col" => |a| { let (m, c) = (M::rd(a), a.i()); ok(m[c]) },
        "transpose" => |a| { let m = M::rd(a); ok(m.transpose()) },
        "transpose_self" => |a| { let mut m = M::rd(a); m.transpose_self(); ok(m) },
        "diagonal" => |a| { let m = M::rd(a); ok(m.diagonal()) },
        "trace" => |a| { let m = M::rd(a); ok(m.trace()) },
        "from_value" => |a| { let s = a.x(); ok(M::from_value(s)) },
        "from_diagonal" => |a| { let d = M::ColumnRow::rd(a); ok(M::from_diagonal(d)) },
        "identity" => |_a| ok(M::identity()),
        "one" => |_a| ok(M::one()),
        "zero" => |_a| ok(M::zero()),
        "add" => |a| { let (m, n) = (M::rd(a), M::rd(a)); ok(m + n) },
        "sub" => |a| { let (m, n) = (M::rd(a), M::rd(a)); ok(m - n) },
        "neg" => |a| { let m = M::rd(a); ok(-m) },
        "mul_s" => |a| { let (m, s) = (M::rd(a), a.x()); ok(m * s) },
        "div_s" => |a| { let (m, s) = (M::rd(a), a.x()); ok(m / s) },
        "rem_s" => |a| { let (m, s) = (M::rd(a), a.x()); ok(m % s) },
        "mul_v" => |a| { let (m, v) = (M::rd(a), M::ColumnRow::rd(a)); ok(m * v) },
        "mul" => |a| { let (m, n) = (M::rd(a), M::rd(a)); ok(m * n) },
        "det" => |a| { let m = M::rd(a); ok(m.determinant()) },
        "invert" => |a| { let m = M::rd(a); opt(m.invert()) },
        "swap_rows" => |a| { let (mut m, i, j) = (M::rd(a), a.i(), a.i()); m.swap_rows(i, j); ok(m) },
        "swap_columns" => |a| { let (mut m, i, j) = (M::rd(a), a.i(), a.i()); m.swap_columns(i, j); ok(m) },
        "swap_elements" => |a| {
            let (mut m, ac, ar, bc, br) = (M::rd(a), a.i(), a.i(), a.i(), a.i());
            m.swap_elements((ac, ar), (bc, br));
            ok(m)
        },
        "replace_col" => |a| {
            let (mut m, c, v) = (M::rd(a), a.i(), M::ColumnRow::rd(a));
            let old = m.replace_col(c, v);
            ok((m, old))
        },
        "sum_list" => |a| {
            let mut l = vec![];
            while a.remaining() > 0 { l.push(M::rd(a)); }
            ok(l.into_iter().sum::<M>())
        },
        "product_list" => |a| {
            let mut l = vec![];
            while a.remaining() > 0 { l.push(M::rd(a)); }
            ok(l.into_iter().product::<M>())
        },
        "product_list_ref" => |a| {
            let mut l = vec![];
            while a.remaining() > 0 { l.push(M::rd(a)); }
            ok(l.iter().product::<M>())
        },
        _ => return None,
    })
}
const GENERIC: &[&str] = &[
    "id", "row", "col", "transpose", "transpose_self", "diagonal", "trace", "from_value",
    "from_diagonal", "identity", "one", "zero", "add", "sub", "neg", "mul_s", "div_s", "rem_s",
    "mul_v", "mul", "det", "invert", "swap_rows", "swap_columns", "swap_elements", "replace_col",
    "sum_list", "product_list", "product_list_ref",
];

fn special(name: &str) -> Option<OpFn> {
    Some(match name {
        "m2.new" => |a| { let (c0r0, c0r1, c1r0, c1r1) = (a.x(), a.x(), a.x(), a.x()); ok(Matrix2::new(c0r0, c0r1, c1r0, c1r1)) },
        "m3.new" => |a| {
            let v: Vec<X> = (0..9).map(|_| a.x()).collect();
            ok(Matrix3::new(v[0], v[1], v[2], v[3], v[4], v[5], v[6], v[7], v[8]))
        },
        "m4.new" => |a| {
            let v: Vec<X> = (0..16).map(|_| a.x()).collect();
            ok(Matrix4::new(v[0], v[1], v[2], v[3], v[4], v[5], v[6], v[7], v[8], v[9], v[10], v[11], v[12], v[13], v[14], v[15]))
        },
        "m3.from_translation" => |a| { let v = a.v2(); ok(Matrix3::from_translation(v)) },
        "m4.from_translation" => |a| { let v = a.v3(); ok(Matrix4::from_translation(v)) },
        "m3.from_scale" => |a| { let s = a.x(); ok(Matrix3::from_scale(s)) },
        "m4.from_scale" => |a| { let s = a.x(); ok(Matrix4::from_scale(s)) },
        "m3.from_nonuniform_scale" => |a| { let (x, y) = (a.x(), a.x()); ok(Matrix3::from_nonuniform_scale(x, y)) },
        "m4.from_nonuniform_scale" => |a| { let (x, y, z) = (a.x(), a.x(), a.x()); ok(Matrix4::from_nonuniform_scale(x, y, z)) },
        "m2.to_m3" => |a| { let m = a.m2(); ok(Matrix3::from(m)) },
        "m2.to_m4" => |a| { let m = a.m2(); ok(Matrix4::from(m)) },
        "m3.to_m4" => |a| { let m = a.m3(); ok(Matrix4::from(m)) },
        "m3.transform_vector2" => |a| { let (m, v) = (a.m3(), a.v2()); ok(<Matrix3<X> as Transform<Point2<X>>>::transform_vector(&m, v)) },
        "m3.transform_point2" => |a| { let (m, p) = (a.m3(), a.p2()); ok(<Matrix3<X> as Transform<Point2<X>>>::transform_point(&m, p)) },
        "m3.transform_vector" => |a| { let (m, v) = (a.m3(), a.v3()); ok(<Matrix3<X> as Transform<Point3<X>>>::transform_vector(&m, v)) },
        "m3.transform_point" => |a| { let (m, p) = (a.m3(), a.p3()); ok(<Matrix3<X> as Transform<Point3<X>>>::transform_point(&m, p)) },
        "m4.transform_vector" => |a| { let (m, v) = (a.m4(), a.v3()); ok(m.transform_vector(v)) },
        "m4.transform_point" => |a| { let (m, p) = (a.m4(), a.p3()); ok(m.transform_point(p)) },
        "m3.concat2" => |a| { let (m, n) = (a.m3(), a.m3()); ok(<Matrix3<X> as Transform<Point2<X>>>::concat(&m, &n)) },
        "m3.concat" => |a| { let (m, n) = (a.m3(), a.m3()); ok(<Matrix3<X> as Transform<Point3<X>>>::concat(&m, &n)) },
        "m4.concat" => |a| { let (m, n) = (a.m4(), a.m4()); ok(m.concat(&n)) },
        "m3.inverse_transform2" => |a| { let m = a.m3(); opt(<Matrix3<X> as Transform<Point2<X>>>::inverse_transform(&m)) },
        "m3.inverse_transform" => |a| { let m = a.m3(); opt(<Matrix3<X> as Transform<Point3<X>>>::inverse_transform(&m)) },
        "m4.inverse_transform" => |a| { let m = a.m4(); opt(m.inverse_transform()) },
        "m3.inverse_transform_vector2" => |a| { let (m, v) = (a.m3(), a.v2()); opt(<Matrix3<X> as Transform<Point2<X>>>::inverse_transform_vector(&m, v)) },
        "m3.inverse_transform_vector" => |a| { let (m, v) = (a.m3(), a.v3()); opt(<Matrix3<X> as Transform<Point3<X>>>::inverse_transform_vector(&m, v)) },
        "m4.inverse_transform_vector" => |a| { let (m, v) = (a.m4(), a.v3()); opt(m.inverse_transform_vector(v)) },
        "m3.concat_self2" => |a| { let (mut m, n) = (a.m3(), a.m3()); <Matrix3<X> as Transform<Point2<X>>>::concat_self(&mut m, &n); ok(m) },
        "m4.concat_self" => |a| { let (mut m, n) = (a.m4(), a.m4()); m.concat_self(&n); ok(m) },
        "m3.concat_self" => |a| { let (mut m, n) = (a.m3(), a.m3()); <Matrix3<X> as Transform<Point3<X>>>::concat_self(&mut m, &n); ok(m) },
        _ => return None,
    })
}
const SPECIAL: &[&str] = &[
    "m2.new", "m3.new", "m4.new", "m3.from_translation", "m4.from_translation", "m3.from_scale",
    "m4.from_scale", "m3.from_nonuniform_scale", "m4.from_nonuniform_scale", "m2.to_m3",
    "m2.to_m4", "m3.to_m4", "m3.transform_vector2", "m3.transform_point2", "m3.transform_vector",
    "m3.transform_point", "m4.transform_vector", "m4.transform_point", "m3.concat2", "m3.concat",
    "m4.concat", "m3.inverse_transform2", "m3.inverse_transform", "m4.inverse_transform",
    "m3.inverse_transform_vector2", "m3.inverse_transform_vector", "m4.inverse_transform_vector",
    "m3.concat_self2", "m4.concat_self", "m3.concat_self",
];

pub fn lookup(name: &str) -> Option<OpFn> {
    if let Some(f) = special(name) {
        return Some(f);
    }
    let (ty, op) = name.split_once('.')?;
    match ty {
        "m2" => generic::<Matrix2<X>>(op),
        "m3" => generic::<Matrix3<X>>(op),
        "m4" => generic::<Matrix4<X>>(op),
        _ => None,
    }
}
pub fn names() -> Vec<String> {
    let mut v: Vec<String> = SPECIAL.iter().map(|s| s.to_string()).collect();
    for t in ["m2", "m3", "m4"] {
        for g in GENERIC {
            v.push(format!("{}.{}", t, g));
        }
    }
    v
}
