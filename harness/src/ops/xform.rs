//! Decomposed transforms, projections, angles (properties C08, C09, C10, C13)
use super::vec::Rd;
use super::*;
use cgmath::num_traits::{One, Zero};

/// rotation types as they travel on the op line
pub trait Rot: Sized + Copy {
    fn rd(a: &mut Args) -> Self;
    fn flr(&self, o: &mut Vec<Val>);
}
impl Rot for Quaternion<X> {
    fn rd(a: &mut Args) -> Self {
        a.q()
    }
    fn flr(&self, o: &mut Vec<Val>) {
        self.fl(o)
    }
}
impl Rot for Basis3<X> {
    fn rd(a: &mut Args) -> Self {
        let q = a.q();
        Basis3::from_quaternion(&q)
    }
    fn flr(&self, o: &mut Vec<Val>) {
        let m: Matrix3<X> = (*self).into();
        m.fl(o)
    }
}
impl Rot for Basis2<X> {
    fn rd(a: &mut Args) -> Self {
        let t = a.rad();
        Rotation2::from_angle(t)
    }
    fn flr(&self, o: &mut Vec<Val>) {
        let m: Matrix2<X> = (*self).into();
        m.fl(o)
    }
}

fn rd_dec<P, R>(a: &mut Args) -> Decomposed<P::Diff, R>
where
    P: EuclideanSpace<Scalar = X>,
    P::Diff: Rd,
    R: Rot,
{
    let scale = a.x();
    let rot = R::rd(a);
    let disp = P::Diff::rd(a);
    Decomposed { scale, rot, disp }
}
fn fl_dec<V: VectorSpace<Scalar = X> + Fl, R: Rot>(d: &Decomposed<V, R>) -> Out {
    let mut o = vec![];
    d.scale.fl(&mut o);
    d.rot.flr(&mut o);
    d.disp.fl(&mut o);
    Out::Ok(o)
}

#[allow(deprecated)]
fn dec_generic<P, R>(op: &str) -> Option<OpFn>
where
    P: EuclideanSpace<Scalar = X> + Rd + Fl + 'static,
    P::Diff: Rd + Fl + VectorSpace<Scalar = X>,
    R: Rot + Rotation<Space = P> + 'static,
{
    Some(match op {
        "one" => |_a| fl_dec(&Decomposed::<P::Diff, R>::one()),
        "id" => |a| { let d = rd_dec::<P, R>(a); fl_dec(&d) },
        "transform_vector" => |a| { let (d, v) = (rd_dec::<P, R>(a), P::Diff::rd(a)); ok(d.transform_vector(v)) },
        "transform_point" => |a| { let (d, p) = (rd_dec::<P, R>(a), P::rd(a)); ok(d.transform_point(p)) },
        "concat" => |a| { let (d, e) = (rd_dec::<P, R>(a), rd_dec::<P, R>(a)); fl_dec(&d.concat(&e)) },
        "mul" => |a| { let (d, e) = (rd_dec::<P, R>(a), rd_dec::<P, R>(a)); fl_dec(&(d * e)) },
        "concat_self" => |a| { let (mut d, e) = (rd_dec::<P, R>(a), rd_dec::<P, R>(a)); d.concat_self(&e); fl_dec(&d) },
        "inverse_transform" => |a| {
            let d = rd_dec::<P, R>(a);
            match d.inverse_transform() { Some(i) => fl_dec(&i), None => Out::None }
        },
        "inverse_transform_vector" => |a| { let (d, v) = (rd_dec::<P, R>(a), P::Diff::rd(a)); opt(d.inverse_transform_vector(v)) },
        "look_at" => |a| { let (e, c, u) = (P::rd(a), P::rd(a), P::Diff::rd(a)); fl_dec(&Decomposed::<P::Diff, R>::look_at(e, c, u)) },
        "look_at_lh" => |a| { let (e, c, u) = (P::rd(a), P::rd(a), P::Diff::rd(a)); fl_dec(&Decomposed::<P::Diff, R>::look_at_lh(e, c, u)) },
        "look_at_rh" => |a| { let (e, c, u) = (P::rd(a), P::rd(a), P::Diff::rd(a)); fl_dec(&Decomposed::<P::Diff, R>::look_at_rh(e, c, u)) },
        _ => return None,
    })
}
const DEC: &[&str] = &["one", "id", "transform_vector", "transform_point", "concat", "mul", "concat_self",
    "inverse_transform", "inverse_transform_vector", "look_at", "look_at_lh", "look_at_rh"];

macro_rules! angle_ops {
    ($name:ident, $A:ident, $rd:ident) => {
        fn $name(op: &str) -> Option<OpFn> {
            type A = $A<X>;
            Some(match op {
                "to_rad" => |a| { let x = a.$rd(); let r: Rad<X> = x.into(); ok(r) },
                "to_deg" => |a| { let x = a.$rd(); let r: Deg<X> = x.into(); ok(r) },
                "full_turn" => |_a| ok(A::full_turn()),
                "turn_div_2" => |_a| ok(A::turn_div_2()),
                "turn_div_3" => |_a| ok(A::turn_div_3()),
                "turn_div_4" => |_a| ok(A::turn_div_4()),
                "turn_div_6" => |_a| ok(A::turn_div_6()),
                "normalize" => |a| { let x = a.$rd(); ok(x.normalize()) },
                "normalize_signed" => |a| { let x = a.$rd(); ok(x.normalize_signed()) },
                "opposite" => |a| { let x = a.$rd(); ok(x.opposite()) },
                "bisect" => |a| { let (x, y) = (a.$rd(), a.$rd()); ok(x.bisect(y)) },
                "sin" => |a| { let x = a.$rd(); ok(A::sin(x)) },
                "cos" => |a| { let x = a.$rd(); ok(A::cos(x)) },
                "tan" => |a| { let x = a.$rd(); ok(A::tan(x)) },
                "sin_cos" => |a| { let x = a.$rd(); ok(A::sin_cos(x)) },
                "csc" => |a| { let x = a.$rd(); ok(A::csc(x)) },
                "sec" => |a| { let x = a.$rd(); ok(A::sec(x)) },
                "cot" => |a| { let x = a.$rd(); ok(A::cot(x)) },
                "asin" => |a| { let x = a.x(); ok(A::asin(x)) },
                "acos" => |a| { let x = a.x(); ok(A::acos(x)) },
                "atan" => |a| { let x = a.x(); ok(A::atan(x)) },
                "atan2" => |a| { let (y, x) = (a.x(), a.x()); ok(A::atan2(y, x)) },
                "add" => |a| { let (x, y) = (a.$rd(), a.$rd()); ok(x + y) },
                "sub" => |a| { let (x, y) = (a.$rd(), a.$rd()); ok(x - y) },
                "neg" => |a| { let x = a.$rd(); ok(-x) },
                "mul_s" => |a| { let (x, s) = (a.$rd(), a.x()); ok(x * s) },
                "div_s" => |a| { let (x, s) = (a.$rd(), a.x()); ok(x / s) },
                "div_a" => |a| { let (x, y) = (a.$rd(), a.$rd()); ok(x / y) },
                "rem" => |a| { let (x, y) = (a.$rd(), a.$rd()); ok(x % y) },
                "zero" => |_a| ok(A::zero()),
                "is_zero" => |a| { let x = a.$rd(); ok(x.is_zero()) },
                "sum_list" => |a| {
                    let mut l = vec![];
                    while a.remaining() > 0 { l.push(a.$rd()); }
                    ok(l.into_iter().sum::<A>())
                },
                "sum_list_ref" => |a| {
                    let mut l = vec![];
                    while a.remaining() > 0 { l.push(a.$rd()); }
                    ok(l.iter().sum::<A>())
                },
                _ => return None,
            })
        }
    };
}
angle_ops!(rad_ops, Rad, rad);
angle_ops!(deg_ops, Deg, deg);
const ANGLE: &[&str] = &["to_rad", "to_deg", "full_turn", "turn_div_2", "turn_div_3", "turn_div_4",
    "turn_div_6", "normalize", "normalize_signed", "opposite", "bisect", "sin", "cos", "tan", "sin_cos",
    "csc", "sec", "cot", "asin", "acos", "atan", "atan2", "add", "sub", "neg", "mul_s", "div_s", "div_a",
    "rem", "zero", "is_zero", "sum_list", "sum_list_ref"];

fn special(name: &str) -> Option<OpFn> {
    Some(match name {
        "dq.to_matrix" => |a| { let d = rd_dec::<Point3<X>, Quaternion<X>>(a); ok(Matrix4::from(d)) },
        "db3.to_matrix" => |a| { let d = rd_dec::<Point3<X>, Basis3<X>>(a); ok(Matrix4::from(d)) },
        "db2.to_matrix" => |a| { let d = rd_dec::<Point2<X>, Basis2<X>>(a); ok(Matrix3::from(d)) },
        // ------------------------------------------------------------ projections
        "proj.ortho" => |a| { let v: Vec<X> = (0..6).map(|_| a.x()).collect(); ok(ortho(v[0], v[1], v[2], v[3], v[4], v[5])) },
        "proj.frustum" => |a| { let v: Vec<X> = (0..6).map(|_| a.x()).collect(); ok(frustum(v[0], v[1], v[2], v[3], v[4], v[5])) },
        "proj.perspective" => |a| { let (f, asp, n, fr) = (a.rad(), a.x(), a.x(), a.x()); ok(perspective(f, asp, n, fr)) },
        "proj.perspective_deg" => |a| { let (f, asp, n, fr) = (a.deg(), a.x(), a.x(), a.x()); ok(perspective(f, asp, n, fr)) },
        "proj.planar" => |a| { let (f, asp, h, n, fr) = (a.rad(), a.x(), a.x(), a.x(), a.x()); ok(planar(f, asp, h, n, fr)) },
        "proj.ortho_s" => |a| {
            let v: Vec<X> = (0..6).map(|_| a.x()).collect();
            ok(Matrix4::from(Ortho { left: v[0], right: v[1], bottom: v[2], top: v[3], near: v[4], far: v[5] }))
        },
        "proj.frustum_s" => |a| {
            let v: Vec<X> = (0..6).map(|_| a.x()).collect();
            ok(Matrix4::from(Perspective { left: v[0], right: v[1], bottom: v[2], top: v[3], near: v[4], far: v[5] }))
        },
        "proj.perspective_s" => |a| {
            let (fovy, aspect, near, far) = (a.rad(), a.x(), a.x(), a.x());
            ok(Matrix4::from(PerspectiveFov { fovy, aspect, near, far }))
        },
        "proj.planar_s" => |a| {
            let (fovy, aspect, height, near, far) = (a.rad(), a.x(), a.x(), a.x(), a.x());
            ok(Matrix4::from(PlanarFov { fovy, aspect, height, near, far }))
        },
        "proj.to_perspective" => |a| {
            let (fovy, aspect, near, far) = (a.rad(), a.x(), a.x(), a.x());
            let p = PerspectiveFov { fovy, aspect, near, far }.to_perspective();
            ok(vec![p.left, p.right, p.bottom, p.top, p.near, p.far])
        },
        _ => return None,
    })
}
const SPECIAL: &[&str] = &["dq.to_matrix", "db3.to_matrix", "db2.to_matrix", "proj.ortho", "proj.frustum",
    "proj.perspective", "proj.perspective_deg", "proj.planar", "proj.ortho_s", "proj.frustum_s",
    "proj.perspective_s", "proj.planar_s", "proj.to_perspective"];

pub fn lookup(name: &str) -> Option<OpFn> {
    if let Some(f) = special(name) {
        return Some(f);
    }
    let (ty, op) = name.split_once('.')?;
    match ty {
        "dq" => dec_generic::<Point3<X>, Quaternion<X>>(op),
        "db3" => dec_generic::<Point3<X>, Basis3<X>>(op),
        "db2" => dec_generic::<Point2<X>, Basis2<X>>(op),
        "rad" => rad_ops(op),
        "deg" => deg_ops(op),
        _ => None,
    }
}
pub fn names() -> Vec<String> {
    let mut v: Vec<String> = SPECIAL.iter().map(|s| s.to_string()).collect();
    for t in ["dq", "db3", "db2"] {
        for g in DEC { v.push(format!("{}.{}", t, g)); }
    }
    for t in ["rad", "deg"] {
        for g in ANGLE { v.push(format!("{}.{}", t, g)); }
    }
    v
}
#[allow(dead_code)]
fn _u() -> X { X::one() + X::zero() }
