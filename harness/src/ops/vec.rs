//! Vector1..Vector4 operations (properties C03, C11, parts of C14/C16)
use super::*;
use cgmath::num_traits::Zero;
use std::ops::*;

pub trait Rd: Sized {
    fn rd(a: &mut Args) -> Self;
}
impl Rd for Vector1<X> {
    fn rd(a: &mut Args) -> Self {
        a.v1()
    }
}
impl Rd for Vector2<X> {
    fn rd(a: &mut Args) -> Self {
        a.v2()
    }
}
impl Rd for Vector3<X> {
    fn rd(a: &mut Args) -> Self {
        a.v3()
    }
}
impl Rd for Vector4<X> {
    fn rd(a: &mut Args) -> Self {
        a.v4()
    }
}

impl Rd for Quaternion<X> {
    fn rd(a: &mut Args) -> Self {
        a.q()
    }
}

fn generic<V>(op: &str) -> Option<OpFn>
where
    V: Rd
        + Fl
        + Copy
        + InnerSpace<Scalar = X>
        + MetricSpace<Metric = X>
        + ElementWise
        + ElementWise<X>
        + Array<Element = X>
        + Neg<Output = V>
        + Zero
        + std::iter::Sum<V>
        + for<'a> std::iter::Sum<&'a V>
        + 'static,
{
    Some(match op {
        "add" => |a| { let (u, v) = (V::rd(a), V::rd(a)); ok(u + v) },
        "sub" => |a| { let (u, v) = (V::rd(a), V::rd(a)); ok(u - v) },
        "neg" => |a| { let u = V::rd(a); ok(-u) },
        "mul" => |a| { let (u, s) = (V::rd(a), a.x()); ok(u * s) },
        "div" => |a| { let (u, s) = (V::rd(a), a.x()); ok(u / s) },
        "rem" => |a| { let (u, s) = (V::rd(a), a.x()); ok(u % s) },
        "add_ew" => |a| { let (u, v) = (V::rd(a), V::rd(a)); ok(u.add_element_wise(v)) },
        "sub_ew" => |a| { let (u, v) = (V::rd(a), V::rd(a)); ok(u.sub_element_wise(v)) },
        "mul_ew" => |a| { let (u, v) = (V::rd(a), V::rd(a)); ok(u.mul_element_wise(v)) },
        "div_ew" => |a| { let (u, v) = (V::rd(a), V::rd(a)); ok(u.div_element_wise(v)) },
        "rem_ew" => |a| { let (u, v) = (V::rd(a), V::rd(a)); ok(u.rem_element_wise(v)) },
        "add_ews" => |a| { let (u, s) = (V::rd(a), a.x()); ok(u.add_element_wise(s)) },
        "sub_ews" => |a| { let (u, s) = (V::rd(a), a.x()); ok(u.sub_element_wise(s)) },
        "mul_ews" => |a| { let (u, s) = (V::rd(a), a.x()); ok(u.mul_element_wise(s)) },
        "div_ews" => |a| { let (u, s) = (V::rd(a), a.x()); ok(u.div_element_wise(s)) },
        "rem_ews" => |a| { let (u, s) = (V::rd(a), a.x()); ok(u.rem_element_wise(s)) },
        "zero" => |_a| ok(V::zero()),
        "from_value" => |a| { let s = a.x(); ok(V::from_value(s)) },
        "sum" => |a| { let u = V::rd(a); ok(u.sum()) },
        "product" => |a| { let u = V::rd(a); ok(u.product()) },
        "dot" => |a| { let (u, v) = (V::rd(a), V::rd(a)); ok(u.dot(v)) },
        "magnitude2" => |a| { let u = V::rd(a); ok(u.magnitude2()) },
        "distance2" => |a| { let (u, v) = (V::rd(a), V::rd(a)); ok(u.distance2(v)) },
        "lerp" => |a| { let (u, v, t) = (V::rd(a), V::rd(a), a.x()); ok(u.lerp(v, t)) },
        "project_on" => |a| { let (u, v) = (V::rd(a), V::rd(a)); ok(u.project_on(v)) },
        "magnitude" => |a| { let u = V::rd(a); ok(u.magnitude()) },
        "distance" => |a| { let (u, v) = (V::rd(a), V::rd(a)); ok(u.distance(v)) },
        "normalize" => |a| { let u = V::rd(a); ok(u.normalize()) },
        "normalize_to" => |a| { let (u, m) = (V::rd(a), a.x()); ok(u.normalize_to(m)) },
        "angle" => |a| { let (u, v) = (V::rd(a), V::rd(a)); ok(u.angle(v)) },
        "is_zero" => |a| { let u = V::rd(a); ok(u.is_zero()) },
        "is_perpendicular" => |a| { let (u, v) = (V::rd(a), V::rd(a)); ok(u.is_perpendicular(v)) },
        "index" => |a| { let (u, i) = (V::rd(a), a.i()); ok(u[i]) },
        "sum_list" => |a| {
            let mut l = vec![];
            while a.remaining() > 0 { l.push(V::rd(a)); }
            ok(l.into_iter().sum::<V>())
        },
        "sum_list_ref" => |a| {
            let mut l = vec![];
            while a.remaining() > 0 { l.push(V::rd(a)); }
            ok(l.iter().sum::<V>())
        },
        _ => return None,
    })
}

const GENERIC: &[&str] = &[
    "add", "sub", "neg", "mul", "div", "rem", "add_ew", "sub_ew", "mul_ew", "div_ew", "rem_ew",
    "add_ews", "sub_ews", "mul_ews", "div_ews", "rem_ews", "zero", "from_value", "sum", "product",
    "dot", "magnitude2", "distance2", "lerp", "project_on", "magnitude", "distance", "normalize",
    "normalize_to", "angle", "is_zero", "is_perpendicular", "index", "sum_list", "sum_list_ref",
];

fn special(name: &str) -> Option<OpFn> {
    Some(match name {
        "v2.perp_dot" => |a| { let (u, v) = (a.v2(), a.v2()); ok(u.perp_dot(v)) },
        "v3.cross" => |a| { let (u, v) = (a.v3(), a.v3()); ok(u.cross(v)) },
        "v2.extend" => |a| { let (u, s) = (a.v2(), a.x()); ok(u.extend(s)) },
        "v3.extend" => |a| { let (u, s) = (a.v3(), a.x()); ok(u.extend(s)) },
        "v3.truncate" => |a| { let u = a.v3(); ok(u.truncate()) },
        "v4.truncate" => |a| { let u = a.v4(); ok(u.truncate()) },
        "v4.truncate_n" => |a| { let (u, n) = (a.v4(), a.i()); ok(u.truncate_n(n as isize)) },
        "v1.unit_x" => |_a| ok(Vector1::<X>::unit_x()),
        "v2.unit_x" => |_a| ok(Vector2::<X>::unit_x()),
        "v2.unit_y" => |_a| ok(Vector2::<X>::unit_y()),
        "v3.unit_x" => |_a| ok(Vector3::<X>::unit_x()),
        "v3.unit_y" => |_a| ok(Vector3::<X>::unit_y()),
        "v3.unit_z" => |_a| ok(Vector3::<X>::unit_z()),
        "v4.unit_x" => |_a| ok(Vector4::<X>::unit_x()),
        "v4.unit_y" => |_a| ok(Vector4::<X>::unit_y()),
        "v4.unit_z" => |_a| ok(Vector4::<X>::unit_z()),
        "v4.unit_w" => |_a| ok(Vector4::<X>::unit_w()),
        "dot.v3" => |a| { let (u, v) = (a.v3(), a.v3()); ok(cgmath::dot(u, v)) },
        _ => return None,
    })
}
const SPECIAL: &[&str] = &[
    "v2.perp_dot", "v3.cross", "v2.extend", "v3.extend", "v3.truncate", "v4.truncate",
    "v4.truncate_n", "v1.unit_x", "v2.unit_x", "v2.unit_y", "v3.unit_x", "v3.unit_y", "v3.unit_z",
    "v4.unit_x", "v4.unit_y", "v4.unit_z", "v4.unit_w", "dot.v3",
];

pub fn lookup(name: &str) -> Option<OpFn> {
    if let Some(f) = special(name) {
        return Some(f);
    }
    let (ty, op) = name.split_once('.')?;
    match ty {
        "v1" => generic::<Vector1<X>>(op),
        "v2" => generic::<Vector2<X>>(op),
        "v3" => generic::<Vector3<X>>(op),
        "v4" => generic::<Vector4<X>>(op),
        _ => None,
    }
}
pub fn names() -> Vec<String> {
    let mut v: Vec<String> = SPECIAL.iter().map(|s| s.to_string()).collect();
    for t in ["v1", "v2", "v3", "v4"] {
        for g in GENERIC {
            v.push(format!("{}.{}", t, g));
        }
    }
    v
}
