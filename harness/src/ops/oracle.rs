//! Oracle clauses: each op evaluates one property clause directly on the
//! implementation's outputs (no reference to the Lean model).  The result must be
//! all zeros / all `T`; `Skip` means the clause's hypothesis does not hold here.
use super::*;
use cgmath::num_traits::{One, Zero};

fn z() -> X {
    X::int(0)
}
fn d3(a: Vector3<X>, b: Vector3<X>) -> Vec<X> {
    vec![a.x - b.x, a.y - b.y, a.z - b.z]
}
#[allow(dead_code)]
fn d4(a: Vector4<X>, b: Vector4<X>) -> Vec<X> {
    vec![a.x - b.x, a.y - b.y, a.z - b.z, a.w - b.w]
}
#[allow(dead_code)]
fn dm<M: Fl>(a: M, b: M) -> Vec<X> {
    let (mut va, mut vb) = (vec![], vec![]);
    a.fl(&mut va);
    b.fl(&mut vb);
    va.iter()
        .zip(vb.iter())
        .map(|(x, y)| match (x, y) {
            (Val::S(x), Val::S(y)) => *x - *y,
            _ => X::int(1),
        })
        .collect()
}


use super::vec::Rd;

fn xs<T: Fl>(t: T) -> Vec<X> {
    let mut v = vec![];
    t.fl(&mut v);
    v.into_iter().map(|x| match x { Val::S(x) => x, Val::B(b) => X::int(if b { 0 } else { 1 }) }).collect()
}
fn diff<T: Fl>(a: T, b: T) -> Vec<X> {
    xs(a).into_iter().zip(xs(b)).map(|(x, y)| x - y).collect()
}
fn is0(v: &[X]) -> bool {
    v.iter().all(|x| x.val().is_zero())
}

fn mat_generic<M>(op: &str) -> Option<OpFn>
where
    M: Rd + Fl + Copy + SquareMatrix<Scalar = X> + Zero + 'static,
    M::ColumnRow: Rd + Fl + Copy + std::ops::Add<Output = M::ColumnRow> + std::ops::Mul<X, Output = M::ColumnRow> + Zero,
{
    Some(match op {
        // C01: A*(B*v) = (A*B)*v ; A*v = sum_c col_c * v[c] ; col_c(A*B) = A*col_c(B) ; linearity
        "product" => |a| {
            let (p, q, v, w, s) = (M::rd(a), M::rd(a), M::ColumnRow::rd(a), M::ColumnRow::rd(a), a.x());
            let n = M::ColumnRow::len();
            let mut r = diff(p * (q * v), (p * q) * v);
            let mut acc = M::ColumnRow::zero();
            for c in 0..n { acc = acc + p[c] * v[c]; }
            r.extend(diff(p * v, acc));
            let pq = p * q;
            for c in 0..n { r.extend(diff(pq[c], p * q[c])); }
            r.extend(diff(p * (v + w), p * v + p * w));
            r.extend(diff(p * (v * s), (p * v) * s));
            // rows / transpose / diagonal / trace read the documented elements
            let t = p.transpose();
            let mut tr = X::int(0);
            for c in 0..n {
                r.extend(diff(p.row(c), t[c]));
                r.push(p.diagonal()[c] - p[c][c]);
                tr = tr + p[c][c];
                for rr in 0..n { r.push(t[c][rr] - p[rr][c]); }
            }
            r.push(p.trace() - tr);
            ok(r)
        },
        // C01: ring laws + element-wise sum/difference/negation/scalar multiples + identity/from_value/from_diagonal
        "ring" => |a| {
            let (p, q, w, s, d) = (M::rd(a), M::rd(a), M::rd(a), a.x(), M::ColumnRow::rd(a));
            let n = M::ColumnRow::len();
            let mut r = diff((p * q) * w, p * (q * w));
            r.extend(diff(p * (q + w), p * q + p * w));
            r.extend(diff((p + q) * w, p * w + q * w));
            r.extend(diff(M::identity() * p, p));
            r.extend(diff(p * M::identity(), p));
            let (sum, dif, sc, neg) = (p + q, p - q, p * s, p - p - p);
            let (fv, fd) = (M::from_value(s), M::from_diagonal(d));
            for c in 0..n { for rr in 0..n {
                r.push(sum[c][rr] - (p[c][rr] + q[c][rr]));
                r.push(dif[c][rr] - (p[c][rr] - q[c][rr]));
                r.push(sc[c][rr] - p[c][rr] * s);
                r.push(neg[c][rr] + p[c][rr]);
                r.push(fv[c][rr] - if c == rr { s } else { X::int(0) });
                r.push(fd[c][rr] - if c == rr { d[c] } else { X::int(0) });
            }}
            ok(r)
        },
        // C02: invert() None iff det = 0, else two-sided inverse
        "inverse" => |a| {
            let m = M::rd(a);
            let det = m.determinant();
            match m.invert() {
                None => ok(det),
                Some(i) => {
                    let mut r = diff(m * i, M::identity());
                    r.extend(diff(i * m, M::identity()));
                    r.push(if det.val().is_zero() { X::int(1) } else { X::int(0) });
                    ok(r)
                }
            }
        },
        // C02: det multiplicative, transpose-invariant; (AB)^T = B^T A^T; transpose involution; transpose_self
        "det_laws" => |a| {
            let (p, q) = (M::rd(a), M::rd(a));
            let mut r = vec![(p * q).determinant() - p.determinant() * q.determinant(),
                             p.transpose().determinant() - p.determinant()];
            r.extend(diff((p * q).transpose(), q.transpose() * p.transpose()));
            r.extend(diff(p.transpose().transpose(), p));
            let mut t = p; t.transpose_self();
            r.extend(diff(t, p.transpose()));
            ok(r)
        },
        // C02: swaps exchange exactly the named rows/columns/elements; replace_col
        "swaps" => |a| {
            let (m, i, j, k, l, v) = (M::rd(a), a.i(), a.i(), a.i(), a.i(), M::ColumnRow::rd(a));
            let n = M::ColumnRow::len();
            let sw = |x: usize, p: usize, q: usize| if x == p { q } else if x == q { p } else { x };
            let mut r = vec![];
            let mut mr = m; mr.swap_rows(i, j);
            let mut mc = m; mc.swap_columns(i, j);
            let mut me = m; me.swap_elements((i, j), (k, l));
            let mut mp = m; let old = mp.replace_col(i, v);
            r.extend(diff(old, m[i]));
            for c in 0..n { for rr in 0..n {
                r.push(mr[c][rr] - m[c][sw(rr, i, j)]);
                r.push(mc[c][rr] - m[sw(c, i, j)][rr]);
                let e = if (c, rr) == (i, j) { m[k][l] } else if (c, rr) == (k, l) { m[i][j] } else { m[c][rr] };
                r.push(me[c][rr] - e);
                r.push(mp[c][rr] - if c == i { v[rr] } else { m[c][rr] });
            }}
            ok(r)
        },
        _ => return None,
    })
}

fn point_generic<P>(op: &str) -> Option<OpFn>
where
    P: Rd + Fl + Copy + EuclideanSpace<Scalar = X> + 'static,
    P::Diff: Rd + Fl + Copy + std::ops::Neg<Output = P::Diff> + Zero + std::ops::Div<X, Output = P::Diff>,
{
    Some(match op {
        "affine" => |a| {
            let (p, q, v, w) = (P::rd(a), P::rd(a), P::Diff::rd(a), P::Diff::rd(a));
            let mut r = diff((p + v) - p, v);
            r.extend(diff(p + (q - p), q));
            r.extend(diff((p + v) + w, p + (v + w)));
            r.extend(diff(p - v, p + (-v)));
            r.extend(diff(P::from_vec(p.to_vec()), p));
            r.extend(diff(P::from_vec(v).to_vec(), v));
            r.extend(diff(P::origin().to_vec(), P::Diff::zero()));
            let two = X::int(2);
            r.extend(diff(p.midpoint(q), p + (q - p) / two));
            ok(r)
        },
        "centroid" => |a| {
            let mut l = vec![];
            while a.remaining() > 0 { l.push(P::rd(a)); }
            if l.is_empty() { return Out::Skip; }
            let mut acc = P::Diff::zero();
            for p in &l { acc = acc + p.to_vec(); }
            let n = X::int(l.len() as i64);
            ok(diff(P::centroid(&l).to_vec(), acc / n))
        },
        _ => return None,
    })
}

use super::xform::Rot;

fn dec_oracle<P, R>(op: &str) -> Option<OpFn>
where
    P: EuclideanSpace<Scalar = X> + Rd + Fl + Copy + 'static,
    P::Diff: Rd + Fl + VectorSpace<Scalar = X> + Copy,
    R: Rot + Rotation<Space = P> + 'static,
{
    fn rdd<P: EuclideanSpace<Scalar = X>, R: Rot>(a: &mut Args) -> Decomposed<P::Diff, R> where P::Diff: Rd {
        let scale = a.x();
        let rot = R::rd(a);
        let disp = P::Diff::rd(a);
        Decomposed { scale, rot, disp }
    }
    fn fld<V: VectorSpace<Scalar = X> + Fl, R: Rot>(d: &Decomposed<V, R>) -> Vec<X> {
        let mut o = vec![];
        d.scale.fl(&mut o);
        d.rot.flr(&mut o);
        d.disp.fl(&mut o);
        o.into_iter().map(|v| match v { Val::S(x) => x, Val::B(_) => X::int(0) }).collect()
    }
    Some(match op {
        // s, t (rotations must be valid: unit quaternion / its matrix / an angle), p, v
        "laws" => |a| {
            let (s, t, p, v) = (rdd::<P, R>(a), rdd::<P, R>(a), P::rd(a), P::Diff::rd(a));
            let c = s.concat(&t);
            let mut r = diff(c.transform_point(p), s.transform_point(t.transform_point(p)));
            r.extend(diff(c.transform_vector(v), s.transform_vector(t.transform_vector(v))));
            let m = s * t;
            r.extend(fld(&m).into_iter().zip(fld(&c)).map(|(x, y)| x - y));
            let mut cs = s; cs.concat_self(&t);
            r.extend(fld(&cs).into_iter().zip(fld(&c)).map(|(x, y)| x - y));
            let one = Decomposed::<P::Diff, R>::one();
            r.extend(diff(one.transform_point(p), p));
            r.extend(diff(one.transform_vector(v), v));
            // transform_vector ignores displacement
            let mut t2 = t; t2.disp = t.disp + v;
            r.extend(diff(t2.transform_vector(v), t.transform_vector(v)));
            ok(r)
        },
        "inverse" => |a| {
            let (t, p, v) = (rdd::<P, R>(a), P::rd(a), P::Diff::rd(a));
            let zero_scale = is0(&[t.scale]);
            match t.inverse_transform() {
                None => {
                    // allowed only for negligible scale: |scale| <= 1e-6
                    let tiny = t.scale.val().abs().cmp(&crate::big::Rat::from_frac(1, 1000000)) != std::cmp::Ordering::Greater;
                    let mut r = vec![if tiny { X::int(0) } else { X::int(1) }];
                    r.push(if t.inverse_transform_vector(v).is_none() { X::int(0) } else { X::int(1) });
                    ok(r)
                }
                Some(i) => {
                    if zero_scale { return ok(X::int(1)); }
                    let mut r = diff(i.transform_point(t.transform_point(p)), p);
                    r.extend(diff(i.transform_vector(t.transform_vector(v)), v));
                    r.extend(diff(t.transform_point(i.transform_point(p)), p));
                    match t.inverse_transform_vector(v) {
                        Some(w) => r.extend(diff(w, i.transform_vector(v))),
                        None => r.push(X::int(1)),
                    }
                    ok(r)
                }
            }
        },
        _ => return None,
    })
}

fn metric_oracle<V>(op: &str) -> Option<OpFn>
where
    V: Rd + Fl + Copy + InnerSpace<Scalar = X> + MetricSpace<Metric = X> + 'static,
{
    Some(match op {
        // u, v (u chosen with rational length so that sqrt is exact), m
        "metric" => |a| {
            let (u, v, m) = (V::rd(a), V::rd(a), a.x());
            let mut r = vec![];
            let m2 = u.magnitude2();
            if m2.val().exact_sqrt().is_none() || is0(&[m2]) { return Out::Skip; }
            let mag = u.magnitude();
            r.push(mag * mag - m2);
            r.push(if m2.val().neg || mag.val().neg { X::int(1) } else { X::int(0) });
            let n = u.normalize();
            r.push(n.magnitude2() - X::int(1));
            let nt = u.normalize_to(m);
            r.push(nt.magnitude2() - m * m);
            // positive multiple of u for m > 0: nt = u * (m / |u|)
            r.extend(diff(nt, u * (m / mag)));
            r.extend(diff(n, u * (X::int(1) / mag)));
            // distance
            r.push(u.distance2(v) - v.distance2(u));
            r.push(u.distance2(v) - (u - v).magnitude2());
            let d2 = u.distance2(v);
            if d2.val().exact_sqrt().is_some() {
                let d = u.distance(v);
                r.push(d * d - d2);
                r.push(d - v.distance(u));
                r.push(d - (u - v).magnitude());
            }
            // projection (v must be non-zero)
            if !is0(&[v.magnitude2()]) {
                let p = u.project_on(v);
                r.push((u - p).dot(v));
                r.extend(diff(p, v * (u.dot(v) / v.magnitude2())));
            }
            ok(r)
        },
        _ => return None,
    })
}

pub fn lookup(name: &str) -> Option<OpFn> {
    if let Some((ty, op)) = name.strip_prefix("o.").and_then(|r| r.split_once('.')) {
        let f = match ty {
            "m2" => mat_generic::<Matrix2<X>>(op),
            "m3" => mat_generic::<Matrix3<X>>(op),
            "m4" => mat_generic::<Matrix4<X>>(op),
            "p1" => point_generic::<Point1<X>>(op),
            "p2" => point_generic::<Point2<X>>(op),
            "p3" => point_generic::<Point3<X>>(op),
            "v1" => metric_oracle::<Vector1<X>>(op),
            "v2" => metric_oracle::<Vector2<X>>(op),
            "v3" => metric_oracle::<Vector3<X>>(op),
            "v4" => metric_oracle::<Vector4<X>>(op),
            "q" => metric_oracle::<Quaternion<X>>(op),
            "dq" => dec_oracle::<Point3<X>, Quaternion<X>>(op),
            "db3" => dec_oracle::<Point3<X>, Basis3<X>>(op),
            "db2" => dec_oracle::<Point2<X>, Basis2<X>>(op),
            _ => None,
        };
        if f.is_some() { return f; }
    }
    Some(match name {
        // ---------------------------------------------------------------- C04
        "o.q.algebra" => |a| {
            let (p, q, r, k) = (a.q(), a.q(), a.q(), a.x());
            let one = Quaternion::<X>::one();
            let mut v = diff((p * q) * r, p * (q * r));
            v.extend(diff(p * (q + r), p * q + p * r));
            v.extend(diff((p + q) * r, p * r + q * r));
            v.extend(diff(one * p, p));
            v.extend(diff(p * one, p));
            v.extend(diff((p * q).conjugate(), q.conjugate() * p.conjugate()));
            v.push((p * q).magnitude2() - p.magnitude2() * q.magnitude2());
            v.push(p.magnitude2() - p.dot(p));
            v.extend(diff(p * k, Quaternion::from_sv(p.s * k, p.v * k)));
            v.extend(diff(-p, Quaternion::from_sv(-p.s, -p.v)));
            v.extend(diff(p - q, p + (-q)));
            ok(v)
        },
        "o.q.invert" => |a| {
            let q = a.q();
            if is0(&[q.magnitude2()]) { return Out::Skip; }
            let one = Quaternion::<X>::one();
            let mut v = diff(q * q.invert(), one);
            v.extend(diff(q.invert() * q, one));
            ok(v)
        },
        "o.q.rotate" => |a| {
            let (q, v) = (a.q(), a.v3());
            let two = X::int(2);
            // every q: the shortcut formula
            let mut r = diff(q * v, v + q.v.cross(q.v.cross(v) + v * q.s) * two);
            r.extend(diff(q.rotate_vector(v), q * v));
            // every rotation: rotate_point(p) = rotate_vector(p - origin), for any q
            r.extend(diff(q.rotate_point(Point3::from_vec(v)).to_vec(), q.rotate_vector(Point3::from_vec(v) - Point3::origin())));
            r.extend(diff(q.rotate_point(Point3::from_vec(v)).to_vec(), q * v));
            if is0(&[q.magnitude2() - X::int(1)]) {
                // unit q: sandwich product, length
                let s = q * Quaternion::from_sv(X::int(0), v) * q.conjugate();
                r.push(s.s);
                r.extend(diff(s.v, q * v));
                r.push((q * v).magnitude2() - v.magnitude2());
            }
            ok(r)
        },
        "o.q.compose" => |a| {
            let (p, q, v) = (a.q(), a.q(), a.v3());
            if !is0(&[p.magnitude2() - X::int(1), q.magnitude2() - X::int(1)]) { return Out::Skip; }
            ok(diff((p * q) * v, p * (q * v)))
        },
        // ---------------------------------------------------------------- C05
        "o.q.same_rotation" => |a| {
            let (p, q, v) = (a.q(), a.q(), a.v3());
            if !is0(&[p.magnitude2() - X::int(1), q.magnitude2() - X::int(1)]) { return Out::Skip; }
            let m3 = Matrix3::from(q);
            let m4 = Matrix4::from(q);
            let b3 = Basis3::from(q);
            let mut r = diff(m3 * v, q * v);
            r.extend(diff(b3.rotate_vector(v), q * v));
            r.extend(diff(m4.transform_vector(v), q * v));
            r.extend(diff(Matrix3::from(b3), m3));
            r.extend(diff(m3.transpose() * m3, Matrix3::identity()));
            r.push(m3.determinant() - X::int(1));
            r.extend(diff(Matrix3::from(p * q), Matrix3::from(p) * m3));
            r.extend(diff(Matrix4::from(p * q), Matrix4::from(p) * m4));
            r.extend(diff(Matrix3::from(Basis3::from(p * q)), Matrix3::from(Basis3::from(p) * b3)));
            // composition through every spelling of the Basis3 / Matrix3 / Quaternion product of a list (by value, by reference)
            let (bp, pm3) = (Basis3::from(p), Matrix3::from(p));
            let by_ref: Basis3<X> = [bp, b3].iter().product();
            let by_val: Basis3<X> = vec![bp, b3].into_iter().product();
            r.extend(diff(Matrix3::from(by_ref), Matrix3::from(p * q)));
            r.extend(diff(Matrix3::from(by_val), Matrix3::from(p * q)));
            let m_ref: Matrix3<X> = [pm3, m3].iter().product();
            let q_ref: Quaternion<X> = [p, q].iter().product();
            r.extend(diff(m_ref, Matrix3::from(p * q)));
            r.extend(diff(q_ref, p * q));
            let three: Basis3<X> = [bp, b3, bp].iter().product();
            r.extend(diff(Matrix3::from(three), Matrix3::from(p * q * p)));
            ok(r)
        },
        "o.q.roundtrip" => |a| {
            let q = a.q();
            if !is0(&[q.magnitude2() - X::int(1)]) { return Out::Skip; }
            let r = Quaternion::from(Matrix3::from(q));
            let rb = Quaternion::from(Basis3::from(q));
            let d = diff(r, q);
            let mut out = if is0(&d) { d } else { diff(r, -q) };
            out.extend(diff(rb, r));
            ok(out)
        },
        // ---------------------------------------------------------------- C08 conversions / matrix transforms
        "o.dq.matrix" => |a| {
            let rd = |a: &mut Args| { let (scale, rot, disp) = (a.x(), a.q(), a.v3()); Decomposed { scale, rot, disp } };
            let (s, t, p, v) = (rd(a), rd(a), a.p3(), a.v3());
            let (ms, mt) = (Matrix4::from(s), Matrix4::from(t));
            let mut r = diff(mt.transform_point(p), t.transform_point(p));
            r.extend(diff(mt.transform_vector(v), t.transform_vector(v)));
            r.extend(diff(Matrix4::from(s.concat(&t)), ms * mt));
            match (t.inverse_transform(), mt.inverse_transform()) {
                (Some(i), Some(mi)) => r.extend(diff(Matrix4::from(i), mi)),
                (None, _) => {}
                _ => r.push(X::int(1)),
            }
            let sb = Decomposed { scale: s.scale, rot: Basis3::from(s.rot), disp: s.disp };
            let tb = Decomposed { scale: t.scale, rot: Basis3::from(t.rot), disp: t.disp };
            r.extend(diff(Matrix4::from(sb), ms));
            r.extend(diff(Matrix4::from(sb.concat(&tb)), ms * mt));
            r.extend(diff(tb.transform_point(p), t.transform_point(p)));
            ok(r)
        },
        "o.db2.matrix" => |a| {
            let rd = |a: &mut Args| { let (scale, t, disp) = (a.x(), a.rad(), a.v2()); let rot: Basis2<X> = Rotation2::from_angle(t); Decomposed { scale, rot, disp } };
            let (s, t, p, v) = (rd(a), rd(a), a.p2(), a.v2());
            type T3 = Matrix3<X>;
            let (ms, mt) = (Matrix3::from(s), Matrix3::from(t));
            let mut r = diff(<T3 as Transform<Point2<X>>>::transform_point(&mt, p), t.transform_point(p));
            r.extend(diff(<T3 as Transform<Point2<X>>>::transform_vector(&mt, v), t.transform_vector(v)));
            r.extend(diff(Matrix3::from(s.concat(&t)), ms * mt));
            match (t.inverse_transform(), <T3 as Transform<Point2<X>>>::inverse_transform(&mt)) {
                (Some(i), Some(mi)) => r.extend(diff(Matrix3::from(i), mi)),
                (None, _) => {}
                _ => r.push(X::int(1)),
            }
            ok(r)
        },
        "o.m4.transform" => |a| {
            // a, b given as 3x4 affine parts (12 numbers each: three columns + translation)
            let aff = |a: &mut Args| {
                let (c0, c1, c2, t) = (a.v3(), a.v3(), a.v3(), a.v3());
                Matrix4::from_cols(c0.extend(X::int(0)), c1.extend(X::int(0)), c2.extend(X::int(0)), t.extend(X::int(1)))
            };
            let (m, n, p, v) = (aff(a), aff(a), a.p3(), a.v3());
            let c = m.concat(&n);
            let mut r = diff(c.transform_point(p), m.transform_point(n.transform_point(p)));
            r.extend(diff(c.transform_vector(v), m.transform_vector(n.transform_vector(v))));
            r.extend(diff(c, m * n));
            let one = Matrix4::<X>::one();
            r.extend(diff(one.transform_point(p), p));
            r.extend(diff(one.transform_vector(v), v));
            match (m.inverse_transform(), m.invert()) {
                (Some(i), Some(j)) => {
                    r.extend(diff(i, j));
                    r.extend(diff(i.transform_point(m.transform_point(p)), p));
                    r.extend(diff(i.transform_vector(m.transform_vector(v)), v));
                    match m.inverse_transform_vector(v) { Some(w) => r.extend(diff(w, i.transform_vector(v))), None => r.push(X::int(1)) }
                }
                (None, None) => r.push(m.determinant()),
                _ => r.push(X::int(1)),
            }
            ok(r)
        },
        "o.m3.transform" => |a| {
            let (m, n, p, v) = (a.m3(), a.m3(), a.p3(), a.v3());
            type T3 = Matrix3<X>;
            let c = <T3 as Transform<Point3<X>>>::concat(&m, &n);
            let tp = |m: &T3, p| <T3 as Transform<Point3<X>>>::transform_point(m, p);
            let tv = |m: &T3, v| <T3 as Transform<Point3<X>>>::transform_vector(m, v);
            let mut r = diff(tp(&c, p), tp(&m, tp(&n, p)));
            r.extend(diff(tv(&c, v), tv(&m, tv(&n, v))));
            match (<T3 as Transform<Point3<X>>>::inverse_transform(&m), m.invert()) {
                (Some(i), Some(j)) => { r.extend(diff(i, j)); r.extend(diff(tp(&i, tp(&m, p)), p)); }
                (None, None) => r.push(m.determinant()),
                _ => r.push(X::int(1)),
            }
            ok(r)
        },
        // ---------------------------------------------------------------- C13 (exact part)
        "o.rad.modular" => |a| { let (x, y) = (a.x(), a.x()); angle_modular(Rad(x), Rad(y), |r| r.0) },
        "o.deg.modular" => |a| { let (x, y) = (a.x(), a.x()); angle_modular(Deg(x), Deg(y), |r| r.0) },
        "o.angle.convert" => |a| {
            let x = a.x();
            let eps4 = X::konst(crate::big::Rat::from_frac(1, 1i64 << 50));
            let rt: Rad<X> = Deg::from(Rad(x)).into();
            let rt2: Deg<X> = Rad::from(Deg(x)).into();
            let ax = if x.val().neg { -x } else { x };
            let le = |d: X, b: X| { let d = if d.val().neg { -d } else { d }; d.val().cmp(&b.val()) != std::cmp::Ordering::Greater };
            let full: Deg<X> = Rad::<X>::full_turn().into();
            ok(vec![le(rt.0 - x, eps4 * ax), le(rt2.0 - x, eps4 * ax), le(full.0 - X::int(360), eps4 * X::int(360)),
                    Deg::<X>::full_turn().0.val() == crate::big::Rat::from_i64(360)])
        },
        // ---------------------------------------------------------------- C06 (exact: the oracle sin/cos satisfy s^2+c^2=1)
        "o.rot.axis_angle" => |a| {
            let (ax, t, v) = (a.v3(), a.rad(), a.v3());
            if !is0(&[ax.magnitude2() - X::int(1)]) { return Out::Skip; }
            let (sn, cs) = Rad::sin_cos(t);
            let want = v * cs + ax.cross(v) * sn + ax * (ax.dot(v) * (X::int(1) - cs));
            let m3 = Matrix3::from_axis_angle(ax, t);
            let m4 = Matrix4::from_axis_angle(ax, t);
            let b3: Basis3<X> = Rotation3::from_axis_angle(ax, t);
            let mut r = diff(m3 * v, want);
            r.extend(diff(m4.transform_vector(v), want));
            r.extend(diff(b3.rotate_vector(v), want));
            r.extend(diff(Matrix3::from(b3), m3));
            r.extend(diff(m3 * ax, ax));
            r.extend(diff(m3.transpose() * m3, Matrix3::identity()));
            r.push(m3.determinant() - X::int(1));
            r.extend(diff(Matrix4::from(m3), m4));
            // from_angle_x/y/z = from_axis_angle about the unit axes (all representations)
            r.extend(diff(Matrix3::from_angle_x(t), Matrix3::from_axis_angle(Vector3::unit_x(), t)));
            r.extend(diff(Matrix3::from_angle_y(t), Matrix3::from_axis_angle(Vector3::unit_y(), t)));
            r.extend(diff(Matrix3::from_angle_z(t), Matrix3::from_axis_angle(Vector3::unit_z(), t)));
            r.extend(diff(Matrix4::from_angle_x(t), Matrix4::from_axis_angle(Vector3::unit_x(), t)));
            r.extend(diff(Matrix4::from_angle_y(t), Matrix4::from_axis_angle(Vector3::unit_y(), t)));
            r.extend(diff(Matrix4::from_angle_z(t), Matrix4::from_axis_angle(Vector3::unit_z(), t)));
            let bx: Basis3<X> = Rotation3::from_angle_x(t);
            r.extend(diff(Matrix3::from(bx), Matrix3::from_angle_x(t)));
            let qx: Quaternion<X> = Rotation3::from_angle_x(t);
            let qa: Quaternion<X> = Rotation3::from_axis_angle(Vector3::unit_x(), t);
            r.extend(diff(qx, qa));
            // 2-D
            let m2 = Matrix2::from_angle(t);
            r.extend(diff(m2 * Vector2::unit_x(), Vector2::new(cs, sn)));
            r.extend(diff(m2 * Vector2::unit_y(), Vector2::new(-sn, cs)));
            let b2: Basis2<X> = Rotation2::from_angle(t);
            r.extend(diff(Matrix2::from(b2), m2));
            // r * invert(r) = one; rotate_point = rotate_vector(p - origin)
            r.extend(diff(Matrix3::from(b3 * b3.invert()), Matrix3::identity()));
            r.extend(diff(Matrix2::from(b2 * b2.invert()), Matrix2::identity()));
            let p = Point3::from_vec(v);
            r.extend(diff(b3.rotate_point(p).to_vec(), b3.rotate_vector(p - Point3::origin())));
            let q: Quaternion<X> = Rotation3::from_axis_angle(ax, t);
            r.extend(diff(q.rotate_point(p).to_vec(), q.rotate_vector(p - Point3::origin())));
            r.extend(diff(q * q.invert(), Quaternion::one()));
            ok(r)
        },
        // ---------------------------------------------------------------- C07 (exact: polynomial in the six sines/cosines)
        "o.euler.product" => |a| {
            let (x, y, z) = (a.rad(), a.rad(), a.rad());
            let e = Euler { x, y, z };
            let want = Matrix3::from_angle_x(x) * Matrix3::from_angle_y(y) * Matrix3::from_angle_z(z);
            let mut r = diff(Matrix3::from(e), want);
            r.extend(diff(Matrix4::from(e), Matrix4::from(want)));
            r.extend(diff(Matrix4::from(e), Matrix4::from_angle_x(x) * Matrix4::from_angle_y(y) * Matrix4::from_angle_z(z)));
            r.extend(diff(Matrix3::from(Basis3::from(e)), want));
            let qx: Quaternion<X> = Rotation3::from_angle_x(x);
            let qy: Quaternion<X> = Rotation3::from_angle_y(y);
            let qz: Quaternion<X> = Rotation3::from_angle_z(z);
            r.extend(diff(Quaternion::from(e), qx * qy * qz));
            r.push(Quaternion::from(e).magnitude2() - X::int(1));
            ok(r)
        },
        // ---------------------------------------------------------------- C09 (exact on rational frames)
        "o.look.rigid" => |a| {
            let (eye, d, up) = (a.p3(), a.v3(), a.v3());
            let sq = |x: X| x.val().exact_sqrt().is_some() && !x.val().is_zero();
            let f0 = d / { if !sq(d.magnitude2()) { return Out::Skip; } d.magnitude() };
            if !sq(f0.cross(up).magnitude2()) { return Out::Skip; }
            let (zero, one) = (X::int(0), X::int(1));
            let up3 = |m: Matrix4<X>| Matrix3::from_cols(m.x.truncate(), m.y.truncate(), m.z.truncate());
            let mut r = vec![];
            for (m, sign) in [(Matrix4::look_to_rh(eye, d, up), -one), (Matrix4::look_to_lh(eye, d, up), one)] {
                let rot = up3(m);
                r.extend(diff(rot.transpose() * rot, Matrix3::identity()));
                r.push(rot.determinant() - one);
                r.extend(vec![m.x.w, m.y.w, m.z.w, m.w.w - one]);
                r.extend(diff(m.transform_point(eye), Point3::new(zero, zero, zero)));
                r.extend(diff(m.transform_vector(d), Vector3::new(zero, zero, sign * d.magnitude())));
                let tu = m.transform_vector(up);
                r.push(tu.x);
                r.push(if tu.y.val().neg { one } else { zero });
            }
            // agreement of all entry points of one handedness
            let center = eye + d;
            let (m3l, m3r) = (Matrix3::look_to_lh(d, up), Matrix3::look_to_rh(d, up));
            let (lh, rh) = (Matrix4::look_to_lh(eye, d, up), Matrix4::look_to_rh(eye, d, up));
            r.extend(diff(up3(lh), m3l));
            r.extend(diff(up3(rh), m3r));
            r.extend(diff(Matrix4::look_at_rh(eye, center, up), rh));
            r.extend(diff(Matrix4::look_at_lh(eye, center, up), lh));
            r.extend(diff(<Matrix4<X> as Transform<Point3<X>>>::look_at_rh(eye, center, up), rh));
            r.extend(diff(<Matrix4<X> as Transform<Point3<X>>>::look_at_lh(eye, center, up), lh));
            r.extend(diff(<Matrix3<X> as Transform<Point3<X>>>::look_at_rh(eye, center, up), m3r));
            r.extend(diff(<Matrix3<X> as Transform<Point3<X>>>::look_at_lh(eye, center, up), m3l));
            let b: Basis3<X> = Rotation::look_at(d, up);
            r.extend(diff(Matrix3::from(b), m3l));
            let q: Quaternion<X> = Rotation::look_at(d, up);
            // the quaternion is the conversion of the left-handed matrix: same rotation
            r.extend(diff(Matrix3::from(q), m3l));
            let p = Point3::new(one, X::int(2), X::int(-3));
            let db: Decomposed<Vector3<X>, Basis3<X>> = Transform::look_at_lh(eye, center, up);
            let dbr: Decomposed<Vector3<X>, Basis3<X>> = Transform::look_at_rh(eye, center, up);
            r.extend(diff(db.transform_point(p), lh.transform_point(p)));
            r.extend(diff(dbr.transform_point(p), rh.transform_point(p)));
            let dq: Decomposed<Vector3<X>, Quaternion<X>> = Transform::look_at_rh(eye, center, up);
            r.extend(diff(dq.transform_point(p), rh.transform_point(p)));
            r.extend(diff(db.transform_point(eye), Point3::new(zero, zero, zero)));
            ok(r)
        },
        "o.look.2d" => |a| {
            let (d, up) = (a.v2(), a.v2());
            if d.magnitude2().val().exact_sqrt().is_none() || is0(&[d.magnitude2()]) { return Out::Skip; }
            let m = Matrix2::look_at(d, up);
            let (zero, one) = (X::int(0), X::int(1));
            let mut r = diff(m.x, d / d.magnitude());
            r.push(m.x.dot(m.y));
            r.push(m.y.magnitude2() - one);
            r.push(if m.y.dot(up).val().neg { one } else { zero });
            let b: Basis2<X> = Rotation::look_at(d, up);
            r.extend(diff(Matrix2::from(b), m));
            ok(r)
        },
        // ---------------------------------------------------------------- C14 (exact parts)
        "o.lerp" => |a| {
            let (u, v, p, q, t) = (a.v4(), a.v4(), a.q(), a.q(), a.x());
            let (zero, one) = (X::int(0), X::int(1));
            let mut r = diff(u.lerp(v, t), u + (v - u) * t);
            r.extend(diff(u.lerp(v, zero), u));
            r.extend(diff(u.lerp(v, one), v));
            r.extend(diff(u.truncate().lerp(v.truncate(), t), (u + (v - u) * t).truncate()));
            r.extend(diff(p.lerp(q, t), p + (q - p) * t));
            r.extend(diff(p.lerp(q, zero), p));
            r.extend(diff(p.lerp(q, one), q));
            ok(r)
        },
        "o.nlerp.exact" => |a| {
            // unit a, b and t such that the interpolant has rational length
            let (p, q, t) = (a.q(), a.q(), a.x());
            let one = X::int(1);
            if !is0(&[p.magnitude2() - one, q.magnitude2() - one]) { return Out::Skip; }
            let qq = if p.dot(q).val().neg { -q } else { q };
            let c = p * (one - t) + qq * t;
            if c.magnitude2().val().exact_sqrt().is_none() || is0(&[c.magnitude2()]) { return Out::Skip; }
            let n = p.nlerp(q, t);
            let mut r = vec![n.magnitude2() - one];
            r.extend(diff(n, c / c.magnitude()));
            r.extend(diff(p.nlerp(q, X::int(0)), p));
            r.extend(diff(p.nlerp(q, one), qq));
            // near-parallel inputs make slerp hand over to nlerp
            if p.dot(qq).val().cmp(&crate::big::Rat::from_f64(0.9995).unwrap()) == std::cmp::Ordering::Greater {
                r.extend(diff(p.slerp(q, t), n));
            }
            ok(r)
        },
        // ---------------------------------------------------------------- C15 (exactly decidable special cases)
        "o.arc.special" => |a| {
            let u = a.v3();
            let one = X::int(1);
            if !is0(&[u.magnitude2() - one]) { return Out::Skip; }
            let q1: Quaternion<X> = Rotation::between_vectors(u, u);
            let mut r = diff(q1, Quaternion::one());
            r.extend(diff(Quaternion::from_arc(u, u, None), Quaternion::one()));
            r.extend(diff(Quaternion::from_arc(u * X::int(3), u * X::int(7), None), Quaternion::one()));
            let b: Basis3<X> = Rotation::between_vectors(u, u);
            r.extend(diff(Matrix3::from(b), Matrix3::identity()));
            // exactly opposite: half turn about an axis perpendicular to u (needs |u x e| rational)
            let mut o = u.cross(Vector3::unit_x());
            if is0(&[o.magnitude2()]) { o = u.cross(Vector3::unit_y()); }
            if o.magnitude2().val().exact_sqrt().is_some() {
                let q: Quaternion<X> = Rotation::between_vectors(u, -u);
                r.push(q.s);
                r.push(q.magnitude2() - one);
                r.extend(diff(q * u, -u));
                r.push(q.v.dot(u));
                // the same half turn through the Basis3 entry point
                let bo: Basis3<X> = Rotation::between_vectors(u, -u);
                r.extend(diff(bo.rotate_vector(u), -u));
                r.extend(diff(Matrix3::from(bo), Matrix3::from(q)));
            }
            // (from_arc on opposite vectors goes through from_axis_angle(axis, half turn), i.e. through sin/cos, which the exact
            // run only interprets: that clause is evaluated natively, `c15.from_arc_opposite_axis_aligned`)
            ok(r)
        },
        // ---------------------------------------------------------------- C10
        "o.proj.ortho" => |a| {
            let v: Vec<X> = (0..6).map(|_| a.x()).collect();
            let (l, r, b, t, n, f) = (v[0], v[1], v[2], v[3], v[4], v[5]);
            if is0(&[r - l]) || is0(&[t - b]) || is0(&[f - n]) { return Out::Skip; }
            let m = ortho(l, r, b, t, n, f);
            let one = X::int(1);
            let mut o = diff(m.transform_point(Point3::new(l, b, -n)), Point3::new(-one, -one, -one));
            o.extend(diff(m.transform_point(Point3::new(r, t, -f)), Point3::new(one, one, one)));
            // affine: midpoint goes to the centre
            let two = X::int(2);
            o.extend(diff(m.transform_point(Point3::new((l + r) / two, (b + t) / two, -(n + f) / two)), Point3::new(X::int(0), X::int(0), X::int(0))));
            o.extend(diff(Matrix4::from(Ortho { left: l, right: r, bottom: b, top: t, near: n, far: f }), m));
            ok(o)
        },
        "o.proj.frustum" => |a| {
            let v: Vec<X> = (0..6).map(|_| a.x()).collect();
            let (l, r, b, t, n, f) = (v[0], v[1], v[2], v[3], v[4], v[5]);
            if is0(&[r - l]) || is0(&[t - b]) || is0(&[f - n]) || is0(&[n]) || is0(&[f]) { return Out::Skip; }
            let m = frustum(l, r, b, t, n, f);
            let one = X::int(1);
            let k = f / n;
            let mut o = diff(m.transform_point(Point3::new(l, b, -n)), Point3::new(-one, -one, -one));
            o.extend(diff(m.transform_point(Point3::new(r, t, -n)), Point3::new(one, one, -one)));
            o.extend(diff(m.transform_point(Point3::new(l * k, b * k, -f)), Point3::new(-one, -one, one)));
            o.extend(diff(m.transform_point(Point3::new(r * k, t * k, -f)), Point3::new(one, one, one)));
            // w = -z
            let p = Point3::new(l + one, b - one, -n - one);
            o.push((m * p.to_homogeneous()).w + p.z);
            ok(o)
        },
        "o.proj.perspective" => |a| {
            let (fovy, aspect, near, far) = (a.rad(), a.x(), a.x(), a.x());
            let pf = PerspectiveFov { fovy, aspect, near, far };
            let m = perspective(fovy, aspect, near, far);
            let p = pf.to_perspective();
            let two = X::int(2);
            let ymax = near * Rad::tan(fovy / two);
            // under the oracle interpretation tan(fovy/2) may come out negative; the real tan is
            // positive on (0, pi/2), which is the clause's hypothesis
            if p.left.val().cmp(&p.right.val()) == std::cmp::Ordering::Greater
                || p.bottom.val().cmp(&p.top.val()) == std::cmp::Ordering::Greater { return Out::Skip; }
            let mut o = vec![p.top - ymax, p.bottom + ymax, p.right - ymax * aspect, p.left + ymax * aspect, p.near - near, p.far - far];
            // a reversed depth range (far < near) is legal for perspective() but rejected by the frustum
            // constructor, so the comparison with the frustum matrix is made only for near <= far ...
            if near.val().cmp(&far.val()) != std::cmp::Ordering::Greater {
                o.extend(diff(Matrix4::from(p), m));
            }
            o.extend(diff(Matrix4::from(pf), m));
            // ... and the clause itself is checked directly in either order: the symmetric window's corners on the
            // near plane go to the corners of the z = -1 face, the similar far-plane rectangle to z = +1
            let one = X::int(1);
            let a_ = m.transform_point(Point3::new(ymax * aspect, ymax, -near));
            let b_ = m.transform_point(Point3::new(-(ymax * aspect), -ymax, -near));
            let c_ = m.transform_point(Point3::new(ymax * aspect * far / near, ymax * far / near, -far));
            o.extend([a_.x - one, a_.y - one, a_.z + one, b_.x + one, b_.y + one, b_.z + one, c_.x - one, c_.y - one, c_.z - one]);
            ok(o)
        },
        "o.proj.planar" => |a| {
            let (fovy, aspect, h, near, far) = (a.rad(), a.x(), a.x(), a.x(), a.x());
            // validity of the focal-point precondition depends on tan(fovy/2), which is
            // oracle-interpreted here: a rejected tuple is outside the clause's hypothesis
            let m = match std::panic::catch_unwind(std::panic::AssertUnwindSafe(|| planar(fovy, aspect, h, near, far))) {
                Ok(m) => m,
                Err(_) => return Out::Skip,
            };
            let (one, two, z) = (X::int(1), X::int(2), X::int(0));
            let t = m.transform_point(Point3::new(aspect * h / two, h / two, z));
            let u = m.transform_point(Point3::new(-(aspect * h / two), -(h / two), z));
            let mut o = vec![t.x - one, t.y - one, u.x + one, u.y + one];
            o.push(m.transform_point(Point3::new(one, two, -near)).z + one);
            o.push(m.transform_point(Point3::new(one, two, -far)).z - one);
            // focal point: w = 0 at z = (h/2) cot(fovy/2)
            let zf = h / two * Rad::cot(fovy / two);
            o.push((m * Point3::new(one, two, zf).to_homogeneous()).w);
            o.extend(diff(Matrix4::from(PlanarFov { fovy, aspect, height: h, near, far }), m));
            ok(o)
        },
        // planar rejects exactly when the focal point -(h/2)cot(fovy/2) lies between the planes,
        // whichever of near / far is the smaller (the other preconditions hold for the inputs used)
        "o.proj.planar_focal" => |a| {
            let (fovy, aspect, h, near, far) = (a.rad(), a.x(), a.x(), a.x(), a.x());
            let two = X::int(2);
            let t = Rad::tan(fovy / two);
            if t.val().is_zero() || h.val().is_zero() || near.val() == far.val() { return Out::Skip; }
            let focal = -(X::int(1) / (t * two / h));
            let (lo, hi) = if near.val().cmp(&far.val()) == std::cmp::Ordering::Less { (near, far) } else { (far, near) };
            let between = focal.val().cmp(&lo.val()) != std::cmp::Ordering::Less && focal.val().cmp(&hi.val()) != std::cmp::Ordering::Greater;
            let panicked = std::panic::catch_unwind(std::panic::AssertUnwindSafe(|| planar(fovy, aspect, h, near, far))).is_err();
            Out::Ok(vec![Val::B(panicked == between)])
        },
        // Matrix3 as a 2-D transform (affine: two columns + translation)
        "o.m3.transform2" => |a| {
            let aff = |a: &mut Args| {
                let (c0, c1, t) = (a.v2(), a.v2(), a.v2());
                Matrix3::from_cols(c0.extend(X::int(0)), c1.extend(X::int(0)), t.extend(X::int(1)))
            };
            let (m, n, p, v) = (aff(a), aff(a), a.p2(), a.v2());
            type T3 = Matrix3<X>;
            let tp = |m: &T3, p| <T3 as Transform<Point2<X>>>::transform_point(m, p);
            let tv = |m: &T3, v| <T3 as Transform<Point2<X>>>::transform_vector(m, v);
            let c = <T3 as Transform<Point2<X>>>::concat(&m, &n);
            let mut cs = m;
            <T3 as Transform<Point2<X>>>::concat_self(&mut cs, &n);
            let mut r = diff(tp(&c, p), tp(&m, tp(&n, p)));
            r.extend(diff(tv(&c, v), tv(&m, tv(&n, v))));
            r.extend(diff(c, m * n));
            r.extend(diff(cs, m * n));
            let one: T3 = One::one();
            r.extend(diff(tp(&one, p), p));
            r.extend(diff(tv(&one, v), v));
            // vectors are not displaced
            r.extend(diff(tv(&Matrix3::from_translation(v), v), v));
            match (<T3 as Transform<Point2<X>>>::inverse_transform(&m), m.invert()) {
                (Some(i), Some(j)) => {
                    r.extend(diff(i, j));
                    r.extend(diff(tp(&i, tp(&m, p)), p));
                    r.extend(diff(tv(&i, tv(&m, v)), v));
                    match <T3 as Transform<Point2<X>>>::inverse_transform_vector(&m, v) { Some(w) => r.extend(diff(w, tv(&i, v))), None => r.push(X::int(1)) }
                }
                (None, None) => r.push(m.determinant()),
                _ => r.push(X::int(1)),
            }
            ok(r)
        },
        // ---------------------------------------------------------------- C01 constructors
        "o.m4.constructors" => |a| {
            let (t, p, v, s, x, y, z) = (a.v3(), a.p3(), a.v3(), a.x(), a.x(), a.x(), a.x());
            let mut r = diff(Matrix4::from_translation(t).transform_point(p), p + t);
            r.extend(diff(Matrix4::from_translation(t).transform_vector(v), v));
            r.extend(diff(Matrix4::from_scale(s).transform_point(p), p * s));
            r.extend(diff(Matrix4::from_scale(s).transform_vector(v), v * s));
            r.extend(diff(Matrix4::from_nonuniform_scale(x, y, z).transform_point(p), Point3::new(p.x * x, p.y * y, p.z * z)));
            r.extend(diff(Matrix4::from_nonuniform_scale(x, y, z).transform_vector(v), Vector3::new(v.x * x, v.y * y, v.z * z)));
            // the constructors' actions compose under the matrix product, and a scale matrix keeps the homogeneous weight
            r.extend(diff((Matrix4::from_translation(t) * Matrix4::from_scale(s)).transform_point(p), p * s + t));
            r.extend(diff((Matrix4::from_scale(s) * Matrix4::from_translation(t)).transform_point(p), (p + t) * s));
            r.extend(diff(Matrix4::from_scale(s) * p.to_homogeneous(), (p.to_vec() * s).extend(X::int(1))));
            ok(r)
        },
        "o.m3.constructors" => |a| {
            let (t, p, v, s, x, y) = (a.v2(), a.p2(), a.v2(), a.x(), a.x(), a.x());
            type T = Matrix3<X>;
            let tp = |m: T, p: Point2<X>| <T as Transform<Point2<X>>>::transform_point(&m, p);
            let tv = |m: T, v: Vector2<X>| <T as Transform<Point2<X>>>::transform_vector(&m, v);
            let mut r = diff(tp(Matrix3::from_translation(t), p), p + t);
            r.extend(diff(tv(Matrix3::from_translation(t), v), v));
            r.extend(diff(tp(Matrix3::from_scale(s), p), p * s));
            r.extend(diff(tv(Matrix3::from_scale(s), v), v * s));
            r.extend(diff(tp(Matrix3::from_nonuniform_scale(x, y), p), Point2::new(p.x * x, p.y * y)));
            r.extend(diff(tv(Matrix3::from_nonuniform_scale(x, y), v), Vector2::new(v.x * x, v.y * y)));
            // the constructors' actions compose under the matrix product: scale then displace, displace then scale
            r.extend(diff(tp(Matrix3::from_translation(t) * Matrix3::from_scale(s), p), p * s + t));
            r.extend(diff(tp(Matrix3::from_scale(s) * Matrix3::from_translation(t), p), (p + t) * s));
            r.extend(diff(tp(Matrix3::from_translation(t) * Matrix3::from_nonuniform_scale(x, y), p), Point2::new(p.x * x, p.y * y) + t));
            // ... and a scale matrix is homogeneous-weight preserving: it maps (p, 1) to (s p, 1)
            r.extend(diff(Matrix3::from_scale(s) * p.to_vec().extend(X::int(1)), (p.to_vec() * s).extend(X::int(1))));
            ok(r)
        },
        // C01: the action of a matrix used as a transform is the matrix-vector product with homogeneous weight 0 (vectors) / 1 (points)
        "o.m.action" => |a| {
            let (m4, m3, p3, v3, p2, v2) = (a.m4(), a.m3(), a.p3(), a.v3(), a.p2(), a.v2());
            type T3 = Matrix3<X>;
            let mut r = diff(m4.transform_vector(v3), (m4 * v3.extend(X::int(0))).truncate());
            r.extend(diff(m4.transform_point(p3), Point3::from_homogeneous(m4 * p3.to_homogeneous())));
            r.extend(diff(<T3 as Transform<Point2<X>>>::transform_vector(&m3, v2), (m3 * v2.extend(X::int(0))).truncate()));
            r.extend(diff(<T3 as Transform<Point2<X>>>::transform_point(&m3, p2).to_vec(), (m3 * p2.to_vec().extend(X::int(1))).truncate()));
            r.extend(diff(<T3 as Transform<Point3<X>>>::transform_vector(&m3, v3), m3 * v3));
            r.extend(diff(<T3 as Transform<Point3<X>>>::transform_point(&m3, p3).to_vec(), m3 * p3.to_vec()));
            // sum over c of column c scaled by v[c]
            r.extend(diff(m3 * v3, m3.x * v3.x + m3.y * v3.y + m3.z * v3.z));
            // combining two matrix transforms is the matrix product (column c of the result = A * column c of B), whatever
            // the bottom row of either is
            let two = X::int(2);
            r.extend(diff(<Matrix4<X> as Transform<Point3<X>>>::concat(&m4, &m4), m4 * m4));
            r.extend(diff(<Matrix4<X> as Transform<Point3<X>>>::concat(&m4, &(m4 * two)), m4 * (m4 * two)));
            r.extend(diff(<Matrix4<X> as Transform<Point3<X>>>::concat(&m4.transpose(), &m4), m4.transpose() * m4));
            r.extend(diff(<T3 as Transform<Point2<X>>>::concat(&m3, &(m3 * two)), m3 * (m3 * two)));
            r.extend(diff(<T3 as Transform<Point3<X>>>::concat(&m3, &m3.transpose()), m3 * m3.transpose()));
            // ... and through the in-place form of every impl
            let mut c4 = m4; <Matrix4<X> as Transform<Point3<X>>>::concat_self(&mut c4, &(m4 * two));
            r.extend(diff(c4, m4 * (m4 * two)));
            let mut c3 = m3; <T3 as Transform<Point3<X>>>::concat_self(&mut c3, &m3.transpose());
            r.extend(diff(c3, m3 * m3.transpose()));
            let mut c2 = m3; <T3 as Transform<Point2<X>>>::concat_self(&mut c2, &(m3 * two));
            r.extend(diff(c2, m3 * (m3 * two)));
            ok(r)
        },
        // C02 / C08: inverse_transform() of a matrix used as a transform is invert(), for every matrix (not only affine ones)
        "o.m4.inverse_transform" => |a| {
            let (m, p, v) = (a.m4(), a.p3(), a.v3());
            let mut r = vec![];
            match (m.inverse_transform(), m.invert()) {
                (Some(i), Some(j)) => {
                    r.extend(diff(i, j));
                    r.extend(diff(i * m, Matrix4::identity()));
                    r.extend(diff(m * i, Matrix4::identity()));
                    if is0(&[m.determinant()]) { r.push(X::int(1)); }
                    match m.inverse_transform_vector(v) { Some(w) => r.extend(diff(w, j.transform_vector(v))), None => r.push(X::int(1)) }
                    let _ = p;
                }
                (None, None) => { r.push(m.determinant()); if m.inverse_transform_vector(v).is_some() { r.push(X::int(1)); } }
                _ => r.push(X::int(1)),
            }
            ok(r)
        },
        "o.m3.inverse_transform" => |a| {
            let (m, v) = (a.m3(), a.v3());
            type T3 = Matrix3<X>;
            let mut r = vec![];
            let i3 = <T3 as Transform<Point3<X>>>::inverse_transform(&m);
            let i2 = <T3 as Transform<Point2<X>>>::inverse_transform(&m);
            match (i3, i2, m.invert()) {
                (Some(i), Some(k), Some(j)) => {
                    r.extend(diff(i, j));
                    r.extend(diff(k, j));
                    r.extend(diff(i * m, Matrix3::identity()));
                    r.extend(diff(m * i, Matrix3::identity()));
                    if is0(&[m.determinant()]) { r.push(X::int(1)); }
                    match <T3 as Transform<Point3<X>>>::inverse_transform_vector(&m, v) { Some(w) => r.extend(diff(w, j * v)), None => r.push(X::int(1)) }
                }
                (None, None, None) => r.push(m.determinant()),
                _ => r.push(X::int(1)),
            }
            ok(r)
        },
        "o.m.embed" => |a| {
            let (m2, n2, m3, n3) = (a.m2(), a.m2(), a.m3(), a.m3());
            let e23 = Matrix3::from(m2);
            let e24 = Matrix4::from(m2);
            let e34 = Matrix4::from(m3);
            let mut r = vec![];
            for c in 0..4 { for rr in 0..4 {
                let id = if c == rr { X::int(1) } else { X::int(0) };
                if c < 3 && rr < 3 { r.push(e23[c][rr] - if c < 2 && rr < 2 { m2[c][rr] } else { id }); }
                r.push(e24[c][rr] - if c < 2 && rr < 2 { m2[c][rr] } else { id });
                r.push(e34[c][rr] - if c < 3 && rr < 3 { m3[c][rr] } else { id });
            }}
            r.extend(diff(Matrix3::from(m2 * n2), e23 * Matrix3::from(n2)));
            r.extend(diff(Matrix4::from(m3 * n3), e34 * Matrix4::from(n3)));
            ok(r)
        },
        "o.p3.homogeneous" => |a| {
            let (p, k) = (a.p3(), a.x());
            if is0(&[k]) { return Out::Skip; }
            ok(diff(Point3::from_homogeneous(p.to_homogeneous() * k), p))
        },
        // ---------------------------------------------------------------- C03
        "o.v3.lagrange" => |a| {
            let (u, v) = (a.v3(), a.v3());
            let d = u.dot(v);
            ok(u.cross(v).magnitude2() - (u.magnitude2() * v.magnitude2() - d * d))
        },
        "o.v3.cross_cross" => |a| {
            let (u, v, w) = (a.v3(), a.v3(), a.v3());
            ok(d3(u.cross(v.cross(w)), v * u.dot(w) - w * u.dot(v)))
        },
        "o.v3.cross_orth" => |a| {
            let (u, v) = (a.v3(), a.v3());
            let c = u.cross(v);
            let mut r = vec![u.dot(c), v.dot(c)];
            r.extend(d3(c, -v.cross(u)));
            ok(r)
        },
        "o.v.dot_bilinear" => |a| {
            let (p, q, r, s, t) = (a.v4(), a.v4(), a.v4(), a.x(), a.x());
            ok(vec![
                (p * s + q * t).dot(r) - (s * p.dot(r) + t * q.dot(r)),
                p.dot(q) - q.dot(p),
                p.magnitude2() - p.dot(p),
                (p + Vector4::zero()).dot(q) - p.dot(q),
                p.sum() - (p.x + p.y + p.z + p.w),
                p.product() - (p.x * p.y * p.z * p.w),
                p.truncate().perp_dot_like(q.truncate()),
            ])
        },
        _ => return None,
    })
}

/// C13 modular clauses for one unit, exact rationals
fn angle_modular<A: Angle<Unitless = X> + Copy>(x: A, y: A, num: fn(A) -> X) -> Out {
    use std::cmp::Ordering::*;
    let t = num(A::full_turn());
    let zero = X::int(0);
    let two = X::int(2);
    let is_int = |q: X| q.val().den.is_one();
    let cmp = |p: X, q: X| p.val().cmp(&q.val());
    let n = num(x.normalize());
    let s = num(x.normalize_signed());
    let mut r = vec![
        cmp(n, zero) != Less && cmp(n, t) == Less,                      // normalize in [0, T)
        is_int((num(x) - n) / t),                                        // differs by whole turns
        cmp(s, -(t / two)) == Greater && cmp(s, t / two) != Greater,     // normalize_signed in (-T/2, T/2]
        is_int((num(x) - s) / t),
        cmp(num(x.opposite()), num((x + A::turn_div_2()).normalize())) == Equal,
    ];
    // bisect: equal signed distance to both, at most a quarter turn from each, result normalised
    let b = x.bisect(y);
    let d1 = num((b - x).normalize_signed());
    let d2 = num((y - b).normalize_signed());
    let ad = if d1.val().neg { -d1 } else { d1 };
    r.push(cmp(d1, d2) == Equal);
    r.push(cmp(ad, t / X::int(4)) != Greater);
    r.push(cmp(num(b), zero) != Less && cmp(num(b), t) == Less);
    // turn_div_k * k = full turn
    r.push(cmp(num(A::turn_div_2()) * two, t) == Equal);
    r.push(cmp(num(A::turn_div_3()) * X::int(3), t) == Equal);
    r.push(cmp(num(A::turn_div_4()) * X::int(4), t) == Equal);
    r.push(cmp(num(A::turn_div_6()) * X::int(6), t) == Equal);
    ok(r)
}

trait PerpLike {
    fn perp_dot_like(self, o: Self) -> X;
}
impl PerpLike for Vector3<X> {
    /// 2-D clause: perp_dot(u,v) = u.x*v.y - u.y*v.x
    fn perp_dot_like(self, o: Self) -> X {
        let (u, v) = (self.truncate(), o.truncate());
        u.perp_dot(v) - (u.x * v.y - u.y * v.x)
    }
}

pub fn names() -> Vec<String> {
    let mut v: Vec<String> = ["o.v3.lagrange", "o.v3.cross_cross", "o.v3.cross_orth", "o.v.dot_bilinear",
        "o.m4.constructors", "o.m3.constructors", "o.m.embed", "o.p3.homogeneous",
        "o.q.algebra", "o.q.invert", "o.q.rotate", "o.q.compose", "o.q.same_rotation", "o.q.roundtrip",
        "o.v1.metric", "o.v2.metric", "o.v3.metric", "o.v4.metric", "o.q.metric", "o.arc.special", "o.lerp", "o.nlerp.exact", "o.look.rigid", "o.look.2d", "o.euler.product", "o.rot.axis_angle", "o.rad.modular", "o.deg.modular", "o.angle.convert", "o.proj.ortho", "o.proj.frustum", "o.proj.perspective", "o.proj.planar", "o.dq.matrix", "o.db2.matrix", "o.m4.transform", "o.m3.transform", "o.m3.transform2", "o.proj.planar_focal", "o.m.action", "o.m4.inverse_transform", "o.m3.inverse_transform",
        "o.dq.laws", "o.dq.inverse", "o.db3.laws", "o.db3.inverse", "o.db2.laws", "o.db2.inverse"]
        .iter()
        .map(|s| s.to_string())
        .collect();
    for t in ["m2", "m3", "m4"] { for o in ["product", "ring", "inverse", "det_laws", "swaps"] { v.push(format!("o.{}.{}", t, o)); } }
    for t in ["p1", "p2", "p3"] { for o in ["affine", "centroid"] { v.push(format!("o.{}.{}", t, o)); } }
    v
}
#[allow(dead_code)]
fn _unused() -> (X, X) {
    (z(), X::one())
}
