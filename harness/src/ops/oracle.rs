//! Oracle clauses: each op evaluates one property clause directly on the
//! implementation's outputs (no reference to the Lean model).  The result must be
//! all zeros / all `T`; `Skip` means the clause's hypothesis does not hold here.
use super::*;
use cgmath::num_traits::{One, Zero};

fn z() -> X {
    X::int(0)
}
fn d3(a: Vector3<X>, b: Vector3<X>) -> Vec<X> {
    vec![a.x - b.x, a.y - b.y, a.z - b.z]
}
#[allow(dead_code)]
fn d4(a: Vector4<X>, b: Vector4<X>) -> Vec<X> {
    vec![a.x - b.x, a.y - b.y, a.z - b.z, a.w - b.w]
}
#[allow(dead_code)]
fn dm<M: Fl>(a: M, b: M) -> Vec<X> {
    let (mut va, mut vb) = (vec![], vec![]);
    a.fl(&mut va);
    b.fl(&mut vb);
    va.iter()
        .zip(vb.iter())
        .map(|(x, y)| match (x, y) {
            (Val::S(x), Val::S(y)) => *x - *y,
            _ => X::int(1),
        })
        .collect()
}

pub fn lookup(name: &str) -> Option<OpFn> {
    Some(match name {
        // ---------------------------------------------------------------- C03
        "o.v3.lagrange" => |a| {
            let (u, v) = (a.v3(), a.v3());
            let d = u.dot(v);
            ok(u.cross(v).magnitude2() - (u.magnitude2() * v.magnitude2() - d * d))
        },
        "o.v3.cross_cross" => |a| {
            let (u, v, w) = (a.v3(), a.v3(), a.v3());
            ok(d3(u.cross(v.cross(w)), v * u.dot(w) - w * u.dot(v)))
        },
        "o.v3.cross_orth" => |a| {
            let (u, v) = (a.v3(), a.v3());
            let c = u.cross(v);
            let mut r = vec![u.dot(c), v.dot(c)];
            r.extend(d3(c, -v.cross(u)));
            ok(r)
        },
        "o.v.dot_bilinear" => |a| {
            let (p, q, r, s, t) = (a.v4(), a.v4(), a.v4(), a.x(), a.x());
            ok(vec![
                (p * s + q * t).dot(r) - (s * p.dot(r) + t * q.dot(r)),
                p.dot(q) - q.dot(p),
                p.magnitude2() - p.dot(p),
                (p + Vector4::zero()).dot(q) - p.dot(q),
                p.sum() - (p.x + p.y + p.z + p.w),
                p.product() - (p.x * p.y * p.z * p.w),
                p.truncate().perp_dot_like(q.truncate()),
            ])
        },
        _ => return None,
    })
}

trait PerpLike {
    fn perp_dot_like(self, o: Self) -> X;
}
impl PerpLike for Vector3<X> {
    /// 2-D clause: perp_dot(u,v) = u.x*v.y - u.y*v.x
    fn perp_dot_like(self, o: Self) -> X {
        let (u, v) = (self.truncate(), o.truncate());
        u.perp_dot(v) - (u.x * v.y - u.y * v.x)
    }
}

pub fn names() -> Vec<String> {
    ["o.v3.lagrange", "o.v3.cross_cross", "o.v3.cross_orth", "o.v.dot_bilinear"]
        .iter()
        .map(|s| s.to_string())
        .collect()
}
#[allow(dead_code)]
fn _unused() -> (X, X) {
    (z(), X::one())
}
