//! C18, further types (signatures: lib/cgv/sigs.py `APPROX_TYPES3`; kernels: lib/cgv/tracetab_ops3.py): the three `approx`
//! relations, explicit tolerances and default-tolerance macro forms (the op names of `extra.rs`), of
//!
//! * `euler`: `Euler<Rad<X>>`, given as its three angles `x y z`;
//! * `dq`: `Decomposed<Vector3<X>, Quaternion<X>>`, given as `scale`, rotation `s x y z`, displacement `x y z`;
//! * `b2`: `Basis2<X>`, given as an angle (radians) and built with `from_angle` (as the `b2.*` ops of `quat.rs`);
//! * `b3`: `Basis3<X>`, given as a quaternion `s x y z` and built with `from_quaternion` (as the `b3.*` ops).
use super::extra::{approx_ops, RdA, APPROX};
use super::*;

impl RdA for Euler<Rad<X>> {
    fn rda(a: &mut Args) -> Self {
        let (x, y, z) = (a.rad(), a.rad(), a.rad());
        Euler { x, y, z }
    }
}
impl RdA for Decomposed<Vector3<X>, Quaternion<X>> {
    fn rda(a: &mut Args) -> Self {
        let scale = a.x();
        let rot = a.q();
        let disp = a.v3();
        Decomposed { scale, rot, disp }
    }
}
impl RdA for Basis2<X> {
    fn rda(a: &mut Args) -> Self {
        let t = a.rad();
        Rotation2::from_angle(t)
    }
}
impl RdA for Basis3<X> {
    fn rda(a: &mut Args) -> Self {
        let q = a.q();
        Basis3::from_quaternion(&q)
    }
}
const TYPES: &[&str] = &["euler", "dq", "b2", "b3"];

pub fn lookup(name: &str) -> Option<OpFn> {
    let (ty, op) = name.split_once('.')?;
    match ty {
        "euler" => approx_ops::<Euler<Rad<X>>>(op),
        "dq" => approx_ops::<Decomposed<Vector3<X>, Quaternion<X>>>(op),
        "b2" => approx_ops::<Basis2<X>>(op),
        "b3" => approx_ops::<Basis3<X>>(op),
        _ => None,
    }
}
pub fn names() -> Vec<String> {
    let mut v = vec![];
    for t in TYPES {
        for g in APPROX {
            v.push(format!("{}.{}", t, g));
        }
    }
    v
}
