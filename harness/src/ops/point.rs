//! Point1..Point3 operations (property C12, parts of C11)
use super::vec::Rd;
use super::*;

impl Rd for Point1<X> {
    fn rd(a: &mut Args) -> Self {
        a.p1()
    }
}
impl Rd for Point2<X> {
    fn rd(a: &mut Args) -> Self {
        a.p2()
    }
}
impl Rd for Point3<X> {
    fn rd(a: &mut Args) -> Self {
        a.p3()
    }
}

fn generic<P>(op: &str) -> Option<OpFn>
where
    P: Rd
        + Fl
        + Copy
        + EuclideanSpace<Scalar = X>
        + MetricSpace<Metric = X>
        + ElementWise
        + ElementWise<X>
        + 'static,
    P::Diff: Rd + Fl + Copy,
{
    Some(match op {
        "add_v" => |a| { let (p, v) = (P::rd(a), P::Diff::rd(a)); ok(p + v) },
        "sub_v" => |a| { let (p, v) = (P::rd(a), P::Diff::rd(a)); ok(p - v) },
        "sub_p" => |a| { let (p, q) = (P::rd(a), P::rd(a)); ok(p - q) },
        "mul" => |a| { let (p, s) = (P::rd(a), a.x()); ok(p * s) },
        "div" => |a| { let (p, s) = (P::rd(a), a.x()); ok(p / s) },
        "rem" => |a| { let (p, s) = (P::rd(a), a.x()); ok(p % s) },
        "add_ew" => |a| { let (u, v) = (P::rd(a), P::rd(a)); ok(u.add_element_wise(v)) },
        "sub_ew" => |a| { let (u, v) = (P::rd(a), P::rd(a)); ok(u.sub_element_wise(v)) },
        "mul_ew" => |a| { let (u, v) = (P::rd(a), P::rd(a)); ok(u.mul_element_wise(v)) },
        "div_ew" => |a| { let (u, v) = (P::rd(a), P::rd(a)); ok(u.div_element_wise(v)) },
        "rem_ew" => |a| { let (u, v) = (P::rd(a), P::rd(a)); ok(u.rem_element_wise(v)) },
        "add_ews" => |a| { let (u, s) = (P::rd(a), a.x()); ok(u.add_element_wise(s)) },
        "sub_ews" => |a| { let (u, s) = (P::rd(a), a.x()); ok(u.sub_element_wise(s)) },
        "mul_ews" => |a| { let (u, s) = (P::rd(a), a.x()); ok(u.mul_element_wise(s)) },
        "div_ews" => |a| { let (u, s) = (P::rd(a), a.x()); ok(u.div_element_wise(s)) },
        "rem_ews" => |a| { let (u, s) = (P::rd(a), a.x()); ok(u.rem_element_wise(s)) },
        "origin" => |_a| ok(P::origin()),
        "from_vec" => |a| { let v = P::Diff::rd(a); ok(P::from_vec(v)) },
        "to_vec" => |a| { let p = P::rd(a); ok(p.to_vec()) },
        "from_value" => |a| { let s = a.x(); ok(P::from_value(s)) },
        "sum" => |a| { let p = P::rd(a); ok(p.sum()) },
        "product" => |a| { let p = P::rd(a); ok(p.product()) },
        "dot" => |a| { let (p, v) = (P::rd(a), P::Diff::rd(a)); ok(p.dot(v)) },
        "distance2" => |a| { let (p, q) = (P::rd(a), P::rd(a)); ok(p.distance2(q)) },
        "distance" => |a| { let (p, q) = (P::rd(a), P::rd(a)); ok(p.distance(q)) },
        "midpoint" => |a| { let (p, q) = (P::rd(a), P::rd(a)); ok(p.midpoint(q)) },
        "centroid" => |a| {
            let mut l = vec![];
            while a.remaining() > 0 { l.push(P::rd(a)); }
            ok(P::centroid(&l))
        },
        "index" => |a| { let (p, i) = (P::rd(a), a.i()); ok(p[i]) },
        _ => return None,
    })
}
const GENERIC: &[&str] = &[
    "add_v", "sub_v", "sub_p", "mul", "div", "rem", "add_ew", "sub_ew", "mul_ew", "div_ew",
    "rem_ew", "add_ews", "sub_ews", "mul_ews", "div_ews", "rem_ews", "origin", "from_vec",
    "to_vec", "from_value", "sum", "product", "dot", "distance2", "distance", "midpoint",
    "centroid", "index",
];

pub fn lookup(name: &str) -> Option<OpFn> {
    match name {
        "p3.to_homogeneous" => return Some(|a| { let p = a.p3(); ok(p.to_homogeneous()) }),
        "p3.from_homogeneous" => return Some(|a| { let v = a.v4(); ok(Point3::from_homogeneous(v)) }),
        _ => {}
    }
    let (ty, op) = name.split_once('.')?;
    match ty {
        "p1" => generic::<Point1<X>>(op),
        "p2" => generic::<Point2<X>>(op),
        "p3" => generic::<Point3<X>>(op),
        _ => None,
    }
}
pub fn names() -> Vec<String> {
    let mut v = vec!["p3.to_homogeneous".to_string(), "p3.from_homogeneous".to_string()];
    for t in ["p1", "p2", "p3"] {
        for g in GENERIC {
            v.push(format!("{}.{}", t, g));
        }
    }
    v
}
