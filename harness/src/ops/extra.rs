//! Operations added for C18 / C16 (kernel table lib/cgv/tracetab_ops.py):
//!
//! * C18: the three `approx` relations of the compound types with the tolerance ARGUMENTS explicit
//!   (`<t>.abs_diff_eq a b eps`, `<t>.relative_eq a b eps max_rel`, `<t>.ulps_eq a b eps #ulps`) and their
//!   default-tolerance macro forms (`<t>.abs_diff_eq_d a b` = `abs_diff_eq!(a, b)`, ...), for
//!   t in v1..v4, p1..p3, m2..m4, q, rad, deg;
//! * C16: `IndexMut<usize>` stores (`<t>.set #i a`, `m<n>.set #c #r a`), `Index<usize>` of a quaternion
//!   (`q.index #i`), `Array::swap_elements` of vectors and points.
use super::*;
use approx::{AbsDiffEq, RelativeEq, UlpsEq};

/// reading one value of a type from the op line
pub trait RdA: Sized {
    fn rda(a: &mut Args) -> Self;
}
macro_rules! rda {
    ($($t:ty => $m:ident),* $(,)?) => { $(impl RdA for $t { fn rda(a: &mut Args) -> Self { a.$m() } })* };
}
rda! {
    Vector1<X> => v1, Vector2<X> => v2, Vector3<X> => v3, Vector4<X> => v4,
    Point1<X> => p1, Point2<X> => p2, Point3<X> => p3,
    Matrix2<X> => m2, Matrix3<X> => m3, Matrix4<X> => m4,
    Quaternion<X> => q, Rad<X> => rad, Deg<X> => deg,
}

pub fn approx_ops<T>(op: &str) -> Option<OpFn>
where
    T: RdA + AbsDiffEq<Epsilon = X> + RelativeEq + UlpsEq + std::fmt::Debug + 'static,
{
    Some(match op {
        "abs_diff_eq" => |a| { let (u, v, e) = (T::rda(a), T::rda(a), a.x()); ok(u.abs_diff_eq(&v, e)) },
        "relative_eq" => |a| { let (u, v, e, m) = (T::rda(a), T::rda(a), a.x(), a.x()); ok(u.relative_eq(&v, e, m)) },
        "ulps_eq" => |a| { let (u, v, e, n) = (T::rda(a), T::rda(a), a.x(), a.i()); ok(u.ulps_eq(&v, e, n as u32)) },
        // the macro forms: the TYPE's default tolerances
        "abs_diff_eq_d" => |a| { let (u, v) = (T::rda(a), T::rda(a)); ok(approx::abs_diff_eq!(u, v)) },
        "relative_eq_d" => |a| { let (u, v) = (T::rda(a), T::rda(a)); ok(approx::relative_eq!(u, v)) },
        "ulps_eq_d" => |a| { let (u, v) = (T::rda(a), T::rda(a)); ok(approx::ulps_eq!(u, v)) },
        _ => return None,
    })
}
pub const APPROX: &[&str] = &["abs_diff_eq", "relative_eq", "ulps_eq", "abs_diff_eq_d", "relative_eq_d", "ulps_eq_d"];
const APPROX_TYPES: &[&str] = &["v1", "v2", "v3", "v4", "p1", "p2", "p3", "m2", "m3", "m4", "q", "rad", "deg"];

/// `IndexMut<usize>` store and `Array::swap_elements` of vectors and points
fn array_ops<T>(op: &str) -> Option<OpFn>
where
    T: RdA + Fl + Array<Element = X> + std::ops::IndexMut<usize, Output = X> + 'static,
{
    Some(match op {
        "set" => |a| { let (mut u, s, i) = (T::rda(a), a.x(), a.i()); u[i] = s; ok(u) },
        "swap_elements" => |a| { let (mut u, i, j) = (T::rda(a), a.i(), a.i()); u.swap_elements(i, j); ok(u) },
        _ => return None,
    })
}
const ARRAY: &[&str] = &["set", "swap_elements"];
const ARRAY_TYPES: &[&str] = &["v1", "v2", "v3", "v4", "p1", "p2", "p3"];

fn special(name: &str) -> Option<OpFn> {
    Some(match name {
        "q.index" => |a| { let (q, i) = (a.q(), a.i()); ok(q[i]) },
        "q.set" => |a| { let (mut q, s, i) = (a.q(), a.x(), a.i()); q[i] = s; ok(q) },
        "m2.set" => |a| { let (mut m, s, c, r) = (a.m2(), a.x(), a.i(), a.i()); m[c][r] = s; ok(m) },
        "m3.set" => |a| { let (mut m, s, c, r) = (a.m3(), a.x(), a.i(), a.i()); m[c][r] = s; ok(m) },
        "m4.set" => |a| { let (mut m, s, c, r) = (a.m4(), a.x(), a.i(), a.i()); m[c][r] = s; ok(m) },
        _ => return None,
    })
}
const SPECIAL: &[&str] = &["q.index", "q.set", "m2.set", "m3.set", "m4.set"];

pub fn lookup(name: &str) -> Option<OpFn> {
    if let Some(f) = special(name) {
        return Some(f);
    }
    let (ty, op) = name.split_once('.')?;
    let ap = match ty {
        "v1" => approx_ops::<Vector1<X>>(op),
        "v2" => approx_ops::<Vector2<X>>(op),
        "v3" => approx_ops::<Vector3<X>>(op),
        "v4" => approx_ops::<Vector4<X>>(op),
        "p1" => approx_ops::<Point1<X>>(op),
        "p2" => approx_ops::<Point2<X>>(op),
        "p3" => approx_ops::<Point3<X>>(op),
        "m2" => approx_ops::<Matrix2<X>>(op),
        "m3" => approx_ops::<Matrix3<X>>(op),
        "m4" => approx_ops::<Matrix4<X>>(op),
        "q" => approx_ops::<Quaternion<X>>(op),
        "rad" => approx_ops::<Rad<X>>(op),
        "deg" => approx_ops::<Deg<X>>(op),
        _ => None,
    };
    if ap.is_some() {
        return ap;
    }
    match ty {
        "v1" => array_ops::<Vector1<X>>(op),
        "v2" => array_ops::<Vector2<X>>(op),
        "v3" => array_ops::<Vector3<X>>(op),
        "v4" => array_ops::<Vector4<X>>(op),
        "p1" => array_ops::<Point1<X>>(op),
        "p2" => array_ops::<Point2<X>>(op),
        "p3" => array_ops::<Point3<X>>(op),
        _ => None,
    }
}
pub fn names() -> Vec<String> {
    let mut v: Vec<String> = SPECIAL.iter().map(|s| s.to_string()).collect();
    for t in APPROX_TYPES {
        for g in APPROX {
            v.push(format!("{}.{}", t, g));
        }
    }
    for t in ARRAY_TYPES {
        for g in ARRAY {
            v.push(format!("{}.{}", t, g));
        }
    }
    v
}
