//! Operation table: one named entry per modelled function.  Each entry reads
//! its arguments from the op line, calls the *real* cgmath code at the exact
//! scalar `X`, and flattens the result.

use crate::scalar::X;
use cgmath::*;

pub mod extra;
pub mod extra2;
pub mod extra3;
pub mod mat;
pub mod oracle;
pub mod point;
pub mod quat;
pub mod vec;
pub mod xform;

pub enum Val {
    S(X),
    B(bool),
}
pub enum Out {
    Ok(Vec<Val>),
    None,
    Skip,
    BadArgs,
}

pub struct Args {
    pub xs: Vec<X>,
    pub is: Vec<usize>,
    pub px: usize,
    pub pi: usize,
    pub bad: bool,
}

impl Args {
    pub fn x(&mut self) -> X {
        if self.px < self.xs.len() {
            self.px += 1;
            self.xs[self.px - 1]
        } else {
            self.bad = true;
            X::int(0)
        }
    }
    pub fn i(&mut self) -> usize {
        if self.pi < self.is.len() {
            self.pi += 1;
            self.is[self.pi - 1]
        } else {
            self.bad = true;
            0
        }
    }
    pub fn remaining(&self) -> usize {
        self.xs.len() - self.px
    }
    pub fn v1(&mut self) -> Vector1<X> {
        Vector1::new(self.x())
    }
    pub fn v2(&mut self) -> Vector2<X> {
        let (a, b) = (self.x(), self.x());
        Vector2::new(a, b)
    }
    pub fn v3(&mut self) -> Vector3<X> {
        let (a, b, c) = (self.x(), self.x(), self.x());
        Vector3::new(a, b, c)
    }
    pub fn v4(&mut self) -> Vector4<X> {
        let (a, b, c, d) = (self.x(), self.x(), self.x(), self.x());
        Vector4::new(a, b, c, d)
    }
    pub fn p1(&mut self) -> Point1<X> {
        Point1::new(self.x())
    }
    pub fn p2(&mut self) -> Point2<X> {
        let (a, b) = (self.x(), self.x());
        Point2::new(a, b)
    }
    pub fn p3(&mut self) -> Point3<X> {
        let (a, b, c) = (self.x(), self.x(), self.x());
        Point3::new(a, b, c)
    }
    pub fn m2(&mut self) -> Matrix2<X> {
        let (a, b) = (self.v2(), self.v2());
        Matrix2::from_cols(a, b)
    }
    pub fn m3(&mut self) -> Matrix3<X> {
        let (a, b, c) = (self.v3(), self.v3(), self.v3());
        Matrix3::from_cols(a, b, c)
    }
    pub fn m4(&mut self) -> Matrix4<X> {
        let (a, b, c, d) = (self.v4(), self.v4(), self.v4(), self.v4());
        Matrix4::from_cols(a, b, c, d)
    }
    /// quaternion given as `s x y z`
    pub fn q(&mut self) -> Quaternion<X> {
        let (s, x, y, z) = (self.x(), self.x(), self.x(), self.x());
        Quaternion::from_sv(s, Vector3::new(x, y, z))
    }
    pub fn rad(&mut self) -> Rad<X> {
        Rad(self.x())
    }
    pub fn deg(&mut self) -> Deg<X> {
        Deg(self.x())
    }
}

/// flattening of results, in the order the Lean driver uses
pub trait Fl {
    fn fl(&self, o: &mut Vec<Val>);
}
impl Fl for X {
    fn fl(&self, o: &mut Vec<Val>) {
        o.push(Val::S(*self))
    }
}
impl Fl for bool {
    fn fl(&self, o: &mut Vec<Val>) {
        o.push(Val::B(*self))
    }
}
impl Fl for Vector1<X> {
    fn fl(&self, o: &mut Vec<Val>) {
        self.x.fl(o)
    }
}
impl Fl for Vector2<X> {
    fn fl(&self, o: &mut Vec<Val>) {
        self.x.fl(o);
        self.y.fl(o)
    }
}
impl Fl for Vector3<X> {
    fn fl(&self, o: &mut Vec<Val>) {
        self.x.fl(o);
        self.y.fl(o);
        self.z.fl(o)
    }
}
impl Fl for Vector4<X> {
    fn fl(&self, o: &mut Vec<Val>) {
        self.x.fl(o);
        self.y.fl(o);
        self.z.fl(o);
        self.w.fl(o)
    }
}
impl Fl for Point1<X> {
    fn fl(&self, o: &mut Vec<Val>) {
        self.x.fl(o)
    }
}
impl Fl for Point2<X> {
    fn fl(&self, o: &mut Vec<Val>) {
        self.x.fl(o);
        self.y.fl(o)
    }
}
impl Fl for Point3<X> {
    fn fl(&self, o: &mut Vec<Val>) {
        self.x.fl(o);
        self.y.fl(o);
        self.z.fl(o)
    }
}
impl Fl for Matrix2<X> {
    fn fl(&self, o: &mut Vec<Val>) {
        self.x.fl(o);
        self.y.fl(o)
    }
}
impl Fl for Matrix3<X> {
    fn fl(&self, o: &mut Vec<Val>) {
        self.x.fl(o);
        self.y.fl(o);
        self.z.fl(o)
    }
}
impl Fl for Matrix4<X> {
    fn fl(&self, o: &mut Vec<Val>) {
        self.x.fl(o);
        self.y.fl(o);
        self.z.fl(o);
        self.w.fl(o)
    }
}
/// quaternion flattened as `s x y z`
impl Fl for Quaternion<X> {
    fn fl(&self, o: &mut Vec<Val>) {
        self.s.fl(o);
        self.v.fl(o)
    }
}
impl Fl for Rad<X> {
    fn fl(&self, o: &mut Vec<Val>) {
        self.0.fl(o)
    }
}
impl Fl for Deg<X> {
    fn fl(&self, o: &mut Vec<Val>) {
        self.0.fl(o)
    }
}
impl<A: Fl, B: Fl> Fl for (A, B) {
    fn fl(&self, o: &mut Vec<Val>) {
        self.0.fl(o);
        self.1.fl(o)
    }
}
impl<A: Fl> Fl for Vec<A> {
    fn fl(&self, o: &mut Vec<Val>) {
        for a in self {
            a.fl(o)
        }
    }
}

pub fn ok<T: Fl>(t: T) -> Out {
    let mut v = vec![];
    t.fl(&mut v);
    Out::Ok(v)
}
pub fn opt<T: Fl>(t: Option<T>) -> Out {
    match t {
        Some(t) => ok(t),
        None => Out::None,
    }
}

pub type OpFn = fn(&mut Args) -> Out;

pub fn lookup(name: &str) -> Option<OpFn> {
    vec::lookup(name)
        .or_else(|| point::lookup(name))
        .or_else(|| mat::lookup(name))
        .or_else(|| quat::lookup(name))
        .or_else(|| xform::lookup(name))
        .or_else(|| extra::lookup(name))
        .or_else(|| extra2::lookup(name))
        .or_else(|| extra3::lookup(name))
        .or_else(|| oracle::lookup(name))
}
pub fn all_names() -> Vec<String> {
    let mut v = vec![];
    v.extend(vec::names());
    v.extend(point::names());
    v.extend(mat::names());
    v.extend(quat::NAMES.iter().map(|s| s.to_string()));
    v.extend(xform::names());
    v.extend(extra::names());
    v.extend(extra2::names());
    v.extend(extra3::names());
    v.extend(oracle::names());
    v
}

/// helper to declare op tables: `ops! { "name" => |a| expr, ... }`
#[macro_export]
macro_rules! ops {
    ($($name:expr => |$a:ident| $body:expr),* $(,)?) => {
        pub fn lookup(name: &str) -> Option<$crate::ops::OpFn> {
            match name {
                $($name => Some((|$a: &mut $crate::ops::Args| -> $crate::ops::Out { $body }) as $crate::ops::OpFn),)*
                _ => None,
            }
        }
        pub fn names() -> Vec<&'static str> { vec![$($name),*] }
    };
}
