//! C16: layout, indexing, conversions and swizzles preserve every component in order.
//! Element types: `i32`, `f64` and a non-numeric `Copy` type.

use crate::native::Tally;
use cgmath::*;
use std::panic::{catch_unwind, AssertUnwindSafe};

pub trait Ls<T> {
    fn ls(&self) -> Vec<T>;
}
macro_rules! ls_fields {
    ($T:ident { $($f:ident),+ }) => { impl<S: Copy> Ls<S> for $T<S> { fn ls(&self) -> Vec<S> { vec![$(self.$f),+] } } };
}
ls_fields!(Vector1 { x });
ls_fields!(Vector2 { x, y });
ls_fields!(Vector3 { x, y, z });
ls_fields!(Vector4 { x, y, z, w });
ls_fields!(Point1 { x });
ls_fields!(Point2 { x, y });
ls_fields!(Point3 { x, y, z });

include!(concat!(env!("OUT_DIR"), "/swz_calls.rs"));

/// a non-numeric `Copy` element type
#[derive(Copy, Clone, PartialEq, Eq, Debug)]
pub struct Tag(pub u8, pub char);

pub struct Ctx {
    pub conv: Tally,
    pub view: Tally,
    pub index: Tally,
    pub swz: Tally,
    pub misc: Tally,
    pub swz_names: usize,
}

/// expected panics: the message is suppressed only while the closure runs
fn panics<F: FnOnce() -> R, R>(f: F) -> bool {
    let old = std::panic::take_hook();
    std::panic::set_hook(Box::new(|_| {}));
    let r = catch_unwind(AssertUnwindSafe(f)).is_err();
    std::panic::set_hook(old);
    r
}

/// vectors / points of dimension $n over an element type: arrays, tuples, references, index, ranges, pointers
macro_rules! arr_like {
    ($ctx:expr, $T:ident, $n:expr, $Tuple:ty, [$($f:ident : $i:expr),+], $vals:expr, $tn:expr) => {{
        let vals = $vals;              // n pairwise distinct elements + one extra
        let extra = vals[$n];
        let v = $T { $($f: vals[$i]),+ };
        let fields = vec![$(v.$f),+];
        // value conversions
        let a: [_; $n] = v.into();
        $ctx.conv.rec(a.to_vec() == fields, || format!("{} -> array", $tn));
        let back: $T<_> = a.into();
        $ctx.conv.rec(vec![$(back.$f),+] == fields, || format!("array -> {}", $tn));
        let t: $Tuple = v.into();
        let tb: $T<_> = t.into();
        $ctx.conv.rec(vec![$(tb.$f),+] == fields, || format!("{} <-> tuple", $tn));
        // reference views
        let ar: &[_; $n] = v.as_ref();
        $ctx.view.rec(ar.to_vec() == fields, || format!("{} AsRef<array>", $tn));
        let tr: &$Tuple = v.as_ref();
        let tv: $T<_> = (*tr).into();
        $ctx.view.rec(vec![$(tv.$f),+] == fields, || format!("{} AsRef<tuple>", $tn));
        let fr: &$T<_> = (&a).into();
        $ctx.view.rec(vec![$(fr.$f),+] == fields, || format!("&array -> &{}", $tn));
        let ftr: &$T<_> = (&t).into();
        $ctx.view.rec(vec![$(ftr.$f),+] == fields, || format!("&tuple -> &{}", $tn));
        // writes through every mutable view are visible through the fields and the other views
        for p in 0..$n {
            let mut m = v;
            { let am: &mut [_; $n] = m.as_mut(); am[p] = extra; }
            let mut want = fields.clone(); want[p] = extra;
            let now = vec![$(m.$f),+];
            let ar2: &[_; $n] = m.as_ref();
            $ctx.view.rec(now == want && ar2.to_vec() == want && (0..$n).all(|i| m[i] == want[i]), || format!("{} write via AsMut<array>[{}]", $tn, p));
            let mut m2 = v;
            m2[p] = extra;
            let ar3: &[_; $n] = m2.as_ref();
            $ctx.view.rec(vec![$(m2.$f),+] == want && ar3.to_vec() == want, || format!("{} write via IndexMut[{}]", $tn, p));
            let mut arr = a;
            { let mr: &mut $T<_> = (&mut arr).into(); mr[p] = extra; }
            $ctx.view.rec(arr.to_vec() == want, || format!("&mut array -> &mut {} write [{}]", $tn, p));
            let mut m3 = v;
            { let s: &mut [_] = &mut m3[..]; s[p] = extra; }
            $ctx.view.rec(vec![$(m3.$f),+] == want, || format!("{} write via RangeFull slice [{}]", $tn, p));
            let mut m4 = v;
            unsafe { *m4.as_mut_ptr().add(p) = extra; }
            $ctx.view.rec(vec![$(m4.$f),+] == want, || format!("{} write via as_mut_ptr [{}]", $tn, p));
            let mut tup = t;
            { let mt: &mut $T<_> = (&mut tup).into(); mt[p] = extra; }
            let tb2: $T<_> = tup.into();
            $ctx.view.rec(vec![$(tb2.$f),+] == want, || format!("&mut tuple -> &mut {} write [{}]", $tn, p));
            let mut m5 = v;
            { let mt: &mut $Tuple = m5.as_mut(); let mut tv: $T<_> = (*mt).into(); tv[p] = extra; *mt = tv.into(); }
            $ctx.view.rec(vec![$(m5.$f),+] == want, || format!("{} write via AsMut<tuple> [{}]", $tn, p));
        }
        // index: every position, ranges, pointer reads, out of range panics
        for i in 0..$n {
            $ctx.index.rec(v[i] == fields[i] && unsafe { *v.as_ptr().add(i) } == fields[i], || format!("{}[{}]", $tn, i));
            $ctx.index.rec(v[i..].to_vec() == fields[i..].to_vec() && v[..i].to_vec() == fields[..i].to_vec()
                && v[i..$n].to_vec() == fields[i..].to_vec() && v[..].to_vec() == fields, || format!("{} ranges at {}", $tn, i));
        }
        $ctx.index.rec(panics(|| v[$n]) && panics(|| v[$n + 5]) && panics(|| { let mut m = v; m[$n] = extra; })
            && panics(|| v[..$n + 1].len()) && panics(|| v[$n + 1..].len()), || format!("{} out-of-range index must panic", $tn));
        // swap_elements (skipped under miri: `ptr::swap(&mut self[i], &mut self[j])` holds two `&mut` into
        // `self` at once, which miri's aliasing models reject although the values come out right; DESIGN §0.3)
        for i in 0..(if cfg!(miri) { 0 } else { $n }) { for j in 0..$n {
            let mut m = v; m.swap_elements(i, j);
            let mut want = fields.clone(); want.swap(i, j);
            $ctx.misc.rec(vec![$(m.$f),+] == want, || format!("{}.swap_elements({}, {})", $tn, i, j));
        }}
        $ctx.misc.rec(panics(|| { let mut m = v; m.swap_elements(0, $n); }) && panics(|| { let mut m = v; m.swap_elements($n, 0); })
            && (cfg!(miri) || (panics(|| { let mut m = v; m.swap_elements($n, $n); }) && panics(|| { let mut m = v; m.swap_elements($n + 3, $n + 3); }))),
            || format!("{}.swap_elements out of range must panic (also when both indices are equal)", $tn));
        // map / zip / from_value
        let mapped = v.map(|e| (e, 7u8));
        $ctx.misc.rec(vec![$(mapped.$f),+] == fields.iter().map(|e| (*e, 7u8)).collect::<Vec<_>>(), || format!("{}.map", $tn));
        let w = $T { $($f: vals[($i + 1) % ($n + 1)]),+ };
        let zipped = v.zip(w, |p, q| (p, q));
        $ctx.misc.rec(vec![$(zipped.$f),+] == fields.iter().zip(vec![$(w.$f),+].iter()).map(|(p, q)| (*p, *q)).collect::<Vec<_>>(), || format!("{}.zip", $tn));
        let fv = $T::from_value(extra);
        $ctx.misc.rec(vec![$(fv.$f),+] == vec![extra; $n] && $T::<i32>::len() == $n, || format!("{}::from_value / len", $tn));
    }};
}

fn tags() -> Vec<Tag> {
    vec![Tag(1, 'a'), Tag(2, 'b'), Tag(3, 'c'), Tag(4, 'd'), Tag(9, 'z')]
}

fn vectors_points(ctx: &mut Ctx) {
    let iv = vec![11i32, 22, 33, 44, 99];
    let fv = vec![1.5f64, -2.25, 3.125, -0.0, 1e300];
    macro_rules! all_elems {
        ($T:ident, $n:expr, $Tuple:ident, [$($f:ident : $i:expr),+], $tn:expr) => {
            { type Tu = $Tuple<i32>; arr_like!(ctx, $T, $n, Tu, [$($f : $i),+], iv.clone(), concat!($tn, "<i32>")); }
            { type Tu = $Tuple<f64>; arr_like!(ctx, $T, $n, Tu, [$($f : $i),+], fv.clone(), concat!($tn, "<f64>")); }
        };
    }
    all_elems!(Vector1, 1, T1, [x: 0], "Vector1");
    all_elems!(Vector2, 2, T2, [x: 0, y: 1], "Vector2");
    all_elems!(Vector3, 3, T3, [x: 0, y: 1, z: 2], "Vector3");
    all_elems!(Vector4, 4, T4, [x: 0, y: 1, z: 2, w: 3], "Vector4");
    all_elems!(Point1, 1, T1, [x: 0], "Point1");
    all_elems!(Point2, 2, T2, [x: 0, y: 1], "Point2");
    all_elems!(Point3, 3, T3, [x: 0, y: 1, z: 2], "Point3");
    // non-numeric Copy element type: the conversions and index views that do not need BaseNum
    let tg = tags();
    let v = Vector4 { x: tg[0], y: tg[1], z: tg[2], w: tg[3] };
    let a: [Tag; 4] = v.into();
    let b: Vector4<Tag> = a.into();
    let r: &[Tag; 4] = v.as_ref();
    let t: (Tag, Tag, Tag, Tag) = v.into();
    ctx.conv.rec(a.to_vec() == tg[..4].to_vec() && b == v && r.to_vec() == tg[..4].to_vec() && t == (tg[0], tg[1], tg[2], tg[3])
        && v[2] == tg[2] && v[1..3].to_vec() == tg[1..3].to_vec() && panics(|| v[4]), || "Vector4<Tag> conversions".into());
    let mut m = v;
    m[3] = tg[4];
    { let am: &mut [Tag; 4] = m.as_mut(); am[0] = tg[4]; }
    ctx.view.rec(m == Vector4 { x: tg[4], y: tg[1], z: tg[2], w: tg[4] }, || "Vector4<Tag> mutable views".into());
    let p = Point3 { x: tg[0], y: tg[1], z: tg[2] };
    let pa: [Tag; 3] = p.into();
    ctx.conv.rec(pa.to_vec() == tg[..3].to_vec() && p[1] == tg[1] && Point3::from(pa) == p && p.map(|t| t.0).x == 1, || "Point3<Tag> conversions".into());
    // extend / truncate / truncate_n
    let v4 = Vector4::new(11, 22, 33, 44);
    let v3 = Vector3::new(11, 22, 33);
    let v2 = Vector2::new(11, 22);
    ctx.misc.rec(v2.extend(33) == v3 && v3.extend(44) == v4 && v4.truncate() == v3 && v3.truncate() == v2, || "extend/truncate".into());
    for n in 0..4usize {
        let mut want = vec![11, 22, 33, 44];
        want.remove(n);
        ctx.misc.rec(v4.truncate_n(n as isize).ls() == want, || format!("truncate_n({})", n));
    }
    ctx.misc.rec(panics(|| v4.truncate_n(4)) && panics(|| v4.truncate_n(-1)), || "truncate_n out of range must panic".into());
    // mint
    let mv: mint::Vector3<i32> = v3.into();
    let back: Vector3<i32> = mv.into();
    let mp: mint::Point3<i32> = Point3::new(11, 22, 33).into();
    let mv4: mint::Vector4<f64> = Vector4::new(1.5, 2.5, 3.5, 4.5).into();
    let mv2: mint::Vector2<i32> = v2.into();
    ctx.conv.rec((mv.x, mv.y, mv.z) == (11, 22, 33) && back == v3 && (mp.x, mp.y, mp.z) == (11, 22, 33) && Point3::from(mp) == Point3::new(11, 22, 33)
        && (mv4.x, mv4.y, mv4.z, mv4.w) == (1.5, 2.5, 3.5, 4.5) && Vector4::from(mv4) == Vector4::new(1.5, 2.5, 3.5, 4.5)
        && (mv2.x, mv2.y) == (11, 22) && Vector2::from(mv2) == v2, || "mint vector/point conversions".into());
}
type T1<S> = (S,);
type T2<S> = (S, S);
type T3<S> = (S, S, S);
type T4<S> = (S, S, S, S);

macro_rules! matrix_like {
    ($ctx:expr, $M:ident, $V:ident, $n:expr, $nn:expr, $S:ty, $vals:expr, $tn:expr, $Mint:ident) => {{
        let vals: Vec<$S> = $vals;   // n*n pairwise distinct + extras
        let extra = vals[$nn];
        let nested: [[$S; $n]; $n] = { let mut a = [[vals[0]; $n]; $n]; for c in 0..$n { for r in 0..$n { a[c][r] = vals[c * $n + r]; } } a };
        let m: $M<$S> = nested.into();
        let flat: Vec<$S> = vals[..$nn].to_vec();
        // element (c, r) = r-th component of the c-th column; nested and flat views; pointer
        let nr: &[[$S; $n]; $n] = m.as_ref();
        let fr: &[$S; $nn] = m.as_ref();
        let back: [[$S; $n]; $n] = m.into();
        $ctx.conv.rec(back == nested && *nr == nested && fr.to_vec() == flat, || format!("{} nested/flat views", $tn));
        for c in 0..$n { for r in 0..$n {
            $ctx.index.rec(m[c][r] == vals[c * $n + r] && fr[c * $n + r] == m[c][r] && unsafe { *m.as_ptr().add(c * $n + r) } == m[c][r]
                && m.row(r)[c] == m[c][r], || format!("{}[{}][{}]", $tn, c, r));
        }}
        let fm: &$M<$S> = (&nested).into();
        let flat_arr: [$S; $nn] = *fr;
        let fm2: &$M<$S> = (&flat_arr).into();
        $ctx.view.rec(*fm == m && *fm2 == m, || format!("&nested / &flat -> &{}", $tn));
        $ctx.index.rec(panics(|| m[$n]) && panics(|| m[0][$n]) && panics(|| m.row($n)), || format!("{} out-of-range index must panic", $tn));
        // writes through each mutable view are seen by all others
        for p in 0..$nn {
            let (c, r) = (p / $n, p % $n);
            let mut want = flat.clone(); want[p] = extra;
            let mut a = m; a[c][r] = extra;
            let mut b = m; { let f: &mut [$S; $nn] = b.as_mut(); f[p] = extra; }
            let mut d = m; { let nn2: &mut [[$S; $n]; $n] = d.as_mut(); nn2[c][r] = extra; }
            let mut e = m; unsafe { *e.as_mut_ptr().add(p) = extra; }
            let mut g = nested; { let mr: &mut $M<$S> = (&mut g).into(); mr[c][r] = extra; }
            let mut h = flat_arr; { let mr: &mut $M<$S> = (&mut h).into(); mr[c][r] = extra; }
            let fl = |x: &$M<$S>| { let f: &[$S; $nn] = x.as_ref(); f.to_vec() };
            let gn: $M<$S> = g.into();
            $ctx.view.rec(fl(&a) == want && fl(&b) == want && fl(&d) == want && fl(&e) == want && fl(&gn) == want && h.to_vec() == want
                && a == b && b == d, || format!("{} write at flat {}", $tn, p));
        }
        // replace_col
        for c in 0..$n {
            let mut a = m;
            let newc: $V<$S> = $V::from_value(extra);
            let old = a.replace_col(c, newc);
            $ctx.misc.rec(old == m[c] && a[c] == newc && (0..$n).all(|k| k == c || a[k] == m[k]), || format!("{}.replace_col({})", $tn, c));
        }
        $ctx.misc.rec(panics(|| { let mut a = m; a.replace_col($n, $V::from_value(extra)) }), || format!("{}.replace_col out of range must panic", $tn));
        // swap_rows / swap_columns / swap_elements over every index combination 0..=n+1: in range they exchange exactly
        // the named rows / columns / elements, out of range (in any position, also when it aliases storage) they panic
        // (skipped under miri: ptr::swap with two &mut into self, DESIGN 0.5)
        if !cfg!(miri) {
            for i in 0..($n + 2) { for j in 0..($n + 2) {
                let inr = i < $n && j < $n;
                let mut want = nested; if inr { for c in 0..$n { let t = want[c][i]; want[c][i] = want[c][j]; want[c][j] = t; } }
                let okr = if inr { let mut a = m; a.swap_rows(i, j); let b: [[$S; $n]; $n] = a.into(); b == want } else { panics(|| { let mut a = m; a.swap_rows(i, j); a }) };
                $ctx.misc.rec(okr, || format!("{}.swap_rows({}, {}) {}", $tn, i, j, if inr { "exchanges exactly these rows" } else { "must panic (row index out of range)" }));
                let mut wantc = nested; if inr { wantc.swap(i, j); }
                let okc = if inr { let mut a = m; a.swap_columns(i, j); let b: [[$S; $n]; $n] = a.into(); b == wantc } else { panics(|| { let mut a = m; a.swap_columns(i, j); a }) };
                $ctx.misc.rec(okc, || format!("{}.swap_columns({}, {}) {}", $tn, i, j, if inr { "exchanges exactly these columns" } else { "must panic (column index out of range)" }));
                for k in 0..($n + 2) { for l in 0..($n + 2) {
                    let inr = i < $n && j < $n && k < $n && l < $n;
                    let oke = if inr {
                        let mut w = nested; let t = w[i][j]; w[i][j] = w[k][l]; w[k][l] = t;
                        let mut a = m; a.swap_elements((i, j), (k, l)); let b: [[$S; $n]; $n] = a.into(); b == w
                    } else { panics(|| { let mut a = m; a.swap_elements((i, j), (k, l)); a }) };
                    $ctx.misc.rec(oke, || format!("{}.swap_elements(({}, {}), ({}, {})) {}", $tn, i, j, k, l,
                        if inr { "exchanges exactly these elements" } else { "must panic like m[c][r] (index out of range)" }));
                }}
            }}
        }
        // mint (column matrices)
        let mm: mint::$Mint<$S> = m.into();
        let mb: $M<$S> = mm.into();
        $ctx.conv.rec(mb == m, || format!("{} <-> mint", $tn));
    }};
}

fn matrices(ctx: &mut Ctx) {
    let iv: Vec<f64> = (0..20).map(|i| 1.5 + i as f64 * 2.25).collect();
    let fv: Vec<f32> = (0..20).map(|i| -3.5 + i as f32 * 1.125).collect();
    matrix_like!(ctx, Matrix2, Vector2, 2, 4, f64, iv.clone(), "Matrix2<f64>", ColumnMatrix2);
    matrix_like!(ctx, Matrix3, Vector3, 3, 9, f64, iv.clone(), "Matrix3<f64>", ColumnMatrix3);
    matrix_like!(ctx, Matrix4, Vector4, 4, 16, f64, iv.clone(), "Matrix4<f64>", ColumnMatrix4);
    matrix_like!(ctx, Matrix2, Vector2, 2, 4, f32, fv.clone(), "Matrix2<f32>", ColumnMatrix2);
    matrix_like!(ctx, Matrix3, Vector3, 3, 9, f32, fv.clone(), "Matrix3<f32>", ColumnMatrix3);
    matrix_like!(ctx, Matrix4, Vector4, 4, 16, f32, fv.clone(), "Matrix4<f32>", ColumnMatrix4);
    // non-float element type: the views exist for every S
    let mi: Matrix2<Tag> = [[Tag(1, 'a'), Tag(2, 'b')], [Tag(3, 'c'), Tag(4, 'd')]].into();
    let f: &[Tag; 4] = mi.as_ref();
    ctx.conv.rec(f.to_vec() == tags()[..4].to_vec() && mi[1][0] == Tag(3, 'c') && mi.x.y == Tag(2, 'b'), || "Matrix2<Tag> views".into());
}

fn quaternion(ctx: &mut Ctx) {
    // Quaternion::new takes the scalar first; arrays and tuples are x, y, z, s
    let q = Quaternion::new(40.0f64, 10.0, 20.0, 30.0);
    ctx.conv.rec(q.s == 40.0 && q.v == Vector3::new(10.0, 20.0, 30.0), || "Quaternion::new scalar first".into());
    let a: [f64; 4] = q.into();
    let t: (f64, f64, f64, f64) = q.into();
    let ar: &[f64; 4] = q.as_ref();
    let tr: &(f64, f64, f64, f64) = q.as_ref();
    ctx.conv.rec(a == [10.0, 20.0, 30.0, 40.0] && t == (10.0, 20.0, 30.0, 40.0) && *ar == a && *tr == t
        && Quaternion::from(a) == q && Quaternion::from(t) == q, || "Quaternion array/tuple order x,y,z,s".into());
    let fr: &Quaternion<f64> = (&a).into();
    let ft: &Quaternion<f64> = (&t).into();
    ctx.view.rec(*fr == q && *ft == q, || "&array / &tuple -> &Quaternion".into());
    for i in 0..4 {
        ctx.index.rec(q[i] == a[i] && q[i..].to_vec() == a[i..].to_vec() && q[..i].to_vec() == a[..i].to_vec(), || format!("Quaternion[{}]", i));
        let mut want = a; want[i] = 99.0;
        let mut q1 = q; q1[i] = 99.0;
        let mut q2 = q; { let m: &mut [f64; 4] = q2.as_mut(); m[i] = 99.0; }
        let mut arr = a; { let m: &mut Quaternion<f64> = (&mut arr).into(); m[i] = 99.0; }
        let mut q3 = q; { let m: &mut (f64, f64, f64, f64) = q3.as_mut(); match i { 0 => m.0 = 99.0, 1 => m.1 = 99.0, 2 => m.2 = 99.0, _ => m.3 = 99.0 } }
        let mut tup = t; { let m: &mut Quaternion<f64> = (&mut tup).into(); m[i] = 99.0; }
        let l = |x: Quaternion<f64>| { let y: [f64; 4] = x.into(); y };
        ctx.view.rec(l(q1) == want && l(q2) == want && arr == want && l(q3) == want && l(tup.into()) == want, || format!("Quaternion write at {}", i));
    }
    ctx.index.rec(panics(|| q[4]) && panics(|| q[5..].len()), || "Quaternion out-of-range index must panic".into());
    let mq: mint::Quaternion<f64> = q.into();
    ctx.conv.rec(mq.s == 40.0 && (mq.v.x, mq.v.y, mq.v.z) == (10.0, 20.0, 30.0) && Quaternion::from(mq) == q, || "Quaternion <-> mint".into());
}

fn conv_helpers(ctx: &mut Ctx) {
    use cgmath::conv::*;
    ctx.conv.rec(array2(Vector2::new(11, 22)) == [11, 22] && array2(Point2::new(11, 22)) == [11, 22]
        && array3(Vector3::new(11, 22, 33)) == [11, 22, 33] && array3(Point3::new(11, 22, 33)) == [11, 22, 33]
        && array4(Vector4::new(11, 22, 33, 44)) == [11, 22, 33, 44]
        && array4(Quaternion::new(44.0, 11.0, 22.0, 33.0)) == [11.0, 22.0, 33.0, 44.0], || "conv::array2/3/4".into());
    let m2 = Matrix2::new(1.0, 2.0, 3.0, 4.0);
    let m3 = Matrix3::new(1.0, 2.0, 3.0, 4.0, 5.0, 6.0, 7.0, 8.0, 9.0);
    let m4 = Matrix4::new(1.0, 2.0, 3.0, 4.0, 5.0, 6.0, 7.0, 8.0, 9.0, 10.0, 11.0, 12.0, 13.0, 14.0, 15.0, 16.0);
    ctx.conv.rec(array2x2(m2) == [[1.0, 2.0], [3.0, 4.0]] && array3x3(m3) == [[1.0, 2.0, 3.0], [4.0, 5.0, 6.0], [7.0, 8.0, 9.0]]
        && array4x4(m4) == [[1.0, 2.0, 3.0, 4.0], [5.0, 6.0, 7.0, 8.0], [9.0, 10.0, 11.0, 12.0], [13.0, 14.0, 15.0, 16.0]],
        || "conv::array2x2/3x3/4x4 (column-major; Matrix::new takes columns)".into());
    // Matrix::new argument order: c0r0, c0r1, ... and from_cols
    ctx.conv.rec(m3.x == Vector3::new(1.0, 2.0, 3.0) && m3.z.y == 8.0 && Matrix3::from_cols(m3.x, m3.y, m3.z) == m3
        && m4.w == Vector4::new(13.0, 14.0, 15.0, 16.0) && Matrix4::from_cols(m4.x, m4.y, m4.z, m4.w) == m4
        && Matrix2::from_cols(m2.x, m2.y) == m2 && m2.y.x == 3.0, || "Matrix::new / from_cols column order".into());
}

fn swizzles(ctx: &mut Ctx) {
    let mut check = |ty: &str, names: &str, comps: &[i32], table: Vec<(&'static str, Vec<i32>)>| {
        for (name, got) in table.iter() {
            let want: Vec<i32> = name.chars().map(|c| comps[names.find(c).unwrap()]).collect();
            ctx.swz.rec(*got == want, || format!("{}.{}() = {:?}, want {:?}", ty, name, got, want));
        }
        ctx.swz_names += table.len();
    };
    check("Vector1", "x", &[11], swz_vector1(&Vector1::new(11)));
    check("Vector2", "xy", &[11, 22], swz_vector2(&Vector2::new(11, 22)));
    check("Vector3", "xyz", &[11, 22, 33], swz_vector3(&Vector3::new(11, 22, 33)));
    check("Vector4", "xyzw", &[11, 22, 33, 44], swz_vector4(&Vector4::new(11, 22, 33, 44)));
    check("Point1", "x", &[11], swz_point1(&Point1::new(11)));
    check("Point2", "xy", &[11, 22], swz_point2(&Point2::new(11, 22)));
    check("Point3", "xyz", &[11, 22, 33], swz_point3(&Point3::new(11, 22, 33)));
}

pub fn c16() {
    let mut ctx = Ctx { conv: Tally::new("c16.value_conversions"), view: Tally::new("c16.reference_views_coherent"),
                        index: Tally::new("c16.index_and_ranges"), swz: Tally::new("c16.swizzle_accessors"),
                        misc: Tally::new("c16.map_zip_extend_truncate_swap"), swz_names: 0 };
    vectors_points(&mut ctx);
    matrices(&mut ctx);
    quaternion(&mut ctx);
    conv_helpers(&mut ctx);
    swizzles(&mut ctx);
    ctx.conv.print();
    ctx.view.print();
    ctx.index.print();
    ctx.swz.print();
    ctx.misc.print();
    println!("info c16.swizzle_accessors_called={}", ctx.swz_names);
    if cfg!(miri) {
        // the interpreter run (thorough tier) is about the pointer casts; the generated text is compared natively
        return;
    }
    let mut tbl = Tally::new("c16.generated_swizzle_table");
    let mut mq = String::new();
    swizzle_table(&mut tbl, &mut mq);
    tbl.print();
    print!("{}", mq);
}

/// The text cgmath's build script generated for this very build (`$OUT_DIR/swizzle_operator_macro.rs`
/// of the cgmath dependency), parsed arm by arm: `(letters, upto, [(name, fields, declared dims)])`.
fn generated_table() -> Result<Vec<(String, usize, Vec<(String, String, usize, usize)>)>, String> {
    let exe = std::env::current_exe().map_err(|e| e.to_string())?;
    let build = exe.parent().ok_or("no parent")?.join("build");
    let mut best: Option<(std::time::SystemTime, std::path::PathBuf)> = None;
    for e in std::fs::read_dir(&build).map_err(|e| e.to_string())? {
        let e = e.map_err(|e| e.to_string())?;
        if !e.file_name().to_string_lossy().starts_with("cgmath-") { continue; }
        let f = e.path().join("out").join("swizzle_operator_macro.rs");
        if let Ok(md) = std::fs::metadata(&f) {
            let t = md.modified().map_err(|e| e.to_string())?;
            if best.as_ref().map_or(true, |(bt, _)| t > *bt) { best = Some((t, f)); }
        }
    }
    let (_, path) = best.ok_or("generated swizzle macro file not found")?;
    let text = std::fs::read_to_string(&path).map_err(|e| e.to_string())?;
    let mut arms = vec![];
    for line in text.lines() {
        let l = line.trim();
        if l.starts_with("($vector_type1") && l.ends_with("=> {") {
            let upto = l.matches("$vector_type").count();
            let letters = l.trim_end_matches(") => {").rsplit(", ").next().ok_or("arm header")?.to_string();
            arms.push((letters, upto, vec![]));
        } else if let Some(p) = l.find("pub fn ") {
            let rest = &l[p + 7..];
            let name = rest.split('(').next().ok_or("fn name")?.to_string();
            if !rest[name.len()..].starts_with("(&self) -> $vector_type") { return Err(format!("unparsed signature: {}", l)); }
            let ret_dim: usize = rest.split("-> $vector_type").nth(1).and_then(|s| s[..1].parse().ok()).ok_or("return type")?;
            let body = rest.split("{ $vector_type").nth(1).ok_or("body")?;
            let ctor_dim: usize = body[..1].parse().map_err(|_| "ctor dim")?;
            let args = body.split("::new(").nth(1).and_then(|s| s.split(')').next()).ok_or("ctor args")?;
            let mut fields = String::new();
            for a in args.split(',').map(|a| a.trim()).filter(|a| !a.is_empty()) {
                let f = a.strip_prefix("self.").ok_or_else(|| format!("constructor argument is not a field read: {}", a))?;
                if f.chars().count() != 1 { return Err(format!("field name: {}", f)); }
                fields.push_str(f);
            }
            arms.last_mut().ok_or("fn before arm")?.2.push((name, fields, ret_dim, ctor_dim));
        }
    }
    Ok(arms)
}

pub fn swizzle_table(ctx_tbl: &mut Tally, mq: &mut String) {
    use std::fmt::Write;
    match generated_table() {
        Err(e) => ctx_tbl.rec(false, || format!("cannot read the generated swizzle table: {}", e)),
        Ok(arms) => {
            ctx_tbl.rec(arms.len() == 7, || format!("{} macro arms, expected 7 (x, xy, xyz for points; x, xy, xyz, xyzw for vectors)", arms.len()));
            for (letters, upto, fns) in arms.iter() {
                for (name, fields, rd, cd) in fns.iter() {
                    // the declared dimension is the word length; the body reads exactly the named fields in order
                    ctx_tbl.rec(name == fields && *rd == name.len() && *cd == name.len() && name.len() <= *upto,
                        || format!("generated accessor {} (letters {}, upto {}): reads {:?}, returns dim {}, constructs dim {}", name, letters, upto, fields, rd, cd));
                }
                // every word exactly once
                let mut names: Vec<&String> = fns.iter().map(|f| &f.0).collect();
                names.sort();
                let before = names.len();
                names.dedup();
                let want: usize = (1..=*upto).map(|k| letters.len().pow(k as u32)).sum();
                ctx_tbl.rec(names.len() == before && before == want, || format!("letters {} upto {}: {} accessors ({} distinct), want {}", letters, upto, before, names.len(), want));
                let _ = writeln!(mq, "mq n.swz {} {} => ok {}", letters, upto,
                    fns.iter().map(|(n, f, _, _)| format!("{}:{}", n, f)).collect::<Vec<_>>().join(" "));
            }
        }
    }
}
