//! Property clauses that need the *real* `sin/cos/acos/atan2` are evaluated here on the
//! `f64` instantiation of the implementation, with explicit error margins on
//! well-conditioned inputs.  These are oracle evaluations (layer O): they never stand in
//! for a theorem, they search for concrete failing inputs and sanity-check the real code.
//! Output format is the one of `native.rs`.

use crate::native::Tally;
use cgmath::prelude::*;
use cgmath::*;

type V2 = Vector2<f64>;
type V3 = Vector3<f64>;
type V4 = Vector4<f64>;
type Q = Quaternion<f64>;
type M3 = Matrix3<f64>;
type M4 = Matrix4<f64>;

const TOL: f64 = 1e-9;
const PI: f64 = std::f64::consts::PI;

pub struct R(pub u64);
impl R {
    fn u(&mut self) -> u64 {
        self.0 = self.0.wrapping_add(0x9E3779B97F4A7C15);
        let mut z = self.0;
        z = (z ^ (z >> 30)).wrapping_mul(0xBF58476D1CE4E5B9);
        z = (z ^ (z >> 27)).wrapping_mul(0x94D049BB133111EB);
        z ^ (z >> 31)
    }
    /// uniform in [lo, hi]
    fn f(&mut self, lo: f64, hi: f64) -> f64 {
        lo + (hi - lo) * ((self.u() >> 11) as f64 / (1u64 << 53) as f64)
    }
    fn v2(&mut self) -> V2 {
        loop {
            let v = V2::new(self.f(-3.0, 3.0), self.f(-3.0, 3.0));
            if v.magnitude2() > 0.01 {
                return v;
            }
        }
    }
    fn v3(&mut self) -> V3 {
        loop {
            let v = V3::new(self.f(-3.0, 3.0), self.f(-3.0, 3.0), self.f(-3.0, 3.0));
            if v.magnitude2() > 0.01 {
                return v;
            }
        }
    }
    fn v4(&mut self) -> V4 {
        loop {
            let v = V4::new(self.f(-3.0, 3.0), self.f(-3.0, 3.0), self.f(-3.0, 3.0), self.f(-3.0, 3.0));
            if v.magnitude2() > 0.01 {
                return v;
            }
        }
    }
    fn unit3(&mut self) -> V3 {
        self.v3().normalize()
    }
    fn unit2(&mut self) -> V2 {
        self.v2().normalize()
    }
    fn uq(&mut self) -> Q {
        let v = self.v4();
        Q::new(v.x, v.y, v.z, v.w).normalize()
    }
    fn angle(&mut self) -> f64 {
        match self.u() % 8 {
            0 => 0.0,
            1 => PI,
            2 => -PI / 2.0,
            3 => self.f(-20.0, 20.0),
            _ => self.f(-PI, PI),
        }
    }
}

fn close(a: f64, b: f64) -> bool {
    (a - b).abs() <= TOL * (1.0 + a.abs().max(b.abs()))
}
fn vclose(a: V3, b: V3) -> bool {
    close(a.x, b.x) && close(a.y, b.y) && close(a.z, b.z)
}
fn v2close(a: V2, b: V2) -> bool {
    close(a.x, b.x) && close(a.y, b.y)
}
fn m3close(a: M3, b: M3) -> bool {
    vclose(a.x, b.x) && vclose(a.y, b.y) && vclose(a.z, b.z)
}
fn m3maxdiff(a: M3, b: M3) -> f64 {
    let mut m: f64 = 0.0;
    for c in 0..3 {
        for r in 0..3 {
            m = m.max((a[c][r] - b[c][r]).abs());
        }
    }
    m
}
fn qclose_pm(a: Q, b: Q) -> bool {
    let same = close(a.s, b.s) && vclose(a.v, b.v);
    let neg = close(a.s, -b.s) && vclose(a.v, -b.v);
    same || neg
}
fn rodrigues(a: V3, t: f64, v: V3) -> V3 {
    v * t.cos() + a.cross(v) * t.sin() + a * (a.dot(v) * (1.0 - t.cos()))
}
fn upper3(m: M4) -> M3 {
    Matrix3::from_cols(m.x.truncate(), m.y.truncate(), m.z.truncate())
}
fn is_rotation(m: M3) -> bool {
    m3close(m.transpose() * m, M3::identity()) && close(m.determinant(), 1.0)
}

// ------------------------------------------------------------------------------------ C11
pub fn c11(n: u64, seed: u64) {
    let mut r = R(seed);
    let t = [Tally::new("c11.angle_cos_range_sym"), Tally::new("c11.angle2d_signed"), Tally::new("c11.normalize_len"),
             Tally::new("c11.project_on"), Tally::new("c11.distance_is_magnitude_of_difference"), Tally::new("c11.angle_parallel_antiparallel")];
    for i in 0..n {
        {
            // distance(a, b) is the magnitude of the difference, bit for bit -- also when the coordinates are large
            // compared with the separation (an algebraically equal expansion |a|^2 + |b|^2 - 2 a.b cancels there)
            let big = if i % 2 == 0 { 0.0 } else { [1.0e8, 3.0e7, 94906267.0, 1000.5][(i / 2 % 4) as usize] };
            let (a, b) = (r.v4(), r.v4());
            let (a, b) = (a + cgmath::Vector4::from_value(big), b * 1e-3 + a + cgmath::Vector4::from_value(big));
            let (p3, q3) = (cgmath::Point3::new(a.x, a.y, a.z), cgmath::Point3::new(b.x, b.y, b.z));
            let (p2, q2) = (cgmath::Point2::new(a.x, a.y), cgmath::Point2::new(b.x, b.y));
            let (p1, q1) = (cgmath::Point1::new(a.x), cgmath::Point1::new(b.x));
            let (qa, qb) = (Q::new(a.w, a.x, a.y, a.z), Q::new(b.w, b.x, b.y, b.z));
            let (f3, g3) = (cgmath::Point3::new(a.x as f32, a.y as f32, a.z as f32), cgmath::Point3::new(b.x as f32, b.y as f32, b.z as f32));
            let ok = p3.distance2(q3).to_bits() == (q3 - p3).magnitude2().to_bits() && p3.distance(q3).to_bits() == (q3 - p3).magnitude().to_bits()
                && p2.distance2(q2).to_bits() == (q2 - p2).magnitude2().to_bits() && p2.distance(q2).to_bits() == (q2 - p2).magnitude().to_bits()
                && p1.distance2(q1).to_bits() == (q1 - p1).magnitude2().to_bits() && p1.distance(q1).to_bits() == (q1 - p1).magnitude().to_bits()
                && a.distance2(b).to_bits() == (b - a).magnitude2().to_bits() && a.distance(b).to_bits() == (b - a).magnitude().to_bits()
                && a.truncate().distance2(b.truncate()).to_bits() == (b.truncate() - a.truncate()).magnitude2().to_bits()
                && qa.distance2(qb).to_bits() == (qb - qa).magnitude2().to_bits() && qa.distance(qb).to_bits() == (qb - qa).magnitude().to_bits()
                && f3.distance2(g3).to_bits() == (g3 - f3).magnitude2().to_bits()
                && p3.distance2(q3) >= 0.0 && f3.distance2(g3) >= 0.0;
            t[4].rec(ok, || format!("a={:?} b={:?}: Point3 distance2={:e} vs |b-a|^2={:e}; f32 {:e} vs {:e}", a, b, p3.distance2(q3), (q3 - p3).magnitude2(),
                                     f3.distance2(g3), (g3 - f3).magnitude2()));
            // exactly parallel / antiparallel pairs: angle 0 and pi
            let u = if i % 3 == 0 { V3::new(1.0, 0.0, 0.0) } else if i % 3 == 1 { V3::new(1.0, 2.0, 3.0) } else { let w = r.v3(); V3::new(w.x.round() + 0.5, w.y.round(), w.z.round() - 0.5) };
            let k = [2.0, 0.5, 1.0, 4.0][(i % 4) as usize];
            let okp = close(u.angle(u * k).0, 0.0) && close(u.angle(u * -k).0, PI) && close((u * -k).angle(u).0, PI)
                && (u.extend(0.5).angle(u.extend(0.5) * -k).0 - PI).abs() < 1e-6 /* acos is ill-conditioned at -1 */ && close(u.truncate().angle(u.truncate() * -k).0.abs(), PI)
                && close(u.truncate().angle(u.truncate() * k).0, 0.0);
            t[5].rec(okp, || format!("u={:?} k={}: angle(u, ku)={} angle(u, -ku)={} angle(-ku,u)={} v4={} v2={} v2p={}", u, k, u.angle(u * k).0, u.angle(u * -k).0,
                (u * -k).angle(u).0, u.extend(0.5).angle(u.extend(0.5) * -k).0, u.truncate().angle(u.truncate() * -k).0, u.truncate().angle(u.truncate() * k).0));
        }
        let (u3, v3) = (r.v3(), r.v3());
        let (u4, v4) = (r.v4(), r.v4());
        let a3 = u3.angle(v3).0;
        let a4 = u4.angle(v4).0;
        let uq = Q::new(u4.x, u4.y, u4.z, u4.w);
        let vq = Q::new(v4.x, v4.y, v4.z, v4.w);
        let aq = uq.angle(vq).0;
        let ok = close(u3.magnitude() * v3.magnitude() * a3.cos(), u3.dot(v3))
            && (0.0..=PI).contains(&a3) && close(a3, v3.angle(u3).0)
            && close(u4.magnitude() * v4.magnitude() * a4.cos(), u4.dot(v4))
            && (0.0..=PI).contains(&a4) && close(a4, v4.angle(u4).0)
            && close(aq, a4);
        t[0].rec(ok, || format!("u3={:?} v3={:?} u4={:?} v4={:?}", u3, v3, u4, v4));
        let (u2, v2) = (r.v2(), r.v2());
        let a2 = u2.angle(v2).0;
        let m = u2.magnitude() * v2.magnitude();
        let ok2 = close(m * a2.cos(), u2.dot(v2)) && close(m * a2.sin(), u2.perp_dot(v2)) && a2 > -PI - 1e-12 && a2 <= PI
            && (close(a2, -v2.angle(u2).0) || close(a2.abs(), PI));
        t[1].rec(ok2, || format!("u2={:?} v2={:?} angle={}", u2, v2, a2));
        let mm = r.f(-5.0, 5.0);
        let okn = close(u3.normalize().magnitude(), 1.0) && close(u4.normalize_to(mm).magnitude(), mm.abs())
            && close(u2.normalize().magnitude(), 1.0) && close(uq.normalize().magnitude(), 1.0)
            && (mm <= 0.0 || (u3.normalize_to(mm).dot(u3) > 0.0 && vclose(u3.normalize_to(mm).cross(u3), V3::zero())));
        t[2].rec(okn, || format!("u3={:?} u4={:?} m={}", u3, u4, mm));
        let p = u3.project_on(v3);
        t[3].rec(vclose(p.cross(v3), V3::zero()) && close((u3 - p).dot(v3), 0.0), || format!("u={:?} v={:?}", u3, v3));
    }
    for x in &t {
        x.print();
    }
}

// ------------------------------------------------------------------------------------ C06
pub fn c06(n: u64, seed: u64) {
    let mut r = R(seed);
    let t = [Tally::new("c06.axis_angle_rodrigues"), Tally::new("c06.from_angle_xyz"), Tally::new("c06.from_angle_2d"),
             Tally::new("c06.angles_add"), Tally::new("c06.invert_point")];
    for i in 0..n {
        let a = r.unit3();
        let th = r.angle();
        let th2 = r.angle();
        let v = r.v3();
        let want = rodrigues(a, th, v);
        let m3 = M3::from_axis_angle(a, Rad(th));
        let m4 = M4::from_axis_angle(a, Rad(th));
        let b3: Basis3<f64> = Rotation3::from_axis_angle(a, Rad(th));
        let q: Q = Rotation3::from_axis_angle(a, Rad(th));
        let md = M3::from_axis_angle(a, Deg(th.to_degrees()));
        let qd: Q = Rotation3::from_axis_angle(a, Deg(th.to_degrees()));
        let ok = vclose(m3 * v, want) && vclose(m4.transform_vector(v), want) && vclose(b3.rotate_vector(v), want)
            && vclose(q.rotate_vector(v), want) && vclose(md * v, want) && vclose(qd * v, want)
            && vclose(m3 * a, a) && is_rotation(m3) && is_rotation(M3::from(q)) && is_rotation(upper3(m4))
            && close(q.magnitude(), 1.0);
        t[0].rec(ok, || format!("axis={:?} angle={} v={:?}", a, th, v));
        // from_angle_x/y/z = from_axis_angle about the unit axes
        let axes = [V3::unit_x(), V3::unit_y(), V3::unit_z()];
        let k = (i % 3) as usize;
        let (mx, m4x, bx, qx): (M3, M4, Basis3<f64>, Q) = match k {
            0 => (M3::from_angle_x(Rad(th)), M4::from_angle_x(Rad(th)), Rotation3::from_angle_x(Rad(th)), Rotation3::from_angle_x(Rad(th))),
            1 => (M3::from_angle_y(Rad(th)), M4::from_angle_y(Rad(th)), Rotation3::from_angle_y(Rad(th)), Rotation3::from_angle_y(Rad(th))),
            _ => (M3::from_angle_z(Rad(th)), M4::from_angle_z(Rad(th)), Rotation3::from_angle_z(Rad(th)), Rotation3::from_angle_z(Rad(th))),
        };
        let ax = M3::from_axis_angle(axes[k], Rad(th));
        let okx = m3close(mx, ax) && m3close(upper3(m4x), ax) && m3close(M3::from(bx), ax) && m3close(M3::from(qx), ax)
            && vclose(mx * v, rodrigues(axes[k], th, v));
        t[1].rec(okx, || format!("axis#{} angle={} v={:?}", k, th, v));
        // 2-D
        let m2 = Matrix2::from_angle(Rad(th));
        let b2: Basis2<f64> = Rotation2::from_angle(Rad(th));
        let b2d: Basis2<f64> = Rotation2::from_angle(Deg(th.to_degrees()));
        let ok2 = v2close(m2 * V2::unit_x(), V2::new(th.cos(), th.sin())) && v2close(m2 * V2::unit_y(), V2::new(-th.sin(), th.cos()))
            && v2close(b2.rotate_vector(V2::unit_x()), V2::new(th.cos(), th.sin()))
            && v2close(b2d.rotate_vector(V2::unit_y()), V2::new(-th.sin(), th.cos()));
        t[2].rec(ok2, || format!("angle={}", th));
        // angles add under composition about a common axis
        let sum = M3::from_axis_angle(a, Rad(th + th2));
        let q2: Q = Rotation3::from_axis_angle(a, Rad(th2));
        let b3b: Basis3<f64> = Rotation3::from_axis_angle(a, Rad(th2));
        let b2b: Basis2<f64> = Rotation2::from_angle(Rad(th2));
        let oka = m3close(m3 * M3::from_axis_angle(a, Rad(th2)), sum) && m3close(M3::from(q * q2), sum)
            && m3close(M3::from(b3 * b3b), sum)
            && v2close((b2 * b2b).rotate_vector(V2::unit_x()), V2::new((th + th2).cos(), (th + th2).sin()));
        t[3].rec(oka, || format!("axis={:?} angles={} {}", a, th, th2));
        // r * invert(r) = one ; rotate_point(p) = rotate_vector(p - origin)
        let p = Point3::from_vec(v);
        let p2 = Point2::new(v.x, v.y);
        let oki = qclose_pm(q * q.invert(), Q::one()) && m3close(M3::from(b3 * b3.invert()), M3::identity())
            && v2close(Matrix2::from(b2 * b2.invert()) * V2::unit_x(), V2::unit_x())
            && vclose(q.rotate_point(p).to_vec(), q.rotate_vector(p - Point3::origin()))
            && vclose(b3.rotate_point(p).to_vec(), b3.rotate_vector(p - Point3::origin()))
            && v2close(b2.rotate_point(p2).to_vec(), b2.rotate_vector(p2 - Point2::origin()));
        t[4].rec(oki, || format!("axis={:?} angle={} p={:?}", a, th, v));
    }
    for x in &t {
        x.print();
    }
    // angles of many turns, exact (signed) multiples of a quarter turn and a hair next to them, f64 and f32, against std's
    // sin / cos of the same floating-point angle
    let tl = Tally::new("c06.special_and_large_angles");
    let q = PI / 2.0;
    for &th in [1000.0f64, -777.0, 1.0e6, 1.0e9, 12345.678, q, -q, 2.0 * q, -2.0 * q, -3.0 * q, 3.0 * q, -4.0 * q, -6.0 * q, -7.0 * q, 4.0e-7, -9.0e-7, q + 1.2e-6, -2.0 * q - 3.0e-7].iter() {
        let (sn, cs) = (th.sin(), th.cos());
        let m2 = Matrix2::from_angle(Rad(th));
        let mz = M3::from_angle_z(Rad(th));
        let mx4 = M4::from_angle_x(Rad(th));
        let qz: Q = Rotation3::from_angle_z(Rad(th));
        let b2: Basis2<f64> = Rotation2::from_angle(Rad(th));
        let tol = 1e-13;
        let ok = (m2.x.x - cs).abs() <= tol && (m2.x.y - sn).abs() <= tol && (m2.y.x + sn).abs() <= tol && (m2.y.y - cs).abs() <= tol
            && (mz.x.x - cs).abs() <= tol && (mz.x.y - sn).abs() <= tol && (mz.y.x + sn).abs() <= tol && (mz.z.z - 1.0).abs() <= tol
            && (mx4.y.y - cs).abs() <= tol && (mx4.y.z - sn).abs() <= tol && (mx4.z.y + sn).abs() <= tol
            && (qz.s - (th / 2.0).cos()).abs() <= tol && (qz.v.z - (th / 2.0).sin()).abs() <= tol
            && v2close(b2.rotate_vector(V2::unit_x()), V2::new(cs, sn));
        tl.rec(ok, || format!("from_angle(Rad({:e})) f64: Matrix2 {:?}, Matrix3 z {:?}, quaternion {:?}; std sin = {:e}, cos = {:e}", th, m2, mz, qz, sn, cs));
        let t32 = th as f32;
        if t32.abs() <= 2000.0 {
            let (s32, c32) = ((t32 as f64).sin(), (t32 as f64).cos());
            let n2 = Matrix2::<f32>::from_angle(Rad(t32));
            let n3 = Matrix3::<f32>::from_angle_y(Rad(t32));
            let tol32 = 2.0e-7 * (1.0 + t32.abs() as f64 * 1.0e-7);
            let ok32 = (n2.x.x as f64 - c32).abs() <= tol32 && (n2.x.y as f64 - s32).abs() <= tol32 && (n3.x.x as f64 - c32).abs() <= tol32 && (n3.z.x as f64 - s32).abs() <= tol32;
            tl.rec(ok32, || format!("from_angle(Rad({:e})) f32: Matrix2 {:?}, Matrix3 y {:?}; sin = {:e}, cos = {:e}", t32, n2, n3, s32, c32));
        }
    }
    for &d in [-180.0f64, -270.0, 180.0, 90.0, -90.0, -540.0, 360.0, 270.0, -630.0].iter() {
        let (sn, cs) = (d.to_radians().sin(), d.to_radians().cos());
        let m2 = Matrix2::from_angle(Deg(d));
        let mx = M3::from_angle_x(Deg(d));
        let ok = (m2.x.x - cs).abs() <= 1e-13 && (m2.x.y - sn).abs() <= 1e-13 && (mx.y.y - cs).abs() <= 1e-13 && (mx.y.z - sn).abs() <= 1e-13;
        tl.rec(ok, || format!("from_angle(Deg({})): Matrix2 {:?}, Matrix3 x {:?}; sin = {:e}, cos = {:e}", d, m2, mx, sn, cs));
    }
    tl.print();
}

// ------------------------------------------------------------------------------------ C07
pub fn c07(n: u64, seed: u64) {
    let mut r = R(seed);
    let t = [Tally::new("c07.euler_is_xyz_everywhere"), Tally::new("c07.extract_main"), Tally::new("c07.extract_gimbal")];
    let mut worst: f64 = 0.0;
    for i in 0..n {
        let (x, y, z) = (r.angle(), r.angle(), r.angle());
        let e = Euler { x: Rad(x), y: Rad(y), z: Rad(z) };
        let want = M3::from_angle_x(Rad(x)) * M3::from_angle_y(Rad(y)) * M3::from_angle_z(Rad(z));
        let ed = Euler { x: Deg(x.to_degrees()), y: Deg(y.to_degrees()), z: Deg(z.to_degrees()) };
        let ok = m3close(M3::from(e), want) && m3close(upper3(M4::from(e)), want) && m3close(M3::from(Basis3::from(e)), want)
            && m3close(M3::from(Q::from(e)), want) && m3close(M3::from(ed), want) && close(Q::from(e).magnitude(), 1.0);
        t[0].rec(ok, || format!("euler=({}, {}, {})", x, y, z));
        // extraction
        let q = if i % 4 == 0 {
            // near / inside the gimbal cone: y close to +-pi/2
            let yy = (PI / 2.0 - r.f(0.0, 0.12)) * if r.u() % 2 == 0 { 1.0 } else { -1.0 };
            Q::from(Euler { x: Rad(r.angle()), y: Rad(yy), z: Rad(r.angle()) })
        } else {
            r.uq()
        };
        let siny = 2.0 * (q.v.x * q.v.z + q.v.y * q.s);
        let ex: Euler<Rad<f64>> = Euler::from(q);
        let rebuilt = M3::from(Q::from(ex));
        let orig = M3::from(q);
        if siny.abs() <= 0.998 - 1e-9 {
            let okm = ex.x.0.abs() <= PI + 1e-12 && ex.z.0.abs() <= PI + 1e-12 && ex.y.0.abs() <= PI / 2.0 + 1e-12
                && m3maxdiff(rebuilt, orig) <= 1e-7;
            t[1].rec(okm, || format!("q={:?} euler={:?} maxdiff={:e}", q, ex, m3maxdiff(rebuilt, orig)));
        } else if siny.abs() > 0.998 + 1e-9 {
            let d = m3maxdiff(rebuilt, orig);
            worst = worst.max(d);
            let okg = ex.x.0 == 0.0 && close(ex.y.0.abs(), PI / 2.0) && d <= 0.13;
            t[2].rec(okg, || format!("q={:?} euler={:?} maxdiff={:e}", q, ex, d));
        }
    }
    for x in &t {
        x.print();
    }
    println!("info c07.gimbal_worst_element_error={:e}", worst);
    // against an explicit reference (sin / cos of the f64 angle from std, not through cgmath): whole and half quarter turns of
    // either sign, many turns, and angles a hair away from a multiple of a quarter turn
    let ts = Tally::new("c07.euler_special_angles_explicit_reference");
    let refm = |x: f64, y: f64, z: f64| -> M3 {
        let (sx, cx, sy, cy, sz, cz) = (x.sin(), x.cos(), y.sin(), y.cos(), z.sin(), z.cos());
        let rx = M3::new(1.0, 0.0, 0.0, 0.0, cx, sx, 0.0, -sx, cx);
        let ry = M3::new(cy, 0.0, -sy, 0.0, 1.0, 0.0, sy, 0.0, cy);
        let rz = M3::new(cz, sz, 0.0, -sz, cz, 0.0, 0.0, 0.0, 1.0);
        rx * ry * rz
    };
    let q = PI / 2.0;
    let specials: [f64; 19] = [0.0, q, -q, 2.0 * q, -2.0 * q, 3.0 * q, -3.0 * q, 4.0 * q, -4.0 * q, -6.0 * q, -7.0 * q, 1000.0, -777.0, 1.0e6,
        4.0e-7, -9.0e-7, q + 1.2e-6, -2.0 * q - 3.0e-7, 0.8];
    for (i, &x) in specials.iter().enumerate() {
        for (j, &y) in specials.iter().enumerate() {
            let z = specials[(i * 7 + j * 3 + 1) % specials.len()];
            let want = refm(x, y, z);
            let e = Euler { x: Rad(x), y: Rad(y), z: Rad(z) };
            let tol = 1e-12 * (1.0 + x.abs().max(y.abs()).max(z.abs()) * 1e-3);
            let dm = m3maxdiff(M3::from(e), want).max(m3maxdiff(upper3(M4::from(e)), want)).max(m3maxdiff(M3::from(Basis3::from(e)), want));
            let dq = m3maxdiff(M3::from(Q::from(e)), want);
            ts.rec(dm <= tol && dq <= tol * 4.0, || format!("Euler<Rad<f64>>({:e}, {:e}, {:e}): max|Matrix - reference| = {:e}, max|Matrix3::from(Quaternion) - reference| = {:e}", x, y, z, dm, dq));
            if x.abs() <= 10.0 && y.abs() <= 10.0 && z.abs() <= 10.0 {
                let ed = Euler { x: Deg(x.to_degrees()), y: Deg(y.to_degrees()), z: Deg(z.to_degrees()) };
                let dd = m3maxdiff(M3::from(ed), want).max(m3maxdiff(M3::from(Q::from(ed)), want));
                ts.rec(dd <= 1e-12, || format!("Euler<Deg<f64>>({:e}, {:e}, {:e}) deg: max|Matrix - reference| = {:e}", x.to_degrees(), y.to_degrees(), z.to_degrees(), dd));
            }
        }
    }
    // exact degree values
    for &d in [-180.0f64, -270.0, 180.0, 90.0, -90.0, -540.0, 360.0].iter() {
        let e = Euler { x: Deg(d), y: Deg(0.0), z: Deg(-d) };
        let want = refm(d.to_radians(), 0.0, (-d).to_radians());
        let dd = m3maxdiff(M3::from(e), want).max(m3maxdiff(M3::from(Q::from(e)), want));
        ts.rec(dd <= 1e-12, || format!("Euler<Deg<f64>>({}, 0, {}): max|Matrix - reference| = {:e}", d, -d, dd));
    }
    ts.print();
}

// ------------------------------------------------------------------------------------ C09
pub fn c09(n: u64, seed: u64) {
    let mut r = R(seed);
    let t = [Tally::new("c09.look_to_rigid_handed"), Tally::new("c09.constructors_agree"), Tally::new("c09.look_at_2d")];
    for _ in 0..n {
        let eye = Point3::from_vec(r.v3());
        let d = r.v3();
        let up = loop {
            let u = r.v3();
            if u.cross(d).magnitude() > 0.2 * u.magnitude() * d.magnitude() {
                break u;
            }
        };
        let rh = M4::look_to_rh(eye, d, up);
        let lh = M4::look_to_lh(eye, d, up);
        let dl = d.magnitude();
        let okr = |m: M4, sign: f64| {
            let rot = upper3(m);
            let tu = m.transform_vector(up);
            is_rotation(rot) && vclose(m.transform_point(eye).to_vec(), V3::zero())
                && vclose(m.transform_vector(d), V3::new(0.0, 0.0, sign * dl)) && close(tu.x, 0.0) && tu.y >= -1e-12
                && close(m.w.w, 1.0) && close(m.x.w, 0.0) && close(m.y.w, 0.0) && close(m.z.w, 0.0)
        };
        t[0].rec(okr(rh, -1.0) && okr(lh, 1.0), || format!("eye={:?} dir={:?} up={:?}", eye, d, up));
        // agreement of the constructors of one handedness
        let center = eye + d;
        let m3l = M3::look_to_lh(d, up);
        let m3r = M3::look_to_rh(d, up);
        let ql: Q = Rotation::look_at(d, up);
        let bl: Basis3<f64> = Rotation::look_at(d, up);
        let dq: Decomposed<V3, Q> = Transform::look_at_lh(eye, center, up);
        let dqr: Decomposed<V3, Q> = Transform::look_at_rh(eye, center, up);
        let db: Decomposed<V3, Basis3<f64>> = Transform::look_at_rh(eye, center, up);
        let p = Point3::from_vec(r.v3());
        let oka = m3close(upper3(lh), m3l) && m3close(upper3(rh), m3r) && m3close(M3::from(ql), m3l) && m3close(M3::from(bl), m3l)
            && m3close(upper3(M4::look_at_rh(eye, center, up)), m3r) && m3close(upper3(M4::look_at_lh(eye, center, up)), m3l)
            && m3close(<M3 as Transform<Point3<f64>>>::look_at_rh(eye, center, up), m3r)
            && m3close(<M3 as Transform<Point3<f64>>>::look_at_lh(eye, center, up), m3l)
            && vclose(dq.transform_point(p).to_vec(), lh.transform_point(p).to_vec())
            && vclose(dqr.transform_point(p).to_vec(), rh.transform_point(p).to_vec())
            && vclose(db.transform_point(p).to_vec(), rh.transform_point(p).to_vec())
            && vclose(M4::look_at_rh(eye, center, up).transform_point(p).to_vec(), rh.transform_point(p).to_vec())
            && vclose(<M4 as Transform<Point3<f64>>>::look_at_lh(eye, center, up).transform_point(p).to_vec(), lh.transform_point(p).to_vec());
        t[1].rec(oka, || format!("eye={:?} dir={:?} up={:?}", eye, d, up));
        // 2-D
        let d2 = r.v2();
        let u2 = loop {
            let u = r.v2();
            if u.perp_dot(d2).abs() > 0.2 * u.magnitude() * d2.magnitude() {
                break u;
            }
        };
        let m2 = Matrix2::look_at(d2, u2);
        let b2: Basis2<f64> = Rotation::look_at(d2, u2);
        let ok2 = v2close(m2.x, d2.normalize()) && close(m2.x.dot(m2.y), 0.0) && close(m2.y.magnitude(), 1.0) && m2.y.dot(u2) >= -1e-12
            && v2close(Matrix2::from(b2).x, m2.x) && v2close(Matrix2::from(b2).y, m2.y);
        t[2].rec(ok2, || format!("dir={:?} up={:?}", d2, u2));
    }
    for x in &t {
        x.print();
    }
    // camera-like inputs: directions along or almost along a coordinate axis with `up` along another axis (either sign): the
    // rotation is then a quarter / half turn or next to one, where the matrix -> quaternion conversion of the Quaternion path
    // switches branches; also very short direction / up vectors (only the directions matter)
    let tc = Tally::new("c09.camera_like_inputs");
    let axes = [V3::unit_x(), -V3::unit_x(), V3::unit_y(), -V3::unit_y(), V3::unit_z(), -V3::unit_z()];
    let offs = [V3::zero(), V3::new(2.0e-7, 0.0, 0.0), V3::new(0.0, -3.0e-5, 1.0e-6), V3::new(1.0e-3, 2.0e-3, -1.0e-3), V3::new(0.0, 0.0, 4.0e-9)];
    for (i, ax) in axes.iter().enumerate() {
        for (j, upa) in axes.iter().enumerate() {
            if i / 2 == j / 2 { continue; }
            for o in offs.iter() {
                for &len in [1.0f64, 1.0e-9, 3.0e-5, 250.0].iter() {
                    let d = (*ax + *o) * len;
                    let up = *upa * if len < 1.0 { 2.0e-9 } else { 1.0 };
                    let m3l = M3::look_to_lh(d, up);
                    let ql: Q = Rotation::look_at(d, up);
                    let bl: Basis3<f64> = Rotation::look_at(d, up);
                    let eye = Point3::new(1.0, -2.0, 3.0);
                    let m4 = M4::look_to_lh(eye, d, up);
                    let dq: Decomposed<V3, Q> = Transform::look_at_lh(eye, eye + d, up);
                    let tolq = 1e-9;
                    let ok = is_rotation(m3l) && (ql.magnitude() - 1.0).abs() <= tolq && m3maxdiff(M3::from(ql), m3l) <= tolq && m3maxdiff(M3::from(bl), m3l) <= 1e-12
                        && m3maxdiff(upper3(m4), m3l) <= 1e-12
                        && (len < 1.0e-6 || m3maxdiff(M3::from(dq.rot), m3l) <= 1e-6)
                        && (m3l * d.normalize() - V3::unit_z()).magnitude() <= 1e-9;
                    tc.rec(ok, || format!("look_at(dir = {:?}, up = {:?}): Matrix3::look_to_lh = {:?}, Quaternion::look_at = {:?} (|q| = {:e}, max|Matrix3::from(q) - look_to_lh| = {:e}), M dir = {:?}",
                        d, up, m3l, ql, ql.magnitude(), m3maxdiff(M3::from(ql), m3l), m3l * d.normalize()));
                    // 2-D with short vectors
                    let d2 = V2::new(d.x + d.z, d.y + 0.5 * d.z);
                    if d2.magnitude2() > 0.0 {
                        let m2 = Matrix2::look_at(d2, V2::new(-d2.y, d2.x));
                        tc.rec(v2close(m2.x, d2 / d2.magnitude()) && close(m2.y.magnitude(), 1.0), || format!("Matrix2::look_at(dir = {:?}): first column {:?}, want {:?}", d2, m2.x, d2 / d2.magnitude()));
                    }
                }
            }
        }
    }
    tc.print();
}

// ------------------------------------------------------------------------------------ C14
fn qdot(a: Q, b: Q) -> f64 {
    a.s * b.s + a.v.dot(b.v)
}
pub fn c14(n: u64, seed: u64) {
    let mut r = R(seed);
    let t = [Tally::new("c14.nlerp"), Tally::new("c14.slerp_far_exact_speed"), Tally::new("c14.slerp_near_1e-5"), Tally::new("c14.endpoints")];
    for i in 0..n {
        let a = r.uq();
        let b = match i % 4 {
            0 => {
                // nearly parallel (inside the nlerp hand-over)
                let p = r.uq();
                (a + p * r.f(0.0, 0.03)).normalize() * if r.u() % 2 == 0 { 1.0 } else { -1.0 }
            }
            1 => {
                let p = r.uq();
                (-a + p * r.f(0.0, 0.2)).normalize()
            }
            _ => r.uq(),
        };
        let tt = match i % 5 { 0 => 0.0, 1 => 1.0, _ => r.f(0.0, 1.0) };
        let d = qdot(a, b);
        let bb = if d < 0.0 { -b } else { b };
        let theta = d.abs().min(1.0).acos();
        // in the plane of a and b', on the short arc: x = alpha a + beta b', alpha, beta >= 0
        // chord-based angle (well conditioned near 0)
        let ang = |p: Q, q: Q| 2.0 * ((p - q).magnitude() / 2.0).min(1.0).asin();
        // in the plane of a and b' and on the short arc between them:
        // residual after projecting on an orthonormal basis of span{a, b'} is tiny, and the
        // arcs a->x and x->b' add up to the arc a->b'
        let in_plane = |x: Q| {
            let g = qdot(a, bb);
            let e2 = bb - a * g;
            let l2 = e2.magnitude();
            let planar = if l2 > 1e-6 {
                let e2 = e2 / l2;
                (x - a * qdot(x, a) - e2 * qdot(x, e2)).magnitude() < 1e-7
            } else {
                (x - a * qdot(x, a)).magnitude() < 1e-5
            };
            planar && (ang(a, x) + ang(x, bb) - ang(a, bb)).abs() < 1e-6
        };
        let nl = a.nlerp(b, tt);
        t[0].rec(close(nl.magnitude(), 1.0) && in_plane(nl), || format!("a={:?} b={:?} t={}", a, b, tt));
        let sl = a.slerp(b, tt);
        let arc = qdot(a, sl).min(1.0).max(-1.0).acos();
        if d.abs() <= 0.9995 {
            let ok = close(sl.magnitude(), 1.0) && in_plane(sl) && (arc - tt * theta).abs() < 1e-7
                && (qdot(bb, sl).min(1.0).acos() - (1.0 - tt) * theta).abs() < 1e-7;
            t[1].rec(ok, || format!("a={:?} b={:?} t={} arc={} want={}", a, b, tt, arc, tt * theta));
        } else {
            // acos near 1 is ill-conditioned: measure the arc through the chord instead
            let chord = (sl - a).magnitude();
            let arc2 = 2.0 * (chord / 2.0).min(1.0).asin();
            let ok = close(sl.magnitude(), 1.0) && (arc2 - tt * theta).abs() <= 1e-5 + 1e-9;
            t[2].rec(ok, || format!("a={:?} b={:?} t={} arc={} want={}", a, b, tt, arc2, tt * theta));
        }
        let e0n = a.nlerp(b, 0.0);
        let e1n = a.nlerp(b, 1.0);
        let e0s = a.slerp(b, 0.0);
        let e1s = a.slerp(b, 1.0);
        let same = |x: Q, y: Q| (x - y).magnitude() < 1e-9;
        t[3].rec(same(e0n, a) && same(e1n, bb) && same(e0s, a) && same(e1s, bb), || format!("a={:?} b={:?}", a, b));
    }
    for x in &t {
        x.print();
    }
}

// ------------------------------------------------------------------------------------ C15
pub fn c15(n: u64, seed: u64) {
    let mut r = R(seed);
    let t = [Tally::new("c15.between_vectors_3d"), Tally::new("c15.between_vectors_opposite"), Tally::new("c15.between_vectors_2d"),
             Tally::new("c15.from_arc"), Tally::new("c15.from_arc_opposite_fallback")];
    for i in 0..n {
        let a = r.unit3();
        let b = match i % 6 {
            0 => a,
            _ => r.unit3(),
        };
        let ang = a.dot(b).min(1.0).max(-1.0).acos();
        let q: Q = Rotation::between_vectors(a, b);
        let b3: Basis3<f64> = Rotation::between_vectors(a, b);
        // rotation angle of a unit quaternion: 2 acos |s|; axis = v
        let qang = 2.0 * q.s.abs().min(1.0).acos();
        let axis_ok = q.v.magnitude() < 1e-9 || (close(q.v.dot(a) / q.v.magnitude(), 0.0) && close(q.v.dot(b) / q.v.magnitude(), 0.0));
        let ok = close(q.magnitude(), 1.0) && vclose(q * a, b) && (qang - ang).abs() < 1e-6 && axis_ok
            && vclose(b3.rotate_vector(a), b) && m3close(M3::from(b3), M3::from(q));
        t[0].rec(ok, || format!("a={:?} b={:?} q={:?}", a, b, q));
        // exactly opposite
        let qo: Q = Rotation::between_vectors(a, -a);
        let oko = close(qo.magnitude(), 1.0) && vclose(qo * a, -a) && close(qo.s, 0.0) && close(qo.v.dot(a), 0.0);
        t[1].rec(oko, || format!("a={:?} q={:?}", a, qo));
        // 2-D
        let (a2, b2) = (r.unit2(), r.unit2());
        let rb: Basis2<f64> = Rotation::between_vectors(a2, b2);
        let m2 = Matrix2::from(rb);
        // signed angle of the rotation, read off its first column
        let rot_angle = m2.x.y.atan2(m2.x.x);
        let want = a2.perp_dot(b2).atan2(a2.dot(b2));
        let ok2 = v2close(rb.rotate_vector(a2), b2) && ((rot_angle - want).abs() < 1e-9 || close(want.abs(), PI))
            && close(m2.determinant(), 1.0);
        t[2].rec(ok2, || format!("a={:?} b={:?} m={:?}", a2, b2, m2));
        // from_arc: arbitrary lengths in [1e-3, 1e3]
        let (la, lb) = ((10.0f64).powf(r.f(-3.0, 3.0)), (10.0f64).powf(r.f(-3.0, 3.0)));
        let (src, dst) = (a * la, b * lb);
        let qa = Q::from_arc(src, dst, None);
        let qang2 = 2.0 * qa.s.abs().min(1.0).acos();
        let oka = close(qa.magnitude(), 1.0) && (qa * a - b).magnitude() < 2e-4 && (qang2 - ang).abs() < 2e-4;
        t[3].rec(oka, || format!("src={:?} dst={:?} q={:?}", src, dst, qa));
        // opposite with / without fallback
        let fb = loop {
            let f = r.unit3();
            let p = (f - a * f.dot(a)).magnitude();
            if p > 0.3 {
                break (f - a * f.dot(a)).normalize();
            }
        };
        let qf = Q::from_arc(a * la, -a * lb, Some(fb));
        let qn = Q::from_arc(a * la, -a * lb, None);
        let okf = close(qf.magnitude(), 1.0) && vclose(qf * a, -a) && vclose(qf.v.normalize(), fb) && close(qn.magnitude(), 1.0)
            && vclose(qn * a, -a) && close(qn.v.dot(a), 0.0);
        t[4].rec(okf, || format!("a={:?} fallback={:?} qf={:?} qn={:?}", a, fb, qf, qn));
    }
    for x in &t {
        x.print();
    }
    // 2-D: exactly opposite, axis-aligned and not (the signed angle is +-pi there), and quarter turns of either sense
    let t2 = Tally::new("c15.between_vectors_2d_special");
    for (a2, b2) in [((0.0f64, 1.0f64), (0.0f64, -1.0f64)), ((-1.0, 0.0), (1.0, 0.0)), ((1.0, 0.0), (-1.0, 0.0)), ((0.0, -1.0), (0.0, 1.0)),
                     ((0.6, 0.8), (-0.6, -0.8)), ((-0.8, 0.6), (0.8, -0.6)), ((1.0, 0.0), (0.0, 1.0)), ((1.0, 0.0), (0.0, -1.0)), ((0.0, 1.0), (1.0, 0.0)), ((0.0, -1.0), (-1.0, 0.0))].iter() {
        let (a, b) = (V2::new(a2.0, a2.1), V2::new(b2.0, b2.1));
        let r: Basis2<f64> = Rotation::between_vectors(a, b);
        let r32: Basis2<f32> = Rotation::between_vectors(Vector2::new(a2.0 as f32, a2.1 as f32), Vector2::new(b2.0 as f32, b2.1 as f32));
        let i32_ = r32.rotate_vector(Vector2::new(a2.0 as f32, a2.1 as f32));
        let ok = v2close(r.rotate_vector(a), b) && close(Matrix2::from(r).determinant(), 1.0)
            && (i32_.x as f64 - b.x).abs() <= 1e-6 && (i32_.y as f64 - b.y).abs() <= 1e-6;
        t2.rec(ok, || format!("Basis2::between_vectors(a = {:?}, b = {:?}): r(a) = {:?} (f32: {:?})", a, b, r.rotate_vector(a), i32_));
    }
    t2.print();
    // exactly opposite src/dst along every coordinate axis (both directions) and in every coordinate plane, several lengths,
    // no fallback: a unit quaternion, half turn about an axis perpendicular to src, taking src/|src| onto dst/|dst|
    let tx = Tally::new("c15.from_arc_opposite_axis_aligned");
    let dirs: [[f64; 3]; 14] = [[1.0, 0.0, 0.0], [-1.0, 0.0, 0.0], [0.0, 1.0, 0.0], [0.0, -1.0, 0.0], [0.0, 0.0, 1.0], [0.0, 0.0, -1.0],
        [0.6, 0.8, 0.0], [-0.6, 0.8, 0.0], [0.0, -0.6, 0.8], [0.8, 0.0, -0.6], [-0.8, -0.6, 0.0], [0.0, -0.8, -0.6], [-0.6, 0.0, -0.8], [-0.6, 0.0, 0.8]];
    for d in dirs.iter() {
        for &(la, lb) in [(1.0f64, 1.0f64), (3.0, 5.0), (1.0e-3, 2.0), (250.0, 1.0e-2)].iter() {
            let a = Vector3::new(d[0], d[1], d[2]);
            let q = Q::from_arc(a * la, -a * lb, None);
            let ok = close(q.magnitude(), 1.0) && vclose(q * a, -a) && close(q.v.dot(a), 0.0) && q.s.abs() < 1e-9;
            tx.rec(ok, || format!("from_arc(src = {:?}, dst = {:?}, None) = {:?}", a * la, -a * lb, q));
            let a32 = Vector3::new(d[0] as f32, d[1] as f32, d[2] as f32);
            let q32 = Quaternion::<f32>::from_arc(a32 * (la as f32), -a32 * (lb as f32), None);
            let ok32 = (q32.magnitude() - 1.0).abs() < 1e-5 && (q32 * a32 + a32).magnitude() < 1e-4 && q32.v.dot(a32).abs() < 1e-5;
            tx.rec(ok32, || format!("f32 from_arc(src = {:?}, dst = {:?}, None) = {:?}", a32 * (la as f32), -a32 * (lb as f32), q32));
        }
    }
    tx.print();
    c15_probes();
}

/// known-finding probes: `from_arc` on SHORT vectors.  Its parallel / antiparallel tests `ulps_eq!(dot, +-mag_avg)` use the
/// absolute default epsilon, so once |src||dst| is below it every pair of directions is "parallel"; and the test
/// `ulps_eq!(unit_x x src, 0)` is absolute as well, so a tiny src along y finds no axis
pub fn c15_probes() {
    let x = Vector3::new(1.0f64, 0.0, 0.0);
    let q = Quaternion::<f64>::from_arc(Vector3::new(1.0e-8, 0.0, 0.0), Vector3::new(0.0, 1.0e-8, 0.0), None);
    let r = q * x;
    println!("probe f64.from_arc.short_vectors input=src=(1e-8,0,0),dst=(0,1e-8,0) output={:?} ok={}", q,
        (r - Vector3::new(0.0, 1.0, 0.0)).magnitude() <= 1.0e-9);
    let q32 = Quaternion::<f32>::from_arc(Vector3::new(1.0e-4, 0.0, 0.0), Vector3::new(0.0, 2.0e-4, 0.0), None);
    let r32 = q32 * Vector3::new(1.0f32, 0.0, 0.0);
    println!("probe f32.from_arc.short_vectors input=src=(1e-4,0,0),dst=(0,2e-4,0) output={:?} ok={}", q32,
        (r32 - Vector3::new(0.0, 1.0, 0.0)).magnitude() <= 1.0e-4);
    let qo = Quaternion::<f64>::from_arc(Vector3::new(1.0e-8, 0.0, 0.0), Vector3::new(-1.0e-8, 0.0, 0.0), None);
    println!("probe f64.from_arc.short_opposite input=src=(1e-8,0,0),dst=(-1e-8,0,0) output={:?} ok={}", qo,
        (qo * x + x).magnitude() <= 1.0e-9);
    let qt = Quaternion::<f64>::from_arc(Vector3::new(0.0, 1.0e-20, 0.0), Vector3::new(0.0, -1.0e10, 0.0), None);
    let y = Vector3::new(0.0f64, 1.0, 0.0);
    println!("probe f64.from_arc.tiny_src_opposite input=src=(0,1e-20,0),dst=(0,-1e10,0) output={:?} ok={}", qt,
        (qt.magnitude() - 1.0).abs() <= 1.0e-9 && (qt * y + y).magnitude() <= 1.0e-9);
}
