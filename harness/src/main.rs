mod big;
mod book03;
mod book16;
mod book17;
mod book18;
mod book20;
mod book19;
mod floatchk;
mod native;
mod narrow;
mod ops;
mod scalar;
mod trace;

use big::Rat;
use ops::{Args, Out, Val};
use scalar::X;
use std::io::{BufRead, Write};
use std::panic;

fn show(o: &Out) -> String {
    match o {
        Out::Ok(vs) => {
            let mut s = String::from("ok");
            for v in vs {
                s.push(' ');
                match v {
                    Val::S(x) => s.push_str(&x.val().show()),
                    Val::B(true) => s.push('T'),
                    Val::B(false) => s.push('F'),
                }
            }
            s
        }
        Out::None => "none".into(),
        Out::Skip => "skip".into(),
        Out::BadArgs => "bad-args".into(),
    }
}

/// parse one op line into (name, args)
fn parse(line: &str, trace: bool) -> Option<(String, Args)> {
    let mut it = line.split_whitespace();
    let name = it.next()?.to_string();
    let mut xs = vec![];
    let mut is = vec![];
    for t in it {
        if let Some(k) = t.strip_prefix('#') {
            is.push(k.parse().ok()?);
        } else {
            let r = Rat::parse(t)?;
            let i = xs.len() as u32;
            xs.push(if trace { X::input(r, i) } else { X::konst(r) });
        }
    }
    Some((name, Args { xs, is, px: 0, pi: 0, bad: false }))
}

fn run_line(line: &str) -> String {
    scalar::reset();
    let (name, mut args) = match parse(line, false) {
        Some(p) => p,
        None => return "bad-line".into(),
    };
    let f = match ops::lookup(&name) {
        Some(f) => f,
        None => return "unknown-op".into(),
    };
    let r = panic::catch_unwind(panic::AssertUnwindSafe(|| {
        let o = f(&mut args);
        if args.bad || args.px != args.xs.len() || args.pi != args.is.len() {
            Out::BadArgs
        } else {
            o
        }
    }));
    match r {
        Ok(o) => show(&o),
        Err(_) => "panic".into(),
    }
}

fn main() {
    let argv: Vec<String> = std::env::args().collect();
    let mode = argv.get(1).map(|s| s.as_str()).unwrap_or("run");
    if mode == "run" {
        panic::set_hook(Box::new(|_| {}));
    }
    match mode {
        "run" => {
            let stdin = std::io::stdin();
            let stdout = std::io::stdout();
            let mut out = std::io::BufWriter::new(stdout.lock());
            for line in stdin.lock().lines() {
                let line = line.unwrap();
                let t = line.trim();
                if t.is_empty() || t.starts_with("//") {
                    continue;
                }
                if let Some(s) = t.strip_prefix("seed ") {
                    scalar::set_seed(s.trim().parse().unwrap());
                    continue;
                }
                writeln!(out, "{}", run_line(t)).unwrap();
            }
        }
        "native" => {
            let which = argv.get(2).map(|s| s.as_str()).unwrap_or("");
            let n: u64 = argv.get(3).and_then(|s| s.parse().ok()).unwrap_or(100000);
            let seed: u64 = argv.get(4).and_then(|s| s.parse().ok()).unwrap_or(1);
            let full = argv.get(5).map(|s| s == "full").unwrap_or(false);
            match which {
                "c13" => native::c13(n, seed, full),
                "c03" | "c12" => book03::c03(n, seed),
                "c16" => book16::c16(),
                "c17" => book17::c17(n, seed, &argv[5.min(argv.len())..]),
                "c17sym" => book17::c17_symbolic(),
                "c18" => book18::c18(),
                "c20" => book20::c20(n as usize, seed),
                "c19" => book19::c19(n as usize),
                "c06" => floatchk::c06(n, seed),
                "c07" => floatchk::c07(n, seed),
                "c09" => floatchk::c09(n, seed),
                "c11" => floatchk::c11(n, seed),
                "c14" => floatchk::c14(n, seed),
                "c15" => floatchk::c15(n, seed),
                w if w.starts_with("nr") => narrow::run(w, n, seed),
                _ => {
                    eprintln!("unknown native check");
                    std::process::exit(2);
                }
            }
        }
        "trace" => {
            panic::set_hook(Box::new(|_| {}));
            trace::run(argv.get(2).map(|s| s.as_str()).unwrap_or("X"));
        }
        "list" => {
            for n in ops::all_names() {
                println!("{}", n);
            }
        }
        _ => {
            eprintln!("usage: cgverif run|list");
            std::process::exit(2);
        }
    }
}
