import Cgm.Model.Scalar
import Cgm.Model.Vec
import Cgm.Model.Point
import Cgm.Model.Mat
import Cgm.Lemmas.Tac
import Cgm.Lemmas.AuditCmd
import Cgm.Props.C03
