import Cgm.Props.C13b
import Cgm.Model.Assign
/-!
# C13 (third part) — the angle operators, `sin_cos`, reciprocal trigonometry, `turn_div_k` per unit

Audit gaps 1, 4 (part), 5 (part) of props_gap_report2.md, C13 section.  The angle operators are now
model definitions (`Cgm/Model/Assign.lean`: `Angle.add/sub/neg/mulS/divS/divA/rem/zero/sum`, the
compound assignments, `Rad.sinCos`/`Deg.sinCos`, `Rad.turnDiv`/`Deg.turnDiv`) mirroring
`impl_angle!` (src/angle.rs:84-173) on the underlying number; `Rad<S>` and `Deg<S>` being newtypes
over `S`, both are that number in the model.

* `angle_ops_underlying`, `angle_assign_underlying`, `angle_sum_underlying`: `+,-,neg,*,/,%,Sum`
  and the `op=` forms are the scalar operation on the underlying number(s);
* `angle_ops_convert`: they commute with the change of unit (so "the same angle" is computed in
  either unit), `Angle / Angle` is unit-free, `%` scales;
* `sinCos_eq`, `sinCos_real`: `sin_cos a = (sin a, cos a)`, over `ℝ` the real functions of the
  radian measure `a` resp. `a·π/180`;
* `recip_trig_rad`, `recip_trig_deg`: `csc/sec/cot` are the reciprocals of the real functions;
* `turn_div_mul`: the eight identities `turn_div_k() * k = full_turn()`; `turn_div_real`: the values.
-/
set_option linter.unusedSectionVars false
set_option linter.unusedVariables false
namespace Cg.C13
open Cg

/-! ## the operators act on the underlying number -/
section ops
variable {α : Type}

/-- `+ - neg * / %` on `Rad`/`Deg`: the scalar operation on the wrapped number
(`$Angle(lhs.0 + rhs.0)` ...); `Angle / Angle` returns the bare scalar -/
theorem angle_ops_underlying [Add α] [Sub α] [Neg α] [Mul α] [Div α] [FRem α] [OfNat α 0] (a b s : α) :
    Angle.add a b = a + b ∧ Angle.sub a b = a - b ∧ Angle.neg a = -a ∧
    Angle.mulS a s = a * s ∧ Angle.divS a s = a / s ∧ Angle.divA a b = a / b ∧
    Angle.rem a b = FRem.frem a b ∧ (Angle.zero : α) = 0 :=
  ⟨rfl, rfl, rfl, rfl, rfl, rfl, rfl, rfl⟩
/-- the compound assignments `+= -= %= *= /=` (`self.0 += other.0;` ...) store the value of the
by-value operator -/
theorem angle_assign_underlying [Add α] [Sub α] [Mul α] [Div α] [FRem α] (a b s : α) :
    Angle.addAssign a b = Angle.add a b ∧ Angle.subAssign a b = Angle.sub a b ∧
    Angle.remAssign a b = Angle.rem a b ∧ Angle.mulAssignS a s = Angle.mulS a s ∧
    Angle.divAssignS a s = Angle.divS a s := ⟨rfl, rfl, rfl, rfl, rfl⟩
/-- `Sum` (by value and over references): the model's `sumList` IS the left fold with `+` from `zero()` (first two conjuncts:
`rfl` on the model's definition, so "any length" is by construction; the traced kernels cover length 3 only), and the
by-reference fold equals the by-value one on the dereferenced list -/
theorem angle_sum_underlying [Add α] [OfNat α 0] (l : List α) :
    Rad.sumList l = l.foldl (· + ·) 0 ∧ Deg.sumList l = l.foldl (· + ·) 0 ∧
    (∀ {ρ : Type} (deref : ρ → α) (it : List ρ), Angle.sumRefs deref it = Angle.sum (it.map deref)) := by
  refine ⟨rfl, rfl, fun deref it => ?_⟩
  simp [Angle.sumRefs, foldRefs, Angle.sum, List.foldl_map]
/-- the three-element case of the tests and of the traced kernels (`t_rad_sum_list`) -/
example [Add α] [OfNat α 0] (a b c : α) : Angle.sum [a, b, c] = 0 + a + b + c := rfl
end ops

section ops_real
/-- over `ℝ`: `Sum` is the sum of the underlying numbers (in any order) -/
theorem angle_sum_real (l : List ℝ) :
    Rad.sumList l = l.sum ∧ Deg.sumList l = l.sum ∧ ∀ l', l.Perm l' → Angle.sum l = Angle.sum l' := by
  have h : ∀ l : List ℝ, Angle.sum l = l.sum := fun l => by
    rw [List.sum_eq_foldl]; rfl
  refine ⟨h l, h l, fun l' hp => ?_⟩
  rw [h, h]; exact hp.sum_eq

/-- the operators commute with the change of unit: computing in degrees or in radians gives the
same angle; the ratio of two angles does not depend on the unit; `%` scales with the unit -/
theorem angle_ops_convert (a b s : ℝ) :
    radToDeg (Angle.add a b) = Angle.add (radToDeg a) (radToDeg b) ∧
    radToDeg (Angle.sub a b) = Angle.sub (radToDeg a) (radToDeg b) ∧
    radToDeg (Angle.neg a) = Angle.neg (radToDeg a) ∧
    radToDeg (Angle.mulS a s) = Angle.mulS (radToDeg a) s ∧
    radToDeg (Angle.divS a s) = Angle.divS (radToDeg a) s ∧
    Angle.divA (radToDeg a) (radToDeg b) = Angle.divA a b ∧
    radToDeg (Angle.rem a b) = Angle.rem (radToDeg a) (radToDeg b) := by
  have hk : (180 / Real.pi : ℝ) ≠ 0 := div_ne_zero (by norm_num) Real.pi_ne_zero
  simp only [radToDeg, lits_rad2deg, Angle.add, Angle.sub, Angle.neg, Angle.mulS, Angle.divS,
    Angle.divA, Angle.rem, frem_real, fremF]
  refine ⟨by ring, by ring, by ring, by ring, by ring, mul_div_mul_right _ _ hk, ?_⟩
  rw [mul_div_mul_right _ _ hk]; ring
/-- the same for `Sum` -/
theorem angle_sum_convert (l : List ℝ) : radToDeg (Angle.sum l) = Angle.sum (l.map radToDeg) := by
  have gen : ∀ (l : List ℝ) (z : ℝ),
      radToDeg (l.foldl Angle.add z) = (l.map radToDeg).foldl Angle.add (radToDeg z) := by
    intro l
    induction l with
    | nil => intro z; rfl
    | cons x l ih =>
      intro z
      simp only [List.foldl_cons, List.map_cons]
      rw [ih, (angle_ops_convert z x 0).1]
  have := gen l 0
  simpa [Angle.sum, Angle.zero, radToDeg] using this
/-- e.g. `90° + 45° - 15° = 120°`, `(2π/3) / (π/3) = 2` -/
example : Angle.sub (Angle.add (90 : ℝ) 45) 15 = 120 ∧
    Angle.divA (2 * Real.pi / 3) (Real.pi / 3) = 2 := by
  have := Real.pi_ne_zero
  refine ⟨by norm_num [Angle.add, Angle.sub], ?_⟩
  simp only [Angle.divA]; field_simp
end ops_real

/-! ## `sin_cos` -/
section sincos
/-- `sin_cos a = (sin a, cos a)` for both units, any scalar -/
theorem sinCos_eq {α : Type} [Mul α] [Transc α] [Lits α] (a : α) :
    Rad.sinCos a = (Rad.sin a, Rad.cos a) ∧ Deg.sinCos a = (Deg.sin a, Deg.cos a) := ⟨rfl, rfl⟩
/-- the radian measure of `a` degrees -/
theorem degToRad_real (a : ℝ) : degToRad a = a * Real.pi / 180 := by
  simp only [degToRad, lits_deg2rad]; ring
/-- over `ℝ`: the real functions of the radian measure -/
theorem sinCos_real (a : ℝ) :
    Rad.sinCos a = (Real.sin a, Real.cos a) ∧
    Deg.sinCos a = (Real.sin (a * Real.pi / 180), Real.cos (a * Real.pi / 180)) := by
  refine ⟨rfl, ?_⟩
  rw [← degToRad_real]; rfl
/-- `Deg` trigonometry in terms of `π/180` explicitly -/
theorem deg_trig_real (a : ℝ) :
    Deg.sin a = Real.sin (a * Real.pi / 180) ∧ Deg.cos a = Real.cos (a * Real.pi / 180) ∧
    Deg.tan a = Real.tan (a * Real.pi / 180) := by
  rw [← degToRad_real]; exact ⟨rfl, rfl, rfl⟩
/-- `sin_cos 90° = (1, 0)`, `sin_cos π = (0, -1)` -/
example : Deg.sinCos (90 : ℝ) = (1, 0) ∧ Rad.sinCos Real.pi = (0, -1) := by
  constructor
  · rw [(sinCos_real 90).2]
    have : (90 : ℝ) * Real.pi / 180 = Real.pi / 2 := by ring
    rw [this, Real.sin_pi_div_two, Real.cos_pi_div_two]
  · rw [(sinCos_real Real.pi).1, Real.sin_pi, Real.cos_pi]
end sincos

/-! ## `csc`, `sec`, `cot`: reciprocals of the real functions -/
section recip
/-- radians -/
theorem recip_trig_rad (a : ℝ) :
    Rad.csc a = (Real.sin a)⁻¹ ∧ Rad.sec a = (Real.cos a)⁻¹ ∧ Rad.cot a = (Real.tan a)⁻¹ ∧
    Rad.cot a = Real.cos a / Real.sin a ∧
    (Real.sin a ≠ 0 → Rad.csc a * Real.sin a = 1) ∧ (Real.cos a ≠ 0 → Rad.sec a * Real.cos a = 1) ∧
    (Real.tan a ≠ 0 → Rad.cot a * Real.tan a = 1) := by
  have h1 : Rad.csc a = (Real.sin a)⁻¹ := by simp [Rad.csc, Rad.sin]
  have h2 : Rad.sec a = (Real.cos a)⁻¹ := by simp [Rad.sec, Rad.cos]
  have h3 : Rad.cot a = (Real.tan a)⁻¹ := by simp [Rad.cot, Rad.tan]
  refine ⟨h1, h2, h3, ?_, ?_, ?_, ?_⟩
  · rw [h3, Real.tan_eq_sin_div_cos, inv_div]
  · intro h; rw [h1, inv_mul_cancel₀ h]
  · intro h; rw [h2, inv_mul_cancel₀ h]
  · intro h; rw [h3, inv_mul_cancel₀ h]
/-- degrees: the same at the radian measure `a·π/180` -/
theorem recip_trig_deg (a : ℝ) :
    Deg.csc a = (Real.sin (a * Real.pi / 180))⁻¹ ∧ Deg.sec a = (Real.cos (a * Real.pi / 180))⁻¹ ∧
    Deg.cot a = (Real.tan (a * Real.pi / 180))⁻¹ ∧
    Deg.cot a = Real.cos (a * Real.pi / 180) / Real.sin (a * Real.pi / 180) ∧
    Deg.csc a = Rad.csc (degToRad a) ∧ Deg.sec a = Rad.sec (degToRad a) ∧
    Deg.cot a = Rad.cot (degToRad a) := by
  obtain ⟨h1, h2, h3, h4, -⟩ := recip_trig_rad (degToRad a)
  have e := degToRad_real a
  refine ⟨?_, ?_, ?_, ?_, rfl, rfl, rfl⟩
  · rw [← e]; exact h1
  · rw [← e]; exact h2
  · rw [← e]; exact h3
  · rw [← e]; exact h4
/-- `csc 30° = 2`, `sec 60° = 2`, `cot 45° = 1`, `csc (π/2) = 1` -/
example : Deg.csc (30 : ℝ) = 2 ∧ Deg.sec (60 : ℝ) = 2 ∧ Deg.cot (45 : ℝ) = 1 ∧ Rad.csc (Real.pi / 2) = 1 := by
  have e30 : (30 : ℝ) * Real.pi / 180 = Real.pi / 6 := by ring
  have e60 : (60 : ℝ) * Real.pi / 180 = Real.pi / 3 := by ring
  have e45 : (45 : ℝ) * Real.pi / 180 = Real.pi / 4 := by ring
  refine ⟨?_, ?_, ?_, ?_⟩
  · rw [(recip_trig_deg 30).1, e30, Real.sin_pi_div_six]; norm_num
  · rw [(recip_trig_deg 60).2.1, e60, Real.cos_pi_div_three]; norm_num
  · rw [(recip_trig_deg 45).2.2.1, e45, Real.tan_pi_div_four]; norm_num
  · rw [(recip_trig_rad (Real.pi / 2)).1, Real.sin_pi_div_two]; norm_num
end recip

/-! ## `turn_div_k() * k = full_turn()`, both units -/
section turns
variable {𝕜 : Type} [Field 𝕜] [CharZero 𝕜] [Lits 𝕜]
/-- all eight identities (`*` is `Angle * scalar`), over any field of characteristic 0 and any
value of the `full_turn` literal -/
theorem turn_div_mul :
    Angle.mulS (Rad.turnDiv 2 : 𝕜) 2 = Lits.radFull ∧ Angle.mulS (Rad.turnDiv 3 : 𝕜) 3 = Lits.radFull ∧
    Angle.mulS (Rad.turnDiv 4 : 𝕜) 4 = Lits.radFull ∧ Angle.mulS (Rad.turnDiv 6 : 𝕜) 6 = Lits.radFull ∧
    Angle.mulS (Deg.turnDiv 2 : 𝕜) 2 = degFull ∧ Angle.mulS (Deg.turnDiv 3 : 𝕜) 3 = degFull ∧
    Angle.mulS (Deg.turnDiv 4 : 𝕜) 4 = degFull ∧ Angle.mulS (Deg.turnDiv 6 : 𝕜) 6 = degFull := by
  obtain ⟨r2, r3, r4, r6⟩ := turnDiv_mul (Lits.radFull : 𝕜)
  obtain ⟨d2, d3, d4, d6⟩ := turnDiv_mul (degFull : 𝕜)
  exact ⟨r2, r3, r4, r6, d2, d3, d4, d6⟩
/-- adding `k` copies gives the full turn as well (`turn_div_3 + turn_div_3 + turn_div_3`) -/
theorem turn_div_3_add :
    Angle.add (Angle.add (Deg.turnDiv 3 : 𝕜) (Deg.turnDiv 3)) (Deg.turnDiv 3) = degFull ∧
    Angle.add (Angle.add (Rad.turnDiv 3 : 𝕜) (Rad.turnDiv 3)) (Rad.turnDiv 3) = Lits.radFull := by
  simp only [Angle.add, Deg.turnDiv, Rad.turnDiv, Angle.turnDiv, Nat.cast_ofNat]
  constructor <;> ring
end turns
/-- the values over `ℝ`: `π, 2π/3, π/2, π/3` and `180, 120, 90, 60`; the `Rad` value converts to
the `Deg` value for every divisor -/
theorem turn_div_real :
    (Rad.turnDiv 2 : ℝ) = Real.pi ∧ (Rad.turnDiv 3 : ℝ) = 2 * Real.pi / 3 ∧
    (Rad.turnDiv 4 : ℝ) = Real.pi / 2 ∧ (Rad.turnDiv 6 : ℝ) = Real.pi / 3 ∧
    (Deg.turnDiv 2 : ℝ) = 180 ∧ (Deg.turnDiv 3 : ℝ) = 120 ∧ (Deg.turnDiv 4 : ℝ) = 90 ∧
    (Deg.turnDiv 6 : ℝ) = 60 ∧ ∀ k : ℕ, radToDeg (Rad.turnDiv k : ℝ) = Deg.turnDiv k := by
  simp only [Rad.turnDiv, Deg.turnDiv, Angle.turnDiv, lits_radFull, degFull_real, Nat.cast_ofNat]
  refine ⟨by ring, trivial, by ring, by ring, by norm_num, by norm_num, by norm_num, by norm_num, ?_⟩
  intro k
  have h := full_turn_real.2.1
  simp only [radToDeg] at h ⊢
  rw [div_mul_eq_mul_div, h]

end Cg.C13
