import Cgm.Lemmas.QuatBridge
import Mathlib.Algebra.Order.Field.Basic
import Mathlib.Tactic.Positivity
import Mathlib.Tactic.Linarith
/-!
# C04 — Hamilton's algebra; unit quaternions act as rotations
`toH` is the bridge to Mathlib's `ℍ[K]`.  `unit q` is `q.magnitude2 = 1`.
-/
set_option linter.unusedSectionVars false
namespace Cg.C04
open Cg Quaternion
variable {K : Type} [CommRing K] {F : Type} [Field F]

/-- the model's product is Hamilton's product -/
theorem toH_mul (p q : Quat K) : (p * q).toH = p.toH * q.toH := Quat.toH_mul p q

theorem mul_assoc (p q r : Quat K) : (p * q) * r = p * (q * r) := by
  apply Quat.toH_inj; simp only [Quat.toH_mul, _root_.mul_assoc]
theorem mul_add (p q r : Quat K) : p * (q + r) = p * q + p * r ∧ (p + q) * r = p * r + q * r := by
  constructor <;> (apply Quat.toH_inj; simp only [Quat.toH_mul, Quat.toH_add, _root_.mul_add, _root_.add_mul])
theorem one_mul (p : Quat K) : Quat.one * p = p ∧ p * Quat.one = p := by
  constructor <;> (apply Quat.toH_inj; simp only [Quat.toH_mul, Quat.toH_one, _root_.one_mul, _root_.mul_one])
theorem conj_mul (p q : Quat K) : (p * q).conjugate = q.conjugate * p.conjugate := by
  apply Quat.toH_inj; simp only [Quat.toH_mul, Quat.toH_conj, star_mul]
/-- `|p q|² = |p|² |q|²` -/
theorem magnitude2_mul (p q : Quat K) : (p * q).magnitude2 = p.magnitude2 * q.magnitude2 := by
  simp; ring
theorem magnitude2_eq (p : Quat K) :
    p.magnitude2 = p.s * p.s + (p.v.x * p.v.x + p.v.y * p.v.y + p.v.z * p.v.z) ∧
    p.magnitude2 = Quat.dot p p := by
  constructor
  · simp; ring
  · rfl
/-- component-wise sum, difference, negation, scalar multiples -/
theorem linear_ops (p q : Quat F) (k : F) :
    (p + q).toH = p.toH + q.toH ∧ (p - q).toH = p.toH - q.toH ∧ (-p).toH = -p.toH ∧
    (p * k).toH = k • p.toH ∧ p / k = p * k⁻¹ := by
  refine ⟨Quat.toH_add p q, Quat.toH_sub p q, Quat.toH_neg p, Quat.toH_smul p k, ?_⟩
  ext <;> simp <;> ring

/-- under the hypothesis `|q|² ≠ 0` (stated as `q.magnitude2 ≠ 0`; that this is the same as `q ≠ 0`, true in an ordered field,
is not proved here) the rotation inverse is a two-sided inverse -/
theorem mul_invert (q : Quat F) (h : q.magnitude2 ≠ 0) :
    q * q.invert = Quat.one ∧ q.invert * q = Quat.one := by
  have e : q.invert = q.conjugate * (1 / q.magnitude2) := by
    ext <;> simp [div_eq_mul_inv]
  have p1 : ∀ k : F, q * (q.conjugate * k) = Quat.fromSv (q.magnitude2 * k) V3.zero := by
    intro k; ext <;> simp <;> ring
  have p2 : ∀ k : F, (q.conjugate * k) * q = Quat.fromSv (q.magnitude2 * k) V3.zero := by
    intro k; ext <;> simp <;> ring
  rw [e, p1, p2, mul_one_div_cancel h]
  exact ⟨rfl, rfl⟩
/-- over an ordered field, `|q|² = 0` only for the zero quaternion -/
theorem magnitude2_eq_zero_iff {L : Type} [Field L] [LinearOrder L] [IsStrictOrderedRing L]
    (q : Quat L) : q.magnitude2 = 0 ↔ q = Quat.zero := by
  constructor
  · intro h
    have h' : q.s * q.s + (q.v.x * q.v.x + (q.v.y * q.v.y + q.v.z * q.v.z)) = 0 := by simpa using h
    have hs : q.s = 0 := by nlinarith [mul_self_nonneg q.s, mul_self_nonneg q.v.x, mul_self_nonneg q.v.y, mul_self_nonneg q.v.z]
    have hx : q.v.x = 0 := by nlinarith [mul_self_nonneg q.s, mul_self_nonneg q.v.x, mul_self_nonneg q.v.y, mul_self_nonneg q.v.z]
    have hy : q.v.y = 0 := by nlinarith [mul_self_nonneg q.s, mul_self_nonneg q.v.x, mul_self_nonneg q.v.y, mul_self_nonneg q.v.z]
    have hz : q.v.z = 0 := by nlinarith [mul_self_nonneg q.s, mul_self_nonneg q.v.x, mul_self_nonneg q.v.y, mul_self_nonneg q.v.z]
    ext <;> simp [hs, hx, hy, hz]
  · rintro rfl; simp

/-! ## action on vectors -/
/-- `q * v = v + 2 qv × (qv × v + s v)` for every quaternion -/
theorem rotate_def (q : Quat K) (v : V3 K) :
    q * v = v + (V3.cross q.v (V3.cross q.v v + v * q.s)) * (2 : K) := by
  ext <;> simp <;> ring
/-- for unit `q`: `q (0,v) q̄ = (0, q * v)` -/
theorem rotate_sandwich (q : Quat K) (hq : q.magnitude2 = 1) (v : V3 K) :
    q * Quat.fromSv 0 v * q.conjugate = Quat.fromSv 0 (q * v) := by
  have h : q.s * q.s + (q.v.x * q.v.x + (q.v.y * q.v.y + q.v.z * q.v.z)) = 1 := by simpa using hq
  ext
  · simp; linear_combination (v.x) * h
  · simp; linear_combination (v.y) * h
  · simp; linear_combination (v.z) * h
  · simp; ring
/-- unit quaternions preserve length -/
theorem rotate_norm (q : Quat K) (hq : q.magnitude2 = 1) (v : V3 K) :
    (q * v).magnitude2 = v.magnitude2 := by
  have h : q.s * q.s + (q.v.x * q.v.x + (q.v.y * q.v.y + q.v.z * q.v.z)) = 1 := by simpa using hq
  simp
  linear_combination
    (4 * (v.x ^ 2 * q.v.y ^ 2 + v.x ^ 2 * q.v.z ^ 2 - 2 * v.x * v.y * q.v.x * q.v.y
      - 2 * v.x * v.z * q.v.x * q.v.z + v.y ^ 2 * q.v.x ^ 2 + v.y ^ 2 * q.v.z ^ 2
      - 2 * v.y * v.z * q.v.y * q.v.z + v.z ^ 2 * q.v.x ^ 2 + v.z ^ 2 * q.v.y ^ 2)) * h
/-- `(p q) * v = p * (q * v)` for unit `p`, `q` -/
theorem mul_rotate (p q : Quat K) (hp : p.magnitude2 = 1) (hq : q.magnitude2 = 1) (v : V3 K) :
    (p * q) * v = p * (q * v) := by
  have hpq : (p * q).magnitude2 = 1 := by rw [magnitude2_mul, hp, hq, _root_.mul_one]
  have h1 := rotate_sandwich (p * q) hpq v
  have h2 := rotate_sandwich q hq v
  have h3 := rotate_sandwich p hp (q * v)
  have : Quat.fromSv 0 ((p * q) * v) = Quat.fromSv 0 (p * (q * v)) := by
    rw [← h1, ← h3, ← h2, conj_mul]
    apply Quat.toH_inj
    simp only [Quat.toH_mul, _root_.mul_assoc]
  have hv := congrArg Quat.v this
  simpa using hv

/-- non-vacuity: a rational unit quaternion and the rotation it performs -/
example : (Quat.new (1/2) (1/2) (1/2) (1/2) : Quat ℚ).magnitude2 = 1 ∧
    (Quat.new (1/2) (1/2) (1/2) (1/2) : Quat ℚ) * (⟨1, 0, 0⟩ : V3 ℚ) = ⟨0, 1, 0⟩ := by
  constructor
  · simp; norm_num
  · ext <;> simp <;> norm_num

end Cg.C04
