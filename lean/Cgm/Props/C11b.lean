import Cgm.Props.C11
/-!
# C11 (second part) — the remaining dimensions: `Vector1` / `Point1` distance, `Vector1` projection,
positivity of the squared length of a non-zero `Vector1/2/4` and quaternion.
Over `ℝ` with `sqrt` the real function (`Cgm/Lemmas/RealInst.lean`).
-/
set_option linter.unusedSectionVars false
namespace Cg.C11
open Cg Real

/-! ## distance -/
theorem V1.distance_spec (u v : V1 ℝ) :
    V1.distance u v = V1.distance v u ∧ V1.distance u v = (u - v).magnitude ∧
    V1.distance u v ^ 2 = V1.distance2 u v := by
  have e : V1.distance2 u v = V1.distance2 v u := by simp; ring
  have e2 : V1.distance2 u v = (u - v).magnitude2 := by simp; ring
  have h0 : 0 ≤ V1.distance2 u v := V1.magnitude2_nonneg (v - u)
  refine ⟨?_, ?_, ?_⟩
  · simp only [V1.distance, e]
  · simp only [V1.distance, V1.magnitude, e2]
  · simp only [V1.distance, transc_sqrt]; exact Real.sq_sqrt h0
theorem P1.distance_spec (p q : P1 ℝ) :
    P1.distance p q = P1.distance q p ∧ P1.distance p q = (p - q : V1 ℝ).magnitude ∧
    P1.distance p q ^ 2 = P1.distance2 p q := by
  have e : P1.distance2 p q = P1.distance2 q p := by simp; ring
  have e2 : P1.distance2 p q = (p - q : V1 ℝ).magnitude2 := by simp; ring
  have h0 : 0 ≤ P1.distance2 p q := V1.magnitude2_nonneg (q - p : V1 ℝ)
  refine ⟨?_, ?_, ?_⟩
  · simp only [P1.distance, e]
  · simp only [P1.distance, V1.magnitude, e2]
  · simp only [P1.distance, transc_sqrt]; exact Real.sq_sqrt h0
/-- in one dimension the distance is the absolute difference -/
theorem V1.distance_eq_abs (u v : V1 ℝ) : V1.distance u v = |v.x - u.x| := by
  simp only [V1.distance, transc_sqrt]
  have : V1.distance2 u v = (v.x - u.x) * (v.x - u.x) := by simp
  rw [this]; exact Real.sqrt_mul_self_eq_abs _
theorem P1.distance_eq_abs (p q : P1 ℝ) : P1.distance p q = |q.x - p.x| := by
  simp only [P1.distance, transc_sqrt]
  have : P1.distance2 p q = (q.x - p.x) * (q.x - p.x) := by simp
  rw [this]; exact Real.sqrt_mul_self_eq_abs _
/-- distance zero exactly between equal values (dimension 1) -/
theorem V1.distance_eq_zero_iff (u v : V1 ℝ) : V1.distance u v = 0 ↔ u = v := by
  rw [V1.distance_eq_abs, abs_eq_zero, sub_eq_zero, V1.ext_iff]; exact eq_comm

/-! ## projection -/
theorem V1.projectOn_spec (u v : V1 ℝ) (hv : v.magnitude2 ≠ 0) :
    (∃ k : ℝ, V1.projectOn u v = v * k) ∧ V1.dot (u - V1.projectOn u v) v = 0 := by
  refine ⟨⟨_, rfl⟩, ?_⟩
  have e : ∀ k : ℝ, V1.dot (u - v * k) v = V1.dot u v - k * v.magnitude2 := by intro k; simp; ring
  show V1.dot (u - v * (V1.dot u v / v.magnitude2)) v = 0
  rw [e, div_mul_cancel₀ _ hv, sub_self]
/-- in one dimension projecting on a non-zero vector is the identity -/
theorem V1.projectOn_eq (u v : V1 ℝ) (hv : v.magnitude2 ≠ 0) : V1.projectOn u v = u := by
  have hx : v.x ≠ 0 := by
    intro h; apply hv; simp [h]
  ext
  show v.x * (V1.dot u v / v.magnitude2) = u.x
  have : V1.dot u v / v.magnitude2 = u.x / v.x := by
    simp; field_simp
  rw [this]; field_simp

/-! ## a non-zero vector / quaternion has positive squared length -/
theorem V1.magnitude2_pos (v : V1 ℝ) (h : v ≠ V1.zero) : 0 < v.magnitude2 := by
  have hx : v.x ≠ 0 := by
    intro hx; apply h; ext; simpa [V1.zero, V1.fromValue] using hx
  have : v.magnitude2 = v.x * v.x := by simp
  rw [this]; exact mul_self_pos.mpr hx
theorem V2.magnitude2_pos (v : V2 ℝ) (h : v ≠ V2.zero) : 0 < v.magnitude2 := by
  have h0 : 0 ≤ v.magnitude2 := (V2.magnitude_sq v).2
  rcases h0.lt_or_eq with hlt | heq
  · exact hlt
  · exfalso; apply h
    have e : v.x * v.x + v.y * v.y = 0 := by simpa using heq.symm
    have hx : v.x = 0 := by nlinarith [mul_self_nonneg v.x, mul_self_nonneg v.y]
    have hy : v.y = 0 := by nlinarith [mul_self_nonneg v.x, mul_self_nonneg v.y]
    ext <;> simp [V2.zero, V2.fromValue, hx, hy]
theorem V4.magnitude2_pos (v : V4 ℝ) (h : v ≠ V4.zero) : 0 < v.magnitude2 := by
  have h0 : 0 ≤ v.magnitude2 := (V4.magnitude_sq v).2
  rcases h0.lt_or_eq with hlt | heq
  · exact hlt
  · exfalso; apply h
    have e : v.x * v.x + (v.y * v.y + (v.z * v.z + v.w * v.w)) = 0 := by simpa using heq.symm
    have hx : v.x = 0 := by
      nlinarith [mul_self_nonneg v.x, mul_self_nonneg v.y, mul_self_nonneg v.z, mul_self_nonneg v.w]
    have hy : v.y = 0 := by
      nlinarith [mul_self_nonneg v.x, mul_self_nonneg v.y, mul_self_nonneg v.z, mul_self_nonneg v.w]
    have hz : v.z = 0 := by
      nlinarith [mul_self_nonneg v.x, mul_self_nonneg v.y, mul_self_nonneg v.z, mul_self_nonneg v.w]
    have hw : v.w = 0 := by
      nlinarith [mul_self_nonneg v.x, mul_self_nonneg v.y, mul_self_nonneg v.z, mul_self_nonneg v.w]
    ext <;> simp [V4.zero, V4.fromValue, hx, hy, hz, hw]
theorem Quat.magnitude2_pos (q : Quat ℝ) (h : q ≠ Quat.zero) : 0 < q.magnitude2 := by
  have h0 : 0 ≤ q.magnitude2 := (Quat.magnitude_sq q).2
  rcases h0.lt_or_eq with hlt | heq
  · exact hlt
  · exfalso; apply h
    have e : q.s * q.s + (q.v.x * q.v.x + (q.v.y * q.v.y + q.v.z * q.v.z)) = 0 := by
      simpa using heq.symm
    have hs : q.s = 0 := by
      nlinarith [mul_self_nonneg q.s, mul_self_nonneg q.v.x, mul_self_nonneg q.v.y, mul_self_nonneg q.v.z]
    have hx : q.v.x = 0 := by
      nlinarith [mul_self_nonneg q.s, mul_self_nonneg q.v.x, mul_self_nonneg q.v.y, mul_self_nonneg q.v.z]
    have hy : q.v.y = 0 := by
      nlinarith [mul_self_nonneg q.s, mul_self_nonneg q.v.x, mul_self_nonneg q.v.y, mul_self_nonneg q.v.z]
    have hz : q.v.z = 0 := by
      nlinarith [mul_self_nonneg q.s, mul_self_nonneg q.v.x, mul_self_nonneg q.v.y, mul_self_nonneg q.v.z]
    ext <;> simp [Quat.zero, Quat.fromSv, V3.zero, V3.fromValue, hs, hx, hy, hz]
/-- and conversely: the squared length is positive exactly for non-zero values -/
theorem magnitude2_pos_iff (v1 : V1 ℝ) (v2 : V2 ℝ) (v3 : V3 ℝ) (v4 : V4 ℝ) (q : Quat ℝ) :
    (0 < v1.magnitude2 ↔ v1 ≠ V1.zero) ∧ (0 < v2.magnitude2 ↔ v2 ≠ V2.zero) ∧
    (0 < v3.magnitude2 ↔ v3 ≠ V3.zero) ∧ (0 < v4.magnitude2 ↔ v4 ≠ V4.zero) ∧
    (0 < q.magnitude2 ↔ q ≠ Quat.zero) := by
  refine ⟨⟨?_, V1.magnitude2_pos v1⟩, ⟨?_, V2.magnitude2_pos v2⟩, ⟨?_, V3.magnitude2_pos v3⟩,
    ⟨?_, V4.magnitude2_pos v4⟩, ⟨?_, Quat.magnitude2_pos q⟩⟩
  · rintro h rfl; simp [V1.zero, V1.fromValue] at h
  · rintro h rfl; simp [V2.zero, V2.fromValue] at h
  · rintro h rfl; simp [V3.zero, V3.fromValue] at h
  · rintro h rfl; simp [V4.zero, V4.fromValue] at h
  · rintro h rfl; simp [Quat.zero, Quat.fromSv, V3.zero, V3.fromValue] at h

/-- non-vacuity: the hypotheses are satisfiable, and the conclusions are not trivial -/
example : (⟨3⟩ : V1 ℝ) ≠ V1.zero ∧ (⟨3⟩ : V1 ℝ).magnitude2 ≠ 0 ∧
    V1.distance (⟨1⟩ : V1 ℝ) ⟨4⟩ = 3 := by
  refine ⟨?_, ?_, ?_⟩
  · intro h; have := congrArg V1.x h; simp [V1.zero, V1.fromValue] at this
  · simp
  · rw [V1.distance_eq_abs]; norm_num
example : (Quat.new 0 0 1 0 : Quat ℝ) ≠ Quat.zero := by
  intro h; have := congrArg (fun q => q.v.y) h
  simp [Quat.new, Quat.zero, Quat.fromSv, V3.zero, V3.fromValue] at this

end Cg.C11
