import Cgm.Props.C06
/-!
# C06 (continued) — quaternion angle addition, Matrix4 lifting, Matrix2 orthonormality

* `quat_axisAngle_add_real` : quaternions about a common unit axis add their angles.
* `toM4_transformVector`, `toM4_block3`, `toM4_det` : a `Matrix3` embedded into `Matrix4` acts on
  vectors like the `Matrix3`, has it as its upper-left block and has the same determinant.
* `m4_axisAngle_real`, `m4_axisAngle_rotation_real`, `m4_axisAngle_add_real` : the corollaries for
  `Matrix4::from_axis_angle`.
* `m2_fromAngle_orthonormal` : `Matrix2::from_angle` is orthonormal with determinant `+1`.
-/
set_option linter.unusedSectionVars false

namespace Cg
/-- the upper-left 3x3 block of a `Matrix4` (`Matrix3::from_cols(m.x.truncate(), m.y.truncate(),
m.z.truncate())`) -/
def M4.block3 {α : Type} (m : M4 α) : M3 α := ⟨m.x.truncate, m.y.truncate, m.z.truncate⟩
end Cg

namespace Cg.C06
open Cg

attribute [simp] M4.block3

variable {K : Type} [CommRing K]

/-! ## quaternion angle addition -/

/-- algebraic core: half-angle quaternions `(c₁, a s₁)`, `(c₂, a s₂)` about a common unit axis
multiply to `(c₁c₂ − s₁s₂, a (s₁c₂ + c₁s₂))` -/
theorem quat_halfAngle_compose (a : V3 K) (s1 c1 s2 c2 : K) (h2 : a.magnitude2 = 1) :
    Quat.fromSv c1 (a * s1) * Quat.fromSv c2 (a * s2) =
      Quat.fromSv (c1 * c2 - s1 * s2) (a * (s1 * c2 + c1 * s2)) := by
  have h2 : a.x * a.x + (a.y * a.y + a.z * a.z) = 1 := by simpa using h2
  obtain ⟨x, y, z⟩ := a
  simp only at h2
  ext <;> simp
  · ring
  · ring
  · ring
  · linear_combination (-(s1 * s2)) * h2

/-- **quaternion angle addition**: about a common unit axis,
`from_axis_angle(a, t₁) * from_axis_angle(a, t₂) = from_axis_angle(a, t₁ + t₂)` -/
theorem quat_axisAngle_add_real (a : V3 ℝ) (θ₁ θ₂ : ℝ) (ha : a.magnitude2 = 1) :
    Quat.fromAxisAngle a θ₁ * Quat.fromAxisAngle a θ₂ = Quat.fromAxisAngle a (θ₁ + θ₂) := by
  have e : (θ₁ + θ₂) * (1 / 2) = θ₁ * (1 / 2) + θ₂ * (1 / 2) := by ring
  show Quat.fromSv (Transc.cos (θ₁ * half)) (a * Transc.sin (θ₁ * half)) *
      Quat.fromSv (Transc.cos (θ₂ * half)) (a * Transc.sin (θ₂ * half)) =
    Quat.fromSv (Transc.cos ((θ₁ + θ₂) * half)) (a * Transc.sin ((θ₁ + θ₂) * half))
  rw [quat_halfAngle_compose a _ _ _ _ ha]
  simp only [transc_sin, transc_cos, half_eq]
  rw [e, Real.sin_add, Real.cos_add]

/-- the axis quaternions `from_angle_x/y/z` add their angles as well -/
theorem quat_fromAngle_add_real (θ₁ θ₂ : ℝ) :
    Quat.fromAngleX θ₁ * Quat.fromAngleX θ₂ = Quat.fromAngleX (θ₁ + θ₂) ∧
    Quat.fromAngleY θ₁ * Quat.fromAngleY θ₂ = Quat.fromAngleY (θ₁ + θ₂) ∧
    Quat.fromAngleZ θ₁ * Quat.fromAngleZ θ₂ = Quat.fromAngleZ (θ₁ + θ₂) :=
  ⟨quat_axisAngle_add_real V3.unitX θ₁ θ₂ (by simp), quat_axisAngle_add_real V3.unitY θ₁ θ₂ (by simp),
    quat_axisAngle_add_real V3.unitZ θ₁ θ₂ (by simp)⟩

/-! ## Matrix3 → Matrix4 lifting -/
section lift
variable {F : Type} [Field F]

/-- the embedded matrix transforms vectors (`w = 0`) like the `Matrix3` -/
theorem toM4_transformVector (m : M3 F) (v : V3 F) : m.toM4.transformVector v = m * v := by
  ext <;> simp
/-- on homogeneous vectors the embedding acts block-wise: `(m v, w)` -/
theorem toM4_mulVec (m : M3 K) (v : V3 K) (w : K) :
    m.toM4 * (⟨v.x, v.y, v.z, w⟩ : V4 K) = ⟨(m * v).x, (m * v).y, (m * v).z, w⟩ := by
  ext <;> simp
/-- the upper-left 3x3 block of the embedding is the original matrix; last row/column are those
of the identity -/
theorem toM4_block3 (m : M3 K) :
    m.toM4.block3 = m ∧ m.toM4.w = ⟨0, 0, 0, 1⟩ ∧ m.toM4.row3 = ⟨0, 0, 0, 1⟩ := by
  refine ⟨?_, ?_, ?_⟩ <;> (ext <;> simp)
/-- the embedding preserves the determinant -/
theorem toM4_det (m : M3 K) : m.toM4.det = m.det := by
  simp [M4.det, M4.detSubProc]
  ring
/-- the embedding preserves products, transposes and the identity -/
theorem toM4_mul (a b : M3 K) : (a * b).toM4 = a.toM4 * b.toM4 :=
  (Cg.C01.embed_mul (M2.one) (M2.one) a b).2.2
theorem toM4_transpose (m : M3 K) : m.toM4.transpose = m.transpose.toM4 := by
  ext <;> simp
theorem toM4_one : (M3.one : M3 K).toM4 = M4.one := by
  ext <;> simp
end lift

/-! ## `Matrix4::from_axis_angle` -/

/-- `Matrix4::from_axis_angle` acts on vectors by Rodrigues' formula (every axis) -/
theorem m4_axisAngle_real (a v : V3 ℝ) (θ : ℝ) :
    (M4.fromAxisAngle a θ).transformVector v = rodrigues a (Real.cos θ) (Real.sin θ) v := by
  rw [(m4_eq_embed a θ).1, toM4_transformVector, m3_axisAngle_real]

/-- for a unit axis, `Matrix4::from_axis_angle` fixes the axis, its 3x3 block is orthonormal with
determinant `+1`, the full 4x4 matrix is orthonormal with determinant `+1` -/
theorem m4_axisAngle_rotation_real (a : V3 ℝ) (θ : ℝ) (ha : a.magnitude2 = 1) :
    (M4.fromAxisAngle a θ).transformVector a = a ∧
    (M4.fromAxisAngle a θ).block3 = M3.fromAxisAngle a θ ∧
    (M4.fromAxisAngle a θ).block3.transpose * (M4.fromAxisAngle a θ).block3 = M3.one ∧
    (M4.fromAxisAngle a θ).block3.det = 1 ∧
    (M4.fromAxisAngle a θ).transpose * M4.fromAxisAngle a θ = M4.one ∧
    (M4.fromAxisAngle a θ).det = 1 := by
  obtain ⟨h1, h2, h3⟩ := m3_axisAngle_rotation_real a θ ha
  have hb : (M4.fromAxisAngle a θ).block3 = M3.fromAxisAngle a θ := by
    rw [(m4_eq_embed a θ).1]; exact (toM4_block3 _).1
  refine ⟨?_, hb, ?_, ?_, ?_, ?_⟩
  · rw [(m4_eq_embed a θ).1, toM4_transformVector]; exact h1
  · rw [hb]; exact h2
  · rw [hb]; exact h3
  · rw [(m4_eq_embed a θ).1, toM4_transpose, ← toM4_mul, h2, toM4_one]
  · rw [(m4_eq_embed a θ).1, toM4_det]; exact h3

/-- **Matrix4 angle addition** about a common unit axis -/
theorem m4_axisAngle_add_real (a : V3 ℝ) (θ₁ θ₂ : ℝ) (ha : a.magnitude2 = 1) :
    M4.fromAxisAngle a θ₁ * M4.fromAxisAngle a θ₂ = M4.fromAxisAngle a (θ₁ + θ₂) := by
  rw [(m4_eq_embed a θ₁).1, (m4_eq_embed a θ₂).1, (m4_eq_embed a (θ₁ + θ₂)).1, ← toM4_mul,
    axisAngle_add_real a θ₁ θ₂ ha]

/-- … and for `Matrix4::from_angle_x/y/z` -/
theorem m4_fromAngle_add_real (θ₁ θ₂ : ℝ) :
    M4.fromAngleX θ₁ * M4.fromAngleX θ₂ = M4.fromAngleX (θ₁ + θ₂) ∧
    M4.fromAngleY θ₁ * M4.fromAngleY θ₂ = M4.fromAngleY (θ₁ + θ₂) ∧
    M4.fromAngleZ θ₁ * M4.fromAngleZ θ₂ = M4.fromAngleZ (θ₁ + θ₂) := by
  have hx := axisAngle_add_real V3.unitX θ₁ θ₂ (by simp)
  have hy := axisAngle_add_real V3.unitY θ₁ θ₂ (by simp)
  have hz := axisAngle_add_real V3.unitZ θ₁ θ₂ (by simp)
  rw [← (fromAngle_eq_axisAngle (F := ℝ) θ₁).1, ← (fromAngle_eq_axisAngle (F := ℝ) θ₂).1,
    ← (fromAngle_eq_axisAngle (F := ℝ) (θ₁ + θ₂)).1] at hx
  rw [← (fromAngle_eq_axisAngle (F := ℝ) θ₁).2.1, ← (fromAngle_eq_axisAngle (F := ℝ) θ₂).2.1,
    ← (fromAngle_eq_axisAngle (F := ℝ) (θ₁ + θ₂)).2.1] at hy
  rw [← (fromAngle_eq_axisAngle (F := ℝ) θ₁).2.2, ← (fromAngle_eq_axisAngle (F := ℝ) θ₂).2.2,
    ← (fromAngle_eq_axisAngle (F := ℝ) (θ₁ + θ₂)).2.2] at hz
  refine ⟨?_, ?_, ?_⟩
  · rw [(m4_eq_embed V3.unitX θ₁).2.1, (m4_eq_embed V3.unitX θ₂).2.1,
      (m4_eq_embed V3.unitX (θ₁ + θ₂)).2.1, ← toM4_mul, hx]
  · rw [(m4_eq_embed V3.unitX θ₁).2.2.1, (m4_eq_embed V3.unitX θ₂).2.2.1,
      (m4_eq_embed V3.unitX (θ₁ + θ₂)).2.2.1, ← toM4_mul, hy]
  · rw [(m4_eq_embed V3.unitX θ₁).2.2.2, (m4_eq_embed V3.unitX θ₂).2.2.2,
      (m4_eq_embed V3.unitX (θ₁ + θ₂)).2.2.2, ← toM4_mul, hz]

/-- non-vacuity: a unit axis with rational coordinates off the coordinate axes -/
example : (⟨2 / 7, 3 / 7, 6 / 7⟩ : V3 ℝ).magnitude2 = 1 := by norm_num

/-! ## `Matrix2::from_angle` -/

/-- `Matrix2::from_angle(t)` is orthonormal (both products with the transpose are the identity)
with determinant `+1` -/
theorem m2_fromAngle_orthonormal (θ : ℝ) :
    (M2.fromAngle θ).transpose * M2.fromAngle θ = M2.one ∧
    M2.fromAngle θ * (M2.fromAngle θ).transpose = M2.one ∧
    (M2.fromAngle θ).det = 1 := by
  have h := Real.sin_sq_add_cos_sq θ
  refine ⟨?_, ?_, ?_⟩
  · ext <;> simp
    · linear_combination h
    · ring
    · ring
    · linear_combination h
  · ext <;> simp
    · linear_combination h
    · ring
    · ring
    · linear_combination h
  · simp; linear_combination h

/-- `Basis2::from_angle(t)` is the newtype wrapper `Basis2 { mat: Matrix2::from_angle(t) }`
(src/rotation.rs); in wrapper form: the transposed basis is a two-sided inverse.  The statement is about the ad-hoc term
`⟨M2.fromAngle θ⟩`, not about the model's `Basis2.fromAngle` (for that constructor see `basis2_fromAngle_orthonormal'`,
`Props/C06c.lean`) -/
theorem basis2_fromAngle_orthonormal (θ : ℝ) :
    Basis2.mul ⟨(M2.fromAngle θ).transpose⟩ ⟨M2.fromAngle θ⟩ = Basis2.one ∧
    Basis2.mul ⟨M2.fromAngle θ⟩ ⟨(M2.fromAngle θ).transpose⟩ = Basis2.one := by
  obtain ⟨h1, h2, -⟩ := m2_fromAngle_orthonormal θ
  exact ⟨by simp only [Basis2.mul, Basis2.one, h1], by simp only [Basis2.mul, Basis2.one, h2]⟩

/-- the transpose (= inverse) is the rotation by the opposite angle, and rotations preserve dot
products (hence lengths and angles) -/
theorem m2_fromAngle_isometry (θ : ℝ) (u v : V2 ℝ) :
    (M2.fromAngle θ).transpose = M2.fromAngle (-θ) ∧
    V2.dot (M2.fromAngle θ * u) (M2.fromAngle θ * v) = V2.dot u v := by
  have h := Real.sin_sq_add_cos_sq θ
  constructor
  · ext <;> simp
  · simp
    linear_combination (u.x * v.x + u.y * v.y) * h

end Cg.C06
