import Cgm.Props.C05
import Cgm.Props.C02
/-!
# C08 — transforms compose, invert and convert to matrices consistently

`Decomposed` is generic over the rotation (`RotOps`).  The theorems are proved once for
every rotation type that satisfies `RotLaws3` / `RotLaws2` (its action is that of its
matrix, composition is the matrix product, inversion gives the inverse matrix), and
those laws are then established for unit `Quaternion`s, `Basis3` and `Basis2`.
The matrix transforms (Matrix3 2-D/3-D, Matrix4) are covered by C01/C02 (`ring_laws`,
`invert_spec`, `invert_none_iff`, `inverseTransform_eq`).
-/
set_option linter.unusedSectionVars false
namespace Cg.C08
open Cg
variable {F : Type} [Field F] [DecidableEq F]

/-- what `Decomposed` needs from a 3-D rotation type, relative to a validity predicate `ok` -/
structure RotLaws3 {R : Type} (ρ : RotOps R (V3 F) (M3 F)) (ok : R → Prop) : Prop where
  rotate_eq : ∀ r v, ρ.rotate r v = ρ.toMat r * v
  one_ok : ok ρ.one
  one_eq : ρ.toMat ρ.one = M3.one
  mul_ok : ∀ a b, ok a → ok b → ok (ρ.mul a b)
  mul_eq : ∀ a b, ok a → ok b → ρ.toMat (ρ.mul a b) = ρ.toMat a * ρ.toMat b
  inv : ∀ a, ok a → ∃ i, ρ.invert? a = some i ∧ ok i ∧
    ρ.toMat i * ρ.toMat a = M3.one ∧ ρ.toMat a * ρ.toMat i = M3.one

structure RotLaws2 {R : Type} (ρ : RotOps R (V2 F) (M2 F)) (ok : R → Prop) : Prop where
  rotate_eq : ∀ r v, ρ.rotate r v = ρ.toMat r * v
  one_ok : ok ρ.one
  one_eq : ρ.toMat ρ.one = M2.one
  mul_ok : ∀ a b, ok a → ok b → ok (ρ.mul a b)
  mul_eq : ∀ a b, ok a → ok b → ρ.toMat (ρ.mul a b) = ρ.toMat a * ρ.toMat b
  inv : ∀ a, ok a → ∃ i, ρ.invert? a = some i ∧ ok i ∧
    ρ.toMat i * ρ.toMat a = M2.one ∧ ρ.toMat a * ρ.toMat i = M2.one

/-! ### matrix-level identities used below -/
theorem m3_affine (A B : M3 F) (p d e : V3 F) (s t : F) :
    (A * B) * (p * (s * t)) + (A * (e * s) + d) = A * ((B * (p * t) + e) * s) + d := by
  ext <;> simp <;> ring
theorem m3_lin (A B : M3 F) (v : V3 F) (s t : F) :
    (A * B) * (v * (s * t)) = A * ((B * (v * t)) * s) := by
  ext <;> simp <;> ring
theorem m2_affine (A B : M2 F) (p d e : V2 F) (s t : F) :
    (A * B) * (p * (s * t)) + (A * (e * s) + d) = A * ((B * (p * t) + e) * s) + d := by
  ext <;> simp <;> ring
theorem m2_lin (A B : M2 F) (v : V2 F) (s t : F) :
    (A * B) * (v * (s * t)) = A * ((B * (v * t)) * s) := by
  ext <;> simp <;> ring
theorem m3_one_mulVec (v : V3 F) : (M3.one : M3 F) * v = v := by ext <;> simp
theorem m2_one_mulVec (v : V2 F) : (M2.one : M2 F) * v = v := by ext <;> simp
theorem m3_undo (I A : M3 F) (h : I * A = M3.one) (p d : V3 F) (s : F) (hs : s ≠ 0) :
    I * ((A * (p * s) + d) * (1 / s)) + (I * d) * (-(1 / s)) = p := by
  have h1 : I * (A * p) = p := by
    rw [← (Cg.C01.M3.ring_laws I A A p p 0).2.2.2.2.2.1, h, m3_one_mulVec]
  have e : I * ((A * (p * s) + d) * (1 / s)) + (I * d) * (-(1 / s)) = I * (A * p) := by
    ext <;> simp <;> field_simp <;> ring
  rw [e, h1]
theorem m3_undo_vec (I A : M3 F) (h : I * A = M3.one) (v : V3 F) (s : F) (hs : s ≠ 0) :
    I * ((A * (v * s)) * (1 / s)) = v ∧ I * ((A * (v * s)) / s) = v := by
  have h1 : I * (A * v) = v := by
    rw [← (Cg.C01.M3.ring_laws I A A v v 0).2.2.2.2.2.1, h, m3_one_mulVec]
  constructor
  · have e : I * ((A * (v * s)) * (1 / s)) = I * (A * v) := by
      ext <;> simp <;> field_simp
    rw [e, h1]
  · have e : I * ((A * (v * s)) / s) = I * (A * v) := by
      ext <;> simp <;> field_simp
    rw [e, h1]
theorem m2_undo (I A : M2 F) (h : I * A = M2.one) (p d : V2 F) (s : F) (hs : s ≠ 0) :
    I * ((A * (p * s) + d) * (1 / s)) + (I * d) * (-(1 / s)) = p := by
  have h1 : I * (A * p) = p := by
    rw [← (Cg.C01.M2.ring_laws I A A p p 0).2.2.2.2.2.1, h, m2_one_mulVec]
  have e : I * ((A * (p * s) + d) * (1 / s)) + (I * d) * (-(1 / s)) = I * (A * p) := by
    ext <;> simp <;> field_simp <;> ring
  rw [e, h1]
theorem m2_undo_vec (I A : M2 F) (h : I * A = M2.one) (v : V2 F) (s : F) (hs : s ≠ 0) :
    I * ((A * (v * s)) * (1 / s)) = v ∧ I * ((A * (v * s)) / s) = v := by
  have h1 : I * (A * v) = v := by
    rw [← (Cg.C01.M2.ring_laws I A A v v 0).2.2.2.2.2.1, h, m2_one_mulVec]
  constructor
  · have e : I * ((A * (v * s)) * (1 / s)) = I * (A * v) := by
      ext <;> simp <;> field_simp
    rw [e, h1]
  · have e : I * ((A * (v * s)) / s) = I * (A * v) := by
      ext <;> simp <;> field_simp
    rw [e, h1]

/-! ## 3-D: Decomposed with a lawful rotation -/
section three
variable {R : Type} (ρ : RotOps R (V3 F) (M3 F)) (ok : R → Prop) (L : RotLaws3 ρ ok)
include L

/-- `concat(s,t)` (= `s * t`, `concat_self`) applied to a point or vector = `s` applied
to the result of `t` -/
theorem concat_apply3 (s t : Decomposed R (V3 F) F) (hs : ok s.rot) (ht : ok t.rot) (p v : V3 F) :
    (Decomposed.concat ρ s t).transformPointV ρ p = s.transformPointV ρ (t.transformPointV ρ p) ∧
    (Decomposed.concat ρ s t).transformVector ρ v = s.transformVector ρ (t.transformVector ρ v) := by
  simp only [Decomposed.concat, Decomposed.transformPointV, Decomposed.transformVector,
    L.rotate_eq, L.mul_eq _ _ hs ht]
  exact ⟨m3_affine _ _ _ _ _ _ _, m3_lin _ _ _ _ _⟩
/-- `one()` leaves everything unchanged -/
theorem one_apply3 (p v : V3 F) :
    (Decomposed.one ρ V3.zero : Decomposed R (V3 F) F).transformPointV ρ p = p ∧
    (Decomposed.one ρ V3.zero : Decomposed R (V3 F) F).transformVector ρ v = v := by
  simp only [Decomposed.one, Decomposed.transformPointV, Decomposed.transformVector, L.rotate_eq, L.one_eq]
  constructor <;> (ext <;> simp)
/-- `transform_vector` ignores the displacement -/
theorem vector_ignores_disp3 (t : Decomposed R (V3 F) F) (d' v : V3 F) :
    ({ t with disp := d' } : Decomposed R (V3 F) F).transformVector ρ v = t.transformVector ρ v := rfl

variable [Approx F]
/-- `inverse_transform` is `None` exactly when the scale is (ulps-)zero (only this iff is stated; that scale `0` is rejected,
given `ulps_eq(0, 0)`, is `inverse_none_of_scale_zero3`, `Props/C08b.lean`) -/
theorem inverse_none_iff3 (t : Decomposed R (V3 F) F) (ht : ok t.rot) :
    t.inverseTransform ρ = .none ↔ ulpsEqD t.scale 0 = true := by
  unfold Decomposed.inverseTransform
  by_cases h : ulpsEqD t.scale 0 = true
  · simp [h]
  · obtain ⟨i, hi, _⟩ := L.inv _ ht
    simp [h, hi]
/-- whenever the scale is not treated as zero, the inverse exists and undoes the transform on
points and vectors, and `inverse_transform_vector` agrees with it -/
theorem inverse_undoes3 (t : Decomposed R (V3 F) F) (ht : ok t.rot)
    (hz : ulpsEqD t.scale 0 = false) (hne : t.scale ≠ 0) :
    ∃ i, t.inverseTransform ρ = .ok i ∧ ok i.rot ∧
      (∀ p, i.transformPointV ρ (t.transformPointV ρ p) = p) ∧
      (∀ v, i.transformVector ρ (t.transformVector ρ v) = v) ∧
      (∀ v, t.inverseTransformVector ρ (t.transformVector ρ v) = .ok v) ∧
      (∀ v, t.inverseTransformVector ρ v = .ok (i.transformVector ρ v)) := by
  obtain ⟨r, hr, hok, h1, _⟩ := L.inv _ ht
  refine ⟨⟨1 / t.scale, r, ρ.rotate r t.disp * (-(1 / t.scale))⟩, ?_, hok, ?_, ?_, ?_, ?_⟩
  · simp [Decomposed.inverseTransform, hz, hr]
  · intro p
    simp only [Decomposed.transformPointV, L.rotate_eq]
    exact m3_undo _ _ h1 p t.disp t.scale hne
  · intro v
    simp only [Decomposed.transformVector, L.rotate_eq]
    exact (m3_undo_vec _ _ h1 v t.scale hne).1
  · intro v
    unfold Decomposed.inverseTransformVector
    rw [if_neg (by simp [hz]), hr]
    simp only [Decomposed.transformVector, L.rotate_eq]
    rw [(m3_undo_vec _ _ h1 v t.scale hne).2]
  · intro v
    have e : v / t.scale = v * (1 / t.scale) := by ext <;> simp [div_eq_mul_inv]
    unfold Decomposed.inverseTransformVector
    rw [if_neg (by simp [hz]), hr]
    simp only [Decomposed.transformVector, e]

/-- converting to a `Matrix4` commutes with applying and composing -/
theorem toM4_apply (t : Decomposed R (V3 F) F) (p : P3 F) (v : V3 F) :
    (t.toM4 ρ).transformPoint p = P3.fromVec (t.transformPointV ρ p.toVec) ∧
    (t.toM4 ρ).transformVector v = t.transformVector ρ v := by
  simp only [Decomposed.toM4, Decomposed.transformPointV, Decomposed.transformVector, L.rotate_eq]
  constructor <;> (ext <;> simp <;> ring)
theorem toM4_concat (s t : Decomposed R (V3 F) F) (hs : ok s.rot) (ht : ok t.rot) :
    (Decomposed.concat ρ s t).toM4 ρ = s.toM4 ρ * t.toM4 ρ := by
  simp only [Decomposed.toM4, Decomposed.concat, L.rotate_eq, L.mul_eq _ _ hs ht]
  ext <;> simp <;> ring
theorem toM4_one : (Decomposed.one ρ V3.zero : Decomposed R (V3 F) F).toM4 ρ = M4.one := by
  simp only [Decomposed.toM4, Decomposed.one, L.one_eq]
  ext <;> simp
/-- ... and with inverting: the matrix of the inverse is `Matrix4::invert` of the matrix -/
theorem toM4_inverse (t : Decomposed R (V3 F) F) (ht : ok t.rot)
    (hz : ulpsEqD t.scale 0 = false) (hne : t.scale ≠ 0) :
    ∃ i, t.inverseTransform ρ = .ok i ∧ (t.toM4 ρ).invert = some (i.toM4 ρ) := by
  obtain ⟨r, hr, hok, h1, h2⟩ := L.inv _ ht
  refine ⟨⟨1 / t.scale, r, ρ.rotate r t.disp * (-(1 / t.scale))⟩, ?_, ?_⟩
  · simp [Decomposed.inverseTransform, hz, hr]
  · apply Cg.C02.M4.invert_unique
    simp only [Decomposed.toM4, L.rotate_eq]
    have e1 := congrArg (fun m : M3 F => m.x.x) h2
    have e2 := congrArg (fun m : M3 F => m.x.y) h2
    have e3 := congrArg (fun m : M3 F => m.x.z) h2
    have e4 := congrArg (fun m : M3 F => m.y.x) h2
    have e5 := congrArg (fun m : M3 F => m.y.y) h2
    have e6 := congrArg (fun m : M3 F => m.y.z) h2
    have e7 := congrArg (fun m : M3 F => m.z.x) h2
    have e8 := congrArg (fun m : M3 F => m.z.y) h2
    have e9 := congrArg (fun m : M3 F => m.z.z) h2
    simp at e1 e2 e3 e4 e5 e6 e7 e8 e9
    set A := ρ.toMat t.rot
    set I := ρ.toMat r
    set s := t.scale
    ext <;> simp <;> field_simp
    · linear_combination e1
    · linear_combination e2
    · linear_combination e3
    · linear_combination e4
    · linear_combination e5
    · linear_combination e6
    · linear_combination e7
    · linear_combination e8
    · linear_combination e9
    · linear_combination (-t.disp.x) * e1 + (-t.disp.y) * e4 + (-t.disp.z) * e7
    · linear_combination (-t.disp.x) * e2 + (-t.disp.y) * e5 + (-t.disp.z) * e8
    · linear_combination (-t.disp.x) * e3 + (-t.disp.y) * e6 + (-t.disp.z) * e9
end three

/-! ## 2-D: Decomposed with a lawful rotation -/
section two
variable {R : Type} (ρ : RotOps R (V2 F) (M2 F)) (ok : R → Prop) (L : RotLaws2 ρ ok)
include L

/-- `concat(s,t)` (= `s * t`, `concat_self`) applied to a point or vector = `s` applied
to the result of `t` -/
theorem concat_apply2 (s t : Decomposed R (V2 F) F) (hs : ok s.rot) (ht : ok t.rot) (p v : V2 F) :
    (Decomposed.concat ρ s t).transformPointV ρ p = s.transformPointV ρ (t.transformPointV ρ p) ∧
    (Decomposed.concat ρ s t).transformVector ρ v = s.transformVector ρ (t.transformVector ρ v) := by
  simp only [Decomposed.concat, Decomposed.transformPointV, Decomposed.transformVector,
    L.rotate_eq, L.mul_eq _ _ hs ht]
  exact ⟨m2_affine _ _ _ _ _ _ _, m2_lin _ _ _ _ _⟩
/-- `one()` leaves everything unchanged -/
theorem one_apply2 (p v : V2 F) :
    (Decomposed.one ρ V2.zero : Decomposed R (V2 F) F).transformPointV ρ p = p ∧
    (Decomposed.one ρ V2.zero : Decomposed R (V2 F) F).transformVector ρ v = v := by
  simp only [Decomposed.one, Decomposed.transformPointV, Decomposed.transformVector, L.rotate_eq, L.one_eq]
  constructor <;> (ext <;> simp)
/-- `transform_vector` ignores the displacement -/
theorem vector_ignores_disp2 (t : Decomposed R (V2 F) F) (d' v : V2 F) :
    ({ t with disp := d' } : Decomposed R (V2 F) F).transformVector ρ v = t.transformVector ρ v := rfl

variable [Approx F]
/-- `inverse_transform` is `None` exactly when the scale is (ulps-)zero (only this iff is stated; that scale `0` is rejected,
given `ulps_eq(0, 0)`, is `inverse_none_of_scale_zero2`, `Props/C08b.lean`) -/
theorem inverse_none_iff2 (t : Decomposed R (V2 F) F) (ht : ok t.rot) :
    t.inverseTransform ρ = .none ↔ ulpsEqD t.scale 0 = true := by
  unfold Decomposed.inverseTransform
  by_cases h : ulpsEqD t.scale 0 = true
  · simp [h]
  · obtain ⟨i, hi, _⟩ := L.inv _ ht
    simp [h, hi]
/-- whenever the scale is not treated as zero, the inverse exists and undoes the transform on
points and vectors, and `inverse_transform_vector` agrees with it -/
theorem inverse_undoes2 (t : Decomposed R (V2 F) F) (ht : ok t.rot)
    (hz : ulpsEqD t.scale 0 = false) (hne : t.scale ≠ 0) :
    ∃ i, t.inverseTransform ρ = .ok i ∧ ok i.rot ∧
      (∀ p, i.transformPointV ρ (t.transformPointV ρ p) = p) ∧
      (∀ v, i.transformVector ρ (t.transformVector ρ v) = v) ∧
      (∀ v, t.inverseTransformVector ρ (t.transformVector ρ v) = .ok v) ∧
      (∀ v, t.inverseTransformVector ρ v = .ok (i.transformVector ρ v)) := by
  obtain ⟨r, hr, hok, h1, _⟩ := L.inv _ ht
  refine ⟨⟨1 / t.scale, r, ρ.rotate r t.disp * (-(1 / t.scale))⟩, ?_, hok, ?_, ?_, ?_, ?_⟩
  · simp [Decomposed.inverseTransform, hz, hr]
  · intro p
    simp only [Decomposed.transformPointV, L.rotate_eq]
    exact m2_undo _ _ h1 p t.disp t.scale hne
  · intro v
    simp only [Decomposed.transformVector, L.rotate_eq]
    exact (m2_undo_vec _ _ h1 v t.scale hne).1
  · intro v
    unfold Decomposed.inverseTransformVector
    rw [if_neg (by simp [hz]), hr]
    simp only [Decomposed.transformVector, L.rotate_eq]
    rw [(m2_undo_vec _ _ h1 v t.scale hne).2]
  · intro v
    have e : v / t.scale = v * (1 / t.scale) := by ext <;> simp [div_eq_mul_inv]
    unfold Decomposed.inverseTransformVector
    rw [if_neg (by simp [hz]), hr]
    simp only [Decomposed.transformVector, e]

/-- converting to a `Matrix3` (2-D homogeneous) commutes with applying and composing -/
theorem toM3_apply (t : Decomposed R (V2 F) F) (p : P2 F) (v : V2 F) :
    (t.toM3 ρ).transformPoint2 p = P2.fromVec (t.transformPointV ρ p.toVec) ∧
    (t.toM3 ρ).transformVector2 v = t.transformVector ρ v := by
  simp only [Decomposed.toM3, Decomposed.transformPointV, Decomposed.transformVector, L.rotate_eq]
  constructor <;> (ext <;> simp <;> ring)
theorem toM3_concat (s t : Decomposed R (V2 F) F) (hs : ok s.rot) (ht : ok t.rot) :
    (Decomposed.concat ρ s t).toM3 ρ = s.toM3 ρ * t.toM3 ρ := by
  simp only [Decomposed.toM3, Decomposed.concat, L.rotate_eq, L.mul_eq _ _ hs ht]
  ext <;> simp <;> ring
theorem toM3_one : (Decomposed.one ρ V2.zero : Decomposed R (V2 F) F).toM3 ρ = M3.one := by
  simp only [Decomposed.toM3, Decomposed.one, L.one_eq]
  ext <;> simp
theorem toM3_inverse (t : Decomposed R (V2 F) F) (ht : ok t.rot)
    (hz : ulpsEqD t.scale 0 = false) (hne : t.scale ≠ 0) :
    ∃ i, t.inverseTransform ρ = .ok i ∧ (t.toM3 ρ).invert = some (i.toM3 ρ) := by
  obtain ⟨r, hr, hok, h1, h2⟩ := L.inv _ ht
  refine ⟨⟨1 / t.scale, r, ρ.rotate r t.disp * (-(1 / t.scale))⟩, ?_, ?_⟩
  · simp [Decomposed.inverseTransform, hz, hr]
  · apply Cg.C02.M3.invert_unique
    simp only [Decomposed.toM3, L.rotate_eq]
    have e1 := congrArg (fun m : M2 F => m.x.x) h2
    have e2 := congrArg (fun m : M2 F => m.x.y) h2
    have e3 := congrArg (fun m : M2 F => m.y.x) h2
    have e4 := congrArg (fun m : M2 F => m.y.y) h2
    simp at e1 e2 e3 e4
    set A := ρ.toMat t.rot
    set I := ρ.toMat r
    set s := t.scale
    ext <;> simp <;> field_simp
    · linear_combination e1
    · linear_combination e2
    · linear_combination e3
    · linear_combination e4
    · linear_combination (-t.disp.x) * e1 + (-t.disp.y) * e3
    · linear_combination (-t.disp.x) * e2 + (-t.disp.y) * e4
end two

/-! ## the three rotation types satisfy the laws -/
theorem quatLaws : RotLaws3 (quatOps (α := ℝ)) (fun q => q.magnitude2 = 1) where
  rotate_eq := fun r v => (Cg.C05.toM3_mulVec r v).symm
  one_ok := by simp [quatOps]
  one_eq := by ext <;> simp [quatOps]
  mul_ok := fun a b ha hb => by
    show (a * b).magnitude2 = 1
    rw [Cg.C04.magnitude2_mul, ha, hb, mul_one]
  mul_eq := fun a b ha hb => Cg.C05.toM3_mul a b ha hb
  inv := fun a ha => by
    have hne : a.magnitude2 ≠ 0 := by rw [ha]; exact one_ne_zero
    obtain ⟨h1, h2⟩ := Cg.C04.mul_invert a hne
    have hinv : a.invert.magnitude2 = 1 := by
      have := Cg.C04.magnitude2_mul a a.invert
      rw [h1, ha, one_mul] at this
      rw [← this]; simp
    refine ⟨a.invert, rfl, hinv, ?_, ?_⟩
    · show a.invert.toM3 * a.toM3 = M3.one
      rw [← Cg.C05.toM3_mul _ _ hinv ha, h2]; ext <;> simp
    · show a.toM3 * a.invert.toM3 = M3.one
      rw [← Cg.C05.toM3_mul _ _ ha hinv, h1]; ext <;> simp

theorem basis3Laws : RotLaws3 (basis3Ops (α := ℝ)) (fun b => b.mat.det ≠ 0) where
  rotate_eq := fun _ _ => rfl
  one_ok := by simp [basis3Ops, Basis3.one]
  one_eq := rfl
  mul_ok := fun a b ha hb => by
    show (a.mat * b.mat).det ≠ 0
    rw [Cg.C02.M3.det_mul]; exact mul_ne_zero ha hb
  mul_eq := fun _ _ _ _ => rfl
  inv := fun a ha => by
    obtain ⟨i, hi⟩ := Cg.C02.M3.invert_some_of_det_ne a.mat ha
    obtain ⟨h1, h2⟩ := Cg.C02.M3.invert_spec a.mat i hi
    refine ⟨⟨i⟩, by simp [basis3Ops, Basis3.invert?, hi], ?_, h2, h1⟩
    intro h0
    have := congrArg M3.det h2
    rw [Cg.C02.M3.det_mul, h0, zero_mul, (Cg.C02.det_one (K := ℝ)).2.1] at this
    exact zero_ne_one this

theorem basis2Laws : RotLaws2 (basis2Ops (α := ℝ)) (fun b => b.mat.det ≠ 0) where
  rotate_eq := fun _ _ => rfl
  one_ok := by simp [basis2Ops, Basis2.one]
  one_eq := rfl
  mul_ok := fun a b ha hb => by
    show (a.mat * b.mat).det ≠ 0
    rw [Cg.C02.M2.det_mul]; exact mul_ne_zero ha hb
  mul_eq := fun _ _ _ _ => rfl
  inv := fun a ha => by
    obtain ⟨i, hi⟩ := Cg.C02.M2.invert_some_of_det_ne a.mat ha
    obtain ⟨h1, h2⟩ := Cg.C02.M2.invert_spec a.mat i hi
    refine ⟨⟨i⟩, by simp [basis2Ops, Basis2.invert?, hi], ?_, h2, h1⟩
    intro h0
    have := congrArg M2.det h2
    rw [Cg.C02.M2.det_mul, h0, zero_mul, (Cg.C02.det_one (K := ℝ)).1] at this
    exact zero_ne_one this

/-- a `Matrix4` used as a `Transform` is an affine matrix: bottom row `(0,0,0,1)`
(the trait's documented contract: "an affine transformation") -/
def M4.Affine (m : M4 F) : Prop := m.x.w = 0 ∧ m.y.w = 0 ∧ m.z.w = 0 ∧ m.w.w = 1
def M3.Affine2 (m : M3 F) : Prop := m.x.z = 0 ∧ m.y.z = 0 ∧ m.z.z = 1

/-- the matrix transforms (Matrix4): composition, identity, inversion.  The composition law
for *vectors* needs the inner matrix to be affine: `transform_vector` drops the `w` row. -/
theorem matrix4_transform (a b : M4 F) (hb : M4.Affine b) (p : P3 F) (v : V3 F) :
    (a * b).transformVector v = a.transformVector (b.transformVector v) ∧
    (a * b).transformPoint p = a.transformPoint (b.transformPoint p) ∧
    (M4.one : M4 F).transformVector v = v ∧ (M4.one : M4 F).transformPoint p = p ∧
    (a.inverseTransform = none ↔ a.det = 0) ∧
    (∀ i, a.inverseTransform = some i → a * i = M4.one ∧ i * a = M4.one) := by
  obtain ⟨h1, h2, h3, h4⟩ := hb
  refine ⟨?_, ?_, ?_, ?_, Cg.C02.M4.invert_none_iff a, fun i hi => Cg.C02.M4.invert_spec a i hi⟩
  · ext <;> simp [h1, h2, h3] <;> ring
  · ext <;> simp [h1, h2, h3, h4] <;> ring
  · ext <;> simp
  · ext <;> simp
/-- Matrix3 as a 2-D transform -/
theorem matrix3_transform2 (a b : M3 F) (hb : M3.Affine2 b) (p : P2 F) (v : V2 F) :
    (a * b).transformVector2 v = a.transformVector2 (b.transformVector2 v) ∧
    (a * b).transformPoint2 p = a.transformPoint2 (b.transformPoint2 p) ∧
    (M3.one : M3 F).transformVector2 v = v ∧ (M3.one : M3 F).transformPoint2 p = p ∧
    (a.inverseTransform = none ↔ a.det = 0) ∧
    (∀ i, a.inverseTransform = some i → a * i = M3.one ∧ i * a = M3.one) := by
  obtain ⟨h1, h2, h3⟩ := hb
  refine ⟨?_, ?_, ?_, ?_, Cg.C02.M3.invert_none_iff a, fun i hi => Cg.C02.M3.invert_spec a i hi⟩
  · ext <;> simp [h1, h2] <;> ring
  · ext <;> simp [h1, h2, h3] <;> ring
  · ext <;> simp
  · ext <;> simp
/-- Matrix3 as a 3-D (linear) transform: no hypothesis needed -/
theorem matrix3_transform3 (a b : M3 F) (p : P3 F) (v : V3 F) :
    (a * b).transformVector v = a.transformVector (b.transformVector v) ∧
    (a * b).transformPoint p = a.transformPoint (b.transformPoint p) ∧
    (M3.one : M3 F).transformVector v = v ∧ (M3.one : M3 F).transformPoint p = p := by
  refine ⟨?_, ?_, ?_, ?_⟩ <;> (ext <;> simp <;> ring)
/-- the composition law for vectors genuinely fails for a non-affine inner `Matrix4`
(so the hypothesis above cannot be dropped) -/
theorem matrix4_vector_needs_affine :
    ∃ (a b : M4 ℚ) (v : V3 ℚ), (a * b).transformVector v ≠ a.transformVector (b.transformVector v) := by
  refine ⟨M4.new 1 0 0 0 0 1 0 0 0 0 1 0 1 0 0 1, M4.new 1 0 0 1 0 1 0 0 0 0 1 0 0 0 0 1, ⟨1, 0, 0⟩, ?_⟩
  intro h
  have := congrArg V3.x h
  simp at this

end Cg.C08
