import Cgm.Props.C08
import Cgm.Props.C02
/-!
# C08 (continued) — the matrix `inverse_transform` really undoes the matrix transform

`Matrix4` / `Matrix3` used as `Transform`s: whenever `inverse_transform()` returns `Some(i)`,
`i` undoes the transform on points and on vectors (and the other way round), the inverse of an
affine matrix is affine, `inverse_transform_vector` is `inverse_transform().map(..)`, and the
`Matrix4` point action composes projectively (no `Affine` hypothesis) as long as the intermediate
homogeneous weight is non-zero.
-/
set_option linter.unusedSectionVars false
namespace Cg.C08
open Cg
variable {F : Type} [Field F] [DecidableEq F]

/-! ## the inverse of an affine matrix is affine -/
/-- bottom row `(0,0,0,1)` is inherited by any right inverse (`row₃(a) · i = row₃(a * i)`) -/
theorem M4.affine_of_mul_eq_one (a i : M4 F) (ha : M4.Affine a) (h : a * i = M4.one) :
    M4.Affine i := by
  obtain ⟨h1, h2, h3, h4⟩ := ha
  have e1 := congrArg (fun m : M4 F => m.x.w) h
  have e2 := congrArg (fun m : M4 F => m.y.w) h
  have e3 := congrArg (fun m : M4 F => m.z.w) h
  have e4 := congrArg (fun m : M4 F => m.w.w) h
  simp [h1, h2, h3, h4] at e1 e2 e3 e4
  exact ⟨e1, e2, e3, e4⟩
theorem M3.affine2_of_mul_eq_one (a i : M3 F) (ha : M3.Affine2 a) (h : a * i = M3.one) :
    M3.Affine2 i := by
  obtain ⟨h1, h2, h3⟩ := ha
  have e1 := congrArg (fun m : M3 F => m.x.z) h
  have e2 := congrArg (fun m : M3 F => m.y.z) h
  have e3 := congrArg (fun m : M3 F => m.z.z) h
  simp [h1, h2, h3] at e1 e2 e3
  exact ⟨e1, e2, e3⟩
/-- `Matrix4::inverse_transform` of an affine matrix is affine -/
theorem M4.inverseTransform_affine (a i : M4 F) (hi : a.inverseTransform = some i)
    (ha : M4.Affine a) : M4.Affine i :=
  M4.affine_of_mul_eq_one a i ha (Cg.C02.M4.invert_spec a i hi).1
theorem M3.inverseTransform_affine2 (a i : M3 F) (hi : a.inverseTransform = some i)
    (ha : M3.Affine2 a) : M3.Affine2 i :=
  M3.affine2_of_mul_eq_one a i ha (Cg.C02.M3.invert_spec a i hi).1

/-! ## `inverse_transform` undoes the transform -/
/-- **Matrix4**: the returned inverse undoes the (affine) transform on points and vectors, in both
orders, and is itself affine -/
theorem M4.inverseTransform_undoes (a i : M4 F) (hi : a.inverseTransform = some i)
    (ha : M4.Affine a) (p : P3 F) (v : V3 F) :
    i.transformPoint (a.transformPoint p) = p ∧ i.transformVector (a.transformVector v) = v ∧
    a.transformPoint (i.transformPoint p) = p ∧ a.transformVector (i.transformVector v) = v ∧
    M4.Affine i := by
  obtain ⟨h1, h2⟩ := Cg.C02.M4.invert_spec a i hi
  have hia := M4.affine_of_mul_eq_one a i ha h1
  obtain ⟨cv, cp, ov, op, _, _⟩ := matrix4_transform i a ha p v
  obtain ⟨cv', cp', _, _, _, _⟩ := matrix4_transform a i hia p v
  refine ⟨?_, ?_, ?_, ?_, hia⟩
  · rw [← cp, h2, op]
  · rw [← cv, h2, ov]
  · rw [← cp', h1, op]
  · rw [← cv', h1, ov]
/-- **Matrix3 as a 2-D transform** -/
theorem M3.inverseTransform_undoes2 (a i : M3 F) (hi : a.inverseTransform = some i)
    (ha : M3.Affine2 a) (p : P2 F) (v : V2 F) :
    i.transformPoint2 (a.transformPoint2 p) = p ∧ i.transformVector2 (a.transformVector2 v) = v ∧
    a.transformPoint2 (i.transformPoint2 p) = p ∧ a.transformVector2 (i.transformVector2 v) = v ∧
    M3.Affine2 i := by
  obtain ⟨h1, h2⟩ := Cg.C02.M3.invert_spec a i hi
  have hia := M3.affine2_of_mul_eq_one a i ha h1
  obtain ⟨cv, cp, ov, op, _, _⟩ := matrix3_transform2 i a ha p v
  obtain ⟨cv', cp', _, _, _, _⟩ := matrix3_transform2 a i hia p v
  refine ⟨?_, ?_, ?_, ?_, hia⟩
  · rw [← cp, h2, op]
  · rw [← cv, h2, ov]
  · rw [← cp', h1, op]
  · rw [← cv', h1, ov]
/-- **Matrix3 as a 3-D (linear) transform**: no hypothesis -/
theorem M3.inverseTransform_undoes3 (a i : M3 F) (hi : a.inverseTransform = some i)
    (p : P3 F) (v : V3 F) :
    i.transformPoint (a.transformPoint p) = p ∧ i.transformVector (a.transformVector v) = v ∧
    a.transformPoint (i.transformPoint p) = p ∧ a.transformVector (i.transformVector v) = v := by
  obtain ⟨h1, h2⟩ := Cg.C02.M3.invert_spec a i hi
  obtain ⟨cv, cp, ov, op⟩ := matrix3_transform3 i a p v
  obtain ⟨cv', cp', _, _⟩ := matrix3_transform3 a i p v
  refine ⟨?_, ?_, ?_, ?_⟩
  · rw [← cp, h2, op]
  · rw [← cv, h2, ov]
  · rw [← cp', h1, op]
  · rw [← cv', h1, ov]

/-! ## existence: a non-zero determinant gives an inverse that undoes the transform -/
theorem M4.inverseTransform_exists_undoes (a : M4 F) (hd : a.det ≠ 0) (ha : M4.Affine a) :
    ∃ i, a.inverseTransform = some i ∧ M4.Affine i ∧
      (∀ p, i.transformPoint (a.transformPoint p) = p) ∧
      (∀ v, i.transformVector (a.transformVector v) = v) := by
  obtain ⟨i, hi⟩ := Cg.C02.M4.invert_some_of_det_ne a hd
  refine ⟨i, hi, M4.inverseTransform_affine a i hi ha, fun p => ?_, fun v => ?_⟩
  · exact (M4.inverseTransform_undoes a i hi ha p ⟨0, 0, 0⟩).1
  · exact (M4.inverseTransform_undoes a i hi ha ⟨0, 0, 0⟩ v).2.1
theorem M3.inverseTransform_exists_undoes2 (a : M3 F) (hd : a.det ≠ 0) (ha : M3.Affine2 a) :
    ∃ i, a.inverseTransform = some i ∧ M3.Affine2 i ∧
      (∀ p, i.transformPoint2 (a.transformPoint2 p) = p) ∧
      (∀ v, i.transformVector2 (a.transformVector2 v) = v) := by
  obtain ⟨i, hi⟩ := Cg.C02.M3.invert_some_of_det_ne a hd
  refine ⟨i, hi, M3.inverseTransform_affine2 a i hi ha, fun p => ?_, fun v => ?_⟩
  · exact (M3.inverseTransform_undoes2 a i hi ha p ⟨0, 0⟩).1
  · exact (M3.inverseTransform_undoes2 a i hi ha ⟨0, 0⟩ v).2.1
theorem M3.inverseTransform_exists_undoes3 (a : M3 F) (hd : a.det ≠ 0) :
    ∃ i, a.inverseTransform = some i ∧
      (∀ p, i.transformPoint (a.transformPoint p) = p) ∧
      (∀ v, i.transformVector (a.transformVector v) = v) := by
  obtain ⟨i, hi⟩ := Cg.C02.M3.invert_some_of_det_ne a hd
  refine ⟨i, hi, fun p => ?_, fun v => ?_⟩
  · exact (M3.inverseTransform_undoes3 a i hi p ⟨0, 0, 0⟩).1
  · exact (M3.inverseTransform_undoes3 a i hi ⟨0, 0, 0⟩ v).2.1

/-! ## `inverse_transform_vector` agrees with `inverse_transform` -/
/-- the default method is `inverse_transform().map(|i| i.transform_vector(v))`, for all three
matrix transforms; in particular it is `None` exactly when `inverse_transform` is -/
theorem inverseTransformVector_eq (a3 : M3 F) (a4 : M4 F) (v2 : V2 F) (v3 : V3 F) :
    a4.inverseTransformVector v3 = a4.inverseTransform.map (·.transformVector v3) ∧
    a3.inverseTransformVector v3 = a3.inverseTransform.map (·.transformVector v3) ∧
    a3.inverseTransformVector2 v2 = a3.inverseTransform.map (·.transformVector2 v2) ∧
    (a4.inverseTransformVector v3 = none ↔ a4.det = 0) ∧
    (a3.inverseTransformVector v3 = none ↔ a3.det = 0) ∧
    (a3.inverseTransformVector2 v2 = none ↔ a3.det = 0) := by
  refine ⟨rfl, rfl, rfl, ?_, ?_, ?_⟩
  · rw [← Cg.C02.M4.invert_none_iff]; simp [M4.inverseTransformVector, M4.inverseTransform]
  · rw [← Cg.C02.M3.invert_none_iff]; simp [M3.inverseTransformVector, M3.inverseTransform]
  · rw [← Cg.C02.M3.invert_none_iff]; simp [M3.inverseTransformVector2, M3.inverseTransform]
/-- `inverse_transform_vector` undoes `transform_vector` whenever the determinant is non-zero -/
theorem M4.inverseTransformVector_undoes (a : M4 F) (hd : a.det ≠ 0) (ha : M4.Affine a) (v : V3 F) :
    a.inverseTransformVector (a.transformVector v) = some v := by
  obtain ⟨i, hi, _, _, hv⟩ := M4.inverseTransform_exists_undoes a hd ha
  simp only [M4.inverseTransformVector, hi, Option.map_some, hv]
theorem M3.inverseTransformVector2_undoes (a : M3 F) (hd : a.det ≠ 0) (ha : M3.Affine2 a) (v : V2 F) :
    a.inverseTransformVector2 (a.transformVector2 v) = some v := by
  obtain ⟨i, hi, _, _, hv⟩ := M3.inverseTransform_exists_undoes2 a hd ha
  simp only [M3.inverseTransformVector2, hi, Option.map_some, hv]
theorem M3.inverseTransformVector_undoes (a : M3 F) (hd : a.det ≠ 0) (v : V3 F) :
    a.inverseTransformVector (a.transformVector v) = some v := by
  obtain ⟨i, hi, _, hv⟩ := M3.inverseTransform_exists_undoes3 a hd
  simp only [M3.inverseTransformVector, hi, Option.map_some, hv]

/-! ## projective composition of the `Matrix4` point action -/
/-- `from_homogeneous` does not see a non-zero rescaling of the homogeneous vector -/
theorem fromHomogeneous_scale (u : V4 F) (k : F) (hk : k ≠ 0) :
    P3.fromHomogeneous (u * k) = P3.fromHomogeneous u := by
  by_cases hw : u.w = 0
  · ext <;> simp [hw]
  · ext <;> simp <;> field_simp
/-- re-homogenising a de-homogenised vector rescales it by `1 / w` -/
theorem toHomogeneous_fromHomogeneous (u : V4 F) (hw : u.w ≠ 0) :
    (P3.fromHomogeneous u).toHomogeneous = u * (1 / u.w) := by
  ext <;> simp [hw]
/-- **`Matrix4` point composition without `Affine`**: `transform_point` is
`from_homogeneous(m * to_homogeneous(p))` (perspective division), and the action of a product is
the composition of the actions as soon as the inner homogeneous weight does not vanish -/
theorem matrix4_transformPoint_projective (a b : M4 F) (p : P3 F)
    (hw : (b * p.toHomogeneous).w ≠ 0) :
    (a * b).transformPoint p = a.transformPoint (b.transformPoint p) := by
  have e1 : ∀ (m : M4 F) (q : P3 F), m.transformPoint q = P3.fromHomogeneous (m * q.toHomogeneous) :=
    fun _ _ => rfl
  obtain ⟨_, _, _, _, _, _, _, hscal⟩ :=
    Cg.C01.M4.ring_laws a b b p.toHomogeneous (b * p.toHomogeneous) (1 / (b * p.toHomogeneous).w)
  have hassoc := (Cg.C01.M4.ring_laws a b b p.toHomogeneous p.toHomogeneous 0).2.2.2.2.2.1
  rw [e1 a, e1 b, e1 (a * b), toHomogeneous_fromHomogeneous _ hw, hscal,
    fromHomogeneous_scale _ _ (one_div_ne_zero hw), hassoc]
/-- the weight hypothesis holds automatically for an affine inner matrix (weight `1`), so this
contains the point part of `matrix4_transform` -/
theorem M4.affine_weight (b : M4 F) (hb : M4.Affine b) (p : P3 F) :
    (b * p.toHomogeneous).w = 1 := by
  obtain ⟨h1, h2, h3, h4⟩ := hb
  simp [h1, h2, h3, h4]
/-- the weight hypothesis cannot be dropped: with a vanishing inner weight the two sides differ -/
theorem matrix4_projective_needs_weight :
    ∃ (a b : M4 ℚ) (p : P3 ℚ), (b * p.toHomogeneous).w = 0 ∧
      (a * b).transformPoint p ≠ a.transformPoint (b.transformPoint p) := by
  refine ⟨M4.new 1 0 0 1 0 1 0 0 0 0 1 0 0 0 0 1, M4.new 1 0 0 0 0 1 0 0 0 0 1 0 0 0 0 0,
    ⟨1, 0, 0⟩, by simp, ?_⟩
  intro h
  have := congrArg P3.x h
  simp at this

/-! ## non-vacuity -/
/-- an affine, invertible `Matrix4` (scale 2, translation (1,2,3)) and its inverse -/
example :
    let a : M4 ℚ := M4.new 2 0 0 0 0 2 0 0 0 0 2 0 1 2 3 1
    M4.Affine a ∧ a.det ≠ 0 ∧
    a.inverseTransform = some (M4.new (1/2) 0 0 0 0 (1/2) 0 0 0 0 (1/2) 0 (-1/2) (-1) (-3/2) 1) := by
  refine ⟨⟨rfl, rfl, rfl, rfl⟩, by simp [M4.det, M4.detSubProc], ?_⟩
  apply Cg.C02.M4.invert_unique
  ext <;> simp <;> norm_num
/-- a non-affine `Matrix4` with a non-zero inner weight -/
example :
    let b : M4 ℚ := M4.new 1 0 0 1 0 1 0 0 0 0 1 0 0 0 0 1
    let p : P3 ℚ := ⟨1, 0, 0⟩
    ¬ M4.Affine b ∧ (b * p.toHomogeneous).w ≠ 0 := by
  refine ⟨fun h => ?_, ?_⟩
  · have := h.1; simp at this
  · simp

end Cg.C08
