import Cgm.Props.C13b
import Mathlib.Data.Int.Log
import Mathlib.Algebra.Order.Round
/-!
# C13, continued: a genuine witness for the rounding hypothesis, its limits, and the inputs that exposed the `bisect` defect

`Cg.C13.roundtrip_fl*` (C13b.lean) assume `StdRnd u rnd`: `rnd x = x (1 + δ)`, `|δ| ≤ u`, for EVERY real `x`.  The only
witness given there is `id`.  Here:

* `flRound p`: round-to-nearest onto the binary floating-point grid with `p` fraction bits and UNBOUNDED exponent range
  (`ulp x = 2^(⌊log₂|x|⌋ - p)`, `rnd x = round(x / ulp x) * ulp x`).  `stdRnd_flRound`: it satisfies
  `StdRnd 2^-(p+1)` -- the standard model is exactly "IEEE rounding without underflow / overflow".  It is not the identity
  (`flRound_ne`).  Instantiated corollaries: `roundtrip_f64`, `roundtrip_f32` (4 machine epsilons, `ε = 2^-52`, `2^-23`).
* `stdRnd_scale`: the biased rounding `x ↦ x (1 + u)`; with it the round trip error is at least `2 ε |a|`
  (`roundtrip_fl_lower`): the bound `4 ε |a|` of `roundtrip_fl` is within a factor 2 of optimal, in particular not `0`.
* the restriction made explicit: `StdRndOn u rnd S` (the model on a set `S` only), `flRoundB p lo hi` (bounded exponent
  range, flush to zero below `lo`), `roundtrip_fl_on`, `roundtrip_flRoundB`: the 4 ε bound holds whenever the two
  intermediate products are in the normal range; `flRoundB_not_stdRnd`, `roundtrip_flush_fails`: a rounding with a bounded
  range is NOT `StdRnd`, and for an input whose product underflows the clause fails (relative error 1) -- so "all finite
  angle values" in the property text must be read as "all values whose conversion stays in the normal range".
* `bisectPre`: the body of `Angle::bisect` BEFORE the `fix:` commit 2b7a8cc, and `bisect_defect_inputs`: on the inputs of
  `bisect_10_50`, `bisect_350_10` (C13b.lean) the old body returns 350° and 160°, which violate the clause.
-/
set_option linter.unusedSectionVars false
namespace Cg.C13
open Cg

noncomputable def flUlp (p : ℕ) (x : ℝ) : ℝ := (2 : ℝ) ^ (Int.log 2 |x| - (p : ℤ))
noncomputable def flRound (p : ℕ) (x : ℝ) : ℝ := (round (x / flUlp p x) : ℝ) * flUlp p x

theorem flUlp_pos (p : ℕ) (x : ℝ) : 0 < flUlp p x := zpow_pos (by norm_num) _
theorem flUlp_le (p : ℕ) (x : ℝ) (hx : x ≠ 0) : flUlp p x ≤ |x| * (1 / 2) ^ p := by
  have h := Int.zpow_log_le_self (R := ℝ) (b := 2) (by norm_num) (abs_pos.mpr hx)
  rw [Nat.cast_ofNat] at h
  unfold flUlp
  rw [zpow_sub₀ (by norm_num : (2 : ℝ) ≠ 0), zpow_natCast, div_eq_mul_inv, one_div, inv_pow]
  exact mul_le_mul_of_nonneg_right h (by positivity)
theorem flRound_err (p : ℕ) (x : ℝ) : |flRound p x - x| ≤ flUlp p x / 2 := by
  have hp := flUlp_pos p x
  have e : flRound p x - x = ((round (x / flUlp p x) : ℝ) - x / flUlp p x) * flUlp p x := by
    unfold flRound; field_simp
  rw [e, abs_mul, abs_of_pos hp, abs_sub_comm]
  have := abs_sub_round (x / flUlp p x)
  nlinarith
theorem stdRnd_flRound (p : ℕ) : StdRnd ((1 / 2) ^ (p + 1)) (flRound p) := by
  intro x
  by_cases hx : x = 0
  · subst hx
    exact ⟨0, by simp, by simp [flRound]⟩
  · refine ⟨(flRound p x - x) / x, ?_, by field_simp; ring⟩
    rw [abs_div, div_le_iff₀ (abs_pos.mpr hx)]
    have h1 := flRound_err p x
    have h2 := flUlp_le p x hx
    calc |flRound p x - x| ≤ flUlp p x / 2 := h1
      _ ≤ |x| * (1 / 2) ^ p / 2 := by linarith
      _ = (1 / 2) ^ (p + 1) * |x| := by rw [pow_succ]; ring
theorem flRound_zero (p : ℕ) : flRound p 0 = 0 := by simp [flRound]
/-- `flRound` is not the identity: with no fraction bit, 3 rounds to 4 -/
theorem flRound_ne : flRound 0 3 = 4 ∧ flRound 0 3 ≠ 3 := by
  have hl : Int.log 2 |(3 : ℝ)| = 1 := by
    rw [show |(3 : ℝ)| = ((3 : ℕ) : ℝ) by norm_num, Int.log_natCast]
    rfl
  have hu : flUlp 0 3 = 2 := by unfold flUlp; rw [hl]; norm_num
  have hr : round ((3 : ℝ) / 2) = 2 := by
    rw [round_eq]; norm_num
  have e : flRound 0 3 = 4 := by unfold flRound; rw [hu, hr]; norm_num
  exact ⟨e, by rw [e]; norm_num⟩

/-- `StdRnd` is monotone in the unit roundoff -/
theorem StdRnd.mono {u u' : ℝ} {rnd : ℝ → ℝ} (h : StdRnd u rnd) (huu : u ≤ u') : StdRnd u' rnd :=
  fun x => let ⟨δ, hδ, e⟩ := h x; ⟨δ, le_trans hδ huu, e⟩

/-! ### instantiated round trips -/
/-- **binary64**: 52 fraction bits, unit roundoff `2^-53`, machine epsilon `ε = 2^-52`; constants computed as in the source
(`PI / 180.0`, `180.0 / PI` from the rounded `PI`).  Relative error of the round trip at most `4 ε`, both directions,
for every real `a` (unbounded exponent range) -/
theorem roundtrip_f64 (a : ℝ) :
    let rnd := flRound 52
    let pi_fl := rnd Real.pi
    |radToDeg_fl rnd (rnd (180 / pi_fl)) (degToRad_fl rnd (rnd (pi_fl / 180)) a) - a|
      ≤ 4 * (1 / 2) ^ 52 * |a| ∧
    |degToRad_fl rnd (rnd (pi_fl / 180)) (radToDeg_fl rnd (rnd (180 / pi_fl)) a) - a|
      ≤ 4 * (1 / 2) ^ 52 * |a| := by
  have h := roundtrip_fl_consts ((1 / 2) ^ 53) (flRound 52) (by positivity) (by norm_num)
    (stdRnd_flRound 52) a
  have e : (4 : ℝ) * (2 * (1 / 2) ^ 53) = 4 * (1 / 2) ^ 52 := by norm_num
  rw [e] at h
  exact h
/-- **binary32**: the constants are computed in binary64 and `cast` to binary32 (23 fraction bits, `ε = 2^-23`), the two
multiplications are rounded to binary32: relative error at most `4 ε` -/
theorem roundtrip_f32 (a : ℝ) :
    let rnd := flRound 23
    let rnd' := flRound 52
    let pi64 := rnd' Real.pi
    let k1 := rnd (rnd' (pi64 / 180))
    let k2 := rnd (rnd' (180 / pi64))
    |radToDeg_fl rnd k2 (degToRad_fl rnd k1 a) - a| ≤ 4 * (1 / 2) ^ 23 * |a| ∧
    |degToRad_fl rnd k1 (radToDeg_fl rnd k2 a) - a| ≤ 4 * (1 / 2) ^ 23 * |a| := by
  have h := roundtrip_fl_cast ((1 / 2) ^ 24) (flRound 23) (flRound 52) (by positivity) (by norm_num)
    (stdRnd_flRound 23) ((stdRnd_flRound 52).mono (by norm_num)) a
  have e : (4 : ℝ) * (2 * (1 / 2) ^ 24) = 4 * (1 / 2) ^ 23 := by norm_num
  rw [e] at h
  exact h

/-! ### the bound is not slack: a biased rounding -/
/-- `x ↦ x (1 + u)` (always away from zero by the full unit roundoff) is a standard rounding -/
theorem stdRnd_scale {u : ℝ} (hu : 0 ≤ u) : StdRnd u (fun x => x * (1 + u)) :=
  fun x => ⟨u, by rw [abs_of_nonneg hu], rfl⟩
/-- with it the round trip of `roundtrip_fl` is `a (1+u)^4`: the error is at least `4 u |a| = 2 ε |a|`, so the bound
`4 ε |a|` cannot be improved by more than a factor 2 (and the theorem is not trivially true with error 0) -/
theorem roundtrip_fl_lower (u : ℝ) (hu : 0 ≤ u) (a : ℝ) :
    let rnd : ℝ → ℝ := fun x => x * (1 + u)
    2 * (2 * u) * |a| ≤
      |radToDeg_fl rnd (rnd (180 / Real.pi)) (degToRad_fl rnd (rnd (Real.pi / 180)) a) - a| := by
  intro rnd
  have hpi := Real.pi_ne_zero
  have e : radToDeg_fl rnd (rnd (180 / Real.pi)) (degToRad_fl rnd (rnd (Real.pi / 180)) a) - a
      = a * ((1 + u) ^ 4 - 1) := by
    simp only [radToDeg_fl, degToRad_fl, rnd]; field_simp
  have h4 : 4 * u ≤ (1 + u) ^ 4 - 1 := by
    have : (1 + u) ^ 4 - 1 = 4 * u + 6 * u ^ 2 + 4 * u ^ 3 + u ^ 4 := by ring
    have h0 : 0 ≤ 6 * u ^ 2 + 4 * u ^ 3 + u ^ 4 := by positivity
    rw [this]; linarith
  rw [e, abs_mul, abs_of_nonneg (by linarith : (0 : ℝ) ≤ (1 + u) ^ 4 - 1)]
  nlinarith [abs_nonneg a]

/-! ### the restriction made explicit: bounded exponent range -/
/-- the standard model on a set `S` of reals only (e.g. the normal range of a float format) -/
def StdRndOn (u : ℝ) (rnd : ℝ → ℝ) (S : Set ℝ) : Prop :=
  ∀ x ∈ S, ∃ δ : ℝ, |δ| ≤ u ∧ rnd x = x * (1 + δ)
theorem StdRnd.on {u : ℝ} {rnd : ℝ → ℝ} (h : StdRnd u rnd) (S : Set ℝ) : StdRndOn u rnd S := fun x _ => h x

/-- the round trip bound needs the model only at the two intermediate products -/
theorem roundtrip_fl_on (u : ℝ) (rnd : ℝ → ℝ) (S : Set ℝ) (hu : 0 ≤ u) (hu' : u ≤ 1 / 4) (hr : StdRndOn u rnd S)
    (K1 K2 k1 k2 : ℝ) (hK : K1 * K2 = 1) (h1 : RelApprox u K1 k1) (h2 : RelApprox u K2 k2) (a : ℝ)
    (m1 : a * k1 ∈ S) (m2 : rnd (a * k1) * k2 ∈ S) :
    |radToDeg_fl rnd k2 (degToRad_fl rnd k1 a) - a| ≤ 4 * (2 * u) * |a| := by
  obtain ⟨δ3, hδ3, e3⟩ := h1
  obtain ⟨δ4, hδ4, e4⟩ := h2
  obtain ⟨δ1, hδ1, e1⟩ := hr _ m1
  obtain ⟨δ2, hδ2, e2⟩ := hr _ m2
  have := roundtrip_rel_err a K1 K2 δ1 δ2 δ3 δ4 u hK hu hu' hδ1 hδ2 hδ3 hδ4
  unfold radToDeg_fl degToRad_fl
  rw [e2, e1, e3, e4]
  calc _ ≤ 8 * u * |a| := this
    _ = 4 * (2 * u) * |a| := by ring
/-- the other direction (`Rad → Deg → Rad`) is the same statement with the constants exchanged -/
theorem roundtrip_fl_on' (u : ℝ) (rnd : ℝ → ℝ) (S : Set ℝ) (hu : 0 ≤ u) (hu' : u ≤ 1 / 4) (hr : StdRndOn u rnd S)
    (K1 K2 k1 k2 : ℝ) (hK : K1 * K2 = 1) (h1 : RelApprox u K1 k1) (h2 : RelApprox u K2 k2) (a : ℝ)
    (m1 : a * k2 ∈ S) (m2 : rnd (a * k2) * k1 ∈ S) :
    |degToRad_fl rnd k1 (radToDeg_fl rnd k2 a) - a| ≤ 4 * (2 * u) * |a| :=
  roundtrip_fl_on u rnd S hu hu' hr K2 K1 k2 k1 (by rw [mul_comm]; exact hK) h2 h1 a m1 m2

/-- binary floating point with `p` fraction bits and normal range `lo ≤ |x| ≤ hi`; below `lo` the result is flushed to
zero, above `hi` it is junk (`0`) -/
noncomputable def flRoundB (p : ℕ) (lo hi x : ℝ) : ℝ := if lo ≤ |x| ∧ |x| ≤ hi then flRound p x else 0
/-- the normal range together with `0` -/
def normalRange (lo hi : ℝ) : Set ℝ := {x | x = 0 ∨ (lo ≤ |x| ∧ |x| ≤ hi)}
theorem stdRndOn_flRoundB (p : ℕ) (lo hi : ℝ) :
    StdRndOn ((1 / 2) ^ (p + 1)) (flRoundB p lo hi) (normalRange lo hi) := by
  intro x hx
  by_cases hc : lo ≤ |x| ∧ |x| ≤ hi
  · simp only [flRoundB, if_pos hc]; exact stdRnd_flRound p x
  · rcases hx with rfl | hx
    · exact ⟨0, by simp, by simp [flRoundB, flRound_zero]⟩
    · exact absurd hx hc
/-- a bounded range is NOT a standard rounding: below the range the relative error is 1 -/
theorem flRoundB_not_stdRnd (p : ℕ) (lo hi u : ℝ) (hlo : 0 < lo) (hu : u < 1) :
    ¬ StdRnd u (flRoundB p lo hi) := by
  intro h
  obtain ⟨δ, hδ, e⟩ := h (lo / 2)
  have hc : ¬ (lo ≤ |lo / 2| ∧ |lo / 2| ≤ hi) := by
    rw [abs_of_pos (by linarith)]; intro hc; linarith [hc.1]
  simp only [flRoundB, if_neg hc] at e
  have : 1 + δ = 0 := by
    rcases mul_eq_zero.mp e.symm with h0 | h0
    · linarith
    · exact h0
  have := (abs_le.mp hδ).1
  linarith
/-- **the restricted clause**: with the bounded-range rounding for the two multiplications (constants: the correctly
rounded `π/180`, `180/π`), the round trip has relative error at most `4 ε` (`ε = 2^-p`) for every `a` whose two
intermediate products are zero or in the normal range -/
theorem roundtrip_flRoundB (p : ℕ) (hp : 1 ≤ p) (lo hi a : ℝ) :
    let rnd := flRoundB p lo hi
    let k1 := flRound p (Real.pi / 180)
    let k2 := flRound p (180 / Real.pi)
    (a * k1 ∈ normalRange lo hi → rnd (a * k1) * k2 ∈ normalRange lo hi →
      |radToDeg_fl rnd k2 (degToRad_fl rnd k1 a) - a| ≤ 4 * (1 / 2) ^ p * |a|) ∧
    (a * k2 ∈ normalRange lo hi → rnd (a * k2) * k1 ∈ normalRange lo hi →
      |degToRad_fl rnd k1 (radToDeg_fl rnd k2 a) - a| ≤ 4 * (1 / 2) ^ p * |a|) := by
  intro rnd k1 k2
  have hu : (0 : ℝ) ≤ (1 / 2) ^ (p + 1) := by positivity
  have hu' : ((1 : ℝ) / 2) ^ (p + 1) ≤ 1 / 4 := by
    have := pow_le_pow_of_le_one (by norm_num : (0 : ℝ) ≤ 1 / 2) (by norm_num) (by omega : 2 ≤ p + 1)
    calc ((1 : ℝ) / 2) ^ (p + 1) ≤ (1 / 2) ^ 2 := this
      _ = 1 / 4 := by norm_num
  have hK : Real.pi / 180 * (180 / Real.pi) = 1 := by have := Real.pi_ne_zero; field_simp
  have e : (4 : ℝ) * (2 * (1 / 2) ^ (p + 1)) = 4 * (1 / 2) ^ p := by rw [pow_succ]; ring
  constructor
  · intro m1 m2
    have := roundtrip_fl_on _ rnd _ hu hu' (stdRndOn_flRoundB p lo hi) _ _ k1 k2 hK
      (stdRnd_flRound p _) (stdRnd_flRound p _) a m1 m2
    rwa [e] at this
  · intro m1 m2
    have := roundtrip_fl_on' _ rnd _ hu hu' (stdRndOn_flRoundB p lo hi) _ _ k1 k2 hK
      (stdRnd_flRound p _) (stdRnd_flRound p _) a m1 m2
    rwa [e] at this
/-- ... and outside it the clause FAILS: if `a k1` underflows, the round trip returns `0`, a relative error of 1 -/
theorem roundtrip_flush_fails (p : ℕ) (lo hi k1 k2 a : ℝ) (h : |a * k1| < lo) :
    radToDeg_fl (flRoundB p lo hi) k2 (degToRad_fl (flRoundB p lo hi) k1 a) = 0 ∧
    |radToDeg_fl (flRoundB p lo hi) k2 (degToRad_fl (flRoundB p lo hi) k1 a) - a| = |a| := by
  have h1 : degToRad_fl (flRoundB p lo hi) k1 a = 0 := by
    unfold degToRad_fl flRoundB
    rw [if_neg (fun hc => absurd hc.1 (not_le.mpr h))]
  have h2 : radToDeg_fl (flRoundB p lo hi) k2 0 = 0 := by
    unfold radToDeg_fl flRoundB
    split_ifs
    · rw [zero_mul, flRound_zero]
    · rfl
  rw [h1, h2]
  exact ⟨rfl, by rw [zero_sub, abs_neg]⟩
set_option exponentiation.threshold 1100 in
/-- the hypothesis is satisfiable with the binary64 parameters: `a = 2^-1030` (a normal number), whose radian measure
`a π/180 ≈ 2^-1035.8` is below the smallest normal `2^-1022` -/
example : ∃ a : ℝ, (1 / 2 : ℝ) ^ 1022 ≤ |a| ∧ |a * flRound 52 (Real.pi / 180)| < (1 / 2) ^ 1022 ∧ a ≠ 0 := by
  refine ⟨(1 / 2) ^ 1022, ?_, ?_, by positivity⟩
  · rw [abs_of_pos (by positivity)]
  · obtain ⟨δ, hδ, e⟩ := stdRnd_flRound 52 (Real.pi / 180)
    have hd := (abs_le.mp hδ)
    have hsmall : ((1 : ℝ) / 2) ^ (52 + 1) ≤ 1 := pow_le_one₀ (by norm_num) (by norm_num)
    have hk : |flRound 52 (Real.pi / 180)| < 1 := by
      rw [e, abs_mul]
      have h1 : |Real.pi / 180| ≤ 4 / 180 := by
        rw [abs_of_pos (by positivity)]; linarith [Real.pi_le_four]
      have h2 : |1 + δ| ≤ 2 := by rw [abs_le]; constructor <;> linarith [hd.1, hd.2]
      calc |Real.pi / 180| * |1 + δ| ≤ 4 / 180 * 2 := mul_le_mul h1 h2 (abs_nonneg _) (by norm_num)
        _ < 1 := by norm_num
    rw [abs_mul, abs_of_pos (by positivity : (0 : ℝ) < (1 / 2) ^ 1022)]
    have hpos : (0 : ℝ) < (1 / 2) ^ 1022 := by positivity
    nlinarith [abs_nonneg (flRound 52 (Real.pi / 180))]

/-! ## the inputs that exposed the original `bisect` defect -/
section bisect
/-- the body of `Angle::bisect` BEFORE the repair (`fix:` commit 2b7a8cc of the crate): `normalize((self - other) * half + self)`.
The model's `Angle.bisect` is the repaired body `normalize(self + (other - self).normalize_signed() * half)` -/
def bisectPre {α : Type} [Add α] [Sub α] [Mul α] [Div α] [Neg α] [OfNat α 0] [OfNat α 1] [NatCast α]
    [LT α] [DecidableLT α] [FRem α] (T a b : α) : α :=
  Angle.normalize T ((a - b) * half + a)

theorem bisectPre_10_50 : bisectPre (360 : ℝ) 10 50 = 350 :=
  normalize_unique_real 360 _ 350 (by norm_num) (-1) (by norm_num [half]) (by norm_num)
theorem bisectPre_350_10 : bisectPre (360 : ℝ) 350 10 = 160 :=
  normalize_unique_real 360 _ 160 (by norm_num) 1 (by norm_num [half]) (by norm_num)

/-- **`bisect_10_50` and `bisect_350_10` (C13b.lean) are the inputs that exposed the original defect** (they replace the
placeholder `example : True` at the end of C13.lean).  On `(10°, 50°)` the old body returned `350°` where the repaired one
returns `30°`; on `(350°, 10°)` it returned `160°` instead of `0°`.  Both old results violate the clause "bisect(a,b) is the
direction midway between a and b (equal signed distance to both, at most a quarter turn from each)": `350°` is at signed
distance `-20°` from `a = 10°` but `b = 50°` is at `+60°` from it; `160°` is `170° > 90°` away from `a = 350°` -/
theorem bisect_defect_inputs :
    (Angle.bisect (360 : ℝ) 10 50 = 30 ∧ bisectPre (360 : ℝ) 10 50 = 350) ∧
    (Angle.bisect (360 : ℝ) 350 10 = 0 ∧ bisectPre (360 : ℝ) 350 10 = 160) ∧
    Angle.normalizeSigned (360 : ℝ) (bisectPre 360 10 50 - 10) ≠
      Angle.normalizeSigned (360 : ℝ) (50 - bisectPre 360 10 50) ∧
    ¬ |Angle.normalizeSigned (360 : ℝ) (bisectPre 360 350 10 - 350)| ≤ 360 / 4 := by
  refine ⟨⟨bisect_10_50, bisectPre_10_50⟩, ⟨bisect_350_10, bisectPre_350_10⟩, ?_, ?_⟩
  · rw [bisectPre_10_50]
    have h1 : Angle.normalizeSigned (360 : ℝ) (350 - 10) = -20 :=
      normalizeSigned_unique_real 360 _ (-20) (by norm_num) 1 (by norm_num) (by norm_num)
    have h2 : Angle.normalizeSigned (360 : ℝ) (50 - 350) = 60 :=
      normalizeSigned_unique_real 360 _ 60 (by norm_num) (-1) (by norm_num) (by norm_num)
    rw [h1, h2]; norm_num
  · rw [bisectPre_350_10]
    have h1 : Angle.normalizeSigned (360 : ℝ) (160 - 350) = 170 :=
      normalizeSigned_unique_real 360 _ 170 (by norm_num) (-1) (by norm_num) (by norm_num)
    rw [h1]; norm_num
/-- so the old body is refuted by the theorem that holds for the repaired one (`bisect_midway`, C13.lean): no `FRemSpec`
scalar can satisfy the midway clause with `bisectPre` -/
theorem bisectPre_not_midway :
    ¬ (∀ a b : ℝ, Angle.normalizeSigned 360 (bisectPre 360 a b - a) =
        Angle.normalizeSigned 360 (b - bisectPre 360 a b)) :=
  fun h => bisect_defect_inputs.2.2.1 (h 10 50)
/-- the same values by evaluation with the driver's `Rat` instance of `%` -/
example : bisectPre (360 : Rat) 10 50 = 350 ∧ Angle.bisect (360 : Rat) 10 50 = 30 := by decide +kernel
example : bisectPre (360 : Rat) 350 10 = 160 ∧ Angle.bisect (360 : Rat) 350 10 = 0 := by decide +kernel
end bisect

end Cg.C13
