import Cgm.Props.C17b
import Cgm.Model.Assign
/-!
# C17 (third part) — the forms as DIFFERENT code, the operator table, `Sum`/`Product` for angles and bases

`C17.lean`/`C17b.lean` erase the call-site form by construction (`Instr.step` ignores it).  Here
(audit gaps 3, 10, 18 of props_gap_report2.md):

1. the compound-assignment impls are modelled as the code writes them (`Cgm/Model/Assign.lean`:
   a chain of in-place single-field updates, matrices column by column through the vector
   assignments, quaternion scalar part then vector part) and proved equal to the by-value
   operators — `T.opAssign_eq` for every `*Assign` impl and every `*_assign_element_wise` method;
2. the operators are enumerated: a sum type `OVal` of all operator-bearing types, the typing table
   `opTy` (112 operand-type pairs) / `assignTy` (65 assignment impls), `evalOp`, `evalAssign`
   (through the assignment code), `evalForm`; evaluation does not depend on the form
   (`evalForm_eq`, `evalForm_indep`), and straight-line programs over registers of mixed types give
   the same registers whichever forms they are written with (`runProg'_forms`);
3. `Sum` for `Rad`/`Deg`, `Product` for `Basis2`/`Basis3`, and the by-reference iterator impls
   (`Sum<&'a T>`, `Product<&'a T>`) as folds that read through a reference at every step.

All statements hold over any scalar with the bare notation classes (`[Add α]` ...): no ring laws
are used, so they can be instantiated at any interpretation of `+ - * / %`; the overflow / wrapping / panic behaviour of the twelve
primitive types is NOT modelled here (no overflow model), so nothing is claimed about it.
-/
set_option linter.unusedSectionVars false
set_option linter.unusedVariables false
namespace Cg.C17
open Cg

/-! ## 1. the compound-assignment code computes the by-value operator (two different definitions agree) -/
section assign_eq
variable {α : Type}
theorem V1.addAssign_eq [Add α] (a : V1 α) (b : V1 α) : a.addAssign b = a + b := rfl
theorem V1.subAssign_eq [Sub α] (a : V1 α) (b : V1 α) : a.subAssign b = a - b := rfl
theorem V1.mulAssignS_eq [Mul α] (a : V1 α) (s : α) : a.mulAssignS s = a * s := rfl
theorem V1.divAssignS_eq [Div α] (a : V1 α) (s : α) : a.divAssignS s = a / s := rfl
theorem V1.remAssignS_eq [FRem α] (a : V1 α) (s : α) : a.remAssignS s = a.rem s := rfl
theorem V1.addAssignElementWise_eq [Add α] (a b : V1 α) : a.addAssignElementWise b = a + b := rfl
theorem V1.subAssignElementWise_eq [Sub α] (a b : V1 α) : a.subAssignElementWise b = a - b := rfl
theorem V1.mulAssignElementWise_eq [Mul α] (a b : V1 α) : a.mulAssignElementWise b = V1.mulEw a b := rfl
theorem V1.divAssignElementWise_eq [Div α] (a b : V1 α) : a.divAssignElementWise b = V1.divEw a b := rfl
theorem V1.remAssignElementWise_eq [FRem α] (a b : V1 α) : a.remAssignElementWise b = V1.remEw a b := rfl
theorem V1.addAssignElementWiseS_eq [Add α] (a : V1 α) (s : α) : a.addAssignElementWiseS s = V1.addS a s := rfl
theorem V1.subAssignElementWiseS_eq [Sub α] (a : V1 α) (s : α) : a.subAssignElementWiseS s = V1.subS a s := rfl
theorem V1.mulAssignElementWiseS_eq [Mul α] (a : V1 α) (s : α) : a.mulAssignElementWiseS s = a * s := rfl
theorem V1.divAssignElementWiseS_eq [Div α] (a : V1 α) (s : α) : a.divAssignElementWiseS s = a / s := rfl
theorem V1.remAssignElementWiseS_eq [FRem α] (a : V1 α) (s : α) : a.remAssignElementWiseS s = a.rem s := rfl
theorem V2.addAssign_eq [Add α] (a : V2 α) (b : V2 α) : a.addAssign b = a + b := rfl
theorem V2.subAssign_eq [Sub α] (a : V2 α) (b : V2 α) : a.subAssign b = a - b := rfl
theorem V2.mulAssignS_eq [Mul α] (a : V2 α) (s : α) : a.mulAssignS s = a * s := rfl
theorem V2.divAssignS_eq [Div α] (a : V2 α) (s : α) : a.divAssignS s = a / s := rfl
theorem V2.remAssignS_eq [FRem α] (a : V2 α) (s : α) : a.remAssignS s = a.rem s := rfl
theorem V2.addAssignElementWise_eq [Add α] (a b : V2 α) : a.addAssignElementWise b = a + b := rfl
theorem V2.subAssignElementWise_eq [Sub α] (a b : V2 α) : a.subAssignElementWise b = a - b := rfl
theorem V2.mulAssignElementWise_eq [Mul α] (a b : V2 α) : a.mulAssignElementWise b = V2.mulEw a b := rfl
theorem V2.divAssignElementWise_eq [Div α] (a b : V2 α) : a.divAssignElementWise b = V2.divEw a b := rfl
theorem V2.remAssignElementWise_eq [FRem α] (a b : V2 α) : a.remAssignElementWise b = V2.remEw a b := rfl
theorem V2.addAssignElementWiseS_eq [Add α] (a : V2 α) (s : α) : a.addAssignElementWiseS s = V2.addS a s := rfl
theorem V2.subAssignElementWiseS_eq [Sub α] (a : V2 α) (s : α) : a.subAssignElementWiseS s = V2.subS a s := rfl
theorem V2.mulAssignElementWiseS_eq [Mul α] (a : V2 α) (s : α) : a.mulAssignElementWiseS s = a * s := rfl
theorem V2.divAssignElementWiseS_eq [Div α] (a : V2 α) (s : α) : a.divAssignElementWiseS s = a / s := rfl
theorem V2.remAssignElementWiseS_eq [FRem α] (a : V2 α) (s : α) : a.remAssignElementWiseS s = a.rem s := rfl
theorem V3.addAssign_eq [Add α] (a : V3 α) (b : V3 α) : a.addAssign b = a + b := rfl
theorem V3.subAssign_eq [Sub α] (a : V3 α) (b : V3 α) : a.subAssign b = a - b := rfl
theorem V3.mulAssignS_eq [Mul α] (a : V3 α) (s : α) : a.mulAssignS s = a * s := rfl
theorem V3.divAssignS_eq [Div α] (a : V3 α) (s : α) : a.divAssignS s = a / s := rfl
theorem V3.remAssignS_eq [FRem α] (a : V3 α) (s : α) : a.remAssignS s = a.rem s := rfl
theorem V3.addAssignElementWise_eq [Add α] (a b : V3 α) : a.addAssignElementWise b = a + b := rfl
theorem V3.subAssignElementWise_eq [Sub α] (a b : V3 α) : a.subAssignElementWise b = a - b := rfl
theorem V3.mulAssignElementWise_eq [Mul α] (a b : V3 α) : a.mulAssignElementWise b = V3.mulEw a b := rfl
theorem V3.divAssignElementWise_eq [Div α] (a b : V3 α) : a.divAssignElementWise b = V3.divEw a b := rfl
theorem V3.remAssignElementWise_eq [FRem α] (a b : V3 α) : a.remAssignElementWise b = V3.remEw a b := rfl
theorem V3.addAssignElementWiseS_eq [Add α] (a : V3 α) (s : α) : a.addAssignElementWiseS s = V3.addS a s := rfl
theorem V3.subAssignElementWiseS_eq [Sub α] (a : V3 α) (s : α) : a.subAssignElementWiseS s = V3.subS a s := rfl
theorem V3.mulAssignElementWiseS_eq [Mul α] (a : V3 α) (s : α) : a.mulAssignElementWiseS s = a * s := rfl
theorem V3.divAssignElementWiseS_eq [Div α] (a : V3 α) (s : α) : a.divAssignElementWiseS s = a / s := rfl
theorem V3.remAssignElementWiseS_eq [FRem α] (a : V3 α) (s : α) : a.remAssignElementWiseS s = a.rem s := rfl
theorem V4.addAssign_eq [Add α] (a : V4 α) (b : V4 α) : a.addAssign b = a + b := rfl
theorem V4.subAssign_eq [Sub α] (a : V4 α) (b : V4 α) : a.subAssign b = a - b := rfl
theorem V4.mulAssignS_eq [Mul α] (a : V4 α) (s : α) : a.mulAssignS s = a * s := rfl
theorem V4.divAssignS_eq [Div α] (a : V4 α) (s : α) : a.divAssignS s = a / s := rfl
theorem V4.remAssignS_eq [FRem α] (a : V4 α) (s : α) : a.remAssignS s = a.rem s := rfl
theorem V4.addAssignElementWise_eq [Add α] (a b : V4 α) : a.addAssignElementWise b = a + b := rfl
theorem V4.subAssignElementWise_eq [Sub α] (a b : V4 α) : a.subAssignElementWise b = a - b := rfl
theorem V4.mulAssignElementWise_eq [Mul α] (a b : V4 α) : a.mulAssignElementWise b = V4.mulEw a b := rfl
theorem V4.divAssignElementWise_eq [Div α] (a b : V4 α) : a.divAssignElementWise b = V4.divEw a b := rfl
theorem V4.remAssignElementWise_eq [FRem α] (a b : V4 α) : a.remAssignElementWise b = V4.remEw a b := rfl
theorem V4.addAssignElementWiseS_eq [Add α] (a : V4 α) (s : α) : a.addAssignElementWiseS s = V4.addS a s := rfl
theorem V4.subAssignElementWiseS_eq [Sub α] (a : V4 α) (s : α) : a.subAssignElementWiseS s = V4.subS a s := rfl
theorem V4.mulAssignElementWiseS_eq [Mul α] (a : V4 α) (s : α) : a.mulAssignElementWiseS s = a * s := rfl
theorem V4.divAssignElementWiseS_eq [Div α] (a : V4 α) (s : α) : a.divAssignElementWiseS s = a / s := rfl
theorem V4.remAssignElementWiseS_eq [FRem α] (a : V4 α) (s : α) : a.remAssignElementWiseS s = a.rem s := rfl
theorem P1.addAssignV_eq [Add α] (a : P1 α) (b : V1 α) : a.addAssignV b = a + b := rfl
theorem P1.subAssignV_eq [Sub α] (a : P1 α) (b : V1 α) : a.subAssignV b = a - b := rfl
theorem P1.mulAssignS_eq [Mul α] (a : P1 α) (s : α) : a.mulAssignS s = a * s := rfl
theorem P1.divAssignS_eq [Div α] (a : P1 α) (s : α) : a.divAssignS s = a / s := rfl
theorem P1.remAssignS_eq [FRem α] (a : P1 α) (s : α) : a.remAssignS s = a.rem s := rfl
theorem P1.addAssignElementWise_eq [Add α] (a b : P1 α) : a.addAssignElementWise b = P1.addEw a b := rfl
theorem P1.subAssignElementWise_eq [Sub α] (a b : P1 α) : a.subAssignElementWise b = P1.subEw a b := rfl
theorem P1.mulAssignElementWise_eq [Mul α] (a b : P1 α) : a.mulAssignElementWise b = P1.mulEw a b := rfl
theorem P1.divAssignElementWise_eq [Div α] (a b : P1 α) : a.divAssignElementWise b = P1.divEw a b := rfl
theorem P1.remAssignElementWise_eq [FRem α] (a b : P1 α) : a.remAssignElementWise b = P1.remEw a b := rfl
theorem P1.addAssignElementWiseS_eq [Add α] (a : P1 α) (s : α) : a.addAssignElementWiseS s = P1.addS a s := rfl
theorem P1.subAssignElementWiseS_eq [Sub α] (a : P1 α) (s : α) : a.subAssignElementWiseS s = P1.subS a s := rfl
theorem P1.mulAssignElementWiseS_eq [Mul α] (a : P1 α) (s : α) : a.mulAssignElementWiseS s = a * s := rfl
theorem P1.divAssignElementWiseS_eq [Div α] (a : P1 α) (s : α) : a.divAssignElementWiseS s = a / s := rfl
theorem P1.remAssignElementWiseS_eq [FRem α] (a : P1 α) (s : α) : a.remAssignElementWiseS s = a.rem s := rfl
theorem P2.addAssignV_eq [Add α] (a : P2 α) (b : V2 α) : a.addAssignV b = a + b := rfl
theorem P2.subAssignV_eq [Sub α] (a : P2 α) (b : V2 α) : a.subAssignV b = a - b := rfl
theorem P2.mulAssignS_eq [Mul α] (a : P2 α) (s : α) : a.mulAssignS s = a * s := rfl
theorem P2.divAssignS_eq [Div α] (a : P2 α) (s : α) : a.divAssignS s = a / s := rfl
theorem P2.remAssignS_eq [FRem α] (a : P2 α) (s : α) : a.remAssignS s = a.rem s := rfl
theorem P2.addAssignElementWise_eq [Add α] (a b : P2 α) : a.addAssignElementWise b = P2.addEw a b := rfl
theorem P2.subAssignElementWise_eq [Sub α] (a b : P2 α) : a.subAssignElementWise b = P2.subEw a b := rfl
theorem P2.mulAssignElementWise_eq [Mul α] (a b : P2 α) : a.mulAssignElementWise b = P2.mulEw a b := rfl
theorem P2.divAssignElementWise_eq [Div α] (a b : P2 α) : a.divAssignElementWise b = P2.divEw a b := rfl
theorem P2.remAssignElementWise_eq [FRem α] (a b : P2 α) : a.remAssignElementWise b = P2.remEw a b := rfl
theorem P2.addAssignElementWiseS_eq [Add α] (a : P2 α) (s : α) : a.addAssignElementWiseS s = P2.addS a s := rfl
theorem P2.subAssignElementWiseS_eq [Sub α] (a : P2 α) (s : α) : a.subAssignElementWiseS s = P2.subS a s := rfl
theorem P2.mulAssignElementWiseS_eq [Mul α] (a : P2 α) (s : α) : a.mulAssignElementWiseS s = a * s := rfl
theorem P2.divAssignElementWiseS_eq [Div α] (a : P2 α) (s : α) : a.divAssignElementWiseS s = a / s := rfl
theorem P2.remAssignElementWiseS_eq [FRem α] (a : P2 α) (s : α) : a.remAssignElementWiseS s = a.rem s := rfl
theorem P3.addAssignV_eq [Add α] (a : P3 α) (b : V3 α) : a.addAssignV b = a + b := rfl
theorem P3.subAssignV_eq [Sub α] (a : P3 α) (b : V3 α) : a.subAssignV b = a - b := rfl
theorem P3.mulAssignS_eq [Mul α] (a : P3 α) (s : α) : a.mulAssignS s = a * s := rfl
theorem P3.divAssignS_eq [Div α] (a : P3 α) (s : α) : a.divAssignS s = a / s := rfl
theorem P3.remAssignS_eq [FRem α] (a : P3 α) (s : α) : a.remAssignS s = a.rem s := rfl
theorem P3.addAssignElementWise_eq [Add α] (a b : P3 α) : a.addAssignElementWise b = P3.addEw a b := rfl
theorem P3.subAssignElementWise_eq [Sub α] (a b : P3 α) : a.subAssignElementWise b = P3.subEw a b := rfl
theorem P3.mulAssignElementWise_eq [Mul α] (a b : P3 α) : a.mulAssignElementWise b = P3.mulEw a b := rfl
theorem P3.divAssignElementWise_eq [Div α] (a b : P3 α) : a.divAssignElementWise b = P3.divEw a b := rfl
theorem P3.remAssignElementWise_eq [FRem α] (a b : P3 α) : a.remAssignElementWise b = P3.remEw a b := rfl
theorem P3.addAssignElementWiseS_eq [Add α] (a : P3 α) (s : α) : a.addAssignElementWiseS s = P3.addS a s := rfl
theorem P3.subAssignElementWiseS_eq [Sub α] (a : P3 α) (s : α) : a.subAssignElementWiseS s = P3.subS a s := rfl
theorem P3.mulAssignElementWiseS_eq [Mul α] (a : P3 α) (s : α) : a.mulAssignElementWiseS s = a * s := rfl
theorem P3.divAssignElementWiseS_eq [Div α] (a : P3 α) (s : α) : a.divAssignElementWiseS s = a / s := rfl
theorem P3.remAssignElementWiseS_eq [FRem α] (a : P3 α) (s : α) : a.remAssignElementWiseS s = a.rem s := rfl
theorem M2.addAssign_eq [Add α] (a b : M2 α) : a.addAssign b = a + b := rfl
theorem M2.subAssign_eq [Sub α] (a b : M2 α) : a.subAssign b = a - b := rfl
theorem M2.mulAssignS_eq [Mul α] (a : M2 α) (s : α) : a.mulAssignS s = a * s := rfl
theorem M2.divAssignS_eq [Div α] (a : M2 α) (s : α) : a.divAssignS s = a / s := rfl
theorem M2.remAssignS_eq [FRem α] (a : M2 α) (s : α) : a.remAssignS s = a.rem s := rfl
theorem M3.addAssign_eq [Add α] (a b : M3 α) : a.addAssign b = a + b := rfl
theorem M3.subAssign_eq [Sub α] (a b : M3 α) : a.subAssign b = a - b := rfl
theorem M3.mulAssignS_eq [Mul α] (a : M3 α) (s : α) : a.mulAssignS s = a * s := rfl
theorem M3.divAssignS_eq [Div α] (a : M3 α) (s : α) : a.divAssignS s = a / s := rfl
theorem M3.remAssignS_eq [FRem α] (a : M3 α) (s : α) : a.remAssignS s = a.rem s := rfl
theorem M4.addAssign_eq [Add α] (a b : M4 α) : a.addAssign b = a + b := rfl
theorem M4.subAssign_eq [Sub α] (a b : M4 α) : a.subAssign b = a - b := rfl
theorem M4.mulAssignS_eq [Mul α] (a : M4 α) (s : α) : a.mulAssignS s = a * s := rfl
theorem M4.divAssignS_eq [Div α] (a : M4 α) (s : α) : a.divAssignS s = a / s := rfl
theorem M4.remAssignS_eq [FRem α] (a : M4 α) (s : α) : a.remAssignS s = a.rem s := rfl
theorem Quat.addAssign_eq [Add α] (a b : Quat α) : a.addAssign b = a + b := rfl
theorem Quat.subAssign_eq [Sub α] (a b : Quat α) : a.subAssign b = a - b := rfl
theorem Quat.mulAssignS_eq [Mul α] (a : Quat α) (s : α) : a.mulAssignS s = a * s := rfl
theorem Quat.divAssignS_eq [Div α] (a : Quat α) (s : α) : a.divAssignS s = a / s := rfl
theorem Quat.remAssignS_eq [FRem α] (a : Quat α) (s : α) : a.remAssignS s = a.rem s := rfl
end assign_eq

/-- the compound assignments of the angle newtypes -/
theorem angle_assign_eq {α : Type} :
    (∀ [Add α] (a b : α), Angle.addAssign a b = Angle.add a b) ∧
    (∀ [Sub α] (a b : α), Angle.subAssign a b = Angle.sub a b) ∧
    (∀ [FRem α] (a b : α), Angle.remAssign a b = Angle.rem a b) ∧
    (∀ [Mul α] (a s : α), Angle.mulAssignS a s = Angle.mulS a s) ∧
    (∀ [Div α] (a s : α), Angle.divAssignS a s = Angle.divS a s) :=
  ⟨fun _ _ => rfl, fun _ _ => rfl, fun _ _ => rfl, fun _ _ => rfl, fun _ _ => rfl⟩

/-- the assignment code is really different code: it is a chain of single-field updates
(here spelled out for `Vector3 +=` and, through the column vectors, `Matrix2 *= s`) -/
example {α : Type} [Add α] (a b : V3 α) :
    a.addAssign b =
      { ({ ({ a with x := a.x + b.x } : V3 α) with y := a.y + b.y } : V3 α) with z := a.z + b.z } := rfl
example {α : Type} [Mul α] (m : M2 α) (s : α) :
    m.mulAssignS s = { ({ m with x := m.x.mulAssignS s } : M2 α) with y := m.y.mulAssignS s } := rfl
/-- what a wrong assignment body looks like to the model now: `v /= s` written through the reciprocal
(the shape of seeded defect C17-A) differs from the by-value `/` on an integer scalar type, where the
assignment code above does not; over a field (exact arithmetic) the two coincide, so for the
float-only matrices that defect is a rounding-level difference outside the exact model -/
example : (⟨3, 6⟩ : V2 ℤ) * ((1 : ℤ) / 3) ≠ (⟨3, 6⟩ : V2 ℤ) / (3 : ℤ) ∧
    (⟨3, 6⟩ : V2 ℤ).divAssignS 3 = (⟨3, 6⟩ : V2 ℤ) / (3 : ℤ) := by decide
example (m : M2 ℚ) (s : ℚ) : m * ((1 : ℚ) / s) = m.divAssignS s := by
  rw [M2.divAssignS_eq]; ext <;> simp [div_eq_mul_inv]

/-! ## 2. the operator table: typing, and evaluation does not depend on the form -/
section table
variable {α : Type} [Add α] [Sub α] [Mul α] [Div α] [Neg α] [FRem α] [NatCast α]

def allTys : List OTy :=
  [.v1, .v2, .v3, .v4, .p1, .p2, .p3, .m2, .m3, .m4, .q, .rad, .deg, .basis2, .basis3, .scalar]
def allOps : List BinOp := [.add, .sub, .mul, .div, .rem]
def allTriples : List (BinOp × OTy × OTy) :=
  allOps.flatMap fun op => allTys.flatMap fun s => allTys.map fun t => (op, s, t)
theorem allTys_complete (t : OTy) : t ∈ allTys := by cases t <;> simp [allTys]
theorem allOps_complete (op : BinOp) : op ∈ allOps := by cases op <;> simp [allOps]

/-- the Lean table `opTy` has 112 operand-type pairs (`Add` 13, `Sub` 16, `Mul` 34, `Div` 26, `Rem` 23).  This theorem counts
the Lean table only: that these are the pairs of the impl inventory (/verif/inventory/ops_impls.txt modulo reference forms and
primitive types) is the intent of the transcription and is checked by no theorem or tool ... -/
theorem opTy_count :
    (allTriples.filter fun x => (opTy x.1 x.2.1 x.2.2).isSome).length = 112 ∧
    (allTys.flatMap fun s => allTys.map fun t => (opTy .add s t).isSome).count true = 13 ∧
    (allTys.flatMap fun s => allTys.map fun t => (opTy .sub s t).isSome).count true = 16 ∧
    (allTys.flatMap fun s => allTys.map fun t => (opTy .mul s t).isSome).count true = 34 ∧
    (allTys.flatMap fun s => allTys.map fun t => (opTy .div s t).isSome).count true = 26 ∧
    (allTys.flatMap fun s => allTys.map fun t => (opTy .rem s t).isSome).count true = 23 := by
  refine ⟨?_, ?_, ?_, ?_, ?_, ?_⟩ <;> decide +kernel
/-- ... and the 65 `*Assign` impls (13 for each symbol) -/
theorem assignTy_count :
    (allTriples.filter fun x => assignTy x.1 x.2.1 x.2.2).length = 65 ∧
    ∀ op : BinOp, (allTys.flatMap fun s => allTys.map fun t => assignTy op s t).count true = 13 := by
  refine ⟨by decide +kernel, fun op => ?_⟩
  cases op <;> decide +kernel

/-- an assignment impl exists only where the by-value operator exists and returns the type of
its left operand -/
theorem assignTy_sound (op : BinOp) (s t : OTy) (h : assignTy op s t = true) : opTy op s t = some s := by
  cases op <;> cases s <;> cases t <;> first | rfl | exact absurd h (by decide)
/-- conversely every by-value operator whose result has the type of the left operand has an assignment
form, except the products of two values of the same type (`Matrix*Matrix`, `Quaternion*Quaternion`,
`Basis*Basis` have no `*=`) -/
theorem assignTy_complete (op : BinOp) (s t : OTy) (h : opTy op s t = some s) (hst : ¬ (op = .mul ∧ s = t)) :
    assignTy op s t = true := by
  cases op <;> cases s <;> cases t <;>
    first | rfl | exact absurd h (by decide) | exact absurd ⟨rfl, rfl⟩ hst

/-- `evalOp` is typed by `opTy`: it is defined exactly on the pairs of the table and returns a
value of the `Output` type -/
theorem evalOp_ty (op : BinOp) (a b : OVal α) : (evalOp op a b).map OVal.ty = opTy op a.ty b.ty := by
  cases op <;> cases a <;> cases b <;> rfl
theorem evalOp_isSome (op : BinOp) (a b : OVal α) :
    (evalOp op a b).isSome = (opTy op a.ty b.ty).isSome := by
  rw [← evalOp_ty]; cases evalOp op a b <;> rfl

/-- **compound assignment = by-value operator**, for every one of the 65 assignment impls, through the
separately modelled assignment code; where there is no assignment impl, `evalAssign` is undefined -/
theorem evalAssign_eq (op : BinOp) (a b : OVal α) :
    evalAssign op a b = if assignTy op a.ty b.ty then evalOp op a b else none := by
  cases op <;> cases a <;> cases b <;> rfl

/-- evaluation in a form = by-value evaluation wherever that form exists -/
theorem evalForm_eq (f : OForm) (op : BinOp) (a b : OVal α) :
    evalForm f op a b = if f.okFor op a.ty b.ty then evalOp op a b else none := by
  cases f with
  | operands fa fb => rfl
  | assign => exact evalAssign_eq op a b
theorem evalForm_defined (f : OForm) (op : BinOp) (a b : OVal α) (h : f.okFor op a.ty b.ty = true) :
    evalForm f op a b = evalOp op a b := by
  rw [evalForm_eq, if_pos h]
theorem evalForm_sound (f : OForm) (op : BinOp) (a b r : OVal α) (h : evalForm f op a b = some r) :
    evalOp op a b = some r := by
  rw [evalForm_eq] at h
  split at h
  · exact h
  · cases h
/-- **the value of `a op b` does not depend on the form it is written in**, in the model `evalForm`.  For the four operand forms
(`a op b`, `&a op b`, ...) this is definitional (`evalForm` evaluates all of them by the same `evalOp`, as the Rust macro expands
the same body); the content is the assignment form, which runs the separately written assignment code (`evalForm_eq`) -/
theorem evalForm_indep (f g : OForm) (op : BinOp) (a b r r' : OVal α)
    (h : evalForm f op a b = some r) (h' : evalForm g op a b = some r') : r = r' := by
  have := evalForm_sound f op a b r h
  have := evalForm_sound g op a b r' h'
  simp_all
/-- the by-value form always exists when the operator does -/
theorem evalForm_val (op : BinOp) (a b : OVal α) : evalForm (.operands .val .val) op a b = evalOp op a b := rfl
/-- all four operand forms exist for two compound operands; the two with a by-value scalar when
one operand is a scalar -/
theorem operand_forms_exist (fa fb : Form) (op : BinOp) (s t : OTy) :
    (OForm.operands fa fb).okFor op s t = ((fa = .val || s != .scalar) && (fb = .val || t != .scalar)) := by
  cases fa <;> cases fb <;> cases s <;> cases t <;> rfl

/-! ### straight-line programs -/

theorem OInstr.step_erase (regs r' : Nat → OVal α) (i : OInstr) (h : i.step regs = some r') :
    i.erase.step regs = some r' := by
  cases i with
  | bin op dst a b fa fb =>
    simp only [OInstr.step, Option.map_eq_some_iff] at h
    obtain ⟨v, hv, rfl⟩ := h
    have := evalForm_sound _ _ _ _ _ hv
    simp [OInstr.erase, OInstr.step, evalForm_val, this]
  | asg op a b =>
    simp only [OInstr.step, Option.map_eq_some_iff] at h
    obtain ⟨v, hv, rfl⟩ := h
    have := evalForm_sound _ _ _ _ _ hv
    simp [OInstr.erase, OInstr.step, evalForm_val, this]
  | neg dst a fa =>
    simp only [OInstr.step] at h
    split at h
    · simpa [OInstr.erase, OInstr.step, Form.okForNeg] using h
    · cases h
/-- a program that type-checks in the forms it is written with computes the registers of its
by-value spelling -/
theorem runProg'_erase (p : List OInstr) (regs r' : Nat → OVal α) (h : runProg' p regs = some r') :
    runProg' (p.map OInstr.erase) regs = some r' := by
  induction p generalizing regs with
  | nil => exact h
  | cons i p ih =>
    simp only [runProg'] at h
    split at h
    · cases h
    · rename_i regs1 h1
      simp only [List.map_cons, runProg', OInstr.step_erase regs regs1 i h1]
      exact ih regs1 h
/-- **any straight-line program gives the same answer whichever forms it is written with**: two
programs with the same by-value spelling (same operators on the same registers; an assignment
`a op= b` is `a = a op b`) that both type-check leave the same registers.  Unlike `runProg_forms`
(C17b) the assignment form here runs the assignment code of `Cgm/Model/Assign.lean`, the operators
are the library's own, and the registers hold values of all the types. -/
theorem runProg'_forms (p q : List OInstr) (h : p.map OInstr.erase = q.map OInstr.erase)
    (regs r1 r2 : Nat → OVal α) (h1 : runProg' p regs = some r1) (h2 : runProg' q regs = some r2) :
    r1 = r2 := by
  have e1 := runProg'_erase p regs r1 h1
  have e2 := runProg'_erase q regs r2 h2
  rw [h, e2] at e1
  exact (Option.some.inj e1).symm
end table

/-! ### a concrete program in two spellings (integers, `%` = truncated remainder) -/
section concrete
local instance : FRem ℤ := ⟨Int.tmod⟩
/-- registers: `r0 : Point2 = (1,2)`, `r1 : Vector2 = (3,4)`, `r2 = 7`, `r3 : Matrix2`, `r5 = 3` -/
def regs0 : Nat → OVal ℤ
  | 0 => .p2 ⟨1, 2⟩ | 1 => .v2 ⟨3, 4⟩ | 2 => .scalar 7 | 3 => .m2 ⟨⟨1, 2⟩, ⟨3, 4⟩⟩ | 5 => .scalar 3
  | _ => .scalar 0
/-- `r0 += r1; let r4 = &r0 * r2; r4 %= r5; let r6 = &r3 * &r1; r6 -= r1; let r7 = -r6` -/
def progA : List OInstr :=
  [.asg .add 0 1, .bin .mul 4 0 2 .ref .val, .asg .rem 4 5, .bin .mul 6 3 1 .ref .ref, .asg .sub 6 1,
   .neg 7 6 .val]
/-- the same with other forms: `let r0 = r0 + &r1; let r4 = r0 * r2; let r4 = &r4 % r5; ...` -/
def progB : List OInstr :=
  [.bin .add 0 0 1 .val .ref, .bin .mul 4 0 2 .val .val, .bin .rem 4 4 5 .ref .val,
   .bin .mul 6 3 1 .val .ref, .bin .sub 6 6 1 .ref .ref, .neg 7 6 .val]
example : progA.map OInstr.erase = progB.map OInstr.erase := by decide
/-- both run, and leave `r4 = ((1,2)+(3,4))*7 % 3 = (1,0)`, `r7 = -(M*(3,4) - (3,4)) = (-12,-18)` -/
example : (runProg' progA regs0).map (fun r => (r 4, r 7)) = some (.p2 ⟨1, 0⟩, .v2 ⟨-12, -18⟩) ∧
    (runProg' progB regs0).map (fun r => (r 4, r 7)) = some (.p2 ⟨1, 0⟩, .v2 ⟨-12, -18⟩) := by
  constructor <;> decide
/-- spellings that do not exist are rejected: `Matrix2 *= Matrix2`, `Point - Point` as an assignment,
a reference to a scalar operand, `-&vector` -/
example : runProg' [.asg .mul 3 3] regs0 = none ∧ runProg' [.asg .sub 0 0] regs0 = none ∧
    (runProg' [.bin .mul 4 1 2 .val .ref] regs0).isNone ∧ (runProg' [.neg 4 1 .ref] regs0).isNone ∧
    (runProg' [.bin .mul 4 3 3 .ref .ref, .bin .sub 6 0 0 .val .ref] regs0).isSome := by
  refine ⟨by decide, by decide, by decide, by decide, by decide⟩
end concrete

/-! ## 3. `Sum` / `Product`: angles, bases, iterators of references -/
section folds
variable {α ρ : Type}

/-- a fold over an iterator of references is the fold over the values read through them -/
theorem foldRefs_eq {τ : Type} (deref : ρ → τ) (op : τ → τ → τ) (init : τ) (it : List ρ) :
    foldRefs deref op init it = (it.map deref).foldl op init := by
  simp [foldRefs, List.foldl_map]

/-- `Sum` for `Rad` / `Deg`: the left fold with `+` from `zero()`, for lists of any length -/
theorem angle_sum_spec [Add α] [OfNat α 0] (l : List α) :
    Rad.sumList l = l.foldl (· + ·) 0 ∧ Deg.sumList l = l.foldl (· + ·) 0 ∧
    Angle.sum ([] : List α) = 0 ∧ (∀ a : α, Angle.sum [a] = 0 + a) ∧
    (∀ a b c : α, Angle.sum [a, b, c] = 0 + a + b + c) ∧
    (∀ l2 : List α, Angle.sum (l ++ l2) = l2.foldl (· + ·) (Angle.sum l)) := by
  refine ⟨rfl, rfl, rfl, fun _ => rfl, fun _ _ _ => rfl, fun l2 => ?_⟩
  simp only [Angle.sum, List.foldl_append]; rfl
/-- in exact arithmetic it is the sum of the underlying numbers, whatever the order -/
theorem angle_sum_eq_sum {A : Type} [AddCommMonoid A] (l : List A) :
    Angle.sum l = l.sum ∧ ∀ l', l.Perm l' → Angle.sum l = Angle.sum l' := by
  constructor
  · rw [List.sum_eq_foldl]; rfl
  · intro l' h
    exact foldl_perm _ (fun a b c => by simp only [Angle.add]; rw [add_right_comm]) h _

/-- `Sum<&'a T>`: the model's by-reference folds `sumRefs` (model definitions transcribed from the by-reference impls, a left
fold that dereferences at every step) equal the by-value `sumList` of the dereferenced list (`List.foldl_map` on two model
definitions; not a statement about traced code) -/
theorem sumRefs_eq [Add α] [OfNat α 0] (it : List ρ) :
    (∀ d : ρ → V1 α, V1.sumRefs d it = V1.sumList (it.map d)) ∧
    (∀ d : ρ → V2 α, V2.sumRefs d it = V2.sumList (it.map d)) ∧
    (∀ d : ρ → V3 α, V3.sumRefs d it = V3.sumList (it.map d)) ∧
    (∀ d : ρ → V4 α, V4.sumRefs d it = V4.sumList (it.map d)) ∧
    (∀ d : ρ → M2 α, M2.sumRefs d it = M2.sumList (it.map d)) ∧
    (∀ d : ρ → M3 α, M3.sumRefs d it = M3.sumList (it.map d)) ∧
    (∀ d : ρ → M4 α, M4.sumRefs d it = M4.sumList (it.map d)) ∧
    (∀ d : ρ → Quat α, Quat.sumRefs d it = Quat.sumList (it.map d)) ∧
    (∀ d : ρ → α, Angle.sumRefs d it = Angle.sum (it.map d)) :=
  ⟨fun _ => foldRefs_eq _ _ _ _, fun _ => foldRefs_eq _ _ _ _, fun _ => foldRefs_eq _ _ _ _,
   fun _ => foldRefs_eq _ _ _ _, fun _ => foldRefs_eq _ _ _ _, fun _ => foldRefs_eq _ _ _ _,
   fun _ => foldRefs_eq _ _ _ _, fun _ => foldRefs_eq _ _ _ _, fun _ => foldRefs_eq _ _ _ _⟩
/-- `Product<&'a T>` likewise (matrices, quaternions, bases) -/
theorem productRefs_eq [Add α] [Sub α] [Mul α] [OfNat α 0] [OfNat α 1] (it : List ρ) :
    (∀ d : ρ → M2 α, M2.productRefs d it = M2.productList (it.map d)) ∧
    (∀ d : ρ → M3 α, M3.productRefs d it = M3.productList (it.map d)) ∧
    (∀ d : ρ → M4 α, M4.productRefs d it = M4.productList (it.map d)) ∧
    (∀ d : ρ → Quat α, Quat.productRefs d it = Quat.productList (it.map d)) ∧
    (∀ d : ρ → Basis2 α, Basis2.productRefs d it = Basis2.productList (it.map d)) ∧
    (∀ d : ρ → Basis3 α, Basis3.productRefs d it = Basis3.productList (it.map d)) :=
  ⟨fun _ => foldRefs_eq _ _ _ _, fun _ => foldRefs_eq _ _ _ _, fun _ => foldRefs_eq _ _ _ _,
   fun _ => foldRefs_eq _ _ _ _, fun _ => foldRefs_eq _ _ _ _, fun _ => foldRefs_eq _ _ _ _⟩

/-- `Product` for `Basis2` / `Basis3`: the left fold with `*` from `one()` ... -/
theorem basis_productList_defs [Add α] [Mul α] [OfNat α 0] [OfNat α 1] (l2 : List (Basis2 α))
    (l3 : List (Basis3 α)) :
    Basis2.productList l2 = l2.foldl Basis2.mul Basis2.one ∧
    Basis3.productList l3 = l3.foldl Basis3.mul Basis3.one := ⟨rfl, rfl⟩
theorem Basis2.foldl_mul [Add α] [Mul α] (l : List (Basis2 α)) (a : Basis2 α) :
    l.foldl Basis2.mul a = ⟨(l.map (·.mat)).foldl (· * ·) a.mat⟩ := by
  induction l generalizing a with
  | nil => rfl
  | cons b l ih => simp only [List.foldl_cons, List.map_cons]; rw [ih]; rfl
theorem Basis3.foldl_mul [Add α] [Mul α] (l : List (Basis3 α)) (a : Basis3 α) :
    l.foldl Basis3.mul a = ⟨(l.map (·.mat)).foldl (· * ·) a.mat⟩ := by
  induction l generalizing a with
  | nil => rfl
  | cons b l ih => simp only [List.foldl_cons, List.map_cons]; rw [ih]; rfl
/-- ... which is the matrix `Product` of the underlying matrices, wrapped -/
theorem Basis2.productList_eq [Add α] [Mul α] [OfNat α 0] [OfNat α 1] (l : List (Basis2 α)) :
    Basis2.productList l = ⟨M2.productList (l.map (·.mat))⟩ := Basis2.foldl_mul l Basis2.one
theorem Basis3.productList_eq [Add α] [Mul α] [OfNat α 0] [OfNat α 1] (l : List (Basis3 α)) :
    Basis3.productList l = ⟨M3.productList (l.map (·.mat))⟩ := Basis3.foldl_mul l Basis3.one
/-- the product of bases applied to a vector is the matrix product applied to it -/
theorem Basis2.productList_rotate [Add α] [Mul α] [OfNat α 0] [OfNat α 1] (l : List (Basis2 α)) (v : V2 α) :
    (Basis2.productList l).rotateVector v = M2.productList (l.map (·.mat)) * v := by
  rw [Basis2.productList_eq]; rfl
theorem Basis3.productList_rotate [Add α] [Mul α] [OfNat α 0] [OfNat α 1] (l : List (Basis3 α)) (v : V3 α) :
    (Basis3.productList l).rotateVector v = M3.productList (l.map (·.mat)) * v := by
  rw [Basis3.productList_eq]; rfl
end folds

/-! ## 4. remaining `%` forms (audit rows `s % p` Point1/2, `s % m` Matrix3/4, `M % s`) -/
section rems
variable {A : Type} [FRem A]
/-- `s % p` for `Point1`, `Point2` (Point3: `left_scalar_rem`) -/
theorem left_scalar_rem_points (s : A) (p1 : P1 A) (p2 : P2 A) :
    P1.srem s p1 = P1.map (FRem.frem s ·) p1 ∧ P2.srem s p2 = P2.map (FRem.frem s ·) p2 := ⟨rfl, rfl⟩
/-- `s % m`: every element, all three sizes -/
theorem left_scalar_rem_mat (s : A) (m2 : M2 A) (m3 : M3 A) (m4 : M4 A) :
    M2.srem s m2 = ⟨V2.map (FRem.frem s ·) m2.x, V2.map (FRem.frem s ·) m2.y⟩ ∧
    M3.srem s m3 = ⟨V3.map (FRem.frem s ·) m3.x, V3.map (FRem.frem s ·) m3.y, V3.map (FRem.frem s ·) m3.z⟩ ∧
    M4.srem s m4 = ⟨V4.map (FRem.frem s ·) m4.x, V4.map (FRem.frem s ·) m4.y, V4.map (FRem.frem s ·) m4.z,
      V4.map (FRem.frem s ·) m4.w⟩ := ⟨rfl, rfl, rfl⟩
/-- `x % s` with the scalar on the right: every component, every type -/
theorem right_scalar_rem (s : A) (v1 : V1 A) (v2 : V2 A) (v3 : V3 A) (v4 : V4 A) (p1 : P1 A) (p2 : P2 A)
    (p3 : P3 A) (m2 : M2 A) (m3 : M3 A) (m4 : M4 A) (q : Quat A) :
    v1.rem s = V1.map (FRem.frem · s) v1 ∧ v2.rem s = V2.map (FRem.frem · s) v2 ∧
    v3.rem s = V3.map (FRem.frem · s) v3 ∧ v4.rem s = V4.map (FRem.frem · s) v4 ∧
    p1.rem s = P1.map (FRem.frem · s) p1 ∧ p2.rem s = P2.map (FRem.frem · s) p2 ∧
    p3.rem s = P3.map (FRem.frem · s) p3 ∧
    m2.rem s = ⟨V2.map (FRem.frem · s) m2.x, V2.map (FRem.frem · s) m2.y⟩ ∧
    m3.rem s = ⟨V3.map (FRem.frem · s) m3.x, V3.map (FRem.frem · s) m3.y, V3.map (FRem.frem · s) m3.z⟩ ∧
    m4.rem s = ⟨V4.map (FRem.frem · s) m4.x, V4.map (FRem.frem · s) m4.y, V4.map (FRem.frem · s) m4.z,
      V4.map (FRem.frem · s) m4.w⟩ ∧
    q.rem s = Quat.fromSv (FRem.frem q.s s) (V3.map (FRem.frem · s) q.v) :=
  ⟨rfl, rfl, rfl, rfl, rfl, rfl, rfl, rfl, rfl, rfl, rfl⟩
end rems

end Cg.C17
