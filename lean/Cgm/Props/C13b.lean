import Cgm.Props.C13
import Cgm.Lemmas.RealInst2
import Cgm.Driver.Rt
/-!
# C13, continued: the unconditional statements over `ℝ`

`Cgm/Props/C13.lean` proves the modular-arithmetic clauses under the hypothesis `FRemSpec 𝕜`
on the scalar's `%`.  Here the hypothesis is discharged for `ℝ` (truncating remainder,
`Cgm/Lemmas/RealInst2.lean`), the literals are the exact real constants, concrete values
are computed (over `ℝ` and with the driver's `Rat` instance), and the two rounding lemmas
are tied to model-shaped functions with an explicit rounding function.
-/
namespace Cg.C13
open Cg

/-- `%` over the reals satisfies the specification assumed by the exact theorems -/
theorem fremSpec_real : FRemSpec ℝ := fun a T hT => fremR_spec a T hT

/-! ## the driver's `Rat` instance of `%` -/
section rat
/-- the driver's `%` on `Rat` (`Cg.Rt.ratFmod`, mirrored by the harness scalar) is the
truncating remainder `fremF` -/
theorem ratFmod_eq (a b : ℚ) : (FRem.frem a b : ℚ) = fremF a b := by
  show Cg.Rt.ratFmod a b = fremF a b
  have ht : ∀ x : ℚ, Cg.Rt.ratTrunc x = (truncF x : ℚ) := by
    intro x
    have hfl : ∀ q : ℚ, q.floor = ⌊q⌋ := fun q => by rw [Rat.floor_def', Rat.floor_def]
    unfold Cg.Rt.ratTrunc
    by_cases h : x < 0
    · rw [if_pos h, truncF_of_neg h, hfl, Int.floor_neg]; push_cast; ring
    · rw [if_neg h, truncF_of_nonneg (not_lt.mp h), hfl]
  unfold Cg.Rt.ratFmod fremF
  rw [ht]
/-- `%` on the driver's exact rationals satisfies the specification assumed by the exact
theorems: they hold for the values the differential tests are run at -/
theorem fremSpec_rat : FRemSpec ℚ := fun a T hT => by
  rw [ratFmod_eq]; exact fremF_spec a T hT
/-- sign of the dividend, also for the driver's `%` -/
theorem frem_rat_sign (a T : ℚ) :
    (0 ≤ a → 0 ≤ (FRem.frem a T : ℚ)) ∧ (a ≤ 0 → (FRem.frem a T : ℚ) ≤ 0) := by
  rw [ratFmod_eq]; exact fremF_sign a T

variable (T a b : ℚ)
theorem normalize_spec_rat (hT : 0 < T) :
    0 ≤ Angle.normalize T a ∧ Angle.normalize T a < T ∧ ∃ k : ℤ, Angle.normalize T a = a + k * T :=
  normalize_spec fremSpec_rat T a hT
theorem normalizeSigned_spec_rat (hT : 0 < T) :
    -(T / 2) < Angle.normalizeSigned T a ∧ Angle.normalizeSigned T a ≤ T / 2 ∧
    ∃ k : ℤ, Angle.normalizeSigned T a = a + k * T :=
  normalizeSigned_spec fremSpec_rat T a hT
theorem opposite_eq_rat : Angle.opposite T a = Angle.normalize T (a + T / 2) :=
  opposite_eq fremSpec_rat T a
theorem bisect_midway_rat (hT : 0 < T) :
    Angle.normalizeSigned T (Angle.bisect T a b - a) = Angle.normalizeSigned T (b - Angle.bisect T a b) ∧
    |Angle.normalizeSigned T (Angle.bisect T a b - a)| ≤ T / 4 ∧
    0 ≤ Angle.bisect T a b ∧ Angle.bisect T a b < T :=
  bisect_midway fremSpec_rat T a b hT
end rat

/-! ## any positive full turn `T` -/
section anyT
variable (T a b : ℝ)

theorem normalize_spec_real (hT : 0 < T) :
    0 ≤ Angle.normalize T a ∧ Angle.normalize T a < T ∧ ∃ k : ℤ, Angle.normalize T a = a + k * T :=
  normalize_spec fremSpec_real T a hT
theorem normalizeSigned_spec_real (hT : 0 < T) :
    -(T / 2) < Angle.normalizeSigned T a ∧ Angle.normalizeSigned T a ≤ T / 2 ∧
    ∃ k : ℤ, Angle.normalizeSigned T a = a + k * T :=
  normalizeSigned_spec fremSpec_real T a hT
theorem normalize_unique_real (y : ℝ) (hT : 0 < T) (m : ℤ) (h : a = y + m * T)
    (hy : 0 ≤ y ∧ y < T) : Angle.normalize T a = y :=
  normalize_unique fremSpec_real T a y hT m h hy
theorem normalizeSigned_unique_real (y : ℝ) (hT : 0 < T) (m : ℤ) (h : a = y + m * T)
    (hy : -(T / 2) < y ∧ y ≤ T / 2) : Angle.normalizeSigned T a = y :=
  normalizeSigned_unique fremSpec_real T a y hT m h hy
theorem opposite_spec_real (hT : 0 < T) :
    Angle.opposite T a = Angle.normalize T (a + T / 2) ∧
    0 ≤ Angle.opposite T a ∧ Angle.opposite T a < T ∧
    ∃ k : ℤ, Angle.opposite T a = a + T / 2 + k * T := by
  rw [opposite_eq fremSpec_real]
  exact ⟨rfl, normalize_spec_real T (a + T / 2) hT⟩
theorem bisect_midway_real (hT : 0 < T) :
    Angle.normalizeSigned T (Angle.bisect T a b - a) = Angle.normalizeSigned T (b - Angle.bisect T a b) ∧
    |Angle.normalizeSigned T (Angle.bisect T a b - a)| ≤ T / 4 ∧
    0 ≤ Angle.bisect T a b ∧ Angle.bisect T a b < T :=
  bisect_midway fremSpec_real T a b hT
/-- `normalize` is idempotent and `normalize_signed ∘ normalize = normalize_signed` -/
theorem normalize_idem_real (hT : 0 < T) :
    Angle.normalize T (Angle.normalize T a) = Angle.normalize T a ∧
    Angle.normalizeSigned T (Angle.normalize T a) = Angle.normalizeSigned T a := by
  obtain ⟨h0, h1, k, hk⟩ := normalize_spec_real T a hT
  obtain ⟨s0, s1, m, hm⟩ := normalizeSigned_spec_real T a hT
  refine ⟨normalize_unique_real T _ _ hT 0 (by simp) ⟨h0, h1⟩, ?_⟩
  exact normalizeSigned_unique_real T _ _ hT (k - m) (by rw [hk, hm]; push_cast; ring) ⟨s0, s1⟩
/-- angles that differ by whole turns have the same normal forms -/
theorem normalize_add_turns_real (hT : 0 < T) (n : ℤ) :
    Angle.normalize T (a + n * T) = Angle.normalize T a ∧
    Angle.normalizeSigned T (a + n * T) = Angle.normalizeSigned T a := by
  obtain ⟨h0, h1, k, hk⟩ := normalize_spec_real T a hT
  obtain ⟨s0, s1, m, hm⟩ := normalizeSigned_spec_real T a hT
  refine ⟨normalize_unique_real T _ _ hT (n - k) (by rw [hk]; push_cast; ring) ⟨h0, h1⟩, ?_⟩
  exact normalizeSigned_unique_real T _ _ hT (n - m) (by rw [hm]; push_cast; ring) ⟨s0, s1⟩
end anyT

/-! ## `Deg` (`T = 360`) and `Rad` (`T = 2π`) -/
theorem degFull_real : (degFull : ℝ) = 360 := by simp [degFull]
theorem degFull_pos : 0 < (degFull : ℝ) := by rw [degFull_real]; norm_num
theorem radFull_real : (Lits.radFull : ℝ) = 2 * Real.pi := rfl
theorem radFull_pos : 0 < (Lits.radFull : ℝ) := lits_radFull_pos

section deg
variable (a b : ℝ)
/-- `Deg::normalize`: in `[0, 360)`, a whole number of turns away from `a` -/
theorem deg_normalize :
    0 ≤ Angle.normalize (degFull : ℝ) a ∧ Angle.normalize (degFull : ℝ) a < 360 ∧
    ∃ k : ℤ, Angle.normalize (degFull : ℝ) a = a + k * 360 := by
  have := normalize_spec_real degFull a degFull_pos
  rwa [degFull_real] at this
/-- `Deg::normalize_signed`: in `(-180, 180]`, a whole number of turns away from `a` -/
theorem deg_normalizeSigned :
    -180 < Angle.normalizeSigned (degFull : ℝ) a ∧ Angle.normalizeSigned (degFull : ℝ) a ≤ 180 ∧
    ∃ k : ℤ, Angle.normalizeSigned (degFull : ℝ) a = a + k * 360 := by
  have := normalizeSigned_spec_real degFull a degFull_pos
  rw [degFull_real] at this
  norm_num at this ⊢
  exact this
/-- `Deg::opposite(a) = normalize(a + 180)` -/
theorem deg_opposite :
    Angle.opposite (degFull : ℝ) a = Angle.normalize (degFull : ℝ) (a + 180) := by
  rw [opposite_eq fremSpec_real, degFull_real]; norm_num
/-- `Deg::bisect` is midway: equal signed distances, at most `90°`, result in `[0, 360)` -/
theorem deg_bisect :
    Angle.normalizeSigned (degFull : ℝ) (Angle.bisect degFull a b - a)
      = Angle.normalizeSigned (degFull : ℝ) (b - Angle.bisect degFull a b) ∧
    |Angle.normalizeSigned (degFull : ℝ) (Angle.bisect degFull a b - a)| ≤ 90 ∧
    0 ≤ Angle.bisect (degFull : ℝ) a b ∧ Angle.bisect (degFull : ℝ) a b < 360 := by
  have := bisect_midway_real degFull a b degFull_pos
  rw [degFull_real] at this
  norm_num at this
  rw [degFull_real]
  exact this
end deg

section rad
variable (a b : ℝ)
/-- `Rad::normalize`: in `[0, 2π)`, a whole number of turns away from `a` -/
theorem rad_normalize :
    0 ≤ Angle.normalize (Lits.radFull : ℝ) a ∧ Angle.normalize (Lits.radFull : ℝ) a < 2 * Real.pi ∧
    ∃ k : ℤ, Angle.normalize (Lits.radFull : ℝ) a = a + k * (2 * Real.pi) :=
  normalize_spec_real _ a radFull_pos
/-- `Rad::normalize_signed`: in `(-π, π]`, a whole number of turns away from `a` -/
theorem rad_normalizeSigned :
    -Real.pi < Angle.normalizeSigned (Lits.radFull : ℝ) a ∧
    Angle.normalizeSigned (Lits.radFull : ℝ) a ≤ Real.pi ∧
    ∃ k : ℤ, Angle.normalizeSigned (Lits.radFull : ℝ) a = a + k * (2 * Real.pi) := by
  have := normalizeSigned_spec_real _ a radFull_pos
  rw [radFull_real] at this ⊢
  have e : 2 * Real.pi / 2 = Real.pi := by ring
  rwa [e] at this
/-- `Rad::opposite(a) = normalize(a + π)` -/
theorem rad_opposite :
    Angle.opposite (Lits.radFull : ℝ) a = Angle.normalize (Lits.radFull : ℝ) (a + Real.pi) := by
  rw [opposite_eq fremSpec_real, radFull_real]
  have e : 2 * Real.pi / 2 = Real.pi := by ring
  rw [e]
/-- `Rad::bisect` is midway: equal signed distances, at most `π/2`, result in `[0, 2π)` -/
theorem rad_bisect :
    Angle.normalizeSigned (Lits.radFull : ℝ) (Angle.bisect Lits.radFull a b - a)
      = Angle.normalizeSigned (Lits.radFull : ℝ) (b - Angle.bisect Lits.radFull a b) ∧
    |Angle.normalizeSigned (Lits.radFull : ℝ) (Angle.bisect Lits.radFull a b - a)| ≤ Real.pi / 2 ∧
    0 ≤ Angle.bisect (Lits.radFull : ℝ) a b ∧ Angle.bisect (Lits.radFull : ℝ) a b < 2 * Real.pi := by
  have := bisect_midway_real _ a b radFull_pos
  rw [radFull_real] at this ⊢
  have e : 2 * Real.pi / 4 = Real.pi / 2 := by ring
  rwa [e] at this
end rad

/-! ## conversions with the exact constants -/
/-- one full turn: `2π rad = 360°` (both directions) -/
theorem full_turn_real :
    radToDeg (Lits.radFull : ℝ) = (degFull : ℝ) ∧ radToDeg (2 * Real.pi) = (360 : ℝ) ∧
    degToRad (degFull : ℝ) = (Lits.radFull : ℝ) ∧ degToRad (360 : ℝ) = 2 * Real.pi := by
  have h := full_turn_exact (h1 := lits_radFull) (h2 := lits_rad2deg)
  have hpi := Real.pi_ne_zero
  refine ⟨h, ?_, ?_, ?_⟩
  · rw [← radFull_real, h, degFull_real]
  · rw [degFull_real]; simp only [degToRad, lits_deg2rad, lits_radFull]; field_simp; norm_num
  · simp only [degToRad, lits_deg2rad]; field_simp; norm_num
/-- the round trips are exact over the reals -/
theorem roundtrip_real (a : ℝ) : degToRad (radToDeg a) = a ∧ radToDeg (degToRad a) = a :=
  roundtrip_exact lits_deg2rad_mul_rad2deg a
/-- half and quarter turns correspond: `π rad = 180°`, `π/2 rad = 90°` -/
theorem half_quarter_turn_real :
    radToDeg Real.pi = (180 : ℝ) ∧ radToDeg (Real.pi / 2) = (90 : ℝ) ∧
    radToDeg (Angle.turnDiv (Lits.radFull : ℝ) 2) = Angle.turnDiv (degFull : ℝ) 2 := by
  have hpi := Real.pi_ne_zero
  refine ⟨?_, ?_, ?_⟩
  · simp only [radToDeg, lits_rad2deg]; field_simp
  · simp only [radToDeg, lits_rad2deg]; field_simp; norm_num
  · simp only [radToDeg, lits_rad2deg, lits_radFull, Angle.turnDiv, degFull_real]
    field_simp; norm_num

/-! ## concrete values -/
section witnesses
/-- the repaired `bisect` on the inputs that exposed the defect: 10° & 50° ↦ 30° -/
theorem bisect_10_50 : Angle.bisect (360 : ℝ) 10 50 = 30 := by
  have h : Angle.normalizeSigned (360 : ℝ) (50 - 10) = 40 :=
    normalizeSigned_unique_real 360 _ 40 (by norm_num) 0 (by norm_num) (by norm_num)
  unfold Angle.bisect; rw [h]
  exact normalize_unique_real 360 _ 30 (by norm_num) 0 (by norm_num) (by norm_num)
/-- 350° & 10° ↦ 0° (the model returns the representative `0`, not `360`) -/
theorem bisect_350_10 : Angle.bisect (360 : ℝ) 350 10 = 0 := by
  have h : Angle.normalizeSigned (360 : ℝ) (10 - 350) = 20 :=
    normalizeSigned_unique_real 360 _ 20 (by norm_num) (-1) (by norm_num) (by norm_num)
  unfold Angle.bisect; rw [h]
  exact normalize_unique_real 360 _ 0 (by norm_num) 1 (by norm_num) (by norm_num)
theorem normalize_neg30 : Angle.normalize (360 : ℝ) (-30) = 330 :=
  normalize_unique_real 360 _ 330 (by norm_num) (-1) (by norm_num) (by norm_num)
theorem normalizeSigned_270 : Angle.normalizeSigned (360 : ℝ) 270 = -90 :=
  normalizeSigned_unique_real 360 _ (-90) (by norm_num) 1 (by norm_num) (by norm_num)
theorem opposite_30 : Angle.opposite (360 : ℝ) 30 = 210 := by
  rw [opposite_eq fremSpec_real]
  exact normalize_unique_real 360 _ 210 (by norm_num) 0 (by norm_num) (by norm_num)
/-- the half turn itself is kept by `normalize_signed` (the window is `(-180, 180]`) -/
theorem normalizeSigned_180 : Angle.normalizeSigned (360 : ℝ) 180 = 180 ∧
    Angle.normalizeSigned (360 : ℝ) (-180) = 180 :=
  ⟨normalizeSigned_unique_real 360 _ 180 (by norm_num) 0 (by norm_num) (by norm_num),
   normalizeSigned_unique_real 360 _ 180 (by norm_num) (-1) (by norm_num) (by norm_num)⟩
/-- antipodal arguments: `bisect` picks the bisector a quarter turn *ahead* of `a` -/
theorem bisect_0_180 : Angle.bisect (360 : ℝ) 0 180 = 90 ∧ Angle.bisect (360 : ℝ) 180 0 = 270 := by
  constructor
  · have h : Angle.normalizeSigned (360 : ℝ) (180 - 0) = 180 :=
      normalizeSigned_unique_real 360 _ 180 (by norm_num) 0 (by norm_num) (by norm_num)
    unfold Angle.bisect; rw [h]
    exact normalize_unique_real 360 _ 90 (by norm_num) 0 (by norm_num) (by norm_num)
  · have h : Angle.normalizeSigned (360 : ℝ) (0 - 180) = 180 :=
      normalizeSigned_unique_real 360 _ 180 (by norm_num) (-1) (by norm_num) (by norm_num)
    unfold Angle.bisect; rw [h]
    exact normalize_unique_real 360 _ 270 (by norm_num) 0 (by norm_num) (by norm_num)

/-- the same values computed by evaluation with the driver's `Rat` instance of `%`
(`Cg.Rt.ratFmod`, the one the compiled driver runs) -/
example : Angle.bisect (360 : Rat) 10 50 = 30 := by decide +kernel
example : Angle.bisect (360 : Rat) 350 10 = 0 := by decide +kernel
example : Angle.normalize (360 : Rat) (-30) = 330 := by decide +kernel
example : Angle.normalizeSigned (360 : Rat) 270 = -90 := by decide +kernel
example : Angle.opposite (360 : Rat) 30 = 210 := by decide +kernel
end witnesses

/-! ## floating-point conversions under the standard rounding model -/
section fl
/-- the standard model of a rounding function with unit roundoff `u` (no overflow/underflow):
`rnd x = x (1 + δ)` with `|δ| ≤ u`.  Machine epsilon is `ε = 2u` for round-to-nearest. -/
def StdRnd (u : ℝ) (rnd : ℝ → ℝ) : Prop := ∀ x : ℝ, ∃ δ : ℝ, |δ| ≤ u ∧ rnd x = x * (1 + δ)
/-- `c` approximates `x` with relative error at most `u` -/
def RelApprox (u x c : ℝ) : Prop := ∃ δ : ℝ, |δ| ≤ u ∧ c = x * (1 + δ)

/-- `From<Deg> for Rad` as executed: one rounded multiplication by the stored constant `k1` -/
def degToRad_fl (rnd : ℝ → ℝ) (k1 d : ℝ) : ℝ := rnd (d * k1)
/-- `From<Rad> for Deg` as executed: one rounded multiplication by the stored constant `k2` -/
def radToDeg_fl (rnd : ℝ → ℝ) (k2 r : ℝ) : ℝ := rnd (r * k2)

/-- with exact arithmetic and the exact constants these are the model's conversions -/
theorem conv_fl_id (a : ℝ) :
    degToRad_fl id (Lits.deg2rad : ℝ) a = degToRad a ∧ radToDeg_fl id (Lits.rad2deg : ℝ) a = radToDeg a :=
  ⟨rfl, rfl⟩

theorem StdRnd.relApprox {u : ℝ} {rnd : ℝ → ℝ} (h : StdRnd u rnd) (x : ℝ) : RelApprox u x (rnd x) := h x
theorem stdRnd_id {u : ℝ} (hu : 0 ≤ u) : StdRnd u id := fun x => ⟨0, by simpa using hu, by simp⟩

/-- round trip through the other unit, general form: the stored constants approximate exact
constants `K1`, `K2` with `K1 K2 = 1` to relative error `u`, both multiplications are rounded;
the result is within `4 ε = 8 u` of `a`, relatively. -/
theorem roundtrip_fl_gen (u : ℝ) (rnd : ℝ → ℝ) (hu : 0 ≤ u) (hu' : u ≤ 1 / 4) (hr : StdRnd u rnd)
    (K1 K2 k1 k2 : ℝ) (hK : K1 * K2 = 1) (h1 : RelApprox u K1 k1) (h2 : RelApprox u K2 k2) (a : ℝ) :
    |radToDeg_fl rnd k2 (degToRad_fl rnd k1 a) - a| ≤ 4 * (2 * u) * |a| ∧
    |degToRad_fl rnd k1 (radToDeg_fl rnd k2 a) - a| ≤ 4 * (2 * u) * |a| := by
  obtain ⟨δ3, hδ3, e3⟩ := h1
  obtain ⟨δ4, hδ4, e4⟩ := h2
  constructor
  · obtain ⟨δ1, hδ1, e1⟩ := hr (a * k1)
    obtain ⟨δ2, hδ2, e2⟩ := hr (rnd (a * k1) * k2)
    have := roundtrip_rel_err a K1 K2 δ1 δ2 δ3 δ4 u hK hu hu' hδ1 hδ2 hδ3 hδ4
    unfold radToDeg_fl degToRad_fl
    rw [e2, e1, e3, e4]
    calc _ ≤ 8 * u * |a| := this
      _ = 4 * (2 * u) * |a| := by ring
  · obtain ⟨δ1, hδ1, e1⟩ := hr (a * k2)
    obtain ⟨δ2, hδ2, e2⟩ := hr (rnd (a * k2) * k1)
    have := roundtrip_rel_err a K2 K1 δ1 δ2 δ4 δ3 u (by rw [mul_comm]; exact hK) hu hu'
      hδ1 hδ2 hδ4 hδ3
    unfold radToDeg_fl degToRad_fl
    rw [e2, e1, e3, e4]
    calc _ ≤ 8 * u * |a| := this
      _ = 4 * (2 * u) * |a| := by ring

/-- a real-valued model of the clause "converting to the other unit and back returns `a` up to rounding (relative
error at most 4 machine epsilons)": `rnd : ℝ → ℝ` is any function with relative error `≤ u` (`StdRnd u rnd`), applied after
every operation of the Props-local functions `degToRad_fl` / `radToDeg_fl` (definitions of this file, not traced kernels; no
floating-point type occurs); constants are the rounded `π/180` and `180/π`.  Instantiated at the IEEE round-to-nearest model
`flRound` in `Props/C13d.lean` (`roundtrip_f64`, `roundtrip_f32`) -/
theorem roundtrip_fl (u : ℝ) (rnd : ℝ → ℝ) (hu : 0 ≤ u) (hu' : u ≤ 1 / 4) (hr : StdRnd u rnd) (a : ℝ) :
    |radToDeg_fl rnd (rnd (180 / Real.pi)) (degToRad_fl rnd (rnd (Real.pi / 180)) a) - a|
      ≤ 4 * (2 * u) * |a| ∧
    |degToRad_fl rnd (rnd (Real.pi / 180)) (radToDeg_fl rnd (rnd (180 / Real.pi)) a) - a|
      ≤ 4 * (2 * u) * |a| :=
  roundtrip_fl_gen u rnd hu hu' hr (Real.pi / 180) (180 / Real.pi) _ _
    (by have := Real.pi_ne_zero; field_simp) (hr _) (hr _) a

/-- the same bound when the constants are computed the way the source computes them,
`PI / 180.0` and `180.0 / PI` from the *rounded* `PI` (three roundings in each direction's
constants): the error of `PI` itself cancels in the round trip -/
theorem roundtrip_fl_consts (u : ℝ) (rnd : ℝ → ℝ) (hu : 0 ≤ u) (hu' : u ≤ 1 / 4) (hr : StdRnd u rnd)
    (a : ℝ) :
    let pi_fl := rnd Real.pi
    |radToDeg_fl rnd (rnd (180 / pi_fl)) (degToRad_fl rnd (rnd (pi_fl / 180)) a) - a|
      ≤ 4 * (2 * u) * |a| ∧
    |degToRad_fl rnd (rnd (pi_fl / 180)) (radToDeg_fl rnd (rnd (180 / pi_fl)) a) - a|
      ≤ 4 * (2 * u) * |a| := by
  intro pi_fl
  have hne : pi_fl ≠ 0 := by
    obtain ⟨δ, hδ, e⟩ := hr Real.pi
    show rnd Real.pi ≠ 0
    rw [e]
    have := (abs_le.mp hδ).1
    exact mul_ne_zero Real.pi_ne_zero (by linarith)
  exact roundtrip_fl_gen u rnd hu hu' hr (pi_fl / 180) (180 / pi_fl) _ _
    (by field_simp) (hr _) (hr _) a

/-- `(1-u)^6 ≥ 1 - 6u` and `(1+u)^6 ≤ 1 + 8u` for `0 ≤ u ≤ 1/16` -/
theorem pow6_bounds (u : ℝ) (hu : 0 ≤ u) (hu' : u ≤ 1 / 16) :
    1 - 6 * u ≤ (1 - u) * (1 - u) * ((1 - u) * (1 - u)) * ((1 - u) * (1 - u)) ∧
    (1 + u) * (1 + u) * ((1 + u) * (1 + u)) * ((1 + u) * (1 + u)) ≤ 1 + 8 * u := by
  have uu : u * u ≤ u * (1 / 16) := mul_le_mul_of_nonneg_left hu' hu
  have uu0 : 0 ≤ u * u := mul_nonneg hu hu
  constructor
  · set v := (1 - u) * (1 - u) with hv
    have v1 : 1 - 2 * u ≤ v := by
      have : v = 1 - 2 * u + u * u := by rw [hv]; ring
      linarith
    have v0 : 0 ≤ v := by linarith
    have v2 : (1 - 2 * u) * (1 - 2 * u) ≤ v * v := mul_le_mul v1 v1 (by linarith) v0
    have e2 : (1 - 2 * u) * (1 - 2 * u) = 1 - 4 * u + 4 * (u * u) := by ring
    have v2' : 1 - 4 * u ≤ v * v := by linarith
    have v3 : (1 - 4 * u) * (1 - 2 * u) ≤ v * v * v :=
      mul_le_mul v2' v1 (by linarith) (mul_nonneg v0 v0)
    have e3 : (1 - 4 * u) * (1 - 2 * u) = 1 - 6 * u + 8 * (u * u) := by ring
    linarith
  · set w := (1 + u) * (1 + u) with hw
    have w1 : w ≤ 1 + 33 / 16 * u := by
      have : w = 1 + 2 * u + u * u := by rw [hw]; ring
      linarith
    have w0 : 0 ≤ w := by rw [hw]; exact mul_nonneg (by linarith) (by linarith)
    have w2 : w * w ≤ (1 + 33 / 16 * u) * (1 + 33 / 16 * u) := mul_le_mul w1 w1 w0 (by linarith)
    have e2 : (1 + 33 / 16 * u) * (1 + 33 / 16 * u) = 1 + 33 / 8 * u + 1089 / 256 * (u * u) := by
      ring
    have w2' : w * w ≤ 1 + 9 / 2 * u := by linarith
    have w3 : w * w * w ≤ (1 + 9 / 2 * u) * (1 + 33 / 16 * u) :=
      mul_le_mul w2' w1 w0 (by linarith)
    have e3 : (1 + 9 / 2 * u) * (1 + 33 / 16 * u) = 1 + 105 / 16 * u + 297 / 32 * (u * u) := by
      ring
    linarith

/-- six rounding factors still stay within `8 u = 4 ε` (for `u ≤ 1/16`): two rounded
multiplications and constants that went through two roundings each (computed in `f64`,
then `cast` to the scalar type) -/
theorem roundtrip_rel_err6 (a K1 K2 δ1 δ2 δ3 δ4 δ5 δ6 u : ℝ) (hK : K1 * K2 = 1) (hu : 0 ≤ u)
    (hu' : u ≤ 1 / 16) (h1 : |δ1| ≤ u) (h2 : |δ2| ≤ u) (h3 : |δ3| ≤ u) (h4 : |δ4| ≤ u)
    (h5 : |δ5| ≤ u) (h6 : |δ6| ≤ u) :
    |(a * (K1 * (1 + δ5) * (1 + δ3))) * (1 + δ1) * (K2 * (1 + δ6) * (1 + δ4)) * (1 + δ2) - a|
      ≤ 8 * u * |a| := by
  have e : (a * (K1 * (1 + δ5) * (1 + δ3))) * (1 + δ1) * (K2 * (1 + δ6) * (1 + δ4)) * (1 + δ2) - a
      = a * ((1 + δ1) * (1 + δ2) * ((1 + δ3) * (1 + δ4)) * ((1 + δ5) * (1 + δ6)) - 1) := by
    have : (a * (K1 * (1 + δ5) * (1 + δ3))) * (1 + δ1) * (K2 * (1 + δ6) * (1 + δ4)) * (1 + δ2)
        = a * (K1 * K2) * ((1 + δ1) * (1 + δ2) * ((1 + δ3) * (1 + δ4)) * ((1 + δ5) * (1 + δ6))) := by
      ring
    rw [this, hK]; ring
  rw [e, abs_mul, mul_comm (8 * u)]
  apply mul_le_mul_of_nonneg_left _ (abs_nonneg a)
  obtain ⟨a1, b1⟩ := abs_le.mp h1; obtain ⟨a2, b2⟩ := abs_le.mp h2
  obtain ⟨a3, b3⟩ := abs_le.mp h3; obtain ⟨a4, b4⟩ := abs_le.mp h4
  obtain ⟨a5, b5⟩ := abs_le.mp h5; obtain ⟨a6, b6⟩ := abs_le.mp h6
  have pair : ∀ x y : ℝ, -u ≤ x → x ≤ u → -u ≤ y → y ≤ u →
      (1 - u) * (1 - u) ≤ (1 + x) * (1 + y) ∧ (1 + x) * (1 + y) ≤ (1 + u) * (1 + u) := by
    intro x y hx1 hx2 hy1 hy2
    exact ⟨mul_le_mul (by linarith) (by linarith) (by linarith) (by linarith),
      mul_le_mul (by linarith) (by linarith) (by linarith) (by linarith)⟩
  obtain ⟨l12, r12⟩ := pair δ1 δ2 a1 b1 a2 b2
  obtain ⟨l34, r34⟩ := pair δ3 δ4 a3 b3 a4 b4
  obtain ⟨l56, r56⟩ := pair δ5 δ6 a5 b5 a6 b6
  set A := (1 + δ1) * (1 + δ2)
  set B := (1 + δ3) * (1 + δ4)
  set C := (1 + δ5) * (1 + δ6)
  set lo := (1 - u) * (1 - u) with hlo
  set hi := (1 + u) * (1 + u) with hhi
  obtain ⟨lo3, hi3⟩ := pow6_bounds u hu hu'
  have lo0 : 0 ≤ lo := mul_self_nonneg _
  have hi0 : 0 ≤ hi := mul_self_nonneg _
  have A0 : 0 ≤ A := le_trans lo0 l12
  have B0 : 0 ≤ B := le_trans lo0 l34
  have lAB : lo * lo ≤ A * B := mul_le_mul l12 l34 lo0 A0
  have rAB : A * B ≤ hi * hi := mul_le_mul r12 r34 B0 hi0
  have lABC : lo * lo * lo ≤ A * B * C := mul_le_mul lAB l56 lo0 (mul_nonneg A0 B0)
  have rABC : A * B * C ≤ hi * hi * hi :=
    mul_le_mul rAB r56 (le_trans lo0 l56) (mul_nonneg hi0 hi0)
  rw [abs_le]; constructor <;> linarith

/-- round trip with the constants obtained exactly as in `src/angle.rs`:
`cast(f64::consts::PI / 180.0)` and `cast(180.0 / f64::consts::PI)`: `rnd'` is the `f64`
rounding (used for `PI` and the division), `rnd` the rounding of the scalar type (used for the
`cast` and the two multiplications; for `f64` the cast is the identity, which also fits the
model).  Both have unit roundoff at most `u ≤ 1/16`.  The error of `PI` itself cancels. -/
theorem roundtrip_fl_cast (u : ℝ) (rnd rnd' : ℝ → ℝ) (hu : 0 ≤ u) (hu' : u ≤ 1 / 16)
    (hr : StdRnd u rnd) (hr' : StdRnd u rnd') (a : ℝ) :
    let pi64 := rnd' Real.pi
    let k1 := rnd (rnd' (pi64 / 180))
    let k2 := rnd (rnd' (180 / pi64))
    |radToDeg_fl rnd k2 (degToRad_fl rnd k1 a) - a| ≤ 4 * (2 * u) * |a| ∧
    |degToRad_fl rnd k1 (radToDeg_fl rnd k2 a) - a| ≤ 4 * (2 * u) * |a| := by
  intro pi64 k1 k2
  have hne : pi64 ≠ 0 := by
    obtain ⟨δ, hδ, e⟩ := hr' Real.pi
    show rnd' Real.pi ≠ 0
    rw [e]
    have := (abs_le.mp hδ).1
    exact mul_ne_zero Real.pi_ne_zero (by linarith)
  have hK : pi64 / 180 * (180 / pi64) = 1 := by field_simp
  have hK' : 180 / pi64 * (pi64 / 180) = 1 := by field_simp
  obtain ⟨δ5, hδ5, e5⟩ := hr' (pi64 / 180)
  obtain ⟨δ3, hδ3, e3⟩ := hr (rnd' (pi64 / 180))
  obtain ⟨δ6, hδ6, e6⟩ := hr' (180 / pi64)
  obtain ⟨δ4, hδ4, e4⟩ := hr (rnd' (180 / pi64))
  have ek1 : k1 = pi64 / 180 * (1 + δ5) * (1 + δ3) := by show rnd _ = _; rw [e3, e5]
  have ek2 : k2 = 180 / pi64 * (1 + δ6) * (1 + δ4) := by show rnd _ = _; rw [e4, e6]
  constructor
  · obtain ⟨δ1, hδ1, e1⟩ := hr (a * k1)
    obtain ⟨δ2, hδ2, e2⟩ := hr (rnd (a * k1) * k2)
    have := roundtrip_rel_err6 a _ _ δ1 δ2 δ3 δ4 δ5 δ6 u hK hu hu' hδ1 hδ2 hδ3 hδ4 hδ5 hδ6
    unfold radToDeg_fl degToRad_fl
    rw [e2, e1, ek1, ek2]
    calc _ ≤ 8 * u * |a| := this
      _ = 4 * (2 * u) * |a| := by ring
  · obtain ⟨δ1, hδ1, e1⟩ := hr (a * k2)
    obtain ⟨δ2, hδ2, e2⟩ := hr (rnd (a * k2) * k1)
    have := roundtrip_rel_err6 a _ _ δ1 δ2 δ4 δ3 δ6 δ5 u hK' hu hu' hδ1 hδ2 hδ4 hδ3 hδ6 hδ5
    unfold radToDeg_fl degToRad_fl
    rw [e2, e1, ek1, ek2]
    calc _ ≤ 8 * u * |a| := this
      _ = 4 * (2 * u) * |a| := by ring

example : StdRnd (1 / 4) id ∧ (0 : ℝ) ≤ 1 / 4 := ⟨stdRnd_id (by norm_num), by norm_num⟩

/-! ### `normalize` / `normalize_signed` with a rounding function: a Props-local model of the executed code
(`normalize_fl`, `normalizeSigned_fl` are definitions of this file written after the Rust source, with `rnd : ℝ → ℝ` at the
rounded operations; they are not traced kernels and cannot react to a code change) -/
/-- Props-local model of `Angle::normalize` as executed; modelling assumption (not proved): `%` is exact in IEEE arithmetic, only
the addition is rounded -/
noncomputable def normalize_fl (rnd : ℝ → ℝ) (T a : ℝ) : ℝ :=
  let rem := (FRem.frem a T : ℝ)
  if rem < 0 then rnd (rem + T) else rem
/-- Props-local model of `Angle::normalize_signed` as executed (modelling assumption: `T / 2` is exact in binary floating point) -/
noncomputable def normalizeSigned_fl (rnd : ℝ → ℝ) (T a : ℝ) : ℝ :=
  let rem := normalize_fl rnd T a
  if T / 2 < rem then rnd (rem - T) else rem

theorem normalize_fl_id (T a : ℝ) :
    normalize_fl id T a = Angle.normalize T a ∧ normalizeSigned_fl id T a = Angle.normalizeSigned T a := by
  have h : normalize_fl id T a = Angle.normalize T a := rfl
  refine ⟨h, ?_⟩
  unfold normalizeSigned_fl Angle.normalizeSigned Angle.turnDiv
  rw [h]; simp

/-- the clause "normalize(a) lies in `[0, full turn]`" for the Props-local model `normalize_fl` of the executed code: with a
monotone rounding that fixes `0` and `T`, for *every* real input (the hypotheses on `rnd` are not instantiated at `flRound` anywhere
in the library: no `Monotone (flRound p)` / `flRound p 360 = 360` lemma exists) -/
theorem normalize_fl_range (rnd : ℝ → ℝ) (hm : Monotone rnd) (T : ℝ) (hT : 0 < T) (h0 : rnd 0 = 0)
    (hT' : rnd T = T) (a : ℝ) : 0 ≤ normalize_fl rnd T a ∧ normalize_fl rnd T a ≤ T := by
  obtain ⟨k, _, hk⟩ := fremSpec_real a T hT
  have hrem := abs_lt.mp hk
  exact normalize_range_fl rnd hm T (FRem.frem a T) h0 hT' hrem
/-- the clause "normalize_signed(a) in `[-half turn, half turn]`" for the Props-local model `normalizeSigned_fl` of the
executed code (same hypotheses on `rnd`, plus `rnd (-(T/2)) = -(T/2)`) -/
theorem normalizeSigned_fl_range (rnd : ℝ → ℝ) (hm : Monotone rnd) (T : ℝ) (hT : 0 < T)
    (h0 : rnd 0 = 0) (hT' : rnd T = T) (hh : rnd (-(T / 2)) = -(T / 2)) (a : ℝ) :
    -(T / 2) ≤ normalizeSigned_fl rnd T a ∧ normalizeSigned_fl rnd T a ≤ T / 2 := by
  obtain ⟨r0, r1⟩ := normalize_fl_range rnd hm T hT h0 hT' a
  unfold normalizeSigned_fl
  simp only
  split_ifs with h
  · constructor
    · rw [← hh]; exact hm (by linarith)
    · have : rnd (normalize_fl rnd T a - T) ≤ rnd 0 := hm (by linarith)
      rw [h0] at this; linarith
  · rw [not_lt] at h; exact ⟨by linarith, h⟩

/-- the closed upper end is attained: a monotone rounding fixing `0` and `360` that rounds
`359` up to `360` sends `normalize(-1°)` to the full turn itself (in `f32`, `-1e-6 % 360 + 360`
rounds to `360`), which is why the range is `[0, full turn]` and not `[0, full turn)` -/
example : ∃ rnd : ℝ → ℝ, Monotone rnd ∧ rnd 0 = 0 ∧ rnd 360 = 360 ∧
    normalize_fl rnd 360 (-1) = 360 := by
  refine ⟨fun x => if 359 ≤ x ∧ x ≤ 360 then 360 else x, ?_, ?_, ?_, ?_⟩
  · intro x y hxy
    simp only
    split_ifs with h1 h2 h2
    · exact le_refl _
    · rw [not_and_or, not_le, not_le] at h2
      rcases h2 with h2 | h2 <;> linarith [h1.1, h1.2]
    · rw [not_and_or, not_le, not_le] at h1
      rcases h1 with h1 | h1 <;> linarith [h2.1, h2.2]
    · exact hxy
  · norm_num
  · norm_num
  · have hc : truncF ((-1 : ℝ) / 360) = 0 := by
      rw [truncF_of_neg (by norm_num)]
      rw [Int.ceil_eq_iff]; norm_num
    have hf : (FRem.frem (-1 : ℝ) 360 : ℝ) = -1 := by
      rw [frem_real, fremF_eq, hc]; norm_num
    unfold normalize_fl
    rw [hf]; norm_num
end fl

end Cg.C13
