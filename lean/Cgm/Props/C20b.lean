import Cgm.Props.C20
import Cgm.Model.Serde
/-!
# C20 (continued) — round trip and field structure in serde's data model

`Cgm/Model/Serde.lean` models what `#[derive(Serialize, Deserialize)]` generates for the cgmath
value types and connects the hand-written `Decomposed` visitor (`deDecomposed`, C20.lean) to the
same tree vocabulary.  The leaves are abstract (`L`), so "equal in every component, bit for bit"
is "the same `L` in every component".

Summary of what is proved:
* §1 generic facts about the derived struct visitor `deriveDe names build`:
  unknown keys are **ignored** (serde's default; `deny_unknown_fields` is not set anywhere in
  cgmath), a missing field is rejected, a duplicated field is rejected, the key order is
  irrelevant, the struct name is irrelevant, the positional (sequence) form is accepted;
* §2 `de (ser v) = some v` for every type (also after the format erased the newtype wrappers);
* §3 the field names, in order; angles are bare numbers in a self-describing format;
* §4 instances of §1 for the concrete types;
* §5 `Decomposed`: round trip, any field order, missing / unknown key rejected (in contrast to the
  derived types), last duplicate wins (in contrast), sequence form rejected (in contrast).
-/
set_option linter.unusedSectionVars false
set_option linter.unusedVariables false
namespace Cg.C20
open Cg Cg.Serde
variable {L α R V T : Type}

/-! ## §1 the derived visitor -/

/-- unknown keys are skipped: the key loop sees only the entries whose key is a field name -/
theorem visitMap_filter (names : List String) (kvs : List (String × Tree L)) (s : Slots L) :
    visitMap names kvs s = visitMap names (kvs.filter fun p => p.1 ∈ names) s := by
  induction kvs generalizing s with
  | nil => rfl
  | cons p rest ih =>
    obtain ⟨k, t⟩ := p
    by_cases hk : k ∈ names
    · simp only [List.filter_cons, hk, decide_true, if_true, visitMap]
      cases s k with
      | none => exact ih _
      | some _ => rfl
    · simp only [List.filter_cons, hk, decide_false, visitMap, if_false]
      simpa using ih s
/-- **unknown fields are ignored by a derived `Deserialize`** (whatever their value is) -/
theorem deriveDe_ignores_unknown (names : List String) (build : List (Tree L) → Option T)
    (n : String) (kvs : List (String × Tree L)) :
    deriveDe names build (.struct n kvs) =
      deriveDe names build (.struct n (kvs.filter fun p => p.1 ∈ names)) := by
  simp only [deriveDe, structFields]; rw [visitMap_filter]
/-- one extra entry with an unknown key, anywhere, changes nothing -/
theorem deriveDe_unknown_insert (names : List String) (build : List (Tree L) → Option T)
    (n : String) (pre post : List (String × Tree L)) (k : String) (t : Tree L) (hk : k ∉ names) :
    deriveDe names build (.struct n (pre ++ (k, t) :: post)) =
      deriveDe names build (.struct n (pre ++ post)) := by
  rw [deriveDe_ignores_unknown, deriveDe_ignores_unknown names build n (pre ++ post)]
  simp [List.filter_append, hk]
/-- the struct name is not looked at -/
theorem deriveDe_name (names : List String) (build : List (Tree L) → Option T)
    (n n' : String) (kvs : List (String × Tree L)) :
    deriveDe names build (.struct n kvs) = deriveDe names build (.struct n' kvs) := rfl

theorem visitMap_absent (names : List String) (k : String) (kvs : List (String × Tree L))
    (s s' : Slots L) (h : ∀ p ∈ kvs, p.1 ≠ k) (hs : visitMap names kvs s = some s') : s' k = s k := by
  induction kvs generalizing s with
  | nil => simp [visitMap] at hs; subst hs; rfl
  | cons p rest ih =>
    obtain ⟨k', t⟩ := p
    have hk' : k' ≠ k := h (k', t) (by simp)
    have hrest : ∀ p ∈ rest, p.1 ≠ k := fun p hp => h p (by simp [hp])
    unfold visitMap at hs
    split at hs
    · split at hs
      · exact absurd hs (by simp)
      · rw [ih _ hrest hs]; simp [Slots.set, Ne.symm hk']
    · exact ih _ hrest hs
theorem collect_none (s : Slots L) (names : List String) (k : String) (hk : k ∈ names)
    (h : s k = none) : collect s names = none := by
  induction names with
  | nil => simp at hk
  | cons k' ks ih =>
    unfold collect
    rcases List.mem_cons.mp hk with rfl | hks
    · simp [h]
    · cases s k' with
      | none => rfl
      | some t => simp [ih hks]
/-- **a missing field is rejected by a derived `Deserialize`** -/
theorem deriveDe_missing (names : List String) (build : List (Tree L) → Option T)
    (n : String) (kvs : List (String × Tree L)) (k : String) (hk : k ∈ names)
    (h : ∀ p ∈ kvs, p.1 ≠ k) : deriveDe names build (.struct n kvs) = none := by
  simp only [deriveDe, structFields]
  cases hv : visitMap names kvs Slots.empty with
  | none => rfl
  | some s =>
    have : s k = none := by rw [visitMap_absent names k kvs _ s h hv]; rfl
    simp [collect_none s names k hk this]

theorem visitMap_filled (names : List String) (k : String) (hk : k ∈ names)
    (kvs : List (String × Tree L)) (s : Slots L) (hs : (s k).isSome) (h : ∃ p ∈ kvs, p.1 = k) :
    visitMap names kvs s = none := by
  induction kvs generalizing s with
  | nil => obtain ⟨p, hp, _⟩ := h; simp at hp
  | cons q rest ih =>
    obtain ⟨k', t⟩ := q
    unfold visitMap
    by_cases hkk : k' = k
    · subst hkk
      simp only [hk, if_true]
      cases hsk : s k' with
      | none => simp [hsk] at hs
      | some _ => rfl
    · have hrest : ∃ p ∈ rest, p.1 = k := by
        obtain ⟨p, hp, hpk⟩ := h
        rcases List.mem_cons.mp hp with rfl | hr
        · exact absurd hpk hkk
        · exact ⟨p, hr, hpk⟩
      split
      · split
        · rfl
        · exact ih _ (by simpa [Slots.set, Ne.symm hkk] using hs) hrest
      · exact ih _ hs hrest
/-- **a duplicated field is rejected by a derived `Deserialize`** (`duplicate_field`) -/
theorem deriveDe_duplicate (names : List String) (build : List (Tree L) → Option T)
    (n : String) (k : String) (hk : k ∈ names) (t1 t2 : Tree L)
    (l1 l2 l3 : List (String × Tree L)) :
    deriveDe names build (.struct n (l1 ++ (k, t1) :: l2 ++ (k, t2) :: l3)) = none := by
  have key : ∀ (l1 : List (String × Tree L)) (s : Slots L),
      visitMap names (l1 ++ (k, t1) :: l2 ++ (k, t2) :: l3) s = none := by
    intro l1
    induction l1 with
    | nil =>
      intro s
      simp only [List.nil_append, List.cons_append, visitMap, hk, if_true]
      cases s k with
      | some _ => rfl
      | none =>
        exact visitMap_filled names k hk _ _ (by simp [Slots.set]) ⟨(k, t2), by simp, rfl⟩
    | cons q l1 ih =>
      intro s
      obtain ⟨k', t⟩ := q
      simp only [List.cons_append, visitMap]
      split
      · split
        · rfl
        · exact ih _
      · exact ih _
  simp only [deriveDe, structFields]
  rw [key]

theorem Slots.set_comm (s : Slots L) (k1 k2 : String) (t1 t2 : Tree L) (h : k1 ≠ k2) :
    (s.set k1 t1).set k2 t2 = (s.set k2 t2).set k1 t1 := by
  funext k
  simp only [Slots.set]
  by_cases h1 : k = k1
  · subst h1; simp [h]
  · by_cases h2 : k = k2
    · subst h2; simp [h1]
    · simp [h1, h2]
/-- the key loop does not depend on the order of the entries -/
theorem visitMap_perm (names : List String) {kvs kvs' : List (String × Tree L)}
    (h : kvs.Perm kvs') : ∀ s : Slots L, visitMap names kvs s = visitMap names kvs' s := by
  induction h with
  | nil => intro s; rfl
  | cons x _ ih =>
    intro s
    obtain ⟨k, t⟩ := x
    simp only [visitMap]
    split
    · split
      · rfl
      · exact ih _
    · exact ih _
  | swap x y l =>
    intro s
    obtain ⟨kx, tx⟩ := x
    obtain ⟨ky, ty⟩ := y
    simp only [visitMap]
    by_cases hxy : kx = ky
    · subst hxy
      by_cases hx : kx ∈ names
      · simp only [hx, if_true]
        cases hs : s kx with
        | some _ => rfl
        | none => simp [Slots.set]
      · simp [hx]
    · by_cases hx : kx ∈ names <;> by_cases hy : ky ∈ names <;> simp only [hx, hy, if_true, if_false]
      · have e1 : (s.set ky ty) kx = s kx := by simp [Slots.set, hxy]
        have e2 : (s.set kx tx) ky = s ky := by simp [Slots.set, Ne.symm hxy]
        cases hsx : s kx <;> cases hsy : s ky <;> simp only [e1, e2, hsx, hsy]
        try rw [Slots.set_comm s ky kx ty tx (Ne.symm hxy)]
  | trans _ _ ih1 ih2 => intro s; rw [ih1, ih2]
/-- **a derived `Deserialize` accepts the fields in any order** -/
theorem deriveDe_perm (names : List String) (build : List (Tree L) → Option T)
    (n : String) {kvs kvs' : List (String × Tree L)} (h : kvs.Perm kvs') :
    deriveDe names build (.struct n kvs) = deriveDe names build (.struct n kvs') := by
  simp only [deriveDe, structFields]; rw [visitMap_perm names h]
/-- the positional form (`visit_seq`, what non-self-describing formats use) is accepted when the
length is right, rejected otherwise -/
theorem deriveDe_seq (names : List String) (build : List (Tree L) → Option T) (items : List (Tree L)) :
    deriveDe names build (.seq items) = if items.length = names.length then build items else none := by
  by_cases h : items.length = names.length <;> simp [deriveDe, structFields, h]
/-- anything else (a bare leaf, a newtype node) is `invalid_type` -/
theorem deriveDe_other (names : List String) (build : List (Tree L) → Option T) (a : L) (n : String)
    (t : Tree L) : deriveDe names build (.leaf a) = none ∧ deriveDe names build (.newtype n t) = none :=
  ⟨rfl, rfl⟩

/-! ## §2 round trips -/

theorem sf_x (n : String) (a : Tree L) : structFields ["x"] (.struct n [("x", a)]) = some [a] := rfl
theorem sf_xy (n : String) (a b : Tree L) :
    structFields ["x", "y"] (.struct n [("x", a), ("y", b)]) = some [a, b] := rfl
theorem sf_xyz (n : String) (a b d : Tree L) :
    structFields ["x", "y", "z"] (.struct n [("x", a), ("y", b), ("z", d)]) = some [a, b, d] := rfl
theorem sf_xyzw (n : String) (a b d e : Tree L) :
    structFields ["x", "y", "z", "w"] (.struct n [("x", a), ("y", b), ("z", d), ("w", e)]) =
      some [a, b, d, e] := rfl
theorem sf_vs (n : String) (a b : Tree L) :
    structFields ["v", "s"] (.struct n [("v", a), ("s", b)]) = some [a, b] := rfl
theorem sf_mat (n : String) (a : Tree L) : structFields ["mat"] (.struct n [("mat", a)]) = some [a] := rfl
theorem sf_frustum (n : String) (a b d e f g : Tree L) :
    structFields ["left", "right", "bottom", "top", "near", "far"]
      (.struct n [("left", a), ("right", b), ("bottom", d), ("top", e), ("near", f), ("far", g)]) =
      some [a, b, d, e, f, g] := rfl
theorem sf_fov (n : String) (a b d e : Tree L) :
    structFields ["fovy", "aspect", "near", "far"]
      (.struct n [("fovy", a), ("aspect", b), ("near", d), ("far", e)]) = some [a, b, d, e] := rfl
theorem sf_planar (n : String) (a b d e f : Tree L) :
    structFields ["fovy", "aspect", "height", "near", "far"]
      (.struct n [("fovy", a), ("aspect", b), ("height", d), ("near", e), ("far", f)]) =
      some [a, b, d, e, f] := rfl

/-- the format's newtype erasure goes through a struct field by field -/
theorem json_struct (n : String) (kvs : List (String × Tree L)) :
    (Tree.struct n kvs).json = .struct n (kvs.map fun p => (p.1, p.2.json)) := by
  have : ∀ kvs : List (String × Tree L), Tree.json.jsonFields kvs = kvs.map fun p => (p.1, p.2.json) := by
    intro kvs
    induction kvs with
    | nil => simp [Tree.json.jsonFields]
    | cons p r ih => obtain ⟨k, t⟩ := p; simp [Tree.json.jsonFields, ih]
  simp [Tree.json, this]
theorem json_leaf (a : L) : (Tree.leaf a).json = .leaf a := by simp [Tree.json]
theorem json_newtype (n : String) (t : Tree L) : (Tree.newtype n t).json = t.json := by simp [Tree.json]

/-- a primitive scalar round-trips -/
theorem leaf_lawful : (leaf : Codec L L).Lawful := ⟨fun _ => rfl, fun a => by simp [leaf, json_leaf]⟩

variable {c : Codec L α}

theorem V1.lawful (h : c.Lawful) : (V1.codec c).Lawful := by
  constructor <;> intro v
  · simp [V1.codec, deriveDe, sf_x, build1, h.de_ser]
  · simp [V1.codec, deriveDe, json_struct, sf_x, build1, h.de_json]
theorem V2.lawful (h : c.Lawful) : (V2.codec c).Lawful := by
  constructor <;> intro v
  · simp [V2.codec, deriveDe, sf_xy, build2, h.de_ser]
  · simp [V2.codec, deriveDe, json_struct, sf_xy, build2, h.de_json]
theorem V3.lawful (h : c.Lawful) : (V3.codec c).Lawful := by
  constructor <;> intro v
  · simp [V3.codec, deriveDe, sf_xyz, build3, h.de_ser]
  · simp [V3.codec, deriveDe, json_struct, sf_xyz, build3, h.de_json]
theorem V4.lawful (h : c.Lawful) : (V4.codec c).Lawful := by
  constructor <;> intro v
  · simp [V4.codec, deriveDe, sf_xyzw, build4, h.de_ser]
  · simp [V4.codec, deriveDe, json_struct, sf_xyzw, build4, h.de_json]
theorem P1.lawful (h : c.Lawful) : (P1.codec c).Lawful := by
  constructor <;> intro v
  · simp [P1.codec, deriveDe, sf_x, build1, h.de_ser]
  · simp [P1.codec, deriveDe, json_struct, sf_x, build1, h.de_json]
theorem P2.lawful (h : c.Lawful) : (P2.codec c).Lawful := by
  constructor <;> intro v
  · simp [P2.codec, deriveDe, sf_xy, build2, h.de_ser]
  · simp [P2.codec, deriveDe, json_struct, sf_xy, build2, h.de_json]
theorem P3.lawful (h : c.Lawful) : (P3.codec c).Lawful := by
  constructor <;> intro v
  · simp [P3.codec, deriveDe, sf_xyz, build3, h.de_ser]
  · simp [P3.codec, deriveDe, json_struct, sf_xyz, build3, h.de_json]
theorem M2.lawful (h : c.Lawful) : (M2.codec c).Lawful := by
  have h2 := V2.lawful h
  constructor <;> intro m
  · simp [M2.codec, deriveDe, sf_xy, build2, h2.de_ser]
  · simp [M2.codec, deriveDe, json_struct, sf_xy, build2, h2.de_json]
theorem M3.lawful (h : c.Lawful) : (M3.codec c).Lawful := by
  have h3 := V3.lawful h
  constructor <;> intro m
  · simp [M3.codec, deriveDe, sf_xyz, build3, h3.de_ser]
  · simp [M3.codec, deriveDe, json_struct, sf_xyz, build3, h3.de_json]
theorem M4.lawful (h : c.Lawful) : (M4.codec c).Lawful := by
  have h4 := V4.lawful h
  constructor <;> intro m
  · simp [M4.codec, deriveDe, sf_xyzw, build4, h4.de_ser]
  · simp [M4.codec, deriveDe, json_struct, sf_xyzw, build4, h4.de_json]
theorem Quat.lawful (h : c.Lawful) : (Quat.codec c).Lawful := by
  have h3 := V3.lawful h
  constructor <;> intro q
  · simp [Quat.codec, deriveDe, sf_vs, Quat.build, h3.de_ser, h.de_ser]
  · simp [Quat.codec, deriveDe, json_struct, sf_vs, Quat.build, h3.de_json, h.de_json]
/-- angles: the newtype node and the bare number are both accepted.  The side condition says that
the scalar's own serialisation is not itself a newtype node or a one-element sequence (true for a
primitive: `leaf`), so that the newtype visitor's three entry points cannot be confused. -/
def Plain (c : Codec L α) : Prop :=
  ∀ a, (∃ x, (c.ser a).json = .leaf x) ∨ (∃ n kvs, (c.ser a).json = .struct n kvs)
theorem leaf_plain : Plain (leaf : Codec L L) := fun a => Or.inl ⟨a, by simp [leaf, json_leaf]⟩
theorem Rad.lawful (h : c.Lawful) (hp : Plain c) : (Rad.codec c).Lawful := by
  constructor <;> intro a
  · simp [Rad.codec, newtypeDe, h.de_ser]
  · have hd := h.de_json a.val
    rcases hp a.val with ⟨x, hx⟩ | ⟨n, kvs, hx⟩ <;>
      · simp only [Rad.codec, json_newtype]
        rw [hx] at hd ⊢
        simp [newtypeDe, hd]
theorem Deg.lawful (h : c.Lawful) (hp : Plain c) : (Deg.codec c).Lawful := by
  constructor <;> intro a
  · simp [Deg.codec, newtypeDe, h.de_ser]
  · have hd := h.de_json a.val
    rcases hp a.val with ⟨x, hx⟩ | ⟨n, kvs, hx⟩ <;>
      · simp only [Deg.codec, json_newtype]
        rw [hx] at hd ⊢
        simp [newtypeDe, hd]
/-- `Euler<A>` for any angle codec (`Euler<Rad<S>>`, `Euler<Deg<S>>`) -/
theorem Euler.lawful {A : Type} {ca : Codec L A} (h : ca.Lawful) : (Euler.codec ca).Lawful := by
  constructor <;> intro e
  · simp [Euler.codec, deriveDe, sf_xyz, build3, h.de_ser]
  · simp [Euler.codec, deriveDe, json_struct, sf_xyz, build3, h.de_json]
theorem Basis2.lawful (h : c.Lawful) : (Basis2.codec c).Lawful := by
  have hm := M2.lawful h
  constructor <;> intro b
  · simp [Basis2.codec, deriveDe, sf_mat, build1, hm.de_ser]
  · simp [Basis2.codec, deriveDe, json_struct, sf_mat, build1, hm.de_json]
theorem Basis3.lawful (h : c.Lawful) : (Basis3.codec c).Lawful := by
  have hm := M3.lawful h
  constructor <;> intro b
  · simp [Basis3.codec, deriveDe, sf_mat, build1, hm.de_ser]
  · simp [Basis3.codec, deriveDe, json_struct, sf_mat, build1, hm.de_json]
theorem Ortho.lawful (h : c.Lawful) : (Ortho.codec c).Lawful := by
  constructor <;> intro p
  · simp [Ortho.codec, deriveDe, sf_frustum, build6, h.de_ser]
  · simp [Ortho.codec, deriveDe, json_struct, sf_frustum, build6, h.de_json]
theorem Perspective.lawful (h : c.Lawful) : (Perspective.codec c).Lawful := by
  constructor <;> intro p
  · simp [Perspective.codec, deriveDe, sf_frustum, build6, h.de_ser]
  · simp [Perspective.codec, deriveDe, json_struct, sf_frustum, build6, h.de_json]
theorem PerspectiveFov.lawful (h : c.Lawful) (hp : Plain c) : (PerspectiveFov.codec c).Lawful := by
  have hr := Rad.lawful h hp
  constructor <;> intro p
  · simp [PerspectiveFov.codec, deriveDe, sf_fov, PerspectiveFov.build, hr.de_ser, h.de_ser]
  · simp [PerspectiveFov.codec, deriveDe, json_struct, sf_fov, PerspectiveFov.build, hr.de_json, h.de_json]
theorem PlanarFov.lawful (h : c.Lawful) (hp : Plain c) : (PlanarFov.codec c).Lawful := by
  have hr := Rad.lawful h hp
  constructor <;> intro p
  · simp [PlanarFov.codec, deriveDe, sf_planar, PlanarFov.build, hr.de_ser, h.de_ser]
  · simp [PlanarFov.codec, deriveDe, json_struct, sf_planar, PlanarFov.build, hr.de_json, h.de_json]

/-- `Decomposed`: the serialiser's output goes through the hand-written visitor -/
theorem Decomposed.lawful {cs : Codec L α} {cr : Codec L R} {cv : Codec L V}
    (hs : cs.Lawful) (hr : cr.Lawful) (hv : cv.Lawful) : (Decomposed.codec cs cr cv).Lawful := by
  constructor <;> intro t
  · simp [Decomposed.codec, Decomposed.ser, Decomposed.de, de_ser, hs.de_ser, hr.de_ser, hv.de_ser]
  · simp [Decomposed.codec, Decomposed.ser, json_struct, serDecomposed, Decomposed.de]
    rw [show deDecomposed [("scale", (cs.ser t.scale).json), ("rot", (cr.ser t.rot).json),
      ("disp", (cv.ser t.disp).json)] = .ok (_, _, _) from rfl]
    simp [hs.de_json, hr.de_json, hv.de_json]

/-- **C20, round trip**: with primitive leaves, the model's codec of every serialisable type satisfies
`de (ser v) = some v`, directly and through a format that writes newtypes transparently.  Both `ser` and `de` are the model's
(`Cgm/Model/Serde.lean`, transcribed from the serde derives); nothing here is tied to the derive output by Lean.
The `Decomposed` instances listed are the ones cgmath is used with
(`Decomposed<Vector3, Quaternion>`, `Decomposed<Vector3, Basis3>`, `Decomposed<Vector2, Basis2>`). -/
theorem round_trip_all :
    (V1.codec (leaf : Codec L L)).Lawful ∧ (V2.codec (leaf : Codec L L)).Lawful ∧
    (V3.codec (leaf : Codec L L)).Lawful ∧ (V4.codec (leaf : Codec L L)).Lawful ∧
    (P1.codec (leaf : Codec L L)).Lawful ∧ (P2.codec (leaf : Codec L L)).Lawful ∧
    (P3.codec (leaf : Codec L L)).Lawful ∧
    (M2.codec (leaf : Codec L L)).Lawful ∧ (M3.codec (leaf : Codec L L)).Lawful ∧
    (M4.codec (leaf : Codec L L)).Lawful ∧ (Quat.codec (leaf : Codec L L)).Lawful ∧
    (Rad.codec (leaf : Codec L L)).Lawful ∧ (Deg.codec (leaf : Codec L L)).Lawful ∧
    (Euler.codec (Rad.codec (leaf : Codec L L))).Lawful ∧
    (Euler.codec (Deg.codec (leaf : Codec L L))).Lawful ∧
    (Basis2.codec (leaf : Codec L L)).Lawful ∧ (Basis3.codec (leaf : Codec L L)).Lawful ∧
    (Ortho.codec (leaf : Codec L L)).Lawful ∧ (Perspective.codec (leaf : Codec L L)).Lawful ∧
    (PerspectiveFov.codec (leaf : Codec L L)).Lawful ∧ (PlanarFov.codec (leaf : Codec L L)).Lawful ∧
    (Decomposed.codec (leaf : Codec L L) (Quat.codec leaf) (V3.codec leaf)).Lawful ∧
    (Decomposed.codec (leaf : Codec L L) (Basis3.codec leaf) (V3.codec leaf)).Lawful ∧
    (Decomposed.codec (leaf : Codec L L) (Basis2.codec leaf) (V2.codec leaf)).Lawful := by
  have l : (leaf : Codec L L).Lawful := leaf_lawful
  have p : Plain (leaf : Codec L L) := leaf_plain
  exact ⟨V1.lawful l, V2.lawful l, V3.lawful l, V4.lawful l, P1.lawful l, P2.lawful l, P3.lawful l,
    M2.lawful l, M3.lawful l, M4.lawful l, Quat.lawful l, Rad.lawful l p, Deg.lawful l p,
    Euler.lawful (Rad.lawful l p), Euler.lawful (Deg.lawful l p), Basis2.lawful l, Basis3.lawful l,
    Ortho.lawful l, Perspective.lawful l, PerspectiveFov.lawful l p, PlanarFov.lawful l p,
    Decomposed.lawful l (Quat.lawful l) (V3.lawful l),
    Decomposed.lawful l (Basis3.lawful l) (V3.lawful l),
    Decomposed.lawful l (Basis2.lawful l) (V2.lawful l)⟩
/-- the statement of `round_trip_all` unfolded for two types, as plain equations -/
theorem round_trip_quat (q : Quat L) : (Quat.codec leaf).de ((Quat.codec leaf).ser q) = some q :=
  (Quat.lawful leaf_lawful).de_ser q
theorem round_trip_decomposed (t : Decomposed (Quat L) (V3 L) L) :
    Decomposed.de leaf (Quat.codec leaf) (V3.codec leaf)
      (Decomposed.ser leaf (Quat.codec leaf) (V3.codec leaf) t) = some t :=
  (Decomposed.lawful leaf_lawful (Quat.lawful leaf_lawful) (V3.lawful leaf_lawful)).de_ser t
/-- not vacuous: a concrete value over `Nat` leaves (evaluated) -/
example : (Quat.codec leaf).de ((Quat.codec leaf).ser (⟨⟨1, 2, 3⟩, 4⟩ : Quat Nat)) = some ⟨⟨1, 2, 3⟩, 4⟩ := rfl

/-! ## §3 field structure -/

/-- **C20, field names**: in the model's `ser`, the components are named by their public field names, in declaration
order; matrices name their columns `x, y, z, w`; the bases have the single field `mat`.  (True by construction of the model:
`rfl` on the field lists transcribed into `Cgm/Model/Serde.lean`; a rename made on both sides, or a `#[serde(...)]` attribute,
would not be noticed here.) -/
theorem field_names (c : Codec L α) (v1 : V1 α) (v2 : V2 α) (v3 : V3 α) (v4 : V4 α)
    (p1 : P1 α) (p2 : P2 α) (p3 : P3 α) (m2 : M2 α) (m3 : M3 α) (m4 : M4 α) (q : Quat α)
    (b2 : Basis2 α) (b3 : Basis3 α) :
    fieldNames ((V1.codec c).ser v1) = ["x"] ∧ fieldNames ((V2.codec c).ser v2) = ["x", "y"] ∧
    fieldNames ((V3.codec c).ser v3) = ["x", "y", "z"] ∧
    fieldNames ((V4.codec c).ser v4) = ["x", "y", "z", "w"] ∧
    fieldNames ((P1.codec c).ser p1) = ["x"] ∧ fieldNames ((P2.codec c).ser p2) = ["x", "y"] ∧
    fieldNames ((P3.codec c).ser p3) = ["x", "y", "z"] ∧
    fieldNames ((M2.codec c).ser m2) = ["x", "y"] ∧ fieldNames ((M3.codec c).ser m3) = ["x", "y", "z"] ∧
    fieldNames ((M4.codec c).ser m4) = ["x", "y", "z", "w"] ∧
    fieldNames ((Quat.codec c).ser q) = ["v", "s"] ∧
    fieldNames ((Basis2.codec c).ser b2) = ["mat"] ∧ fieldNames ((Basis3.codec c).ser b3) = ["mat"] :=
  ⟨rfl, rfl, rfl, rfl, rfl, rfl, rfl, rfl, rfl, rfl, rfl, rfl, rfl⟩
theorem field_names_proj {A : Type} (c : Codec L α) (ca : Codec L A) (e : Euler A) (o : Ortho α)
    (p : Perspective α) (pf : PerspectiveFov α) (pl : PlanarFov α) :
    fieldNames ((Euler.codec ca).ser e) = ["x", "y", "z"] ∧
    fieldNames ((Ortho.codec c).ser o) = ["left", "right", "bottom", "top", "near", "far"] ∧
    fieldNames ((Perspective.codec c).ser p) = ["left", "right", "bottom", "top", "near", "far"] ∧
    fieldNames ((PerspectiveFov.codec c).ser pf) = ["fovy", "aspect", "near", "far"] ∧
    fieldNames ((PlanarFov.codec c).ser pl) = ["fovy", "aspect", "height", "near", "far"] :=
  ⟨rfl, rfl, rfl, rfl, rfl⟩
theorem field_names_decomposed (cs : Codec L α) (cr : Codec L R) (cv : Codec L V)
    (t : Decomposed R V α) : fieldNames (Decomposed.ser cs cr cv t) = ["scale", "rot", "disp"] := rfl
/-- the nested structure: a matrix column is the vector struct, the quaternion's `v` is the
`Vector3` struct and its `s` the bare scalar -/
theorem nested_structure (m : M3 L) (q : Quat L) :
    (M3.codec leaf).ser m = .struct "Matrix3" [("x", (V3.codec leaf).ser m.x),
      ("y", (V3.codec leaf).ser m.y), ("z", (V3.codec leaf).ser m.z)] ∧
    (Quat.codec leaf).ser q = .struct "Quaternion"
      [("v", .struct "Vector3" [("x", .leaf q.v.x), ("y", .leaf q.v.y), ("z", .leaf q.v.z)]),
       ("s", .leaf q.s)] := ⟨rfl, rfl⟩
/-- **angles are bare numbers**: in the data model `Rad`/`Deg` are newtype nodes, and a format that
writes a newtype as its content (serde_json) keeps only the number; an `Euler<Rad<S>>` is then a
struct of three numbers, `PerspectiveFov::fovy` a number -/
theorem angles_bare (a : L) (e : Euler (Rad L)) (pf : PerspectiveFov L) :
    (Rad.codec leaf).ser ⟨a⟩ = .newtype "Rad" (.leaf a) ∧ (Deg.codec leaf).ser ⟨a⟩ = .newtype "Deg" (.leaf a) ∧
    ((Rad.codec leaf).ser ⟨a⟩).json = .leaf a ∧ ((Deg.codec leaf).ser ⟨a⟩).json = .leaf a ∧
    ((Euler.codec (Rad.codec leaf)).ser e).json =
      .struct "Euler" [("x", .leaf e.x.val), ("y", .leaf e.y.val), ("z", .leaf e.z.val)] ∧
    ((PerspectiveFov.codec leaf).ser pf).json = .struct "PerspectiveFov"
      [("fovy", .leaf pf.fovy.val), ("aspect", .leaf pf.aspect), ("near", .leaf pf.near),
       ("far", .leaf pf.far)] := by
  refine ⟨rfl, rfl, ?_, ?_, ?_, ?_⟩ <;>
    simp [Rad.codec, Deg.codec, Euler.codec, PerspectiveFov.codec, leaf, json_struct, json_newtype, json_leaf]
/-- and the bare number is what the angle deserialiser accepts -/
theorem angle_de_bare (a : L) :
    (Rad.codec leaf).de (.leaf a) = some ⟨a⟩ ∧ (Deg.codec leaf).de (.leaf a) = some ⟨a⟩ ∧
    (Rad.codec leaf).de (.newtype "Rad" (.leaf a)) = some ⟨a⟩ := ⟨rfl, rfl, rfl⟩

/-! ## §4 the derived types: every `de` is the derived visitor, so §1 applies -/

/-- every derived struct deserialiser is `deriveDe` over its field names (by definition) -/
theorem derived_forms (c : Codec L α) :
    (V1.codec c).de = deriveDe ["x"] (build1 c V1.mk) ∧
    (V2.codec c).de = deriveDe ["x", "y"] (build2 c V2.mk) ∧
    (V3.codec c).de = deriveDe ["x", "y", "z"] (build3 c V3.mk) ∧
    (V4.codec c).de = deriveDe ["x", "y", "z", "w"] (build4 c V4.mk) ∧
    (P1.codec c).de = deriveDe ["x"] (build1 c P1.mk) ∧
    (P2.codec c).de = deriveDe ["x", "y"] (build2 c P2.mk) ∧
    (P3.codec c).de = deriveDe ["x", "y", "z"] (build3 c P3.mk) ∧
    (M2.codec c).de = deriveDe ["x", "y"] (build2 (V2.codec c) M2.mk) ∧
    (M3.codec c).de = deriveDe ["x", "y", "z"] (build3 (V3.codec c) M3.mk) ∧
    (M4.codec c).de = deriveDe ["x", "y", "z", "w"] (build4 (V4.codec c) M4.mk) ∧
    (Quat.codec c).de = deriveDe ["v", "s"] (Quat.build c) ∧
    (Basis2.codec c).de = deriveDe ["mat"] (build1 (M2.codec c) Basis2.mk) ∧
    (Basis3.codec c).de = deriveDe ["mat"] (build1 (M3.codec c) Basis3.mk) ∧
    (Ortho.codec c).de = deriveDe ["left", "right", "bottom", "top", "near", "far"] (build6 c Ortho.mk) ∧
    (Perspective.codec c).de =
      deriveDe ["left", "right", "bottom", "top", "near", "far"] (build6 c Perspective.mk) ∧
    (PerspectiveFov.codec c).de = deriveDe ["fovy", "aspect", "near", "far"] (PerspectiveFov.build c) ∧
    (PlanarFov.codec c).de =
      deriveDe ["fovy", "aspect", "height", "near", "far"] (PlanarFov.build c) :=
  ⟨rfl, rfl, rfl, rfl, rfl, rfl, rfl, rfl, rfl, rfl, rfl, rfl, rfl, rfl, rfl, rfl, rfl⟩
theorem derived_form_euler {A : Type} (ca : Codec L A) :
    (Euler.codec ca).de = deriveDe ["x", "y", "z"] (build3 ca Euler.mk) := rfl

/-- instances for `Vector3`: a missing component is rejected, never defaulted -/
theorem V3.de_missing (c : Codec L α) (n : String) (a b : Tree L) :
    (V3.codec c).de (.struct n [("x", a), ("y", b)]) = none ∧
    (V3.codec c).de (.struct n [("x", a), ("z", b)]) = none ∧
    (V3.codec c).de (.struct n [("y", a), ("z", b)]) = none ∧
    (V3.codec c).de (.struct n []) = none := ⟨rfl, rfl, rfl, rfl⟩
/-- ... an unknown component is **silently ignored** (this is what serde's derive does by default;
the property's "rejected when an unknown one is present" is about `Decomposed` only) -/
theorem V3.de_unknown_ignored (h : c.Lawful) (v : V3 α) (k : String) (t : Tree L)
    (hk : k ≠ "x" ∧ k ≠ "y" ∧ k ≠ "z") :
    (V3.codec c).de (.struct "Vector3" [("x", c.ser v.x), (k, t), ("y", c.ser v.y), ("z", c.ser v.z)]) =
      some v := by
  have := deriveDe_unknown_insert ["x", "y", "z"] (build3 c V3.mk) "Vector3" [("x", c.ser v.x)]
    [("y", c.ser v.y), ("z", c.ser v.z)] k t (by simp [hk])
  exact this.trans ((V3.lawful h).de_ser v)
/-- ... a repeated component is rejected, the order is free, the positional form is accepted -/
theorem V3.de_misc (h : c.Lawful) (v : V3 α) (n : String) (t : Tree L) :
    (V3.codec c).de (.struct n [("x", c.ser v.x), ("y", c.ser v.y), ("x", t), ("z", c.ser v.z)]) = none ∧
    (V3.codec c).de (.struct n [("z", c.ser v.z), ("x", c.ser v.x), ("y", c.ser v.y)]) = some v ∧
    (V3.codec c).de (.seq [c.ser v.x, c.ser v.y, c.ser v.z]) = some v ∧
    (V3.codec c).de (.seq [c.ser v.x, c.ser v.y]) = none := by
  refine ⟨rfl, ?_, ?_, rfl⟩
  · have : structFields ["x", "y", "z"] (.struct n [("z", c.ser v.z), ("x", c.ser v.x), ("y", c.ser v.y)]) =
      some [c.ser v.x, c.ser v.y, c.ser v.z] := rfl
    simp [V3.codec, deriveDe, this, build3, h.de_ser]
  · simp [V3.codec, deriveDe, structFields, build3, h.de_ser]
/-- the quaternion likewise: `{s, v}` in the other order is fine, `w` is not a field -/
theorem Quat.de_misc (h : c.Lawful) (q : Quat α) (t : Tree L) :
    (Quat.codec c).de (.struct "Quaternion" [("s", c.ser q.s), ("v", (V3.codec c).ser q.v)]) = some q ∧
    (Quat.codec c).de (.struct "Quaternion" [("v", (V3.codec c).ser q.v)]) = none ∧
    (Quat.codec c).de (.struct "Quaternion" [("w", t), ("v", (V3.codec c).ser q.v), ("s", c.ser q.s)]) =
      some q := by
  have h3 := V3.lawful h
  refine ⟨?_, rfl, ?_⟩
  · have : structFields ["v", "s"] (.struct "Quaternion" [("s", c.ser q.s), ("v", (V3.codec c).ser q.v)]) =
      some [(V3.codec c).ser q.v, c.ser q.s] := rfl
    simp [Quat.codec, deriveDe, this, Quat.build, h3.de_ser, h.de_ser]
  · have : structFields ["v", "s"]
        (.struct "Quaternion" [("w", t), ("v", (V3.codec c).ser q.v), ("s", c.ser q.s)]) =
      some [(V3.codec c).ser q.v, c.ser q.s] := rfl
    simp [Quat.codec, deriveDe, this, Quat.build, h3.de_ser, h.de_ser]

/-! ## §5 `Decomposed` in the tree vocabulary -/
section decomposed
variable {cs : Codec L α} {cr : Codec L R} {cv : Codec L V}

/-- the tree deserialiser is the visitor of C20.lean followed by the three field deserialisers -/
theorem Decomposed.de_struct (n : String) (kvs : List (String × Tree L)) (a b d : Tree L)
    (h : deDecomposed kvs = .ok (a, b, d)) :
    Decomposed.de cs cr cv (.struct n kvs) =
      (cs.de a).bind fun s => (cr.de b).bind fun r => (cv.de d).map fun v => ⟨s, r, v⟩ := by
  simp only [Decomposed.de, h]
  cases cs.de a <;> cases cr.de b <;> cases cv.de d <;> rfl
theorem Decomposed.de_error (n : String) (kvs : List (String × Tree L)) (e : String)
    (h : deDecomposed kvs = .error e) : Decomposed.de cs cr cv (.struct n kvs) = none := by
  simp [Decomposed.de, h]

/-- the visitor's loop does not depend on the order of the entries when no key is repeated -/
theorem go_perm {τ : Type} {kvs kvs' : List (String × τ)} (h : kvs.Perm kvs')
    (hn : (kvs.map Prod.fst).Nodup) : ∀ s : DSlots τ, deDecomposedGo kvs s = deDecomposedGo kvs' s := by
  induction h with
  | nil => intro s; rfl
  | cons x _ ih =>
    intro s
    obtain ⟨k, v⟩ := x
    rw [List.map_cons, List.nodup_cons] at hn
    have hn' := hn.2
    simp only [deDecomposedGo]
    split_ifs <;> first | exact ih hn' _ | rfl
  | swap x y l =>
    intro s
    obtain ⟨kx, vx⟩ := x
    obtain ⟨ky, vy⟩ := y
    simp only [List.map_cons, List.nodup_cons, List.mem_cons] at hn
    have hne : ky ≠ kx := fun e => hn.1 (Or.inl e)
    simp only [deDecomposedGo]
    split_ifs <;> first | rfl | (exfalso; simp_all)
  | trans h1 _ ih1 ih2 =>
    intro s
    have hn2 := (h1.map Prod.fst).nodup_iff.mp hn
    rw [ih1 hn, ih2 hn2]
/-- **every permutation of the three fields is accepted** and gives the same value -/
theorem Decomposed.de_any_order (hs : cs.Lawful) (hr : cr.Lawful) (hv : cv.Lawful)
    (t : Decomposed R V α) (n : String) (kvs : List (String × Tree L))
    (h : kvs.Perm (serDecomposed (cs.ser t.scale) (cr.ser t.rot) (cv.ser t.disp))) :
    Decomposed.de cs cr cv (.struct n kvs) = some t := by
  have hn : (kvs.map Prod.fst).Nodup := by
    rw [(h.map Prod.fst).nodup_iff]; simp [serDecomposed]
  have : deDecomposed kvs = .ok (cs.ser t.scale, cr.ser t.rot, cv.ser t.disp) := by
    unfold deDecomposed; rw [go_perm h hn]; rfl
  rw [Decomposed.de_struct n kvs _ _ _ this]
  simp [hs.de_ser, hr.de_ser, hv.de_ser]
/-- the six orders written out -/
theorem Decomposed.de_six_orders (hs : cs.Lawful) (hr : cr.Lawful) (hv : cv.Lawful)
    (t : Decomposed R V α) (n : String) :
    let a := cs.ser t.scale; let b := cr.ser t.rot; let d := cv.ser t.disp
    Decomposed.de cs cr cv (.struct n [("scale", a), ("rot", b), ("disp", d)]) = some t ∧
    Decomposed.de cs cr cv (.struct n [("scale", a), ("disp", d), ("rot", b)]) = some t ∧
    Decomposed.de cs cr cv (.struct n [("rot", b), ("scale", a), ("disp", d)]) = some t ∧
    Decomposed.de cs cr cv (.struct n [("rot", b), ("disp", d), ("scale", a)]) = some t ∧
    Decomposed.de cs cr cv (.struct n [("disp", d), ("scale", a), ("rot", b)]) = some t ∧
    Decomposed.de cs cr cv (.struct n [("disp", d), ("rot", b), ("scale", a)]) = some t := by
  intro a b d
  obtain ⟨h1, h2, h3, h4, h5, h6⟩ := C20.de_any_order a b d
  refine ⟨?_, ?_, ?_, ?_, ?_, ?_⟩ <;>
    simp [Decomposed.de, h1, h2, h3, h4, h5, h6, a, b, d, hs.de_ser, hr.de_ser, hv.de_ser]
/-- **a missing field is rejected** (whatever else is present) -/
theorem Decomposed.de_missing (n : String) (kvs : List (String × Tree L)) (name : String)
    (hn : name = "scale" ∨ name = "rot" ∨ name = "disp") (h : ∀ p ∈ kvs, p.1 ≠ name) :
    Decomposed.de cs cr cv (.struct n kvs) = none := by
  obtain ⟨e, he⟩ := de_missing_general kvs name hn h
  exact Decomposed.de_error n kvs e he
/-- **an unknown field is rejected** -- unlike the derived types (`deriveDe_ignores_unknown`) -/
theorem Decomposed.de_unknown (n : String) (kvs : List (String × Tree L))
    (h : ∃ p ∈ kvs, p.1 ≠ "scale" ∧ p.1 ≠ "rot" ∧ p.1 ≠ "disp") :
    Decomposed.de cs cr cv (.struct n kvs) = none :=
  Decomposed.de_error n kvs _ (C20.de_unknown kvs h)
/-- in particular a valid serialisation with one extra entry, anywhere, is rejected -/
theorem Decomposed.de_extra (t : Decomposed R V α) (n k : String) (x : Tree L)
    (pre post : List (String × Tree L)) (hk : k ≠ "scale" ∧ k ≠ "rot" ∧ k ≠ "disp") :
    Decomposed.de cs cr cv (.struct n (pre ++ (k, x) :: post)) = none :=
  Decomposed.de_unknown n _ ⟨(k, x), by simp, hk⟩
/-- a repeated key is **accepted, the last occurrence wins** -- unlike the derived types
(`deriveDe_duplicate`); the positional form and a bare leaf are rejected -- unlike the derived
types (`deriveDe_seq`): the visitor has no `visit_seq` -/
theorem Decomposed.de_contrast (hs : cs.Lawful) (hr : cr.Lawful) (hv : cv.Lawful)
    (t : Decomposed R V α) (s' : α) (n : String) (a : L) :
    Decomposed.de cs cr cv (.struct n [("scale", cs.ser s'), ("rot", cr.ser t.rot),
      ("scale", cs.ser t.scale), ("disp", cv.ser t.disp)]) = some t ∧
    Decomposed.de cs cr cv (.seq [cs.ser t.scale, cr.ser t.rot, cv.ser t.disp]) = none ∧
    Decomposed.de cs cr cv (.leaf a) = none := by
  refine ⟨?_, rfl, rfl⟩
  rw [Decomposed.de_struct n _ _ _ _ (de_duplicate (cs.ser s') (cs.ser t.scale) (cr.ser t.rot) (cv.ser t.disp))]
  simp [hs.de_ser, hr.de_ser, hv.de_ser]
end decomposed

end Cg.C20
