import Cgm.Props.C12
import Cgm.Props.C03b
/-!
# C12b — the integer reading of C12 made explicit

1. **Instantiation.**  The division-free laws of `Cgm/Props/C12.lean` (affine-space laws,
   `to_vec`/`from_vec`/`origin`, component-wise scaling, the element-wise family, the point-vector
   dot, and "the fold inside `centroid` is the sum of the position vectors") are bundled in
   `AffineLaws R`, proved for every commutative ring and instantiated at `ℤ`, `ZMod (2^n)`
   (wrapping `n`-bit arithmetic), `BitVec w`, `UInt8 .. UInt64` and `TInt`.
2. **Division** over `TInt` (`Cgm/Props/C03b.lean`: `ℤ` with Rust's truncating `/`, `%`):
   `Point / scalar`, `Point % scalar` are component-wise `tdiv` / `tmod`; `midpoint p q` is
   `p + tdiv (q - p) 2` -- it rounds toward `p`, hence is *not* symmetric in `p, q`; `centroid`
   divides the component sums by `n` with truncation; the homogeneous round trip
   `from_homogeneous (k * to_homogeneous p) = p` holds over the integers only for `k = ±1`
   (C12 grants it over a field), because `from_homogeneous` multiplies by `1 / w`.
3. Sanity evaluations by `decide`.
-/
set_option linter.unusedSectionVars false
namespace Cg.C12
open Cg

/-! ## 1. the ring-level laws of C12, bundled, and their instances -/

section fold
variable {R : Type} [CommRing R]
/-- the fold inside `centroid` sums the position vectors, component by component (ring-level
version of `C12.V3.foldl_xyz`, which is stated over a field) -/
theorem V1.foldl_x_ring (ps : List (P1 R)) (a : V1 R) :
    (ps.foldl (fun acc p => acc + p.toVec) a).x = a.x + (ps.map (·.x)).sum := by
  induction ps generalizing a with
  | nil => simp
  | cons p ps ih =>
    have := ih (a + p.toVec)
    simp only [List.foldl_cons, List.map_cons, List.sum_cons]
    rw [this]; simp [add_assoc]
theorem V2.foldl_xy_ring (ps : List (P2 R)) (a : V2 R) :
    (ps.foldl (fun acc p => acc + p.toVec) a).x = a.x + (ps.map (·.x)).sum ∧
    (ps.foldl (fun acc p => acc + p.toVec) a).y = a.y + (ps.map (·.y)).sum := by
  induction ps generalizing a with
  | nil => simp
  | cons p ps ih =>
    have := ih (a + p.toVec)
    simp only [List.foldl_cons, List.map_cons, List.sum_cons]
    refine ⟨by rw [this.1]; simp [add_assoc], by rw [this.2]; simp [add_assoc]⟩
theorem V3.foldl_xyz_ring (ps : List (P3 R)) (a : V3 R) :
    (ps.foldl (fun acc p => acc + p.toVec) a).x = a.x + (ps.map (·.x)).sum ∧
    (ps.foldl (fun acc p => acc + p.toVec) a).y = a.y + (ps.map (·.y)).sum ∧
    (ps.foldl (fun acc p => acc + p.toVec) a).z = a.z + (ps.map (·.z)).sum := by
  induction ps generalizing a with
  | nil => simp
  | cons p ps ih =>
    have := ih (a + p.toVec)
    simp only [List.foldl_cons, List.map_cons, List.sum_cons]
    refine ⟨by rw [this.1]; simp [add_assoc], by rw [this.2.1]; simp [add_assoc],
      by rw [this.2.2]; simp [add_assoc]⟩
end fold

/-- every division-free statement of `Cgm/Props/C12.lean`, over the scalar ring `R` -/
structure AffineLaws (R : Type) [CommRing R] : Prop where
  P1_affine : ∀ (p q : P1 R) (v w : V1 R),
    (p + v) - p = v ∧ p + (q - p) = q ∧ (p + v) + w = p + (v + w) ∧ p - v = p + (-v)
  P2_affine : ∀ (p q : P2 R) (v w : V2 R),
    (p + v) - p = v ∧ p + (q - p) = q ∧ (p + v) + w = p + (v + w) ∧ p - v = p + (-v)
  P3_affine : ∀ (p q : P3 R) (v w : V3 R),
    (p + v) - p = v ∧ p + (q - p) = q ∧ (p + v) + w = p + (v + w) ∧ p - v = p + (-v)
  P1_vec_iso : ∀ (p : P1 R) (v : V1 R),
    P1.fromVec p.toVec = p ∧ (P1.fromVec v).toVec = v ∧ (P1.origin : P1 R).toVec = V1.zero ∧ (P1.origin : P1 R) + v = P1.fromVec v
  P2_vec_iso : ∀ (p : P2 R) (v : V2 R),
    P2.fromVec p.toVec = p ∧ (P2.fromVec v).toVec = v ∧ (P2.origin : P2 R).toVec = V2.zero ∧ (P2.origin : P2 R) + v = P2.fromVec v
  P3_vec_iso : ∀ (p : P3 R) (v : V3 R),
    P3.fromVec p.toVec = p ∧ (P3.fromVec v).toVec = v ∧ (P3.origin : P3 R).toVec = V3.zero ∧ (P3.origin : P3 R) + v = P3.fromVec v
  /-- the division-free part of `P*.componentwise` -/
  P1_componentwise : ∀ (p q : P1 R) (s : R) (v : V1 R),
    p * s = P1.map (· * s) p ∧ P1.addEw p q = P1.zip (· + ·) p q ∧
    P1.subEw p q = P1.zip (· - ·) p q ∧ P1.mulEw p q = P1.zip (· * ·) p q ∧
    P1.addS p s = P1.map (· + s) p ∧ P1.subS p s = P1.map (· - s) p ∧ P1.dot p v = p.x * v.x
  P2_componentwise : ∀ (p q : P2 R) (s : R) (v : V2 R),
    p * s = P2.map (· * s) p ∧ P2.addEw p q = P2.zip (· + ·) p q ∧
    P2.subEw p q = P2.zip (· - ·) p q ∧ P2.mulEw p q = P2.zip (· * ·) p q ∧
    P2.addS p s = P2.map (· + s) p ∧ P2.subS p s = P2.map (· - s) p ∧
    P2.dot p v = p.x * v.x + p.y * v.y
  P3_componentwise : ∀ (p q : P3 R) (s : R) (v : V3 R),
    p * s = P3.map (· * s) p ∧ P3.addEw p q = P3.zip (· + ·) p q ∧
    P3.subEw p q = P3.zip (· - ·) p q ∧ P3.mulEw p q = P3.zip (· * ·) p q ∧
    P3.addS p s = P3.map (· + s) p ∧ P3.subS p s = P3.map (· - s) p ∧
    P3.dot p v = p.x * v.x + p.y * v.y + p.z * v.z
  /-- the numerator of `centroid`: the fold is the component-wise sum of the points -/
  P1_centroid_sum : ∀ (ps : List (P1 R)),
    (ps.foldl (fun acc p => acc + p.toVec) V1.zero).x = (ps.map (·.x)).sum
  P2_centroid_sum : ∀ (ps : List (P2 R)),
    (ps.foldl (fun acc p => acc + p.toVec) V2.zero).x = (ps.map (·.x)).sum ∧
    (ps.foldl (fun acc p => acc + p.toVec) V2.zero).y = (ps.map (·.y)).sum
  P3_centroid_sum : ∀ (ps : List (P3 R)),
    (ps.foldl (fun acc p => acc + p.toVec) V3.zero).x = (ps.map (·.x)).sum ∧
    (ps.foldl (fun acc p => acc + p.toVec) V3.zero).y = (ps.map (·.y)).sum ∧
    (ps.foldl (fun acc p => acc + p.toVec) V3.zero).z = (ps.map (·.z)).sum
  P3_toHomogeneous_w : ∀ (p : P3 R), p.toHomogeneous.w = 1 ∧ p.toHomogeneous.truncate = p.toVec

theorem affineLaws (R : Type) [CommRing R] : AffineLaws R where
  P1_affine := P1.affine
  P2_affine := P2.affine
  P3_affine := P3.affine
  P1_vec_iso := P1.vec_iso
  P2_vec_iso := P2.vec_iso
  P3_vec_iso := P3.vec_iso
  P1_componentwise := fun _ _ _ _ => ⟨rfl, rfl, rfl, rfl, rfl, rfl, rfl⟩
  P2_componentwise := fun _ _ _ _ => ⟨rfl, rfl, rfl, rfl, rfl, rfl, rfl⟩
  P3_componentwise := fun _ _ _ _ => ⟨rfl, rfl, rfl, rfl, rfl, rfl, by cg_ring⟩
  P1_centroid_sum := fun ps => by rw [V1.foldl_x_ring]; simp
  P2_centroid_sum := fun ps => by
    obtain ⟨h1, h2⟩ := V2.foldl_xy_ring ps V2.zero
    rw [h1, h2]; simp
  P3_centroid_sum := fun ps => by
    obtain ⟨h1, h2, h3⟩ := V3.foldl_xyz_ring ps V3.zero
    rw [h1, h2, h3]; simp
  P3_toHomogeneous_w := fun _ => ⟨rfl, rfl⟩

/-- **mathematical integers** ("no overflow occurs") -/
theorem affineLaws_int : AffineLaws ℤ := affineLaws ℤ
/-- **wrapping arithmetic of any width**: `ℤ/2^n` -/
theorem affineLaws_wrapping (n : ℕ) : AffineLaws (ZMod (2 ^ n)) := affineLaws _
theorem affineLaws_wrapping8 : AffineLaws (ZMod (2 ^ 8)) := affineLaws _
theorem affineLaws_wrapping16 : AffineLaws (ZMod (2 ^ 16)) := affineLaws _
theorem affineLaws_wrapping32 : AffineLaws (ZMod (2 ^ 32)) := affineLaws _
theorem affineLaws_wrapping64 : AffineLaws (ZMod (2 ^ 64)) := affineLaws _
theorem affineLaws_bitVec (w : ℕ) : AffineLaws (BitVec w) := affineLaws _
theorem affineLaws_bitVec32 : AffineLaws (BitVec 32) := affineLaws _
theorem affineLaws_uInt8 : open scoped UInt8.CommRing in AffineLaws UInt8 :=
  open scoped UInt8.CommRing in affineLaws _
theorem affineLaws_uInt16 : open scoped UInt16.CommRing in AffineLaws UInt16 :=
  open scoped UInt16.CommRing in affineLaws _
theorem affineLaws_uInt32 : open scoped UInt32.CommRing in AffineLaws UInt32 :=
  open scoped UInt32.CommRing in affineLaws _
theorem affineLaws_uInt64 : open scoped UInt64.CommRing in AffineLaws UInt64 :=
  open scoped UInt64.CommRing in affineLaws _
theorem affineLaws_tInt : AffineLaws TInt := affineLaws _

example (p q : P3 ℤ) (v w : V3 ℤ) :
    (p + v) - p = v ∧ p + (q - p) = q ∧ (p + v) + w = p + (v + w) ∧ p - v = p + (-v) :=
  affineLaws_int.P3_affine p q v w
example (p q : P2 (ZMod (2 ^ 32))) : p + (q - p) = q := (affineLaws_wrapping32.P2_affine p q V2.zero V2.zero).2.1
/-- in wrapping arithmetic `p + (q - p) = q` holds even when `q - p` "overflows":
`q - p = 10 - 250 = 16 (mod 256)` and `250 + 16 = 10 (mod 256)` -/
example : ((⟨10⟩ : P1 (ZMod (2 ^ 8))) - (⟨250⟩ : P1 (ZMod (2 ^ 8))) : V1 (ZMod (2 ^ 8))) = ⟨16⟩ ∧
    (⟨250⟩ : P1 (ZMod (2 ^ 8))) + (⟨16⟩ : V1 (ZMod (2 ^ 8))) = ⟨10⟩ := by decide

/-! ## 2. division over `TInt` (Rust's truncating `/`, `%`) -/

/-- `Point / scalar`, `Point % scalar` are component-wise `tdiv` / `tmod` -/
theorem P1.tdiv_get (p : P1 TInt) (s : TInt) :
    (p / s).x.val = Int.tdiv p.x.val s.val ∧ (P1.rem p s).x.val = Int.tmod p.x.val s.val :=
  ⟨rfl, rfl⟩
theorem P2.tdiv_get (p : P2 TInt) (s : TInt) :
    (p / s).x.val = Int.tdiv p.x.val s.val ∧ (p / s).y.val = Int.tdiv p.y.val s.val ∧
    (P2.rem p s).x.val = Int.tmod p.x.val s.val ∧ (P2.rem p s).y.val = Int.tmod p.y.val s.val :=
  ⟨rfl, rfl, rfl, rfl⟩
theorem P3.tdiv_get (p : P3 TInt) (s : TInt) :
    (p / s).x.val = Int.tdiv p.x.val s.val ∧ (p / s).y.val = Int.tdiv p.y.val s.val ∧
    (p / s).z.val = Int.tdiv p.z.val s.val ∧
    (P3.rem p s).x.val = Int.tmod p.x.val s.val ∧ (P3.rem p s).y.val = Int.tmod p.y.val s.val ∧
    (P3.rem p s).z.val = Int.tmod p.z.val s.val := ⟨rfl, rfl, rfl, rfl, rfl, rfl⟩
/-- scalar on the left, and the element-wise `/`, `%` -/
theorem P3.tsdiv_get (s : TInt) (p q : P3 TInt) :
    s / p = P3.map (fun a => ⟨Int.tdiv s.val a.val⟩) p ∧
    P3.srem s p = P3.map (fun a => ⟨Int.tmod s.val a.val⟩) p ∧
    P3.divEw p q = P3.zip (fun a b => ⟨Int.tdiv a.val b.val⟩) p q ∧
    P3.remEw p q = P3.zip (fun a b => ⟨Int.tmod a.val b.val⟩) p q := ⟨rfl, rfl, rfl, rfl⟩
theorem P2.tsdiv_get (s : TInt) (p q : P2 TInt) :
    s / p = P2.map (fun a => ⟨Int.tdiv s.val a.val⟩) p ∧
    P2.srem s p = P2.map (fun a => ⟨Int.tmod s.val a.val⟩) p ∧
    P2.divEw p q = P2.zip (fun a b => ⟨Int.tdiv a.val b.val⟩) p q ∧
    P2.remEw p q = P2.zip (fun a b => ⟨Int.tmod a.val b.val⟩) p q := ⟨rfl, rfl, rfl, rfl⟩
theorem P1.tsdiv_get (s : TInt) (p q : P1 TInt) :
    s / p = P1.map (fun a => ⟨Int.tdiv s.val a.val⟩) p ∧
    P1.srem s p = P1.map (fun a => ⟨Int.tmod s.val a.val⟩) p ∧
    P1.divEw p q = P1.zip (fun a b => ⟨Int.tdiv a.val b.val⟩) p q ∧
    P1.remEw p q = P1.zip (fun a b => ⟨Int.tmod a.val b.val⟩) p q := ⟨rfl, rfl, rfl, rfl⟩
/-- `p / s * s + p % s = p` (points have no `Point + Point`; the sum is the element-wise one).
Total in the model; in Rust `s = 0` panics. -/
theorem P1.div_mul_add_rem (p : P1 TInt) (s : TInt) : P1.addEw (p / s * s) (P1.rem p s) = p := by
  ext; exact TInt.div_mul_add_rem _ _
theorem P2.div_mul_add_rem (p : P2 TInt) (s : TInt) : P2.addEw (p / s * s) (P2.rem p s) = p := by
  ext <;> exact TInt.div_mul_add_rem _ _
theorem P3.div_mul_add_rem (p : P3 TInt) (s : TInt) : P3.addEw (p / s * s) (P3.rem p s) = p := by
  ext <;> exact TInt.div_mul_add_rem _ _
/-- the rewrite `p / s ↦ p * (1 / s)` is wrong for points as well -/
theorem div_vs_mul_recip_counterexample :
    (⟨6, -9, 12⟩ : P3 TInt) / (3 : TInt) = ⟨2, -3, 4⟩ ∧
    (⟨6, -9, 12⟩ : P3 TInt) * ((1 : TInt) / 3) = ⟨0, 0, 0⟩ := by
  refine ⟨by decide, by decide⟩

/-! ### midpoint -/

/-- `midpoint p q = p + (q - p) / 2` with the truncating division (`one + one` is `2`) -/
theorem P1.midpoint_tInt (p q : P1 TInt) :
    P1.midpoint p q = p + (q - p : V1 TInt) / (2 : TInt) ∧
    (P1.midpoint p q).x.val = p.x.val + Int.tdiv (q.x.val - p.x.val) 2 := ⟨rfl, rfl⟩
theorem P2.midpoint_tInt (p q : P2 TInt) :
    P2.midpoint p q = p + (q - p : V2 TInt) / (2 : TInt) ∧
    (P2.midpoint p q).x.val = p.x.val + Int.tdiv (q.x.val - p.x.val) 2 ∧
    (P2.midpoint p q).y.val = p.y.val + Int.tdiv (q.y.val - p.y.val) 2 := ⟨rfl, rfl, rfl⟩
theorem P3.midpoint_tInt (p q : P3 TInt) :
    P3.midpoint p q = p + (q - p : V3 TInt) / (2 : TInt) ∧
    (P3.midpoint p q).x.val = p.x.val + Int.tdiv (q.x.val - p.x.val) 2 ∧
    (P3.midpoint p q).y.val = p.y.val + Int.tdiv (q.y.val - p.y.val) 2 ∧
    (P3.midpoint p q).z.val = p.z.val + Int.tdiv (q.z.val - p.z.val) 2 := ⟨rfl, rfl, rfl, rfl⟩
/-- concrete values, including negative differences (truncation toward zero = toward `p`) -/
example : P1.midpoint (⟨0⟩ : P1 TInt) ⟨3⟩ = ⟨1⟩ ∧ P1.midpoint (⟨3⟩ : P1 TInt) ⟨0⟩ = ⟨2⟩ ∧
    P1.midpoint (⟨0⟩ : P1 TInt) ⟨-3⟩ = ⟨-1⟩ ∧ P1.midpoint (⟨-3⟩ : P1 TInt) ⟨0⟩ = ⟨-2⟩ ∧
    P1.midpoint (⟨-5⟩ : P1 TInt) ⟨-2⟩ = ⟨-4⟩ ∧ P1.midpoint (⟨-2⟩ : P1 TInt) ⟨-5⟩ = ⟨-3⟩ := by decide
example : P3.midpoint (⟨1, -1, 10⟩ : P3 TInt) ⟨4, -6, 2⟩ = ⟨2, -3, 6⟩ ∧
    P3.midpoint (⟨4, -6, 2⟩ : P3 TInt) ⟨1, -1, 10⟩ = ⟨3, -4, 6⟩ ∧
    P2.midpoint (⟨-7, 7⟩ : P2 TInt) ⟨8, -8⟩ = ⟨0, 0⟩ ∧
    P2.midpoint (⟨8, -8⟩ : P2 TInt) ⟨-7, 7⟩ = ⟨1, -1⟩ := by decide
/-- **integer `midpoint` is not symmetric** (over a field it is: `C12.P3.midpoint_sym`) -/
theorem midpoint_not_symmetric :
    ¬ ∀ p q : P1 TInt, P1.midpoint p q = P1.midpoint q p := fun h =>
  absurd (h ⟨0⟩ ⟨3⟩) (by decide)
/-- and is not equidistant: `m - p = q - m` fails (`p = 0, q = 3`: `m = 1`, `1 ≠ 2`) -/
theorem midpoint_not_equidistant :
    ¬ ∀ p q : P1 TInt, (P1.midpoint p q - p : V1 TInt) = q - P1.midpoint p q := fun h =>
  absurd (h ⟨0⟩ ⟨3⟩) (by decide)
/-- what does hold: the midpoint is never farther from `p` than from `q`, the two distances differ
by at most one, and they are equal iff the difference is even -/
theorem TInt.midpoint_scalar (a b : ℤ) :
    let m := a + Int.tdiv (b - a) 2
    |m - a| ≤ |b - m| ∧ |b - m| ≤ |m - a| + 1 ∧ (m - a = b - m ↔ 2 ∣ b - a) := by
  intro m
  have h := Int.tdiv_mul_add_tmod (b - a) 2
  have h2 : |Int.tmod (b - a) 2| < |(2 : ℤ)| := by
    rw [Int.abs_eq_natAbs, Int.abs_eq_natAbs, Int.natAbs_tmod]
    exact_mod_cast Nat.mod_lt _ (by norm_num)
  have hpos : 0 ≤ b - a → 0 ≤ Int.tmod (b - a) 2 := fun h => Int.tmod_nonneg _ h
  have hneg : b - a ≤ 0 → Int.tmod (b - a) 2 ≤ 0 := fun h => by
    have := Int.tmod_nonneg (a := -(b - a)) 2 (by omega)
    rw [Int.neg_tmod] at this; omega
  have hm : m = a + Int.tdiv (b - a) 2 := rfl
  generalize Int.tdiv (b - a) 2 = t at *
  generalize Int.tmod (b - a) 2 = r at *
  rw [abs_lt] at h2
  norm_num at h2
  refine ⟨?_, ?_, ?_⟩
  · rw [abs_le]; constructor <;> rcases abs_cases (b - m) with ⟨e, _⟩ | ⟨e, _⟩ <;> omega
  · rcases abs_cases (b - m) with ⟨e, _⟩ | ⟨e, _⟩ <;>
      rcases abs_cases (m - a) with ⟨e', _⟩ | ⟨e', _⟩ <;> omega
  · constructor
    · intro e; exact ⟨t, by omega⟩
    · rintro ⟨k, hk⟩; omega
theorem P1.midpoint_closer_to_first (p q : P1 TInt) :
    |((P1.midpoint p q - p : V1 TInt)).x.val| ≤ |((q - P1.midpoint p q : V1 TInt)).x.val| ∧
    |((q - P1.midpoint p q : V1 TInt)).x.val| ≤ |((P1.midpoint p q - p : V1 TInt)).x.val| + 1 ∧
    ((P1.midpoint p q - p : V1 TInt) = q - P1.midpoint p q ↔ 2 ∣ q.x.val - p.x.val) := by
  obtain ⟨h1, h2, h3⟩ := TInt.midpoint_scalar p.x.val q.x.val
  refine ⟨h1, h2, ?_⟩
  rw [← h3]
  constructor
  · intro e; exact congrArg (fun v : V1 TInt => v.x.val) e
  · intro e; ext; exact TInt.val_injective e

/-! ### centroid -/

/-- `val` of a list sum -/
theorem TInt.val_list_sum (l : List TInt) : l.sum.val = (l.map TInt.val).sum := by
  induction l with
  | nil => rfl
  | cons a l ih => simp [ih]
/-- **`centroid` of `n` points divides the component sums by `n`, truncating toward zero.**
(For the empty list the model returns `0 / 0 = 0`; Rust's integer division by zero panics -- C12
quantifies over non-empty lists.) -/
theorem P1.centroid_tInt (ps : List (P1 TInt)) :
    (P1.centroid ps).x.val = Int.tdiv (ps.map (·.x.val)).sum ps.length := by
  have h := (affineLaws_tInt.P1_centroid_sum ps)
  show Int.tdiv (ps.foldl (fun (acc : V1 TInt) (p : P1 TInt) => acc + p.toVec) V1.zero).x.val _ = _
  rw [h, TInt.val_list_sum, List.map_map]; rfl
theorem P2.centroid_tInt (ps : List (P2 TInt)) :
    (P2.centroid ps).x.val = Int.tdiv (ps.map (·.x.val)).sum ps.length ∧
    (P2.centroid ps).y.val = Int.tdiv (ps.map (·.y.val)).sum ps.length := by
  obtain ⟨h1, h2⟩ := (affineLaws_tInt.P2_centroid_sum ps)
  refine ⟨?_, ?_⟩
  · show Int.tdiv (ps.foldl (fun (acc : V2 TInt) (p : P2 TInt) => acc + p.toVec) V2.zero).x.val _ = _
    rw [h1, TInt.val_list_sum, List.map_map]; rfl
  · show Int.tdiv (ps.foldl (fun (acc : V2 TInt) (p : P2 TInt) => acc + p.toVec) V2.zero).y.val _ = _
    rw [h2, TInt.val_list_sum, List.map_map]; rfl
theorem P3.centroid_tInt (ps : List (P3 TInt)) :
    (P3.centroid ps).x.val = Int.tdiv (ps.map (·.x.val)).sum ps.length ∧
    (P3.centroid ps).y.val = Int.tdiv (ps.map (·.y.val)).sum ps.length ∧
    (P3.centroid ps).z.val = Int.tdiv (ps.map (·.z.val)).sum ps.length := by
  obtain ⟨h1, h2, h3⟩ := (affineLaws_tInt.P3_centroid_sum ps)
  refine ⟨?_, ?_, ?_⟩
  · show Int.tdiv (ps.foldl (fun (acc : V3 TInt) (p : P3 TInt) => acc + p.toVec) V3.zero).x.val _ = _
    rw [h1, TInt.val_list_sum, List.map_map]; rfl
  · show Int.tdiv (ps.foldl (fun (acc : V3 TInt) (p : P3 TInt) => acc + p.toVec) V3.zero).y.val _ = _
    rw [h2, TInt.val_list_sum, List.map_map]; rfl
  · show Int.tdiv (ps.foldl (fun (acc : V3 TInt) (p : P3 TInt) => acc + p.toVec) V3.zero).z.val _ = _
    rw [h3, TInt.val_list_sum, List.map_map]; rfl
/-- the doc-test triangle of `EuclideanSpace::centroid`, in integers: `(6, 5) / 3 = (2, 1)`;
mirrored: `(-6, -5) / 3 = (-2, -1)` (truncation toward zero; flooring would give `-2`) -/
example : P2.centroid ([⟨1, 1⟩, ⟨2, 3⟩, ⟨3, 1⟩] : List (P2 TInt)) = ⟨2, 1⟩ ∧
    P2.centroid ([⟨-1, -1⟩, ⟨-2, -3⟩, ⟨-3, -1⟩] : List (P2 TInt)) = ⟨-2, -1⟩ ∧
    P3.centroid ([⟨1, -1, 0⟩, ⟨2, -2, 0⟩, ⟨4, -4, 1⟩, ⟨4, -4, 2⟩] : List (P3 TInt)) = ⟨2, -2, 0⟩ ∧
    P1.centroid ([⟨7⟩] : List (P1 TInt)) = ⟨7⟩ := by decide
/-- the centroid of `n ≥ 1` copies of a point is that point, also with truncating division -/
theorem P3.centroid_replicate_tInt (p : P3 TInt) (n : ℕ) (hn : n ≠ 0) :
    P3.centroid (List.replicate n p) = p := by
  obtain ⟨hx, hy, hz⟩ := P3.centroid_tInt (List.replicate n p)
  have hn' : (n : ℤ) ≠ 0 := by exact_mod_cast hn
  ext <;> apply TInt.val_injective
  · rw [hx]; simp [Int.mul_tdiv_cancel_left _ hn']
  · rw [hy]; simp [Int.mul_tdiv_cancel_left _ hn']
  · rw [hz]; simp [Int.mul_tdiv_cancel_left _ hn']
/-- the integer centroid is **not** translation-invariant (the field one is): shifting the points
of `[0, 1]` by `-1` shifts the centroid `0` to `0`, not to `-1` -/
example : P1.centroid ([⟨0⟩, ⟨1⟩] : List (P1 TInt)) = ⟨0⟩ ∧
    P1.centroid ([⟨-1⟩, ⟨0⟩] : List (P1 TInt)) = ⟨0⟩ := by decide

/-! ### homogeneous coordinates over the integers -/

/-- `from_homogeneous` multiplies by `1 / w`; over the integers `1 / w = 0` unless `w = ±1` -/
theorem P3.fromHomogeneous_tInt (v : V4 TInt) :
    P3.fromHomogeneous v = P3.fromVec (v.truncate * ((1 : TInt) / v.w)) := rfl
/-- the round trip of C12 holds over the integers for `k = 1` and `k = -1` ... -/
theorem P3.homogeneous_roundtrip_tInt (p : P3 TInt) :
    P3.fromHomogeneous (p.toHomogeneous * (1 : TInt)) = p ∧
    P3.fromHomogeneous (p.toHomogeneous * (-1 : TInt)) = p := by
  have e1 : (1 : TInt) / 1 = 1 := by decide
  have e2 : (1 : TInt) / (-1) = -1 := by decide
  constructor
  · ext <;> simp [e1]
  · ext <;> simp [e2]
/-- ... and for every other `k` (`|k| > 1`) it collapses to the origin: the field-level property
`from_homogeneous (k * to_homogeneous p) = p` (`C12.P3.homogeneous_roundtrip`, `k ≠ 0`) is **not**
an integer law -/
theorem P3.homogeneous_collapse_tInt (p : P3 TInt) (k : TInt) (hk : 1 < |k.val|) :
    P3.fromHomogeneous (p.toHomogeneous * k) = P3.origin := by
  have e : (1 : TInt) / k = 0 := TInt.one_div_eq_zero k hk
  ext <;> simp [e]
example : P3.fromHomogeneous ((⟨1, 2, 3⟩ : P3 TInt).toHomogeneous * (2 : TInt)) = ⟨0, 0, 0⟩ := by
  decide

/-! ## 3. sanity evaluations over `TInt` -/

example : (⟨1, 2, 3⟩ : P3 TInt) + (⟨10, -20, 30⟩ : V3 TInt) = ⟨11, -18, 33⟩ ∧
    (⟨1, 2, 3⟩ : P3 TInt) - (⟨10, -20, 30⟩ : V3 TInt) = ⟨-9, 22, -27⟩ ∧
    ((⟨1, 2, 3⟩ : P3 TInt) - (⟨4, 6, 8⟩ : P3 TInt) : V3 TInt) = ⟨-3, -4, -5⟩ ∧
    P3.dot (⟨1, 2, 3⟩ : P3 TInt) ⟨4, 5, 6⟩ = 32 ∧
    P3.distance2 (⟨1, 2, 3⟩ : P3 TInt) ⟨4, 6, 3⟩ = 25 := by decide
/-- `tests/point.rs` style scalar ops, in integers (with a negative component) -/
example : (⟨7, -7⟩ : P2 TInt) * (3 : TInt) = ⟨21, -21⟩ ∧ (⟨7, -7⟩ : P2 TInt) / (2 : TInt) = ⟨3, -3⟩ ∧
    P2.rem (⟨7, -7⟩ : P2 TInt) 2 = ⟨1, -1⟩ ∧ (20 : TInt) / (⟨3, -3⟩ : P2 TInt) = ⟨6, -6⟩ ∧
    P2.srem (20 : TInt) ⟨3, -3⟩ = ⟨2, 2⟩ ∧
    P2.divEw (⟨7, -7⟩ : P2 TInt) ⟨-2, -2⟩ = ⟨-3, 3⟩ ∧
    P2.remEw (⟨7, -7⟩ : P2 TInt) ⟨-2, -2⟩ = ⟨1, -1⟩ := by decide
example : (⟨1, 2, 3⟩ : P3 TInt).toHomogeneous = ⟨1, 2, 3, 1⟩ ∧
    P3.fromHomogeneous (⟨1, 2, 3, 1⟩ : V4 TInt) = ⟨1, 2, 3⟩ ∧
    P3.fromHomogeneous (⟨1, 2, 3, -1⟩ : V4 TInt) = ⟨-1, -2, -3⟩ := by decide

end Cg.C12
