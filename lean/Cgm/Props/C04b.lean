import Cgm.Props.C04
import Cgm.Lemmas.RealInst
/-!
# C04 (continuation b) — the glued inverse law: `q ≠ 0 → q q⁻¹ = q⁻¹ q = 1`

`Props/C04.lean` proves `mul_invert` under `q.magnitude2 ≠ 0` and, separately, that over an ordered
field `q.magnitude2 = 0 ↔ q = 0`.  Here the two are glued: the hypothesis is the property's own
`q ≠ 0` (the zero quaternion is `Quat.zero`).
-/
namespace Cg.C04
open Cg

/-- over an ordered field a non-zero quaternion has non-zero squared magnitude -/
theorem magnitude2_ne_zero {L : Type} [Field L] [LinearOrder L] [IsStrictOrderedRing L]
    (q : Quat L) (hq : q ≠ Quat.zero) : q.magnitude2 ≠ 0 :=
  fun h => hq ((magnitude2_eq_zero_iff q).1 h)

/-- over an ordered field the squared magnitude of a non-zero quaternion is positive -/
theorem magnitude2_pos {L : Type} [Field L] [LinearOrder L] [IsStrictOrderedRing L]
    (q : Quat L) (hq : q ≠ Quat.zero) : 0 < q.magnitude2 := by
  have h0 : 0 ≤ q.magnitude2 := by
    have : q.magnitude2 = q.s * q.s + (q.v.x * q.v.x + (q.v.y * q.v.y + q.v.z * q.v.z)) := by simp
    rw [this]
    nlinarith [mul_self_nonneg q.s, mul_self_nonneg q.v.x, mul_self_nonneg q.v.y,
      mul_self_nonneg q.v.z]
  exact lt_of_le_of_ne h0 (Ne.symm (magnitude2_ne_zero q hq))

/-- **the property's clause**: for `q ≠ 0` (over any linear ordered field) the rotation inverse
`q.invert = q̄ / |q|²` is a two-sided inverse -/
theorem mul_invert_of_ne_zero {L : Type} [Field L] [LinearOrder L] [IsStrictOrderedRing L]
    (q : Quat L) (hq : q ≠ Quat.zero) :
    q * q.invert = Quat.one ∧ q.invert * q = Quat.one :=
  mul_invert q (magnitude2_ne_zero q hq)

/-- the same over the reals -/
theorem mul_invert_of_ne_zero_real (q : Quat ℝ) (hq : q ≠ Quat.zero) :
    q * q.invert = Quat.one ∧ q.invert * q = Quat.one :=
  mul_invert_of_ne_zero q hq

/-- written with components: some component is non-zero -/
theorem mul_invert_of_component_ne_zero {L : Type} [Field L] [LinearOrder L] [IsStrictOrderedRing L]
    (q : Quat L) (hq : q.s ≠ 0 ∨ q.v.x ≠ 0 ∨ q.v.y ≠ 0 ∨ q.v.z ≠ 0) :
    q * q.invert = Quat.one ∧ q.invert * q = Quat.one := by
  apply mul_invert_of_ne_zero
  rintro rfl
  simp [Quat.zero, Quat.fromSv, V3.zero] at hq

/-- the hypothesis is necessary: the zero quaternion has no inverse (`0 * p = 0 ≠ 1`) -/
theorem zero_mul_ne_one {L : Type} [Field L] [LinearOrder L] [IsStrictOrderedRing L]
    (p : Quat L) : (Quat.zero : Quat L) * p ≠ Quat.one := by
  intro h
  have := congrArg Quat.s h
  simp [Quat.zero, Quat.one, Quat.fromSv, V3.zero] at this

/-- non-vacuity: a concrete non-zero, non-unit rational quaternion, its inverse and both products -/
example : (Quat.new 1 2 3 4 : Quat ℚ) ≠ Quat.zero ∧
    (Quat.new 1 2 3 4 : Quat ℚ).invert = Quat.new (1/30) (-2/30) (-3/30) (-4/30) ∧
    (Quat.new 1 2 3 4 : Quat ℚ) * (Quat.new 1 2 3 4 : Quat ℚ).invert = Quat.one ∧
    (Quat.new 1 2 3 4 : Quat ℚ).invert * (Quat.new 1 2 3 4 : Quat ℚ) = Quat.one := by
  have hne : (Quat.new 1 2 3 4 : Quat ℚ) ≠ Quat.zero := by
    intro h
    have := congrArg Quat.s h
    simp [Quat.new, Quat.zero, Quat.fromSv] at this
  refine ⟨hne, ?_, (mul_invert_of_ne_zero _ hne).1, (mul_invert_of_ne_zero _ hne).2⟩
  ext <;> simp [Quat.new] <;> norm_num

/-- the same instance over the reals -/
example : (Quat.new 1 2 3 4 : Quat ℝ) * (Quat.new 1 2 3 4 : Quat ℝ).invert = Quat.one := by
  refine (mul_invert_of_ne_zero_real _ ?_).1
  intro h
  have := congrArg Quat.s h
  simp [Quat.new, Quat.zero, Quat.fromSv] at this

end Cg.C04
