import Cgm.Props.C01
import Cgm.Props.C03b
/-!
# C01b — the integer reading of C01 made explicit

`Cgm/Props/C01.lean` proves the layout, product, constructor and ring laws of `Matrix2/3/4` over
an arbitrary commutative ring.  They are bundled here in `MatLaws K` and instantiated at `ℤ`
("no overflow occurs"), `ZMod (2^n)` (wrapping `n`-bit arithmetic; `n = 8, 16, 32, 64`),
`BitVec w`, `UInt32`/`UInt64` and `TInt` (ℤ with Rust's truncating `/`, `%`, see
`Cgm/Props/C03b.lean`).  The four statements C01 proves over a field because `Matrix4`'s
`transform_point` goes through `Point3::from_homogeneous` (a division by `w`) are re-proved over
`TInt`: for the affine matrices built by `from_scale` / `from_translation` the divisor is `1`.
-/
set_option linter.unusedSectionVars false
namespace Cg.C01
open Cg Matrix

/-- every statement of `Cgm/Props/C01.lean` made over a commutative ring, verbatim -/
structure MatLaws (K : Type) [CommRing K] : Prop where
  M2_new_layout : ∀ (a b c d : K),
    (M2.new a b c d).x = ⟨a, b⟩ ∧ (M2.new a b c d).y = ⟨c, d⟩ ∧ (M2.new a b c d).toList = [a, b, c, d]
  M3_new_layout : ∀ (a b c d e f g h i : K),
    (M3.new a b c d e f g h i).x = ⟨a, b, c⟩ ∧ (M3.new a b c d e f g h i).y = ⟨d, e, f⟩ ∧ (M3.new a b c d e f g h i).z = ⟨g, h, i⟩ ∧ (M3.new a b c d e f g h i).toList = [a, b, c, d, e, f, g, h, i]
  M4_new_layout : ∀ (a b c d e f g h i j k l m n o p : K),
    (M4.new a b c d e f g h i j k l m n o p).x = ⟨a, b, c, d⟩ ∧ (M4.new a b c d e f g h i j k l m n o p).y = ⟨e, f, g, h⟩ ∧ (M4.new a b c d e f g h i j k l m n o p).z = ⟨i, j, k, l⟩ ∧ (M4.new a b c d e f g h i j k l m n o p).w = ⟨m, n, o, p⟩ ∧ (M4.new a b c d e f g h i j k l m n o p).toList = [a, b, c, d, e, f, g, h, i, j, k, l, m, n, o, p]
  M2_get_layout : ∀ (m : M2 K) (c r : Fin 2),
    m.get? c r = m.toList[2 * c.val + r.val]? ∧ m.get? c r = some (m.toMatrix r c)
  M3_get_layout : ∀ (m : M3 K) (c r : Fin 3),
    m.get? c r = m.toList[3 * c.val + r.val]? ∧ m.get? c r = some (m.toMatrix r c)
  M4_get_layout : ∀ (m : M4 K) (c r : Fin 4),
    m.get? c r = m.toList[4 * c.val + r.val]? ∧ m.get? c r = some (m.toMatrix r c)
  M4_get_oob : ∀ (m : M4 K) (c r : Nat) (_h : 4 ≤ c ∨ 4 ≤ r),
    m.get? c r = none
  M2_mulVec_eq_sum_cols : ∀ (m : M2 K) (v : V2 K),
    m * v = m.x * v.x + m.y * v.y
  M3_mulVec_eq_sum_cols : ∀ (m : M3 K) (v : V3 K),
    m * v = m.x * v.x + m.y * v.y + m.z * v.z
  M4_mulVec_eq_sum_cols : ∀ (m : M4 K) (v : V4 K),
    m * v = m.x * v.x + m.y * v.y + m.z * v.z + m.w * v.w
  M2_mul_col : ∀ (a b : M2 K),
    (a * b).x = a * b.x ∧ (a * b).y = a * b.y
  M3_mul_col : ∀ (a b : M3 K),
    (a * b).x = a * b.x ∧ (a * b).y = a * b.y ∧ (a * b).z = a * b.z
  M4_mul_col : ∀ (a b : M4 K),
    (a * b).x = a * b.x ∧ (a * b).y = a * b.y ∧ (a * b).z = a * b.z ∧ (a * b).w = a * b.w
  M2_bridge : ∀ (a b : M2 K) (v : V2 K),
    (a * b).toMatrix = a.toMatrix * b.toMatrix ∧ (a * v).toFun = a.toMatrix *ᵥ v.toFun
  M3_bridge : ∀ (a b : M3 K) (v : V3 K),
    (a * b).toMatrix = a.toMatrix * b.toMatrix ∧ (a * v).toFun = a.toMatrix *ᵥ v.toFun
  M4_bridge : ∀ (a b : M4 K) (v : V4 K),
    (a * b).toMatrix = a.toMatrix * b.toMatrix ∧ (a * v).toFun = a.toMatrix *ᵥ v.toFun
  M2_row_get : ∀ (m : M2 K) (r : Fin 2),
    (m.row? r).map V2.toFun = some (fun c => m.toMatrix r c)
  M3_row_get : ∀ (m : M3 K) (r : Fin 3),
    (m.row? r).map V3.toFun = some (fun c => m.toMatrix r c)
  M4_row_get : ∀ (m : M4 K) (r : Fin 4),
    (m.row? r).map V4.toFun = some (fun c => m.toMatrix r c)
  M4_row_oob : ∀ (m : M4 K) (r : Nat) (_h : 4 ≤ r),
    m.row? r = none
  M2_transpose_get : ∀ (m : M2 K) (i j : Fin 2),
    m.transpose.toMatrix i j = m.toMatrix j i
  M3_transpose_get : ∀ (m : M3 K) (i j : Fin 3),
    m.transpose.toMatrix i j = m.toMatrix j i
  M4_transpose_get : ∀ (m : M4 K) (i j : Fin 4),
    m.transpose.toMatrix i j = m.toMatrix j i
  M2_diagonal_get : ∀ (m : M2 K),
    m.diagonal.toFun = Matrix.diag m.toMatrix
  M3_diagonal_get : ∀ (m : M3 K),
    m.diagonal.toFun = Matrix.diag m.toMatrix
  M4_diagonal_get : ∀ (m : M4 K),
    m.diagonal.toFun = Matrix.diag m.toMatrix
  M2_trace_eq : ∀ (m : M2 K),
    m.trace = m.x.x + m.y.y ∧ m.trace = Matrix.trace m.toMatrix
  M3_trace_eq : ∀ (m : M3 K),
    m.trace = m.x.x + m.y.y + m.z.z ∧ m.trace = Matrix.trace m.toMatrix
  M4_trace_eq : ∀ (m : M4 K),
    m.trace = m.x.x + m.y.y + m.z.z + m.w.w ∧ m.trace = Matrix.trace m.toMatrix
  M2_toM3_spec : ∀ (m : M2 K),
    m.toM3.x = m.x.extend 0 ∧ m.toM3.y = m.y.extend 0 ∧ m.toM3.z = V3.unitZ
  M2_toM4_spec : ∀ (m : M2 K),
    m.toM4.x = (m.x.extend 0).extend 0 ∧ m.toM4.y = (m.y.extend 0).extend 0 ∧ m.toM4.z = V4.unitZ ∧ m.toM4.w = V4.unitW
  M3_toM4_spec : ∀ (m : M3 K),
    m.toM4.x = m.x.extend 0 ∧ m.toM4.y = m.y.extend 0 ∧ m.toM4.z = m.z.extend 0 ∧ m.toM4.w = V4.unitW
  embed_mul : ∀ (a b : M2 K) (c d : M3 K),
    (a * b).toM3 = a.toM3 * b.toM3 ∧ (a * b).toM4 = a.toM4 * b.toM4 ∧ (c * d).toM4 = c.toM4 * d.toM4
  M2_fromValue_spec : ∀ (s : K) (d v : V2 K),
    (M2.fromValue s).toMatrix = Matrix.diagonal (fun _ => s) ∧ (M2.fromDiagonal d).toMatrix = Matrix.diagonal d.toFun ∧ M2.fromValue s * v = v * s ∧ M2.fromDiagonal d * v = V2.mulEw d v ∧ (M2.one : M2 K) * v = v
  M3_fromValue_spec : ∀ (s : K) (d v : V3 K),
    (M3.fromValue s).toMatrix = Matrix.diagonal (fun _ => s) ∧ (M3.fromDiagonal d).toMatrix = Matrix.diagonal d.toFun ∧ M3.fromValue s * v = v * s ∧ M3.fromDiagonal d * v = V3.mulEw d v ∧ (M3.one : M3 K) * v = v
  M4_fromValue_spec : ∀ (s : K) (d v : V4 K),
    (M4.fromValue s).toMatrix = Matrix.diagonal (fun _ => s) ∧ (M4.fromDiagonal d).toMatrix = Matrix.diagonal d.toFun ∧ M4.fromValue s * v = v * s ∧ M4.fromDiagonal d * v = V4.mulEw d v ∧ (M4.one : M4 K) * v = v
  M2_elementwise : ∀ (a b : M2 K) (s : K),
    (a + b).toMatrix = a.toMatrix + b.toMatrix ∧ (a - b).toMatrix = a.toMatrix - b.toMatrix ∧ (-a).toMatrix = -a.toMatrix ∧ (a * s).toMatrix = s • a.toMatrix ∧ (M2.zero : M2 K).toMatrix = 0 ∧ (M2.one : M2 K).toMatrix = 1
  M3_elementwise : ∀ (a b : M3 K) (s : K),
    (a + b).toMatrix = a.toMatrix + b.toMatrix ∧ (a - b).toMatrix = a.toMatrix - b.toMatrix ∧ (-a).toMatrix = -a.toMatrix ∧ (a * s).toMatrix = s • a.toMatrix ∧ (M3.zero : M3 K).toMatrix = 0 ∧ (M3.one : M3 K).toMatrix = 1
  M4_elementwise : ∀ (a b : M4 K) (s : K),
    (a + b).toMatrix = a.toMatrix + b.toMatrix ∧ (a - b).toMatrix = a.toMatrix - b.toMatrix ∧ (-a).toMatrix = -a.toMatrix ∧ (a * s).toMatrix = s • a.toMatrix ∧ (M4.zero : M4 K).toMatrix = 0 ∧ (M4.one : M4 K).toMatrix = 1
  M2_ring_laws : ∀ (a b c : M2 K) (u v : V2 K) (s : K),
    (a * b) * c = a * (b * c) ∧ a * (b + c) = a * b + a * c ∧ (a + b) * c = a * c + b * c ∧ M2.one * a = a ∧ a * M2.one = a ∧ (a * b) * v = a * (b * v) ∧ a * (u + v) = a * u + a * v ∧ a * (v * s) = (a * v) * s
  M3_ring_laws : ∀ (a b c : M3 K) (u v : V3 K) (s : K),
    (a * b) * c = a * (b * c) ∧ a * (b + c) = a * b + a * c ∧ (a + b) * c = a * c + b * c ∧ M3.one * a = a ∧ a * M3.one = a ∧ (a * b) * v = a * (b * v) ∧ a * (u + v) = a * u + a * v ∧ a * (v * s) = (a * v) * s
  M4_ring_laws : ∀ (a b c : M4 K) (u v : V4 K) (s : K),
    (a * b) * c = a * (b * c) ∧ a * (b + c) = a * b + a * c ∧ (a + b) * c = a * c + b * c ∧ M4.one * a = a ∧ a * M4.one = a ∧ (a * b) * v = a * (b * v) ∧ a * (u + v) = a * u + a * v ∧ a * (v * s) = (a * v) * s

theorem matLaws (K : Type) [CommRing K] : MatLaws K where
  M2_new_layout := M2.new_layout
  M3_new_layout := M3.new_layout
  M4_new_layout := M4.new_layout
  M2_get_layout := M2.get_layout
  M3_get_layout := M3.get_layout
  M4_get_layout := M4.get_layout
  M4_get_oob := M4.get_oob
  M2_mulVec_eq_sum_cols := M2.mulVec_eq_sum_cols
  M3_mulVec_eq_sum_cols := M3.mulVec_eq_sum_cols
  M4_mulVec_eq_sum_cols := M4.mulVec_eq_sum_cols
  M2_mul_col := M2.mul_col
  M3_mul_col := M3.mul_col
  M4_mul_col := M4.mul_col
  M2_bridge := M2.bridge
  M3_bridge := M3.bridge
  M4_bridge := M4.bridge
  M2_row_get := M2.row_get
  M3_row_get := M3.row_get
  M4_row_get := M4.row_get
  M4_row_oob := M4.row_oob
  M2_transpose_get := M2.transpose_get
  M3_transpose_get := M3.transpose_get
  M4_transpose_get := M4.transpose_get
  M2_diagonal_get := M2.diagonal_get
  M3_diagonal_get := M3.diagonal_get
  M4_diagonal_get := M4.diagonal_get
  M2_trace_eq := M2.trace_eq
  M3_trace_eq := M3.trace_eq
  M4_trace_eq := M4.trace_eq
  M2_toM3_spec := M2.toM3_spec
  M2_toM4_spec := M2.toM4_spec
  M3_toM4_spec := M3.toM4_spec
  embed_mul := embed_mul
  M2_fromValue_spec := M2.fromValue_spec
  M3_fromValue_spec := M3.fromValue_spec
  M4_fromValue_spec := M4.fromValue_spec
  M2_elementwise := M2.elementwise
  M3_elementwise := M3.elementwise
  M4_elementwise := M4.elementwise
  M2_ring_laws := M2.ring_laws
  M3_ring_laws := M3.ring_laws
  M4_ring_laws := M4.ring_laws

/-- **mathematical integers** ("no overflow occurs") -/
theorem matLaws_int : MatLaws ℤ := matLaws ℤ
/-- **wrapping arithmetic of any width**: `ℤ/2^n` -/
theorem matLaws_wrapping (n : ℕ) : MatLaws (ZMod (2 ^ n)) := matLaws _
theorem matLaws_wrapping8 : MatLaws (ZMod (2 ^ 8)) := matLaws _
theorem matLaws_wrapping16 : MatLaws (ZMod (2 ^ 16)) := matLaws _
/-- `i32` / `u32` release-mode arithmetic -/
theorem matLaws_wrapping32 : MatLaws (ZMod (2 ^ 32)) := matLaws _
theorem matLaws_wrapping64 : MatLaws (ZMod (2 ^ 64)) := matLaws _
theorem matLaws_bitVec (w : ℕ) : MatLaws (BitVec w) := matLaws _
theorem matLaws_uInt32 : open scoped UInt32.CommRing in MatLaws UInt32 :=
  open scoped UInt32.CommRing in matLaws _
theorem matLaws_uInt64 : open scoped UInt64.CommRing in MatLaws UInt64 :=
  open scoped UInt64.CommRing in matLaws _
theorem matLaws_tInt : MatLaws TInt := matLaws _

example (a b c : M4 ℤ) : (a * b) * c = a * (b * c) := (matLaws_int.M4_ring_laws a b c V4.zero V4.zero 0).1
example (a b : M3 (ZMod (2 ^ 32))) : (a * b).x = a * b.x ∧ (a * b).y = a * b.y ∧ (a * b).z = a * b.z :=
  matLaws_wrapping32.M3_mul_col a b
/-- `tests/matrix.rs`-style product, in `TInt` and in wrapping 8-bit arithmetic
(`23, 34, 31, 46` fit; `M2(100,0,0,100)² = 10000 = 16 (mod 256)`) -/
example : (M2.new 1 2 3 4 : M2 TInt) * M2.new 5 6 7 8 = M2.new 23 34 31 46 := by decide
example : (M2.new 100 0 0 100 : M2 (ZMod (2 ^ 8))) * M2.new 100 0 0 100 = M2.new 16 0 0 16 := by
  decide

/-! ## the constructor laws C01 states in its `field` section

Only `Matrix4::transform_point` divides (through `Point3::from_homogeneous`).  Everything else in
that section is a ring law: -/
section ring
variable {K : Type} [CommRing K]
theorem M3.scale_translation_ring (s x y : K) (t : V2 K) (p : P2 K) (v : V2 K) :
    (M3.fromScale s).transformPoint2 p = p * s ∧ (M3.fromScale s).transformVector2 v = v * s ∧
    (M3.fromNonuniformScale x y).transformPoint2 p = P2.mulEw ⟨x, y⟩ p ∧
    (M3.fromNonuniformScale x y).transformVector2 v = V2.mulEw ⟨x, y⟩ v ∧
    (M3.fromTranslation t).transformPoint2 p = p + t ∧ (M3.fromTranslation t).transformVector2 v = v := by
  refine ⟨?_, ?_, ?_, ?_, ?_, ?_⟩ <;> cg_ring
theorem M4.scale_translation_vector_ring (s x y z : K) (t : V3 K) (v : V3 K) :
    (M4.fromScale s).transformVector v = v * s ∧
    (M4.fromNonuniformScale x y z).transformVector v = V3.mulEw ⟨x, y, z⟩ v ∧
    (M4.fromTranslation t).transformVector v = v := by
  refine ⟨?_, ?_, ?_⟩ <;> cg_ring
theorem M4.transformVector_linear_ring (m : M4 K) (u v : V3 K) (s : K) :
    m.transformVector (u + v) = m.transformVector u + m.transformVector v ∧
    m.transformVector (u * s) = m.transformVector u * s := by
  constructor <;> cg_ring
end ring
/-- the point half over `TInt`: the homogeneous coordinate of the image is `1`, and `1 / 1 = 1`
also for the truncating division, so `from_scale` scales and `from_translation` displaces integer
points exactly as over a field -/
theorem M4.scale_translation_tInt (s x y z : TInt) (t : V3 TInt) (p : P3 TInt) :
    (M4.fromScale s).transformPoint p = p * s ∧
    (M4.fromNonuniformScale x y z).transformPoint p = P3.mulEw ⟨x, y, z⟩ p ∧
    (M4.fromTranslation t).transformPoint p = p + t := by
  have e1 : (1 : TInt) / 1 = 1 := by decide
  refine ⟨?_, ?_, ?_⟩ <;> ext <;> simp [e1] <;> ring
/-- a general integer matrix is *not* an affine map on points this way: with `w ≠ ±1` the
perspective division by `w` truncates `1 / w` to `0` -/
example : (M4.fromValue (2 : TInt)).transformPoint ⟨1, 2, 3⟩ = ⟨0, 0, 0⟩ := by decide
example : (M4.fromTranslation (⟨10, -20, 30⟩ : V3 TInt)).transformPoint ⟨1, 2, 3⟩ = ⟨11, -18, 33⟩ ∧
    (M4.fromScale (-3 : TInt)).transformPoint ⟨1, 2, 3⟩ = ⟨-3, -6, -9⟩ := by decide

end Cg.C01
