import Cgm.Lemmas.QuatBridge
import Cgm.Model.Book
import Mathlib.Algebra.BigOperators.Group.List.Basic
/-!
# C17 — every spelling of an operator computes the same value
In the model an operator *is* one function; a call site's form (by value, by reference,
compound assignment) is erased by the semantics.  The content of this property is in the
exhaustive tie to the code (every impl of every operator trait is executed in every form and
compared bit for bit); the theorems record what the model guarantees.
-/
set_option linter.unusedSectionVars false
namespace Cg.C17
open Cg

/-- a straight-line program computes the same registers whichever forms it is written with -/
theorem step_erase {τ : Type} (regs : Nat → τ) (i : Instr τ) : i.step regs = i.erase.step regs := by
  cases i <;> rfl
theorem runProg_erase {τ : Type} (p : List (Instr τ)) (regs : Nat → τ) :
    runProg p regs = runProg (p.map Instr.erase) regs := by
  unfold runProg
  induction p generalizing regs with
  | nil => rfl
  | cons i p ih => simp only [List.foldl_cons, List.map_cons]; rw [step_erase, ih]

variable {R : Type} [CommRing R] {F : Type} [Field F]

/-- `Sum` is the left fold with `+` from `zero()`; component-wise it is the sum of the components -/
theorem V3.sumList_spec (l : List (V3 R)) :
    V3.sumList l = l.foldl (· + ·) V3.zero ∧ (V3.sumList l).x = (l.map (·.x)).sum ∧
    (V3.sumList l).y = (l.map (·.y)).sum ∧ (V3.sumList l).z = (l.map (·.z)).sum := by
  have gen : ∀ (l : List (V3 R)) (a : V3 R),
      (l.foldl (· + ·) a).x = a.x + (l.map (·.x)).sum ∧ (l.foldl (· + ·) a).y = a.y + (l.map (·.y)).sum ∧
      (l.foldl (· + ·) a).z = a.z + (l.map (·.z)).sum := by
    intro l
    induction l with
    | nil => intro a; simp
    | cons v l ih =>
      intro a
      have := ih (a + v)
      simp only [List.foldl_cons, List.map_cons, List.sum_cons]
      refine ⟨by rw [this.1]; simp [add_assoc], by rw [this.2.1]; simp [add_assoc], by rw [this.2.2]; simp [add_assoc]⟩
  obtain ⟨h1, h2, h3⟩ := gen l V3.zero
  refine ⟨rfl, ?_, ?_, ?_⟩
  · show (l.foldl (· + ·) V3.zero).x = _; rw [h1]; simp
  · show (l.foldl (· + ·) V3.zero).y = _; rw [h2]; simp
  · show (l.foldl (· + ·) V3.zero).z = _; rw [h3]; simp
theorem sumList_defs (l2 : List (V2 R)) (l4 : List (V4 R)) (lm : List (M4 R)) (lq : List (Quat R)) :
    V2.sumList l2 = l2.foldl (· + ·) V2.zero ∧ V4.sumList l4 = l4.foldl (· + ·) V4.zero ∧
    M4.sumList lm = lm.foldl (· + ·) M4.zero ∧ Quat.sumList lq = lq.foldl (· + ·) Quat.zero :=
  ⟨rfl, rfl, rfl, rfl⟩
/-- `Product` is the left fold with `*` from `one()` -/
theorem productList_defs (lm3 : List (M3 R)) (lm : List (M4 R)) (lq : List (Quat R)) :
    M3.productList lm3 = lm3.foldl (· * ·) M3.one ∧ M4.productList lm = lm.foldl (· * ·) M4.one ∧
    Quat.productList lq = lq.foldl (· * ·) Quat.one := ⟨rfl, rfl, rfl⟩
/-- folding an appended list continues from the fold of the first part -/
theorem M4.productList_append (l1 l2 : List (M4 R)) :
    M4.productList (l1 ++ l2) = l2.foldl (· * ·) (M4.productList l1) := by
  simp [M4.productList, List.foldl_append]
theorem V3.sumList_append (l1 l2 : List (V3 R)) :
    V3.sumList (l1 ++ l2) = l2.foldl (· + ·) (V3.sumList l1) := by
  simp [V3.sumList, List.foldl_append]

/-- scalar on the left: the primitive operation on each component with the scalar as the
left operand (`impl_scalar_ops!`) -/
theorem left_scalar (s : F) (v : V4 F) (p : P3 F) (m : M2 F) (q : Quat F) :
    s * v = V4.map (s * ·) v ∧ s / v = V4.map (s / ·) v ∧
    s * p = P3.map (s * ·) p ∧ s / p = P3.map (s / ·) p ∧
    s * m = ⟨V2.map (s * ·) m.x, V2.map (s * ·) m.y⟩ ∧ s / m = ⟨V2.map (s / ·) m.x, V2.map (s / ·) m.y⟩ ∧
    s * q = Quat.fromSv (s * q.s) (V3.map (s * ·) q.v) ∧ s / q = Quat.fromSv (s / q.s) (V3.map (s / ·) q.v) :=
  ⟨rfl, rfl, rfl, rfl, rfl, rfl, rfl, rfl⟩
theorem left_scalar_rem [FRem F] (s : F) (v : V4 F) (p : P3 F) :
    V4.srem s v = V4.map (FRem.frem s ·) v ∧ P3.srem s p = P3.map (FRem.frem s ·) p := ⟨rfl, rfl⟩

end Cg.C17
