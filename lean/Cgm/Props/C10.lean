import Cgm.Lemmas.RealInst
import Mathlib.Analysis.SpecialFunctions.Trigonometric.Basic
/-!
# C10 — projections map the view volume onto the clip cube and reject bad parameters

Mapping clauses are over an arbitrary field `F` (the matrices are rational functions of
the parameters; `tan(fovy/2)` enters as the atom `T`).  Rejection clauses are about the
model's `Option` results (`none` = a failed `assert!`), for any ordered scalar with any
`approx` relation.
-/
set_option linter.unusedSectionVars false
namespace Cg.C10
open Cg

attribute [simp] ortho frustumMat perspectiveMat planarMat toPerspective
  Rad.cot Rad.tan Rad.sin Rad.cos Rad.csc Rad.sec

section maps
variable {F : Type} [Field F] [CharZero F] [Transc F] [Lits F] [Approx F] [LT F] [DecidableLT F] [LE F] [DecidableLE F]

/-- the explicit formula of `ortho` on a point: the affine map `x ↦ (2x - (r+l))/(r-l)` etc. (only the formula is stated here;
that it sends the corners of `[l,r]x[b,t]x[-n,-f]` to those of `[-1,1]^3` is `ortho_corners` below) -/
theorem ortho_affine (l r b t n f x y z : F) :
    (ortho l r b t n f).transformPoint ⟨x, y, z⟩ =
      ⟨(2 * x - (r + l)) / (r - l), (2 * y - (t + b)) / (t - b), (-2 * z - (f + n)) / (f - n)⟩ := by
  ext <;> simp <;> ring
theorem ortho_corners (l r b t n f : F) (hx : r - l ≠ 0) (hy : t - b ≠ 0) (hz : f - n ≠ 0) :
    (ortho l r b t n f).transformPoint ⟨l, b, -n⟩ = ⟨-1, -1, -1⟩ ∧
    (ortho l r b t n f).transformPoint ⟨r, t, -f⟩ = ⟨1, 1, 1⟩ ∧
    (ortho l r b t n f).transformPoint ⟨l, t, -n⟩ = ⟨-1, 1, -1⟩ ∧
    (ortho l r b t n f).transformPoint ⟨r, b, -f⟩ = ⟨1, -1, 1⟩ := by
  simp only [ortho_affine]
  refine ⟨?_, ?_, ?_, ?_⟩ <;> (ext <;> simp <;> field_simp <;> ring)

/-- `frustum`: after division by `w = -z`, the near rectangle and its similar far rectangle
go to the `z = -1` and `z = +1` faces -/
theorem frustum_w (l r b t n f x y z : F) :
    ((frustumMat l r b t n f) * (P3.toHomogeneous ⟨x, y, z⟩)).w = -z := by
  simp
theorem frustum_faces (l r b t n f : F) (hx : r - l ≠ 0) (hy : t - b ≠ 0) (hz : f - n ≠ 0)
    (hn : n ≠ 0) (hf : f ≠ 0) :
    (frustumMat l r b t n f).transformPoint ⟨l, b, -n⟩ = ⟨-1, -1, -1⟩ ∧
    (frustumMat l r b t n f).transformPoint ⟨r, t, -n⟩ = ⟨1, 1, -1⟩ ∧
    (frustumMat l r b t n f).transformPoint ⟨l * (f / n), b * (f / n), -f⟩ = ⟨-1, -1, 1⟩ ∧
    (frustumMat l r b t n f).transformPoint ⟨r * (f / n), t * (f / n), -f⟩ = ⟨1, 1, 1⟩ := by
  refine ⟨?_, ?_, ?_, ?_⟩ <;> (ext <;> simp <;> field_simp <;> ring)

/-- `perspective` is `frustum` of the symmetric window of half-height `n tan(fovy/2)` and
half-width `aspect` times that (`T = tan(fovy/2) ≠ 0`) -/
theorem perspective_eq_frustum (fovy aspect n f : F) (hT : Transc.tan (fovy / 2) ≠ 0)
    (ha : aspect ≠ 0) (hn : n ≠ 0) (hnf : n - f ≠ 0) :
    perspectiveMat fovy aspect n f =
      frustumMat (-(n * Transc.tan (fovy / 2) * aspect)) (n * Transc.tan (fovy / 2) * aspect)
                 (-(n * Transc.tan (fovy / 2))) (n * Transc.tan (fovy / 2)) n f ∧
    toPerspective fovy aspect n f =
      [-(n * Transc.tan (fovy / 2) * aspect), n * Transc.tan (fovy / 2) * aspect,
       -(n * Transc.tan (fovy / 2)), n * Transc.tan (fovy / 2), n, f] := by
  have hfn : f - n ≠ 0 := by intro h; apply hnf; linear_combination -h
  constructor
  · ext <;> simp <;> field_simp <;> ring
  · simp

/-- `planar`: the `z = 0` window of height `h` and width `aspect*h` goes to `[-1,1]^2`;
`z = -n` to `-1`, `z = -f` to `+1`; the focal point (where `w = 0`) is at
`z = (h/2) cot(fovy/2)` -/
theorem planar_window (fovy aspect h n f : F) (ha : aspect ≠ 0) (hh : h ≠ 0) :
    let m := planarMat fovy aspect h n f
    (m.transformPoint ⟨aspect * h / 2, h / 2, 0⟩).x = 1 ∧
    (m.transformPoint ⟨aspect * h / 2, h / 2, 0⟩).y = 1 ∧
    (m.transformPoint ⟨-(aspect * h / 2), -(h / 2), 0⟩).x = -1 ∧
    (m.transformPoint ⟨-(aspect * h / 2), -(h / 2), 0⟩).y = -1 := by
  refine ⟨?_, ?_, ?_, ?_⟩ <;> (simp <;> (try field_simp) <;> (try exact ⟨ha, hh⟩) <;> (try exact hh))
theorem planar_depth (fovy aspect h n f x y : F) (hnf : n - f ≠ 0)
    (hkn : planarInvF fovy h * n + 1 ≠ 0) (hkf : planarInvF fovy h * f + 1 ≠ 0) :
    let m := planarMat fovy aspect h n f
    (m.transformPoint ⟨x, y, -n⟩).z = -1 ∧ (m.transformPoint ⟨x, y, -f⟩).z = 1 := by
  have h1 : n * planarInvF fovy h + 1 ≠ 0 := by intro h'; apply hkn; linear_combination h'
  have h2 : f * planarInvF fovy h + 1 ≠ 0 := by intro h'; apply hkf; linear_combination h'
  constructor <;> (simp <;> field_simp <;> ring)
theorem planar_focal (fovy aspect h n f x y : F) (hT : Transc.tan (fovy / 2) ≠ 0) (hh : h ≠ 0) :
    ((planarMat fovy aspect h n f) * (P3.toHomogeneous ⟨x, y, h / 2 * (1 / Transc.tan (fovy / 2))⟩)).w = 0 := by
  simp [planarInvF]; field_simp; ring
end maps

/-! ## rejection: the model returns `none` (panic) exactly when a stated precondition fails -/
section reject
variable {α : Type} [Add α] [Sub α] [Mul α] [Div α] [Neg α] [OfNat α 0] [OfNat α 1] [NatCast α]
  [LT α] [DecidableLT α] [LE α] [DecidableLE α] [Transc α] [Lits α] [Approx α]

theorem frustum_none_iff (l r b t n f : α) :
    frustum l r b t n f = none ↔ ¬ (l ≤ r ∧ b ≤ t ∧ n ≤ f) := by
  unfold frustum; split_ifs <;> simp_all
theorem frustum_some (l r b t n f : α) (h : l ≤ r ∧ b ≤ t ∧ n ≤ f) :
    frustum l r b t n f = some (frustumMat l r b t n f) := by
  unfold frustum; simp [h.1, h.2.1, h.2.2]
theorem perspective_none_iff (fovy aspect n f : α) :
    perspective fovy aspect n f = none ↔
      ¬ (0 < fovy ∧ fovy < Angle.turnDiv (Lits.radFull : α) 2 ∧ absDiffEqD (sabs aspect) (0 : α) = false ∧
         0 < n ∧ 0 < f ∧ absDiffEqD f n = false) := by
  unfold perspective; split_ifs <;> simp_all
theorem perspective_some (fovy aspect n f : α)
    (h : 0 < fovy ∧ fovy < Angle.turnDiv (Lits.radFull : α) 2 ∧ absDiffEqD (sabs aspect) (0 : α) = false ∧
         0 < n ∧ 0 < f ∧ absDiffEqD f n = false) :
    perspective fovy aspect n f = some (perspectiveMat fovy aspect n f) := by
  obtain ⟨h1, h2, h3, h4, h5, h6⟩ := h
  unfold perspective; simp [h1, h2, h3, h4, h5, h6]
theorem planar_none_iff (fovy aspect h n f : α) :
    planar fovy aspect h n f = none ↔
      ¬ (-(Angle.turnDiv (Lits.radFull : α) 2) < fovy ∧ fovy < Angle.turnDiv (Lits.radFull : α) 2 ∧
         0 ≤ h ∧ absDiffEqD (sabs aspect) (0 : α) = false ∧ absDiffEqD f n = false ∧
         ¬ ((¬ Rad.tan (fovy / (two : α)) < 0 ∧ ¬ 0 < Rad.tan (fovy / (two : α))) ∧ ¬ 0 < h) ∧
         (((¬ Rad.tan (fovy / (two : α)) < 0 ∧ ¬ 0 < Rad.tan (fovy / (two : α))) ∧ 0 < h) ∨
          -((1 : α) / planarInvF fovy h) < smin f n ∨ smax f n < -((1 : α) / planarInvF fovy h))) := by
  unfold planar; split_ifs <;> simp_all
theorem planar_some (fovy aspect h n f : α)
    (hh : -(Angle.turnDiv (Lits.radFull : α) 2) < fovy ∧ fovy < Angle.turnDiv (Lits.radFull : α) 2 ∧
         0 ≤ h ∧ absDiffEqD (sabs aspect) (0 : α) = false ∧ absDiffEqD f n = false ∧
         ¬ ((¬ Rad.tan (fovy / (two : α)) < 0 ∧ ¬ 0 < Rad.tan (fovy / (two : α))) ∧ ¬ 0 < h) ∧
         (((¬ Rad.tan (fovy / (two : α)) < 0 ∧ ¬ 0 < Rad.tan (fovy / (two : α))) ∧ 0 < h) ∨
          -((1 : α) / planarInvF fovy h) < smin f n ∨ smax f n < -((1 : α) / planarInvF fovy h))) :
    planar fovy aspect h n f = some (planarMat fovy aspect h n f) := by
  obtain ⟨h1, h2, h3, h4, h5, h6, h7⟩ := hh
  unfold planar; simp only [h1, h2, h3, h4, h5, h6, h7, not_true_eq_false, not_false_eq_true, if_false, if_true, Bool.false_eq_true]
/-- `ortho` never rejects.  TRUE BY CONSTRUCTION of the model: `ortho` is a plain (total) function there, as the Rust `ortho`/`Ortho -> Matrix4` has no assertion; the content is carried by layer T (`t_ortho*` kernels have result `.ok` for every input, with an empty guard list) and by the differential layer on degenerate boxes. -/
theorem ortho_total (l r b t n f : α) : ∃ m, ortho l r b t n f = m := ⟨_, rfl⟩
end reject

/-- over the reals with a half turn `≤ π`: an accepted `fovy` has `tan(fovy/2) > 0`, so
`perspective_eq_frustum` applies to every accepted parameter tuple -/
theorem tan_half_pos (fovy : ℝ) (T : ℝ) (hT : T / 2 ≤ Real.pi) (h0 : 0 < fovy) (h1 : fovy < T / 2) :
    0 < Real.tan (fovy / 2) := by
  apply Real.tan_pos_of_pos_of_lt_pi_div_two <;> linarith

end Cg.C10
