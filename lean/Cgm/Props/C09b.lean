import Cgm.Props.C09
/-!
# C09 (continued) — left-handed / Matrix3 / Basis3 / Decomposed / 2-D look-at specs

All the statements are over `ℝ`.  Non-degeneracy is stated in the natural form
`0 < d.magnitude2` ("non-zero direction") and `0 < (V3.cross d up).magnitude2`
("`up` not parallel to `d`"); `nondeg` converts to the forms used in `Cgm/Props/C09.lean`.
-/
set_option linter.unusedSectionVars false
set_option linter.unusedVariables false
namespace Cg.C09
open Cg Real

/-! ## small helpers -/
theorem magnitude_neg (v : V3 ℝ) : (-v).magnitude = v.magnitude := by
  have : (-v).magnitude2 = v.magnitude2 := by simp
  simp only [V3.magnitude, this]
theorem neg_neg3 (v : V3 ℝ) : - -v = v := by ext <;> simp
theorem neg_psub (a b : P3 ℝ) : -(a - b : V3 ℝ) = b - a := by ext <;> simp
theorem cross_normalize (d up : V3 ℝ) :
    V3.cross d.normalize up = V3.cross d up * (1 / d.magnitude) := by
  ext <;> simp [V3.normalize, V3.normalizeTo] <;> ring
theorem magnitude2_smul (v : V3 ℝ) (a : ℝ) : (v * a).magnitude2 = a * a * v.magnitude2 := by
  simp; ring
theorem cross_swap_mag (a b : V3 ℝ) : (V3.cross a b).magnitude2 = (V3.cross b a).magnitude2 := by
  simp; ring
theorem cross_neg_mag (a b : V3 ℝ) : (V3.cross (-a) b).magnitude2 = (V3.cross a b).magnitude2 := by
  simp; ring

/-- the natural non-degeneracy hypotheses give every form used by the constructors -/
theorem nondeg (d up : V3 ℝ) (hd : 0 < d.magnitude2) (hup : 0 < (V3.cross d up).magnitude2) :
    0 < (V3.cross d.normalize up).magnitude2 ∧ 0 < (V3.cross up d.normalize).magnitude2 ∧
    0 < (-d).magnitude2 ∧ 0 < (V3.cross (-d).normalize up).magnitude2 ∧
    0 < (V3.cross up (-d).normalize).magnitude2 := by
  obtain ⟨_, _, hm⟩ := normalize_unit d hd
  have h1 : 0 < (V3.cross d.normalize up).magnitude2 := by
    rw [cross_normalize, magnitude2_smul]; positivity
  have h3 : (-d).magnitude2 = d.magnitude2 := by simp
  have h4 : (V3.cross (-d).normalize up).magnitude2 = (V3.cross d.normalize up).magnitude2 := by
    rw [normalize_neg, cross_neg_mag]
  refine ⟨h1, ?_, ?_, ?_, ?_⟩
  · rw [cross_swap_mag]; exact h1
  · rw [h3]; exact hd
  · rw [h4]; exact h1
  · rw [cross_swap_mag, h4]; exact h1
/-- `up` not parallel to `d` already forces `d ≠ 0` -/
theorem nonzero_of_cross (d up : V3 ℝ) (hup : 0 < (V3.cross d up).magnitude2) : 0 < d.magnitude2 := by
  have lag := Cg.C03.V3.lagrange d up
  have h1 := (Cg.C11.V3.magnitude_sq d).2
  have h2 := (Cg.C11.V3.magnitude_sq up).2
  rcases h1.lt_or_eq with h | h
  · exact h
  · rw [lag, ← h] at hup; nlinarith [sq_nonneg (V3.dot d up)]

theorem M4.transformVector_neg (m : M4 ℝ) (v : V3 ℝ) :
    m.transformVector (-v) = -(m.transformVector v) := by
  ext <;> simp <;> ring

/-! ## 1. left-handed Matrix4 -/
/-- `Matrix4::look_to_lh(eye, d, up)`: rigid motion (orthonormal rotation part, det `+1`, affine),
`eye ↦ origin`, `d ↦ (0, 0, +|d|)` (the `+z` axis), `up ↦ (0, y ≥ 0, ·)` -/
theorem lookToLh_spec (eye : P3 ℝ) (d up : V3 ℝ) (hd : 0 < d.magnitude2)
    (hup : 0 < (V3.cross d up).magnitude2) :
    let m := M4.lookToLh eye d up
    (upper3 m).transpose * upper3 m = M3.one ∧ (upper3 m).det = 1 ∧ Cg.C08.M4.Affine m ∧
    m.transformPoint eye = P3.origin ∧ m.transformVector d = ⟨0, 0, d.magnitude⟩ ∧
    (m.transformVector up).x = 0 ∧ 0 ≤ (m.transformVector up).y := by
  obtain ⟨_, _, n3, n4, _⟩ := nondeg d up hd hup
  obtain ⟨a1, a2, a3, a4, a5, a6, a7⟩ := lookToRh_spec eye (-d) up n3 n4
  intro m
  have hm : m = M4.lookToRh eye (-d) up := rfl
  rw [hm]
  refine ⟨a1, a2, a3, a4, ?_, a6, a7⟩
  have h := M4.transformVector_neg (M4.lookToRh eye (-d) up) (-d)
  rw [neg_neg3, a5, magnitude_neg] at h
  rw [h]; ext <;> simp

/-- right-handed spec with the natural non-degeneracy hypothesis -/
theorem lookToRh_spec' (eye : P3 ℝ) (d up : V3 ℝ) (hd : 0 < d.magnitude2)
    (hup : 0 < (V3.cross d up).magnitude2) :
    let m := M4.lookToRh eye d up
    (upper3 m).transpose * upper3 m = M3.one ∧ (upper3 m).det = 1 ∧ Cg.C08.M4.Affine m ∧
    m.transformPoint eye = P3.origin ∧ m.transformVector d = ⟨0, 0, -d.magnitude⟩ ∧
    (m.transformVector up).x = 0 ∧ 0 ≤ (m.transformVector up).y :=
  lookToRh_spec eye d up hd (nondeg d up hd hup).1

/-! ## 2. Matrix3 / Basis3 -/
theorem upper3_mulVec (m : M4 ℝ) (v : V3 ℝ) : upper3 m * v = m.transformVector v := by
  show M3.mulVec (upper3 m) v = _
  ext <;> simp [upper3]
theorem M3.mulVec_neg (m : M3 ℝ) (v : V3 ℝ) : m * (-v) = -(m * v) := by
  show M3.mulVec m (-v) = -(M3.mulVec m v)
  ext <;> simp <;> ring

/-- `Matrix3::look_to_lh(d, up)` (also `Matrix3::look_at`, `Basis3::look_at`): a rotation matrix
(orthonormal, det `+1`) with `d ↦ (0, 0, +|d|)` and `up ↦ (0, y ≥ 0, ·)` -/
theorem lookToLh3_spec (d up : V3 ℝ) (hd : 0 < d.magnitude2) (hup : 0 < (V3.cross d up).magnitude2) :
    let m := M3.lookToLh d up
    m.transpose * m = M3.one ∧ m.det = 1 ∧ m * d = ⟨0, 0, d.magnitude⟩ ∧
    (m * up).x = 0 ∧ 0 ≤ (m * up).y := by
  obtain ⟨_, n2, _, _, _⟩ := nondeg d up hd hup
  have hag := m4_m3_agree_lh P3.origin d up hd n2
  obtain ⟨a1, a2, _, _, a5, a6, a7⟩ := lookToLh_spec P3.origin d up hd hup
  intro m
  have hm : m = upper3 (M4.lookToLh P3.origin d up) := hag.symm
  rw [hm]
  refine ⟨a1, a2, ?_, ?_, ?_⟩
  · rw [upper3_mulVec]; exact a5
  · rw [upper3_mulVec]; exact a6
  · rw [upper3_mulVec]; exact a7

/-- `Matrix3::look_to_rh(d, up) = look_to_lh(-d, up)`: a rotation matrix with `d ↦ (0, 0, -|d|)`
and `up ↦ (0, y ≥ 0, ·)` -/
theorem lookToRh3_spec (d up : V3 ℝ) (hd : 0 < d.magnitude2) (hup : 0 < (V3.cross d up).magnitude2) :
    let m := M3.lookToRh d up
    m.transpose * m = M3.one ∧ m.det = 1 ∧ m * d = ⟨0, 0, -d.magnitude⟩ ∧
    (m * up).x = 0 ∧ 0 ≤ (m * up).y := by
  have hd' : 0 < (-d).magnitude2 := (nondeg d up hd hup).2.2.1
  have hup' : 0 < (V3.cross (-d) up).magnitude2 := by rw [cross_neg_mag]; exact hup
  obtain ⟨a1, a2, a3, a4, a5⟩ := lookToLh3_spec (-d) up hd' hup'
  intro m
  have hm : m = M3.lookToLh (-d) up := rfl
  rw [hm]
  refine ⟨a1, a2, ?_, a4, a5⟩
  have h := M3.mulVec_neg (M3.lookToLh (-d) up) (-d)
  rw [neg_neg3, a3, magnitude_neg] at h
  rw [h]; ext <;> simp

/-- right-handed agreement: the rotation part of `Matrix4::look_to_rh` is `Matrix3::look_to_rh`
(although the two constructors orthonormalise differently: `(f × up)`, `s × f` un-normalised
vs `(up × dir)`, `(dir × side)` normalised) -/
theorem m4_m3_agree_rh (eye : P3 ℝ) (d up : V3 ℝ) (hd : 0 < d.magnitude2)
    (hup : 0 < (V3.cross d up).magnitude2) :
    upper3 (M4.lookToRh eye d up) = M3.lookToRh d up := by
  have hd' : 0 < (-d).magnitude2 := (nondeg d up hd hup).2.2.1
  have hup' : 0 < (V3.cross up (-d).normalize).magnitude2 := (nondeg d up hd hup).2.2.2.2
  have h := m4_m3_agree_lh eye (-d) up hd' hup'
  have e : M4.lookToLh eye (-d) up = M4.lookToRh eye d up := by
    show M4.lookToRh eye (- -d) up = _
    rw [neg_neg3]
  rw [e] at h
  exact h
/-- left-handed agreement with the natural hypotheses -/
theorem m4_m3_agree_lh' (eye : P3 ℝ) (d up : V3 ℝ) (hd : 0 < d.magnitude2)
    (hup : 0 < (V3.cross d up).magnitude2) :
    upper3 (M4.lookToLh eye d up) = M3.lookToLh d up :=
  m4_m3_agree_lh eye d up hd (nondeg d up hd hup).2.1

/-- `Basis3::look_at(d, up)` (`Rotation::look_at`, the left-handed one): its matrix is a rotation
matrix and `rotate_vector` sends `d ↦ (0, 0, +|d|)`, `up ↦ (0, y ≥ 0, ·)` -/
theorem basis3_lookAt_spec (d up : V3 ℝ) (hd : 0 < d.magnitude2) (hup : 0 < (V3.cross d up).magnitude2) :
    let b := Basis3.lookAt d up
    b.mat.transpose * b.mat = M3.one ∧ b.mat.det = 1 ∧ b.rotateVector d = ⟨0, 0, d.magnitude⟩ ∧
    (b.rotateVector up).x = 0 ∧ 0 ≤ (b.rotateVector up).y :=
  lookToLh3_spec d up hd hup

/-! ## 3. `look_at_*` = `look_to_*` at `center - eye` -/
theorem M4.transformPoint_add (m : M4 ℝ) (hm : Cg.C08.M4.Affine m) (p : P3 ℝ) (v : V3 ℝ) :
    m.transformPoint (p + v) = m.transformPoint p + m.transformVector v := by
  obtain ⟨h1, h2, h3, h4⟩ := hm
  ext <;> simp [h1, h2, h3, h4] <;> ring
theorem eye_add_sub (eye center : P3 ℝ) : eye + (center - eye : V3 ℝ) = center := by
  ext <;> simp

/-- `Matrix4::look_at_rh(eye, center, up)` (also the deprecated `Matrix4::look_at` and
`Transform::look_at / look_at_rh`): rigid, `eye ↦ origin`, the target `center` lands on the `-z`
axis at distance `|center - eye|`, `up ↦ (0, y ≥ 0, ·)` -/
theorem lookAtRh_spec (eye center : P3 ℝ) (up : V3 ℝ) (hd : 0 < (center - eye : V3 ℝ).magnitude2)
    (hup : 0 < (V3.cross (center - eye) up).magnitude2) :
    let m := M4.lookAtRh eye center up
    (upper3 m).transpose * upper3 m = M3.one ∧ (upper3 m).det = 1 ∧ Cg.C08.M4.Affine m ∧
    m.transformPoint eye = P3.origin ∧
    m.transformVector (center - eye) = ⟨0, 0, -(center - eye : V3 ℝ).magnitude⟩ ∧
    m.transformPoint center = ⟨0, 0, -(center - eye : V3 ℝ).magnitude⟩ ∧
    (m.transformVector up).x = 0 ∧ 0 ≤ (m.transformVector up).y := by
  obtain ⟨a1, a2, a3, a4, a5, a6, a7⟩ := lookToRh_spec' eye (center - eye) up hd hup
  intro m
  have hm : m = M4.lookToRh eye (center - eye) up := rfl
  rw [hm]
  refine ⟨a1, a2, a3, a4, a5, ?_, a6, a7⟩
  have h := M4.transformPoint_add _ a3 eye (center - eye)
  rw [eye_add_sub, a4, a5] at h
  rw [h]; ext <;> simp
/-- `Matrix4::look_at_lh(eye, center, up)`: the same with the target on the `+z` axis -/
theorem lookAtLh_spec (eye center : P3 ℝ) (up : V3 ℝ) (hd : 0 < (center - eye : V3 ℝ).magnitude2)
    (hup : 0 < (V3.cross (center - eye) up).magnitude2) :
    let m := M4.lookAtLh eye center up
    (upper3 m).transpose * upper3 m = M3.one ∧ (upper3 m).det = 1 ∧ Cg.C08.M4.Affine m ∧
    m.transformPoint eye = P3.origin ∧
    m.transformVector (center - eye) = ⟨0, 0, (center - eye : V3 ℝ).magnitude⟩ ∧
    m.transformPoint center = ⟨0, 0, (center - eye : V3 ℝ).magnitude⟩ ∧
    (m.transformVector up).x = 0 ∧ 0 ≤ (m.transformVector up).y := by
  obtain ⟨a1, a2, a3, a4, a5, a6, a7⟩ := lookToLh_spec eye (center - eye) up hd hup
  intro m
  have hm : m = M4.lookToLh eye (center - eye) up := rfl
  rw [hm]
  refine ⟨a1, a2, a3, a4, a5, ?_, a6, a7⟩
  have h := M4.transformPoint_add _ a3 eye (center - eye)
  rw [eye_add_sub, a4, a5] at h
  rw [h]; ext <;> simp
/-- `Transform<Point3> for Matrix3`: `look_at`, `look_at_lh` (`+z`) and `look_at_rh` (`-z`) -/
theorem lookAt3_spec (eye center : P3 ℝ) (up : V3 ℝ) (hd : 0 < (center - eye : V3 ℝ).magnitude2)
    (hup : 0 < (V3.cross (center - eye) up).magnitude2) :
    (let m := M3.lookAtLh eye center up
     m.transpose * m = M3.one ∧ m.det = 1 ∧
     m * (center - eye : V3 ℝ) = ⟨0, 0, (center - eye : V3 ℝ).magnitude⟩ ∧
     (m * up).x = 0 ∧ 0 ≤ (m * up).y) ∧
    (let m := M3.lookAtRh eye center up
     m.transpose * m = M3.one ∧ m.det = 1 ∧
     m * (center - eye : V3 ℝ) = ⟨0, 0, -(center - eye : V3 ℝ).magnitude⟩ ∧
     (m * up).x = 0 ∧ 0 ≤ (m * up).y) :=
  ⟨lookToLh3_spec (center - eye) up hd hup, lookToRh3_spec (center - eye) up hd hup⟩

/-! ## 4. `Decomposed<Vector3, Basis3>::look_at*`

Rust (`src/transform.rs`): `look_at(eye, center, up)` and `look_at_lh(eye, center, up)` are
`rot = R::look_at(center - eye, up); disp = rot.rotate_vector(origin - eye); scale = 1`, i.e.
`Decomposed.lookAtDir ρ (center - eye) up V3.zero eye.toVec`; `look_at_rh(eye, center, up)` is
the same with `R::look_at(eye - center, up)`, i.e. `Decomposed.lookAtDir ρ (eye - center) up V3.zero
eye.toVec` (exactly the `decOps!` entries "look_at", "look_at_lh", "look_at_rh").
Note that `Decomposed::look_at` is *left*-handed whereas `Matrix4::look_at` is *right*-handed. -/

/-- what `From<Decomposed> for Matrix4` builds from a rotation matrix `m` (scale 1) and the
displacement `m * (origin - eye)` -/
def assemble (m : M3 ℝ) (eye : P3 ℝ) : M4 ℝ :=
  { (m * (1 : ℝ)).toM4 with w := (m * (V3.zero - eye.toVec)).extend 1 }

theorem viewRh_assemble (eye : P3 ℝ) (f s : V3 ℝ) :
    viewRh eye f s = assemble (upper3 (viewRh eye f s)) eye := by
  ext <;> simp [viewRh, upper3, assemble] <;> ring
theorem lookToRh_assemble (eye : P3 ℝ) (d up : V3 ℝ) :
    M4.lookToRh eye d up = assemble (upper3 (M4.lookToRh eye d up)) eye :=
  viewRh_assemble eye d.normalize (V3.cross d.normalize up).normalize
theorem decomposed_toM4_eq (d up : V3 ℝ) (eye : P3 ℝ) :
    Decomposed.toM4 basis3Ops
      (Decomposed.lookAtDir basis3Ops d up V3.zero eye.toVec : Decomposed (Basis3 ℝ) (V3 ℝ) ℝ)
      = assemble (M3.lookToLh d up) eye := rfl

/-- `Decomposed::<_, Basis3>::look_at_lh(eye, center, up)` (and `Decomposed::look_at`): unit scale,
rotation `Matrix3::look_to_lh(center - eye, up)`, the eye goes to the origin, and the conversion
to `Matrix4` is `Matrix4::look_at_lh(eye, center, up)`; consequently it maps every point and
vector like that matrix -/
theorem decomposed_lookAtLh (eye center : P3 ℝ) (up : V3 ℝ)
    (hd : 0 < (center - eye : V3 ℝ).magnitude2)
    (hup : 0 < (V3.cross (center - eye) up).magnitude2) :
    let t : Decomposed (Basis3 ℝ) (V3 ℝ) ℝ :=
      Decomposed.lookAtDir basis3Ops (center - eye) up V3.zero eye.toVec
    t.scale = 1 ∧ t.rot.mat = M3.lookToLh (center - eye) up ∧
    t.transformPointV basis3Ops eye.toVec = V3.zero ∧
    Decomposed.toM4 basis3Ops t = M4.lookAtLh eye center up ∧
    t.transformPointV basis3Ops center.toVec = ⟨0, 0, (center - eye : V3 ℝ).magnitude⟩ := by
  intro t
  have hrot : t.rot.mat = M3.lookToLh (center - eye) up := rfl
  have hag := m4_m3_agree_lh' eye (center - eye) up hd hup
  have hpt : ∀ p : V3 ℝ, t.transformPointV basis3Ops p = M3.lookToLh (center - eye) up * (p - eye.toVec) :=
    fun p => (rotation_lookAt (center - eye) up eye.toVec p).2.2
  refine ⟨rfl, hrot, ?_, ?_, ?_⟩
  · rw [hpt]
    show M3.mulVec _ _ = _
    ext <;> simp
  · have h1 : Decomposed.toM4 basis3Ops t = assemble (M3.lookToLh (center - eye) up) eye := rfl
    have h2 : M4.lookAtLh eye center up
        = assemble (upper3 (M4.lookToLh eye (center - eye) up)) eye :=
      lookToRh_assemble eye (-(center - eye : V3 ℝ)) up
    rw [h1, h2, hag]
  · rw [hpt]
    have e : center.toVec - eye.toVec = (center - eye : V3 ℝ) := by ext <;> simp
    rw [e]
    exact (lookToLh3_spec (center - eye) up hd hup).2.2.1

/-- `Decomposed::<_, Basis3>::look_at_rh(eye, center, up)` (rotation `R::look_at(eye - center, up)`):
unit scale, rotation `Matrix3::look_to_rh(center - eye, up)`, the eye goes to the origin, the
conversion to `Matrix4` is `Matrix4::look_at_rh(eye, center, up)`, the target lands on `-z` -/
theorem decomposed_lookAtRh (eye center : P3 ℝ) (up : V3 ℝ)
    (hd : 0 < (center - eye : V3 ℝ).magnitude2)
    (hup : 0 < (V3.cross (center - eye) up).magnitude2) :
    let t : Decomposed (Basis3 ℝ) (V3 ℝ) ℝ :=
      Decomposed.lookAtDir basis3Ops (eye - center) up V3.zero eye.toVec
    t.scale = 1 ∧ t.rot.mat = M3.lookToRh (center - eye) up ∧
    t.transformPointV basis3Ops eye.toVec = V3.zero ∧
    Decomposed.toM4 basis3Ops t = M4.lookAtRh eye center up ∧
    t.transformPointV basis3Ops center.toVec = ⟨0, 0, -(center - eye : V3 ℝ).magnitude⟩ := by
  intro t
  have hdir : (eye - center : V3 ℝ) = -(center - eye : V3 ℝ) := (neg_psub center eye).symm
  have h1' : M3.lookToLh (eye - center) up = M3.lookToRh (center - eye) up := by
    show _ = M3.lookToLh (-(center - eye : V3 ℝ)) up
    rw [hdir]
  have hrot : t.rot.mat = M3.lookToRh (center - eye) up := h1'
  have hag := m4_m3_agree_rh eye (center - eye) up hd hup
  have hpt : ∀ p : V3 ℝ, t.transformPointV basis3Ops p = M3.lookToRh (center - eye) up * (p - eye.toVec) := by
    intro p
    have := (rotation_lookAt (eye - center) up eye.toVec p).2.2
    rw [this, h1']
  refine ⟨rfl, hrot, ?_, ?_, ?_⟩
  · rw [hpt]
    show M3.mulVec _ _ = _
    ext <;> simp
  · have h1 : Decomposed.toM4 basis3Ops t = assemble (M3.lookToLh (eye - center) up) eye := rfl
    have h2 : M4.lookAtRh eye center up
        = assemble (upper3 (M4.lookToRh eye (center - eye) up)) eye :=
      lookToRh_assemble eye (center - eye : V3 ℝ) up
    rw [h1, h1', h2, hag]
  · rw [hpt]
    have e : center.toVec - eye.toVec = (center - eye : V3 ℝ) := by ext <;> simp
    rw [e]
    exact (lookToRh3_spec (center - eye) up hd hup).2.2.1

/-! ## 5. 2-D: `Matrix2::look_at` is a rotation or a *reflection* -/
theorem orth2 (b : V2 ℝ) (h : b.x * b.x + b.y * b.y = 1) :
    (⟨b, ⟨-b.y, b.x⟩⟩ : M2 ℝ).transpose * (⟨b, ⟨-b.y, b.x⟩⟩ : M2 ℝ) = M2.one ∧
    (⟨b, ⟨-b.y, b.x⟩⟩ : M2 ℝ).det = 1 ∧
    (⟨b, ⟨b.y, -b.x⟩⟩ : M2 ℝ).transpose * (⟨b, ⟨b.y, -b.x⟩⟩ : M2 ℝ) = M2.one ∧
    (⟨b, ⟨b.y, -b.x⟩⟩ : M2 ℝ).det = -1 := by
  obtain ⟨x, y⟩ := b
  simp only at h
  refine ⟨?_, ?_, ?_, ?_⟩
  · show M2.mul _ _ = _
    ext <;> simp <;> linarith
  · simp; linarith
  · show M2.mul _ _ = _
    ext <;> simp <;> linarith
  · simp; linarith
/-- `look_at_stable(d, flip)`: orthonormal columns; determinant `-1` when `flip`, `+1` otherwise -/
theorem lookAtStable_det (d : V2 ℝ) (flip : Bool) (hd : 0 < d.magnitude2) :
    (M2.lookAtStable d flip).transpose * M2.lookAtStable d flip = M2.one ∧
    (M2.lookAtStable d flip).det = if flip then -1 else 1 := by
  obtain ⟨n1, _, _⟩ := normalize_unit2 d hd
  have n1' : d.normalize.x * d.normalize.x + d.normalize.y * d.normalize.y = 1 := by simpa using n1
  cases flip
  · have e : M2.lookAtStable d false = ⟨d.normalize, ⟨-d.normalize.y, d.normalize.x⟩⟩ := rfl
    rw [e]
    exact ⟨(orth2 d.normalize n1').1, (orth2 d.normalize n1').2.1⟩
  · have e : M2.lookAtStable d true = ⟨d.normalize, ⟨d.normalize.y, -d.normalize.x⟩⟩ := rfl
    rw [e]
    exact ⟨(orth2 d.normalize n1').2.2.1, (orth2 d.normalize n1').2.2.2⟩
/-- `Matrix2::look_at(d, up)` / `Basis2::look_at`: an orthogonal matrix whose determinant is `-1`
(a reflection, not a rotation) exactly when `up.y * d.x ≤ up.x * d.y`, i.e. when `up` is
clockwise from (or collinear with) `d`, and `+1` otherwise -/
theorem lookAt2_det (d up : V2 ℝ) (hd : 0 < d.magnitude2) :
    (M2.lookAt d up).transpose * M2.lookAt d up = M2.one ∧
    (M2.lookAt d up).det = (if up.y * d.x ≤ up.x * d.y then -1 else 1) ∧
    ((M2.lookAt d up).det = 1 ∨ (M2.lookAt d up).det = -1) ∧
    (Basis2.lookAt d up).mat = M2.lookAt d up := by
  obtain ⟨h1, h2⟩ := lookAtStable_det d (decide (up.y * d.x ≤ up.x * d.y)) hd
  have e : M2.lookAt d up = M2.lookAtStable d (decide (up.y * d.x ≤ up.x * d.y)) := rfl
  rw [e]
  have h2' : (M2.lookAtStable d (decide (up.y * d.x ≤ up.x * d.y))).det
      = if up.y * d.x ≤ up.x * d.y then -1 else 1 := by
    rw [h2]; by_cases h : up.y * d.x ≤ up.x * d.y <;> simp [h]
  refine ⟨h1, h2', ?_, rfl⟩
  rw [h2']; by_cases h : up.y * d.x ≤ up.x * d.y <;> simp [h]

/-! ## non-vacuity: the hypotheses are satisfiable, and the 2-D reflection case really occurs -/
example : 0 < (⟨1, 2, 2⟩ : V3 ℝ).magnitude2 ∧ 0 < (V3.cross ⟨1, 2, 2⟩ ⟨0, 1, 0⟩ : V3 ℝ).magnitude2 := by
  constructor <;> (simp; norm_num)
example : 0 < ((⟨4, 6, 7⟩ : P3 ℝ) - (⟨3, 4, 5⟩ : P3 ℝ) : V3 ℝ).magnitude2 ∧
    0 < (V3.cross ((⟨4, 6, 7⟩ : P3 ℝ) - (⟨3, 4, 5⟩ : P3 ℝ)) ⟨0, 1, 0⟩ : V3 ℝ).magnitude2 := by
  constructor <;> (simp; norm_num)
/-- `up` clockwise from `d`: `Matrix2::look_at` returns a reflection (det `-1`) -/
example : (M2.lookAt (⟨1, 0⟩ : V2 ℝ) ⟨0, -1⟩).det = -1 := by
  have h := (lookAt2_det (⟨1, 0⟩ : V2 ℝ) ⟨0, -1⟩ (by simp)).2.1
  rw [h]; norm_num
/-- `up` counter-clockwise from `d`: a rotation (det `+1`) -/
example : (M2.lookAt (⟨1, 0⟩ : V2 ℝ) ⟨0, 1⟩).det = 1 := by
  have h := (lookAt2_det (⟨1, 0⟩ : V2 ℝ) ⟨0, 1⟩ (by simp)).2.1
  rw [h]; norm_num

end Cg.C09
