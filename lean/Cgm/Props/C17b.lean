import Cgm.Props.C17
import Mathlib.Tactic.NormNum
/-!
# C17 (continued) — content beyond the erasure of the call-site forms

The theorems of C17.lean are definitional (an operator *is* one function in the model).  Here:

* (a) `Sum` is the left fold with `+` from `zero()` and -- `+` being commutative and associative
  on every compound type over a commutative ring -- does not depend on the order of the iterator;
  `Product` is the left fold with `*` from `one()` and **does** depend on the order for matrices
  and quaternions (counterexamples over `ℚ`), while the *nesting* (left fold vs right fold) is
  immaterial in exact arithmetic: only the operand order matters, which is why the impls must be
  the left fold and nothing else;
* (b) scalar on the left: `s * v`, `s / v`, `s % v` apply the primitive operation per component
  with the scalar as the **left** operand; `s * v = v * s` over a commutative ring, but
  `s / v ≠ v / s` and `s % v ≠ v % s` in general (counterexamples);
* (c) straight-line programs: evaluation is compositional, has the frame property, and two
  programs that differ only in the forms of their operands compute the same registers.
-/
set_option linter.unusedSectionVars false
set_option linter.unusedVariables false
namespace Cg.C17
open Cg

variable {R : Type} [CommRing R] {F : Type} [Field F]

/-! ## (a) folds -/

/-- a left fold with a right-commutative operation does not depend on the order of the list -/
theorem foldl_perm {T : Type} (op : T → T → T) (hc : ∀ a b c : T, op (op a b) c = op (op a c) b)
    {l l' : List T} (h : l.Perm l') : ∀ z : T, l.foldl op z = l'.foldl op z := by
  induction h with
  | nil => intro z; rfl
  | cons x _ ih => intro z; simp only [List.foldl_cons]; exact ih _
  | swap x y l => intro z; simp only [List.foldl_cons]; rw [hc]
  | trans _ _ ih1 ih2 => intro z; rw [ih1, ih2]

theorem V1.add_right_comm (a b c : V1 R) : a + b + c = a + c + b := by cg_ring
theorem V2.add_right_comm (a b c : V2 R) : a + b + c = a + c + b := by cg_ring
theorem V3.add_right_comm (a b c : V3 R) : a + b + c = a + c + b := by cg_ring
theorem V4.add_right_comm (a b c : V4 R) : a + b + c = a + c + b := by cg_ring
theorem M2.add_right_comm (a b c : M2 R) : a + b + c = a + c + b := by cg_ring
theorem M3.add_right_comm (a b c : M3 R) : a + b + c = a + c + b := by cg_ring
theorem M4.add_right_comm (a b c : M4 R) : a + b + c = a + c + b := by cg_ring
theorem Quat.add_right_comm (a b c : Quat R) : a + b + c = a + c + b := by
  ext <;> simp [Quat.fromSv] <;> ring

/-- **`Sum` over an iterator does not depend on the order of the items** (exact arithmetic):
vectors, matrices, quaternions -/
theorem sumList_perm :
    (∀ l l' : List (V1 R), l.Perm l' → V1.sumList l = V1.sumList l') ∧
    (∀ l l' : List (V2 R), l.Perm l' → V2.sumList l = V2.sumList l') ∧
    (∀ l l' : List (V3 R), l.Perm l' → V3.sumList l = V3.sumList l') ∧
    (∀ l l' : List (V4 R), l.Perm l' → V4.sumList l = V4.sumList l') ∧
    (∀ l l' : List (M2 R), l.Perm l' → M2.sumList l = M2.sumList l') ∧
    (∀ l l' : List (M3 R), l.Perm l' → M3.sumList l = M3.sumList l') ∧
    (∀ l l' : List (M4 R), l.Perm l' → M4.sumList l = M4.sumList l') ∧
    (∀ l l' : List (Quat R), l.Perm l' → Quat.sumList l = Quat.sumList l') :=
  ⟨fun _ _ h => foldl_perm _ V1.add_right_comm h _, fun _ _ h => foldl_perm _ V2.add_right_comm h _,
   fun _ _ h => foldl_perm _ V3.add_right_comm h _, fun _ _ h => foldl_perm _ V4.add_right_comm h _,
   fun _ _ h => foldl_perm _ M2.add_right_comm h _, fun _ _ h => foldl_perm _ M3.add_right_comm h _,
   fun _ _ h => foldl_perm _ M4.add_right_comm h _, fun _ _ h => foldl_perm _ Quat.add_right_comm h _⟩
/-- in particular summing the reversed iterator gives the same vector -/
theorem V3.sumList_reverse (l : List (V3 R)) : V3.sumList l.reverse = V3.sumList l :=
  sumList_perm.2.2.1 _ _ (List.reverse_perm l)

/-- the remaining `Sum`/`Product` impls are left folds too (definitions of the model) -/
theorem more_fold_defs (l1 : List (V1 R)) (m2 : List (M2 R)) (m3 : List (M3 R)) :
    V1.sumList l1 = l1.foldl (· + ·) V1.zero ∧ M2.sumList m2 = m2.foldl (· + ·) M2.zero ∧
    M3.sumList m3 = m3.foldl (· + ·) M3.zero ∧ M2.productList m2 = m2.foldl (· * ·) M2.one :=
  ⟨rfl, rfl, rfl, rfl⟩

/-- **`Product` of matrices depends on the order**: a two-element iterator and its reverse -/
theorem M2.productList_order :
    M2.productList [(⟨⟨1, 0⟩, ⟨1, 1⟩⟩ : M2 ℚ), ⟨⟨1, 1⟩, ⟨0, 1⟩⟩].reverse ≠
      M2.productList [(⟨⟨1, 0⟩, ⟨1, 1⟩⟩ : M2 ℚ), ⟨⟨1, 1⟩, ⟨0, 1⟩⟩] := by
  intro h
  have := congrArg (fun m => m.x.x) h
  norm_num [M2.productList] at this
theorem M3.productList_order :
    M3.productList [(⟨⟨1, 0, 0⟩, ⟨1, 1, 0⟩, ⟨0, 0, 1⟩⟩ : M3 ℚ), ⟨⟨1, 1, 0⟩, ⟨0, 1, 0⟩, ⟨0, 0, 1⟩⟩].reverse ≠
      M3.productList [(⟨⟨1, 0, 0⟩, ⟨1, 1, 0⟩, ⟨0, 0, 1⟩⟩ : M3 ℚ), ⟨⟨1, 1, 0⟩, ⟨0, 1, 0⟩, ⟨0, 0, 1⟩⟩] := by
  intro h
  have := congrArg (fun m => m.x.x) h
  norm_num [M3.productList] at this
theorem M4.productList_order :
    M4.productList [(⟨⟨1, 0, 0, 0⟩, ⟨1, 1, 0, 0⟩, ⟨0, 0, 1, 0⟩, ⟨0, 0, 0, 1⟩⟩ : M4 ℚ),
        ⟨⟨1, 1, 0, 0⟩, ⟨0, 1, 0, 0⟩, ⟨0, 0, 1, 0⟩, ⟨0, 0, 0, 1⟩⟩].reverse ≠
      M4.productList [(⟨⟨1, 0, 0, 0⟩, ⟨1, 1, 0, 0⟩, ⟨0, 0, 1, 0⟩, ⟨0, 0, 0, 1⟩⟩ : M4 ℚ),
        ⟨⟨1, 1, 0, 0⟩, ⟨0, 1, 0, 0⟩, ⟨0, 0, 1, 0⟩, ⟨0, 0, 0, 1⟩⟩] := by
  intro h
  have := congrArg (fun m => m.x.x) h
  norm_num [M4.productList] at this
/-- **`Product` of quaternions depends on the order**: `i * j = k` but `j * i = -k` -/
theorem Quat.productList_order :
    Quat.productList [(⟨⟨1, 0, 0⟩, 0⟩ : Quat ℚ), ⟨⟨0, 1, 0⟩, 0⟩] = ⟨⟨0, 0, 1⟩, 0⟩ ∧
    Quat.productList [(⟨⟨1, 0, 0⟩, 0⟩ : Quat ℚ), ⟨⟨0, 1, 0⟩, 0⟩].reverse = ⟨⟨0, 0, -1⟩, 0⟩ ∧
    Quat.productList [(⟨⟨1, 0, 0⟩, 0⟩ : Quat ℚ), ⟨⟨0, 1, 0⟩, 0⟩].reverse ≠
      Quat.productList [(⟨⟨1, 0, 0⟩, 0⟩ : Quat ℚ), ⟨⟨0, 1, 0⟩, 0⟩] := by
  have e1 : Quat.productList [(⟨⟨1, 0, 0⟩, 0⟩ : Quat ℚ), ⟨⟨0, 1, 0⟩, 0⟩] = ⟨⟨0, 0, 1⟩, 0⟩ := by
    ext <;> norm_num [Quat.productList, Quat.mul, Quat.one, Quat.new, Quat.fromSv]
  have e2 : Quat.productList [(⟨⟨1, 0, 0⟩, 0⟩ : Quat ℚ), ⟨⟨0, 1, 0⟩, 0⟩].reverse = ⟨⟨0, 0, -1⟩, 0⟩ := by
    ext <;> norm_num [Quat.productList, Quat.mul, Quat.one, Quat.new, Quat.fromSv]
  refine ⟨e1, e2, ?_⟩
  rw [e1, e2]
  intro h
  have := congrArg (fun q => q.v.z) h
  norm_num at this

/-- in a monoid the left fold from the unit is the right fold: the *nesting* is immaterial -/
theorem foldl_eq_foldr_of_monoid {T : Type} (op : T → T → T) (e : T)
    (assoc : ∀ a b c, op (op a b) c = op a (op b c)) (one_l : ∀ a, op e a = a) (one_r : ∀ a, op a e = a)
    (l : List T) : l.foldl op e = l.foldr op e := by
  have shift : ∀ (l : List T) (a b : T), l.foldl op (op a b) = op a (l.foldl op b) := by
    intro l
    induction l with
    | nil => intro a b; rfl
    | cons x l ih => intro a b; simp only [List.foldl_cons]; rw [assoc, ih]
  induction l with
  | nil => rfl
  | cons x l ih =>
    simp only [List.foldl_cons, List.foldr_cons]
    rw [one_l, ← one_r x, shift, ih, one_r]
theorem M2.mul_assoc' (a b c : M2 R) : a * b * c = a * (b * c) :=
  M2.toMatrix_inj (by simp only [M2.toMatrix_mul, mul_assoc])
theorem M3.mul_assoc' (a b c : M3 R) : a * b * c = a * (b * c) :=
  M3.toMatrix_inj (by simp only [M3.toMatrix_mul, mul_assoc])
theorem M4.mul_assoc' (a b c : M4 R) : a * b * c = a * (b * c) :=
  M4.toMatrix_inj (by simp only [M4.toMatrix_mul, mul_assoc])
theorem Quat.mul_assoc' (a b c : Quat R) : a * b * c = a * (b * c) :=
  Quat.toH_inj (by simp only [Quat.toH_mul, mul_assoc])
/-- **in exact arithmetic `Product` is also the right fold** (so what distinguishes the impl from a
wrong one is the operand order, shown above to matter; in floating point the nesting matters as
well, which the native layer checks) -/
theorem productList_foldr (l2 : List (M2 R)) (l3 : List (M3 R)) (l4 : List (M4 R)) (lq : List (Quat R)) :
    M2.productList l2 = l2.foldr (· * ·) M2.one ∧ M3.productList l3 = l3.foldr (· * ·) M3.one ∧
    M4.productList l4 = l4.foldr (· * ·) M4.one ∧ Quat.productList lq = lq.foldr (· * ·) Quat.one := by
  refine ⟨foldl_eq_foldr_of_monoid _ _ M2.mul_assoc' ?_ ?_ _, foldl_eq_foldr_of_monoid _ _ M3.mul_assoc' ?_ ?_ _,
    foldl_eq_foldr_of_monoid _ _ M4.mul_assoc' ?_ ?_ _, foldl_eq_foldr_of_monoid _ _ Quat.mul_assoc' ?_ ?_ _⟩
  · intro a; exact M2.toMatrix_inj (by simp only [M2.toMatrix_mul, M2.toMatrix_one, one_mul])
  · intro a; exact M2.toMatrix_inj (by simp only [M2.toMatrix_mul, M2.toMatrix_one, mul_one])
  · intro a; exact M3.toMatrix_inj (by simp only [M3.toMatrix_mul, M3.toMatrix_one, one_mul])
  · intro a; exact M3.toMatrix_inj (by simp only [M3.toMatrix_mul, M3.toMatrix_one, mul_one])
  · intro a; exact M4.toMatrix_inj (by simp only [M4.toMatrix_mul, M4.toMatrix_one, one_mul])
  · intro a; exact M4.toMatrix_inj (by simp only [M4.toMatrix_mul, M4.toMatrix_one, mul_one])
  · intro a; exact Quat.toH_inj (by simp only [Quat.toH_mul, Quat.toH_one, one_mul])
  · intro a; exact Quat.toH_inj (by simp only [Quat.toH_mul, Quat.toH_one, mul_one])
/-- and the product of the reversed iterator is the product with every `*` flipped -/
theorem M4.productList_reverse (l : List (M4 R)) :
    M4.productList l.reverse = l.foldr (fun a acc => acc * a) M4.one := by
  simp [M4.productList, List.foldl_reverse]

/-! ## (b) scalar on the left -/

/-- `s * v`, `s / v`: every component is the primitive operation with the scalar on the left
(vectors, points; all dimensions) -/
theorem left_scalar_components (s : F) (v1 : V1 F) (v2 : V2 F) (v3 : V3 F) (v4 : V4 F)
    (p1 : P1 F) (p2 : P2 F) (p3 : P3 F) :
    s * v1 = ⟨s * v1.x⟩ ∧ s / v1 = ⟨s / v1.x⟩ ∧
    s * v2 = ⟨s * v2.x, s * v2.y⟩ ∧ s / v2 = ⟨s / v2.x, s / v2.y⟩ ∧
    s * v3 = ⟨s * v3.x, s * v3.y, s * v3.z⟩ ∧ s / v3 = ⟨s / v3.x, s / v3.y, s / v3.z⟩ ∧
    s * v4 = ⟨s * v4.x, s * v4.y, s * v4.z, s * v4.w⟩ ∧ s / v4 = ⟨s / v4.x, s / v4.y, s / v4.z, s / v4.w⟩ ∧
    s * p1 = ⟨s * p1.x⟩ ∧ s / p1 = ⟨s / p1.x⟩ ∧
    s * p2 = ⟨s * p2.x, s * p2.y⟩ ∧ s / p2 = ⟨s / p2.x, s / p2.y⟩ ∧
    s * p3 = ⟨s * p3.x, s * p3.y, s * p3.z⟩ ∧ s / p3 = ⟨s / p3.x, s / p3.y, s / p3.z⟩ :=
  ⟨V1.smul_def s v1, V1.sdiv_def s v1, V2.smul_def s v2, V2.sdiv_def s v2, V3.smul_def s v3,
   V3.sdiv_def s v3, V4.smul_def s v4, V4.sdiv_def s v4, P1.smul_def s p1, P1.sdiv_def s p1,
   P2.smul_def s p2, P2.sdiv_def s p2, P3.smul_def s p3, P3.sdiv_def s p3⟩
/-- matrices (down to the elements) and the quaternion -/
theorem left_scalar_components_mat (s : F) (m2 : M2 F) (m3 : M3 F) (m4 : M4 F) (q : Quat F) :
    s * m2 = ⟨⟨s * m2.x.x, s * m2.x.y⟩, ⟨s * m2.y.x, s * m2.y.y⟩⟩ ∧
    s / m2 = ⟨⟨s / m2.x.x, s / m2.x.y⟩, ⟨s / m2.y.x, s / m2.y.y⟩⟩ ∧
    s * m3 = ⟨⟨s * m3.x.x, s * m3.x.y, s * m3.x.z⟩, ⟨s * m3.y.x, s * m3.y.y, s * m3.y.z⟩,
      ⟨s * m3.z.x, s * m3.z.y, s * m3.z.z⟩⟩ ∧
    s / m3 = ⟨⟨s / m3.x.x, s / m3.x.y, s / m3.x.z⟩, ⟨s / m3.y.x, s / m3.y.y, s / m3.y.z⟩,
      ⟨s / m3.z.x, s / m3.z.y, s / m3.z.z⟩⟩ ∧
    s * m4 = ⟨⟨s * m4.x.x, s * m4.x.y, s * m4.x.z, s * m4.x.w⟩, ⟨s * m4.y.x, s * m4.y.y, s * m4.y.z, s * m4.y.w⟩,
      ⟨s * m4.z.x, s * m4.z.y, s * m4.z.z, s * m4.z.w⟩, ⟨s * m4.w.x, s * m4.w.y, s * m4.w.z, s * m4.w.w⟩⟩ ∧
    s / m4 = ⟨⟨s / m4.x.x, s / m4.x.y, s / m4.x.z, s / m4.x.w⟩, ⟨s / m4.y.x, s / m4.y.y, s / m4.y.z, s / m4.y.w⟩,
      ⟨s / m4.z.x, s / m4.z.y, s / m4.z.z, s / m4.z.w⟩, ⟨s / m4.w.x, s / m4.w.y, s / m4.w.z, s / m4.w.w⟩⟩ ∧
    s * q = ⟨⟨s * q.v.x, s * q.v.y, s * q.v.z⟩, s * q.s⟩ ∧
    s / q = ⟨⟨s / q.v.x, s / q.v.y, s / q.v.z⟩, s / q.s⟩ := by
  refine ⟨?_, ?_, ?_, ?_, ?_, ?_, ?_, ?_⟩ <;> simp [Quat.fromSv]
/-- `s % v`: the remainder of the scalar by each component (the scalar is the dividend) -/
theorem left_scalar_rem_components {A : Type} [FRem A] (s : A) (v1 : V1 A) (v2 : V2 A) (v3 : V3 A)
    (v4 : V4 A) (m2 : M2 A) (m3 : M3 A) (m4 : M4 A) :
    V1.srem s v1 = ⟨FRem.frem s v1.x⟩ ∧ V2.srem s v2 = ⟨FRem.frem s v2.x, FRem.frem s v2.y⟩ ∧
    V3.srem s v3 = ⟨FRem.frem s v3.x, FRem.frem s v3.y, FRem.frem s v3.z⟩ ∧
    V4.srem s v4 = ⟨FRem.frem s v4.x, FRem.frem s v4.y, FRem.frem s v4.z, FRem.frem s v4.w⟩ ∧
    M2.srem s m2 = ⟨⟨FRem.frem s m2.x.x, FRem.frem s m2.x.y⟩, ⟨FRem.frem s m2.y.x, FRem.frem s m2.y.y⟩⟩ ∧
    (M3.srem s m3).z.y = FRem.frem s m3.z.y ∧ (M4.srem s m4).w.x = FRem.frem s m4.w.x :=
  ⟨rfl, rfl, rfl, rfl, rfl, rfl, rfl⟩

/-- multiplication by a scalar commutes: `s * v = v * s` (commutative ring) -/
theorem left_scalar_mul_comm (s : R) (v1 : V1 R) (v2 : V2 R) (v3 : V3 R) (v4 : V4 R)
    (m2 : M2 R) (m3 : M3 R) (m4 : M4 R) (q : Quat R) :
    s * v1 = v1 * s ∧ s * v2 = v2 * s ∧ s * v3 = v3 * s ∧ s * v4 = v4 * s ∧
    s * m2 = m2 * s ∧ s * m3 = m3 * s ∧ s * m4 = m4 * s ∧ s * q = q * s := by
  refine ⟨?_, ?_, ?_, ?_, ?_, ?_, ?_, ?_⟩
  · cg_ring
  · cg_ring
  · cg_ring
  · cg_ring
  · apply M2.toMatrix_inj; rw [M2.toMatrix_smul]; ext i j; fin_cases i <;> fin_cases j <;> simp [M2.toMatrix]
  · apply M3.toMatrix_inj; rw [M3.toMatrix_smul]; ext i j; fin_cases i <;> fin_cases j <;> simp [M3.toMatrix]
  · apply M4.toMatrix_inj; rw [M4.toMatrix_smul]; ext i j; fin_cases i <;> fin_cases j <;> simp [M4.toMatrix]
  · apply Quat.toH_inj; rw [Quat.toH_smul]; ext <;> simp [Quat.fromSv]
/-- **division does not: `s / v ≠ v / s` in general** -- the left-scalar impl cannot be obtained by
swapping the operands of the right-scalar one -/
theorem left_scalar_div_ne :
    (2 : ℚ) / (⟨1⟩ : V1 ℚ) ≠ (⟨1⟩ : V1 ℚ) / (2 : ℚ) ∧
    (2 : ℚ) / (⟨1, 1⟩ : V2 ℚ) ≠ (⟨1, 1⟩ : V2 ℚ) / (2 : ℚ) ∧
    (2 : ℚ) / (⟨1, 1, 1⟩ : V3 ℚ) ≠ (⟨1, 1, 1⟩ : V3 ℚ) / (2 : ℚ) ∧
    (2 : ℚ) / (⟨1, 1, 1, 1⟩ : V4 ℚ) ≠ (⟨1, 1, 1, 1⟩ : V4 ℚ) / (2 : ℚ) ∧
    (2 : ℚ) / (⟨⟨1, 1⟩, ⟨1, 1⟩⟩ : M2 ℚ) ≠ (⟨⟨1, 1⟩, ⟨1, 1⟩⟩ : M2 ℚ) / (2 : ℚ) ∧
    (2 : ℚ) / (⟨⟨1, 1, 1⟩, 1⟩ : Quat ℚ) ≠ (⟨⟨1, 1, 1⟩, 1⟩ : Quat ℚ) / (2 : ℚ) := by
  refine ⟨?_, ?_, ?_, ?_, ?_, ?_⟩
  · intro h; have := congrArg (fun v => v.x) h; norm_num at this
  · intro h; have := congrArg (fun v => v.x) h; norm_num at this
  · intro h; have := congrArg (fun v => v.x) h; norm_num at this
  · intro h; have := congrArg (fun v => v.x) h; norm_num at this
  · intro h; have := congrArg (fun m => m.x.x) h; norm_num at this
  · intro h; have := congrArg (fun q => q.s) h; norm_num [Quat.fromSv] at this
/-- the values: `2 / (1, 4) = (2, 1/2)` whereas `(1, 4) / 2 = (1/2, 2)` -/
example : (2 : ℚ) / (⟨1, 4⟩ : V2 ℚ) = ⟨2, 1 / 2⟩ ∧ (⟨1, 4⟩ : V2 ℚ) / (2 : ℚ) = ⟨1 / 2, 2⟩ := by
  constructor <;> ext <;> norm_num

/-- Rust's integer `%` (truncated remainder), to exhibit the `%` forms on concrete values -/
local instance : FRem ℤ := ⟨Int.tmod⟩
/-- **`s % v ≠ v % s` in general**: `7 % (2, 3) = (1, 1)` whereas `(2, 3) % 7 = (2, 3)` -/
theorem left_scalar_rem_ne :
    V2.srem (7 : ℤ) ⟨2, 3⟩ = ⟨1, 1⟩ ∧ V2.rem (⟨2, 3⟩ : V2 ℤ) 7 = ⟨2, 3⟩ ∧
    V2.srem (7 : ℤ) ⟨2, 3⟩ ≠ V2.rem (⟨2, 3⟩ : V2 ℤ) 7 := by
  refine ⟨by decide, by decide, by decide⟩

/-! ## (c) straight-line programs -/

/-- evaluation is compositional: running `p ++ q` is running `q` on the registers left by `p` -/
theorem runProg_append {τ : Type} (p q : List (Instr τ)) (regs : Nat → τ) :
    runProg (p ++ q) regs = runProg q (runProg p regs) := by
  simp [runProg, List.foldl_append]
theorem runProg_nil {τ : Type} (regs : Nat → τ) : runProg [] regs = regs := rfl
theorem runProg_cons {τ : Type} (i : Instr τ) (p : List (Instr τ)) (regs : Nat → τ) :
    runProg (i :: p) regs = runProg p (i.step regs) := rfl
/-- the destination register of an instruction -/
def Instr.dst {τ : Type} : Instr τ → Nat
  | .bin _ d _ _ _ _ _ => d
  | .un _ d _ _ => d
/-- frame property: a register that no instruction writes keeps its value -/
theorem runProg_frame {τ : Type} (p : List (Instr τ)) (regs : Nat → τ) (k : Nat)
    (h : ∀ i ∈ p, Instr.dst i ≠ k) : runProg p regs k = regs k := by
  induction p generalizing regs with
  | nil => rfl
  | cons i p ih =>
    rw [runProg_cons, ih _ (fun j hj => h j (by simp [hj]))]
    have hi : Instr.dst i ≠ k := h i (by simp)
    cases i <;> simp [Instr.step, Instr.dst] at hi ⊢ <;> intro e <;> exact absurd e.symm hi
/-- the forms do not enter: two programs with the same erasure (the same operations on the same
registers, written with whatever mixture of by-value / by-reference / compound-assignment forms)
compute the same registers -/
theorem runProg_forms {τ : Type} (p q : List (Instr τ)) (h : p.map Instr.erase = q.map Instr.erase)
    (regs : Nat → τ) : runProg p regs = runProg q regs := by
  rw [runProg_erase p, runProg_erase q, h]
/-- e.g. `a = &b + c` against `a = b; a += &c`-style spellings of one addition -/
example {τ : Type} (op : τ → τ → τ) (regs : Nat → τ) :
    runProg [.bin op 0 1 2 .ref .val false] regs = runProg [.bin op 0 1 2 .val .ref true] regs :=
  runProg_forms _ _ rfl regs
/-- the result of a program on a register depends only on the instructions and the initial
registers (determinism is functionality in the model); stated as congruence -/
theorem runProg_congr {τ : Type} (p : List (Instr τ)) (r1 r2 : Nat → τ) (h : ∀ k, r1 k = r2 k) :
    runProg p r1 = runProg p r2 := by
  rw [funext h]

end Cg.C17
