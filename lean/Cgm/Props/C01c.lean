import Cgm.Props.C01b
/-!
# C01c — matrices form an additive group; linearity in the MATRIX argument

`Cgm/Props/C01.lean` (`M*.ring_laws`) has associativity of the product, both distributivities,
the two unit laws and linearity of `A * v` in the VECTOR argument.  Missing there (third audit,
C01 row "ring, acting linearly"): the additive-group laws of `Matrix2/3/4`, `zero` absorbing for
the product, the compatibility of the scalar multiple with the product, and linearity of `A * v`
in the MATRIX argument.  All over a commutative ring `K` (same typeclass as `Props/C01.lean`).
The scalar multiple of a matrix is `A * s` (`HMul (M* α) α (M* α)`, the model of `Matrix * S`).
-/
set_option linter.unusedSectionVars false
namespace Cg.C01
open Cg
variable {K : Type} [CommRing K]

/-! ## additive group: `(M*, +, zero, -)` is an abelian group, `a - b = a + (-b)` -/
theorem M2.add_group_laws (a b c : M2 K) :
    (a + b) + c = a + (b + c) ∧ a + b = b + a ∧ M2.zero + a = a ∧ a + M2.zero = a ∧
    a + (-a) = M2.zero ∧ (-a) + a = M2.zero ∧ a - b = a + (-b) ∧ a - a = M2.zero ∧
    -(-a) = a ∧ -(a + b) = (-a) + (-b) := by
  refine ⟨?_, ?_, ?_, ?_, ?_, ?_, ?_, ?_, ?_, ?_⟩ <;> cg_ring
theorem M3.add_group_laws (a b c : M3 K) :
    (a + b) + c = a + (b + c) ∧ a + b = b + a ∧ M3.zero + a = a ∧ a + M3.zero = a ∧
    a + (-a) = M3.zero ∧ (-a) + a = M3.zero ∧ a - b = a + (-b) ∧ a - a = M3.zero ∧
    -(-a) = a ∧ -(a + b) = (-a) + (-b) := by
  refine ⟨?_, ?_, ?_, ?_, ?_, ?_, ?_, ?_, ?_, ?_⟩ <;> cg_ring
theorem M4.add_group_laws (a b c : M4 K) :
    (a + b) + c = a + (b + c) ∧ a + b = b + a ∧ M4.zero + a = a ∧ a + M4.zero = a ∧
    a + (-a) = M4.zero ∧ (-a) + a = M4.zero ∧ a - b = a + (-b) ∧ a - a = M4.zero ∧
    -(-a) = a ∧ -(a + b) = (-a) + (-b) := by
  refine ⟨?_, ?_, ?_, ?_, ?_, ?_, ?_, ?_, ?_, ?_⟩ <;> cg_ring

/-! ## `zero` absorbs the product; negation and subtraction pass through the product -/
theorem M2.mul_zero_laws (a b c : M2 K) :
    M2.zero * a = M2.zero ∧ a * M2.zero = M2.zero ∧ (-a) * b = -(a * b) ∧ a * (-b) = -(a * b) ∧
    (a - b) * c = a * c - b * c ∧ a * (b - c) = a * b - a * c := by
  refine ⟨?_, ?_, ?_, ?_, ?_, ?_⟩ <;> cg_ring
theorem M3.mul_zero_laws (a b c : M3 K) :
    M3.zero * a = M3.zero ∧ a * M3.zero = M3.zero ∧ (-a) * b = -(a * b) ∧ a * (-b) = -(a * b) ∧
    (a - b) * c = a * c - b * c ∧ a * (b - c) = a * b - a * c := by
  refine ⟨?_, ?_, ?_, ?_, ?_, ?_⟩ <;> cg_ring
theorem M4.mul_zero_laws (a b c : M4 K) :
    M4.zero * a = M4.zero ∧ a * M4.zero = M4.zero ∧ (-a) * b = -(a * b) ∧ a * (-b) = -(a * b) ∧
    (a - b) * c = a * c - b * c ∧ a * (b - c) = a * b - a * c := by
  refine ⟨?_, ?_, ?_, ?_, ?_, ?_⟩ <;> apply M4.toMatrix_inj <;>
    simp only [M4.toMatrix_mul, M4.toMatrix_zero, M4.toMatrix_neg, M4.toMatrix_sub,
      Matrix.zero_mul, Matrix.mul_zero, Matrix.neg_mul, Matrix.mul_neg, Matrix.sub_mul,
      Matrix.mul_sub]

/-! ## the scalar multiple `A * s` is a module action compatible with the product -/
theorem M2.smul_laws (a b : M2 K) (s t : K) :
    (a + b) * s = a * s + b * s ∧ a * (s + t) = a * s + a * t ∧ (a * s) * t = a * (s * t) ∧
    a * (1 : K) = a ∧ a * (0 : K) = M2.zero ∧ (M2.zero : M2 K) * s = M2.zero ∧
    (a * s) * b = (a * b) * s ∧ a * (b * s) = (a * b) * s ∧
    (M2.one : M2 K) * s = M2.fromValue s ∧ a * (-1 : K) = -a ∧ s * a = a * s := by
  refine ⟨?_, ?_, ?_, ?_, ?_, ?_, ?_, ?_, ?_, ?_, ?_⟩ <;> cg_ring
theorem M3.smul_laws (a b : M3 K) (s t : K) :
    (a + b) * s = a * s + b * s ∧ a * (s + t) = a * s + a * t ∧ (a * s) * t = a * (s * t) ∧
    a * (1 : K) = a ∧ a * (0 : K) = M3.zero ∧ (M3.zero : M3 K) * s = M3.zero ∧
    (a * s) * b = (a * b) * s ∧ a * (b * s) = (a * b) * s ∧
    (M3.one : M3 K) * s = M3.fromValue s ∧ a * (-1 : K) = -a ∧ s * a = a * s := by
  refine ⟨?_, ?_, ?_, ?_, ?_, ?_, ?_, ?_, ?_, ?_, ?_⟩ <;> cg_ring
theorem M4.smul_laws (a b : M4 K) (s t : K) :
    (a + b) * s = a * s + b * s ∧ a * (s + t) = a * s + a * t ∧ (a * s) * t = a * (s * t) ∧
    a * (1 : K) = a ∧ a * (0 : K) = M4.zero ∧ (M4.zero : M4 K) * s = M4.zero ∧
    (a * s) * b = (a * b) * s ∧ a * (b * s) = (a * b) * s ∧
    (M4.one : M4 K) * s = M4.fromValue s ∧ a * (-1 : K) = -a ∧ s * a = a * s := by
  refine ⟨?_, ?_, ?_, ?_, ?_, ?_, ?_, ?_, ?_, ?_, ?_⟩ <;> cg_ring

/-! ## linearity of `A * v` in the matrix argument (and the remaining vector-side laws) -/
theorem M2.mulVec_linear_left (a b : M2 K) (u v : V2 K) (s : K) :
    (a + b) * v = a * v + b * v ∧ (a * s) * v = (a * v) * s ∧ (M2.zero : M2 K) * v = V2.zero ∧
    (-a) * v = -(a * v) ∧ (a - b) * v = a * v - b * v ∧
    a * (V2.zero : V2 K) = V2.zero ∧ a * (-v) = -(a * v) ∧ a * (u - v) = a * u - a * v := by
  refine ⟨?_, ?_, ?_, ?_, ?_, ?_, ?_, ?_⟩ <;> cg_ring
theorem M3.mulVec_linear_left (a b : M3 K) (u v : V3 K) (s : K) :
    (a + b) * v = a * v + b * v ∧ (a * s) * v = (a * v) * s ∧ (M3.zero : M3 K) * v = V3.zero ∧
    (-a) * v = -(a * v) ∧ (a - b) * v = a * v - b * v ∧
    a * (V3.zero : V3 K) = V3.zero ∧ a * (-v) = -(a * v) ∧ a * (u - v) = a * u - a * v := by
  refine ⟨?_, ?_, ?_, ?_, ?_, ?_, ?_, ?_⟩ <;> cg_ring
theorem M4.mulVec_linear_left (a b : M4 K) (u v : V4 K) (s : K) :
    (a + b) * v = a * v + b * v ∧ (a * s) * v = (a * v) * s ∧ (M4.zero : M4 K) * v = V4.zero ∧
    (-a) * v = -(a * v) ∧ (a - b) * v = a * v - b * v ∧
    a * (V4.zero : V4 K) = V4.zero ∧ a * (-v) = -(a * v) ∧ a * (u - v) = a * u - a * v := by
  refine ⟨?_, ?_, ?_, ?_, ?_, ?_, ?_, ?_⟩ <;> cg_ring

/-- the general bilinear form: `(a*s + b*t) * (u*p + v*q)` expands into the four products -/
theorem M4.mulVec_bilinear (a b : M4 K) (u v : V4 K) (s t p q : K) :
    (a * s + b * t) * (u * p + v * q) =
      (a * u) * (s * p) + (a * v) * (s * q) + (b * u) * (t * p) + (b * v) * (t * q) := by cg_ring
theorem M3.mulVec_bilinear (a b : M3 K) (u v : V3 K) (s t p q : K) :
    (a * s + b * t) * (u * p + v * q) =
      (a * u) * (s * p) + (a * v) * (s * q) + (b * u) * (t * p) + (b * v) * (t * q) := by cg_ring
theorem M2.mulVec_bilinear (a b : M2 K) (u v : V2 K) (s t p q : K) :
    (a * s + b * t) * (u * p + v * q) =
      (a * u) * (s * p) + (a * v) * (s * q) + (b * u) * (t * p) + (b * v) * (t * q) := by cg_ring

/-- the laws hold in particular over ℤ ("no overflow") and wrapping 32-bit arithmetic -/
example (a b : M4 ℤ) (v : V4 ℤ) : (a + b) * v = a * v + b * v := (M4.mulVec_linear_left a b v v 0).1
example (a b : M3 (ZMod (2 ^ 32))) (v : V3 (ZMod (2 ^ 32))) (s : ZMod (2 ^ 32)) :
    (a * s) * v = (a * v) * s := (M3.mulVec_linear_left a b v v s).2.1
/-- non-vacuity: concrete values over ℤ -/
example : ((M2.new 1 2 3 4 : M2 ℤ) + M2.new 5 6 7 8) * (⟨1, -1⟩ : V2 ℤ) = ⟨-4, -4⟩ := by decide
example : ((M2.new 1 2 3 4 : M2 ℤ) * (3 : ℤ)) * (⟨1, -1⟩ : V2 ℤ) = ⟨-6, -6⟩ := by decide

end Cg.C01
